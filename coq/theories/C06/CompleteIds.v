(* C06 — the identities of repair-tree nodes (the [id] fields of C06/Mirror.v's [rtree], which stand
   for the addresses of the Cactus nodes): along every run of the search mirror an identity names
   ONE tree, so the pointer-equality shortcut of [rtree_eqb] (Cactus::eq) never equates two trees
   that stand for different sets of repair sequences.  This is what the `old.repairs ==
   new.repairs` test of the merge closure needs in order not to lose a sequence; it is used by the
   completeness proof (C06/CompleteProofs.v).  Proofs only; nothing here changes a definition. *)
From Coq Require Import List Arith NArith Bool Lia.
From GV Require Import Common.Outcome Base.Grammar LR.Automaton Repair.Semantics Repair.Search
  C06.Model C06.Spec C06.Mirror C06.SearchSpec C06.SearchProofs.
Import ListNotations.

(* ---- induction on repair trees (the alternatives of a Merge are a nested list) ---------------- *)
Section RtreeInd.
Variable P : rtree -> Prop.
Hypothesis HT : P RTerm.
Hypothesis HR : forall i r pa, P pa -> P (RRep i r pa).
Hypothesis HM : forall i r alts pa, Forall P alts -> P pa -> P (RMrg i r alts pa).

Fixpoint rtree_ind2 (t : rtree) : P t :=
  match t with
  | RTerm => HT
  | RRep i r pa => HR i r pa (rtree_ind2 pa)
  | RMrg i r alts pa =>
      HM i r alts pa
         ((fix go (l : list rtree) : Forall P l :=
             match l with
             | [] => Forall_nil P
             | a :: l' => Forall_cons a (rtree_ind2 a) (go l')
             end) alts)
         (rtree_ind2 pa)
  end.
End RtreeInd.

(* ---- identities -------------------------------------------------------------------------------- *)
Definition tid (t : rtree) : option N :=
  match t with RTerm => None | RRep i _ _ => Some i | RMrg i _ _ _ => Some i end.

(* the trees a node points to: its parent, and the alternative chains of a Merge *)
Definition kids (t : rtree) : list rtree :=
  match t with RTerm => [] | RRep _ _ pa => [pa] | RMrg _ _ alts pa => pa :: alts end.

(* [uok k S]: S is a set of trees closed under [kids], all identities in it are below the next
   free identity k, and an identity names one tree *)
Record uok (k : N) (S : rtree -> Prop) : Prop := mkUok {
  u_lt : forall a i, S a -> tid a = Some i -> (i < k)%N;
  u_det : forall a b i, S a -> S b -> tid a = Some i -> tid b = Some i -> a = b;
  u_closed : forall a c, S a -> In c (kids a) -> S c
}.

Fixpoint alts_eqb (x y : list rtree) : bool :=
  match x, y with
  | [], [] => true
  | a1 :: x', b1 :: y' => rtree_eqb a1 b1 && alts_eqb x' y'
  | _, _ => false
  end.

Lemma rtree_eqb_mrg i r al pa j s bl pb :
  rtree_eqb (RMrg i r al pa) (RMrg j s bl pb) =
  N.eqb i j || (repair_eqb r s && alts_eqb al bl && rtree_eqb pa pb).
Proof.
  reflexivity.
Qed.

Lemma repair_eqb_eq r s : repair_eqb r s = true -> r = s.
Proof.
  destruct r as [x| |], s as [y| |]; cbn [repair_eqb]; intros H; try discriminate; try reflexivity.
  apply N.eqb_eq in H. subst y. reflexivity.
Qed.

Lemma paths_of_unfold a b : unfold a = unfold b -> (a = RTerm <-> b = RTerm) -> paths a = paths b.
Proof.
  intros Hu Hs. destruct a as [|i r pa|i r al pa], b as [|j s pb|j s bl pb]; try reflexivity;
    try exact Hu;
    try (exfalso; destruct Hs as (H1 & H2); (discriminate (H1 eq_refl) || discriminate (H2 eq_refl))).
Qed.

(* the equality test of the merge closure is sound for the sequences the trees stand for *)
Lemma rtree_eqb_unfold k S : uok k S ->
  forall a, S a -> forall b, S b -> rtree_eqb a b = true -> unfold a = unfold b /\ paths a = paths b.
Proof.
  intros HU a. induction a as [|i r pa IH|i r al pa IHal IHpa] using rtree_ind2; intros Sa b Sb H.
  - destruct b; cbn [rtree_eqb] in H; try discriminate. split; reflexivity.
  - destruct b as [|j s pb|j s bl pb]; cbn [rtree_eqb] in H; try discriminate.
    apply orb_true_iff in H. destruct H as [H|H].
    + apply N.eqb_eq in H. subst j.
      rewrite (u_det k S HU _ _ i Sa Sb eq_refl eq_refl). split; reflexivity.
    + apply andb_true_iff in H. destruct H as (Hr & Hp). apply repair_eqb_eq in Hr. subst s.
      assert (Spa : S pa) by (apply (u_closed k S HU _ pa Sa); left; reflexivity).
      assert (Spb : S pb) by (apply (u_closed k S HU _ pb Sb); left; reflexivity).
      destruct (IH Spa pb Spb Hp) as (Eu & _).
      assert (E : unfold (RRep i r pa) = unfold (RRep j r pb)) by (rewrite !unfold_rep, Eu; reflexivity).
      split; [exact E|]. apply paths_of_unfold; [exact E|]. split; discriminate.
  - destruct b as [|j s pb|j s bl pb]; try (cbn [rtree_eqb] in H; discriminate).
    rewrite rtree_eqb_mrg in H.
    apply orb_true_iff in H. destruct H as [H|H].
    + apply N.eqb_eq in H. subst j.
      rewrite (u_det k S HU _ _ i Sa Sb eq_refl eq_refl). split; reflexivity.
    + apply andb_true_iff in H. destruct H as (H & Hp).
      apply andb_true_iff in H. destruct H as (Hr & Hal). apply repair_eqb_eq in Hr. subst s.
      assert (Spa : S pa) by (apply (u_closed k S HU _ pa Sa); left; reflexivity).
      assert (Spb : S pb) by (apply (u_closed k S HU _ pb Sb); left; reflexivity).
      destruct (IHpa Spa pb Spb Hp) as (Eu & _).
      assert (Sal : forall x, In x al -> S x) by (intros x Hx; apply (u_closed k S HU _ x Sa); right; exact Hx).
      assert (Sbl : forall x, In x bl -> S x) by (intros x Hx; apply (u_closed k S HU _ x Sb); right; exact Hx).
      assert (Ea : alt_paths al = alt_paths bl).
      { clear Sa Sb Hp Spa Spb Eu IHpa. revert bl Hal Sbl.
        induction al as [|a1 al IHl]; intros [|b1 bl] Hal Sbl; cbn [alts_eqb] in Hal; try discriminate;
          [reflexivity|].
        apply andb_true_iff in Hal. destruct Hal as (H1 & H2).
        apply Forall_cons_iff in IHal. destruct IHal as (IH1 & IHal).
        cbn [alt_paths]. f_equal.
        - apply (IH1 (Sal a1 (or_introl eq_refl)) b1 (Sbl b1 (or_introl eq_refl)) H1).
        - apply IHl; [exact IHal|intros x Hx; apply Sal; right; exact Hx|exact H2
                     |intros x Hx; apply Sbl; right; exact Hx]. }
      assert (E : unfold (RMrg i r al pa) = unfold (RMrg j r bl pb))
        by (rewrite !unfold_mrg, Eu, Ea; reflexivity).
      split; [exact E|]. apply paths_of_unfold; [exact E|]. split; discriminate.
Qed.

(* ---- growing the set of allocated trees -------------------------------------------------------- *)
Definition ext (k : N) (S : rtree -> Prop) (k' : N) (S' : rtree -> Prop) : Prop :=
  uok k' S' /\ (forall x, S x -> S' x) /\ (k <= k')%N.

Lemma ext_refl k S : uok k S -> ext k S k S.
Proof. intros H. split; [exact H|]. split; [intros x Hx; exact Hx|lia]. Qed.

Lemma ext_trans k1 S1 k2 S2 k3 S3 : ext k1 S1 k2 S2 -> ext k2 S2 k3 S3 -> ext k1 S1 k3 S3.
Proof.
  intros (_ & H1 & L1) (U & H2 & L2). split; [exact U|]. split; [intros x Hx; apply H2, H1, Hx|lia].
Qed.

(* allocating one node with the next free identity, pointing to allocated trees *)
Lemma ext_add k S t : uok k S -> tid t = Some k -> (forall c, In c (kids t) -> S c) ->
  ext k S (k + 1)%N (fun x => S x \/ x = t).
Proof.
  intros HU Ht Hk. split; [|split; [intros x Hx; left; exact Hx|lia]].
  split.
  - intros a i [Ha| ->] Hi.
    + pose proof (u_lt k S HU a i Ha Hi). lia.
    + rewrite Ht in Hi. injection Hi as <-. lia.
  - intros a b i [Ha| ->] [Hb| ->] Hia Hib.
    + exact (u_det k S HU a b i Ha Hb Hia Hib).
    + rewrite Ht in Hib. injection Hib as <-. pose proof (u_lt k S HU a k Ha Hia). lia.
    + rewrite Ht in Hia. injection Hia as <-. pose proof (u_lt k S HU b k Hb Hib). lia.
    + reflexivity.
  - intros a c [Ha| ->] Hc.
    + left. exact (u_closed k S HU a c Ha Hc).
    + left. exact (Hk c Hc).
Qed.

(* ---- the neighbours of a node ------------------------------------------------------------------ *)
Section Nbrs.
Variable fixed : bool.
Variable g : grammar.
Variable A : automaton.
Variable input : list N.
Variable ifuel : nat.
Variable costs : list N.

Lemma nb_insert_ids n : forall toks ctr res S,
  uok ctr S -> S (n_rep n) ->
  nb_insert g A input ifuel costs n toks ctr = Done res ->
  exists S', ext ctr S (snd res) S' /\ forall cn, In cn (fst res) -> S' (n_rep (snd cn)).
Proof.
  induction toks as [|t ts IH]; intros ctr res S HU Hn H; cbn [nb_insert] in H.
  - injection H as <-. exists S. split; [apply ext_refl; exact HU|intros cn []].
  - destruct (N.eqb t (eof g)); [exact (IH _ _ _ HU Hn H)|].
    destruct (lr_cactus1 g A input ifuel (Some t) (n_stk n) (n_la n)) as [s|s|s|s| |];
      try discriminate; try exact (IH _ _ _ HU Hn H).
    destruct (add_cost (n_cf n) (tcost costs t)) as [cf|]; [|exact (IH _ _ _ HU Hn H)].
    destruct (nb_insert g A input ifuel costs n ts (ctr + 1)) as [rc| |] eqn:Hrc; cbn [obind] in H; try discriminate.
    injection H as <-. cbn [fst snd].
    pose proof (ext_add ctr S (RRep ctr (Ins t) (n_rep n)) HU eq_refl) as E1.
    assert (Hk : forall c, In c (kids (RRep ctr (Ins t) (n_rep n))) -> S c)
      by (intros c [<-|[]]; exact Hn).
    specialize (E1 Hk). destruct E1 as (U1 & I1 & L1).
    destruct (IH _ _ _ U1 (I1 _ Hn) Hrc) as (S' & E2 & Hall).
    exists S'. split.
    + eapply ext_trans; [|exact E2]. split; [exact U1|split; [exact I1|exact L1]].
    + intros cn [<-|Hin]; [|exact (Hall cn Hin)]. cbn [snd n_rep].
      destruct E2 as (_ & I2 & _). apply I2. right. reflexivity.
Qed.

Lemma nb_delete_ids n ctr res S :
  uok ctr S -> S (n_rep n) ->
  nb_delete g input costs n ctr = Done res ->
  exists S', ext ctr S (snd res) S' /\ forall cn, In cn (fst res) -> S' (n_rep (snd cn)).
Proof.
  intros HU Hn H. unfold nb_delete in H.
  destruct (Nat.eqb (n_la n) (length input)).
  { injection H as <-. exists S. split; [apply ext_refl; exact HU|intros cn []]. }
  destruct (add_cost (n_cf n) (tcost costs (la g input (n_la n)))) as [cf|]; injection H as <-.
  - eexists. split; [apply (ext_add ctr S (RRep ctr Del (n_rep n)) HU eq_refl); intros c [<-|[]]; exact Hn|].
    intros cn [<-|[]]. right. reflexivity.
  - exists S. split; [apply ext_refl; exact HU|intros cn []].
Qed.

Lemma nb_shift_ids n ctr res S :
  uok ctr S -> S (n_rep n) ->
  nb_shift fixed g A input ifuel n ctr = Done res ->
  exists S', ext ctr S (snd res) S' /\ forall cn, In cn (fst res) -> S' (n_rep (snd cn)).
Proof.
  intros HU Hn H. unfold nb_shift in H.
  destruct (lr_cactus1 g A input ifuel None (n_stk n) (n_la n)) as [s|s|s|s| |]; try discriminate.
  - destruct (fixed || negb (same_states (n_stk n) s)); injection H as <-.
    + eexists. split; [apply (ext_add ctr S (RRep ctr Shf (n_rep n)) HU eq_refl); intros c [<-|[]]; exact Hn|].
      intros cn [<-|[]]. right. reflexivity.
    + exists S. split; [apply ext_refl; exact HU|intros cn []].
  - destruct (negb (same_states (n_stk n) s)); injection H as <-;
      (exists S; split; [apply ext_refl; exact HU|]).
    + intros cn [<-|[]]. exact Hn.
    + intros cn [].
  - destruct (negb (same_states (n_stk n) s)); injection H as <-;
      (exists S; split; [apply ext_refl; exact HU|]).
    + intros cn [<-|[]]. exact Hn.
    + intros cn [].
  - injection H as <-. exists S. split; [apply ext_refl; exact HU|intros cn []].
Qed.

Lemma neighbours_ids ea n ctr nb S :
  uok ctr S -> S (n_rep n) ->
  neighbours fixed g A input ifuel costs ea n ctr = Done nb ->
  exists S', ext ctr S (snd nb) S' /\ forall cn, In cn (fst nb) -> S' (n_rep (snd cn)).
Proof.
  intros HU Hn H. unfold neighbours in H.
  match type of H with obind ?X _ = _ => destruct X as [ins| |] eqn:Hins end; cbn [obind] in H; try discriminate.
  match type of H with obind ?X _ = _ => destruct X as [del| |] eqn:Hdel end; cbn [obind] in H; try discriminate.
  match type of H with obind ?X _ = _ => destruct X as [shf| |] eqn:Hshf end; cbn [obind] in H; try discriminate.
  injection H as <-. cbn [fst snd].
  assert (E1 : exists S1, ext ctr S (snd ins) S1 /\ forall cn, In cn (fst ins) -> S1 (n_rep (snd cn))).
  { assert (Hnone : Done ([] : list (N * node), ctr) = Done ins ->
                    exists S1, ext ctr S (snd ins) S1 /\ forall cn, In cn (fst ins) -> S1 (n_rep (snd cn))).
    { intros E. injection E as <-. exists S. split; [apply ext_refl; exact HU|intros cn []]. }
    destruct (last_repair (n_rep n)) as [[t| |]|]; try (apply Hnone; exact Hins);
      (destruct ea; [eapply nb_insert_ids; eassumption|apply Hnone; exact Hins]). }
  destruct E1 as (S1 & X1 & A1). pose proof X1 as (U1 & I1 & L1).
  assert (E2 : exists S2, ext (snd ins) S1 (snd del) S2 /\ forall cn, In cn (fst del) -> S2 (n_rep (snd cn))).
  { destruct ea; [eapply nb_delete_ids; [exact U1|exact (I1 _ Hn)|exact Hdel]|].
    injection Hdel as <-. exists S1. split; [apply ext_refl; exact U1|intros cn []]. }
  destruct E2 as (S2 & X2 & A2). pose proof X2 as (U2 & I2 & L2).
  destruct (nb_shift_ids n (snd del) shf S2 U2 (I2 _ (I1 _ Hn)) Hshf) as (S3 & X3 & A3).
  pose proof X3 as (U3 & I3 & L3).
  exists S3. split; [eapply ext_trans; [exact X1|eapply ext_trans; [exact X2|exact X3]]|].
  intros cn Hin. apply in_app_iff in Hin. destruct Hin as [Hin|Hin]; [apply I3, I2, A1, Hin|].
  apply in_app_iff in Hin. destruct Hin as [Hin|Hin]; [apply I3, A2, Hin|apply A3, Hin].
Qed.

End Nbrs.

(* ---- merging ----------------------------------------------------------------------------------- *)
Lemma merge_node_ids old new k S :
  uok k S -> S (n_rep old) -> S (n_rep new) ->
  exists S', ext k S (snd (merge_node old new k)) S' /\ S' (n_rep (fst (merge_node old new k))).
Proof.
  intros HU Ho Hn. unfold merge_node.
  destruct (rtree_eqb (n_rep old) (n_rep new)).
  { exists S. split; [apply ext_refl; exact HU|exact Ho]. }
  destruct (n_rep old) as [|i r pa|i r v pa] eqn:Er; cbn [fst snd n_rep].
  - exists S. split; [apply ext_refl; exact HU|]. rewrite Er. exact Ho.
  - eexists. split; [apply (ext_add k S (RMrg k r [n_rep new] pa) HU eq_refl)|right; reflexivity].
    intros c [<-|[<-|[]]]; [|exact Hn]. apply (u_closed k S HU _ _ Ho). left. reflexivity.
  - eexists. split; [apply (ext_add k S (RMrg k r (n_rep new :: v) pa) HU eq_refl)|right; reflexivity].
    intros c [<-|[<-|Hc]]; [|exact Hn|].
    + apply (u_closed k S HU _ _ Ho). left. reflexivity.
    + apply (u_closed k S HU _ _ Ho). right. exact Hc.
Qed.

Lemma find_merge_ids nbr : forall l k l' k' S,
  uok k S -> (forall x, In x l -> S (n_rep x)) -> S (n_rep nbr) ->
  find_merge nbr l k = Some (l', k') ->
  exists S', ext k S k' S' /\ forall x, In x l' -> S' (n_rep x).
Proof.
  induction l as [|x r IH]; intros k l' k' S HU Hl Hn H; cbn [find_merge] in H; [discriminate|].
  destruct (key_eqb x nbr).
  - destruct (merge_node_ids x nbr k S HU (Hl x (or_introl eq_refl)) Hn) as (S' & X & Hm).
    destruct (merge_node x nbr k) as [m c']. injection H as <- <-. cbn [fst snd] in *.
    exists S'. split; [exact X|]. destruct X as (_ & I & _).
    intros y [<-|Hy]; [exact Hm|apply I, Hl; right; exact Hy].
  - destruct (find_merge nbr r k) as [[r' c']|] eqn:Ef; [|discriminate]. injection H as <- <-.
    destruct (IH _ _ _ S HU (fun y Hy => Hl y (or_intror Hy)) Hn Ef) as (S' & X & Hall).
    exists S'. split; [exact X|]. destruct X as (_ & I & _).
    intros y [<-|Hy]; [apply I, Hl; left; reflexivity|exact (Hall y Hy)].
Qed.

Lemma upsert_ids nbr l k S :
  uok k S -> (forall x, In x l -> S (n_rep x)) -> S (n_rep nbr) ->
  exists S', ext k S (snd (upsert nbr l k)) S' /\ forall x, In x (fst (upsert nbr l k)) -> S' (n_rep x).
Proof.
  intros HU Hl Hn. unfold upsert. destruct (find_merge nbr l k) as [[l' k']|] eqn:Ef.
  - cbn [fst snd]. eapply find_merge_ids; eassumption.
  - cbn [fst snd]. exists S. split; [apply ext_refl; exact HU|].
    intros x [<-|Hx]; [exact Hn|exact (Hl x Hx)].
Qed.
