(* C06 — COMPLETENESS of the search mirror (C06/Mirror.v with [fixed = true], the code as it is now):
   the classic Dijkstra invariant for the bucketed search with node merging.

   For one minimum-cost candidate of the reference — a normal-form first success [s] of the replay
   semantics (C06/Spec.v) — the invariant [cover_inv] says: at every moment of the run some node that is
   still queued (in a bucket, or among the success nodes found) CARRIES a prefix s1 of s: s1 is one of the
   sequences of its repair tree, and its (pstack, laidx) is the configuration the replay of s1 reaches.
   Popping that node and generating its neighbours moves the cover one move further (the neighbour for the
   next move of s exists: [expand_exact]); queuing the neighbour either inserts it or merges it into a
   compatible node, and the merge keeps every sequence ([merge_paths_new], which needs the identities of
   C06/CompleteIds.v for the `old.repairs == new.repairs` shortcut); the bucket of the covering node is not
   below the current cost and is inside the bucket vector, so the search cannot finish before it has
   popped it.  Statements: C06/CompleteSpec.v. *)
From Coq Require Import List Arith NArith Bool Lia Sorted.
From GV Require Import Common.Outcome Base.Grammar Base.GrammarFacts LR.Automaton LR.Validator
  Repair.Semantics Repair.Spec Repair.Proofs Repair.Search Repair.Confluent
  C06.Model C06.Spec C06.Proofs C06.RefProofs C06.Mirror C06.SearchSpec C06.SearchProofs C06.CompleteIds
  C06.CompleteSpec.
Import ListNotations.

(* ---- the machine under one lookahead ----------------------------------------------------------- *)
Section Machine.
Variable g : grammar.
Variable A : automaton.

Lemma advance_accept_action : forall f stk a leaf Y,
  advance g A f stk a leaf = AAccept Y -> action A (vtop A Y) a = Accept.
Proof.
  induction f as [|f IH]; intros stk a leaf Y H; cbn [advance] in H; [discriminate|].
  destruct (action A (vtop A stk) a) as [s0|p| |] eqn:Ea; try discriminate.
  - destruct (length stk <? length (rhs g p))%nat; [discriminate|].
    destruct (goto A (vtop A (skipn (length (rhs g p)) stk)) (lhs g p)) as [s1|]; [|discriminate].
    eapply IH. exact H.
  - injection H as <-. exact Ea.
Qed.

Lemma advance_accept_direct f stk a leaf :
  action A (vtop A stk) a = Accept -> advance g A (S f) stk a leaf = AAccept stk.
Proof. intros H. cbn [advance]. rewrite H. reflexivity. Qed.

(* a run of reductions that ends within the fuel ends the same way with more fuel *)
Lemma advance_more_fuel : forall f f' stk a leaf r,
  advance g A f stk a leaf = r -> r <> AFuel -> (f <= f')%nat -> advance g A f' stk a leaf = r.
Proof.
  induction f as [|f IH]; intros f' stk a leaf r H Hr Hle.
  - cbn [advance] in H. exfalso. apply Hr. symmetry. exact H.
  - destruct f' as [|f']; [lia|]. cbn [advance] in H |- *.
    destruct (action A (vtop A stk) a) as [s'|p| |]; try exact H.
    destruct (length stk <? length (rhs g p))%nat; [exact H|].
    destruct (goto A (vtop A (skipn (length (rhs g p)) stk)) (lhs g p)) as [s1|]; [|exact H].
    apply IH; [exact H|exact Hr|lia].
Qed.

Lemma advance_shift_not_err f stk a leaf y :
  advance g A f stk a leaf = AShift y -> is_err (action A (vtop A stk) a) = false.
Proof.
  destruct f as [|f]; cbn [advance]; [discriminate|].
  destruct (action A (vtop A stk) a); try discriminate; reflexivity.
Qed.

End Machine.

(* ---- normal form of a prefix ------------------------------------------------------------------- *)
Lemma nf_from_mid g m : forall s1 s2 ld,
  nf_from g ld (s1 ++ m :: s2) = true -> allowed g (ldafter ld s1) m = true.
Proof.
  induction s1 as [|x s1 IH]; intros s2 ld H.
  - cbn [app nf_from] in H. apply andb_true_iff in H. exact (proj1 H).
  - cbn [app nf_from] in H. apply andb_true_iff in H. destruct H as (_ & H).
    rewrite ldafter_cons. exact (IH _ _ H).
Qed.

Lemma nf_mid g s1 m s2 : nf g (s1 ++ m :: s2) -> allowed g (last_is_del s1) m = true.
Proof. unfold nf. intros H. rewrite <- ldafter_false. exact (nf_from_mid g m s1 s2 false H). Qed.

(* ---- which sequences a node carries, and where -------------------------------------------------- *)
Definition carries (s1 : list repair) (ss : list N) (p : nat) (n : node) : Prop :=
  In s1 (paths (n_rep n)) /\ map fst (n_stk n) = ss /\ n_la n = p.

Lemma merge_node_keeps old new k :
  n_stk (fst (merge_node old new k)) = n_stk old /\ n_la (fst (merge_node old new k)) = n_la old.
Proof.
  unfold merge_node. destruct (rtree_eqb (n_rep old) (n_rep new)); [split; reflexivity|].
  destruct (n_rep old); split; reflexivity.
Qed.

(* a merge loses no sequence of the node that stays in the bucket … *)
Lemma merge_paths_old old new k pth :
  In pth (paths (n_rep old)) -> In pth (paths (n_rep (fst (merge_node old new k)))).
Proof.
  intros H. unfold merge_node. destruct (rtree_eqb (n_rep old) (n_rep new)); [exact H|].
  destruct (n_rep old) as [|i r pa|i r v pa] eqn:Er; cbn [fst n_rep]; [rewrite Er; exact H| |].
  - rewrite paths_rep in H. rewrite paths_mrg. apply in_app_iff. left. exact H.
  - rewrite paths_mrg in H. rewrite paths_mrg. apply in_app_iff in H. apply in_app_iff.
    destruct H as [H|H]; [left; exact H|right]. cbn [alt_paths]. apply in_app_iff. right. exact H.
Qed.

(* … nor of the node merged into it *)
Lemma merge_paths_new k S old new pth :
  uok k S -> S (n_rep old) -> S (n_rep new) ->
  n_rep new <> RTerm -> n_rep old <> RTerm ->
  In pth (paths (n_rep new)) -> In pth (paths (n_rep (fst (merge_node old new k)))).
Proof.
  intros HU So Sn Hnt Hot H. unfold merge_node.
  destruct (rtree_eqb (n_rep old) (n_rep new)) eqn:E.
  - destruct (rtree_eqb_unfold k S HU _ So _ Sn E) as (_ & Ep). cbn [fst]. rewrite Ep. exact H.
  - assert (Hu : In pth (unfold (n_rep new))) by (destruct (n_rep new); [congruence|exact H|exact H]).
    destruct (n_rep old) as [|i r pa|i r v pa] eqn:Er; cbn [fst n_rep]; [congruence| |].
    + rewrite paths_mrg. apply in_app_iff. right. cbn [alt_paths]. rewrite app_nil_r. exact Hu.
    + rewrite paths_mrg. apply in_app_iff. right. cbn [alt_paths]. apply in_app_iff. left. exact Hu.
Qed.

Lemma carries_merge_old s1 ss p old new k :
  carries s1 ss p old -> carries s1 ss p (fst (merge_node old new k)).
Proof.
  intros (H1 & H2 & H3). destruct (merge_node_keeps old new k) as (E1 & E2).
  split; [apply merge_paths_old; exact H1|]. rewrite E1, E2. split; assumption.
Qed.

Lemma find_merge_cover_old s1 ss p nbr : forall l k l' k',
  (exists x, In x l /\ carries s1 ss p x) -> find_merge nbr l k = Some (l', k') ->
  exists x, In x l' /\ carries s1 ss p x.
Proof.
  induction l as [|y r IH]; intros k l' k' (x & Hx & Hc) H; [destruct Hx|].
  cbn [find_merge] in H. destruct (key_eqb y nbr).
  - pose proof (carries_merge_old s1 ss p y nbr k) as Hm.
    destruct (merge_node y nbr k) as [m c']. injection H as <- _. cbn [fst] in Hm.
    destruct Hx as [<-|Hx]; [exists m; split; [left; reflexivity|exact (Hm Hc)]|].
    exists x. split; [right; exact Hx|exact Hc].
  - destruct (find_merge nbr r k) as [[r' c']|] eqn:Ef; [|discriminate]. injection H as <- _.
    destruct Hx as [<-|Hx]; [exists y; split; [left; reflexivity|exact Hc]|].
    destruct (IH _ _ _ (ex_intro _ x (conj Hx Hc)) Ef) as (z & Hz & Hcz).
    exists z. split; [right; exact Hz|exact Hcz].
Qed.

Lemma upsert_cover_old s1 ss p nbr l k :
  (exists x, In x l /\ carries s1 ss p x) -> exists x, In x (fst (upsert nbr l k)) /\ carries s1 ss p x.
Proof.
  intros H. unfold upsert. destruct (find_merge nbr l k) as [[l' k']|] eqn:Ef; cbn [fst].
  - eapply find_merge_cover_old; eassumption.
  - destruct H as (x & Hx & Hc). exists x. split; [right; exact Hx|exact Hc].
Qed.

Section Cover.
Variable g : grammar.
Variable A : automaton.
Variable input : list N.
Variable ifuel : nat.
Variable PN : nat.
Variable costs : list N.
Variable stk0 : vstack.
Variable p0 : nat.
Hypothesis Hcosts : costs_pos costs.

Notation node_ok := (node_ok g A input ifuel costs stk0 p0).
Notation good := (good g A input ifuel costs stk0 p0).
Notation nbr_ok := (nbr_ok g A input ifuel costs stk0 p0).
Notation node_success := (node_success g A input PN).
Notation sstep := (SearchSpec.sstep true g A input ifuel PN costs).
Notation run := (SearchSpec.run true g A input ifuel PN costs).
Notation exec := (SearchSpec.exec true g A input ifuel PN costs).
Notation state_ok := (state_ok g A input ifuel PN costs stk0 p0).

Lemma find_merge_cover_new s1 ss p c nbr k S : forall l l' k',
  uok k S -> (forall x, In x l -> S (n_rep x)) -> S (n_rep nbr) ->
  Forall (good c) l -> good c nbr ->
  carries s1 ss p nbr -> n_rep nbr <> RTerm ->
  find_merge nbr l k = Some (l', k') ->
  exists x, In x l' /\ carries s1 ss p x.
Proof.
  induction l as [|y r IH]; intros l' k' HU Hl Sn Hg Hgn Hc Hnt H; cbn [find_merge] in H; [discriminate|].
  apply Forall_cons_iff in Hg. destruct Hg as (Hgy & Hg).
  destruct (key_eqb y nbr) eqn:Ek.
  - destruct (key_eqb_facts _ _ Ek) as (E1 & E2 & _ & _).
    destruct Hc as (Hp & Hs & Hla). destruct (merge_node_keeps y nbr k) as (K1 & K2).
    assert (Hyt : n_rep y <> RTerm).
    { intros Ey. destruct Hgy as (Hcy & Hoky), Hgn as (Hcn & Hokn).
      pose proof (merge_arm_unreachable g A input ifuel costs stk0 p0 y nbr Hcosts Hoky Hokn
                    ltac:(congruence) Ek Ey) as Hq.
      rewrite Ey in Hq. destruct (n_rep nbr); [congruence|discriminate|discriminate]. }
    pose proof (merge_paths_new k S y nbr s1 HU (Hl y (or_introl eq_refl)) Sn Hnt Hyt Hp) as Hm.
    destruct (merge_node y nbr k) as [m c']. injection H as <- _. cbn [fst] in *.
    exists m. split; [left; reflexivity|]. split; [exact Hm|]. rewrite K1, K2. split; congruence.
  - destruct (find_merge nbr r k) as [[r' c']|] eqn:Ef; [|discriminate]. injection H as <- _.
    destruct (IH _ _ HU (fun x Hx => Hl x (or_intror Hx)) Sn Hg Hgn Hc Hnt eq_refl) as (z & Hz & Hcz).
    exists z. split; [right; exact Hz|exact Hcz].
Qed.

Lemma upsert_cover_new s1 ss p c nbr k S l :
  uok k S -> (forall x, In x l -> S (n_rep x)) -> S (n_rep nbr) ->
  Forall (good c) l -> good c nbr ->
  carries s1 ss p nbr -> n_rep nbr <> RTerm ->
  exists x, In x (fst (upsert nbr l k)) /\ carries s1 ss p x.
Proof.
  intros HU Hl Sn Hg Hgn Hc Hnt. unfold upsert.
  destruct (find_merge nbr l k) as [[l' k']|] eqn:Ef; cbn [fst].
  - eapply find_merge_cover_new; eassumption.
  - exists nbr. split; [left; reflexivity|exact Hc].
Qed.

Lemma upsert_good c nbr l k : Forall (good c) l -> good c nbr -> Forall (good c) (fst (upsert nbr l k)).
Proof.
  intros Hl Hn. apply upsert_P; [|exact Hl|exact Hn].
  apply (good_merge g A input ifuel costs stk0 p0). exact Hn.
Qed.

(* ---- queuing the neighbours: the `for (nbr_cost, nbr) in next.drain(..)` loops -------------------- *)
Definition p1inv (c : N) (S : rtree -> Prop) (k : N) (td : buckets) : Prop :=
  (forall c' n, In n (bget td c') -> good c' n /\ (c <= c')%N) /\
  uok k S /\ (forall c' n, In n (bget td c') -> S (n_rep n)).

Definition nbr_in (c : N) (S : rtree -> Prop) (cn : N * node) : Prop :=
  fst cn = n_cf (snd cn) /\ (c <= fst cn)%N /\ node_ok (snd cn) /\ S (n_rep (snd cn)).

Definition bcovered (s1 : list repair) (ss : list N) (p : nat) (td : buckets) : Prop :=
  exists c' x, In x (bget td c') /\ carries s1 ss p x.

Lemma p1_push_inv c S k td tl cn s1 ss p :
  p1inv c S k td -> nbr_in c S cn ->
  exists S', ext k S (snd (p1_push (td, tl, k) cn)) S' /\
    p1inv c S' (snd (p1_push (td, tl, k) cn)) (fst (fst (p1_push (td, tl, k) cn))) /\
    (bcovered s1 ss p td -> bcovered s1 ss p (fst (fst (p1_push (td, tl, k) cn)))) /\
    (carries s1 ss p (snd cn) -> n_rep (snd cn) <> RTerm ->
     bcovered s1 ss p (fst (fst (p1_push (td, tl, k) cn)))).
Proof.
  intros (Hg & HU & HS) (Hcf & Hle & Hok & Sn).
  assert (Hgn : good (fst cn) (snd cn)) by (split; [symmetry; exact Hcf|exact Hok]).
  assert (Hgl : Forall (good (fst cn)) (bget td (fst cn)))
    by (apply Forall_forall; intros x Hx; apply (Hg _ _ Hx)).
  pose proof (upsert_good (fst cn) (snd cn) (bget td (fst cn)) k Hgl Hgn) as G.
  destruct (upsert_ids (snd cn) (bget td (fst cn)) k S HU (HS (fst cn)) Sn) as (S' & X & HS').
  pose proof (upsert_cover_old s1 ss p (snd cn) (bget td (fst cn)) k) as Co.
  pose proof (upsert_cover_new s1 ss p (fst cn) (snd cn) k S (bget td (fst cn)) HU (HS (fst cn)) Sn Hgl Hgn) as Cn.
  unfold p1_push. destruct (upsert (snd cn) (bget td (fst cn)) k) as [b' k']. cbn [fst snd] in *.
  exists S'. split; [exact X|]. destruct X as (HU' & I & L). split; [|split].
  - split; [|split; [exact HU'|]].
    + intros c' n Hin. destruct (N.eq_dec c' (fst cn)) as [->|Hne].
      * rewrite bget_bset_same in Hin. rewrite Forall_forall in G. split; [exact (G n Hin)|exact Hle].
      * rewrite bget_bset_other in Hin by exact Hne. exact (Hg _ _ Hin).
    + intros c' n Hin. destruct (N.eq_dec c' (fst cn)) as [->|Hne].
      * rewrite bget_bset_same in Hin. exact (HS' n Hin).
      * rewrite bget_bset_other in Hin by exact Hne. exact (I _ (HS _ _ Hin)).
  - intros (c' & x & Hx & Hc). destruct (N.eq_dec c' (fst cn)) as [->|Hne].
    + destruct (Co (ex_intro _ x (conj Hx Hc))) as (z & Hz & Hcz).
      exists (fst cn), z. rewrite bget_bset_same. split; assumption.
    + exists c', x. rewrite bget_bset_other by exact Hne. split; assumption.
  - intros Hc Hnt. destruct (Cn Hc Hnt) as (z & Hz & Hcz).
    exists (fst cn), z. rewrite bget_bset_same. split; assumption.
Qed.

Lemma nbr_in_mono c (S S' : rtree -> Prop) cn : (forall x, S x -> S' x) -> nbr_in c S cn -> nbr_in c S' cn.
Proof. intros I (H1 & H2 & H3 & H4). split; [exact H1|]. split; [exact H2|]. split; [exact H3|exact (I _ H4)]. Qed.

Lemma p1_fold_inv c s1 ss p : forall nbrs td tl k S,
  p1inv c S k td -> Forall (nbr_in c S) nbrs ->
  exists S', ext k S (snd (fold_left p1_push nbrs (td, tl, k))) S' /\
    p1inv c S' (snd (fold_left p1_push nbrs (td, tl, k))) (fst (fst (fold_left p1_push nbrs (td, tl, k)))) /\
    (bcovered s1 ss p td \/
     (exists cn, In cn nbrs /\ carries s1 ss p (snd cn) /\ n_rep (snd cn) <> RTerm) ->
     bcovered s1 ss p (fst (fst (fold_left p1_push nbrs (td, tl, k))))).
Proof.
  induction nbrs as [|cn nbrs IH]; intros td tl k S Hinv Hall.
  - cbn [fold_left fst snd]. exists S. split; [apply ext_refl; apply Hinv|]. split; [exact Hinv|].
    intros [H|(cn & [] & _)]. exact H.
  - apply Forall_cons_iff in Hall. destruct Hall as (Hcn & Hall). cbn [fold_left].
    destruct (p1_push_inv c S k td tl cn s1 ss p Hinv Hcn) as (S1 & X1 & Hinv1 & Co & Cn).
    destruct (p1_push (td, tl, k) cn) as [[td1 tl1] k1]. cbn [fst snd] in *.
    pose proof X1 as (_ & I1 & _).
    destruct (IH td1 tl1 k1 S1 Hinv1) as (S' & X2 & Hinv2 & Cov).
    { eapply Forall_impl; [|exact Hall]. intros x Hx. exact (nbr_in_mono c S S1 x I1 Hx). }
    exists S'. split; [eapply ext_trans; eassumption|]. split; [exact Hinv2|].
    intros [H|(x & [<-|Hx] & Hc & Hnt)].
    + apply Cov. left. exact (Co H).
    + apply Cov. left. exact (Cn Hc Hnt).
    + apply Cov. right. exists x. split; [exact Hx|split; assumption].
Qed.

(* a non-empty bucket lies inside the bucket vector ([tlen] = todo.len()) *)
Definition tlen_okb (td : buckets) (tl : N) : Prop := forall c', bget td c' <> [] -> (c' < tl)%N.

Lemma p1_fold_tlen : forall nbrs td tl k,
  tlen_okb td tl ->
  tlen_okb (fst (fst (fold_left p1_push nbrs (td, tl, k)))) (snd (fst (fold_left p1_push nbrs (td, tl, k)))).
Proof.
  induction nbrs as [|cn nbrs IH]; intros td tl k H; [exact H|].
  cbn [fold_left]. unfold p1_push at 2 4.
  destruct (upsert (snd cn) (bget td (fst cn)) k) as [b' k']. apply IH.
  intros c' Hne. destruct (N.eq_dec c' (fst cn)) as [->|Hd]; [lia|].
  rewrite bget_bset_other in Hne by exact Hd. specialize (H c' Hne). lia.
Qed.

Definition p2inv (c : N) (S : rtree -> Prop) (k : N) (b : list node) : Prop :=
  Forall (good c) b /\ uok k S /\ (forall x, In x b -> S (n_rep x)).

Definition nbr_in2 (S : rtree -> Prop) (cn : N * node) : Prop :=
  fst cn = n_cf (snd cn) /\ node_ok (snd cn) /\ S (n_rep (snd cn)).

Definition lcovered (s1 : list repair) (ss : list N) (p : nat) (b : list node) : Prop :=
  exists x, In x b /\ carries s1 ss p x.

Lemma p2_push_inv c S k b cn s1 ss p :
  p2inv c S k b -> nbr_in2 S cn ->
  exists S', ext k S (snd (p2_push c (b, k) cn)) S' /\
    p2inv c S' (snd (p2_push c (b, k) cn)) (fst (p2_push c (b, k) cn)) /\
    (lcovered s1 ss p b -> lcovered s1 ss p (fst (p2_push c (b, k) cn))) /\
    (fst cn = c -> carries s1 ss p (snd cn) -> n_rep (snd cn) <> RTerm ->
     lcovered s1 ss p (fst (p2_push c (b, k) cn))).
Proof.
  intros (Hg & HU & HS) (Hcf & Hok & Sn). unfold p2_push. cbn [fst snd].
  destruct (N.eqb (fst cn) c) eqn:E.
  - apply N.eqb_eq in E.
    assert (Hgn : good c (snd cn)) by (split; [congruence|exact Hok]).
    pose proof (upsert_good c (snd cn) b k Hg Hgn) as G.
    destruct (upsert_ids (snd cn) b k S HU HS Sn) as (S' & X & HS').
    exists S'. split; [exact X|]. destruct X as (HU' & I & L). split; [|split].
    + split; [exact G|]. split; [exact HU'|exact HS'].
    + apply upsert_cover_old.
    + intros _ Hc Hnt. eapply upsert_cover_new; eassumption.
  - exists S. split; [apply ext_refl; exact HU|]. split; [split; [exact Hg|split; assumption]|].
    split; [intros H; exact H|]. intros E'. apply N.eqb_neq in E. contradiction.
Qed.

Lemma p2_fold_inv c s1 ss p : forall nbrs b k S,
  p2inv c S k b -> Forall (nbr_in2 S) nbrs ->
  exists S', ext k S (snd (fold_left (p2_push c) nbrs (b, k))) S' /\
    p2inv c S' (snd (fold_left (p2_push c) nbrs (b, k))) (fst (fold_left (p2_push c) nbrs (b, k))) /\
    (lcovered s1 ss p b \/
     (exists cn, In cn nbrs /\ fst cn = c /\ carries s1 ss p (snd cn) /\ n_rep (snd cn) <> RTerm) ->
     lcovered s1 ss p (fst (fold_left (p2_push c) nbrs (b, k)))).
Proof.
  induction nbrs as [|cn nbrs IH]; intros b k S Hinv Hall.
  - cbn [fold_left fst snd]. exists S. split; [apply ext_refl; apply Hinv|]. split; [exact Hinv|].
    intros [H|(cn & [] & _)]. exact H.
  - apply Forall_cons_iff in Hall. destruct Hall as (Hcn & Hall). cbn [fold_left].
    destruct (p2_push_inv c S k b cn s1 ss p Hinv Hcn) as (S1 & X1 & Hinv1 & Co & Cn).
    destruct (p2_push c (b, k) cn) as [b1 k1]. cbn [fst snd] in *.
    pose proof X1 as (_ & I1 & _).
    destruct (IH b1 k1 S1 Hinv1) as (S' & X2 & Hinv2 & Cov).
    { eapply Forall_impl; [|exact Hall]. intros x (H1 & H2 & H3). split; [exact H1|split; [exact H2|exact (I1 _ H3)]]. }
    exists S'. split; [eapply ext_trans; eassumption|]. split; [exact Hinv2|].
    intros [H|(x & [<-|Hx] & He & Hc & Hnt)].
    + apply Cov. left. exact (Co H).
    + apply Cov. left. exact (Cn He Hc Hnt).
    + apply Cov. right. exists x. split; [exact Hx|split; [exact He|split; assumption]].
Qed.

End Cover.

(* ---- the neighbours the search generates ------------------------------------------------------- *)
Section Nbrs.
Variable g : grammar.
Variable A : automaton.
Variable input : list N.
Variable ifuel : nat.
Variable costs : list N.

Lemma neighbours_split ea n ctr nb :
  neighbours true g A input ifuel costs ea n ctr = Done nb ->
  exists ins del shf,
    (match last_repair (n_rep n) with
     | Some Del => Done ([], ctr)
     | _ => if ea then nb_insert g A input ifuel costs n (state_actions g A (vtop A (n_stk n))) ctr
            else Done ([], ctr)
     end) = Done ins /\
    (if ea then nb_delete g input costs n (snd ins) else Done ([], snd ins)) = Done del /\
    nb_shift true g A input ifuel n (snd del) = Done shf /\
    fst nb = fst ins ++ fst del ++ fst shf.
Proof.
  intros H. unfold neighbours in H.
  match type of H with obind ?X _ = _ => destruct X as [ins| |] eqn:Hins end; cbn [obind] in H; try discriminate.
  match type of H with obind ?X _ = _ => destruct X as [del| |] eqn:Hdel end; cbn [obind] in H; try discriminate.
  match type of H with obind ?X _ = _ => destruct X as [shf| |] eqn:Hshf end; cbn [obind] in H; try discriminate.
  injection H as <-. exists ins, del, shf. cbn [fst]. repeat split; assumption.
Qed.

Lemma nb_insert_in rf n t y cf : (ifuel <= rf)%nat -> forall toks ctr res,
  nb_insert g A input ifuel costs n toks ctr = Done res ->
  In t toks -> N.eqb t (eof g) = false ->
  advance g A rf (n_stk n) t (ins_leaf t (n_la n)) = AShift y ->
  add_cost (n_cf n) (tcost costs t) = Some cf ->
  exists k, In (cf, mkNode y (n_la n) (RRep k (Ins t) (n_rep n)) cf) (fst res).
Proof.
  intros Hrf. induction toks as [|t0 ts IH]; intros ctr res H Hin Ht Hadv Hcf; [destruct Hin|].
  cbn [nb_insert] in H. destruct Hin as [->|Hin].
  - rewrite Ht in H. unfold lr_cactus1 in H.
    destruct (advance g A ifuel (n_stk n) t (ins_leaf t (n_la n))) as [z|z|z|z| |] eqn:Ez; try discriminate;
      pose proof (advance_more_fuel g A _ _ _ _ _ _ Ez ltac:(discriminate) Hrf) as Eup;
      rewrite Hadv in Eup; try discriminate.
    injection Eup as <-. rewrite Hcf in H.
    destruct (nb_insert g A input ifuel costs n ts (ctr + 1)) as [rc| |]; cbn [obind] in H; try discriminate.
    injection H as <-. exists ctr. left. reflexivity.
  - destruct (N.eqb t0 (eof g)); [exact (IH _ _ H Hin Ht Hadv Hcf)|].
    destruct (lr_cactus1 g A input ifuel (Some t0) (n_stk n) (n_la n)) as [s0|s0|s0|s0| |];
      try discriminate; try exact (IH _ _ H Hin Ht Hadv Hcf).
    destruct (add_cost (n_cf n) (tcost costs t0)) as [cf0|]; [|exact (IH _ _ H Hin Ht Hadv Hcf)].
    destruct (nb_insert g A input ifuel costs n ts (ctr + 1)) as [rc| |] eqn:Hrc; cbn [obind] in H; try discriminate.
    injection H as <-. destruct (IH _ _ Hrc Hin Ht Hadv Hcf) as (k & Hk). exists k. right. exact Hk.
Qed.

Lemma add_cost_fits cf c : (cf + c <= u16max)%N -> add_cost cf c = Some (cf + c)%N.
Proof. intros H. unfold add_cost. replace (u16max <? cf + c)%N with false; [reflexivity|]. symmetry. apply N.ltb_ge. exact H. Qed.

End Nbrs.

(* ---- one candidate of the reference, followed through the search --------------------------------- *)
Section Main.
Variable g : grammar.
Variable A : automaton.
Variable input : list N.
Variable ifuel : nat.
Variable PN : nat.
Variable costs : list N.
Variable stk0 : vstack.
Variable p0 : nat.
Hypothesis Hcosts : costs_pos costs.
Hypothesis Hifuel : (1 <= ifuel)%nat.
(* the reduction fuel of the reference ([ifuel] is the search's): at least the search's *)
Variable rf : nat.
Hypothesis Hrf : (ifuel <= rf)%nat.

(* the candidate: a normal-form first success of the replay semantics, not empty, whose cost fits u16 *)
Variable s : list repair.
Variable stkE : vstack.
Variable pE : nat.
Hypothesis Hnf : nf g s.
Hypothesis Hrun : srun g A input rf s stk0 p0 = Some (stkE, pE).
Hypothesis Hend : succ_end g A input rf PN s stkE pE = true.
Hypothesis Hfirst : forall s1 s2, s = s1 ++ s2 -> s2 <> [] -> ~ success g A input rf PN stk0 p0 s1.
Hypothesis Hne : s <> [].
Hypothesis Hu16 : (scost g input costs s p0 <= u16max)%N.

Notation node_ok := (node_ok g A input ifuel costs stk0 p0).
Notation seq_ok := (seq_ok g A input ifuel costs stk0 p0).
Notation good := (good g A input ifuel costs stk0 p0).
Notation node_success := (node_success g A input PN).
Notation sstep := (SearchSpec.sstep true g A input ifuel PN costs).
Notation run := (SearchSpec.run true g A input ifuel PN costs).
Notation exec := (SearchSpec.exec true g A input ifuel PN costs).
Notation state_ok := (state_ok g A input ifuel PN costs stk0 p0).
Notation srun := (srun g A input rf).
Notation scost := (scost g input costs).

(* where the node carrying the prefix s1 of s = s1 ++ s2 stands: at the configuration the replay of s1
   reaches, or — s1 being all of s — at that configuration after the reductions that end in Accept *)
Definition at_conf (s1 s2 : list repair) (ss : list N) (p : nat) : Prop :=
  (exists stk, srun s1 stk0 p0 = Some (stk, p) /\ map fst stk = ss) \/
  (s2 = [] /\ exists Y, map fst Y = ss /\ action A (vtop A Y) (la g input p) = Accept).

Definition covered (st : sstate) : Prop :=
  exists s1 s2 ss p n, s = s1 ++ s2 /\ queued st n /\ carries s1 ss p n /\ at_conf s1 s2 ss p.

Lemma carried_not_term s1 ss p n : carries s1 ss p n -> s1 <> [] -> n_rep n <> RTerm.
Proof. intros (Hin & _) Hs E. rewrite E in Hin. destruct Hin as [<-|[]]. congruence. Qed.

Lemma in_snoc_paths k m t pc : In pc (paths t) -> In (pc ++ [m]) (paths (RRep k m t)).
Proof. intros H. rewrite paths_rep. apply in_snocs. exists pc. split; [exact H|reflexivity]. Qed.

(* all of s is carried by a node that is not a success node: the reductions under the next lexeme end in
   Accept, and the neighbour `shift` yields for them is the success node *)
Lemma expand_end ea n ctr nb :
  node_ok n -> carries s (map fst stkE) pE n -> node_success n = false ->
  neighbours true g A input ifuel costs ea n ctr = Done nb ->
  exists cn ss', In cn (fst nb) /\ carries s ss' pE (snd cn) /\ n_rep (snd cn) <> RTerm /\
                 at_conf s [] ss' pE /\ fst cn = n_cf n.
Proof.
  intros Hok Hc Hns Hnb. pose proof Hc as (Hin & Hss & Hla).
  destruct (Hok s Hin) as (_ & _ & Hts & _).
  unfold Mirror.node_success in Hns. apply orb_false_iff in Hns. destruct Hns as (Hre & Hacc).
  assert (He : ends_with_shifts PN s = false).
  { rewrite ends_with_shifts_trail, Hts, <- rt_ends_shifts. exact Hre. }
  unfold succ_end in Hend. rewrite He in Hend. cbn [orb] in Hend.
  unfold lr_upto1 in Hend. destruct (length input <? pE)%nat; [discriminate|].
  destruct (advance g A rf stkE (la g input pE) (real_leaf g input pE)) as [x|Y|x|x| |] eqn:Hadv; try discriminate.
  pose proof (advance_same_states g A rf (n_stk n) stkE (la g input pE) (real_leaf g input pE) Hss) as P.
  rewrite Hadv in P. destruct P as (y & Hy & Ey).
  pose proof (advance_accept_action g A _ _ _ _ _ Hy) as Hay.
  destruct (neighbours_split g A input ifuel costs ea n ctr nb Hnb) as (ins & del & shf & _ & _ & Hshf & Enb).
  unfold nb_shift, lr_cactus1 in Hshf. rewrite Hla in Hshf.
  destruct (advance g A ifuel (n_stk n) (la g input pE) (real_leaf g input pE)) as [z|z|z|z| |] eqn:Ez;
    try discriminate;
    pose proof (advance_more_fuel g A _ _ _ _ _ _ Ez ltac:(discriminate) Hrf) as Eup;
    rewrite Hy in Eup; try discriminate.
  injection Eup as <-.
  destruct (same_states (n_stk n) y) eqn:Hsame.
  { exfalso. unfold same_states in Hsame. apply listN_eqb_eq in Hsame.
    rewrite (vtop_states A _ _ Hsame), Hla, Hay in Hacc. discriminate. }
  cbn [negb] in Hshf. injection Hshf as <-.
  exists (n_cf n, mkNode y pE (n_rep n) (n_cf n)), (map fst y).
  split; [rewrite Enb; apply in_or_app; right; apply in_or_app; right; left; reflexivity|].
  cbn [fst snd n_rep]. split; [split; [exact Hin|split; reflexivity]|].
  split; [exact (carried_not_term _ _ _ _ Hc Hne)|]. split; [|reflexivity].
  right. split; [reflexivity|]. exists y. split; [reflexivity|exact Hay].
Qed.

(* a proper prefix s1 is carried by a node standing at the configuration it reaches: the neighbour for
   the next move of s is generated (in the same-cost sweep: if that move costs nothing) *)
Lemma expand_move ea n ctr nb s1 m s2 stk p :
  s = s1 ++ m :: s2 ->
  node_ok n -> carries s1 (map fst stk) p n -> srun s1 stk0 p0 = Some (stk, p) ->
  neighbours true g A input ifuel costs ea n ctr = Done nb ->
  (ea = false /\ (n_cf n < scost s p0)%N) \/
  exists cn ss', In cn (fst nb) /\ carries (s1 ++ [m]) ss' (mpos m p) (snd cn) /\
                 n_rep (snd cn) <> RTerm /\ at_conf (s1 ++ [m]) s2 ss' (mpos m p) /\
                 (ea = false -> fst cn = n_cf n).
Proof.
  intros Es Hok Hc Hr1 Hnb. pose proof Hc as (Hin & Hss & Hla).
  destruct (Hok s1 Hin) as (_ & Hcost & _ & Hld & _).
  pose proof (nf_mid g s1 m s2 ltac:(rewrite <- Es; exact Hnf)) as Hal.
  pose proof Hrun as Hr. rewrite Es, (srun_app g A input rf), Hr1 in Hr. cbn [Model.srun] in Hr.
  destruct (Model.sstep g A input rf m stk p) as [[stk' p']|] eqn:Hst; [|discriminate].
  pose proof (sstep_pos g A input rf _ _ _ _ _ Hst) as Ep'. subst p'.
  pose proof (srun_pos g A input rf _ _ _ _ _ Hr1) as Ep.
  assert (Hsum : (n_cf n + mcost g input costs m p <= u16max)%N).
  { rewrite Es, (scost_app g input costs) in Hu16. cbn [Model.scost] in Hu16. rewrite <- Ep, Hcost in Hu16. lia. }
  assert (Hlt : m <> Shf -> (n_cf n < scost s p0)%N).
  { intros Hm. pose proof (mcost_pos g input costs m p Hcosts Hm) as Hp1.
    rewrite Es, (scost_app g input costs). cbn [Model.scost]. rewrite <- Ep, Hcost. lia. }
  assert (Hrun1 : srun (s1 ++ [m]) stk0 p0 = Some (stk', mpos m p)).
  { rewrite (srun_app g A input rf), Hr1. cbn [Model.srun]. rewrite Hst. reflexivity. }
  destruct (neighbours_split g A input ifuel costs ea n ctr nb Hnb) as (ins & del & shf & Hins & Hdel & Hshf & Enb).
  destruct m as [t| |].
  - (* Insert *)
    destruct ea; [right|left; split; [reflexivity|apply Hlt; discriminate]].
    cbn [allowed] in Hal. apply andb_true_iff in Hal. destruct Hal as (Hal & Htl).
    apply andb_true_iff in Hal. destruct Hal as (Hnd & Hte).
    apply negb_true_iff in Hnd. apply negb_true_iff in Hte. apply N.ltb_lt in Htl.
    rewrite Hld in Hnd.
    cbn [Model.sstep] in Hst. unfold lr_upto1 in Hst. destruct (length input <? p)%nat; [discriminate|].
    destruct (advance g A rf stk t (ins_leaf t p)) as [x|x|x|x| |] eqn:Hadv; try discriminate.
    injection Hst as <-.
    pose proof (advance_same_states g A rf (n_stk n) stk t (ins_leaf t p) Hss) as P.
    rewrite Hadv in P. destruct P as (y & Hy & Ey).
    assert (Hins' : nb_insert g A input ifuel costs n (state_actions g A (vtop A (n_stk n))) ctr = Done ins).
    { unfold main_ends_in_del in Hnd. destruct (last_repair (n_rep n)) as [[u| |]|]; try discriminate; exact Hins. }
    assert (Hta : In t (state_actions g A (vtop A (n_stk n)))).
    { unfold state_actions. apply filter_In. split; [apply In_tidxs; exact Htl|].
      rewrite (advance_shift_not_err g A _ _ _ _ _ Hy). reflexivity. }
    cbn [mcost] in Hsum.
    destruct (nb_insert_in g A input ifuel costs rf n t y _ Hrf _ _ _ Hins' Hta Hte
                ltac:(rewrite Hla; exact Hy) (add_cost_fits _ _ Hsum)) as (k & Hk).
    eexists. exists (map fst y). split; [rewrite Enb; apply in_or_app; left; exact Hk|].
    cbn [snd n_rep n_stk n_la mpos]. split; [split; [apply in_snoc_paths; exact Hin|split; [reflexivity|exact Hla]]|].
    split; [discriminate|]. split; [|discriminate].
    left. exists x. split; [exact Hrun1|symmetry; exact Ey].
  - (* Delete *)
    destruct ea; [right|left; split; [reflexivity|apply Hlt; discriminate]].
    cbn [Model.sstep] in Hst. destruct (p <? length input)%nat eqn:Hpl; [|discriminate]. injection Hst as <-.
    apply Nat.ltb_lt in Hpl.
    unfold nb_delete in Hdel. rewrite Hla in Hdel.
    replace (Nat.eqb p (length input)) with false in Hdel by (symmetry; apply Nat.eqb_neq; lia).
    cbn [mcost] in Hsum. rewrite (add_cost_fits _ _ Hsum) in Hdel. injection Hdel as <-.
    eexists. exists (map fst stk).
    split; [rewrite Enb; apply in_or_app; right; apply in_or_app; left; left; reflexivity|].
    cbn [snd n_rep n_stk n_la mpos]. split; [split; [apply in_snoc_paths; exact Hin|split; [exact Hss|reflexivity]]|].
    split; [discriminate|]. split; [|discriminate].
    left. exists stk. split; [exact Hrun1|reflexivity].
  - (* Shift *)
    right.
    cbn [Model.sstep] in Hst. unfold lr_upto1 in Hst. destruct (length input <? p)%nat; [discriminate|].
    destruct (advance g A rf stk (la g input p) (real_leaf g input p)) as [x|x|x|x| |] eqn:Hadv; try discriminate.
    injection Hst as <-.
    pose proof (advance_same_states g A rf (n_stk n) stk (la g input p) (real_leaf g input p) Hss) as P.
    rewrite Hadv in P. destruct P as (y & Hy & Ey).
    unfold nb_shift, lr_cactus1 in Hshf. rewrite Hla in Hshf.
    destruct (advance g A ifuel (n_stk n) (la g input p) (real_leaf g input p)) as [z|z|z|z| |] eqn:Ez;
      try discriminate;
      pose proof (advance_more_fuel g A _ _ _ _ _ _ Ez ltac:(discriminate) Hrf) as Eup;
      rewrite Hy in Eup; try discriminate.
    injection Eup as <-. cbn [orb] in Hshf. injection Hshf as <-.
    eexists. exists (map fst y).
    split; [rewrite Enb; apply in_or_app; right; apply in_or_app; right; left; reflexivity|].
    cbn [fst snd n_rep n_stk n_la mpos]. split; [split; [apply in_snoc_paths; exact Hin|split; reflexivity]|].
    split; [discriminate|]. split; [|reflexivity].
    left. exists x. split; [exact Hrun1|symmetry; exact Ey].
Qed.

Lemma accepted_success n s1 ss p : carries s1 ss p n ->
  (exists Y, map fst Y = ss /\ action A (vtop A Y) (la g input p) = Accept) -> node_success n = true.
Proof.
  intros (_ & Hss & Hla) (Y & EY & Hacc). unfold Mirror.node_success.
  rewrite (vtop_states A (n_stk n) Y) by congruence. rewrite Hla, Hacc. apply orb_true_r.
Qed.

Lemma sstep_in_range m stk p r : Model.sstep g A input rf m stk p = Some r -> (length input <? p)%nat = false.
Proof.
  destruct m as [t| |]; cbn [Model.sstep]; unfold lr_upto1.
  - destruct (length input <? p)%nat; [discriminate|reflexivity].
  - destruct (p <? length input)%nat eqn:E; [|discriminate]. intros _.
    apply Nat.ltb_lt in E. apply Nat.ltb_ge. lia.
  - destruct (length input <? p)%nat; [discriminate|reflexivity].
Qed.

(* a node standing where a proper prefix of s leads is not a success node *)
Lemma exact_not_success n s1 s2 stk p :
  s = s1 ++ s2 -> s2 <> [] -> node_ok n -> carries s1 (map fst stk) p n ->
  srun s1 stk0 p0 = Some (stk, p) -> node_success n = false.
Proof.
  intros Es Hs2 Hok Hc Hr1. pose proof Hc as (Hin & Hss & Hla).
  destruct (Hok s1 Hin) as (_ & _ & Hts & _).
  assert (Hse : succ_end g A input rf PN s1 stk p = false).
  { destruct (succ_end g A input rf PN s1 stk p) eqn:E; [|reflexivity].
    exfalso. apply (Hfirst s1 s2 Es Hs2). exists stk, p. split; assumption. }
  unfold succ_end in Hse. apply orb_false_iff in Hse. destruct Hse as (He & Hacc).
  unfold Mirror.node_success. apply orb_false_iff. split.
  - rewrite rt_ends_shifts, <- Hts, <- ends_with_shifts_trail. exact He.
  - destruct (action A (vtop A (n_stk n)) (la g input (n_la n))) eqn:Ea; try reflexivity. exfalso.
    destruct s2 as [|m s2]; [congruence|].
    pose proof Hrun as Hr. rewrite Es, (srun_app g A input rf), Hr1 in Hr. cbn [Model.srun] in Hr.
    destruct (Model.sstep g A input rf m stk p) as [r|] eqn:Hst; [|discriminate].
    unfold lr_upto1 in Hacc. rewrite (sstep_in_range _ _ _ _ Hst) in Hacc.
    rewrite (vtop_states A _ _ Hss), Hla in Ea.
    destruct rf as [|f]; [lia|]. rewrite (advance_accept_direct g A f _ _ _ Ea) in Hacc. discriminate.
Qed.

Lemma cost_le n s1 s2 ss p : node_ok n -> carries s1 ss p n -> s = s1 ++ s2 -> (n_cf n <= scost s p0)%N.
Proof.
  intros Hok (Hin & _) Es. destruct (Hok s1 Hin) as (_ & Hcost & _).
  rewrite Es, (scost_app g input costs), Hcost. lia.
Qed.

(* ---- the invariants of a search state ------------------------------------------------------------ *)
Definition ctr_of (st : sstate) : N := match st with P1 _ _ _ k => k | P2 _ _ _ k => k end.

(* the identities: all repair trees of queued nodes are allocated, an identity names one tree *)
Definition ids_ok (st : sstate) : Prop :=
  exists S, uok (ctr_of st) S /\ forall n, queued st n -> S (n_rep n).

(* the non-empty buckets are inside the bucket vector; the sweep has found a success node *)
Definition tlen_ok (st : sstate) : Prop :=
  match st with
  | P1 todo tlen _ _ => tlen_okb todo tlen
  | P2 _ _ acc _ => acc <> []
  end.

(* the candidate is covered by a queued node — or, in the same-cost sweep, it costs more than the
   sequences being collected *)
Definition cover_inv (st : sstate) : Prop :=
  match st with
  | P1 _ _ _ _ => covered st
  | P2 _ c _ _ => (c <= scost s p0)%N /\ ((c < scost s p0)%N \/ covered st)
  end.

Lemma step_full st o st' :
  state_ok st -> ids_ok st -> tlen_ok st -> cover_inv st -> sstep st o st' ->
  ids_ok st' /\ tlen_ok st' /\ cover_inv st'.
Proof.
  intros Hs Hids Htl Hcov Hst.
  destruct Hst as [todo tlen c ctr He Hu Ht|todo tlen c ctr n rest nb Hb Hsucc Hnb
                  |todo tlen c ctr n rest Hb Hsucc|n rest c acc ctr Hsucc|n rest c acc ctr nb Hsucc Hnb].
  - (* skip an empty bucket *)
    split; [exact Hids|]. split; [exact Htl|exact Hcov].
  - (* expand a node *)
    cbn [SearchProofs.state_ok] in Hs. destruct Hids as (S & HU & HS). cbn [ctr_of] in HU.
    assert (Hn : good c n) by (apply (Hs c n); rewrite Hb; left; reflexivity).
    destruct Hn as (Hcf & Hok).
    assert (Sn : S (n_rep n)) by (apply HS; exists c; rewrite Hb; left; reflexivity).
    destruct (neighbours_ids true g A input ifuel costs true n ctr nb S HU Sn Hnb) as (S1 & X1 & A1).
    pose proof X1 as (U1 & I1 & _).
    pose proof (neighbours_ok true g A input ifuel costs stk0 p0 true n ctr nb Hok Hnb) as HF.
    assert (Hinv : p1inv g A input ifuel costs stk0 p0 c S1 (snd nb) (bset todo c rest)).
    { split; [|split; [exact U1|]].
      - intros c' m Hin. destruct (N.eq_dec c' c) as [->|Hdf].
        + rewrite bget_bset_same in Hin. apply (Hs c m). rewrite Hb. right. exact Hin.
        + rewrite bget_bset_other in Hin by exact Hdf. apply Hs. exact Hin.
      - intros c' m Hin. apply I1, HS. destruct (N.eq_dec c' c) as [->|Hdf].
        + rewrite bget_bset_same in Hin. exists c. rewrite Hb. right. exact Hin.
        + rewrite bget_bset_other in Hin by exact Hdf. exists c'. exact Hin. }
    assert (Hall : Forall (nbr_in g A input ifuel costs stk0 p0 c S1) (fst nb)).
    { apply Forall_forall. intros cn Hcn. rewrite Forall_forall in HF. destruct (HF cn Hcn) as (H1 & H2 & H3).
      split; [exact H1|]. split; [lia|]. split; [exact H3|exact (A1 cn Hcn)]. }
    pose proof (fun s1' ss' p' => p1_fold_inv g A input ifuel costs stk0 p0 Hcosts c s1' ss' p'
                                    (fst nb) (bset todo c rest) tlen (snd nb) S1 Hinv Hall) as Hfold.
    cbn zeta.
    split; [|split].
    + destruct (Hfold [] [] 0%nat) as (S' & (U' & _ & _) & (_ & _ & HS') & _).
      exists S'. split; [exact U'|]. intros m (c' & Hin). exact (HS' c' m Hin).
    + apply p1_fold_tlen. intros c' Hdf. apply Htl. intros E. apply Hdf.
      destruct (N.eq_dec c' c) as [->|Hd].
      * rewrite bget_bset_same. rewrite Hb in E. discriminate.
      * rewrite bget_bset_other by exact Hd. exact E.
    + destruct Hcov as (s1 & s2 & ss & p & nstar & Es & (c' & Hq) & Hc & Hat).
      assert (Hdone : forall s1' s2' ss' p',
                s = s1' ++ s2' -> at_conf s1' s2' ss' p' ->
                (bcovered s1' ss' p' (bset todo c rest) \/
                 (exists cn, In cn (fst nb) /\ carries s1' ss' p' (snd cn) /\ n_rep (snd cn) <> RTerm)) ->
                covered (P1 (fst (fst (fold_left p1_push (fst nb) (bset todo c rest, tlen, snd nb))))
                            (snd (fst (fold_left p1_push (fst nb) (bset todo c rest, tlen, snd nb)))) c
                            (snd (fold_left p1_push (fst nb) (bset todo c rest, tlen, snd nb))))).
      { intros s1' s2' ss' p' Es' Hat' Hpre.
        destruct (Hfold s1' ss' p') as (_ & _ & _ & Cov). destruct (Cov Hpre) as (c'' & x & Hx & Hcx).
        exists s1', s2', ss', p', x. split; [exact Es'|]. split; [exists c''; exact Hx|]. split; assumption. }
      assert (Hstay : In nstar (bget (bset todo c rest) c') ->
                covered (P1 (fst (fst (fold_left p1_push (fst nb) (bset todo c rest, tlen, snd nb))))
                            (snd (fst (fold_left p1_push (fst nb) (bset todo c rest, tlen, snd nb)))) c
                            (snd (fold_left p1_push (fst nb) (bset todo c rest, tlen, snd nb))))).
      { intros Hin. apply (Hdone s1 s2 ss p Es Hat). left. exists c', nstar. split; assumption. }
      destruct (N.eq_dec c' c) as [->|Hdf]; [|apply Hstay; rewrite bget_bset_other by exact Hdf; exact Hq].
      rewrite Hb in Hq. destruct Hq as [<-|Hq]; [|apply Hstay; rewrite bget_bset_same; exact Hq].
      destruct Hat as [(stk & Hr1 & <-)|(_ & HY)].
      2:{ rewrite (accepted_success _ _ _ _ Hc HY) in Hsucc. discriminate. }
      destruct s2 as [|m s2].
      * rewrite app_nil_r in Es. subst s1. rewrite Hrun in Hr1. injection Hr1 as <- <-.
        destruct (expand_end true n ctr nb Hok Hc Hsucc Hnb) as (cn & ss' & Hcn & Hcc & Hnt & Hat' & _).
        apply (Hdone s [] ss' pE ltac:(rewrite app_nil_r; reflexivity) Hat'). right.
        exists cn. split; [exact Hcn|split; assumption].
      * destruct (expand_move true n ctr nb s1 m s2 stk p Es Hok Hc Hr1 Hnb)
          as [(Hea & _)|(cn & ss' & Hcn & Hcc & Hnt & Hat' & _)]; [discriminate|].
        apply (Hdone (s1 ++ [m]) s2 ss' (mpos m p) ltac:(rewrite <- app_assoc; exact Es) Hat'). right.
        exists cn. split; [exact Hcn|split; assumption].
  - (* the first success node *)
    cbn [SearchProofs.state_ok] in Hs. destruct Hids as (S & HU & HS).
    split; [|split].
    + exists S. split; [exact HU|]. intros m [Hm|[<-|[]]]; apply HS; exists c; rewrite Hb;
        [right; exact Hm|left; reflexivity].
    + discriminate.
    + destruct Hcov as (s1 & s2 & ss & p & nstar & Es & (c' & Hq) & Hc & Hat).
      destruct (Hs c' nstar Hq) as ((Hcf & Hok) & Hle).
      pose proof (cost_le nstar s1 s2 ss p Hok Hc Es) as Hcl.
      split; [lia|]. destruct (N.eq_dec c' c) as [->|Hdf]; [right|left; lia].
      exists s1, s2, ss, p, nstar. split; [exact Es|]. split; [|split; assumption].
      rewrite Hb in Hq. destruct Hq as [<-|Hq]; [right; left; reflexivity|left; exact Hq].
  - (* a further success node *)
    destruct Hids as (S & HU & HS). split; [|split].
    + exists S. split; [exact HU|]. intros m [Hm|[<-|Hm]]; apply HS;
        [left; right; exact Hm|left; left; reflexivity|right; exact Hm].
    + discriminate.
    + destruct Hcov as (Hle & [Hlt|Hcov]); (split; [exact Hle|]); [left; exact Hlt|right].
      destruct Hcov as (s1 & s2 & ss & p & nstar & Es & Hq & Hc & Hat).
      exists s1, s2, ss, p, nstar. split; [exact Es|]. split; [|split; assumption].
      destruct Hq as [[<-|Hq]|Hq]; [right; left; reflexivity|left; exact Hq|right; right; exact Hq].
  - (* sweep a node of the same cost *)
    cbn [SearchProofs.state_ok] in Hs. destruct Hs as (Hgb & Hgacc). destruct Hids as (S & HU & HS). cbn [ctr_of] in HU.
    apply Forall_cons_iff in Hgb. destruct Hgb as ((Hcf & Hok) & Hgb).
    assert (Sn : S (n_rep n)) by (apply HS; left; left; reflexivity).
    destruct (neighbours_ids true g A input ifuel costs false n ctr nb S HU Sn Hnb) as (S1 & X1 & A1).
    pose proof X1 as (U1 & I1 & _).
    pose proof (neighbours_ok true g A input ifuel costs stk0 p0 false n ctr nb Hok Hnb) as HF.
    assert (Hinv : p2inv g A input ifuel costs stk0 p0 c S1 (snd nb) rest).
    { split; [exact Hgb|]. split; [exact U1|]. intros x Hx. apply I1, HS. left. right. exact Hx. }
    assert (Hall : Forall (nbr_in2 g A input ifuel costs stk0 p0 S1) (fst nb)).
    { apply Forall_forall. intros cn Hcn. rewrite Forall_forall in HF. destruct (HF cn Hcn) as (H1 & H2 & H3).
      split; [exact H1|]. split; [exact H3|exact (A1 cn Hcn)]. }
    pose proof (fun s1' ss' p' => p2_fold_inv g A input ifuel costs stk0 p0 Hcosts c s1' ss' p'
                                    (fst nb) rest (snd nb) S1 Hinv Hall) as Hfold.
    cbn zeta. split; [|split].
    + destruct (Hfold [] [] 0%nat) as (S' & (U' & I' & _) & (_ & _ & HS') & _).
      exists S'. split; [exact U'|]. intros m [Hm|Hm]; [exact (HS' m Hm)|].
      apply I', I1, HS. right. exact Hm.
    + exact Htl.
    + destruct Hcov as (Hle & Hcov). split; [exact Hle|]. destruct Hcov as [Hlt|Hcov]; [left; exact Hlt|].
      destruct Hcov as (s1 & s2 & ss & p & nstar & Es & Hq & Hc & Hat).
      assert (Hdone : forall s1' s2' ss' p',
                s = s1' ++ s2' -> at_conf s1' s2' ss' p' ->
                (lcovered s1' ss' p' rest \/
                 (exists cn, In cn (fst nb) /\ fst cn = c /\ carries s1' ss' p' (snd cn) /\ n_rep (snd cn) <> RTerm)) ->
                covered (P2 (fst (fold_left (p2_push c) (fst nb) (rest, snd nb))) c acc
                            (snd (fold_left (p2_push c) (fst nb) (rest, snd nb))))).
      { intros s1' s2' ss' p' Es' Hat' Hpre.
        destruct (Hfold s1' ss' p') as (_ & _ & _ & Cov). destruct (Cov Hpre) as (x & Hx & Hcx).
        exists s1', s2', ss', p', x. split; [exact Es'|]. split; [left; exact Hx|]. split; assumption. }
      destruct Hq as [[<-|Hq]|Hq].
      * destruct Hat as [(stk & Hr1 & <-)|(_ & HY)].
        2:{ rewrite (accepted_success _ _ _ _ Hc HY) in Hsucc. discriminate. }
        destruct s2 as [|m s2].
        -- rewrite app_nil_r in Es. subst s1. rewrite Hrun in Hr1. injection Hr1 as <- <-.
           destruct (expand_end false n ctr nb Hok Hc Hsucc Hnb) as (cn & ss' & Hcn & Hcc & Hnt & Hat' & Hcost).
           right. apply (Hdone s [] ss' pE ltac:(rewrite app_nil_r; reflexivity) Hat'). right.
           exists cn. split; [exact Hcn|]. split; [congruence|split; assumption].
        -- destruct (expand_move false n ctr nb s1 m s2 stk p Es Hok Hc Hr1 Hnb)
             as [(_ & Hlt)|(cn & ss' & Hcn & Hcc & Hnt & Hat' & Hcost)]; [left; lia|].
           right. apply (Hdone (s1 ++ [m]) s2 ss' (mpos m p) ltac:(rewrite <- app_assoc; exact Es) Hat'). right.
           exists cn. split; [exact Hcn|]. split; [rewrite (Hcost eq_refl); exact Hcf|split; assumption].
      * right. apply (Hdone s1 s2 ss p Es Hat). left. exists nstar. split; assumption.
      * right. exists s1, s2, ss, p, nstar. split; [exact Es|]. split; [right; exact Hq|split; assumption].
Qed.

Lemma run_full st l st' : run st l st' ->
  state_ok st -> ids_ok st -> tlen_ok st -> cover_inv st ->
  state_ok st' /\ ids_ok st' /\ tlen_ok st' /\ cover_inv st'.
Proof.
  intros Hr. induction Hr as [st|st o st1 l st2 Hst Hr IH]; intros Hs Hi Ht Hc.
  - repeat split; assumption.
  - destruct (step_ok true g A input ifuel PN costs stk0 p0 _ _ _ Hs Hst) as (Hs1 & _).
    destruct (step_full _ _ _ Hs Hi Ht Hc Hst) as (Hi1 & Ht1 & Hc1).
    exact (IH Hs1 Hi1 Ht1 Hc1).
Qed.

Lemma init_full : ids_ok (init stk0 p0) /\ tlen_ok (init stk0 p0) /\ cover_inv (init stk0 p0).
Proof.
  unfold init. split; [|split].
  - exists (fun t => t = RTerm). split.
    + split.
      * intros a i -> Hi. discriminate.
      * intros a b i -> ->. reflexivity.
      * intros a c -> [].
    + intros n (c & Hin). unfold bget in Hin. cbn [assocN] in Hin.
      destruct (N.eqb c 0); [|destruct Hin]. destruct Hin as [<-|[]]. reflexivity.
  - intros c' Hdf. unfold bget in Hdf. cbn [assocN] in Hdf.
    destruct (N.eqb c' 0) eqn:E; [|congruence]. apply N.eqb_eq in E. lia.
  - exists [], s, (map fst stk0), p0, (mkNode stk0 p0 RTerm 0%N).
    split; [reflexivity|]. split; [exists 0%N; left; reflexivity|].
    split; [split; [left; reflexivity|split; reflexivity]|].
    left. exists stk0. split; reflexivity.
Qed.

(* how a run of the mirror that returns ends: with no candidate when the buckets are exhausted (or the cost
   counter would overflow), or at the end of the same-cost sweep *)
Definition final (st : sstate) (cnds : list node) : Prop :=
  match st with
  | P1 todo tlen c _ => cnds = [] /\ bget todo c = [] /\ ((u16max <=? c)%N = true \/ N.eqb (c + 1) tlen = true)
  | P2 b _ acc _ => b = [] /\ cnds = rev acc
  end.

Lemma exec_runs_all : forall fuel st cnds, exec fuel st = Done cnds ->
  exists l st', run st l st' /\ final st' cnds.
Proof.
  induction fuel as [|f IH]; intros st cnds H; [destruct st; discriminate|].
  assert (Hstep : forall o st1, sstep st o st1 -> exec f st1 = Done cnds ->
                  exists l st', run st l st' /\ final st' cnds).
  { intros o st1 Hst H1. destruct (IH st1 cnds H1) as (l & st' & Hr & Hf).
    exists (olist o ++ l), st'. split; [eapply run_cons; eassumption|exact Hf]. }
  destruct st as [todo tlen c ctr|b c acc ctr].
  - cbn [SearchSpec.exec phase1] in H. destruct (bget todo c) as [|n rest] eqn:Hb.
    + destruct (u16max <=? c)%N eqn:Hu.
      { injection H as <-. exists [], (P1 todo tlen c ctr). split; [apply run_nil|].
        split; [reflexivity|]. split; [exact Hb|left; exact Hu]. }
      destruct (N.eqb (c + 1) tlen) eqn:Ht.
      { injection H as <-. exists [], (P1 todo tlen c ctr). split; [apply run_nil|].
        split; [reflexivity|]. split; [exact Hb|right; exact Ht]. }
      apply (Hstep None (P1 todo tlen (c + 1)%N ctr)); [apply step_skip; assumption|exact H].
    + destruct (node_success n) eqn:Hsucc.
      * apply (Hstep (Some n) (P2 rest c [n] ctr)); [apply step_first; assumption|exact H].
      * destruct (neighbours true g A input ifuel costs true n ctr) as [nb| |] eqn:Hnb;
          cbn [obind] in H; try discriminate.
        eapply (Hstep (Some n)); [eapply step_expand; eassumption|exact H].
  - cbn [SearchSpec.exec phase2] in H. destruct b as [|n rest].
    + injection H as <-. exists [], (P2 [] c acc ctr). split; [apply run_nil|]. split; reflexivity.
    + destruct (node_success n) eqn:Hsucc.
      * apply (Hstep (Some n) (P2 rest c (n :: acc) ctr)); [apply step_keep; assumption|exact H].
      * destruct (neighbours true g A input ifuel costs false n ctr) as [nb| |] eqn:Hnb;
          cbn [obind] in H; try discriminate.
        eapply (Hstep (Some n)); [eapply step_sweep; eassumption|exact H].
Qed.

(* COMPLETENESS at the level of the candidate nodes *)
Lemma dijkstra_covers fuel cnds :
  dijkstra true g A input ifuel PN costs fuel stk0 p0 = Done cnds ->
  cnds <> [] /\
  (forall n, In n cnds -> (n_cf n <= scost s p0)%N) /\
  ((exists n, In n cnds /\ n_cf n = scost s p0) -> exists n, In n cnds /\ In s (unfold (n_rep n))).
Proof.
  intros H. rewrite dijkstra_exec in H.
  destruct (exec_runs_all _ _ _ H) as (l & st' & Hr & Hf).
  destruct init_full as (Hi & Ht & Hc).
  destruct (run_full _ _ _ Hr (init_ok g A input ifuel PN costs stk0 p0) Hi Ht Hc) as (Hs' & _ & Ht' & Hc').
  destruct st' as [todo tlen c ctr|b c acc ctr]; cbn [final] in Hf.
  - (* the search cannot give up: the covering node is in a bucket it has not reached *)
    exfalso. destruct Hf as (_ & Hb & Hstop).
    destruct Hc' as (s1 & s2 & ss & p & nstar & Es & (c' & Hq) & Hcar & Hat).
    cbn [SearchProofs.state_ok] in Hs'. destruct (Hs' c' nstar Hq) as ((Hcf & Hok) & Hle).
    pose proof (cost_le nstar s1 s2 ss p Hok Hcar Es) as Hcl.
    assert (Hlt : (c' < tlen)%N) by (apply Ht'; intros E; rewrite E in Hq; destruct Hq).
    assert (Hcc : c' <> c) by (intros ->; rewrite Hb in Hq; destruct Hq).
    destruct Hstop as [Hu|Hu]; [apply N.leb_le in Hu|apply N.eqb_eq in Hu]; lia.
  - destruct Hf as (-> & ->). cbn [SearchProofs.state_ok] in Hs'. destruct Hs' as (_ & Hacc).
    cbn [tlen_ok] in Ht'. destruct Hc' as (Hle & Hcov). rewrite Forall_forall in Hacc.
    split; [|split].
    + intros E. apply Ht'. rewrite <- (rev_involutive acc), E. reflexivity.
    + intros n Hn. apply in_rev in Hn. destruct (Hacc n Hn) as ((Hcf & _) & _). lia.
    + intros (n & Hn & Hcn). apply in_rev in Hn. destruct (Hacc n Hn) as ((Hcf & _) & _).
      destruct Hcov as [Hlt|Hcov]; [lia|].
      destruct Hcov as (s1 & s2 & ss & p & nstar & Es & [[]|Hq] & Hcar & Hat).
      destruct (Hacc nstar Hq) as ((_ & Hok) & Hsucc).
      assert (E1 : s1 = s).
      { destruct Hat as [(stk & Hr1 & <-)|(-> & _)]; [|rewrite app_nil_r in Es; congruence].
        destruct s2 as [|m s2]; [rewrite app_nil_r in Es; congruence|].
        rewrite (exact_not_success nstar s1 (m :: s2) stk p Es ltac:(discriminate) Hok Hcar Hr1) in Hsucc.
        discriminate. }
      subst s1. exists nstar. split; [apply -> in_rev; exact Hq|].
      pose proof (carried_not_term _ _ _ _ Hcar Hne) as Hnt. destruct Hcar as (Hin & _).
      destruct (n_rep nstar); [congruence|exact Hin|exact Hin].
Qed.

End Main.

(* ---- the statements of C06/CompleteSpec.v -------------------------------------------------------- *)
Lemma dijkstra_complete : dijkstra_complete_stmt.
Proof.
  intros g A input ifuel rf PN costs fuel stk p cnds s Hc Hif Hrf Hd (Hnf & (stkE & pE & Hrun & Hend) & Hfirst) Hne Hu.
  exact (dijkstra_covers g A input ifuel PN costs stk p Hc Hif rf Hrf s stkE pE Hnf Hrun Hend Hfirst Hne Hu fuel cnds Hd).
Qed.

Lemma rank_each_nonempty g A input ifuel TRY stk p : forall cs ranked,
  rank_each g A input ifuel TRY stk p cs = Done ranked -> Forall (fun x => snd x <> []) ranked.
Proof.
  induction cs as [|seqs r IH]; intros ranked H; cbn [rank_each] in H.
  - injection H as <-. constructor.
  - destruct seqs as [|s0 ss]; [discriminate|].
    destruct (apply_seq g A input ifuel s0 0 stk p None) as [[[stk' p'] fl]| |]; try discriminate.
    destruct (rank_each g A input ifuel TRY stk p r) as [rest| |] eqn:Er; cbn [obind] in H; try discriminate.
    injection H as <-. constructor; [cbn [snd]; discriminate|apply IH; reflexivity].
Qed.

Lemma search_mirror_nonempty fixed g A input ifuel PN costs TRY avoid fuel stk p out cnds :
  search_mirror fixed g A input ifuel PN costs TRY avoid fuel stk p = Done out ->
  dijkstra fixed g A input ifuel PN costs fuel stk p = Done cnds -> cnds <> [] -> out <> [].
Proof.
  intros H Hd Hne. unfold search_mirror in H. rewrite Hd in H. cbn [obind] in H.
  destruct cnds as [|n0 cnds0]; [congruence|].
  match type of H with obind ?X _ = _ => destruct X as [ranked| |] eqn:Hr end; cbn [obind] in H; try discriminate.
  injection H as <-.
  pose proof (rank_each_nonempty _ _ _ _ _ _ _ _ _ Hr) as Hall.
  pose proof (rank_each_snd _ _ _ _ _ _ _ _ _ Hr) as Hsnd.
  assert (Hrne : map fst ranked <> []).
  { destruct ranked; [discriminate|discriminate]. }
  pose proof (list_max_In _ Hrne) as Hin. apply in_map_iff in Hin. destruct Hin as (x & Ex & Hx).
  rewrite Forall_forall in Hall. pose proof (Hall x Hx) as Hxs.
  destruct (snd x) as [|s0 ss] eqn:Es; [congruence|].
  intros E.
  assert (Hin : In (strip s0) (simplify avoid
            (flat_map snd (filter (fun x0 => Nat.eqb (fst x0) (list_max (map fst ranked))) ranked)))).
  { apply simplify_In. exists s0. split; [|reflexivity]. apply in_flat_map. exists x.
    split; [apply filter_In; split; [exact Hx|apply Nat.eqb_eq; exact Ex]|rewrite Es; left; reflexivity]. }
  rewrite E in Hin. destruct Hin.
Qed.

Lemma reported_cost_minimal : reported_cost_minimal_stmt.
Proof.
  intros g A input ifuel rf PN costs TRY avoid fuel stk p out s Hc Hif Hrf Hopen H Hnf Hsucc Hu.
  destruct (success_has_first_prefix g A input rf PN costs s stk p Hc Hnf Hsucc)
    as (s1 & s2 & Es & Hfs & Hle & _).
  assert (Hne : s1 <> []) by (intros ->; apply Hopen; apply Hfs).
  destruct (search_mirror_shape _ _ _ _ _ _ _ _ _ _ _ _ _ H) as (cnds & kept & Hd & -> & Hk).
  destruct (dijkstra_complete g A input ifuel rf PN costs fuel stk p cnds s1 Hc Hif Hrf Hd Hfs Hne ltac:(lia))
    as (Hcne & Hcost & _).
  split; [exact (search_mirror_nonempty _ _ _ _ _ _ _ _ _ _ _ _ _ _ H Hd Hcne)|].
  intros rs Hin. apply simplify_In in Hin. destruct Hin as (s' & Hs' & ->).
  destruct (Hk s' Hs') as (n & Hn & Hu').
  pose proof (returned_nodes_invariant _ _ _ _ _ _ _ _ _ _ _ Hd) as Hok. rewrite Forall_forall in Hok.
  destruct (Hok n Hn s' (unfold_in_paths _ _ Hu')) as (_ & Hcs & _).
  rewrite scost_strip, Hcs. specialize (Hcost n Hn). lia.
Qed.

Lemma reported_cost_eq_reference : reported_cost_eq_reference_stmt.
Proof.
  intros g A input ifuel PN costs TRY avoid sched fuel stk p out cmin fmax ref
         Hc HPN Hif Hconf Hns Hp Hopen H Href Hu.
  destruct (reference_complete g A input ifuel PN costs TRY avoid sched stk p cmin fmax ref Hc HPN Href)
    as (Hmem & Hsound & _ & _ & Hrne).
  destruct ref as [|r0 ref0]; [congruence|].
  destruct (proj1 (Hmem r0) (or_introl eq_refl)) as (s & _ & Hmin & _).
  pose proof (Hsound s Hmin) as Hcs. destruct Hmin as ((Hnf & Hsucc & Hfirst) & _).
  destruct (reported_cost_minimal g A input ifuel ifuel PN costs TRY avoid fuel stk p out s Hc Hif (le_n _) Hopen H Hnf Hsucc
              ltac:(lia)) as (Hone & Hle).
  split; [exact Hone|]. intros rs Hin.
  pose proof (reported_cost_ge_reference true g A input ifuel PN costs TRY avoid sched fuel stk p out cmin fmax
                (r0 :: ref0) Hc HPN Hconf Hns Hp H Href rs Hin) as Hge.
  specialize (Hle rs Hin). lia.
Qed.

(* every returned node stands for a success of the reference semantics, of the node's cost *)
Lemma returned_node_reference_success fixed g A input ifuel PN costs fuel stk p cnds n :
  reduce_confluent g A ifuel -> no_shift_eof g A -> (p <= length input)%nat ->
  dijkstra fixed g A input ifuel PN costs fuel stk p = Done cnds -> In n cnds ->
  exists s', nf g s' /\ success g A input ifuel PN stk p s' /\ scost g input costs s' p = n_cf n.
Proof.
  intros Hconf Hns Hp Hd Hn.
  destruct (returned_facts _ _ _ _ _ _ _ _ _ _ _ Hd) as (c & Hall). rewrite Forall_forall in Hall.
  destruct (Hall n Hn) as ((_ & Hok) & Hsucc).
  destruct (paths (n_rep n)) as [|s' ps] eqn:Ep; [exfalso; exact (paths_nonempty _ Ep)|].
  assert (Hin : In s' (paths (n_rep n))) by (rewrite Ep; left; reflexivity).
  destruct (node_success_path g A input ifuel PN costs stk p n s' Hsucc (Hok s' Hin))
    as (moves & stk' & p' & H1 & H2 & H3 & H4).
  exists s'. split; [exact H4|]. split; [|exact H3].
  eapply search_path_reference_success; eassumption.
Qed.

Lemma candidates_complete : candidates_complete_stmt.
Proof.
  intros g A input ifuel PN costs fuel stk p cnds s Hc Hif Hconf Hns Hp Hd (Hfs & Hmin) Hne Hu.
  destruct (dijkstra_complete g A input ifuel ifuel PN costs fuel stk p cnds s Hc Hif (le_n _) Hd Hfs Hne Hu)
    as (Hcne & Hcost & Hfind).
  apply Hfind. destruct cnds as [|n cnds0]; [congruence|].
  exists n. split; [left; reflexivity|].
  pose proof (Hcost n (or_introl eq_refl)) as Hle.
  destruct (returned_node_reference_success true g A input ifuel PN costs fuel stk p _ n Hconf Hns Hp Hd
              (or_introl eq_refl)) as (s' & Hnf' & Hs' & Hcs').
  destruct (success_has_first_prefix g A input ifuel PN costs s' stk p Hc Hnf' Hs')
    as (s1 & s2 & _ & Hfs1 & Hle1 & _).
  specialize (Hmin s1 Hfs1). lia.
Qed.
