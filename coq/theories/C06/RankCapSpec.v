(* C06 — the look-ahead cap of the ranking (rank_cnds, lrpar/src/lib/cpctplus.rs; repaired by /repo 00915cc).
   "Every minimum-cost repair that lets parsing continue as far as the best of them is reported": the distance is
   measured by plain parsing from the configuration the candidate's own repairs reach, and the documented
   look-ahead of the ranking is TRY_PARSE_AT_MOST lexemes from the error ([K] here; the check passes 250).
   The code as it was pinned called `lr_upto(None, laidx, in_laidx + K, ..)` for every candidate; its loop is
   `while laidx != end_laidx && laidx <= lexemes.len()`, so a candidate whose own repairs had already moved laidx
   BEYOND in_laidx + K was parsed on without limit and out-ranked every candidate stopped at the limit
   ([Mirror.rank_each_orig], [Model.far_orig]; refuted: [rank_cap_refuted_orig_stmt]).  The code now measures
   every candidate with one yardstick ([Model.cap_dist], [Mirror.rank_each], [Model.far]): definitions and
   statements.  Proved in C06/RankCapProofs.v. *)
From Coq Require Import List Arith NArith Bool Lia.
From GV Require Import Common.Outcome Base.Grammar LR.Automaton LR.Validator
  Repair.Semantics Repair.Spec Repair.Search C06.Model C06.Spec C06.Mirror.
Import ListNotations.

Section RankCap.
Variable g : grammar.
Variable A : automaton.
Variable input : list N.
Variable ifuel : nat.

(* plain parsing that never goes beyond [limit] (`while laidx < limit`): it reads no lexeme at or after it *)
Fixpoint parse_below (n : nat) (stk : vstack) (laidx limit : nat) : nat :=
  match n with
  | O => laidx
  | S n' =>
      if (limit <=? laidx)%nat then laidx else
      match lr_upto1 g A input ifuel None stk laidx with
      | AShift stk' => parse_below n' stk' (S laidx) limit
      | _ => laidx
      end
  end.

(* the distance of a configuration, capped at [limit] *)
Definition dist_capped (stk' : vstack) (p' limit : nat) : nat :=
  Nat.min (parse_below (length input + 2) stk' p' limit) limit.

(* the capped distance of a candidate (rank_cnds applies its first sequence, failures ignored); the error is at
   lexeme [p], the cap is [K] lexemes further *)
Definition capped_dist (K : nat) (stk : vstack) (p : nat) (s0 : list repair) : outcome nat :=
  match apply_seq g A input ifuel s0 0 stk p None with
  | Done (stk', p', _) => Done (dist_capped stk' p' (p + K))
  | Panic => Panic
  | OutOfFuel => OutOfFuel
  end.

End RankCap.

(* ---- statements --------------------------------------------------------------------------------------- *)

(* the yardstick never goes beyond the cap, and does nothing from a configuration at or beyond it *)
Definition parse_below_within_stmt : Prop :=
  forall g A input ifuel n stk q e,
    (q <= parse_below g A input ifuel n stk q e)%nat /\
    ((q <= e)%nat -> (parse_below g A input ifuel n stk q e <= e)%nat) /\
    ((e <= q)%nat -> parse_below g A input ifuel n stk q e = q).

(* what the repaired code computes (lr_upto only when laidx < limit, then min(laidx, limit)) IS that distance *)
Definition cap_dist_is_capped_distance_stmt : Prop :=
  forall g A input ifuel stk q e,
    cap_dist (parse_far g A input ifuel (length input + 2) stk q e) q e = dist_capped g A input ifuel stk q e.

(* … so the rank of the reference ([far], the one [parses_furthest] and reference_complete speak about) is the
   capped distance, never more than in_laidx + K *)
Definition far_is_capped_distance_stmt : Prop :=
  forall g A input ifuel K stk p s stk' p',
    srun g A input ifuel s stk p = Some (stk', p') ->
    far g A input ifuel K stk p s = dist_capped g A input ifuel stk' p' (p + K) /\
    (far g A input ifuel K stk p s <= p + K)%nat.

(* rank_fixed_spec: the repaired ranking gives every candidate its capped distance and keeps exactly the
   candidates whose capped distance is maximal *)
Definition rank_fixed_spec_stmt : Prop :=
  forall g A input ifuel K stk p cnds ranked,
    rank_each g A input ifuel K stk p cnds = Done ranked ->
    Forall2 (fun seqs r => snd r = seqs /\
               exists s0 rest, seqs = s0 :: rest /\ capped_dist g A input ifuel K stk p s0 = Done (fst r))
            cnds ranked /\
    (forall r, In r ranked -> (fst r <= p + K)%nat) /\
    (forall seqs, In seqs (rank_keep ranked) <->
       exists d, In (d, seqs) ranked /\ forall r, In r ranked -> (fst r <= d)%nat).

(* the search mirror reports simplify_repairs of what [rank_keep] keeps *)
Definition search_mirror_keeps_stmt : Prop :=
  forall fixed g A input ifuel PN costs K avoid fuel stk p,
    search_mirror fixed g A input ifuel PN costs K avoid fuel stk p =
    match dijkstra fixed g A input ifuel PN costs fuel stk p with
    | Done [] => Done []
    | Done cnds =>
        match rank_each g A input ifuel K stk p (map (fun n => unfold (n_rep n)) cnds) with
        | Done ranked => Done (simplify avoid (concat (rank_keep ranked)))
        | Panic => Panic
        | OutOfFuel => OutOfFuel
        end
    | Panic => Panic
    | OutOfFuel => OutOfFuel
    end.

(* rank_cap_refuted_orig: on a validated conflict-free table, at the first error of an input, with legal costs,
   the search with the PINNED ranking drops a minimum-cost repair whose capped distance equals the best capped
   distance (it parses as far as the best of them within the look-ahead of the ranking) — and the ranking itself
   ([rank_each_orig] on two candidates) gives one of them a distance beyond the cap *)
Definition rank_cap_refuted_orig_stmt : Prop :=
  exists g A input ifuel ofuel PN costs K avoid fuel e out rs,
    wf_grammar g = true /\ validS g A = true /\ validC g A = true /\ validE g A = true /\
    single_candidate g A = true /\ no_shift_eof g A /\ costs_pos costs /\ (1 <= PN)%nat /\
    run_recover g A input ifuel PN ofuel [None] [] 0 = DDone None [e] /\
    search_mirror_orig true g A input ifuel PN costs K avoid fuel (e_stk e) (e_pos e) = Done out /\
    (exists s, rs = strip s /\ min_cost_success g A input ifuel PN costs (e_stk e) (e_pos e) s /\
               parses_furthest g A input ifuel PN costs K (e_stk e) (e_pos e) s) /\
    ~ In rs out /\
    (exists cnds ranked, rank_each_orig g A input ifuel K (e_stk e) (e_pos e) cnds = Done ranked /\
                         exists r, In r ranked /\ (e_pos e + K < fst r)%nat).

(* the reference as it stood before the repair had the same uncapped comparison built in: it agreed with the
   pinned search on the witness, which is why set equality with it did not show the defect *)
Definition reference_orig_uncapped_stmt : Prop :=
  exists g A input ifuel PN costs K avoid sched fuel stk p cmin fmax ref out,
    all_min_repairs_orig g A input ifuel PN costs K avoid sched stk p = Some (cmin, fmax, ref) /\
    search_mirror_orig true g A input ifuel PN costs K avoid fuel stk p = Done out /\
    out = ref /\ (p + K < fmax)%nat /\
    exists ref', all_min_repairs g A input ifuel PN costs K avoid sched stk p = Some (cmin, (p + K)%nat, ref') /\
                 search_mirror true g A input ifuel PN costs K avoid fuel stk p = Done ref' /\
                 exists rs, In rs ref' /\ ~ In rs ref.
