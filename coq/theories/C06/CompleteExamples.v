(* C06 — the hypotheses of the completeness theorems are satisfiable and their conclusions say what one
   expects on concrete runs (vm_compute witnesses); and the cost bound of the theorems cannot be dropped:
   [search_complete_stmt true] exactly as STATED in C06/Refuted.v (without it) is false. *)
From Coq Require Import List Arith NArith Bool Lia Sorted.
From GV Require Import Common.Outcome Base.Grammar LR.Automaton LR.Validator LR.Spec LR.Examples LR.TermExamples
  Repair.Semantics Repair.Spec Repair.Proofs Repair.Search Repair.Confluent Repair.ConfluentSpec Repair.ConfluentValidated
  C06.Model C06.Spec C06.Proofs C06.RefProofs C06.Mirror C06.Refuted C06.SearchSpec C06.SearchProofs C06.SearchExamples
  C06.CompleteSpec C06.CompleteProofs C06.CompleteRank C06.CompleteValidated C06.CompleteValidatedRank.
Import ListNotations.
Local Open Scope N_scope.

(* ---- 1. a run with MERGED nodes (any table: no confluence needed).  S: S 'a' B | B;  B: 'b' C | ;
        C: 'c' | 'c' C;  input  b a b a b, error at the first 'a'.  [Ins c; Shf; Del; Shf; Del] is a
        first success of cost 3 of the reference; it reaches its node as the ALTERNATIVE of a merge
        (SearchExamples.m_candidates), and the theorem finds it there. -------------------------------- *)
Definition m_seq : list repair := [Ins 2; Shf; Del; Shf; Del].

Lemma m_seq_first_success : first_success w_g w_A m_input 100 3 w_stk 1 m_seq /\ scost w_g m_input w_costs m_seq 1 = 3.
Proof.
  assert (Hin : In m_seq (cands w_g w_A m_input 100 3 w_costs 3 w_stk 1)).
  { assert (E : existsb (fun s => if seq_eq_dec s m_seq then true else false)
                  (cands w_g w_A m_input 100 3 w_costs 3 w_stk 1) = true) by (vm_compute; reflexivity).
    apply existsb_exists in E. destruct E as (x & Hx & E). destruct (seq_eq_dec x m_seq) as [->|]; [exact Hx|discriminate]. }
  apply (cands_exact w_g w_A m_input 100%nat 3%nat w_costs 3 m_seq w_stk 1%nat w_costs_pos ltac:(lia)) in Hin.
  split; [apply Hin|vm_compute; reflexivity].
Qed.

Example m_dijkstra_complete_instance :
  match dijkstra true w_g w_A m_input 100 3 w_costs 5000 w_stk 1 with
  | Done cnds => exists n, In n cnds /\ In m_seq (unfold (n_rep n))
  | _ => False
  end.
Proof.
  destruct (dijkstra true w_g w_A m_input 100 3 w_costs 5000 w_stk 1) as [cnds| |] eqn:E;
    [|vm_compute in E; discriminate|vm_compute in E; discriminate].
  destruct m_seq_first_success as (Hfs & Hcost).
  destruct (dijkstra_complete w_g w_A m_input 100%nat 100%nat 3%nat w_costs 5000%nat w_stk 1%nat cnds m_seq
              w_costs_pos ltac:(lia) (le_n _) E Hfs ltac:(discriminate) ltac:(rewrite Hcost; vm_compute; discriminate))
    as (Hne & Hle & Hfind).
  apply Hfind. rewrite Hcost.
  pose proof m_candidates as Hc. rewrite E in Hc.
  destruct cnds as [|n cnds0]; [congruence|]. exists n. split; [left; reflexivity|].
  cbn [map] in Hc. injection Hc as _ Hcf _ _. exact Hcf.
Qed.

(* ---- 2. a reduce-confluent table (Repair/Confluent.v's LR(0)-style table), input ( a a ): all the
        hypotheses of the set theorem hold, and its conclusion is the characterisation of [[Del]] ------- *)
Example c_search_reports_exactly :
  (forall rs, In rs [[Del]] <->
     exists s, rs = strip s /\ min_cost_success lr0_g lr0_A c_input 50 3 c_costs c_stk 2 s /\
               parses_furthest lr0_g lr0_A c_input 50 3 c_costs 250 c_stk 2 s) /\
  (forall rs, In rs [[Del]] -> scost lr0_g c_input c_costs rs 2 = 1) /\
  (forall s, nf lr0_g s -> success lr0_g lr0_A c_input 50 3 c_stk 2 s -> (1 <= scost lr0_g c_input c_costs s 2)%N).
Proof.
  destruct (error_not_success lr0_g lr0_A c_input 50%nat 50%nat 3%nat 20%nat _ lr0_no_shift_eof ltac:(lia) c_first_error)
    as (Hopen & Hp).
  exact (search_reports_exactly lr0_g lr0_A c_input 50%nat 3%nat c_costs 250%nat [] [0; 1; 2] 2000%nat c_stk 2%nat
           [[Del]] 1 4%nat [[Del]] c_costs_pos ltac:(lia) ltac:(lia) lr0_confluent lr0_no_shift_eof Hp Hopen
           c_search c_reference ltac:(vm_compute; discriminate)).
Qed.

(* ---- 3. a VALIDATED table: the implementation's own table for the calculator grammar (LR/Examples.v),
        input  n + ) , error at lexeme 2.  The search reports two sequences of cost 2; the theorem: 2 is
        the least cost of any repair, at every sufficiently large reduction fuel of the reference -------- *)
Definition k_costs : list N := [1; 1; 1; 1; 1; 1; 1].

Lemma k_costs_pos : costs_pos k_costs.
Proof.
  intros t. unfold tcost, k_costs.
  destruct (N.to_nat t) as [|[|[|[|[|[|[|[|n]]]]]]]]; cbn [nth]; lia.
Qed.

Example calc_search :
  match run_recover calc_grammar calc_automaton calc_err_input 50 3 20 [None] [] 0 with
  | DDone None [e] =>
      search_mirror true calc_grammar calc_automaton calc_err_input 50 3 k_costs 250 [] 5000 (e_stk e) (e_pos e)
      = Done [[Ins 2; Ins 4]; [Ins 4; Del]] /\
      all_min_repairs calc_grammar calc_automaton calc_err_input 500 3 k_costs 250 [] [0; 1; 2; 3] (e_stk e) (e_pos e)
      = Some (2, 3%nat, [[Ins 2; Ins 4]; [Ins 4; Del]])
  | _ => False
  end.
Proof. vm_compute. split; reflexivity. Qed.

Example calc_cost_eq_instance :
  forall e out, run_recover calc_grammar calc_automaton calc_err_input 50 3 20 [None] [] 0 = DDone None [e] ->
  search_mirror true calc_grammar calc_automaton calc_err_input 50 3 k_costs 250 [] 5000 (e_stk e) (e_pos e) = Done out ->
  exists F, forall f, (F <= f)%nat -> forall sched cmin fmax ref,
    all_min_repairs calc_grammar calc_automaton calc_err_input f 3 k_costs 250 [] sched (e_stk e) (e_pos e)
      = Some (cmin, fmax, ref) ->
    (cmin <= u16max)%N ->
    out <> [] /\ forall rs, In rs out -> scost calc_grammar calc_err_input k_costs rs (e_pos e) = cmin.
Proof.
  intros e out He Hs.
  assert (Hrng : tokens_in_range calc_grammar calc_err_input).
  { unfold tokens_in_range, calc_err_input. repeat constructor. }
  assert (Hg : graph_stack calc_grammar calc_automaton (e_stk e)).
  { pose proof (recover_stacks_graph calc_grammar calc_automaton calc_err_input 50%nat 3%nat 20%nat [None]
                  calc_wf (proj1 calc_table_valid) Hrng) as H.
    assert (Hor : oracle_in_range calc_grammar [None]) by (intros sq [E|[]]; discriminate).
    specialize (H Hor). rewrite He in H. cbn [errs_of] in H. inversion H; assumption. }
  destruct (error_not_success calc_grammar calc_automaton calc_err_input 50%nat 0%nat 3%nat 20%nat e
              calc_no_shift_eof ltac:(lia) He) as (_ & Hp).
  destruct (validated_reported_cost_eq_reference calc_grammar calc_automaton calc_err_input 50%nat 3%nat k_costs
              250%nat [] 5000%nat (e_stk e) (e_pos e) out k_costs_pos ltac:(lia) ltac:(lia)
              calc_validated calc_no_shift_eof Hrng Hg Hp Hs) as (F & HF).
  exists F. intros f Hf sched cmin fmax ref Href Hu.
  apply (HF f Hf sched cmin fmax ref); [|exact Href|exact Hu].
  apply (error_not_success calc_grammar calc_automaton calc_err_input 50%nat f 3%nat 20%nat e
           calc_no_shift_eof ltac:(lia) He).
Qed.

(* … and the SET it reports is the reference's (every hypothesis of the theorem for validated tables holds
   here, rank_fuel_ok by computation) *)
Example calc_set_instance :
  forall e, run_recover calc_grammar calc_automaton calc_err_input 50 3 20 [None] [] 0 = DDone None [e] ->
  exists F, forall f, (F <= f)%nat -> forall sched cmin fmax ref,
    all_min_repairs calc_grammar calc_automaton calc_err_input f 3 k_costs 250 [] sched (e_stk e) (e_pos e)
      = Some (cmin, fmax, ref) ->
    (cmin <= u16max)%N ->
    forall rs, In rs [[Ins 2; Ins 4]; [Ins 4; Del]] <-> In rs ref.
Proof.
  intros e He.
  assert (Hrng : tokens_in_range calc_grammar calc_err_input).
  { unfold tokens_in_range, calc_err_input. repeat constructor. }
  assert (Hg : graph_stack calc_grammar calc_automaton (e_stk e)).
  { pose proof (recover_stacks_graph calc_grammar calc_automaton calc_err_input 50%nat 3%nat 20%nat [None]
                  calc_wf (proj1 calc_table_valid) Hrng) as H.
    assert (Hor : oracle_in_range calc_grammar [None]) by (intros sq [E|[]]; discriminate).
    specialize (H Hor). rewrite He in H. cbn [errs_of] in H. inversion H; assumption. }
  assert (Hopen : forall f, start_open calc_grammar calc_automaton calc_err_input f 3 (e_stk e) (e_pos e)).
  { intros f. apply (error_not_success calc_grammar calc_automaton calc_err_input 50%nat f 3%nat 20%nat e
                       calc_no_shift_eof ltac:(lia) He). }
  destruct (error_not_success calc_grammar calc_automaton calc_err_input 50%nat 0%nat 3%nat 20%nat e
              calc_no_shift_eof ltac:(lia) He) as (_ & Hp).
  revert Hg Hopen Hp. vm_compute in He. injection He as <-. cbn [e_stk e_pos]. intros Hg Hopen Hp.
  match goal with |- context [all_min_repairs _ _ _ _ _ _ _ _ _ ?S _] => set (stk0 := S) in * end.
  assert (Hs : search_mirror true calc_grammar calc_automaton calc_err_input 50 3 k_costs 250 [] 5000 stk0 2
               = Done [[Ins 2; Ins 4]; [Ins 4; Del]]) by (vm_compute; reflexivity).
  assert (Hd : exists cnds, dijkstra true calc_grammar calc_automaton calc_err_input 50 3 k_costs 5000 stk0 2 = Done cnds /\
                            rank_fuel_ok calc_grammar calc_automaton calc_err_input 50 250 stk0 2 cnds = true).
  { eexists. split; [vm_compute; reflexivity|vm_compute; reflexivity]. }
  destruct Hd as (cnds & Hd & Hrok).
  destruct (validated_search_complete calc_grammar calc_automaton calc_err_input 50%nat 3%nat k_costs 250%nat []
              5000%nat stk0 2%nat _ cnds k_costs_pos ltac:(lia) ltac:(lia) calc_validated calc_no_shift_eof
              Hrng Hg Hp Hs Hd Hrok) as (F & HF).
  exists F. intros f Hf sched cmin fmax ref Href Hu. exact (HF f Hf sched cmin fmax ref (Hopen f) Href Hu).
Qed.

(* ---- 4. the cost bound cannot be dropped.  S: 'a';  input  a^259 , every token costs 255 (the largest
        cost a u8 holds).  The error is at the second 'a'; the one repair deletes the 258 remaining
        lexemes: cost 65790 > 65535.  The search skips the neighbour whose cost does not fit u16
        (cpctplus.rs `n.cf.checked_add(..)`) and returns no repair at all; the reference finds the
        repair.  (Replayed on the implementation: `ER 1 2 0`, no sequence reported, within the budget;
        with 258 lexemes — cost 65535 — the 257 deletions are reported.)
        tokens 0='a' eof=1; rules 0=^ 1=S; productions 0: S->a  1: ^->S (dumped from the implementation) -- *)
Definition b_g : grammar := mkGrammar 2 2 [(1, [T 0]); (0, [R 1])] 1 1.
Definition b_d : dump := mkDump 3 0
  [(0, [((0, 0%nat), [1]); ((1, 0%nat), [1])]); (1, [((1, 1%nat), [1])]); (2, [((0, 1%nat), [1])])]
  [(0, [((1, 0%nat), [1])]); (1, [((1, 1%nat), [1])]); (2, [((0, 1%nat), [1])])]
  [(0, [(T 0, 2); (R 1, 1)]); (1, []); (2, [])]
  [(0, [(0, Shift 2)]); (1, [(1, Accept)]); (2, [(1, Reduce 0)])]
  [(0, [(1, 1)]); (1, []); (2, [])].
Definition b_A : automaton := of_dump b_d.
Definition b_input : list N := repeat 0 259.
Definition b_costs : list N := [255; 255].
Definition b_stk : vstack := [(2, VLeaf 0 0 false)].

Lemma b_costs_pos : costs_pos b_costs.
Proof.
  intros t. unfold tcost, b_costs.
  destruct (N.to_nat t) as [|[|[|n]]]; cbn [nth]; lia.
Qed.

Lemma b_validated :
  wf_grammar b_g = true /\ validS b_g b_A = true /\ validC b_g b_A = true /\ validE b_g b_A = true /\
  single_candidate b_g b_A = true /\ dump_no_shift_eof (eof b_g) b_d = true.
Proof. vm_compute. repeat split. Qed.

Lemma b_first_error :
  run_recover b_g b_A b_input 100 3 400 [None] [] 0 = DDone None [mkErr 1 2 false false b_stk].
Proof. vm_compute. reflexivity. Qed.

Lemma b_search : search_mirror true b_g b_A b_input 100 3 b_costs 250 [] 70000 b_stk 1 = Done [].
Proof. vm_compute. reflexivity. Qed.

Lemma b_reference :
  all_min_repairs b_g b_A b_input 100 3 b_costs 250 [] [65790] b_stk 1 = Some (65790, 251%nat, [repeat Del 258]).
Proof. vm_compute. reflexivity. Qed.

Definition search_complete_needs_cost_bound_stmt : Prop := ~ search_complete_stmt true.

Lemma search_complete_needs_cost_bound : search_complete_needs_cost_bound_stmt.
Proof.
  intros H. destruct b_validated as (H1 & H2 & H3 & H4 & H5 & H6).
  pose proof (H b_g b_A b_input 100%nat 400%nat 3%nat b_costs 250%nat [] [65790] 70000%nat
                (mkErr 1 2 false false b_stk) 65790 251%nat [repeat Del 258] []
                H1 H2 H3 H4 H5 (dump_no_shift_eof_ok b_g b_d H6) b_costs_pos ltac:(lia)
                b_first_error b_search b_reference (repeat Del 258)) as (_ & Hin).
  exact (Hin (or_introl eq_refl)).
Qed.
