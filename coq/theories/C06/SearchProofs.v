(* C06 — proofs of the soundness invariants of the search mirror (statements: C06/SearchSpec.v). *)
From Coq Require Import List Arith NArith Bool Lia Sorted Permutation.
From GV Require Import Common.Outcome Base.Grammar Base.GrammarFacts LR.Automaton LR.Validator
  Repair.Semantics Repair.Spec Repair.Proofs Repair.Search Repair.Confluent
  C06.Model C06.Spec C06.Proofs C06.RefProofs C06.Mirror C06.SearchSpec.
Import ListNotations.

(* ---- lists of states -------------------------------------------------------------------------- *)
Lemma listN_eqb_eq : forall a b, listN_eqb a b = true -> a = b.
Proof.
  induction a as [|x a IH]; intros [|y b] H; cbn [listN_eqb] in H; try discriminate; [reflexivity|].
  apply andb_true_iff in H. destruct H as (H1 & H2). apply N.eqb_eq in H1. subst y.
  f_equal. apply IH. exact H2.
Qed.

Lemma listN_eqb_refl : forall a, listN_eqb a a = true.
Proof.
  induction a as [|x a IH]; [reflexivity|]. cbn [listN_eqb]. rewrite N.eqb_refl, IH. reflexivity.
Qed.

Lemma listN_eqb_congr a a' b b' : a = a' -> b = b' -> listN_eqb a b = listN_eqb a' b'.
Proof. intros -> ->. reflexivity. Qed.

(* ---- repair trees ----------------------------------------------------------------------------- *)
Fixpoint alt_paths (l : list rtree) : list (list repair) :=
  match l with [] => [] | a :: l' => unfold a ++ alt_paths l' end.
Definition snocs (r : repair) (ps : list (list repair)) : list (list repair) :=
  map (fun pc => pc ++ [r]) ps.

Definition head (r : repair) (l : list (list repair)) : list (list repair) :=
  match l with [] => [[r]] | x :: y => snocs r (x :: y) end.

Lemma unfold_rep i r pa : unfold (RRep i r pa) = head r (unfold pa).
Proof. reflexivity. Qed.

Lemma unfold_mrg i r alts pa : unfold (RMrg i r alts pa) = head r (unfold pa) ++ alt_paths alts.
Proof. reflexivity. Qed.

Lemma head_nonempty r l : head r l <> [].
Proof. destruct l; cbn [head snocs map]; discriminate. Qed.

Lemma unfold_nonempty t : t <> RTerm -> unfold t <> [].
Proof.
  destruct t as [|i r pa|i r alts pa]; intros H; [congruence| |].
  - rewrite unfold_rep. apply head_nonempty.
  - rewrite unfold_mrg. intros E. apply app_eq_nil in E. destruct E as (E & _).
    exact (head_nonempty _ _ E).
Qed.

Lemma head_paths r pa : head r (unfold pa) = snocs r (paths pa).
Proof.
  destruct pa as [|i r0 pa|i r0 alts pa].
  - reflexivity.
  - unfold paths. destruct (unfold (RRep i r0 pa)) eqn:E; [|reflexivity].
    exfalso. apply (unfold_nonempty (RRep i r0 pa)); [discriminate|exact E].
  - unfold paths. destruct (unfold (RMrg i r0 alts pa)) eqn:E; [|reflexivity].
    exfalso. apply (unfold_nonempty (RMrg i r0 alts pa)); [discriminate|exact E].
Qed.

Lemma paths_rep i r pa : paths (RRep i r pa) = snocs r (paths pa).
Proof. unfold paths at 1. rewrite unfold_rep. apply head_paths. Qed.

Lemma paths_mrg i r alts pa : paths (RMrg i r alts pa) = snocs r (paths pa) ++ alt_paths alts.
Proof. unfold paths at 1. rewrite unfold_mrg, head_paths. reflexivity. Qed.

Lemma in_snocs seq r ps : In seq (snocs r ps) <-> exists pc, In pc ps /\ seq = pc ++ [r].
Proof.
  unfold snocs. rewrite in_map_iff. split; intros (pc & H1 & H2).
  - exists pc. split; [exact H2|symmetry; exact H1].
  - exists pc. split; [symmetry; exact H2|exact H1].
Qed.

Lemma unfold_in_paths : unfold_in_paths_stmt.
Proof. intros t seq H. destruct t; [destruct H|exact H|exact H]. Qed.

Lemma paths_nonempty : forall t, paths t <> [].
Proof.
  induction t as [|i r pa IH|i r alts pa IH].
  - discriminate.
  - rewrite paths_rep. unfold snocs. destruct (paths pa); [congruence|discriminate].
  - rewrite paths_mrg. unfold snocs. destruct (paths pa); [congruence|discriminate].
Qed.

Lemma rt_ends_shifts : forall PN t, rt_ends PN t = (PN <=? rt_shifts t)%nat.
Proof.
  induction PN as [|k IH]; intros t; [reflexivity|].
  destruct t as [|i r pa|i r alts pa]; cbn [rt_ends rt_shifts]; try reflexivity;
    destruct r; try reflexivity; apply IH.
Qed.

(* ---- normal form ------------------------------------------------------------------------------ *)
Definition ldafter (ld : bool) (s : list repair) : bool :=
  match rev s with [] => ld | r :: _ => is_del r end.

Lemma ldafter_cons ld x s : ldafter ld (x :: s) = ldafter (is_del x) s.
Proof. unfold ldafter. cbn [rev]. destruct (rev s); reflexivity. Qed.

Lemma ldafter_false s : ldafter false s = last_is_del s.
Proof. unfold ldafter, last_is_del. destruct (rev s); reflexivity. Qed.

Lemma nf_from_snoc g m : forall s ld,
  nf_from g ld (s ++ [m]) = nf_from g ld s && allowed g (ldafter ld s) m.
Proof.
  induction s as [|x s IH]; intros ld.
  - cbn [app nf_from]. unfold ldafter. cbn [rev]. rewrite andb_true_r. reflexivity.
  - cbn [app nf_from]. rewrite IH, ldafter_cons, andb_assoc. reflexivity.
Qed.

Lemma nf_snoc g s m : nf g s -> allowed g (last_is_del s) m = true -> nf g (s ++ [m]).
Proof.
  unfold nf. intros H1 H2. rewrite nf_from_snoc, ldafter_false, H1, H2. reflexivity.
Qed.

Lemma nf_from_no_eof g : forall s ld, nf_from g ld s = true -> inserts_tok (eof g) s = false.
Proof.
  induction s as [|m s IH]; intros ld H; [reflexivity|].
  cbn [nf_from] in H. apply andb_true_iff in H. destruct H as (Hal & H).
  unfold inserts_tok. cbn [existsb]. fold (inserts_tok (eof g) s). rewrite (IH _ H).
  destruct m as [t| |]; try reflexivity. cbn [allowed] in Hal.
  apply andb_true_iff in Hal. destruct Hal as (Hal & _). apply andb_true_iff in Hal. destruct Hal as (_ & Hal).
  apply negb_true_iff in Hal. rewrite Hal. reflexivity.
Qed.

Lemma nf_means : nf_means_stmt.
Proof.
  intros g s H. unfold nf in H. split; [|split].
  - intros s1 s2 t E. subst s. revert H. generalize false.
    induction s1 as [|x s1 IH]; intros ld H.
    + cbn [app nf_from allowed is_del] in H. rewrite andb_false_l, andb_false_r in H. discriminate.
    + cbn [app nf_from] in H. apply andb_true_iff in H. destruct H as (_ & H). exact (IH _ H).
  - eapply nf_from_no_eof. exact H.
  - revert H. generalize false. induction s as [|x s IH]; intros ld H t Hin; [destruct Hin|].
    cbn [nf_from] in H. apply andb_true_iff in H. destruct H as (Hal & H).
    destruct Hin as [->|Hin]; [|exact (IH _ H t Hin)].
    cbn [allowed] in Hal. apply andb_true_iff in Hal. destruct Hal as (_ & Hal).
    apply N.ltb_lt. exact Hal.
Qed.

(* ---- one path of the search ------------------------------------------------------------------- *)
Section Path.
Variable g : grammar.
Variable A : automaton.
Variable input : list N.
Variable ifuel : nat.

Notation search_apply := (search_apply g A input ifuel).

Lemma search_apply_app : forall m1 m2 stk p rec,
  search_apply (m1 ++ m2) stk p rec =
  match search_apply m1 stk p rec with
  | Some (s1, p1, r1) => search_apply m2 s1 p1 r1
  | None => None
  end.
Proof.
  induction m1 as [|m m1 IH]; intros m2 stk p rec; [reflexivity|].
  destruct m as [t| |]; cbn [app Search.search_apply].
  - destruct (last_is_del rec || N.eqb t (eof g)); [reflexivity|].
    destruct (lr_cactus1 g A input ifuel (Some t) stk p); try reflexivity. apply IH.
  - destruct (Nat.eqb p (length input)); [reflexivity|]. apply IH.
  - destruct (lr_cactus1 g A input ifuel None stk p) as [s|s|s|s| |]; try reflexivity.
    + apply IH.
    + destruct (listN_eqb (map fst stk) (map fst s)); [reflexivity|]. apply IH.
    + destruct (listN_eqb (map fst stk) (map fst s)); [reflexivity|]. apply IH.
Qed.

Lemma search_apply_pos : forall moves stk p rec stk' p' rec',
  search_apply moves stk p rec = Some (stk', p', rec') ->
  exists d, rec' = rec ++ d /\ p' = spos d p.
Proof.
  induction moves as [|m moves IH]; intros stk p rec stk' p' rec' H.
  - cbn [Search.search_apply] in H. injection H as _ <- <-. exists []. rewrite app_nil_r. split; reflexivity.
  - destruct m as [t| |]; cbn [Search.search_apply] in H.
    + destruct (last_is_del rec || N.eqb t (eof g)); [discriminate|].
      destruct (lr_cactus1 g A input ifuel (Some t) stk p); try discriminate.
      destruct (IH _ _ _ _ _ _ H) as (d & E1 & E2). exists (Ins t :: d).
      split; [rewrite E1, <- app_assoc; reflexivity|exact E2].
    + destruct (Nat.eqb p (length input)); [discriminate|].
      destruct (IH _ _ _ _ _ _ H) as (d & E1 & E2). exists (Del :: d).
      split; [rewrite E1, <- app_assoc; reflexivity|exact E2].
    + destruct (lr_cactus1 g A input ifuel None stk p) as [s|s|s|s| |]; try discriminate.
      * destruct (IH _ _ _ _ _ _ H) as (d & E1 & E2). exists (Shf :: d).
        split; [rewrite E1, <- app_assoc; reflexivity|exact E2].
      * destruct (listN_eqb (map fst stk) (map fst s)); [discriminate|]. exact (IH _ _ _ _ _ _ H).
      * destruct (listN_eqb (map fst stk) (map fst s)); [discriminate|]. exact (IH _ _ _ _ _ _ H).
Qed.

(* the machine does not look at the values *)
Lemma advance_same_states f s1 s2 a l : map fst s1 = map fst s2 ->
  match advance g A f s2 a l with
  | AShift x => exists y, advance g A f s1 a l = AShift y /\ map fst y = map fst x
  | AAccept x => exists y, advance g A f s1 a l = AAccept y /\ map fst y = map fst x
  | AError x => exists y, advance g A f s1 a l = AError y /\ map fst y = map fst x
  | APast x => exists y, advance g A f s1 a l = APast y /\ map fst y = map fst x
  | APanic => advance g A f s1 a l = APanic
  | AFuel => advance g A f s1 a l = AFuel
  end.
Proof.
  intros H. pose proof (advance_states g A f s1 s2 a l l H) as P.
  destruct (advance g A f s2 a l) as [x|x|x|x| |]; destruct (advance g A f s1 a l) as [y|y|y|y| |];
    cbn [adv_proj] in P; try discriminate; try reflexivity;
    injection P as P; exists y; (split; [reflexivity|exact P]).
Qed.

End Path.

(* ---- a node and its neighbours ---------------------------------------------------------------- *)
Lemma add_cost_some cf c x : add_cost cf c = Some x -> x = (cf + c)%N.
Proof. unfold add_cost. destruct (u16max <? cf + c)%N; [discriminate|]. intros H. injection H as <-. reflexivity. Qed.

Section Node.
Variable fixed : bool.
Variable g : grammar.
Variable A : automaton.
Variable input : list N.
Variable ifuel : nat.
Variable PN : nat.
Variable costs : list N.
Variable stk0 : vstack.
Variable p0 : nat.

Notation search_apply := (search_apply g A input ifuel).
Notation seq_ok := (seq_ok g A input ifuel costs stk0 p0).
Notation node_ok := (node_ok g A input ifuel costs stk0 p0).
Notation scost := (scost g input costs).

Lemma seq_ok_pos n seq : seq_ok n seq -> spos seq p0 = n_la n.
Proof.
  intros ((moves & stk' & H & _) & _).
  destruct (search_apply_pos g A input ifuel _ _ _ _ _ _ _ H) as (d & E1 & E2).
  cbn [app] in E1. subst d. symmetry. exact E2.
Qed.

(* the invariant only looks at the states of the stack, the position, the cost and the two
   features of the main chain *)
Lemma seq_ok_transfer n m seq :
  n_la n = n_la m -> map fst (n_stk n) = map fst (n_stk m) -> n_cf n = n_cf m ->
  rt_shifts (n_rep n) = rt_shifts (n_rep m) ->
  main_ends_in_del (n_rep n) = main_ends_in_del (n_rep m) ->
  seq_ok n seq -> seq_ok m seq.
Proof.
  intros E1 E2 E3 E4 E5 ((moves & stk' & H1 & H2) & H3 & H4 & H5 & H6).
  split; [|split; [|split; [|split]]].
  - exists moves, stk'. rewrite <- E1, <- E2. split; assumption.
  - rewrite <- E3. exact H3.
  - rewrite <- E4. exact H4.
  - rewrite <- E5. exact H5.
  - exact H6.
Qed.

Lemma scost_snoc s m : scost (s ++ [m]) p0 = (scost s p0 + mcost g input costs m (spos s p0))%N.
Proof. rewrite (scost_app g input costs). cbn [Model.scost]. lia. Qed.

(* Insert *)
Lemma ext_ins n pc t stk' cf k :
  seq_ok n pc -> main_ends_in_del (n_rep n) = false ->
  N.eqb t (eof g) = false -> (t < ntoks g)%N ->
  lr_cactus1 g A input ifuel (Some t) (n_stk n) (n_la n) = AShift stk' ->
  add_cost (n_cf n) (tcost costs t) = Some cf ->
  seq_ok (mkNode stk' (n_la n) (RRep k (Ins t) (n_rep n)) cf) (pc ++ [Ins t]).
Proof.
  intros Hok Hnd Ht Hlt Hadv Hcf. pose proof (seq_ok_pos _ _ Hok) as Hpos.
  destruct Hok as ((moves & stk1 & H1 & H2) & H3 & H4 & H5 & H6).
  apply add_cost_some in Hcf. subst cf.
  split; [|split; [|split; [|split]]]; cbn [n_stk n_la n_rep n_cf].
  - unfold lr_cactus1 in Hadv.
    pose proof (advance_same_states g A ifuel stk1 (n_stk n) t (ins_leaf t (n_la n)) H2) as P.
    rewrite Hadv in P. destruct P as (y & Hy & Ey).
    exists (moves ++ [MIns t]), y. split; [|exact Ey].
    rewrite search_apply_app, H1. cbn [Search.search_apply].
    rewrite H5, Hnd, Ht. cbn [orb]. unfold lr_cactus1. rewrite Hy. reflexivity.
  - rewrite scost_snoc, H3. reflexivity.
  - rewrite trail_shf_snoc. reflexivity.
  - rewrite last_is_del_snoc. reflexivity.
  - apply nf_snoc; [exact H6|]. rewrite H5, Hnd. cbn [allowed negb andb]. rewrite Ht. cbn [negb andb].
    apply N.ltb_lt. exact Hlt.
Qed.

(* Delete *)
Lemma ext_del n pc cf k :
  seq_ok n pc -> Nat.eqb (n_la n) (length input) = false ->
  add_cost (n_cf n) (tcost costs (la g input (n_la n))) = Some cf ->
  seq_ok (mkNode (n_stk n) (S (n_la n)) (RRep k Del (n_rep n)) cf) (pc ++ [Del]).
Proof.
  intros Hok Hla Hcf. pose proof (seq_ok_pos _ _ Hok) as Hpos.
  destruct Hok as ((moves & stk1 & H1 & H2) & H3 & H4 & H5 & H6).
  apply add_cost_some in Hcf. subst cf.
  split; [|split; [|split; [|split]]]; cbn [n_stk n_la n_rep n_cf].
  - exists (moves ++ [MDel]), stk1. split; [|exact H2].
    rewrite search_apply_app, H1. cbn [Search.search_apply]. rewrite Hla. reflexivity.
  - rewrite scost_snoc, H3, Hpos. reflexivity.
  - rewrite trail_shf_snoc. reflexivity.
  - rewrite last_is_del_snoc. reflexivity.
  - apply nf_snoc; [exact H6|]. reflexivity.
Qed.

(* Shift that consumes the lexeme *)
Lemma ext_shf n pc stk' k :
  seq_ok n pc ->
  lr_cactus1 g A input ifuel None (n_stk n) (n_la n) = AShift stk' ->
  seq_ok (mkNode stk' (S (n_la n)) (RRep k Shf (n_rep n)) (n_cf n)) (pc ++ [Shf]).
Proof.
  intros Hok Hadv.
  destruct Hok as ((moves & stk1 & H1 & H2) & H3 & H4 & H5 & H6).
  split; [|split; [|split; [|split]]]; cbn [n_stk n_la n_rep n_cf].
  - unfold lr_cactus1 in Hadv.
    pose proof (advance_same_states g A ifuel stk1 (n_stk n) (la g input (n_la n)) (real_leaf g input (n_la n)) H2) as P.
    rewrite Hadv in P. destruct P as (y & Hy & Ey).
    exists (moves ++ [MShf]), y. split; [|exact Ey].
    rewrite search_apply_app, H1. cbn [Search.search_apply]. unfold lr_cactus1. rewrite Hy. reflexivity.
  - rewrite scost_snoc, H3. cbn [mcost]. lia.
  - rewrite trail_shf_snoc. cbn [next_k rt_shifts]. rewrite H4. reflexivity.
  - rewrite last_is_del_snoc. reflexivity.
  - apply nf_snoc; [exact H6|]. reflexivity.
Qed.

(* Shift without progress: reductions under the real lookahead, then Error/Accept; nothing recorded *)
Lemma ext_noprog n seq stk' :
  seq_ok n seq ->
  (lr_cactus1 g A input ifuel None (n_stk n) (n_la n) = AError stk' \/
   lr_cactus1 g A input ifuel None (n_stk n) (n_la n) = AAccept stk') ->
  same_states (n_stk n) stk' = false ->
  seq_ok (mkNode stk' (n_la n) (n_rep n) (n_cf n)) seq.
Proof.
  intros Hok Hadv Hss.
  destruct Hok as ((moves & stk1 & H1 & H2) & H3 & H4 & H5 & H6).
  split; [|split; [|split; [|split]]]; cbn [n_stk n_la n_rep n_cf]; try assumption.
  unfold lr_cactus1 in Hadv. unfold same_states in Hss.
  pose proof (advance_same_states g A ifuel stk1 (n_stk n) (la g input (n_la n)) (real_leaf g input (n_la n)) H2) as P.
  destruct Hadv as [Hadv|Hadv]; rewrite Hadv in P; destruct P as (y & Hy & Ey);
    exists (moves ++ [MShf]), y; (split; [|exact Ey]);
    rewrite search_apply_app, H1; cbn [Search.search_apply]; unfold lr_cactus1; rewrite Hy;
    rewrite (listN_eqb_congr _ _ _ _ H2 Ey), Hss; reflexivity.
Qed.

(* what the search demands of a neighbour (cost, node) of n *)
Definition nbr_ok (n : node) (cn : N * node) : Prop :=
  fst cn = n_cf (snd cn) /\ (n_cf n <= fst cn)%N /\ node_ok (snd cn).

Lemma node_ok_rep n m k r :
  n_rep m = RRep k r (n_rep n) ->
  (forall pc, In pc (paths (n_rep n)) -> seq_ok m (pc ++ [r])) -> node_ok m.
Proof.
  intros E H seq Hin. rewrite E, paths_rep in Hin. apply in_snocs in Hin.
  destruct Hin as (pc & Hpc & ->). apply H. exact Hpc.
Qed.

Lemma nb_insert_ok n : node_ok n -> main_ends_in_del (n_rep n) = false ->
  forall toks ctr res, Forall (fun t => (t < ntoks g)%N) toks ->
    nb_insert g A input ifuel costs n toks ctr = Done res -> Forall (nbr_ok n) (fst res).
Proof.
  intros Hok Hnd. induction toks as [|t ts IH]; intros ctr res Hall H; cbn [nb_insert] in H.
  - injection H as <-. constructor.
  - apply Forall_cons_iff in Hall. destruct Hall as (Hlt & Hall).
    destruct (N.eqb t (eof g)) eqn:Ht; [exact (IH _ _ Hall H)|].
    destruct (lr_cactus1 g A input ifuel (Some t) (n_stk n) (n_la n)) as [s|s|s|s| |] eqn:Hadv;
      try discriminate; try exact (IH _ _ Hall H).
    destruct (add_cost (n_cf n) (tcost costs t)) as [cf|] eqn:Hcf; [|exact (IH _ _ Hall H)].
    destruct (nb_insert g A input ifuel costs n ts (ctr + 1)) as [rc| |] eqn:Hrc; cbn [obind] in H; try discriminate.
    injection H as <-. cbn [fst]. constructor; [|exact (IH _ _ Hall Hrc)].
    split; [reflexivity|]. cbn [fst snd]. split; [apply add_cost_some in Hcf; lia|].
    eapply node_ok_rep; [reflexivity|]. intros pc Hpc.
    eapply ext_ins; try eassumption. apply Hok. exact Hpc.
Qed.

Lemma state_actions_in_range s : Forall (fun t => (t < ntoks g)%N) (state_actions g A s).
Proof.
  apply Forall_forall. intros t Ht. unfold state_actions in Ht. apply filter_In in Ht.
  apply In_tidxs. apply Ht.
Qed.

Lemma nb_delete_ok n ctr res : node_ok n ->
  nb_delete g input costs n ctr = Done res -> Forall (nbr_ok n) (fst res).
Proof.
  intros Hok H. unfold nb_delete in H.
  destruct (Nat.eqb (n_la n) (length input)) eqn:Hla; [injection H as <-; constructor|].
  destruct (add_cost (n_cf n) (tcost costs (la g input (n_la n)))) as [cf|] eqn:Hcf;
    injection H as <-; [|constructor].
  cbn [fst]. constructor; [|constructor].
  split; [reflexivity|]. cbn [fst snd]. split; [apply add_cost_some in Hcf; lia|].
  eapply node_ok_rep; [reflexivity|]. intros pc Hpc.
  eapply ext_del; try eassumption. apply Hok. exact Hpc.
Qed.

Lemma nb_shift_ok n ctr res : node_ok n ->
  nb_shift fixed g A input ifuel n ctr = Done res -> Forall (nbr_ok n) (fst res).
Proof.
  intros Hok H. unfold nb_shift in H.
  destruct (lr_cactus1 g A input ifuel None (n_stk n) (n_la n)) as [s|s|s|s| |] eqn:Hadv; try discriminate.
  - destruct (fixed || negb (same_states (n_stk n) s)); injection H as <-; [|constructor].
    cbn [fst]. constructor; [|constructor].
    split; [reflexivity|]. cbn [fst snd]. split; [lia|].
    eapply node_ok_rep; [reflexivity|]. intros pc Hpc.
    eapply ext_shf; try eassumption. apply Hok. exact Hpc.
  - destruct (same_states (n_stk n) s) eqn:Hss; cbn [negb] in H; injection H as <-; [constructor|].
    cbn [fst]. constructor; [|constructor].
    split; [reflexivity|]. cbn [fst snd]. split; [lia|].
    intros seq Hin. cbn [n_rep] in Hin. eapply ext_noprog; [apply Hok; exact Hin|right; exact Hadv|exact Hss].
  - destruct (same_states (n_stk n) s) eqn:Hss; cbn [negb] in H; injection H as <-; [constructor|].
    cbn [fst]. constructor; [|constructor].
    split; [reflexivity|]. cbn [fst snd]. split; [lia|].
    intros seq Hin. cbn [n_rep] in Hin. eapply ext_noprog; [apply Hok; exact Hin|left; exact Hadv|exact Hss].
  - injection H as <-. constructor.
Qed.

Lemma neighbours_ok ea n ctr nb : node_ok n ->
  neighbours fixed g A input ifuel costs ea n ctr = Done nb -> Forall (nbr_ok n) (fst nb).
Proof.
  intros Hok H. unfold neighbours in H.
  match type of H with obind ?X _ = _ => destruct X as [ins| |] eqn:Hins end; cbn [obind] in H; try discriminate.
  match type of H with obind ?X _ = _ => destruct X as [del| |] eqn:Hdel end; cbn [obind] in H; try discriminate.
  match type of H with obind ?X _ = _ => destruct X as [shf| |] eqn:Hshf end; cbn [obind] in H; try discriminate.
  injection H as <-. cbn [fst].
  apply Forall_app. split; [|apply Forall_app; split].
  - assert (Hcase : main_ends_in_del (n_rep n) = true \/ main_ends_in_del (n_rep n) = false)
      by (destruct (main_ends_in_del (n_rep n)); [left|right]; reflexivity).
    destruct Hcase as [Hd|Hd].
    + unfold main_ends_in_del in Hd. destruct (last_repair (n_rep n)) as [[t| |]|]; try discriminate.
      injection Hins as <-. constructor.
    + assert (Hins' : (if ea then nb_insert g A input ifuel costs n (state_actions g A (vtop A (n_stk n))) ctr
                       else Done ([], ctr)) = Done ins).
      { unfold main_ends_in_del in Hd. destruct (last_repair (n_rep n)) as [[t| |]|]; try discriminate; exact Hins. }
      destruct ea; [|injection Hins' as <-; constructor].
      eapply nb_insert_ok; [exact Hok|exact Hd|apply state_actions_in_range|exact Hins'].
  - destruct ea; [|injection Hdel as <-; constructor]. eapply nb_delete_ok; eassumption.
  - eapply nb_shift_ok; eassumption.
Qed.

(* ---- merging ---------------------------------------------------------------------------------- *)
Lemma key_eqb_facts a b : key_eqb a b = true ->
  n_la a = n_la b /\ map fst (n_stk a) = map fst (n_stk b) /\
  main_ends_in_del (n_rep a) = main_ends_in_del (n_rep b) /\
  rt_shifts (n_rep a) = rt_shifts (n_rep b).
Proof.
  unfold key_eqb. intros H.
  apply andb_true_iff in H. destruct H as (H & H4).
  apply andb_true_iff in H. destruct H as (H & H3).
  apply andb_true_iff in H. destruct H as (H1 & H2).
  apply Nat.eqb_eq in H1. apply listN_eqb_eq in H2. apply Nat.eqb_eq in H4.
  split; [exact H1|]. split; [exact H2|]. split; [|exact H4].
  unfold main_ends_in_del.
  destruct (last_repair (n_rep a)) as [[t| |]|], (last_repair (n_rep b)) as [[u| |]|];
    try reflexivity; discriminate.
Qed.

Lemma merge_node_ok old new k :
  node_ok old -> node_ok new -> n_cf old = n_cf new -> key_eqb old new = true ->
  node_ok (fst (merge_node old new k)) /\ n_cf (fst (merge_node old new k)) = n_cf old.
Proof.
  intros Ho Hn Hcf Hk. destruct (key_eqb_facts _ _ Hk) as (E1 & E2 & E3 & E4).
  unfold merge_node. destruct (rtree_eqb (n_rep old) (n_rep new)); [split; [exact Ho|reflexivity]|].
  destruct (n_rep old) as [|i r pa|i r v pa] eqn:Er; cbn [fst]; [split; [exact Ho|reflexivity]| |].
  - split; [|reflexivity]. intros seq Hin. cbn [n_rep] in Hin. rewrite paths_mrg in Hin.
    apply in_app_iff in Hin. destruct Hin as [Hin|Hin].
    + apply (seq_ok_transfer old); cbn [n_la n_stk n_cf n_rep]; try reflexivity.
      * rewrite Er. destruct r; reflexivity.
      * rewrite Er. reflexivity.
      * apply Ho. rewrite Er, paths_rep. exact Hin.
    + cbn [alt_paths] in Hin. rewrite app_nil_r in Hin. apply unfold_in_paths in Hin.
      apply (seq_ok_transfer new); cbn [n_la n_stk n_cf n_rep]; try (symmetry; assumption).
      apply Hn. exact Hin.
  - split; [|reflexivity]. intros seq Hin. cbn [n_rep] in Hin. rewrite paths_mrg in Hin.
    cbn [alt_paths] in Hin. apply in_app_iff in Hin. destruct Hin as [Hin|Hin].
    + apply (seq_ok_transfer old); cbn [n_la n_stk n_cf n_rep]; try reflexivity.
      * rewrite Er. destruct r; reflexivity.
      * rewrite Er. reflexivity.
      * apply Ho. rewrite Er, paths_mrg. apply in_app_iff. left. exact Hin.
    + apply in_app_iff in Hin. destruct Hin as [Hin|Hin].
      * apply unfold_in_paths in Hin.
        apply (seq_ok_transfer new); cbn [n_la n_stk n_cf n_rep]; try (symmetry; assumption).
        apply Hn. exact Hin.
      * apply (seq_ok_transfer old); cbn [n_la n_stk n_cf n_rep]; try reflexivity.
        -- rewrite Er. destruct r; reflexivity.
        -- rewrite Er. reflexivity.
        -- apply Ho. rewrite Er, paths_mrg. apply in_app_iff. right. exact Hin.
Qed.

End Node.

(* ---- buckets ---------------------------------------------------------------------------------- *)
Lemma bget_bset_same : forall b c l, bget (bset b c l) c = l.
Proof.
  induction b as [|[c0 l0] r IH]; intros c l; cbn [bset].
  - unfold bget. cbn [assocN]. rewrite N.eqb_refl. reflexivity.
  - destruct (N.eqb c c0) eqn:E.
    + unfold bget. cbn [assocN]. rewrite N.eqb_refl. reflexivity.
    + unfold bget. cbn [assocN]. rewrite E. apply IH.
Qed.

Lemma bget_bset_other : forall b c c' l, c' <> c -> bget (bset b c l) c' = bget b c'.
Proof.
  induction b as [|[c0 l0] r IH]; intros c c' l Hne; cbn [bset].
  - unfold bget. cbn [assocN]. replace (N.eqb c' c) with false by (symmetry; apply N.eqb_neq; exact Hne).
    reflexivity.
  - destruct (N.eqb c c0) eqn:E.
    + apply N.eqb_eq in E. subst c0. unfold bget. cbn [assocN].
      replace (N.eqb c' c) with false by (symmetry; apply N.eqb_neq; exact Hne). reflexivity.
    + unfold bget. cbn [assocN]. destruct (N.eqb c' c0); [reflexivity|]. apply IH. exact Hne.
Qed.

Section Upsert.
Variable P : node -> Prop.
Variable nbr : node.
Hypothesis Hmerge : forall x k, P x -> key_eqb x nbr = true -> P (fst (merge_node x nbr k)).

Lemma find_merge_P : forall l k l' k', Forall P l -> find_merge nbr l k = Some (l', k') -> Forall P l'.
Proof.
  induction l as [|x r IH]; intros k l' k' Hall H; cbn [find_merge] in H; [discriminate|].
  apply Forall_cons_iff in Hall. destruct Hall as (Hx & Hr).
  destruct (key_eqb x nbr) eqn:Ek.
  - pose proof (Hmerge x k Hx Ek) as Hm. destruct (merge_node x nbr k) as [m c'].
    injection H as <- _. constructor; [exact Hm|exact Hr].
  - destruct (find_merge nbr r k) as [[r' c']|] eqn:Ef; [|discriminate].
    injection H as <- _. constructor; [exact Hx|]. eapply IH; [exact Hr|exact Ef].
Qed.

Lemma upsert_P l k : Forall P l -> P nbr -> Forall P (fst (upsert nbr l k)).
Proof.
  intros Hall Hn. unfold upsert. destruct (find_merge nbr l k) as [[l' k']|] eqn:Ef.
  - cbn [fst]. eapply find_merge_P; eassumption.
  - cbn [fst]. constructor; assumption.
Qed.
End Upsert.

(* ---- the invariant of a search state ---------------------------------------------------------- *)
Section Search.
Variable fixed : bool.
Variable g : grammar.
Variable A : automaton.
Variable input : list N.
Variable ifuel : nat.
Variable PN : nat.
Variable costs : list N.
Variable stk0 : vstack.
Variable p0 : nat.

Notation node_ok := (node_ok g A input ifuel costs stk0 p0).
Notation nbr_ok := (nbr_ok g A input ifuel costs stk0 p0).
Notation node_success := (node_success g A input PN).
Notation sstep := (sstep fixed g A input ifuel PN costs).
Notation run := (run fixed g A input ifuel PN costs).
Notation exec := (exec fixed g A input ifuel PN costs).

Definition good (c : N) (n : node) : Prop := n_cf n = c /\ node_ok n.

Definition state_ok (s : sstate) : Prop :=
  match s with
  | P1 todo _ c _ => forall c' n, In n (bget todo c') -> good c' n /\ (c <= c')%N
  | P2 b c acc _ => Forall (good c) b /\ Forall (fun n => good c n /\ node_success n = true) acc
  end.

Lemma good_merge c nbr : good c nbr ->
  forall x k, good c x -> key_eqb x nbr = true -> good c (fst (merge_node x nbr k)).
Proof.
  intros (Hc & Hn) x k (Hcx & Hx) Hk.
  destruct (merge_node_ok g A input ifuel costs stk0 p0 x nbr k Hx Hn ltac:(congruence) Hk) as (H1 & H2).
  split; [congruence|exact H1].
Qed.

Lemma p1_fold_ok c : forall nbrs td tl k,
  (forall c' n, In n (bget td c') -> good c' n /\ (c <= c')%N) ->
  Forall (fun cn => fst cn = n_cf (snd cn) /\ (c <= fst cn)%N /\ node_ok (snd cn)) nbrs ->
  forall c' n, In n (bget (fst (fst (fold_left p1_push nbrs (td, tl, k)))) c') -> good c' n /\ (c <= c')%N.
Proof.
  induction nbrs as [|cn nbrs IH]; intros td tl k Htd Hall; [exact Htd|].
  apply Forall_cons_iff in Hall. destruct Hall as ((Hcf & Hle & Hok) & Hall).
  cbn [fold_left]. unfold p1_push at 2.
  destruct (upsert (snd cn) (bget td (fst cn)) k) as [b' k'] eqn:Eu.
  apply IH; [|exact Hall].
  intros c' n Hin. destruct (N.eq_dec c' (fst cn)) as [->|Hne].
  - rewrite bget_bset_same in Hin. split; [|exact Hle].
    assert (Hg : good (fst cn) (snd cn)) by (split; [symmetry; exact Hcf|exact Hok]).
    assert (HF : Forall (good (fst cn)) (fst (upsert (snd cn) (bget td (fst cn)) k))).
    { apply upsert_P; [apply good_merge; exact Hg| |exact Hg].
      apply Forall_forall. intros x Hx. apply (Htd _ _ Hx). }
    rewrite Eu in HF. cbn [fst] in HF. rewrite Forall_forall in HF. apply HF. exact Hin.
  - rewrite bget_bset_other in Hin by exact Hne. apply Htd. exact Hin.
Qed.

Lemma p2_fold_ok c : forall nbrs s,
  Forall (good c) (fst s) ->
  Forall (fun cn => fst cn = n_cf (snd cn) /\ node_ok (snd cn)) nbrs ->
  Forall (good c) (fst (fold_left (p2_push c) nbrs s)).
Proof.
  induction nbrs as [|cn nbrs IH]; intros s Hs Hall; [exact Hs|].
  apply Forall_cons_iff in Hall. destruct Hall as ((Hcf & Hok) & Hall).
  cbn [fold_left]. apply IH; [|exact Hall].
  unfold p2_push. destruct (N.eqb (fst cn) c) eqn:E; [|exact Hs].
  apply N.eqb_eq in E.
  assert (Hg : good c (snd cn)) by (split; [congruence|exact Hok]).
  apply upsert_P; [apply good_merge; exact Hg|exact Hs|exact Hg].
Qed.

Lemma step_ok s o s' : state_ok s -> sstep s o s' ->
  state_ok s' /\ (cur s <= cur s')%N /\ (forall n, o = Some n -> good (cur s) n).
Proof.
  intros Hs Hst. destruct Hst as [todo tlen c ctr He Hu Ht|todo tlen c ctr n rest nb Hb Hsucc Hnb
                                 |todo tlen c ctr n rest Hb Hsucc|n rest c acc ctr Hsucc|n rest c acc ctr nb Hsucc Hnb];
    cbn [cur].
  - (* skip *)
    split; [|split; [lia|discriminate]].
    intros c' n Hin. destruct (Hs c' n Hin) as (Hg & Hle). split; [exact Hg|].
    destruct (N.eq_dec c' c) as [->|Hne]; [rewrite He in Hin; destruct Hin|lia].
  - (* expand *)
    assert (Hn : good c n) by (apply (Hs c n); rewrite Hb; left; reflexivity).
    split; [|split; [cbn [cur]; lia|intros m E; injection E as <-; exact Hn]].
    cbn zeta. cbn [state_ok]. apply p1_fold_ok.
    + intros c' m Hin. destruct (N.eq_dec c' c) as [->|Hne].
      * rewrite bget_bset_same in Hin. apply (Hs c m). rewrite Hb. right. exact Hin.
      * rewrite bget_bset_other in Hin by exact Hne. apply Hs. exact Hin.
    + destruct Hn as (Hcf & Hok).
      pose proof (neighbours_ok fixed g A input ifuel costs stk0 p0 true n ctr nb Hok Hnb) as HF.
      eapply Forall_impl; [|exact HF]. intros cn (H1 & H2 & H3). split; [exact H1|]. split; [lia|exact H3].
  - (* the first success *)
    assert (Hn : good c n) by (apply (Hs c n); rewrite Hb; left; reflexivity).
    split; [|split; [lia|intros m E; injection E as <-; exact Hn]].
    cbn [state_ok]. split.
    + apply Forall_forall. intros m Hm. apply (Hs c m). rewrite Hb. right. exact Hm.
    + constructor; [split; assumption|constructor].
  - (* a further success *)
    destruct Hs as (Hb & Hacc). apply Forall_cons_iff in Hb. destruct Hb as (Hn & Hb).
    split; [|split; [lia|intros m E; injection E as <-; exact Hn]].
    split; [exact Hb|]. constructor; [split; assumption|exact Hacc].
  - (* sweep *)
    destruct Hs as (Hb & Hacc). apply Forall_cons_iff in Hb. destruct Hb as (Hn & Hb).
    split; [|split; [cbn [cur]; lia|intros m E; injection E as <-; exact Hn]].
    cbn zeta. cbn [state_ok]. split; [|exact Hacc].
    apply p2_fold_ok; [exact Hb|].
    destruct Hn as (Hcf & Hok).
    pose proof (neighbours_ok fixed g A input ifuel costs stk0 p0 false n ctr nb Hok Hnb) as HF.
    eapply Forall_impl; [|exact HF]. intros cn (H1 & H2 & H3). split; assumption.
Qed.

Definition cf_le (a b : node) : Prop := (n_cf a <= n_cf b)%N.

Lemma run_ok s l s' : run s l s' -> state_ok s ->
  state_ok s' /\ (cur s <= cur s')%N /\
  Forall (fun n => node_ok n /\ (cur s <= n_cf n)%N /\ (n_cf n <= cur s')%N) l /\
  StronglySorted cf_le l.
Proof.
  intros Hr. induction Hr as [s|s o s1 l s2 Hst Hr IH]; intros Hs.
  - split; [exact Hs|]. split; [lia|]. split; constructor.
  - destruct (step_ok _ _ _ Hs Hst) as (Hs1 & Hle & Ho).
    destruct (IH Hs1) as (Hs2 & Hle2 & Hall & Hsort).
    split; [exact Hs2|]. split; [lia|].
    assert (Hall' : Forall (fun n => node_ok n /\ (cur s <= n_cf n)%N /\ (n_cf n <= cur s2)%N) l).
    { eapply Forall_impl; [|exact Hall]. intros m (H1 & H2 & H3). split; [exact H1|]. split; lia. }
    destruct o as [n|]; cbn [olist app]; [|split; assumption].
    destruct (Ho n eq_refl) as (Hcf & Hok). split.
    + constructor; [|exact Hall']. split; [exact Hok|]. split; lia.
    + constructor; [exact Hsort|]. eapply Forall_impl; [|exact Hall].
      intros m (_ & H2 & _). unfold cf_le. lia.
Qed.

Definition isP1 (s : sstate) : Prop := match s with P1 _ _ _ _ => True | P2 _ _ _ _ => False end.

Lemma run_to_P1 s l s' : run s l s' -> isP1 s' ->
  isP1 s /\ Forall (fun n => node_success n = false) l.
Proof.
  intros Hr. induction Hr as [s|s o s1 l s2 Hst Hr IH]; intros H2.
  - split; [exact H2|constructor].
  - destruct (IH H2) as (H1 & Hall).
    destruct Hst as [todo tlen c ctr He Hu Ht|todo tlen c ctr n rest nb Hb Hsucc Hnb
                    |todo tlen c ctr n rest Hb Hsucc|n rest c acc ctr Hsucc|n rest c acc ctr nb Hsucc Hnb];
      cbn [isP1 olist app] in *; try contradiction.
    + split; [exact I|exact Hall].
    + split; [exact I|]. constructor; [exact Hsucc|exact Hall].
Qed.

(* ---- the transition system is the mirror ------------------------------------------------------ *)
Lemma exec_step_local f s o s' : sstep s o s' -> exec (S f) s = exec f s'.
Proof.
  intros Hst. destruct Hst as [todo tlen c ctr He Hu Ht|todo tlen c ctr n rest nb Hb Hsucc Hnb
                              |todo tlen c ctr n rest Hb Hsucc|n rest c acc ctr Hsucc|n rest c acc ctr nb Hsucc Hnb].
  - cbn [SearchSpec.exec phase1]. rewrite He, Hu, Ht. reflexivity.
  - cbn [SearchSpec.exec phase1]. rewrite Hb, Hsucc, Hnb. reflexivity.
  - cbn [SearchSpec.exec phase1]. rewrite Hb, Hsucc. reflexivity.
  - cbn [SearchSpec.exec phase2]. rewrite Hsucc. reflexivity.
  - cbn [SearchSpec.exec phase2]. rewrite Hsucc, Hnb. reflexivity.
Qed.

Lemma exec_progress_local f s cnds : exec (S f) s = Done cnds -> cnds <> [] ->
  (exists o s', sstep s o s' /\ exec f s' = Done cnds) \/ (exists c ctr, s = P2 [] c (rev cnds) ctr).
Proof.
  intros H Hne. destruct s as [todo tlen c ctr|b c acc ctr].
  - left. cbn [SearchSpec.exec phase1] in H.
    destruct (bget todo c) as [|n rest] eqn:Hb.
    + destruct (u16max <=? c)%N eqn:Hu; [injection H as <-; congruence|].
      destruct (N.eqb (c + 1) tlen) eqn:Ht; [injection H as <-; congruence|].
      exists None, (P1 todo tlen (c + 1)%N ctr). split; [apply step_skip; assumption|exact H].
    + destruct (node_success n) eqn:Hsucc.
      * exists (Some n), (P2 rest c [n] ctr). split; [apply step_first; assumption|exact H].
      * destruct (neighbours fixed g A input ifuel costs true n ctr) as [nb| |] eqn:Hnb;
          cbn [obind] in H; try discriminate.
        eexists (Some n), _. split; [eapply step_expand; eassumption|exact H].
  - cbn [SearchSpec.exec phase2] in H. destruct b as [|n rest].
    + right. injection H as <-. exists c, ctr. rewrite rev_involutive. reflexivity.
    + left. destruct (node_success n) eqn:Hsucc.
      * exists (Some n), (P2 rest c (n :: acc) ctr). split; [apply step_keep; assumption|exact H].
      * destruct (neighbours fixed g A input ifuel costs false n ctr) as [nb| |] eqn:Hnb;
          cbn [obind] in H; try discriminate.
        eexists (Some n), _. split; [eapply step_sweep; eassumption|exact H].
Qed.

Lemma exec_runs : forall fuel s cnds, exec fuel s = Done cnds -> cnds <> [] ->
  exists l c ctr, run s l (P2 [] c (rev cnds) ctr).
Proof.
  induction fuel as [|f IH]; intros s cnds H Hne.
  - destruct s; discriminate.
  - destruct (exec_progress_local f s cnds H Hne) as [(o & s' & Hst & H')|(c & ctr & ->)].
    + destruct (IH s' cnds H' Hne) as (l & c & ctr & Hr).
      exists (olist o ++ l), c, ctr. eapply run_cons; eassumption.
    + exists [], c, ctr. apply run_nil.
Qed.

End Search.

Lemma init_ok g A input ifuel PN costs stk p :
  state_ok g A input ifuel PN costs stk p (init stk p).
Proof.
  unfold init. cbn [state_ok]. intros c' n Hin. unfold bget in Hin. cbn [assocN] in Hin.
  destruct (N.eqb c' 0) eqn:E; [|destruct Hin]. apply N.eqb_eq in E. subst c'.
  destruct Hin as [<-|[]]. split; [|lia]. split; [reflexivity|].
  intros seq Hin. cbn [n_rep paths] in Hin. destruct Hin as [<-|[]].
  split; [|split; [|split; [|split]]]; try reflexivity.
  exists [], stk. split; reflexivity.
Qed.

Lemma dijkstra_exec fixed g A input ifuel PN costs fuel stk p :
  dijkstra fixed g A input ifuel PN costs fuel stk p = exec fixed g A input ifuel PN costs fuel (init stk p).
Proof. reflexivity. Qed.

(* ---- the statements about the search ---------------------------------------------------------- *)
Lemma exec_step : exec_step_stmt.
Proof. intros fixed g A input ifuel PN costs f s o s'. apply exec_step_local. Qed.

Lemma exec_progress : exec_progress_stmt.
Proof. intros fixed g A input ifuel PN costs f s cnds. apply exec_progress_local. Qed.

Lemma mirror_runs : mirror_runs_stmt.
Proof.
  intros fixed g A input ifuel PN costs fuel stk p cnds H Hne. rewrite dijkstra_exec in H.
  eapply exec_runs; eassumption.
Qed.

Lemma node_invariant : node_invariant_stmt.
Proof.
  intros fixed g A input ifuel PN costs stk p popped s Hr.
  destruct (run_ok fixed g A input ifuel PN costs stk p _ _ _ Hr (init_ok g A input ifuel PN costs stk p))
    as (Hs & _ & Hall & _).
  split.
  - intros n Hq. destruct s as [todo tlen c ctr|b c acc ctr]; cbn [queued state_ok] in *.
    + destruct Hq as (c' & Hin). apply (Hs c' n Hin).
    + destruct Hs as (Hb & Hacc). rewrite Forall_forall in Hb, Hacc.
      destruct Hq as [Hin|Hin]; [apply (Hb n Hin)|apply (Hacc n Hin)].
  - intros n Hin. rewrite Forall_forall in Hall. apply (Hall n Hin).
Qed.

Lemma returned_facts fixed g A input ifuel PN costs fuel stk p cnds :
  dijkstra fixed g A input ifuel PN costs fuel stk p = Done cnds ->
  exists cstar, Forall (fun n => (n_cf n = cstar /\ node_ok g A input ifuel costs stk p n) /\
                                 node_success g A input PN n = true) cnds.
Proof.
  intros H. destruct cnds as [|n0 cnds0]; [exists 0%N; constructor|].
  destruct (mirror_runs _ _ _ _ _ _ _ _ _ _ _ H ltac:(discriminate)) as (l & c & ctr & Hr).
  destruct (run_ok fixed g A input ifuel PN costs stk p _ _ _ Hr (init_ok g A input ifuel PN costs stk p))
    as (Hs & _). cbn [state_ok] in Hs. destruct Hs as (_ & Hacc).
  exists c. rewrite Forall_forall in *. intros n Hn. apply Hacc. apply -> in_rev. exact Hn.
Qed.

Lemma returned_nodes_invariant : returned_nodes_invariant_stmt.
Proof.
  intros fixed g A input ifuel PN costs fuel stk p cnds H.
  destruct (returned_facts _ _ _ _ _ _ _ _ _ _ _ H) as (c & Hall).
  eapply Forall_impl; [|exact Hall]. intros n ((_ & Hok) & _). exact Hok.
Qed.

Lemma returned_same_cost : returned_same_cost_stmt.
Proof.
  intros fixed g A input ifuel PN costs fuel stk p cnds H.
  destruct (returned_facts _ _ _ _ _ _ _ _ _ _ _ H) as (c & Hall). exists c.
  eapply Forall_impl; [|exact Hall]. intros n ((Hcf & _) & Hs). split; assumption.
Qed.

Lemma buckets_in_cost_order : buckets_in_cost_order_stmt.
Proof.
  intros fixed g A input ifuel PN costs stk p popped s Hr.
  destruct (run_ok fixed g A input ifuel PN costs stk p _ _ _ Hr (init_ok g A input ifuel PN costs stk p))
    as (Hs & _ & Hall & Hsort).
  split; [|split].
  - destruct s as [todo tlen c ctr|b c acc ctr]; cbn [state_ok] in Hs.
    + intros c' n Hin. destruct (Hs c' n Hin) as ((Hcf & _) & Hle). split; assumption.
    + destruct Hs as (Hb & Hacc). rewrite Forall_forall in Hb, Hacc.
      intros n [Hin|Hin]; [apply (Hb n Hin)|apply (Hacc n Hin)].
  - exact Hsort.
  - eapply Forall_impl; [|exact Hall]. intros n (_ & _ & H). exact H.
Qed.

Lemma first_success_is_minimal_among_explored : first_success_is_minimal_among_explored_stmt.
Proof.
  intros fixed g A input ifuel PN costs stk p popped todo tlen c ctr n rest Hr Hb Hsucc.
  destruct (run_ok fixed g A input ifuel PN costs stk p _ _ _ Hr (init_ok g A input ifuel PN costs stk p))
    as (Hs & _ & Hall & _).
  destruct (run_to_P1 fixed g A input ifuel PN costs _ _ _ Hr I) as (_ & Hns).
  cbn [state_ok cur] in Hs, Hall.
  assert (Hcf : n_cf n = c) by (apply (Hs c n); rewrite Hb; left; reflexivity).
  split; [exact Hcf|]. split.
  - rewrite Forall_forall in *. intros m Hm. split; [apply Hns; exact Hm|].
    destruct (Hall m Hm) as (_ & _ & H). lia.
  - intros m (c' & Hin). destruct (Hs c' m Hin) as ((Hcm & _) & Hle). lia.
Qed.

(* ---- what the mirror reports ------------------------------------------------------------------ *)
Lemma rank_each_snd g A input ifuel TRY stk p : forall cs ranked,
  rank_each g A input ifuel TRY stk p cs = Done ranked -> map snd ranked = cs.
Proof.
  induction cs as [|seqs r IH]; intros ranked H; cbn [rank_each] in H.
  - injection H as <-. reflexivity.
  - destruct seqs as [|s0 ss]; [discriminate|].
    destruct (apply_seq g A input ifuel s0 0 stk p None) as [[[stk' p'] fl]| |]; try discriminate.
    destruct (rank_each g A input ifuel TRY stk p r) as [rest| |] eqn:Er; cbn [obind] in H; try discriminate.
    injection H as <-. cbn [map snd]. f_equal. apply IH. reflexivity.
Qed.

Lemma search_mirror_shape fixed g A input ifuel PN costs TRY avoid fuel stk p out :
  search_mirror fixed g A input ifuel PN costs TRY avoid fuel stk p = Done out ->
  exists cnds kept,
    dijkstra fixed g A input ifuel PN costs fuel stk p = Done cnds /\
    out = simplify avoid kept /\
    forall s, In s kept -> exists n, In n cnds /\ In s (unfold (n_rep n)).
Proof.
  intros H. unfold search_mirror in H.
  destruct (dijkstra fixed g A input ifuel PN costs fuel stk p) as [cnds| |] eqn:Hd; cbn [obind] in H; try discriminate.
  exists cnds. destruct cnds as [|n0 cnds0].
  - injection H as <-. exists []. split; [reflexivity|]. split; [reflexivity|]. intros s [].
  - match type of H with obind ?X _ = _ => destruct X as [ranked| |] eqn:Hr end; cbn [obind] in H; try discriminate.
    injection H as <-. eexists. split; [reflexivity|]. split; [reflexivity|].
    intros s Hin. apply in_flat_map in Hin. destruct Hin as (x & Hx & Hs).
    apply filter_In in Hx. destruct Hx as (Hx & _).
    apply rank_each_snd in Hr.
    assert (Hin : In (snd x) (map snd ranked)) by (apply in_map; exact Hx).
    rewrite Hr in Hin. apply in_map_iff in Hin. destruct Hin as (n & En & Hn).
    exists n. split; [exact Hn|]. rewrite En. exact Hs.
Qed.

Lemma node_success_path g A input ifuel PN costs stk p n s :
  node_success g A input PN n = true -> seq_ok g A input ifuel costs stk p n s ->
  exists moves stk' p',
    search_apply g A input ifuel moves stk p [] = Some (stk', p', s) /\
    search_success g A input PN stk' p' s = true /\
    scost g input costs s p = n_cf n /\ nf g s.
Proof.
  intros Hsucc ((moves & stk' & H1 & H2) & H3 & H4 & _ & H6).
  exists moves, stk', (n_la n). split; [exact H1|]. split; [|split; assumption].
  unfold search_success. unfold node_success in Hsucc.
  rewrite ends_with_shifts_trail, H4, <- rt_ends_shifts, (vtop_states A _ _ H2). exact Hsucc.
Qed.

Lemma reported_core fixed g A input ifuel PN costs TRY avoid fuel stk p out :
  search_mirror fixed g A input ifuel PN costs TRY avoid fuel stk p = Done out ->
  exists cstar kept, out = simplify avoid kept /\
    Forall (fun s => exists moves stk' p',
              search_apply g A input ifuel moves stk p [] = Some (stk', p', s) /\
              search_success g A input PN stk' p' s = true /\
              scost g input costs s p = cstar /\ nf g s) kept.
Proof.
  intros H. destruct (search_mirror_shape _ _ _ _ _ _ _ _ _ _ _ _ _ H) as (cnds & kept & Hd & -> & Hk).
  destruct (returned_facts _ _ _ _ _ _ _ _ _ _ _ Hd) as (c & Hall).
  exists c, kept. split; [reflexivity|]. apply Forall_forall. intros s Hs.
  destruct (Hk s Hs) as (n & Hn & Hin). rewrite Forall_forall in Hall.
  destruct (Hall n Hn) as ((Hcf & Hok) & Hsucc).
  destruct (node_success_path g A input ifuel PN costs stk p n s Hsucc (Hok s (unfold_in_paths _ _ Hin)))
    as (moves & stk' & p' & H1 & H2 & H3 & H4).
  exists moves, stk', p'. repeat split; try assumption. congruence.
Qed.

Lemma reported_are_successes : reported_are_successes_stmt.
Proof.
  intros fixed g A input ifuel PN costs TRY avoid fuel stk p out H.
  destruct (reported_core _ _ _ _ _ _ _ _ _ _ _ _ _ H) as (c & kept & -> & Hall).
  exists c. intros rs Hin. apply simplify_In in Hin. destruct Hin as (s & Hs & ->).
  rewrite Forall_forall in Hall. destruct (Hall s Hs) as (moves & stk' & p' & H1 & H2 & H3 & H4).
  exists s, moves, stk', p'. repeat split; try assumption. rewrite scost_strip. exact H3.
Qed.

Lemma reported_valid : reported_valid_stmt.
Proof.
  intros fixed g A input ifuel PN costs TRY avoid fuel stk p out Hconf Hns Hp H rs Hin.
  destruct (reported_are_successes _ _ _ _ _ _ _ _ _ _ _ _ _ H) as (c & Hall).
  destruct (Hall rs Hin) as (s & moves & stk' & p' & -> & H1 & H2 & _).
  eapply search_sound_confluent; eassumption.
Qed.

(* a success path of the search is a success of the reference semantics, on a reduce-confluent table *)
Lemma search_path_reference_success g A input ifuel PN stk p moves stk' p' s :
  reduce_confluent g A ifuel -> no_shift_eof g A -> (p <= length input)%nat ->
  search_apply g A input ifuel moves stk p [] = Some (stk', p', s) ->
  search_success g A input PN stk' p' s = true ->
  success g A input ifuel PN stk p s.
Proof.
  intros Hconf Hns Hp Hs Hsucc.
  destruct (search_sim g A input ifuel Hconf Hns moves stk stk p [] stk' p' s
              (inv_eq g A ifuel stk stk eq_refl) Hp Hs) as (delta & Hd & Hrep).
  cbn [app] in Hd. subst delta. destruct (Hrep 0%nat) as (Sk' & Happ & HI & Hp').
  exists Sk', p'. split; [apply (srun_is_apply_seq g A input ifuel s 0%nat); exact Happ|].
  unfold succ_end. unfold search_success in Hsucc. apply orb_true_iff in Hsucc.
  destruct Hsucc as [Hl|Hacc]; [rewrite Hl; reflexivity|].
  destruct (action A (vtop A stk') (la g input p')) eqn:Eact; try discriminate.
  destruct Hconf as (_ & Hc). destruct (Hc Sk' stk' _ (real_leaf g input p') HI Eact) as (x & Hx).
  unfold lr_upto1. replace (length input <? p')%nat with false by (symmetry; apply Nat.ltb_ge; exact Hp').
  rewrite Hx. cbn [is_acc]. apply orb_true_r.
Qed.

Lemma reported_are_reference_successes : reported_are_reference_successes_stmt.
Proof.
  intros fixed g A input ifuel PN costs TRY avoid fuel stk p out Hconf Hns Hp H.
  destruct (reported_are_successes _ _ _ _ _ _ _ _ _ _ _ _ _ H) as (c & Hall).
  exists c. intros rs Hin.
  destruct (Hall rs Hin) as (s & moves & stk' & p' & E & H1 & H2 & H3 & H4 & H5).
  exists s. split; [exact E|]. split; [exact H5|]. split; [|split; assumption].
  eapply search_path_reference_success; eassumption.
Qed.

Lemma reported_cost_ge_reference : reported_cost_ge_reference_stmt.
Proof.
  intros fixed g A input ifuel PN costs TRY avoid sched fuel stk p out cmin fmax ref
         Hc HPN Hconf Hns Hp H Href rs Hin.
  destruct (reported_are_reference_successes _ _ _ _ _ _ _ _ _ _ _ _ _ Hconf Hns Hp H) as (c & Hall).
  destruct (Hall rs Hin) as (s & -> & Hnf & Hsucc & _).
  destruct (reference_complete g A input ifuel PN costs TRY avoid sched stk p cmin fmax ref Hc HPN Href)
    as (_ & _ & Hmin & _).
  rewrite scost_strip. apply Hmin; assumption.
Qed.

Lemma mirror_output_form : mirror_output_form_stmt.
Proof.
  intros fixed g A input ifuel PN costs TRY avoid fuel stk p out H.
  destruct (reported_core _ _ _ _ _ _ _ _ _ _ _ _ _ H) as (c & kept & -> & Hall).
  assert (HF : Forall (fun s => scost g input costs s p = c /\ inserts_tok (eof g) s = false) kept).
  { eapply Forall_impl; [|exact Hall]. intros s (moves & stk' & p' & _ & _ & H3 & H4).
    split; [exact H3|]. apply (nf_means g s H4). }
  destruct (simplify_postconditions g input costs avoid kept p c HF) as (H1 & H2 & H3 & H4 & H5 & _).
  split; [exact H1|]. split; [exact H2|]. split; [exact H3|]. split; [exact H4|].
  exists c. exact H5.
Qed.

(* ---- the unreachable!() arm of the merge closure ---------------------------------------------- *)
Lemma merge_arm_unreachable : merge_arm_unreachable_stmt.
Proof.
  intros g A input ifuel costs stk p old new Hc Ho Hn Hcf Hk Er.
  destruct (key_eqb_facts _ _ Hk) as (_ & _ & _ & E4). rewrite Er in *. cbn [rt_shifts] in E4.
  assert (H0 : n_cf old = 0%N).
  { assert (Hin : In [] (paths (n_rep old))) by (rewrite Er; left; reflexivity).
    destruct (Ho [] Hin) as (_ & H & _). cbn [scost] in H. symmetry. exact H. }
  destruct (n_rep new) as [|i r pa|i r alts pa] eqn:En; [reflexivity| |]; exfalso.
  - destruct (paths pa) as [|pc ps] eqn:Ep; [exact (paths_nonempty pa Ep)|].
    assert (Hin : In (pc ++ [r]) (paths (n_rep new))).
    { rewrite En, paths_rep, Ep. left. reflexivity. }
    destruct (Hn _ Hin) as (_ & Hcost & _).
    rewrite (scost_app g input costs) in Hcost. cbn [scost] in Hcost.
    destruct r as [t| |]; cbn [rt_shifts] in E4; try discriminate.
    + pose proof (mcost_pos g input costs (Ins t) (spos pc p) Hc ltac:(discriminate)). lia.
    + pose proof (mcost_pos g input costs Del (spos pc p) Hc ltac:(discriminate)). lia.
  - destruct (paths pa) as [|pc ps] eqn:Ep; [exact (paths_nonempty pa Ep)|].
    assert (Hin : In (pc ++ [r]) (paths (n_rep new))).
    { rewrite En, paths_mrg, Ep. left. reflexivity. }
    destruct (Hn _ Hin) as (_ & Hcost & _).
    rewrite (scost_app g input costs) in Hcost. cbn [scost] in Hcost.
    destruct r as [t| |]; cbn [rt_shifts] in E4; try discriminate.
    + pose proof (mcost_pos g input costs (Ins t) (spos pc p) Hc ltac:(discriminate)). lia.
    + pose proof (mcost_pos g input costs Del (spos pc p) Hc ltac:(discriminate)). lia.
Qed.

(* ---- the inductive steps, and the totality of the transition system --------------------------- *)
Lemma neighbours_invariant : neighbours_invariant_stmt.
Proof.
  intros fixed g A input ifuel costs stk p ea n ctr nb Hok H.
  exact (neighbours_ok fixed g A input ifuel costs stk p ea n ctr nb Hok H).
Qed.

Lemma merge_preserves_invariant : merge_preserves_invariant_stmt.
Proof.
  intros g A input ifuel costs stk p old new ctr Ho Hn Hcf Hk.
  exact (merge_node_ok g A input ifuel costs stk p old new ctr Ho Hn Hcf Hk).
Qed.

Lemma exec_total : exec_total_stmt.
Proof.
  intros fixed g A input ifuel PN costs s. destruct s as [todo tlen c ctr|b c acc ctr].
  - destruct (bget todo c) as [|n rest] eqn:Hb.
    + destruct (u16max <=? c)%N eqn:Hu.
      { right. exists (Done []). split; [|left; reflexivity].
        intros f. cbn [exec phase1]. rewrite Hb, Hu. reflexivity. }
      destruct (N.eqb (c + 1) tlen) eqn:Ht.
      { right. exists (Done []). split; [|left; reflexivity].
        intros f. cbn [exec phase1]. rewrite Hb, Hu, Ht. reflexivity. }
      left. exists None, (P1 todo tlen (c + 1)%N ctr). apply step_skip; assumption.
    + destruct (node_success g A input PN n) eqn:Hsucc.
      { left. exists (Some n), (P2 rest c [n] ctr). apply step_first; assumption. }
      destruct (neighbours fixed g A input ifuel costs true n ctr) as [nb| |] eqn:Hnb.
      * left. eexists (Some n), _. eapply step_expand; eassumption.
      * right. exists Panic. split; [|right; left; reflexivity].
        intros f. cbn [exec phase1]. rewrite Hb, Hsucc, Hnb. reflexivity.
      * right. exists OutOfFuel. split; [|right; right; left; reflexivity].
        intros f. cbn [exec phase1]. rewrite Hb, Hsucc, Hnb. reflexivity.
  - destruct b as [|n rest].
    + right. exists (Done (rev acc)). split; [intros f; reflexivity|].
      right. right. right. exists c, acc, ctr. split; reflexivity.
    + destruct (node_success g A input PN n) eqn:Hsucc.
      { left. exists (Some n), (P2 rest c (n :: acc) ctr). apply step_keep; assumption. }
      destruct (neighbours fixed g A input ifuel costs false n ctr) as [nb| |] eqn:Hnb.
      * left. eexists (Some n), _. eapply step_sweep; eassumption.
      * right. exists Panic. split; [|right; left; reflexivity].
        intros f. cbn [exec phase2]. rewrite Hsucc, Hnb. reflexivity.
      * right. exists OutOfFuel. split; [|right; right; left; reflexivity].
        intros f. cbn [exec phase2]. rewrite Hsucc, Hnb. reflexivity.
Qed.
