(* C03 — proofs of the statements of Spec.v. *)
From Coq Require Import List Arith NArith Bool Lia Permutation.
From GV Require Import Common.Outcome Base.Grammar Base.Analyses Base.GrammarFacts Base.AnalysesProofs
  LR.Automaton C03.Model C03.Spec C03.Lists C03.ItemLoop C03.EdgeLoop.
Import ListNotations.

(* ---- events of a well-formed item list vs the declarative candidates ------------- *)

Definition wf_items (g : grammar) (io : list item) : Prop :=
  NoDup (map item_key io) /\
  forall i, In i io -> (it_d i <= length (rhs g (it_p i)))%nat /\ NoDup (it_la i).

Lemma wf_items_perm g io items : Permutation io items -> wf_items g items -> wf_items g io.
Proof.
  intros Hp [Hk Hi]. split.
  - eapply Permutation_NoDup; [apply Permutation_map; apply Permutation_sym; exact Hp | exact Hk].
  - intros i Hin. apply Hi. eapply Permutation_in; eassumption.
Qed.

Lemma wf_items_tail g i io : wf_items g (i :: io) -> wf_items g io.
Proof.
  intros [Hk Hi]. split.
  - simpl in Hk. inversion Hk. assumption.
  - intros j Hj. apply Hi. right. exact Hj.
Qed.

Lemma ltb_complete g i : (it_d i <= length (rhs g (it_p i)))%nat ->
  (it_d i <? length (rhs g (it_p i)))%nat = negb (complete g i).
Proof.
  intros H. unfold complete. destruct (Nat.ltb_spec (it_d i) (length (rhs g (it_p i)))) as [L|L];
    destruct (Nat.eqb_spec (it_d i) (length (rhs g (it_p i)))) as [E|E]; simpl; try reflexivity; lia.
Qed.

Lemma memN_false_notin a l : memN a l = false -> ~ In a l.
Proof. intros H Hin. apply memN_In in Hin. congruence. Qed.

Lemma piece_reds g p a la : NoDup la ->
  ev_reds g (map (fun a' => (p, a')) la) a = if memN a la && negb (is_acc g p a) then [p] else [].
Proof.
  induction la as [|x la IH]; intros Hnd; [reflexivity|].
  inversion Hnd as [|? ? Hx Hnd']; subst. unfold ev_reds in *. simpl map. simpl filter.
  unfold e_acc at 1. simpl fst. simpl snd. unfold memN. simpl existsb. fold (memN a la).
  destruct (N.eqb_spec x a) as [E|E].
  - subst x. rewrite N.eqb_refl. simpl orb.
    assert (Hm : memN a la = false).
    { destruct (memN a la) eqn:Em; [|reflexivity]. apply memN_In in Em. contradiction. }
    rewrite Hm in IH. simpl in IH. specialize (IH Hnd').
    destruct (is_acc g p a); simpl.
    + exact IH.
    + rewrite IH. reflexivity.
  - destruct (N.eqb_spec a x) as [E'|E']; [congruence|]. simpl. apply IH. exact Hnd'.
Qed.

Lemma piece_acc g p a la :
  ev_acc g (map (fun a' => (p, a')) la) a = memN a la && is_acc g p a.
Proof.
  induction la as [|x la IH]; [reflexivity|].
  unfold ev_acc in *. simpl. unfold e_acc at 1. simpl fst. simpl snd. rewrite IH.
  unfold memN. simpl existsb. fold (memN a la).
  destruct (N.eqb_spec x a) as [E|E].
  - subst x. rewrite N.eqb_refl. simpl. destruct (is_acc g p a); simpl; [reflexivity|].
    rewrite andb_false_r. reflexivity.
  - destruct (N.eqb_spec a x) as [E'|E']; [congruence|]. reflexivity.
Qed.

Lemma ev_reds_events g io a : wf_items g io -> ev_reds g (events g io) a = red_cands g io a.
Proof.
  induction io as [|i io IH]; intros Hwf; [reflexivity|].
  pose proof (wf_items_tail g i io Hwf) as Hwf'. destruct Hwf as [_ Hi].
  destruct (Hi i (or_introl eq_refl)) as [Hd Hla].
  unfold events. simpl flat_map. fold (events g io). rewrite ev_reds_app, (IH Hwf').
  rewrite (ltb_complete g i Hd). unfold red_cands. simpl filter.
  destruct (complete g i); simpl negb; cbv iota.
  - rewrite (piece_reds g (it_p i) a (it_la i) Hla). simpl andb.
    destruct (memN a (it_la i) && negb (is_acc g (it_p i) a)); reflexivity.
  - reflexivity.
Qed.

Lemma ev_acc_events g io a : wf_items g io -> ev_acc g (events g io) a = acc_cand g io a.
Proof.
  induction io as [|i io IH]; intros Hwf; [reflexivity|].
  pose proof (wf_items_tail g i io Hwf) as Hwf'. destruct Hwf as [_ Hi].
  destruct (Hi i (or_introl eq_refl)) as [Hd Hla].
  unfold events. simpl flat_map. fold (events g io). rewrite ev_acc_app, (IH Hwf').
  rewrite (ltb_complete g i Hd). unfold acc_cand. simpl existsb.
  destruct (complete g i); simpl negb; cbv iota.
  - rewrite (piece_acc g (it_p i) a (it_la i)). reflexivity.
  - reflexivity.
Qed.

Lemma NoDup_map_eq {A B} (f : A -> B) (l : list A) x y :
  NoDup (map f l) -> In x l -> In y l -> f x = f y -> x = y.
Proof.
  induction l as [|z l IH]; intros Hnd Hx Hy E; [destruct Hx|].
  simpl in Hnd. inversion Hnd as [|? ? Hz Hnd']; subst.
  destruct Hx as [Hx|Hx]; destruct Hy as [Hy|Hy].
  - congruence.
  - subst z. exfalso. apply Hz. rewrite E. apply in_map. exact Hy.
  - subst z. exfalso. apply Hz. rewrite <- E. apply in_map. exact Hx.
  - apply IH; assumption.
Qed.

Lemma In_events g io p a : wf_items g io ->
  (In (p, a) (events g io) <-> exists i, In i io /\ it_p i = p /\ complete g i = true /\ In a (it_la i)).
Proof.
  intros [_ Hi]. unfold events. rewrite in_flat_map. split.
  - intros (i & Hin & H). rewrite (ltb_complete g i (proj1 (Hi i Hin))) in H.
    destruct (complete g i) eqn:Ec; simpl in H; [|destruct H].
    apply in_map_iff in H. destruct H as (a' & E & Ha'). inversion E; subst.
    exists i. repeat split; assumption.
  - intros (i & Hin & Hp & Hc & Ha). exists i. split; [exact Hin|].
    rewrite (ltb_complete g i (proj1 (Hi i Hin))), Hc. simpl. apply in_map_iff. exists a. split; [|exact Ha].
    rewrite Hp. reflexivity.
Qed.

Lemma NoDup_events g io : wf_items g io -> NoDup (events g io).
Proof.
  induction io as [|i io IH]; intros Hwf; [constructor|].
  pose proof (wf_items_tail g i io Hwf) as Hwf'. pose proof Hwf as [Hk Hi].
  destruct (Hi i (or_introl eq_refl)) as [Hd Hla].
  unfold events. simpl flat_map. fold (events g io). apply NoDup_app_intro.
  - destruct (it_d i <? length (rhs g (it_p i)))%nat; [constructor|].
    apply NoDup_map_inj; [|exact Hla]. intros x y _ _ E. inversion E. reflexivity.
  - apply IH. exact Hwf'.
  - intros [p a] Hin Hin'. rewrite (ltb_complete g i Hd) in Hin.
    destruct (complete g i) eqn:Ec; simpl in Hin; [|destruct Hin].
    apply in_map_iff in Hin. destruct Hin as (a' & E & _). inversion E; subst p a'. clear E.
    apply (In_events g io (it_p i) a Hwf') in Hin'. destruct Hin' as (j & Hj & Hp & Hcj & _).
    assert (Ekey : item_key j = item_key i).
    { unfold item_key. rewrite Hp. f_equal. unfold complete in Ec, Hcj.
      apply Nat.eqb_eq in Ec. apply Nat.eqb_eq in Hcj. rewrite Hp in Hcj. congruence. }
    simpl in Hk. inversion Hk as [|? ? Hnot _]; subst. apply Hnot. rewrite <- Ekey. apply in_map. exact Hj.
Qed.

Lemma red_cands_perm g io items a : Permutation io items ->
  Permutation (red_cands g io a) (red_cands g items a).
Proof. intros H. unfold red_cands. apply Permutation_map. apply Permutation_filter. exact H. Qed.

Lemma acc_cand_perm g io items a : Permutation io items -> acc_cand g io a = acc_cand g items a.
Proof.
  intros H. unfold acc_cand. apply eq_iff_eq_true. rewrite !existsb_exists. split.
  - intros (x & Hx & Hc). exists x. split; [eapply Permutation_in; eassumption | exact Hc].
  - intros (x & Hx & Hc). exists x. split; [eapply Permutation_in; [apply Permutation_sym|]; eassumption | exact Hc].
Qed.

Lemma winner_perm g io items a : Permutation io items -> winner g io a = winner g items a.
Proof.
  intros H. unfold winner. apply min_list_ext. intros x.
  pose proof (red_cands_perm g io items a H) as Hp. split; intros Hx.
  - eapply Permutation_in; eassumption.
  - eapply Permutation_in; [apply Permutation_sym|]; eassumption.
Qed.

Lemma In_map_snd_events g evs a :
  In a (map snd evs) <-> ev_acc g evs a = true \/ ev_reds g evs a <> [].
Proof.
  split.
  - intros H. apply in_map_iff in H. destruct H as ([p a'] & E & Hin). simpl in E. subst a'.
    destruct (e_acc g (p, a)) eqn:Ee.
    + left. pose proof Ee as Ee'. apply e_acc_true in Ee'. inversion Ee'; subst. apply ev_acc_true. split; [exact Hin | reflexivity].
    + right. intros Hn. assert (Hp : In p (ev_reds g evs a)) by (apply In_ev_reds; split; assumption).
      rewrite Hn in Hp. destruct Hp.
  - intros [H|H].
    + apply ev_acc_true in H. destruct H as [Hin _]. apply in_map_iff. exists (start_prod g, a). split; [reflexivity | exact Hin].
    + destruct (ev_reds g evs a) as [|p l] eqn:E; [contradiction|].
      assert (Hp : In p (ev_reds g evs a)) by (rewrite E; left; reflexivity).
      apply In_ev_reds in Hp. apply in_map_iff. exists (p, a). split; [reflexivity | exact (proj1 Hp)].
Qed.

Lemma In_toks_of de a : In a (toks_of de) <-> In (T a) (map fst de).
Proof.
  unfold toks_of. rewrite in_flat_map, in_map_iff. split.
  - intros ([X t] & Hin & H). simpl in H. destruct X as [b|r]; [|destruct H]. destruct H as [H|[]]. subst b.
    exists (T a, t). split; [reflexivity | exact Hin].
  - intros ([X t] & E & Hin). simpl in E. subst X. exists (T a, t). split; [exact Hin|]. left. reflexivity.
Qed.

Lemma In_gotos_of de r t : In (r, t) (gotos_of de) <-> In (R r, t) de.
Proof.
  unfold gotos_of. rewrite in_flat_map. split.
  - intros ([X t'] & Hin & H). simpl in H. destruct X as [b|r']; [destruct H|]. destruct H as [H|[]].
    inversion H; subst. exact Hin.
  - intros Hin. exists (R r, t). split; [exact Hin|]. left. reflexivity.
Qed.

(* ---- one state --------------------------------------------------------------------- *)

Lemma state_mirror_meets_spec : state_mirror_meets_spec_stmt.
Proof.
  intros g tp pp s items edges io eo rr0 sr0 fin0 (Hk & Hit & Hed & Heof) Hcons Hpio Hpeo Hfin.
  assert (Hwfi : wf_items g items) by (split; assumption).
  assert (Hwfo : wf_items g io) by (eapply wf_items_perm; eassumption).
  assert (Hreds : forall a, ev_reds g (events g io) a = red_cands g io a)
    by (intros a; apply ev_reds_events; exact Hwfo).
  assert (Haccs : forall a, ev_acc g (events g io) a = acc_cand g items a).
  { intros a. rewrite (ev_acc_events g io a Hwfo). apply acc_cand_perm. exact Hpio. }
  assert (Hndeo : NoDup (map fst eo)).
  { eapply Permutation_NoDup; [apply Permutation_map; apply Permutation_sym; exact Hpeo | exact Hed]. }
  unfold state_mirror. rewrite item_loop_events.
  assert (Hfin' : fin0 = None \/ forall e', In e' ([] ++ events g io) -> e_acc g e' = false).
  { destruct Hfin as [H|H]; [left; exact H | right]. intros e' He'. simpl in He'.
    destruct (e_acc g e') eqn:Ee; [|reflexivity]. apply e_acc_true in Ee. subst e'.
    assert (Ht : ev_acc g (events g io) (eof g) = true) by (apply ev_acc_true; split; [exact He' | reflexivity]).
    rewrite Haccs in Ht. congruence. }
  pose proof (events_loop g s rr0 sr0 fin0 (events g io) [] (init_tstate rr0 sr0 fin0)
                (NoDup_events g io Hwfo) Hfin' (Inv_init g s rr0 sr0 fin0)) as HL.
  simpl app in HL.
  destruct (mfold (fun e => item_tok g s (fst e) (snd e)) (events g io) (init_tstate rr0 sr0 fin0))
    as [[stI|]| |]; try contradiction.
  - (* the item loop went through *)
    destruct HL as [Hcells Hnoar (rr & Hrr & Hrrinv) Hsr Hgotos Hsa Hfinv].
    assert (HnoShift : forall a x, t_cells stI a <> Shift x).
    { intros a x. rewrite (Hcells a). unfold cell_of. destruct (ev_acc g (events g io) a); [discriminate|].
      destruct (min_list (ev_reds g (events g io) a)); discriminate. }
    assert (HnoAcc : forall a tgt, In (T a, tgt) ([] ++ eo) -> t_cells stI a <> Accept).
    { intros a tgt Hin. simpl in Hin. rewrite (Hcells a). unfold cell_of.
      destruct (ev_acc g (events g io) a) eqn:Ea.
      - exfalso. apply ev_acc_true in Ea. destruct Ea as [_ Ea]. subst a. apply Heof.
        apply in_map_iff. exists (T (eof g), tgt). split; [reflexivity|]. eapply Permutation_in; eassumption.
      - destruct (min_list (ev_reds g (events g io) a)); discriminate. }
    destruct (edge_loop_inv tp pp s stI Hcons HnoShift eo [] stI Hndeo HnoAcc
                (Inv2_init tp pp s stI Hgotos)) as (st' & Hs' & [Hc2 Hsr2 Hg2 Hsa2 Hrr2 Hfin2]).
    unfold edge_loop. rewrite Hs'. simpl app in *.
    assert (Hwin : forall a, min_list (ev_reds g (events g io) a) = winner g items a).
    { intros a. rewrite Hreds. apply (winner_perm g io items a Hpio). }
    assert (Hnoarc : forall a, ~ accept_reduce_cell g items a).
    { intros a [Ha Hr]. rewrite <- Haccs in Ha. apply Hnoar in Ha. rewrite Hreds in Ha.
      apply Hr. pose proof (red_cands_perm g io items a Hpio) as Hp. rewrite Ha in Hp.
      apply Permutation_nil in Hp. exact Hp. }
    split; [exact Hnoarc|]. split; [|split; [|split; [|split; [|split]]]].
    + (* cells *)
      intros a. rewrite (Hc2 a). unfold resolved, cell_spec. rewrite (Hcells a). unfold cell_of.
      rewrite Haccs, Hwin. rewrite (assoc_sym_perm (T a) eo edges Hndeo Hpeo).
      destruct (acc_cand g items a); [destruct (assoc_sym (T a) edges); reflexivity|].
      destruct (assoc_sym (T a) edges) as [tgt|]; destruct (winner g items a); reflexivity.
    + (* shift/reduce records *)
      exists (sr_of tp pp s stI eo). split; [rewrite Hsr2, Hsr; reflexivity|].
      eapply Permutation_trans; [apply Permutation_flat_map; exact Hpeo|].
      unfold sr_spec. apply Permutation_refl'. apply flat_map_ext. intros [X tgt]. simpl fst. simpl snd.
      destruct X as [a|r]; [|reflexivity]. rewrite (Hcells a). unfold cell_of. rewrite Haccs, Hwin.
      destruct (acc_cand g items a) eqn:Ea.
      * destruct (winner g items a) as [p|] eqn:Ew; [|reflexivity]. exfalso. apply (Hnoarc a). split; [exact Ea|].
        intros Hn. unfold winner in Ew. rewrite Hn in Ew. discriminate.
      * destruct (winner g items a); reflexivity.
    + (* reduce/reduce records *)
      exists rr. split; [rewrite Hrr2; exact Hrr|]. destruct Hrrinv as [Hrec Hperm].
      assert (Hpc : forall a, Permutation (ev_reds g (events g io) a) (red_cands g items a)).
      { intros a. rewrite Hreds. apply red_cands_perm. exact Hpio. }
      split; [|split].
      * intros r Hr. destruct (Hrec r Hr) as (H1 & H2 & H3 & H4). repeat split; try assumption.
        -- eapply Permutation_in; [apply Hpc | exact H3].
        -- eapply Permutation_in; [apply Hpc | exact H4].
      * intros a. eapply Permutation_trans; [apply Hperm|]. apply losers_perm. apply Hpc.
      * intros a. unfold rr_count_spec.
        rewrite <- (map_length rr_y). rewrite (Permutation_length (Hperm a)).
        rewrite losers_length; [|apply NoDup_ev_reds; apply NoDup_events; exact Hwfo].
        rewrite (Permutation_length (Hpc a)). reflexivity.
    + (* final state *)
      rewrite Hfin2, Hfinv, Haccs. reflexivity.
    + (* gotos *)
      intros r t. rewrite Hg2, In_gotos_of. split; intros H.
      * eapply Permutation_in; eassumption.
      * eapply Permutation_in; [apply Permutation_sym|]; eassumption.
    + (* state_actions bits *)
      intros a. rewrite Hsa2, in_app_iff, (Hsa a), (In_map_snd_events g), In_toks_of, Haccs, Hreds.
      unfold has_candidate.
      assert (Hnil : red_cands g io a <> [] <-> red_cands g items a <> []).
      { pose proof (red_cands_perm g io items a Hpio) as Hp. split; intros H Hn; apply H.
        - rewrite Hn in Hp. apply Permutation_sym, Permutation_nil in Hp. exact Hp.
        - rewrite Hn in Hp. apply Permutation_nil in Hp. exact Hp. }
      rewrite Hnil.
      assert (Hedge : In (T a) (map fst eo) <-> assoc_sym (T a) edges <> None).
      { rewrite <- (assoc_sym_perm (T a) eo edges Hndeo Hpeo). split.
        - intros H Hn. apply assoc_sym_None in Hn. exact (Hn H).
        - intros H. destruct (assoc_sym (T a) eo) as [v|] eqn:E; [|contradiction].
          apply (assoc_sym_In (T a) v eo Hndeo) in E. apply in_map_iff. exists (T a, v).
          split; [reflexivity | exact E]. }
      rewrite Hedge. rewrite !orb_true_iff.
      destruct (red_cands g items a); destruct (assoc_sym (T a) edges); simpl; intuition congruence.
  - (* accept/reduce *)
    destruct HL as (a & Ha & Hr). exists a. split.
    + rewrite <- Haccs. exact Ha.
    + rewrite Hreds in Hr. intros Hn. apply Hr.
      pose proof (red_cands_perm g io items a Hpio) as Hp. rewrite Hn in Hp.
      apply Permutation_sym, Permutation_nil in Hp. exact Hp.
Qed.

(* ---- the whole table --------------------------------------------------------------- *)

Definition accst (g : grammar) (st : list item * list (sym * N)) : bool := acc_cand g (fst st) (eof g).

Fixpoint fin_after (g : grammar) (n : nat) (decl : list (list item * list (sym * N))) (fin : option N) : option N :=
  match decl with
  | [] => fin
  | st :: d => fin_after g (S n) d (if accst g st then Some (N.of_nat n) else fin)
  end.

Fixpoint rows_ok (g : grammar) (tp pp : precs) (n : nat) (decl : list (list item * list (sym * N)))
  (rows : list trow) (rrs : list (list rrrec)) (srs : list (list srrec)) : Prop :=
  match decl, rows, rrs, srs with
  | [], [], [], [] => True
  | st :: d, row :: rows', rr :: rrs', sr :: srs' =>
      (forall a, ~ accept_reduce_cell g (fst st) a) /\
      (forall a, row_cells row a = cell_spec g tp pp (fst st) (snd st) a) /\
      rr_ok g (N.of_nat n) (fst st) rr /\
      Permutation sr (sr_spec g tp pp (N.of_nat n) (fst st) (snd st)) /\
      rows_ok g tp pp (S n) d rows' rrs' srs'
  | _, _, _, _ => False
  end.

Definition acc_ok (g : grammar) (fin : option N) (decl : list (list item * list (sym * N))) : Prop :=
  match fin with
  | None => (length (filter (accst g) decl) <= 1)%nat
  | Some _ => filter (accst g) decl = []
  end.

Lemma states_loop_ok g tp pp : prec_consistent tp pp ->
  forall orders decl,
    Forall2 (fun o d => Permutation (fst o) (fst d) /\ Permutation (snd o) (snd d)) orders decl ->
    Forall (fun st => wf_state g (fst st) (snd st)) decl ->
    forall n rows0 rr0 sr0 fin0, acc_ok g fin0 decl ->
    match states_loop g tp pp n orders rows0 rr0 sr0 fin0 with
    | Done (Some (rows', rr', sr', fin')) =>
        exists rows rrs srs, rows' = rows0 ++ rows /\ rr' = rr0 ++ concat rrs /\ sr' = sr0 ++ concat srs /\
                             fin' = fin_after g n decl fin0 /\ rows_ok g tp pp n decl rows rrs srs
    | Done None => exists k st a, nth_error decl k = Some st /\ accept_reduce_cell g (fst st) a
    | _ => False
    end.
Proof.
  intros Hcons orders decl HF. induction HF as [|[io eo] [items edges] orders decl [Hpi Hpe] HF IH];
    intros Hwf n rows0 rr0 sr0 fin0 Hacc.
  - simpl. exists [], [], []. simpl. rewrite !app_nil_r. repeat split; reflexivity.
  - simpl in Hpi, Hpe. inversion Hwf as [|? ? Hwf1 Hwf']; subst. simpl in Hwf1.
    simpl states_loop.
    assert (Hfin : fin0 = None \/ acc_cand g items (eof g) = false).
    { destruct fin0 as [f|]; [right | left; reflexivity]. unfold acc_ok in Hacc. simpl in Hacc.
      unfold accst at 1 in Hacc. simpl in Hacc. destruct (acc_cand g items (eof g)); [discriminate | reflexivity]. }
    pose proof (state_mirror_meets_spec g tp pp (N.of_nat n) items edges io eo rr0 sr0 fin0 Hwf1 Hcons Hpi Hpe Hfin) as HS.
    destruct (state_mirror g tp pp (N.of_nat n) io eo (init_tstate rr0 sr0 fin0)) as [[st|]| |]; try contradiction.
    + destruct HS as (Hnoar & Hcells & (sr & Hsr & Hsrp) & (rr & Hrr & Hrrok) & Hfinv & _ & _).
      assert (Hacc' : acc_ok g (t_fin st) decl).
      { rewrite Hfinv. unfold acc_ok in *. simpl filter in Hacc.
        change (accst g (items, edges)) with (acc_cand g items (eof g)) in Hacc.
        destruct (acc_cand g items (eof g)).
        - destruct fin0; [discriminate|]. simpl in Hacc. destruct (filter (accst g) decl); [reflexivity | simpl in Hacc; lia].
        - exact Hacc. }
      specialize (IH Hwf' (S n) (rows0 ++ [mkRow (t_cells st) (t_sa st) (t_gotos st)]) (t_rr st) (t_sr st) (t_fin st) Hacc').
      destruct (states_loop g tp pp (S n) orders (rows0 ++ [mkRow (t_cells st) (t_sa st) (t_gotos st)])
                  (t_rr st) (t_sr st) (t_fin st)) as [[[[[rows' rr'] sr'] fin']|]| |]; try contradiction.
      * destruct IH as (rows & rrs & srs & E1 & E2 & E3 & E4 & Hok).
        exists (mkRow (t_cells st) (t_sa st) (t_gotos st) :: rows), (rr :: rrs), (sr :: srs).
        split; [rewrite E1, <- app_assoc; reflexivity|].
        split; [rewrite E2, Hrr, <- app_assoc; reflexivity|].
        split; [rewrite E3, Hsr, <- app_assoc; reflexivity|].
        split.
        -- rewrite E4, Hfinv. simpl. unfold accst. simpl. reflexivity.
        -- simpl. split; [exact Hnoar|]. split; [exact Hcells|]. split; [exact Hrrok|]. split; [exact Hsrp | exact Hok].
      * destruct IH as (k & st' & a & Hk & Har). exists (S k), st', a. split; assumption.
    + destruct HS as (a & Har). exists 0%nat, (items, edges), a. split; [reflexivity | exact Har].
Qed.

Lemma rows_ok_length g tp pp n decl rows rrs srs : rows_ok g tp pp n decl rows rrs srs ->
  length rows = length decl /\ length rrs = length decl /\ length srs = length decl.
Proof.
  revert n rows rrs srs. induction decl as [|st d IH]; intros n rows rrs srs H.
  - destruct rows, rrs, srs; try contradiction. repeat split; reflexivity.
  - destruct rows as [|row rows]; [contradiction|]. destruct rrs as [|rr rrs]; [contradiction|].
    destruct srs as [|sr srs]; [contradiction|]. simpl in H. destruct H as (_ & _ & _ & _ & H).
    destruct (IH _ _ _ _ H) as (H1 & H2 & H3). simpl. repeat split; congruence.
Qed.

Lemma rows_ok_nth g tp pp n decl rows rrs srs : rows_ok g tp pp n decl rows rrs srs ->
  forall k st, nth_error decl k = Some st ->
    (forall a, ~ accept_reduce_cell g (fst st) a) /\
    (exists row, nth_error rows k = Some row /\ forall a, row_cells row a = cell_spec g tp pp (fst st) (snd st) a) /\
    (exists rr, nth_error rrs k = Some rr /\ rr_ok g (N.of_nat (n + k)) (fst st) rr).
Proof.
  revert n rows rrs srs. induction decl as [|st0 d IH]; intros n rows rrs srs H k st Hk.
  - destruct k; discriminate.
  - destruct rows as [|row rows]; [contradiction|]. destruct rrs as [|rr rrs]; [contradiction|].
    destruct srs as [|sr srs]; [contradiction|]. simpl in H. destruct H as (H1 & H2 & H3 & H4 & H5).
    destruct k as [|k].
    + simpl in Hk. inversion Hk; subst st0. rewrite Nat.add_0_r. split; [exact H1|]. split.
      * exists row. split; [reflexivity | exact H2].
      * exists rr. split; [reflexivity | exact H3].
    + simpl in Hk. destruct (IH _ _ _ _ H5 k st Hk) as (G1 & G2 & G3). split; [exact G1|]. split; [exact G2|].
      replace (n + S k)%nat with (S n + k)%nat by lia. exact G3.
Qed.

Lemma rows_ok_sr g tp pp n decl rows rrs srs : rows_ok g tp pp n decl rows rrs srs ->
  Permutation (concat srs)
    (flat_map (fun sd => sr_spec g tp pp (N.of_nat (fst sd)) (fst (snd sd)) (snd (snd sd)))
              (combine (seq n (length decl)) decl)).
Proof.
  revert n rows rrs srs. induction decl as [|st0 d IH]; intros n rows rrs srs H.
  - destruct rows, rrs, srs; try contradiction. simpl. constructor.
  - destruct rows as [|row rows]; [contradiction|]. destruct rrs as [|rr rrs]; [contradiction|].
    destruct srs as [|sr srs]; [contradiction|]. simpl in H. destruct H as (_ & _ & _ & H4 & H5).
    simpl. apply Permutation_app; [exact H4|]. apply (IH _ _ _ _ H5).
Qed.

Lemma fin_after_spec g decl : forall n fin f, fin_after g n decl fin = Some f ->
  fin = Some f \/ exists k st, f = N.of_nat (n + k) /\ nth_error decl k = Some st /\ accst g st = true.
Proof.
  induction decl as [|st d IH]; intros n fin f H.
  - left. exact H.
  - simpl in H. apply IH in H. destruct H as [H|(k & st' & Hf & Hk & Ha)].
    + destruct (accst g st) eqn:Ea; [|left; exact H]. right. exists 0%nat, st.
      inversion H. rewrite Nat.add_0_r. split; [reflexivity|]. split; [reflexivity | exact Ea].
    + right. exists (S k), st'. replace (n + S k)%nat with (S n + k)%nat by lia. repeat split; assumption.
Qed.

Lemma fin_after_none g decl : forall n fin, fin_after g n decl fin = None -> filter (accst g) decl = [] /\ fin = None.
Proof.
  induction decl as [|st d IH]; intros n fin H.
  - split; [reflexivity | exact H].
  - simpl in H. apply IH in H. destruct H as [H1 H2]. simpl. destruct (accst g st); [discriminate|].
    split; assumption.
Qed.

Lemma table_mirror_meets_spec : table_mirror_meets_spec_stmt.
Proof.
  intros g tp pp decl orders Hwf Hcons HF Hone. unfold table_mirror.
  assert (Hacc : acc_ok g None decl).
  { unfold acc_ok. change (fun st => acc_cand g (fst st) (eof g)) with (accst g) in Hone. lia. }
  pose proof (states_loop_ok g tp pp Hcons orders decl HF Hwf 0%nat [] [] [] None Hacc) as HL.
  destruct (states_loop g tp pp 0 orders [] [] [] None) as [[[[[rows' rr'] sr'] fin']|]| |]; try contradiction.
  - destruct HL as (rows & rrs & srs & E1 & E2 & E3 & E4 & Hok). simpl in E1, E2, E3. subst rows' rr' sr'.
    destruct fin' as [f|].
    + symmetry in E4. destruct (fin_after_spec g decl 0%nat None f E4) as [H|(k & st & Hf & Hk & Ha)]; [discriminate|].
      destruct (rows_ok_length _ _ _ _ _ _ _ _ Hok) as (L1 & L2 & L3).
      unfold table_result_ok. simpl. split; [|split; [|split; [|split; [|split]]]].
      * intros k' st' a Hk'. exact (proj1 (rows_ok_nth _ _ _ _ _ _ _ _ Hok k' st' Hk') a).
      * exact L1.
      * intros k' st' a Hk'. destruct (rows_ok_nth _ _ _ _ _ _ _ _ Hok k' st' Hk') as (_ & (row & Hr & Hc) & _).
        unfold tb_cell. simpl. rewrite Hr. apply Hc.
      * unfold sr_spec_all. exact (rows_ok_sr _ _ _ _ _ _ _ _ Hok).
      * exists rrs. split; [reflexivity|]. split; [exact L2|]. intros k' st' Hk'.
        destruct (rows_ok_nth _ _ _ _ _ _ _ _ Hok k' st' Hk') as (_ & _ & G3). exact G3.
      * exists st. subst f. simpl. rewrite Nat2N.id. split; [exact Hk | exact Ha].
    + symmetry in E4. apply fin_after_none in E4. destruct E4 as [E4 _].
      change (fun st => acc_cand g (fst st) (eof g)) with (accst g) in Hone. rewrite E4 in Hone. discriminate.
  - exact HL.
Qed.
