(* C03 — the loop over the edges of a state (statetable.rs 280-314) and
   resolve_shift_reduce (559-615). *)
From Coq Require Import List Arith NArith Bool Lia Permutation.
From GV Require Import Common.Outcome Base.Grammar Base.Analyses Base.GrammarFacts Base.AnalysesProofs
  LR.Automaton C03.Model C03.Spec C03.Lists.
Import ListNotations.

Section EdgeLoop.
Variable tp pp : precs.
Variable s : N.
Variable stI : tstate.              (* the row after the item loop *)
Hypothesis Hcons : prec_consistent tp pp.
Hypothesis HnoShift : forall a x, t_cells stI a <> Shift x.
Hypothesis HgI : t_gotos stI = [].

Definition resolved (de : list (sym * N)) (a : N) : act :=
  match assoc_sym (T a) de with
  | None => t_cells stI a
  | Some tgt => match t_cells stI a with
                | Err => Shift tgt
                | Reduce p => fst (decide tp pp a p tgt)
                | x => x
                end
  end.

Definition sr_of (de : list (sym * N)) : list srrec :=
  flat_map (fun e => match fst e with
                     | T a => match t_cells stI a with
                              | Reduce p => if snd (decide tp pp a p (snd e)) then [(a, p, s)] else []
                              | _ => []
                              end
                     | R _ => []
                     end) de.
Definition gotos_of (de : list (sym * N)) : list (N * N) :=
  flat_map (fun e => match fst e with R r => [(r, snd e)] | T _ => [] end) de.
Definition toks_of (de : list (sym * N)) : list N :=
  flat_map (fun e => match fst e with T a => [a] | R _ => [] end) de.

Record Inv2 (de : list (sym * N)) (st : tstate) : Prop := mkInv2 {
  i2_cells : forall a, t_cells st a = resolved de a;
  i2_sr : t_sr st = t_sr stI ++ sr_of de;
  i2_gotos : t_gotos st = gotos_of de;
  i2_sa : t_sa st = t_sa stI ++ toks_of de;
  i2_rr : t_rr st = t_rr stI;
  i2_fin : t_fin st = t_fin stI
}.

Lemma Inv2_init : Inv2 [] stI.
Proof.
  constructor; simpl; try reflexivity; try (rewrite app_nil_r; reflexivity). exact HgI.
Qed.

Lemma resolve_decide a p tgt st : t_cells st a = Reduce p ->
  exists st', resolve tp pp s a p tgt st = Done (Some st') /\
    (forall b, t_cells st' b = if N.eqb b a then fst (decide tp pp a p tgt) else t_cells st b) /\
    t_sr st' = t_sr st ++ (if snd (decide tp pp a p tgt) then [(a, p, s)] else []) /\
    t_rr st' = t_rr st /\ t_sa st' = t_sa st /\ t_fin st' = t_fin st /\ t_gotos st' = t_gotos st.
Proof.
  intros Hcell. unfold resolve, decide.
  assert (Hkeep : forall b, t_cells st b = if N.eqb b a then Reduce p else t_cells st b).
  { intros b. destruct (N.eqb_spec b a) as [E|E]; [subst b; exact Hcell | reflexivity]. }
  destruct (tp a) as [t|] eqn:Et; destruct (pp p) as [q|] eqn:Eq.
  - destruct (N.compare_spec (p_level t) (p_level q)) as [E|E|E].
    + pose proof (Hcons a p t q Et Eq E) as Hk.
      assert (H1 : (p_level q <? p_level t)%N = false) by (apply N.ltb_ge; lia).
      assert (H2 : (p_level t <? p_level q)%N = false) by (apply N.ltb_ge; lia).
      rewrite H1, H2. rewrite <- Hk. destruct (p_kind t).
      * exists st. simpl. rewrite app_nil_r. repeat split; try reflexivity. exact Hkeep.
      * eexists. split; [reflexivity|]. simpl. rewrite app_nil_r. repeat split; reflexivity.
      * eexists. split; [reflexivity|]. simpl. rewrite app_nil_r. repeat split; reflexivity.
    + assert (H1 : (p_level q <? p_level t)%N = false) by (apply N.ltb_ge; lia).
      assert (H2 : (p_level t <? p_level q)%N = true) by (apply N.ltb_lt; lia).
      rewrite H1, H2. exists st. simpl. rewrite app_nil_r. repeat split; try reflexivity. exact Hkeep.
    + assert (H1 : (p_level q <? p_level t)%N = true) by (apply N.ltb_lt; lia).
      rewrite H1. eexists. split; [reflexivity|]. simpl. rewrite app_nil_r. repeat split; reflexivity.
  - eexists. split; [reflexivity|]. simpl. repeat split; reflexivity.
  - eexists. split; [reflexivity|]. simpl. repeat split; reflexivity.
  - eexists. split; [reflexivity|]. simpl. repeat split; reflexivity.
Qed.

Lemma assocN_gotos_of r de : ~ In (R r) (map fst de) -> assocN r (gotos_of de) = None.
Proof.
  induction de as [|[X t] de IH]; intros H; [reflexivity|].
  simpl in H. unfold gotos_of. simpl. destruct X as [a|r'].
  - simpl. apply IH. intros H'. apply H. right. exact H'.
  - simpl. destruct (N.eqb_spec r r') as [E|E].
    + subst r'. exfalso. apply H. left. reflexivity.
    + apply IH. intros H'. apply H. right. exact H'.
Qed.

Lemma sr_of_snoc de e : sr_of (de ++ [e]) = sr_of de ++ sr_of [e].
Proof. unfold sr_of. rewrite flat_map_app. reflexivity. Qed.
Lemma gotos_of_snoc de e : gotos_of (de ++ [e]) = gotos_of de ++ gotos_of [e].
Proof. unfold gotos_of. rewrite flat_map_app. reflexivity. Qed.
Lemma toks_of_snoc de e : toks_of (de ++ [e]) = toks_of de ++ toks_of [e].
Proof. unfold toks_of. rewrite flat_map_app. reflexivity. Qed.

Lemma sym_eqb_T a b : sym_eqb (T a) (T b) = N.eqb a b.
Proof. reflexivity. Qed.

Lemma edge_step_inv de e st :
  NoDup (map fst (de ++ [e])) ->
  (forall a, fst e = T a -> t_cells stI a <> Accept) ->
  Inv2 de st ->
  exists st', edge_step tp pp s e st = Done (Some st') /\ Inv2 (de ++ [e]) st'.
Proof.
  intros Hnd Hacc [Hcells Hsr Hgotos Hsa Hrr Hfin]. destruct e as [X tgt].
  assert (HX : ~ In X (map fst de)).
  { rewrite map_app in Hnd. simpl in Hnd. apply NoDup_snoc. exact Hnd. }
  unfold edge_step. simpl fst. simpl snd. destruct X as [a|r].
  - (* token edge *)
    cbn [t_cells set_sa].
    assert (Hcell : t_cells st a = t_cells stI a).
    { rewrite (Hcells a). unfold resolved. apply assoc_sym_None in HX. rewrite HX. reflexivity. }
    assert (Hres : forall b, b <> a -> resolved (de ++ [(T a, tgt)]) b = resolved de b).
    { intros b Hb. unfold resolved. rewrite assoc_sym_snoc. simpl fst. rewrite sym_eqb_T.
      destruct (N.eqb_spec b a) as [E|E]; [contradiction|]. destruct (assoc_sym (T b) de); reflexivity. }
    assert (Hresa : resolved (de ++ [(T a, tgt)]) a =
                    match t_cells stI a with Err => Shift tgt | Reduce p => fst (decide tp pp a p tgt) | x => x end).
    { unfold resolved. rewrite assoc_sym_snoc. apply assoc_sym_None in HX. rewrite HX. simpl fst.
      rewrite sym_eqb_T, N.eqb_refl. reflexivity. }
    rewrite Hcell. destruct (t_cells stI a) as [x|p| |] eqn:EcI.
    + exfalso. exact (HnoShift a x EcI).
    + (* shift/reduce *)
      destruct (resolve_decide a p tgt (set_sa st (t_sa st ++ [a]))) as (st' & Hr & Hc' & Hsr' & Hrr' & Hsa' & Hfin' & Hg').
      { cbn [t_cells set_sa]. exact Hcell. }
      exists st'. split; [exact Hr|]. constructor.
      * intros b. rewrite (Hc' b). cbn [t_cells set_sa]. destruct (N.eqb_spec b a) as [E|E].
        -- subst b. rewrite Hresa. reflexivity.
        -- rewrite (Hres b E). apply Hcells.
      * rewrite Hsr'. cbn [t_sr set_sa]. rewrite Hsr, sr_of_snoc, <- app_assoc. f_equal. f_equal.
        unfold sr_of. simpl. rewrite EcI. rewrite app_nil_r. reflexivity.
      * rewrite Hg'. cbn [t_gotos set_sa]. rewrite Hgotos, gotos_of_snoc. simpl. rewrite app_nil_r. reflexivity.
      * rewrite Hsa'. cbn [t_sa set_sa]. rewrite Hsa, toks_of_snoc, <- app_assoc. reflexivity.
      * rewrite Hrr'. exact Hrr.
      * rewrite Hfin'. exact Hfin.
    + exfalso. exact (Hacc a eq_refl EcI).
    + eexists. split; [reflexivity|]. constructor; cbn [t_cells t_rr t_sr t_sa t_fin t_gotos set_cells set_sa].
      * intros b. unfold upd. destruct (N.eqb_spec b a) as [E|E].
        -- subst b. rewrite Hresa. reflexivity.
        -- rewrite (Hres b E). apply Hcells.
      * rewrite Hsr, sr_of_snoc. f_equal. unfold sr_of. simpl. rewrite EcI. rewrite app_nil_r. reflexivity.
      * rewrite Hgotos, gotos_of_snoc. simpl. rewrite app_nil_r. reflexivity.
      * rewrite Hsa, toks_of_snoc, <- app_assoc. reflexivity.
      * exact Hrr.
      * exact Hfin.
  - (* rule edge *)
    assert (Hn : assocN r (t_gotos st) = None) by (rewrite Hgotos; apply assocN_gotos_of; exact HX).
    exists (set_gotos st (t_gotos st ++ [(r, tgt)])). rewrite Hn. split; [reflexivity|]. constructor; cbn [t_cells t_rr t_sr t_sa t_fin t_gotos set_gotos].
    + intros b. rewrite (Hcells b). unfold resolved. rewrite assoc_sym_snoc. simpl fst.
      destruct (assoc_sym (T b) de); reflexivity.
    + rewrite Hsr, sr_of_snoc. unfold sr_of at 3. simpl. rewrite app_nil_r. reflexivity.
    + rewrite Hgotos, gotos_of_snoc. reflexivity.
    + rewrite Hsa, toks_of_snoc. unfold toks_of at 3. simpl. rewrite app_nil_r. reflexivity.
    + exact Hrr.
    + exact Hfin.
Qed.

Lemma edge_loop_inv rest : forall de st,
  NoDup (map fst (de ++ rest)) ->
  (forall a tgt, In (T a, tgt) (de ++ rest) -> t_cells stI a <> Accept) ->
  Inv2 de st ->
  exists st', mfold (edge_step tp pp s) rest st = Done (Some st') /\ Inv2 (de ++ rest) st'.
Proof.
  induction rest as [|e rest IH]; intros de st Hnd Hacc HI.
  - exists st. split; [reflexivity|]. rewrite app_nil_r. exact HI.
  - assert (Eapp : de ++ e :: rest = (de ++ [e]) ++ rest) by (rewrite <- app_assoc; reflexivity).
    rewrite Eapp in Hnd, Hacc.
    assert (Hnd1 : NoDup (map fst (de ++ [e]))).
    { rewrite map_app in Hnd. eapply NoDup_app_l. exact Hnd. }
    destruct (edge_step_inv de e st Hnd1) as (st1 & Hs1 & HI1); [|exact HI|].
    { intros a Ha. apply (Hacc a (snd e)). apply in_or_app. left. apply in_or_app. right. left.
      destruct e as [X t]. simpl in Ha. subst X. reflexivity. }
    destruct (IH (de ++ [e]) st1 Hnd Hacc HI1) as (st' & Hs' & HI').
    exists st'. split; [|rewrite Eapp; exact HI']. simpl. rewrite Hs1. exact Hs'.
Qed.

End EdgeLoop.
