(* C03 — list facts used by the proofs: minimum of a list, duplicate-free
   lists, permutations, the monadic fold of the mirror. *)
From Coq Require Import List Arith NArith Bool Lia Permutation.
From GV Require Import Common.Outcome Base.Grammar Base.Analyses Base.GrammarFacts Base.AnalysesProofs
  LR.Automaton C03.Model C03.Spec.
Import ListNotations.

(* ---- min_list ---------------------------------------------------------------- *)

Definition minstep (acc : option N) (p : N) : option N :=
  match acc with None => Some p | Some m => Some (N.min m p) end.

Lemma min_list_snoc l p : min_list (l ++ [p]) = minstep (min_list l) p.
Proof. unfold min_list. rewrite fold_left_app. reflexivity. Qed.

Lemma min_list_none l : min_list l = None -> l = [].
Proof.
  destruct l as [|x l] using rev_ind; [reflexivity|].
  rewrite min_list_snoc. destruct (min_list l); discriminate.
Qed.

Lemma min_list_spec l m : min_list l = Some m <-> In m l /\ forall q, In q l -> (m <= q)%N.
Proof.
  revert m. induction l as [|x l IH] using rev_ind; intros m.
  - simpl. split; [discriminate | intros [[] _]].
  - rewrite min_list_snoc. destruct (min_list l) as [m0|] eqn:E.
    + destruct (proj1 (IH m0) eq_refl) as [Hin Hle]. simpl. split.
      * intros H. inversion H; subst m; clear H. split.
        -- apply in_or_app. destruct (N.min_spec m0 x) as [[_ Hm]|[_ Hm]]; rewrite Hm;
             [left; exact Hin | right; left; reflexivity].
        -- intros q Hq. apply in_app_or in Hq. destruct Hq as [Hq|[Hq|[]]].
           ++ specialize (Hle q Hq). lia.
           ++ subst q. lia.
      * intros [Hin' Hle']. f_equal.
        assert (H1 : (m <= m0)%N) by (apply Hle'; apply in_or_app; left; exact Hin).
        assert (H2 : (m <= x)%N) by (apply Hle'; apply in_or_app; right; left; reflexivity).
        apply in_app_or in Hin'. destruct Hin' as [Hm|[Hm|[]]].
        -- specialize (Hle m Hm). lia.
        -- subst x. lia.
    + apply min_list_none in E. subst l. simpl. split.
      * intros H. inversion H; subst m. split; [left; reflexivity|].
        intros q [Hq|[]]. subst q. lia.
      * intros [[Hm|[]] _]. subst x. reflexivity.
Qed.

Lemma min_list_in l m : min_list l = Some m -> In m l.
Proof. intros H. apply min_list_spec in H. tauto. Qed.

Lemma min_list_ext l l' : (forall x, In x l <-> In x l') -> min_list l = min_list l'.
Proof.
  intros H. destruct (min_list l) as [m|] eqn:E.
  - symmetry. apply min_list_spec. apply min_list_spec in E. destruct E as [Hin Hle]. split.
    + apply H. exact Hin.
    + intros q Hq. apply Hle. apply H. exact Hq.
  - apply min_list_none in E. subst l. destruct l' as [|y l']; [reflexivity|].
    exfalso. apply (H y). left. reflexivity.
Qed.

(* ---- duplicate-free lists --------------------------------------------------------- *)

Lemma NoDup_app_intro {A} (a b : list A) :
  NoDup a -> NoDup b -> (forall x, In x a -> ~ In x b) -> NoDup (a ++ b).
Proof.
  induction a as [|x a IH]; intros Ha Hb Hd; [exact Hb|].
  simpl. inversion Ha as [|? ? Hx Ha']; subst. constructor.
  - intros Hin. apply in_app_or in Hin. destruct Hin as [Hin|Hin]; [exact (Hx Hin)|].
    exact (Hd x (or_introl eq_refl) Hin).
  - apply IH; [exact Ha' | exact Hb |]. intros y Hy. apply Hd. right. exact Hy.
Qed.

Lemma NoDup_app_l {A} (a b : list A) : NoDup (a ++ b) -> NoDup a.
Proof.
  induction a as [|x a IH]; intros H; [constructor|].
  simpl in H. inversion H as [|? ? Hx H']; subst. constructor.
  - intros Hin. apply Hx. apply in_or_app. left. exact Hin.
  - apply IH. exact H'.
Qed.

Lemma NoDup_app_r {A} (a b : list A) : NoDup (a ++ b) -> NoDup b.
Proof.
  induction a as [|x a IH]; intros H; [exact H|].
  simpl in H. inversion H; subst. apply IH. assumption.
Qed.

Lemma NoDup_app_disj {A} (a b : list A) x : NoDup (a ++ b) -> In x a -> ~ In x b.
Proof.
  induction a as [|y a IH]; intros H Hin; [destruct Hin|].
  simpl in H. inversion H as [|? ? Hy H']; subst. destruct Hin as [Hin|Hin].
  - subst y. intros Hb. apply Hy. apply in_or_app. right. exact Hb.
  - apply IH; assumption.
Qed.

Lemma NoDup_snoc {A} (l : list A) x : NoDup (l ++ [x]) -> ~ In x l.
Proof.
  intros H Hin. exact (NoDup_app_disj l [x] x H Hin (or_introl eq_refl)).
Qed.

Lemma NoDup_map_inj {A B} (f : A -> B) (l : list A) :
  (forall x y, In x l -> In y l -> f x = f y -> x = y) -> NoDup l -> NoDup (map f l).
Proof.
  induction l as [|x l IH]; intros Hinj Hnd; [constructor|].
  inversion Hnd as [|? ? Hx Hnd']; subst. simpl. constructor.
  - intros Hin. apply in_map_iff in Hin. destruct Hin as (y & Hy & Hyin).
    assert (y = x) by (apply Hinj; [right; exact Hyin | left; reflexivity | exact Hy]).
    subst y. exact (Hx Hyin).
  - apply IH; [|exact Hnd']. intros a b Ha Hb. apply Hinj; right; assumption.
Qed.

Lemma NoDup_filter {A} (f : A -> bool) (l : list A) : NoDup l -> NoDup (filter f l).
Proof.
  induction l as [|x l IH]; intros H; [constructor|].
  inversion H as [|? ? Hx H']; subst. simpl. destruct (f x).
  - constructor; [|apply IH; exact H']. intros Hin. apply filter_In in Hin. exact (Hx (proj1 Hin)).
  - apply IH. exact H'.
Qed.

Lemma NoDup_map_fst_inv {A B} (l : list (A * B)) : NoDup (map fst l) -> NoDup l.
Proof.
  induction l as [|x l IH]; intros H; [constructor|].
  simpl in H. inversion H as [|? ? Hx H']; subst. constructor.
  - intros Hin. apply Hx. apply in_map. exact Hin.
  - apply IH. exact H'.
Qed.

(* ---- permutations ------------------------------------------------------------------- *)

Lemma Permutation_filter {A} (f : A -> bool) (l l' : list A) :
  Permutation l l' -> Permutation (filter f l) (filter f l').
Proof.
  induction 1 as [|x l l' _ IH|x y l|l l' l'' _ IH1 _ IH2]; simpl.
  - constructor.
  - destruct (f x); [constructor|]; exact IH.
  - destruct (f x), (f y); try apply Permutation_refl. apply perm_swap.
  - eapply Permutation_trans; eassumption.
Qed.

Lemma filter_all {A} (f : A -> bool) (l : list A) : (forall x, In x l -> f x = true) -> filter f l = l.
Proof.
  induction l as [|x l IH]; intros H; [reflexivity|].
  simpl. rewrite (H x (or_introl eq_refl)). f_equal. apply IH. intros y Hy. apply H. right. exact Hy.
Qed.

(* removing the one occurrence of r and putting it back *)
Lemma perm_remove (l : list N) r : NoDup l -> In r l ->
  Permutation (filter (fun p => negb (N.eqb p r)) l ++ [r]) l.
Proof.
  induction l as [|x l IH]; intros Hnd Hin; [destruct Hin|].
  inversion Hnd as [|? ? Hx Hnd']; subst. simpl. destruct (N.eqb_spec x r) as [E|E].
  - subst x. simpl. rewrite filter_all.
    + apply Permutation_sym. apply Permutation_cons_append.
    + intros y Hy. destruct (N.eqb_spec y r) as [E'|E']; [subst y; contradiction | reflexivity].
  - simpl. constructor. destruct Hin as [Hin|Hin]; [contradiction|]. apply IH; assumption.
Qed.

Lemma losers_perm l l' : Permutation l l' -> Permutation (losers l) (losers l').
Proof.
  intros H. unfold losers.
  assert (E : min_list l = min_list l').
  { apply min_list_ext. intros x. split; intros Hx.
    - eapply Permutation_in; eassumption.
    - eapply Permutation_in; [apply Permutation_sym|]; eassumption. }
  rewrite <- E. destruct (min_list l); [|constructor]. apply Permutation_filter. exact H.
Qed.

Lemma losers_length l : NoDup l -> length (losers l) = pred (length l).
Proof.
  intros Hnd. unfold losers. destruct (min_list l) as [w|] eqn:E.
  - pose proof (perm_remove l w Hnd (min_list_in _ _ E)) as Hp.
    apply Permutation_length in Hp. rewrite app_length in Hp. simpl in Hp. lia.
  - apply min_list_none in E. subst l. reflexivity.
Qed.

(* ---- association lists ------------------------------------------------------------------ *)

Lemma assoc_sym_In {A} (X : sym) (v : A) l : NoDup (map fst l) ->
  (assoc_sym X l = Some v <-> In (X, v) l).
Proof.
  induction l as [|[k w] l IH]; intros Hnd.
  - simpl. split; [discriminate | intros []].
  - simpl in Hnd. inversion Hnd as [|? ? Hk Hnd']; subst. simpl.
    destruct (sym_eqb X k) eqn:E.
    + apply sym_eqb_eq in E. subst k. split.
      * intros H. inversion H. left. reflexivity.
      * intros [H|H]; [inversion H; reflexivity|].
        exfalso. apply Hk. apply in_map_iff. exists (X, v). split; [reflexivity | exact H].
    + rewrite (IH Hnd'). split; [intros H; right; exact H|].
      intros [H|H]; [|exact H]. inversion H; subst.
      assert (sym_eqb X X = true) by (apply sym_eqb_eq; reflexivity). congruence.
Qed.

Lemma assoc_sym_None {A} (X : sym) (l : list (sym * A)) :
  assoc_sym X l = None <-> ~ In X (map fst l).
Proof.
  induction l as [|[k w] l IH]; simpl.
  - split; [intros _ [] | reflexivity].
  - destruct (sym_eqb X k) eqn:E.
    + apply sym_eqb_eq in E. subst k. split; [discriminate|]. intros H. exfalso. apply H. left. reflexivity.
    + rewrite IH. split.
      * intros H [H'|H']; [|exact (H H')]. subst k.
        assert (sym_eqb X X = true) by (apply sym_eqb_eq; reflexivity). congruence.
      * intros H H'. apply H. right. exact H'.
Qed.

Lemma assoc_sym_perm {A} (X : sym) (l l' : list (sym * A)) :
  NoDup (map fst l) -> Permutation l l' -> assoc_sym X l = assoc_sym X l'.
Proof.
  intros Hnd Hp.
  assert (Hnd' : NoDup (map fst l')).
  { eapply Permutation_NoDup; [apply Permutation_map; exact Hp | exact Hnd]. }
  destruct (assoc_sym X l) as [v|] eqn:E.
  - symmetry. apply (assoc_sym_In X v l' Hnd'). eapply Permutation_in; [exact Hp|].
    apply (assoc_sym_In X v l Hnd). exact E.
  - symmetry. apply assoc_sym_None. apply assoc_sym_None in E. intros Hin. apply E.
    eapply Permutation_in; [apply Permutation_sym; apply Permutation_map; exact Hp | exact Hin].
Qed.

Lemma assoc_sym_snoc {A} (X : sym) (l : list (sym * A)) e :
  assoc_sym X (l ++ [e]) =
  match assoc_sym X l with
  | Some v => Some v
  | None => if sym_eqb X (fst e) then Some (snd e) else None
  end.
Proof.
  induction l as [|[k w] l IH]; simpl.
  - destruct e as [k v]. reflexivity.
  - destruct (sym_eqb X k); [reflexivity | exact IH].
Qed.

(* ---- the monadic fold ---------------------------------------------------------------------- *)

Lemma mfold_app {A} (f : A -> tstate -> tres) (l1 l2 : list A) st :
  mfold f (l1 ++ l2) st =
  match mfold f l1 st with
  | Done (Some st') => mfold f l2 st'
  | r => r
  end.
Proof.
  revert st. induction l1 as [|x l1 IH]; intros st; [reflexivity|].
  simpl. destruct (f x st) as [[st'|]| |]; try reflexivity. apply IH.
Qed.

Lemma mfold_map {A B} (h : A -> B) (f : B -> tstate -> tres) (l : list A) st :
  mfold f (map h l) st = mfold (fun x => f (h x)) l st.
Proof.
  revert st. induction l as [|x l IH]; intros st; [reflexivity|].
  simpl. destruct (f (h x) st) as [[st'|]| |]; try reflexivity. apply IH.
Qed.
