(* C03 — precedences from declarations, production precedence, %expect. *)
From Coq Require Import List Arith NArith Bool Lia Permutation.
From GV Require Import Common.Outcome Base.Grammar Base.Analyses Base.GrammarFacts Base.AnalysesProofs
  LR.Automaton C03.Model C03.Spec.
Import ListNotations.

(* ---- token precedences ------------------------------------------------------------- *)

Lemma assocN_snoc {A} (t k : N) (v : A) m :
  assocN t (m ++ [(k, v)]) = match assocN t m with Some p => Some p | None => if N.eqb t k then Some v else None end.
Proof.
  induction m as [|[k' v'] m IH]; simpl; [reflexivity|].
  destruct (N.eqb t k'); [reflexivity | exact IH].
Qed.

Lemma decl_line_lookup kind lvl toks : forall m dups t,
  assocN t (fst (decl_line kind lvl toks m dups)) =
  match assocN t m with
  | Some p => Some p
  | None => if memN t toks then Some (mkPrec lvl kind) else None
  end.
Proof.
  induction toks as [|x toks IH]; intros m dups t.
  - simpl. destruct (assocN t m); reflexivity.
  - simpl decl_line. unfold memN. simpl existsb. fold (memN t toks).
    destruct (assocN x m) as [px|] eqn:Ex.
    + rewrite IH. destruct (assocN t m) eqn:Et; [reflexivity|].
      destruct (N.eqb_spec t x) as [E|E]; [subst t; congruence | reflexivity].
    + rewrite IH. rewrite assocN_snoc. destruct (assocN t m); [reflexivity|].
      destruct (N.eqb t x); simpl; reflexivity.
Qed.

Lemma decl_lines_lookup ds : forall lvl m dups t,
  assocN t (fst (decl_lines ds lvl m dups)) =
  match assocN t m with
  | Some p => Some p
  | None => token_prec_spec_from ds lvl t
  end.
Proof.
  induction ds as [|[k toks] ds IH]; intros lvl m dups t.
  - simpl. destruct (assocN t m); reflexivity.
  - simpl. destruct (decl_line k lvl toks m dups) as [m' dups'] eqn:E.
    rewrite IH. replace m' with (fst (decl_line k lvl toks m dups)) by (rewrite E; reflexivity).
    rewrite decl_line_lookup. destruct (assocN t m); [reflexivity|].
    destruct (memN t toks); reflexivity.
Qed.

Lemma token_prec_mirror_meets_spec : token_prec_mirror_meets_spec_stmt.
Proof. intros ds t. unfold token_prec_mirror, token_prec_spec. rewrite decl_lines_lookup. reflexivity. Qed.

Lemma token_prec_spec_from_first ds : forall lvl i k l t,
  nth_error ds i = Some (k, l) -> In t l ->
  (forall i' k' l', (i' < i)%nat -> nth_error ds i' = Some (k', l') -> ~ In t l') ->
  token_prec_spec_from ds lvl t = Some (mkPrec (lvl + N.of_nat i) k).
Proof.
  induction ds as [|[k0 l0] ds IH]; intros lvl i k l t Hn Hin Hbefore.
  - destruct i; discriminate.
  - destruct i as [|i].
    + simpl in Hn. inversion Hn; subst. simpl. apply memN_In in Hin. rewrite Hin. rewrite N.add_0_r. reflexivity.
    + simpl in Hn. simpl.
      destruct (memN t l0) eqn:Em.
      * exfalso. apply memN_In in Em. exact (Hbefore 0%nat k0 l0 (Nat.lt_0_succ i) eq_refl Em).
      * rewrite (IH (lvl + 1)%N i k l t Hn Hin).
        -- f_equal. f_equal. lia.
        -- intros i' k' l' Hlt Hn'. apply (Hbefore (S i') k' l'); [lia | exact Hn'].
Qed.

Lemma token_prec_spec_from_inv ds : forall lvl t p, token_prec_spec_from ds lvl t = Some p ->
  exists i k l, nth_error ds i = Some (k, l) /\ p = mkPrec (lvl + N.of_nat i) k.
Proof.
  induction ds as [|[k0 l0] ds IH]; intros lvl t p H; [discriminate|].
  simpl in H. destruct (memN t l0).
  - inversion H. exists 0%nat, k0, l0. split; [reflexivity|]. rewrite N.add_0_r. reflexivity.
  - apply IH in H. destruct H as (i & k & l & Hn & Hp). exists (S i), k, l. split; [exact Hn|].
    rewrite Hp. f_equal. lia.
Qed.

Lemma levels_from_decl_order : levels_from_decl_order_stmt.
Proof.
  split.
  - intros ds i k l t Hn Hin Hb. unfold token_prec_spec.
    rewrite (token_prec_spec_from_first ds 0%N i k l t Hn Hin Hb). reflexivity.
  - intros ds t H. unfold token_prec_spec. generalize 0%N. induction ds as [|[k l] ds IH]; intros lvl; [reflexivity|].
    simpl. destruct (memN t l) eqn:Em.
    + exfalso. apply memN_In in Em. exact (H k l (or_introl eq_refl) Em).
    + apply IH. intros k' l' Hin. apply (H k' l'). right. exact Hin.
Qed.

Lemma decl_precs_consistent : decl_precs_consistent_stmt.
Proof.
  intros ds pp Hpp a p t q Ht Hq Hlvl. destruct (Hpp p q Hq) as (b & Hb).
  unfold token_prec_spec in *.
  apply token_prec_spec_from_inv in Ht. apply token_prec_spec_from_inv in Hb.
  destruct Ht as (i & k & l & Hn & Hp). destruct Hb as (i' & k' & l' & Hn' & Hp').
  subst t q. simpl in *. assert (i = i') by lia. subst i'. rewrite Hn in Hn'. inversion Hn'. reflexivity.
Qed.

(* ---- production precedence ------------------------------------------------------------ *)

Lemma scan_spec l :
  match last_token_scan (rev l) with
  | Some t => is_last_token l t
  | None => forall x, In x l -> exists q, x = R q
  end.
Proof.
  induction l as [|x l IH] using rev_ind; [intros x []|].
  rewrite rev_app_distr. simpl. destruct x as [t|r].
  - exists l, []. split; [reflexivity | intros x []].
  - destruct (last_token_scan (rev l)) as [t|].
    + destruct IH as (u & v & E & Hv). exists u, (v ++ [R r]). split.
      * rewrite E, <- app_assoc. reflexivity.
      * intros x Hx. apply in_app_or in Hx. destruct Hx as [Hx|[Hx|[]]]; [apply Hv; exact Hx|].
        exists r. symmetry. exact Hx.
    + intros x Hx. apply in_app_or in Hx. destruct Hx as [Hx|[Hx|[]]]; [apply IH; exact Hx|].
      exists r. symmetry. exact Hx.
Qed.

Lemma scan_skip w z : (forall x, In x w -> exists q, x = R q) -> last_token_scan (w ++ z) = last_token_scan z.
Proof.
  induction w as [|y w IH]; intros H; [reflexivity|].
  destruct (H y (or_introl eq_refl)) as (q & E). subst y. simpl. apply IH. intros x Hx. apply H. right. exact Hx.
Qed.

Lemma scan_last l t : is_last_token l t -> last_token_scan (rev l) = Some t.
Proof.
  intros (u & v & E & Hv). subst l. rewrite rev_app_distr. simpl. rewrite <- app_assoc.
  rewrite scan_skip; [reflexivity|]. intros x Hx. apply in_rev in Hx. apply Hv. exact Hx.
Qed.

Lemma scan_none l : (forall x, In x l -> exists q, x = R q) -> last_token_scan (rev l) = None.
Proof.
  intros H. rewrite <- (app_nil_r (rev l)). rewrite scan_skip; [reflexivity|].
  intros x Hx. apply in_rev in Hx. apply H. exact Hx.
Qed.

Lemma prod_prec_spec_functional : prod_prec_spec_functional_stmt.
Proof.
  intros tp pn syms r1 r2 H1 H2. unfold prod_prec_spec in *. destruct pn as [n|]; [congruence|].
  destruct H1 as [(t1 & L1 & E1)|[A1 E1]]; destruct H2 as [(t2 & L2 & E2)|[A2 E2]].
  - apply scan_last in L1. apply scan_last in L2. congruence.
  - apply scan_last in L1. rewrite (scan_none syms A2) in L1. discriminate.
  - apply scan_last in L2. rewrite (scan_none syms A1) in L2. discriminate.
  - congruence.
Qed.

Lemma prod_prec_rule : prod_prec_rule_stmt.
Proof.
  intros tp pn syms. unfold prod_prec_mirror, prod_prec_spec. destruct pn as [n|].
  - destruct (tp n) as [p|] eqn:E.
    + reflexivity.
    + exists n. split; [reflexivity | exact E].
  - pose proof (scan_spec syms) as H. destruct (last_token_scan (rev syms)) as [t|].
    + left. exists t. split; [exact H | reflexivity].
    + right. split; [exact H | reflexivity].
Qed.

(* ---- %expect ------------------------------------------------------------------------------ *)

Lemma expect_rule : expect_rule_stmt.
Proof.
  intros e err sr rr. unfold build_ok_spec. rewrite andb_true_iff, !Nat.eqb_eq. tauto.
Qed.

Lemma expect_mirror_characterised : expect_mirror_characterised_stmt.
Proof.
  intros e err sr rr. split; [|reflexivity].
  intros Hne. unfold build_ok_mirror, build_ok_spec.
  destruct (Nat.eqb_spec sr 0) as [E1|E1]; destruct (Nat.eqb_spec rr 0) as [E2|E2]; simpl;
    try (exfalso; apply Hne; subst; reflexivity);
    destruct e as [i|]; destruct err as [j|]; simpl;
    rewrite ?(Nat.eqb_sym sr), ?(Nat.eqb_sym rr); try reflexivity; apply andb_comm.
Qed.

Lemma expect_mirror_refuted : expect_mirror_refuted_stmt.
Proof. exists (Some 2%nat), None, 0%nat, 0%nat. vm_compute. discriminate. Qed.

(* ---- boolean side conditions ------------------------------------------------------------------ *)

Lemma nodupb_sound {A} (eqb : A -> A -> bool) (l : list A) :
  (forall x y, eqb x y = true <-> x = y) -> nodupb eqb l = true -> NoDup l.
Proof.
  intros Heq. induction l as [|x l IH]; intros H; [constructor|].
  simpl in H. apply andb_true_iff in H. destruct H as [H1 H2]. constructor; [|apply IH; exact H2].
  intros Hin. apply negb_true_iff in H1.
  assert (Ht : existsb (eqb x) l = true) by (apply existsb_exists; exists x; split; [exact Hin | apply Heq; reflexivity]).
  congruence.
Qed.

Lemma key_eqb_eq x y : key_eqb x y = true <-> x = y.
Proof.
  destruct x as [a b], y as [c d]. unfold key_eqb. simpl. rewrite andb_true_iff, N.eqb_eq, Nat.eqb_eq. split.
  - intros [-> ->]. reflexivity.
  - intros H. inversion H. split; reflexivity.
Qed.

Lemma wf_state_b_sound : wf_state_b_sound_stmt.
Proof.
  intros g items edges H. unfold wf_state_b in H.
  apply andb_true_iff in H. destruct H as [H H4]. apply andb_true_iff in H. destruct H as [H H3].
  apply andb_true_iff in H. destruct H as [H1 H2]. split; [|split; [|split]].
  - apply (nodupb_sound key_eqb); [exact key_eqb_eq | exact H1].
  - intros i Hi. rewrite forallb_forall in H2. specialize (H2 i Hi). apply andb_true_iff in H2.
    destruct H2 as [Ha Hb]. split; [apply Nat.leb_le; exact Ha|].
    apply (nodupb_sound N.eqb); [exact N.eqb_eq | exact Hb].
  - apply (nodupb_sound sym_eqb); [exact sym_eqb_eq | exact H3].
  - intros Hin. apply negb_true_iff in H4.
    assert (Ht : existsb (sym_eqb (T (eof g))) (map fst edges) = true).
    { apply existsb_exists. exists (T (eof g)). split; [exact Hin | apply sym_eqb_eq; reflexivity]. }
    congruence.
Qed.

Lemma assocN_In {A} (k : N) (v : A) l : assocN k l = Some v -> In (k, v) l.
Proof.
  induction l as [|[k' v'] l IH]; [discriminate|]. simpl. destruct (N.eqb_spec k k') as [E|E].
  - intros H. inversion H; subst. left. reflexivity.
  - intros H. right. apply IH. exact H.
Qed.

Lemma prec_consistent_b_sound : prec_consistent_b_sound_stmt.
Proof.
  intros tl pl H a p t q Ht Hq Hl. unfold precs_of in *. apply assocN_In in Ht. apply assocN_In in Hq.
  unfold prec_consistent_b in H. rewrite forallb_forall in H. specialize (H (a, t) Ht).
  rewrite forallb_forall in H. specialize (H (p, q) Hq). simpl in H.
  apply orb_true_iff in H. destruct H as [H|H].
  - apply negb_true_iff in H. apply N.eqb_neq in H. contradiction.
  - destruct (p_kind t), (p_kind q); simpl in H; try discriminate; reflexivity.
Qed.
