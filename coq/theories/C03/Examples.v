(* C03 — the hypotheses of the theorems are satisfiable; concrete runs of the
   mirror (vm_compute) on the dangling-else state and on a %nonassoc state. *)
From Coq Require Import List Arith NArith Bool Lia Permutation.
From GV Require Import Common.Outcome Base.Grammar Base.Analyses LR.Automaton C03.Model C03.Spec.
Import ListNotations.
Open Scope N_scope.

(* S: 'i' S | 'i' S 'e' S | 'x';   tokens i=0 e=1 x=2 $=3; rules ^=0 S=1 *)
Definition g_else : grammar :=
  mkGrammar 4 2 [(1, [T 0; R 1]); (1, [T 0; R 1; T 1; R 1]); (1, [T 2]); (0, [R 1])] 3 3.
(* the state after  i S  *)
Definition items_else : list item := [(0, 2%nat, [1; 3]); (1, 2%nat, [1; 3])].
Definition edges_else : list (sym * N) := [(T 1, 5)].
Definition noprec : precs := fun _ => None.

Example wf_state_else : wf_state g_else items_else edges_else.
Proof.
  unfold wf_state. simpl. split; [|split; [|split]].
  - repeat constructor; simpl; intuition discriminate.
  - intros i [E|[E|[]]]; subst i; (split; [vm_compute; repeat constructor|]); repeat constructor; simpl; intuition discriminate.
  - repeat constructor; simpl; intuition.
  - intros [H|[]]. discriminate.
Qed.

Example prec_consistent_noprec : prec_consistent noprec noprec.
Proof. intros a p t q H. discriminate. Qed.

(* both iteration orders give the same row: shift on 'e' (reported), reduce 0 on $ *)
Example mirror_else_order1 :
  match state_mirror g_else noprec noprec 4 items_else edges_else (init_tstate [] [] None) with
  | Done (Some st) => (t_cells st 1, t_cells st 3, t_cells st 0, t_sr st, t_rr st, t_sa st)
                      = (Shift 5, Reduce 0, Err, [(1, 0, 4)], [], [1; 3; 1])
  | _ => False
  end.
Proof. vm_compute. reflexivity. Qed.

Example spec_else :
  (cell_spec g_else noprec noprec items_else edges_else 1,
   cell_spec g_else noprec noprec items_else edges_else 3,
   sr_spec g_else noprec noprec 4 items_else edges_else) = (Shift 5, Reduce 0, [(1, 0, 4)]).
Proof. vm_compute. reflexivity. Qed.

(* %nonassoc '<'   E: E '<' E | 'n';   tokens <=0 n=1 $=2; rules ^=0 E=1;
   productions 0: E -> E < E, 1: E -> n, 2: ^ -> E.  The state after E < E: *)
Definition g_na : grammar := mkGrammar 3 2 [(1, [R 1; T 0; R 1]); (1, [T 1]); (0, [R 1])] 2 2.
Definition items_na : list item := [(0, 1%nat, [0; 2]); (0, 3%nat, [0; 2])].
Definition edges_na : list (sym * N) := [(T 0, 3)].
Definition tp_na : precs := fun t => if t =? 0 then Some (mkPrec 0 ANonassoc) else None.
Definition pp_na : precs := fun p => if p =? 0 then Some (mkPrec 0 ANonassoc) else None.

(* the cell on '<' is an error cell, nothing is reported — and the
   state_actions bit of '<' stays set (C16) *)
Example mirror_na :
  match state_mirror g_na tp_na pp_na 4 items_na edges_na (init_tstate [] [] None) with
  | Done (Some st) => (t_cells st 0, t_cells st 2, t_sr st, t_rr st, t_sa st) = (Err, Reduce 0, [], [], [0; 2; 0])
  | _ => False
  end.
Proof. vm_compute. reflexivity. Qed.

(* three-way reduce/reduce: A: x; B: x; C: x reduced in one context — 2 pairs *)
Definition g_rr : grammar :=
  mkGrammar 2 5 [(1, [R 2]); (1, [R 3]); (1, [R 4]); (2, [T 0]); (3, [T 0]); (4, [T 0]); (0, [R 1])] 6 1.
Definition items_rr : list item := [(5, 1%nat, [1]); (3, 1%nat, [1]); (4, 1%nat, [1])].
Example mirror_rr :
  match state_mirror g_rr noprec noprec 2 items_rr [] (init_tstate [] [] None) with
  | Done (Some st) => (t_cells st 1, t_rr st) = (Reduce 3, [(1, 3, 5, 2); (1, 3, 4, 2)])
  | _ => False
  end.
Proof. vm_compute. reflexivity. Qed.
