(* C03 — the loop over the items of a closed state (statetable.rs 223-277):
   flattened into a list of (production, token) events, with an invariant that
   relates the table row to the events processed so far. *)
From Coq Require Import List Arith NArith Bool Lia Permutation.
From GV Require Import Common.Outcome Base.Grammar Base.Analyses Base.GrammarFacts Base.AnalysesProofs
  LR.Automaton C03.Model C03.Spec C03.Lists.
Import ListNotations.

Definition ev := (N * N)%type.

(* the (production, lookahead token) pairs the loop visits, in order *)
Definition events (g : grammar) (io : list item) : list ev :=
  flat_map (fun i => if (it_d i <? length (rhs g (it_p i)))%nat then []
                     else map (fun a => (it_p i, a)) (it_la i)) io.

Lemma item_loop_events g s io st :
  item_loop g s io st = mfold (fun e => item_tok g s (fst e) (snd e)) (events g io) st.
Proof.
  unfold item_loop. revert st. induction io as [|i io IH]; intros st; [reflexivity|].
  simpl. unfold item_step at 1. destruct (it_d i <? length (rhs g (it_p i)))%nat.
  - simpl. apply IH.
  - rewrite mfold_app. rewrite mfold_map. simpl.
    destruct (mfold (item_tok g s (it_p i)) (it_la i) st) as [[st'|]| |]; try reflexivity. apply IH.
Qed.

Section ItemLoop.
Variable g : grammar.
Variable s : N.
Variable rr0 : list rrrec.
Variable sr0 : list srrec.
Variable fin0 : option N.

Definition e_acc (e : ev) : bool := is_acc g (fst e) (snd e).
Definition ev_reds (evs : list ev) (a : N) : list N :=
  map fst (filter (fun e => N.eqb (snd e) a && negb (e_acc e)) evs).
Definition ev_acc (evs : list ev) (a : N) : bool :=
  existsb (fun e => N.eqb (snd e) a && e_acc e) evs.
Definition cell_of (evs : list ev) (a : N) : act :=
  if ev_acc evs a then Accept
  else match min_list (ev_reds evs a) with Some p => Reduce p | None => Err end.

Definition rr_inv (evs : list ev) (rr : list rrrec) : Prop :=
  (forall r, In r rr -> rr_st r = s /\ (rr_x r < rr_y r)%N /\
                        In (rr_x r) (ev_reds evs (rr_tok r)) /\ In (rr_y r) (ev_reds evs (rr_tok r))) /\
  (forall a, Permutation (map rr_y (rr_of_tok a rr)) (losers (ev_reds evs a))).

Record Inv (evs : list ev) (st : tstate) : Prop := mkInv {
  inv_cells : forall a, t_cells st a = cell_of evs a;
  inv_noar : forall a, ev_acc evs a = true -> ev_reds evs a = [];
  inv_rr : exists rr, t_rr st = rr0 ++ rr /\ rr_inv evs rr;
  inv_sr : t_sr st = sr0;
  inv_gotos : t_gotos st = [];
  inv_sa : forall a, In a (t_sa st) <-> In a (map snd evs);
  inv_fin : t_fin st = if ev_acc evs (eof g) then Some s else fin0
}.

Lemma Inv_init : Inv [] (init_tstate rr0 sr0 fin0).
Proof.
  constructor.
  - intros a. reflexivity.
  - intros a H. reflexivity.
  - exists []. split; [simpl; rewrite app_nil_r; reflexivity|]. split.
    + intros r [].
    + intros a. simpl. constructor.
  - reflexivity.
  - reflexivity.
  - intros a. simpl. tauto.
  - reflexivity.
Qed.

Lemma ev_reds_snoc evs e b :
  ev_reds (evs ++ [e]) b = ev_reds evs b ++ (if N.eqb (snd e) b && negb (e_acc e) then [fst e] else []).
Proof.
  unfold ev_reds. rewrite filter_app, map_app. simpl.
  destruct (N.eqb (snd e) b && negb (e_acc e)); reflexivity.
Qed.

Lemma ev_acc_snoc evs e b :
  ev_acc (evs ++ [e]) b = ev_acc evs b || (N.eqb (snd e) b && e_acc e).
Proof. unfold ev_acc. rewrite existsb_app. simpl. rewrite orb_false_r. reflexivity. Qed.

Lemma ev_reds_app evs evs' b : ev_reds (evs ++ evs') b = ev_reds evs b ++ ev_reds evs' b.
Proof. unfold ev_reds. rewrite filter_app, map_app. reflexivity. Qed.

Lemma ev_acc_app evs evs' b : ev_acc (evs ++ evs') b = ev_acc evs b || ev_acc evs' b.
Proof. unfold ev_acc. apply existsb_app. Qed.

Lemma In_ev_reds evs a p : In p (ev_reds evs a) <-> In (p, a) evs /\ e_acc (p, a) = false.
Proof.
  unfold ev_reds. rewrite in_map_iff. split.
  - intros ([p' a'] & Hp & Hin). simpl in Hp. subst p'. apply filter_In in Hin. destruct Hin as [Hin Hc].
    simpl in Hc. apply andb_true_iff in Hc. destruct Hc as [Ha Hc]. apply N.eqb_eq in Ha. subst a'.
    split; [exact Hin|]. apply negb_true_iff in Hc. exact Hc.
  - intros [Hin Hc]. exists (p, a). split; [reflexivity|]. apply filter_In. split; [exact Hin|].
    simpl. rewrite N.eqb_refl. simpl. apply negb_true_iff. exact Hc.
Qed.

Lemma ev_acc_true evs a : ev_acc evs a = true <-> In (start_prod g, a) evs /\ a = eof g.
Proof.
  unfold ev_acc. rewrite existsb_exists. split.
  - intros ([p a'] & Hin & Hc). simpl in Hc. apply andb_true_iff in Hc. destruct Hc as [Ha Hc].
    apply N.eqb_eq in Ha. subst a'. unfold e_acc, is_acc in Hc. simpl in Hc.
    apply andb_true_iff in Hc. destruct Hc as [Hp He]. apply N.eqb_eq in Hp. apply N.eqb_eq in He.
    subst p. split; assumption.
  - intros [Hin Ha]. exists (start_prod g, a). split; [exact Hin|]. simpl. rewrite N.eqb_refl. simpl.
    unfold e_acc, is_acc. simpl. rewrite N.eqb_refl. simpl. apply N.eqb_eq. exact Ha.
Qed.

Lemma e_acc_true e : e_acc e = true <-> e = (start_prod g, eof g).
Proof.
  destruct e as [p a]. unfold e_acc, is_acc. simpl. rewrite andb_true_iff, !N.eqb_eq. split.
  - intros [-> ->]. reflexivity.
  - intros H. inversion H. split; reflexivity.
Qed.

Lemma NoDup_ev_reds evs a : NoDup evs -> NoDup (ev_reds evs a).
Proof.
  intros H. unfold ev_reds. apply NoDup_map_inj; [|apply NoDup_filter; exact H].
  intros [p1 a1] [p2 a2] H1 H2 E. simpl in E. subst p2.
  apply filter_In in H1. apply filter_In in H2. destruct H1 as [_ H1]. destruct H2 as [_ H2].
  simpl in H1, H2. apply andb_true_iff in H1. apply andb_true_iff in H2.
  destruct H1 as [H1 _]. destruct H2 as [H2 _]. apply N.eqb_eq in H1. apply N.eqb_eq in H2. congruence.
Qed.

Lemma rr_inv_mono evs e rr : rr_inv evs rr ->
  (forall r, In r rr -> rr_st r = s /\ (rr_x r < rr_y r)%N /\
     In (rr_x r) (ev_reds (evs ++ [e]) (rr_tok r)) /\ In (rr_y r) (ev_reds (evs ++ [e]) (rr_tok r))).
Proof.
  intros [H _] r Hr. destruct (H r Hr) as (H1 & H2 & H3 & H4).
  repeat split; try assumption; rewrite ev_reds_snoc; apply in_or_app; left; assumption.
Qed.

Lemma rr_of_tok_snoc a rr r :
  rr_of_tok a (rr ++ [r]) = rr_of_tok a rr ++ (if N.eqb (rr_tok r) a then [r] else []).
Proof. unfold rr_of_tok. rewrite filter_app. simpl. destruct (N.eqb (rr_tok r) a); reflexivity. Qed.

(* one visit of a (production, token) pair *)
Lemma item_tok_step evs e st :
  NoDup (evs ++ [e]) ->
  (fin0 = None \/ forall e', In e' (evs ++ [e]) -> e_acc e' = false) ->
  Inv evs st ->
  match item_tok g s (fst e) (snd e) st with
  | Done (Some st') => Inv (evs ++ [e]) st'
  | Done None => ev_acc (evs ++ [e]) (snd e) = true /\ ev_reds (evs ++ [e]) (snd e) <> []
  | _ => False
  end.
Proof.
  intros Hnd Hfin HI. destruct e as [p a]. simpl fst. simpl snd.
  assert (Hnotin : ~ In (p, a) evs) by (apply NoDup_snoc; exact Hnd).
  assert (Hndevs : NoDup evs) by (eapply NoDup_app_l; exact Hnd).
  destruct HI as [Hcells Hnoar (rr & Hrr & Hrrinv) Hsr Hgotos Hsa Hfinv].
  unfold item_tok. simpl t_cells. rewrite (Hcells a). unfold cell_of.
  change (N.eqb p (start_prod g) && N.eqb a (eof g)) with (e_acc (p, a)).
  destruct (ev_acc evs a) eqn:Eacc.
  - (* the cell already accepts *)
    split.
    + rewrite ev_acc_snoc, Eacc. reflexivity.
    + rewrite ev_reds_snoc. simpl. rewrite N.eqb_refl. simpl.
      destruct (e_acc (p, a)) eqn:Ee.
      * exfalso. apply e_acc_true in Ee. inversion Ee; subst p a.
        apply ev_acc_true in Eacc. exact (Hnotin (proj1 Eacc)).
      * simpl. intros H. apply app_eq_nil in H. destruct H as [_ H]. discriminate.
  - destruct (min_list (ev_reds evs a)) as [r|] eqn:Emin.
    + (* the cell reduces r *)
      destruct (e_acc (p, a)) eqn:Ee.
      * split.
        -- rewrite ev_acc_snoc. simpl. rewrite N.eqb_refl, Ee. apply orb_true_r.
        -- rewrite ev_reds_snoc. simpl. rewrite Ee. rewrite andb_false_r. rewrite app_nil_r.
           intros H. rewrite H in Emin. discriminate.
      * assert (Hr : In r (ev_reds evs a)) by (apply min_list_in; exact Emin).
        assert (Hpr : p <> r).
        { intros E. subst r. apply In_ev_reds in Hr. exact (Hnotin (proj1 Hr)). }
        assert (Hpnot : ~ In p (ev_reds evs a)).
        { intros H. apply In_ev_reds in H. exact (Hnotin (proj1 H)). }
        assert (Hreds : forall b, ev_reds (evs ++ [(p, a)]) b = ev_reds evs b ++ (if N.eqb a b then [p] else [])).
        { intros b. rewrite ev_reds_snoc. simpl. rewrite Ee. rewrite andb_true_r. reflexivity. }
        assert (Haccs : forall b, ev_acc (evs ++ [(p, a)]) b = ev_acc evs b).
        { intros b. rewrite ev_acc_snoc. simpl. rewrite Ee. rewrite andb_false_r. apply orb_false_r. }
        assert (Hndr : NoDup (ev_reds evs a)) by (apply NoDup_ev_reds; exact Hndevs).
        destruct (N.compare p r) eqn:Ecmp.
        -- apply N.compare_eq_iff in Ecmp. contradiction.
        -- (* p < r: p becomes the kept production *)
           assert (Hlt : (p < r)%N) by (apply N.compare_lt_iff; exact Ecmp). clear Ecmp. rename Hlt into Ecmp.
           constructor; cbn [t_cells t_rr t_sr t_sa t_fin t_gotos set_cells set_rr set_sa set_fin set_sr set_gotos].
           ++ intros b. unfold cell_of, upd. rewrite Haccs, Hreds. destruct (N.eqb_spec b a) as [E|E].
              ** subst b. rewrite Eacc. rewrite N.eqb_refl. rewrite min_list_snoc, Emin. cbn [minstep].
                 f_equal. lia.
              ** destruct (N.eqb_spec a b) as [E'|E']; [congruence|]. rewrite app_nil_r.
                 rewrite (Hcells b). reflexivity.
           ++ intros b Hb. rewrite Haccs in Hb. rewrite Hreds. destruct (N.eqb_spec a b) as [E|E].
              ** subst b. congruence.
              ** rewrite app_nil_r. apply Hnoar. exact Hb.
           ++ exists (rr ++ [(a, p, r, s)]). split; [rewrite Hrr, app_assoc; reflexivity|]. split.
              ** intros x Hx. apply in_app_or in Hx. destruct Hx as [Hx|[Hx|[]]].
                 --- exact (rr_inv_mono evs (p, a) rr Hrrinv x Hx).
                 --- subst x. unfold rr_st, rr_x, rr_y, rr_tok. simpl. rewrite Hreds, N.eqb_refl.
                     repeat split; [exact Ecmp | | ]; apply in_or_app; [right; left; reflexivity | left; exact Hr].
              ** intros b. rewrite rr_of_tok_snoc, map_app. change (rr_tok (a, p, r, s)) with a.
                 rewrite Hreds. destruct Hrrinv as [_ Hperm]. specialize (Hperm b).
                 destruct (N.eqb_spec a b) as [E|E].
                 --- subst b. simpl map. unfold rr_y at 2. simpl.
                     unfold losers. rewrite min_list_snoc, Emin. cbn [minstep].
                     replace (N.min r p) with p by lia.
                     rewrite filter_app. simpl. rewrite N.eqb_refl. simpl. rewrite app_nil_r.
                     rewrite filter_all.
                     +++ eapply Permutation_trans; [apply Permutation_app_tail; exact Hperm|].
                         unfold losers. rewrite Emin. apply perm_remove; assumption.
                     +++ intros y Hy. destruct (N.eqb_spec y p) as [E'|E']; [subst y; contradiction | reflexivity].
                 --- simpl. rewrite !app_nil_r. exact Hperm.
           ++ exact Hsr.
           ++ exact Hgotos.
           ++ intros b. rewrite map_app, !in_app_iff. simpl. rewrite (Hsa b). tauto.
           ++ rewrite Haccs. exact Hfinv.
        -- (* p > r: r stays *)
           assert (Hgt : (r < p)%N) by (apply N.compare_gt_iff; exact Ecmp). clear Ecmp. rename Hgt into Ecmp.
           constructor; cbn [t_cells t_rr t_sr t_sa t_fin t_gotos set_cells set_rr set_sa set_fin set_sr set_gotos].
           ++ intros b. unfold cell_of. rewrite Haccs, Hreds. destruct (N.eqb_spec a b) as [E|E].
              ** subst b. rewrite Eacc. rewrite min_list_snoc, Emin. cbn [minstep].
                 rewrite (Hcells a). unfold cell_of. rewrite Eacc, Emin. f_equal. lia.
              ** rewrite app_nil_r. rewrite (Hcells b). reflexivity.
           ++ intros b Hb. rewrite Haccs in Hb. rewrite Hreds. destruct (N.eqb_spec a b) as [E|E].
              ** subst b. congruence.
              ** rewrite app_nil_r. apply Hnoar. exact Hb.
           ++ exists (rr ++ [(a, r, p, s)]). split; [rewrite Hrr, app_assoc; reflexivity|]. split.
              ** intros x Hx. apply in_app_or in Hx. destruct Hx as [Hx|[Hx|[]]].
                 --- exact (rr_inv_mono evs (p, a) rr Hrrinv x Hx).
                 --- subst x. unfold rr_st, rr_x, rr_y, rr_tok. simpl. rewrite Hreds, N.eqb_refl.
                     repeat split; [exact Ecmp | | ]; apply in_or_app; [left; exact Hr | right; left; reflexivity].
              ** intros b. rewrite rr_of_tok_snoc, map_app. change (rr_tok (a, r, p, s)) with a.
                 rewrite Hreds. destruct Hrrinv as [_ Hperm]. specialize (Hperm b).
                 destruct (N.eqb_spec a b) as [E|E].
                 --- subst b. simpl map. unfold rr_y at 2. simpl.
                     unfold losers. rewrite min_list_snoc, Emin. cbn [minstep].
                     replace (N.min r p) with r by lia.
                     rewrite filter_app. simpl.
                     destruct (N.eqb_spec p r) as [E'|E']; [contradiction|]. simpl.
                     apply Permutation_app_tail. unfold losers in Hperm. rewrite Emin in Hperm. exact Hperm.
                 --- simpl. rewrite !app_nil_r. exact Hperm.
           ++ exact Hsr.
           ++ exact Hgotos.
           ++ intros b. rewrite map_app, !in_app_iff. simpl. rewrite (Hsa b). tauto.
           ++ rewrite Haccs. exact Hfinv.
    + (* the cell is still empty *)
      apply min_list_none in Emin.
      destruct (e_acc (p, a)) eqn:Ee.
      * (* the accept item *)
        pose proof Ee as Ee'. apply e_acc_true in Ee'. inversion Ee'; subst p a. clear Ee'.
        simpl t_fin. rewrite Hfinv, Eacc.
        destruct Hfin as [Hfin|Hfin].
        2:{ exfalso. specialize (Hfin (start_prod g, eof g)). rewrite Ee in Hfin.
            assert (true = false) by (apply Hfin; apply in_or_app; right; left; reflexivity). discriminate. }
        rewrite Hfin.
        assert (Hreds : forall b, ev_reds (evs ++ [(start_prod g, eof g)]) b = ev_reds evs b).
        { intros b. rewrite ev_reds_snoc. simpl snd. rewrite Ee. rewrite andb_false_r. apply app_nil_r. }
        constructor; cbn [t_cells t_rr t_sr t_sa t_fin t_gotos set_cells set_rr set_sa set_fin set_sr set_gotos].
        -- intros b. unfold cell_of, upd. rewrite ev_acc_snoc, Hreds. simpl snd. rewrite Ee, andb_true_r.
           destruct (N.eqb_spec b (eof g)) as [E|E].
           ++ subst b. rewrite N.eqb_refl. rewrite orb_true_r. reflexivity.
           ++ destruct (N.eqb_spec (eof g) b) as [E'|E']; [congruence|]. rewrite orb_false_r.
              rewrite (Hcells b). reflexivity.
        -- intros b Hb. rewrite Hreds. rewrite ev_acc_snoc in Hb. simpl snd in Hb. rewrite Ee, andb_true_r in Hb.
           apply orb_true_iff in Hb. destruct Hb as [Hb|Hb]; [apply Hnoar; exact Hb|].
           apply N.eqb_eq in Hb. subst b. exact Emin.
        -- exists rr. split; [exact Hrr|]. split.
           ++ exact (rr_inv_mono evs _ rr Hrrinv).
           ++ intros b. rewrite Hreds. apply (proj2 Hrrinv).
        -- exact Hsr.
        -- exact Hgotos.
        -- intros b. rewrite map_app, !in_app_iff. simpl. rewrite (Hsa b). tauto.
        -- rewrite ev_acc_snoc. simpl snd. rewrite N.eqb_refl, Ee. rewrite orb_true_r. reflexivity.
      * (* first reduction of the cell *)
        assert (Hreds : forall b, ev_reds (evs ++ [(p, a)]) b = ev_reds evs b ++ (if N.eqb a b then [p] else [])).
        { intros b. rewrite ev_reds_snoc. simpl. rewrite Ee. rewrite andb_true_r. reflexivity. }
        assert (Haccs : forall b, ev_acc (evs ++ [(p, a)]) b = ev_acc evs b).
        { intros b. rewrite ev_acc_snoc. simpl. rewrite Ee. rewrite andb_false_r. apply orb_false_r. }
        constructor; cbn [t_cells t_rr t_sr t_sa t_fin t_gotos set_cells set_rr set_sa set_fin set_sr set_gotos].
        -- intros b. unfold cell_of, upd. rewrite Haccs, Hreds. destruct (N.eqb_spec b a) as [E|E].
           ++ subst b. rewrite Eacc, N.eqb_refl, Emin. reflexivity.
           ++ destruct (N.eqb_spec a b) as [E'|E']; [congruence|]. rewrite app_nil_r.
              rewrite (Hcells b). reflexivity.
        -- intros b Hb. rewrite Haccs in Hb. rewrite Hreds. destruct (N.eqb_spec a b) as [E|E].
           ++ subst b. congruence.
           ++ rewrite app_nil_r. apply Hnoar. exact Hb.
        -- exists rr. split; [exact Hrr|]. split.
           ++ exact (rr_inv_mono evs _ rr Hrrinv).
           ++ intros b. rewrite Hreds. destruct (N.eqb_spec a b) as [E|E].
              ** subst b. rewrite Emin. simpl. unfold losers. simpl. rewrite N.eqb_refl. simpl.
                 pose proof (proj2 Hrrinv a) as Hp. rewrite Emin in Hp. exact Hp.
              ** rewrite app_nil_r. apply (proj2 Hrrinv).
        -- exact Hsr.
        -- exact Hgotos.
        -- intros b. rewrite map_app, !in_app_iff. simpl. rewrite (Hsa b). tauto.
        -- rewrite Haccs. exact Hfinv.
Qed.

Lemma events_loop rest : forall evs st,
  NoDup (evs ++ rest) ->
  (fin0 = None \/ forall e', In e' (evs ++ rest) -> e_acc e' = false) ->
  Inv evs st ->
  match mfold (fun e => item_tok g s (fst e) (snd e)) rest st with
  | Done (Some st') => Inv (evs ++ rest) st'
  | Done None => exists a, ev_acc (evs ++ rest) a = true /\ ev_reds (evs ++ rest) a <> []
  | _ => False
  end.
Proof.
  induction rest as [|e rest IH]; intros evs st Hnd Hfin HI.
  - simpl. rewrite app_nil_r. exact HI.
  - simpl. assert (Eapp : evs ++ e :: rest = (evs ++ [e]) ++ rest) by (rewrite <- app_assoc; reflexivity).
    rewrite Eapp in Hnd, Hfin.
    assert (Hnd1 : NoDup (evs ++ [e])) by (eapply NoDup_app_l; exact Hnd).
    assert (Hfin1 : fin0 = None \/ forall e', In e' (evs ++ [e]) -> e_acc e' = false).
    { destruct Hfin as [H|H]; [left; exact H | right]. intros e' He'. apply H. apply in_or_app. left. exact He'. }
    pose proof (item_tok_step evs e st Hnd1 Hfin1 HI) as Hstep.
    destruct (item_tok g s (fst e) (snd e) st) as [[st'|]| |]; try contradiction.
    + specialize (IH (evs ++ [e]) st' Hnd Hfin Hstep). rewrite Eapp. exact IH.
    + destruct Hstep as [Ha Hr]. exists (snd e). rewrite Eapp. split.
      * rewrite ev_acc_app, Ha. reflexivity.
      * rewrite ev_reds_app. intros H. apply app_eq_nil in H. exact (Hr (proj1 H)).
Qed.

End ItemLoop.
