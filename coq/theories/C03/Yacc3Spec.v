(* C03 — statements about [cell_yacc] (byacc's order of the pairwise rules) and
   its relation to [cell_spec] (the order of StateTable::new). *)
From Coq Require Import List Arith NArith Bool Lia Permutation.
From GV Require Import Common.Outcome Base.Grammar Base.Analyses LR.Automaton LR.Validator
  C03.Model C03.Spec C03.Yacc3.
Import ListNotations.

(* what the property demands of the reported reduce/reduce pairs of ONE cell
   (the per-cell content of [rr_ok]): pairs (x, y), x declared before y, both
   candidates; every losing candidate exactly once as second component *)
Definition rr_cell_ok (cands : list N) (rr : list (N * N)) : Prop :=
  (forall x y, In (x, y) rr -> (x < y)%N /\ In x cands /\ In y cands) /\
  Permutation (map snd rr) (losers cands) /\
  length rr = pred (length cands).

Definition rr_pairs_of (a : N) (rr : list rrrec) : list (N * N) :=
  map (fun r => (rr_x r, rr_y r)) (rr_of_tok a rr).

(* [rr_ok] (what the theorems about the mirror establish) is [rr_cell_ok] cell by cell *)
Definition rr_ok_cellwise_stmt : Prop :=
  forall g s items rr a, rr_ok g s items rr -> rr_cell_ok (red_cands g items a) (rr_pairs_of a rr).

(* for two candidates the demand determines the pair *)
Definition rr_cell_ok_two_unique_stmt : Prop :=
  forall cands r1 r2, length cands = 2%nat -> NoDup cands ->
    rr_cell_ok cands r1 -> rr_cell_ok cands r2 -> r1 = r2.

(* ---- agreement wherever the pairwise wording is unambiguous ------------------------ *)

(* a cell that does not offer BOTH a shift and two or more reductions: Yacc's
   entry is [cell_spec]'s, the reported shift/reduce pairs are [sr_spec]'s,
   the reported reduce/reduce pairs satisfy the same per-cell demand *)
Definition yacc_agrees_outside_three_way_stmt : Prop :=
  forall g tp pp s items edges a,
    wf_state g items edges -> three_way_b g items edges a = false ->
    let y := cell_yacc g tp pp items edges a in
    yact y = cell_spec g tp pp items edges a /\
    ysr y = sr_cell_spec g tp pp items edges a /\
    (forall p, In p (ysr y) <-> In (a, p, s) (sr_spec g tp pp s items edges)) /\
    rr_cell_ok (red_cands g items a) (yrr y).

(* [sr_cell_spec] is the cell's part of [sr_spec] *)
Definition sr_cell_spec_is_sr_spec_stmt : Prop :=
  forall g tp pp s items edges a p,
    wf_state g items edges ->
    (In p (sr_cell_spec g tp pp items edges a) <-> In (a, p, s) (sr_spec g tp pp s items edges)).

(* hence: a cell on which the two disagree (decidably: [yacc_agrees_b]) is a
   three-way cell — the class of the known finding is inside the three-way cells *)
Definition yacc_disagreement_is_three_way_stmt : Prop :=
  forall g tp pp items edges a,
    wf_state g items edges ->
    yacc_agrees_b g tp pp items edges a = false -> three_way_b g items edges a = true.

(* ---- what the mirror of StateTable::new leaves in ONE cell -------------------------- *)

(* per-cell corollary of [state_mirror_meets_spec], every iteration order *)
Definition mirror_cell_stmt : Prop :=
  forall g tp pp s items edges io eo rr0 sr0 a,
    wf_state g items edges -> prec_consistent tp pp ->
    Permutation io items -> Permutation eo edges ->
    match state_mirror g tp pp s io eo (init_tstate rr0 sr0 None) with
    | Done (Some st) =>
        t_cells st a = cell_spec g tp pp items edges a /\
        (exists sr, t_sr st = sr0 ++ sr /\
                    forall p, In (a, p, s) sr <-> In p (sr_cell_spec g tp pp items edges a)) /\
        (exists rr, t_rr st = rr0 ++ rr /\ rr_cell_ok (red_cands g items a) (rr_pairs_of a rr))
    | Done None => exists b, accept_reduce_cell g items b
    | Panic => False
    | OutOfFuel => False
    end.

(* ---- three-way cells: the two orders differ ------------------------------------------- *)

(* a three-way cell on which byacc's order gives [yexp] while the mirror of
   StateTable::new — for EVERY iteration order of items and edges — leaves
   entry [mact], reports the shift/reduce pairs (a, p), p in [msr], and the
   reduce/reduce pairs [mrr] for the cell *)
Definition three_way_witness (yexp : yres) (mact : act) (msr : list N) (mrr : list (N * N)) : Prop :=
  exists g tp pp s items edges a,
    wf_state g items edges /\ prec_consistent tp pp /\
    three_way_b g items edges a = true /\
    cell_yacc g tp pp items edges a = yexp /\
    yexp <> (mact, msr, mrr) /\
    forall io eo rr0 sr0, Permutation io items -> Permutation eo edges ->
      match state_mirror g tp pp s io eo (init_tstate rr0 sr0 None) with
      | Done (Some st) =>
          t_cells st a = mact /\
          (exists sr, t_sr st = sr0 ++ sr /\ forall p, In (a, p, s) sr <-> In p msr) /\
          (exists rr, t_rr st = rr0 ++ rr /\ rr_pairs_of a rr = mrr)
      | _ => False
      end.

(* (a) %nonassoc LOW %left '+'   S: E | L '+' 'n';  L: E '+' E %prec LOW;  E: E '+' E | 'n';
   state after E '+' E, lookahead '+': Yacc reduces E: E '+' E (production 3)
   and reports nothing; StateTable::new shifts and reports the reduce/reduce
   pair (L: E '+' E, E: E '+' E) = (2, 3) *)
Definition three_way_left_refuted_stmt : Prop :=
  three_way_witness (Reduce 3, [], []) (Shift 9) [] [(2, 3)%N].

(* (b) the same with %nonassoc '<': Yacc's entry is the error entry *)
Definition three_way_nonassoc_refuted_stmt : Prop :=
  three_way_witness (Err, [], []) (Shift 9) [] [(2, 3)%N].

(* (c) L: E 'x' E %prec LOW;  E: E 'x' E | E '+' E | 'n';  state after E 'x' E,
   lookahead '+': both shift, but Yacc reports the shift/reduce pair
   ('+', E: E 'x' E) settled by the default rule and no reduce/reduce pair;
   StateTable::new reports the reduce/reduce pair (2, 3) and no shift/reduce pair *)
Definition three_way_report_refuted_stmt : Prop :=
  three_way_witness (Shift 5, [3%N], []) (Shift 5) [] [(2, 3)%N].

(* ---- bison's order -------------------------------------------------------------------------- *)

(* outside three-way cells bison's order gives what byacc's gives (hence what [cell_spec] gives) *)
Definition bison_eq_yacc_outside_three_way_stmt : Prop :=
  forall tp pp a sh reds, (sh = None \/ (length reds <= 1)%nat) ->
    bison_resolve tp pp a sh reds = yacc_resolve tp pp a sh reds.

Definition cell_bison_eq_yacc_outside_three_way_stmt : Prop :=
  forall g tp pp items edges a, three_way_b g items edges a = false ->
    cell_bison g tp pp items edges a = cell_yacc g tp pp items edges a.

(* on three-way cells byacc and bison are themselves not always of one mind:
   the entry can differ … *)
Definition bison_yacc_differ_stmt : Prop :=
  exists tp pp a sh reds, yact (bison_resolve tp pp a sh reds) <> yact (yacc_resolve tp pp a sh reds).

(* … and so can the count: a shift and two reductions, no precedence anywhere:
   byacc counts two shift/reduce conflicts, bison one shift/reduce and one
   reduce/reduce conflict *)
Definition bison_yacc_count_differ_stmt : Prop :=
  exists tp pp a tgt p q,
    yacc_resolve tp pp a (Some tgt) [p; q] = (Shift tgt, [p; q], []) /\
    bison_resolve tp pp a (Some tgt) [p; q] = (Shift tgt, [p], [(p, q)]).

(* a cell whose token has no precedence: bison's order is [cell_spec]'s (the
   order of StateTable::new), three-way or not — such cells are outside the
   finding under bison's reading *)
Definition bison_agrees_without_token_prec_stmt : Prop :=
  forall g tp pp items edges a,
    wf_state g items edges -> tp a = None ->
    let y := cell_bison g tp pp items edges a in
    yact y = cell_spec g tp pp items edges a /\
    ysr y = sr_cell_spec g tp pp items edges a /\
    rr_cell_ok (red_cands g items a) (yrr y).
