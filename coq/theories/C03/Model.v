(* C03 — executable definitions.

   (1) MIRROR of the first half of lrtable's StateTable::new (statetable.rs
       216-315) and of resolve_shift_reduce (559-615): per state, the items of
       the closed state are visited in a given order (hash-map order = explicit
       list parameter), every complete item writes / overwrites the cells of
       its lookahead tokens and pushes reduce/reduce records; then the edges
       are visited (again in a given order), rule edges fill the goto row,
       token edges resolve shift/reduce.  Every panic!/assert! is [Panic],
       Err(AcceptReduceConflict) is [Done None].  (After the loop over the
       states the code sorts the shift/reduce vector by (state, token,
       production); the mirror stops before that: only the SET of records is
       claimed — [Permutation] in the theorems.)
   (2) the DECLARATIVE cell specification ([cell_spec], [sr_spec]) — executable
       so that the correspondence run can evaluate it on the implementation's
       own item sets.
   (3) precedences from declarations (parser.rs 590-632, grammar.rs 327-342).
   (4) the %expect rule (ctbuilder.rs 905-929): what is demanded and what the
       code does.
   Definitions only. *)
From Coq Require Import List Arith NArith Bool Lia.
From GV Require Import Common.Outcome Base.Grammar Base.Analyses LR.Automaton.
Import ListNotations.

(* ---- precedences --------------------------------------------------------- *)

Inductive assoc := ALeft | ARight | ANonassoc.
Definition assoc_eqb (a b : assoc) : bool :=
  match a, b with
  | ALeft, ALeft | ARight, ARight | ANonassoc, ANonassoc => true
  | _, _ => false
  end.
Record prec := mkPrec { p_level : N; p_kind : assoc }.
(* YaccGrammar::token_precedence / prod_precedence *)
Definition precs := N -> option prec.

(* ---- the table under construction ---------------------------------------- *)

Definition rrrec := (N * N * N * N)%type.   (* (tidx, kept pidx, losing pidx, stidx) *)
Definition srrec := (N * N * N)%type.       (* (tidx, pidx, stidx) *)
Definition rr_tok (r : rrrec) : N := fst (fst (fst r)).
Definition rr_x (r : rrrec) : N := snd (fst (fst r)).
Definition rr_y (r : rrrec) : N := snd (fst r).
Definition rr_st (r : rrrec) : N := snd r.

Definition cells := N -> act.
Definition upd (c : cells) (a : N) (v : act) : cells := fun x => if N.eqb x a then v else c x.

Record tstate := mkT {
  t_cells : cells;              (* actions[stidx * tokens_len + _] of the state being filled *)
  t_rr : list rrrec;            (* reduce_reduce (shared by all states) *)
  t_sr : list srrec;            (* shift_reduce (shared by all states) *)
  t_sa : list N;                (* state_actions bits set for this state, in the order they are set *)
  t_fin : option N;             (* final_state *)
  t_gotos : list (N * N)        (* goto row of this state *)
}.
Definition set_cells st c := mkT c (t_rr st) (t_sr st) (t_sa st) (t_fin st) (t_gotos st).
Definition set_rr st x := mkT (t_cells st) x (t_sr st) (t_sa st) (t_fin st) (t_gotos st).
Definition set_sr st x := mkT (t_cells st) (t_rr st) x (t_sa st) (t_fin st) (t_gotos st).
Definition set_sa st x := mkT (t_cells st) (t_rr st) (t_sr st) x (t_fin st) (t_gotos st).
Definition set_fin st x := mkT (t_cells st) (t_rr st) (t_sr st) (t_sa st) x (t_gotos st).
Definition set_gotos st x := mkT (t_cells st) (t_rr st) (t_sr st) (t_sa st) (t_fin st) x.

(* a fresh state row; the conflict vectors and final_state are carried over *)
Definition init_tstate (rr : list rrrec) (sr : list srrec) (fin : option N) : tstate :=
  mkT (fun _ => Err) rr sr [] fin [].

(* result of a construction step: [Done (Some st)] = go on, [Done None] =
   return Err(AcceptReduceConflict), [Panic] = panic!/assert! *)
Definition tres := outcome (option tstate).

Fixpoint mfold {A : Type} (f : A -> tstate -> tres) (l : list A) (st : tstate) : tres :=
  match l with
  | [] => Done (Some st)
  | x :: l' => match f x st with
               | Done (Some st') => mfold f l' st'
               | r => r
               end
  end.

(* statetable.rs 227-276: one lookahead token [a] of the complete item of
   production [p] in state [s] *)
Definition item_tok (g : grammar) (s p a : N) (st0 : tstate) : tres :=
  let st := set_sa st0 (t_sa st0 ++ [a]) in                      (* :235 state_actions.set(off, true) *)
  let is_acc := N.eqb p (start_prod g) && N.eqb a (eof g) in
  match t_cells st a with
  | Reduce r =>
      if is_acc then Done None                                      (* :238 AcceptReduceConflict(Some r) *)
      else match N.compare p r with
           | Lt => Done (Some (set_cells (set_rr st (t_rr st ++ [(a, p, r, s)]))
                                         (upd (t_cells st) a (Reduce p))))
           | Gt => Done (Some (set_rr st (t_rr st ++ [(a, r, p, s)])))
           | Eq => Done (Some st)
           end
  | Accept => Done None                                             (* :258 AcceptReduceConflict(None) *)
  | Err =>
      if is_acc then
        match t_fin st with
        | Some _ => Panic                                           (* :267 assert!(final_state.is_none()) *)
        | None => Done (Some (set_fin (set_cells st (upd (t_cells st) a Accept)) (Some s)))
        end
      else Done (Some (set_cells st (upd (t_cells st) a (Reduce p))))
  | Shift _ => Panic                                                (* :274 panic!("Internal error") *)
  end.

(* :223-277 — `if dot < grm.prod_len(pidx) { continue; }`, then the set bits
   of the lookahead in increasing order (the dump lists them so) *)
Definition item_step (g : grammar) (s : N) (i : item) (st : tstate) : tres :=
  if (it_d i <? length (rhs g (it_p i)))%nat then Done (Some st)
  else mfold (item_tok g s (it_p i)) (it_la i) st.

Definition item_loop (g : grammar) (s : N) (io : list item) (st : tstate) : tres :=
  mfold (item_step g s) io st.

(* resolve_shift_reduce, :559-615 *)
Definition resolve (tp pp : precs) (s a p tgt : N) (st : tstate) : tres :=
  let shift := set_cells st (upd (t_cells st) a (Shift tgt)) in
  match tp a, pp p with
  | Some tpr, Some ppr =>
      match N.compare (p_level tpr) (p_level ppr) with
      | Eq => match p_kind tpr, p_kind ppr with
              | ALeft, ALeft => Done (Some st)
              | ARight, ARight => Done (Some shift)
              | ANonassoc, ANonassoc => Done (Some (set_cells st (upd (t_cells st) a Err)))
              | _, _ => Panic                                       (* :600 panic!("Not supported.") *)
              end
      | Gt => Done (Some shift)
      | Lt => Done (Some st)
      end
  | _, _ => Done (Some (set_sr shift (t_sr st ++ [(a, p, s)])))
  end.

(* :280-314 *)
Definition edge_step (tp pp : precs) (s : N) (e : sym * N) (st0 : tstate) : tres :=
  let tgt := snd e in
  match fst e with
  | R r =>
      match assocN r (t_gotos st0) with
      | Some _ => Panic                                             (* :285 debug_assert!(gotos[off] == 0) *)
      | None => Done (Some (set_gotos st0 (t_gotos st0 ++ [(r, tgt)])))
      end
  | T a =>
      let st := set_sa st0 (t_sa st0 ++ [a]) in                    (* :292 *)
      match t_cells st a with
      | Shift x => if N.eqb tgt x then Done (Some st) else Panic    (* :294 assert! *)
      | Reduce p => resolve tp pp s a p tgt st
      | Accept => Panic                                             (* :307 *)
      | Err => Done (Some (set_cells st (upd (t_cells st) a (Shift tgt))))
      end
  end.

Definition edge_loop (tp pp : precs) (s : N) (eo : list (sym * N)) (st : tstate) : tres :=
  mfold (edge_step tp pp s) eo st.

(* one iteration of the loop over states: [io] = iteration order of
   state.items, [eo] = iteration order of sg.edges(stidx) *)
Definition state_mirror (g : grammar) (tp pp : precs) (s : N)
  (io : list item) (eo : list (sym * N)) (st : tstate) : tres :=
  match item_loop g s io st with
  | Done (Some st') => edge_loop tp pp s eo st'
  | r => r
  end.

(* the whole first half: states 0,1,2,… in order *)
Record trow := mkRow { row_cells : cells; row_sa : list N; row_gotos : list (N * N) }.
Record ttable := mkTable { tb_rows : list trow; tb_rr : list rrrec; tb_sr : list srrec; tb_fin : N }.

Fixpoint states_loop (g : grammar) (tp pp : precs) (s : nat) (sts : list (list item * list (sym * N)))
  (rows : list trow) (rr : list rrrec) (sr : list srrec) (fin : option N)
  : outcome (option (list trow * list rrrec * list srrec * option N)) :=
  match sts with
  | [] => Done (Some (rows, rr, sr, fin))
  | (io, eo) :: sts' =>
      match state_mirror g tp pp (N.of_nat s) io eo (init_tstate rr sr fin) with
      | Done (Some st) =>
          states_loop g tp pp (S s) sts' (rows ++ [mkRow (t_cells st) (t_sa st) (t_gotos st)])
                      (t_rr st) (t_sr st) (t_fin st)
      | Done None => Done None
      | Panic => Panic
      | OutOfFuel => OutOfFuel
      end
  end.

Definition table_mirror (g : grammar) (tp pp : precs) (sts : list (list item * list (sym * N)))
  : outcome (option ttable) :=
  match states_loop g tp pp 0 sts [] [] [] None with
  | Done (Some (rows, rr, sr, Some f)) => Done (Some (mkTable rows rr sr f))
  | Done (Some (_, _, _, None)) => Panic                            (* :316 assert!(final_state.is_some()) *)
  | Done None => Done None
  | Panic => Panic
  | OutOfFuel => OutOfFuel
  end.

Definition tb_cell (t : ttable) (s : nat) (a : N) : act :=
  match nth_error (tb_rows t) s with Some r => row_cells r a | None => Err end.

(* ---- the declarative cell specification ----------------------------------- *)

Definition complete (g : grammar) (i : item) : bool :=
  Nat.eqb (it_d i) (length (rhs g (it_p i))).
(* the advanced start item on end of input is the accept candidate, not a reduction *)
Definition is_acc (g : grammar) (p a : N) : bool := N.eqb p (start_prod g) && N.eqb a (eof g).

(* reduction candidates of the cell for token a: the productions of the
   complete items whose lookahead contains a *)
Definition red_cands (g : grammar) (items : list item) (a : N) : list N :=
  map it_p (filter (fun i => complete g i && memN a (it_la i) && negb (is_acc g (it_p i) a)) items).
Definition acc_cand (g : grammar) (items : list item) (a : N) : bool :=
  existsb (fun i => complete g i && memN a (it_la i) && is_acc g (it_p i) a) items.

Definition min_list (l : list N) : option N :=
  fold_left (fun acc p => match acc with None => Some p | Some m => Some (N.min m p) end) l None.

(* the production declared earliest among the candidates *)
Definition winner (g : grammar) (items : list item) (a : N) : option N := min_list (red_cands g items a).

(* Yacc's shift/reduce rule for token a against production p (shift target
   tgt); the flag says "settled by the default rule, hence reported" *)
Definition decide (tp pp : precs) (a p tgt : N) : act * bool :=
  match tp a, pp p with
  | Some t, Some q =>
      if (p_level q <? p_level t)%N then (Shift tgt, false)          (* token binds tighter *)
      else if (p_level t <? p_level q)%N then (Reduce p, false)      (* production binds tighter *)
      else match p_kind t with
           | ALeft => (Reduce p, false)
           | ARight => (Shift tgt, false)
           | ANonassoc => (Err, false)
           end
  | _, _ => (Shift tgt, true)
  end.

Definition cell_spec (g : grammar) (tp pp : precs) (items : list item) (edges : list (sym * N)) (a : N) : act :=
  if acc_cand g items a then Accept
  else match assoc_sym (T a) edges, winner g items a with
       | None, None => Err
       | None, Some p => Reduce p
       | Some tgt, None => Shift tgt
       | Some tgt, Some p => fst (decide tp pp a p tgt)
       end.

(* the reported shift/reduce conflicts of a state *)
Definition sr_spec (g : grammar) (tp pp : precs) (s : N) (items : list item) (edges : list (sym * N)) : list srrec :=
  flat_map (fun e => match fst e with
                     | T a => match winner g items a with
                              | Some p => if snd (decide tp pp a p (snd e)) then [(a, p, s)] else []
                              | None => []
                              end
                     | R _ => []
                     end) edges.

(* number of reported reduce/reduce pairs of a cell: k candidates give k-1 *)
Definition rr_count_spec (g : grammar) (items : list item) (a : N) : nat := pred (length (red_cands g items a)).

(* a cell offering accept and a reduction makes construction fail *)
Definition accept_reduce_b (g : grammar) (items : list item) (a : N) : bool :=
  acc_cand g items a && negb (match red_cands g items a with [] => true | _ => false end).

(* does the automaton offer anything at all for the cell *)
Definition has_candidate (g : grammar) (items : list item) (edges : list (sym * N)) (a : N) : bool :=
  acc_cand g items a || negb (match red_cands g items a with [] => true | _ => false end) ||
  match assoc_sym (T a) edges with Some _ => true | None => false end.

(* ---- boolean forms of the theorems' side conditions (evaluated on every dump) ---- *)

Fixpoint nodupb {A : Type} (eqb : A -> A -> bool) (l : list A) : bool :=
  match l with
  | [] => true
  | x :: l' => negb (existsb (eqb x) l') && nodupb eqb l'
  end.
Definition key_eqb (x y : N * nat) : bool := N.eqb (fst x) (fst y) && Nat.eqb (snd x) (snd y).

Definition wf_state_b (g : grammar) (items : list item) (edges : list (sym * N)) : bool :=
  nodupb key_eqb (map (fun i => (it_p i, it_d i)) items) &&
  forallb (fun i => (it_d i <=? length (rhs g (it_p i)))%nat && nodupb N.eqb (it_la i)) items &&
  nodupb sym_eqb (map fst edges) &&
  negb (existsb (sym_eqb (T (eof g))) (map fst edges)).

(* precedences given as association lists (the TP / PP sections of a dump) *)
Definition precs_of (l : list (N * prec)) : precs := fun a => assocN a l.
Definition prec_consistent_b (tl pl : list (N * prec)) : bool :=
  forallb (fun x => forallb (fun y => negb (N.eqb (p_level (snd x)) (p_level (snd y))) ||
                                      assoc_eqb (p_kind (snd x)) (p_kind (snd y))) pl) tl.

(* ---- precedences from declarations ----------------------------------------- *)

(* one %left / %right / %nonassoc line: kind and tokens *)
Definition decl := (assoc * list N)%type.

(* MIRROR of parser.rs 590-632: lines in order, a level counter incremented
   after every line, tokens entered into a map unless already present (that
   case records a DuplicatePrecedence error: second component) *)
Fixpoint decl_line (kind : assoc) (lvl : N) (toks : list N) (m : list (N * prec)) (dups : list N)
  : list (N * prec) * list N :=
  match toks with
  | [] => (m, dups)
  | t :: toks' =>
      match assocN t m with
      | Some _ => decl_line kind lvl toks' m (dups ++ [t])
      | None => decl_line kind lvl toks' (m ++ [(t, mkPrec lvl kind)]) dups
      end
  end.
Fixpoint decl_lines (ds : list decl) (lvl : N) (m : list (N * prec)) (dups : list N)
  : list (N * prec) * list N :=
  match ds with
  | [] => (m, dups)
  | (k, toks) :: ds' => let '(m', dups') := decl_line k lvl toks m dups in
                        decl_lines ds' (lvl + 1)%N m' dups'
  end.
Definition token_prec_mirror (ds : list decl) : precs :=
  fun t => assocN t (fst (decl_lines ds 0%N [] [])).
Definition decl_dups (ds : list decl) : list N := snd (decl_lines ds 0%N [] []).

(* SPEC: the level of a token is the index of the line declaring it *)
Fixpoint token_prec_spec_from (ds : list decl) (lvl : N) (t : N) : option prec :=
  match ds with
  | [] => None
  | (k, toks) :: ds' => if memN t toks then Some (mkPrec lvl k) else token_prec_spec_from ds' (lvl + 1)%N t
  end.
Definition token_prec_spec (ds : list decl) : precs := token_prec_spec_from ds 0%N.

(* MIRROR of grammar.rs 327-342: %prec token if given (ast.precs[n]: a panic if
   undeclared — ruled out by the AST validation), else scan the symbols from
   the right, stop at the first token *)
Fixpoint last_token_scan (rsyms : list sym) : option N :=
  match rsyms with
  | [] => None
  | T t :: _ => Some t
  | R _ :: l => last_token_scan l
  end.
Definition prod_prec_mirror (tp : precs) (precname : option N) (syms : list sym) : outcome (option prec) :=
  match precname with
  | Some n => match tp n with Some p => Done (Some p) | None => Panic end
  | None => match last_token_scan (rev syms) with
            | Some t => Done (tp t)
            | None => Done None
            end
  end.

(* SPEC: the production's precedence is that of its %prec token, else of its
   last token, else none *)
Definition is_last_token (syms : list sym) (t : N) : Prop :=
  exists u v, syms = u ++ T t :: v /\ forall x, In x v -> exists r, x = R r.
Definition prod_prec_spec (tp : precs) (precname : option N) (syms : list sym) (r : option prec) : Prop :=
  match precname with
  | Some n => r = tp n
  | None => (exists t, is_last_token syms t /\ r = tp t) \/
            ((forall x, In x syms -> exists q, x = R q) /\ r = None)
  end.
(* ---- %expect ----------------------------------------------------------------- *)

Definition default0 (o : option nat) : nat := match o with Some n => n | None => 0%nat end.

(* the property: the build goes through iff the counts equal the declared ones *)
Definition build_ok_spec (expect expectrr : option nat) (sr rr : nat) : bool :=
  Nat.eqb sr (default0 expect) && Nat.eqb rr (default0 expectrr).

(* MIRROR of ctbuilder.rs 905-929: the comparison is only made when
   StateTable::conflicts() is Some, i.e. when at least one conflict exists *)
Definition build_ok_mirror (expect expectrr : option nat) (sr rr : nat) : bool :=
  if Nat.eqb sr 0 && Nat.eqb rr 0 then true
  else match expect, expectrr with
       | Some i, Some j => Nat.eqb i sr && Nat.eqb j rr
       | Some i, None => Nat.eqb i sr && Nat.eqb 0 rr
       | None, Some j => Nat.eqb 0 sr && Nat.eqb j rr
       | None, None => Nat.eqb 0 rr && Nat.eqb 0 sr
       end.
