(* C03 — proofs of the statements of Yacc3Spec.v. *)
From Coq Require Import List Arith NArith Bool Lia Permutation Sorted.
From GV Require Import Common.Outcome Base.Grammar Base.Analyses Base.GrammarFacts Base.AnalysesProofs
  LR.Automaton LR.Validator C03.Model C03.Spec C03.Lists C03.ItemLoop C03.EdgeLoop C03.Proofs
  C03.Yacc3 C03.Yacc3Spec.
Import ListNotations.

(* ---- insertion sort ------------------------------------------------------------------ *)

Lemma insertN_perm x l : Permutation (insertN x l) (x :: l).
Proof.
  induction l as [|y l IH]; simpl; [constructor; constructor|].
  destruct (x <=? y)%N; [apply Permutation_refl|].
  eapply Permutation_trans; [apply perm_skip; exact IH | apply perm_swap].
Qed.

Lemma isort_perm l : Permutation (isort l) l.
Proof.
  induction l as [|x l IH]; simpl; [constructor|].
  eapply Permutation_trans; [apply insertN_perm | apply perm_skip; exact IH].
Qed.

Lemma insertN_sorted x l : StronglySorted N.le l -> StronglySorted N.le (insertN x l).
Proof.
  induction l as [|y l IH]; intros Hs; simpl.
  - constructor; constructor.
  - inversion Hs as [|? ? Hs' Hall]; subst. destruct (N.leb_spec x y) as [L|L].
    + constructor; [exact Hs|]. constructor; [exact L|].
      eapply Forall_impl; [|exact Hall]. intros z Hz. simpl in Hz. lia.
    + constructor; [apply IH; exact Hs'|].
      apply Forall_forall. intros z Hz.
      apply (Permutation_in _ (insertN_perm x l)) in Hz. destruct Hz as [Hz|Hz].
      * subst z. lia.
      * rewrite Forall_forall in Hall. apply Hall. exact Hz.
Qed.

Lemma isort_sorted l : StronglySorted N.le (isort l).
Proof. induction l as [|x l IH]; simpl; [constructor | apply insertN_sorted; exact IH]. Qed.

Lemma isort_short l : (length l <= 1)%nat -> isort l = l.
Proof. destruct l as [|x [|y l]]; simpl; intros H; try reflexivity. lia. Qed.

(* the head of the sorted list is the minimum *)
Lemma isort_head l m rest : isort l = m :: rest -> min_list l = Some m.
Proof.
  intros E. apply min_list_spec. split.
  - apply (Permutation_in _ (isort_perm l)). rewrite E. left. reflexivity.
  - intros q Hq. apply (Permutation_in _ (Permutation_sym (isort_perm l))) in Hq.
    pose proof (isort_sorted l) as Hs. rewrite E in Hs, Hq.
    inversion Hs as [|? ? _ Hall]; subst. destruct Hq as [Hq|Hq]; [subst q; lia|].
    rewrite Forall_forall in Hall. apply Hall. exact Hq.
Qed.

Lemma isort_nil l : isort l = [] -> l = [].
Proof.
  intros E. pose proof (isort_perm l) as Hp. rewrite E in Hp.
  apply Permutation_nil in Hp. exact Hp.
Qed.

(* ---- byacc's fold ---------------------------------------------------------------------------- *)

Lemma yfold_red tp pp a p rest : forall sr rr,
  yfold tp pp a (YRed p, sr, rr) rest = (YRed p, sr, rr ++ map (pair p) rest).
Proof.
  unfold yfold. induction rest as [|q rest IH]; intros sr rr.
  - simpl. rewrite app_nil_r. reflexivity.
  - change (fold_left (ystep tp pp a) (q :: rest) (YRed p, sr, rr))
      with (fold_left (ystep tp pp a) rest (YRed p, sr, rr ++ [(p, q)])).
    rewrite IH. rewrite <- app_assoc. reflexivity.
Qed.

Lemma yacc_resolve_noshift tp pp a reds :
  yacc_resolve tp pp a None reds =
  match reds with [] => (Err, [], []) | p :: rest => (Reduce p, [], map (pair p) rest) end.
Proof.
  destruct reds as [|p rest]; [reflexivity|]. unfold yacc_resolve. rewrite yfold_red. reflexivity.
Qed.

(* shift against at most one reduction: the pairwise rule, [decide] *)
Lemma yacc_resolve_short tp pp a tgt reds : (length reds <= 1)%nat ->
  yacc_resolve tp pp a (Some tgt) reds =
  (match min_list reds with None => Shift tgt | Some p => fst (decide tp pp a p tgt) end,
   match min_list reds with Some p => if snd (decide tp pp a p tgt) then [p] else [] | None => [] end,
   []).
Proof.
  destruct reds as [|p [|q reds]]; simpl; intros H; [reflexivity| |lia].
  unfold decide. destruct (tp a) as [t|]; [|reflexivity]. destruct (pp p) as [q|]; [|reflexivity].
  destruct (N.ltb_spec (p_level t) (p_level q)) as [L1|L1];
    destruct (N.ltb_spec (p_level q) (p_level t)) as [L2|L2]; try reflexivity; try lia.
  destruct (p_kind t); reflexivity.
Qed.

(* ---- per-cell demand on reduce/reduce pairs ------------------------------------------------ *)

Lemma rr_ok_cellwise : rr_ok_cellwise_stmt.
Proof.
  intros g s items rr a (H1 & H2 & H3). unfold rr_cell_ok, rr_pairs_of. split; [|split].
  - intros x y Hin. apply in_map_iff in Hin. destruct Hin as (r & Er & Hr).
    inversion Er; subst x y. unfold rr_of_tok in Hr. apply filter_In in Hr. destruct Hr as [Hr Ht].
    apply N.eqb_eq in Ht. destruct (H1 r Hr) as (_ & Hlt & Hx & Hy). rewrite Ht in Hx, Hy. tauto.
  - rewrite map_map. simpl. exact (H2 a).
  - rewrite map_length. rewrite (H3 a). reflexivity.
Qed.

Lemma losers_two p q : p <> q -> losers [p; q] = [N.max p q].
Proof.
  intros Hne. unfold losers, min_list. simpl.
  destruct (N.min_spec p q) as [[L E]|[L E]]; rewrite E; simpl.
  - rewrite N.eqb_refl. simpl. destruct (N.eqb_spec q p) as [E'|E']; [lia|]. simpl. f_equal. lia.
  - destruct (N.eqb_spec p q) as [E'|E']; [lia|]. rewrite N.eqb_refl. simpl. f_equal. lia.
Qed.

Lemma rr_cell_ok_two p q r : p <> q -> rr_cell_ok [p; q] r -> r = [(N.min p q, N.max p q)].
Proof.
  intros Hne (H1 & H2 & H3). simpl in H3.
  destruct r as [|[x y] [|z r]]; simpl in H3; try discriminate.
  rewrite (losers_two p q Hne) in H2. simpl in H2. apply Permutation_length_1 in H2. subst y.
  destruct (H1 x (N.max p q) (or_introl eq_refl)) as (Hlt & Hx & _).
  f_equal. f_equal. destruct Hx as [Hx|[Hx|[]]]; subst x; lia.
Qed.

Lemma rr_cell_ok_two_unique : rr_cell_ok_two_unique_stmt.
Proof.
  intros cands r1 r2 Hlen Hnd Ha Hb.
  destruct cands as [|p [|q [|z cands]]]; simpl in Hlen; try discriminate.
  assert (Hne : p <> q).
  { inversion Hnd as [|? ? Hp _]; subst. intros E. apply Hp. left. symmetry. exact E. }
  rewrite (rr_cell_ok_two p q r1 Hne Ha), (rr_cell_ok_two p q r2 Hne Hb). reflexivity.
Qed.

(* ---- [sr_spec] per cell ---------------------------------------------------------------------- *)

Lemma In_sr_spec g tp pp s items edges a p :
  In (a, p, s) (sr_spec g tp pp s items edges) <->
  exists tgt, In (T a, tgt) edges /\ winner g items a = Some p /\ snd (decide tp pp a p tgt) = true.
Proof.
  unfold sr_spec. rewrite in_flat_map. split.
  - intros ([x tgt] & He & Hin). simpl in Hin. destruct x as [b|r]; [|destruct Hin].
    destruct (winner g items b) as [w|] eqn:Ew; [|destruct Hin].
    destruct (snd (decide tp pp b w tgt)) eqn:Ed; [|destruct Hin].
    destruct Hin as [Hin|[]]. inversion Hin; subst b w. exists tgt. tauto.
  - intros (tgt & He & Ew & Ed). exists (T a, tgt). split; [exact He|]. simpl.
    rewrite Ew, Ed. left. reflexivity.
Qed.

Lemma sr_cell_spec_is_sr_spec : sr_cell_spec_is_sr_spec_stmt.
Proof.
  intros g tp pp s items edges a p (_ & _ & Hed & _). rewrite In_sr_spec. unfold sr_cell_spec. split.
  - destruct (assoc_sym (T a) edges) as [tgt|] eqn:Ea; [|intros []].
    destruct (winner g items a) as [w|] eqn:Ew; [|intros []].
    destruct (snd (decide tp pp a w tgt)) eqn:Ed; [|intros []].
    intros [E|[]]. subst w. exists tgt. split; [|tauto]. apply assoc_sym_In; assumption.
  - intros (tgt & He & Ew & Ed). apply (assoc_sym_In (T a) tgt edges Hed) in He.
    rewrite He, Ew, Ed. left. reflexivity.
Qed.

(* ---- candidates of a well-formed state are distinct ---------------------------------------- *)

Lemma NoDup_red_cands g items edges a : wf_state g items edges -> NoDup (red_cands g items a).
Proof.
  intros (Hk & Hit & _ & _).
  assert (Hwf : wf_items g items) by (split; assumption).
  rewrite <- (ev_reds_events g items a Hwf). apply NoDup_ev_reds. apply NoDup_events. exact Hwf.
Qed.

(* ---- agreement outside three-way cells ------------------------------------------------------- *)

Lemma rr_cell_ok_short l : (length l <= 1)%nat -> rr_cell_ok l [].
Proof.
  intros H. unfold rr_cell_ok. split; [intros x y []|]. split.
  - destruct l as [|p [|q l]]; simpl in H; try lia; simpl.
    + unfold losers. simpl. constructor.
    + unfold losers, min_list. simpl. rewrite N.eqb_refl. simpl. constructor.
  - destruct l as [|p [|q l]]; simpl in *; try reflexivity. lia.
Qed.

Lemma rr_cell_ok_sorted l m rest : NoDup l -> isort l = m :: rest ->
  rr_cell_ok l (map (pair m) rest).
Proof.
  intros Hnd E.
  pose proof (isort_perm l) as Hp. rewrite E in Hp.
  pose proof (isort_sorted l) as Hs. rewrite E in Hs.
  assert (Hnd' : NoDup (m :: rest)) by (eapply Permutation_NoDup; [apply Permutation_sym; exact Hp | exact Hnd]).
  inversion Hs as [|? ? _ Hall]; subst. inversion Hnd' as [|? ? Hm _]; subst.
  rewrite Forall_forall in Hall.
  unfold rr_cell_ok. split; [|split].
  - intros x y Hin. apply in_map_iff in Hin. destruct Hin as (q & Eq & Hq). inversion Eq; subst x y.
    split; [|split].
    + specialize (Hall q Hq). assert (m <> q) by (intros ->; contradiction). lia.
    + apply (Permutation_in _ Hp). left. reflexivity.
    + apply (Permutation_in _ Hp). right. exact Hq.
  - rewrite map_map. simpl. rewrite map_id.
    unfold losers. rewrite (isort_head l m rest E).
    pose proof (perm_remove l m Hnd (Permutation_in _ Hp (or_introl eq_refl))) as Hr.
    apply (Permutation_cons_inv (a := m)).
    eapply Permutation_trans; [exact Hp|]. eapply Permutation_trans; [apply Permutation_sym; exact Hr|].
    apply Permutation_sym. apply Permutation_cons_append.
  - rewrite map_length. apply Permutation_length in Hp. simpl in Hp. lia.
Qed.

Lemma yacc_agrees_outside_three_way : yacc_agrees_outside_three_way_stmt.
Proof.
  intros g tp pp s items edges a Hwf H3 y.
  assert (Hsr : ysr y = sr_cell_spec g tp pp items edges a /\
                yact y = cell_spec g tp pp items edges a /\
                rr_cell_ok (red_cands g items a) (yrr y)).
  { subst y. unfold three_way_b in H3. unfold cell_yacc, cell_spec, sr_cell_spec, winner.
    pose proof (NoDup_red_cands g items edges a Hwf) as Hnd.
    set (cands := red_cands g items a) in *.
    destruct (assoc_sym (T a) edges) as [tgt|] eqn:Ea.
    - (* a shift and at most one reduction *)
      assert (Hlen : (length cands <= 1)%nat).
      { destruct (Nat.leb_spec 2 (length cands)); [discriminate | lia]. }
      rewrite (isort_short cands Hlen). rewrite (yacc_resolve_short tp pp a tgt cands Hlen).
      unfold yact, ysr, yrr. simpl fst. simpl snd. split; [|split].
      + destruct (min_list cands); reflexivity.
      + destruct (acc_cand g items a); [reflexivity|]. destruct (min_list cands); reflexivity.
      + apply rr_cell_ok_short. exact Hlen.
    - (* no shift *)
      rewrite yacc_resolve_noshift. destruct (isort cands) as [|m rest] eqn:Es.
      + apply isort_nil in Es. rewrite Es. unfold yact, ysr, yrr. simpl. split; [reflexivity|]. split.
        * destruct (acc_cand g items a); reflexivity.
        * apply rr_cell_ok_short. simpl. lia.
      + rewrite (isort_head cands m rest Es). unfold yact, ysr, yrr. simpl fst. simpl snd.
        split; [reflexivity|]. split.
        * destruct (acc_cand g items a); reflexivity.
        * apply rr_cell_ok_sorted; assumption. }
  destruct Hsr as (Hsr & Hact & Hrr). split; [exact Hact|]. split; [exact Hsr|]. split; [|exact Hrr].
  intros p. rewrite Hsr. apply sr_cell_spec_is_sr_spec. exact Hwf.
Qed.

(* ---- the boolean comparison ---------------------------------------------------------------------- *)

Lemma act_eqb_refl x : act_eqb x x = true.
Proof. destruct x; simpl; try reflexivity; apply N.eqb_refl. Qed.

Lemma same_setN_intro l l' : (forall x, In x l <-> In x l') -> same_setN l l' = true.
Proof.
  intros H. unfold same_setN. apply andb_true_iff. split; apply forallb_forall; intros x Hx;
    apply memN_In; apply H; exact Hx.
Qed.

Lemma yacc_disagreement_is_three_way : yacc_disagreement_is_three_way_stmt.
Proof.
  intros g tp pp items edges a Hwf Hd.
  destruct (three_way_b g items edges a) eqn:E3; [reflexivity|]. exfalso.
  destruct (yacc_agrees_outside_three_way g tp pp 0%N items edges a Hwf E3) as (Hact & Hsr & _ & (_ & Hperm & Hlen)).
  assert (Ht : yacc_agrees_b g tp pp items edges a = true).
  { unfold yacc_agrees_b. cbv zeta. cbv zeta in Hact, Hsr, Hperm, Hlen. rewrite Hact, Hsr, act_eqb_refl.
    apply andb_true_iff; split; [apply andb_true_iff; split; [apply andb_true_iff; split|]|].
    - reflexivity.
    - apply same_setN_intro. tauto.
    - apply same_setN_intro. intros x. split; intros Hx.
      + eapply Permutation_in; [exact Hperm | exact Hx].
      + eapply Permutation_in; [apply Permutation_sym; exact Hperm | exact Hx].
    - rewrite Hlen. apply Nat.eqb_refl. }
  congruence.
Qed.

(* ---- the mirror, one cell ---------------------------------------------------------------------------- *)

Lemma mirror_cell : mirror_cell_stmt.
Proof.
  intros g tp pp s items edges io eo rr0 sr0 a Hwf Hpc Hio Heo.
  pose proof (state_mirror_meets_spec g tp pp s items edges io eo rr0 sr0 None Hwf Hpc Hio Heo
                (or_introl eq_refl)) as H.
  destruct (state_mirror g tp pp s io eo (init_tstate rr0 sr0 None)) as [[st|]| |]; try exact H.
  destruct H as (_ & Hcells & (sr & Esr & Hsr) & (rr & Err & Hrr) & _).
  split; [apply Hcells|]. split.
  - exists sr. split; [exact Esr|]. intros p.
    rewrite (sr_cell_spec_is_sr_spec g tp pp s items edges a p Hwf). split; intros Hin.
    + eapply Permutation_in; [exact Hsr | exact Hin].
    + eapply Permutation_in; [apply Permutation_sym; exact Hsr | exact Hin].
  - exists rr. split; [exact Err|]. apply rr_ok_cellwise with (s := s). exact Hrr.
Qed.

(* ---- witnesses ------------------------------------------------------------------------------------------ *)

Local Open Scope N_scope.

(* tokens: 0 = '+' (resp. '<'), 1 = 'n', 2 = LOW, 3 = end of input; rules ^ = 0, S = 1, L = 2, E = 3;
   productions 0 S: E   1 S: L '+' 'n'   2 L: E '+' E %prec LOW   3 E: E '+' E   4 E: 'n'   5 ^: S.
   State 8 = after E '+' E (numbering, items and edges as the implementation dumps them). *)
Definition g_ab : grammar :=
  mkGrammar 4 4 [(1, [R 3]); (1, [R 2; T 0; T 1]); (2, [R 3; T 0; R 3]); (3, [R 3; T 0; R 3]);
                 (3, [T 1]); (0, [R 1])] 5 3.
Definition items_ab : list item := [(2, 3%nat, [0]); (3, 1%nat, [0; 3]); (3, 3%nat, [0; 3])].
Definition edges_ab : list (sym * N) := [(T 0, 9)].
Definition tp_a : precs := fun t => if t =? 0 then Some (mkPrec 1 ALeft) else if t =? 2 then Some (mkPrec 0 ANonassoc) else None.
Definition pp_a : precs := fun p => if p =? 2 then Some (mkPrec 0 ANonassoc) else if p =? 3 then Some (mkPrec 1 ALeft) else None.
Definition tp_b : precs := fun t => if t =? 0 then Some (mkPrec 1 ANonassoc) else if t =? 2 then Some (mkPrec 0 ANonassoc) else None.
Definition pp_b : precs := fun p => if p =? 2 then Some (mkPrec 0 ANonassoc) else if p =? 3 then Some (mkPrec 1 ANonassoc) else None.

(* (c): tokens 0 = '+', 1 = 'n', 2 = 'x', 3 = LOW, 4 = end of input;
   productions 0 S: E   1 S: L '+' 'n'   2 L: E 'x' E %prec LOW   3 E: E 'x' E   4 E: E '+' E   5 E: 'n'   6 ^: S.
   State 9 = after E 'x' E. *)
Definition g_c : grammar :=
  mkGrammar 5 4 [(1, [R 3]); (1, [R 2; T 0; T 1]); (2, [R 3; T 2; R 3]); (3, [R 3; T 2; R 3]);
                 (3, [R 3; T 0; R 3]); (3, [T 1]); (0, [R 1])] 6 4.
Definition items_c : list item :=
  [(2, 3%nat, [0]); (3, 1%nat, [0; 2; 4]); (3, 3%nat, [0; 2; 4]); (4, 1%nat, [0; 2; 4])].
Definition edges_c : list (sym * N) := [(T 0, 5); (T 2, 11)].
Definition tp_c : precs := fun t => if t =? 0 then Some (mkPrec 1 ALeft) else if t =? 3 then Some (mkPrec 0 ANonassoc) else None.
Definition pp_c : precs := fun p => if p =? 2 then Some (mkPrec 0 ANonassoc) else if p =? 4 then Some (mkPrec 1 ALeft) else None.

Ltac nodup_tac := repeat (constructor; [simpl; intuition discriminate|]); try constructor.

Lemma wf_ab : wf_state g_ab items_ab edges_ab.
Proof.
  unfold wf_state. split; [|split; [|split]].
  - simpl. nodup_tac.
  - intros i [<-|[<-|[<-|[]]]]; (split; [vm_compute; lia | simpl; nodup_tac]).
  - simpl. nodup_tac.
  - simpl. intuition discriminate.
Qed.

Lemma wf_c : wf_state g_c items_c edges_c.
Proof.
  unfold wf_state. split; [|split; [|split]].
  - simpl. nodup_tac.
  - intros i [<-|[<-|[<-|[<-|[]]]]]; (split; [vm_compute; lia | simpl; nodup_tac]).
  - simpl. nodup_tac.
  - simpl. intuition discriminate.
Qed.

(* levels determine kinds in the three precedence tables *)
Ltac pc_tac tpd ppd :=
  intros a p t q Ht Hq Hl; unfold tpd in Ht; unfold ppd in Hq;
  repeat match goal with
         | H : (if ?c then _ else _) = Some _ |- _ => destruct c
         end;
  try discriminate; inversion Ht; inversion Hq; subst; simpl in *; try reflexivity; try discriminate.

Lemma pc_a : prec_consistent tp_a pp_a. Proof. pc_tac tp_a pp_a. Qed.
Lemma pc_b : prec_consistent tp_b pp_b. Proof. pc_tac tp_b pp_b. Qed.
Lemma pc_c : prec_consistent tp_c pp_c. Proof. pc_tac tp_c pp_c. Qed.

(* no item of the witness states is the advanced start item *)
Lemma no_acc g items (H : forallb (fun i => negb (N.eqb (it_p i) (start_prod g))) items = true) :
  forall b, ~ accept_reduce_cell g items b.
Proof.
  intros b [Hacc _]. unfold acc_cand in Hacc. apply existsb_exists in Hacc. destruct Hacc as (i & Hi & Hc).
  rewrite forallb_forall in H. specialize (H i Hi). unfold is_acc in Hc.
  destruct (N.eqb (it_p i) (start_prod g)); [discriminate|].
  rewrite andb_false_r in Hc. discriminate.
Qed.

(* from the per-cell corollary: computed values of [cell_spec] / [sr_cell_spec]
   and the uniqueness of the pair for two candidates give the mirror's part of a witness *)
Lemma witness_mirror g tp pp s items edges a mact p q :
  wf_state g items edges -> prec_consistent tp pp ->
  (forall b, ~ accept_reduce_cell g items b) ->
  cell_spec g tp pp items edges a = mact ->
  sr_cell_spec g tp pp items edges a = [] ->
  red_cands g items a = [p; q] -> (p < q)%N ->
  forall io eo rr0 sr0, Permutation io items -> Permutation eo edges ->
    match state_mirror g tp pp s io eo (init_tstate rr0 sr0 None) with
    | Done (Some st) =>
        t_cells st a = mact /\
        (exists sr, t_sr st = sr0 ++ sr /\ forall x, In (a, x, s) sr <-> In x []) /\
        (exists rr, t_rr st = rr0 ++ rr /\ rr_pairs_of a rr = [(p, q)])
    | _ => False
    end.
Proof.
  intros Hwf Hpc Hna Hc Hs Hr Hlt io eo rr0 sr0 Hio Heo.
  pose proof (mirror_cell g tp pp s items edges io eo rr0 sr0 a Hwf Hpc Hio Heo) as H.
  destruct (state_mirror g tp pp s io eo (init_tstate rr0 sr0 None)) as [[st|]| |]; try exact H.
  - destruct H as (H1 & (sr & Esr & Hsr) & (rr & Err & Hrr)). split; [congruence|]. split.
    + exists sr. split; [exact Esr|]. intros x. rewrite Hsr, Hs. tauto.
    + exists rr. split; [exact Err|]. rewrite Hr in Hrr.
      assert (Hne : p <> q) by lia.
      rewrite (rr_cell_ok_two p q _ Hne Hrr). f_equal. f_equal; lia.
  - destruct H as (b & Hb). exact (Hna b Hb).
Qed.

Lemma three_way_left_refuted : three_way_left_refuted_stmt.
Proof.
  exists g_ab, tp_a, pp_a, 8%N, items_ab, edges_ab, 0%N.
  split; [exact wf_ab|]. split; [exact pc_a|]. split; [vm_compute; reflexivity|].
  split; [vm_compute; reflexivity|]. split; [discriminate|].
  apply witness_mirror; try (vm_compute; reflexivity).
  - exact wf_ab.
  - exact pc_a.
  - apply no_acc. vm_compute. reflexivity.
Qed.

Lemma three_way_nonassoc_refuted : three_way_nonassoc_refuted_stmt.
Proof.
  exists g_ab, tp_b, pp_b, 8%N, items_ab, edges_ab, 0%N.
  split; [exact wf_ab|]. split; [exact pc_b|]. split; [vm_compute; reflexivity|].
  split; [vm_compute; reflexivity|]. split; [discriminate|].
  apply witness_mirror; try (vm_compute; reflexivity).
  - exact wf_ab.
  - exact pc_b.
  - apply no_acc. vm_compute. reflexivity.
Qed.

Lemma three_way_report_refuted : three_way_report_refuted_stmt.
Proof.
  exists g_c, tp_c, pp_c, 9%N, items_c, edges_c, 0%N.
  split; [exact wf_c|]. split; [exact pc_c|]. split; [vm_compute; reflexivity|].
  split; [vm_compute; reflexivity|]. split; [discriminate|].
  apply witness_mirror; try (vm_compute; reflexivity).
  - exact wf_c.
  - exact pc_c.
  - apply no_acc. vm_compute. reflexivity.
Qed.

(* ---- bison ------------------------------------------------------------------------------------------------ *)

Lemma bison_eq_yacc_outside_three_way : bison_eq_yacc_outside_three_way_stmt.
Proof.
  intros tp pp a sh reds [->|Hlen].
  - rewrite yacc_resolve_noshift. reflexivity.
  - destruct sh as [tgt|]; [|rewrite yacc_resolve_noshift; reflexivity].
    destruct reds as [|p [|q reds]]; simpl in Hlen; [reflexivity| |lia].
    unfold bison_resolve, yacc_resolve. simpl.
    destruct (tp a) as [t|]; [|reflexivity]. destruct (pp p) as [q|]; [|reflexivity].
    destruct (p_level t <? p_level q)%N; [reflexivity|].
    destruct (p_level q <? p_level t)%N; [reflexivity|].
    destruct (p_kind t); reflexivity.
Qed.

Lemma cell_bison_eq_yacc_outside_three_way : cell_bison_eq_yacc_outside_three_way_stmt.
Proof.
  intros g tp pp items edges a H3. unfold cell_bison, cell_yacc. unfold three_way_b in H3.
  rewrite bison_eq_yacc_outside_three_way; [reflexivity|].
  destruct (assoc_sym (T a) edges) as [tgt|]; [right | left; reflexivity].
  destruct (Nat.leb_spec 2 (length (red_cands g items a))) as [L|L]; [discriminate|].
  pose proof (Permutation_length (isort_perm (red_cands g items a))). lia.
Qed.

(* shift, a reduction without precedence, a reduction that beats the shift:
   byacc reduces the LATER production (the first one was suppressed against
   the shift), bison the earlier one (reduce/reduce among what is left) *)
Lemma bison_yacc_differ : bison_yacc_differ_stmt.
Proof.
  exists (fun t => if t =? 0 then Some (mkPrec 0 ALeft) else None),
         (fun p => if p =? 2 then Some (mkPrec 1 ALeft) else None), 0%N, (Some 7%N), [1%N; 2%N].
  vm_compute. discriminate.
Qed.

Lemma bison_yacc_count_differ : bison_yacc_count_differ_stmt.
Proof.
  exists (fun _ => None), (fun _ => None), 0%N, 7%N, 1%N, 2%N. split; vm_compute; reflexivity.
Qed.

Lemma bison_phase1_noprec tp pp a : tp a = None ->
  forall reds e, bison_phase1 tp pp a true e reds = (true, e, reds).
Proof.
  intros Ht. induction reds as [|p reds IH]; intros e; simpl; [reflexivity|].
  rewrite Ht. rewrite IH. reflexivity.
Qed.

Lemma bison_agrees_without_token_prec : bison_agrees_without_token_prec_stmt.
Proof.
  intros g tp pp items edges a Hwf Ht y. subst y.
  unfold cell_bison, cell_spec, sr_cell_spec, winner.
  pose proof (NoDup_red_cands g items edges a Hwf) as Hnd.
  set (cands := red_cands g items a) in *.
  destruct (assoc_sym (T a) edges) as [tgt|] eqn:Ea.
  - unfold bison_resolve. rewrite (bison_phase1_noprec tp pp a Ht).
    destruct (isort cands) as [|m rest] eqn:Es.
    + apply isort_nil in Es. rewrite Es. unfold yact, ysr, yrr. simpl. split; [reflexivity|]. split; [reflexivity|].
      apply rr_cell_ok_short. simpl. lia.
    + rewrite (isort_head cands m rest Es). unfold yact, ysr, yrr, decide. rewrite Ht. simpl.
      split; [reflexivity|]. split; [reflexivity|]. apply rr_cell_ok_sorted; assumption.
  - unfold bison_resolve. destruct (isort cands) as [|m rest] eqn:Es.
    + apply isort_nil in Es. rewrite Es. unfold yact, ysr, yrr. simpl. split; [reflexivity|]. split; [reflexivity|].
      apply rr_cell_ok_short. simpl. lia.
    + rewrite (isort_head cands m rest Es). unfold yact, ysr, yrr. simpl.
      split; [reflexivity|]. split; [reflexivity|]. apply rr_cell_ok_sorted; assumption.
Qed.

(* on the three witnesses bison's cell is byacc's: entry and reported pairs *)
Example bison_on_witness_a : cell_bison g_ab tp_a pp_a items_ab edges_ab 0 = (Reduce 3, [], []).
Proof. vm_compute. reflexivity. Qed.
Example bison_on_witness_b : cell_bison g_ab tp_b pp_b items_ab edges_ab 0 = (Err, [], []).
Proof. vm_compute. reflexivity. Qed.
Example bison_on_witness_c : cell_bison g_c tp_c pp_c items_c edges_c 0 = (Shift 5, [3], []).
Proof. vm_compute. reflexivity. Qed.

(* the hypothesis of [bison_agrees_without_token_prec] is satisfiable on a three-way cell *)
Example three_way_without_token_prec :
  let pp := (fun p => if p =? 2 then Some (mkPrec 0 ANonassoc) else None) in
  three_way_b g_ab items_ab edges_ab 0 = true /\
  cell_bison g_ab (fun _ => None) pp items_ab edges_ab 0 = (Shift 9, [2], [(2, 3)]) /\
  cell_spec g_ab (fun _ => None) pp items_ab edges_ab 0 = Shift 9.
Proof. vm_compute. repeat split; reflexivity. Qed.

(* ---- the hypotheses of the agreement theorem are satisfiable ----------------------------------------------- *)

(* shift + ONE reduction (state 8 of (a) without the L item): [cell_yacc] and [cell_spec] both reduce *)
Example agree_two_way :
  let items := [(3, 1%nat, [0; 3]); (3, 3%nat, [0; 3])] in
  three_way_b g_ab items edges_ab 0 = false /\
  cell_yacc g_ab tp_a pp_a items edges_ab 0 = (Reduce 3, [], []) /\
  cell_spec g_ab tp_a pp_a items edges_ab 0 = Reduce 3 /\
  yacc_agrees_b g_ab tp_a pp_a items edges_ab 0 = true.
Proof. vm_compute. repeat split; reflexivity. Qed.

Example agree_two_way_wf : wf_state g_ab [(3, 1%nat, [0; 3]); (3, 3%nat, [0; 3])] edges_ab.
Proof.
  unfold wf_state. split; [|split; [|split]].
  - simpl. nodup_tac.
  - intros i [<-|[<-|[]]]; (split; [vm_compute; lia | simpl; nodup_tac]).
  - simpl. nodup_tac.
  - simpl. intuition discriminate.
Qed.

(* no shift, three reductions (lookahead 3 = end of input in state 8 of (a) has two; add one) *)
Example agree_rr :
  let items := [(3, 3%nat, [3]); (2, 3%nat, [3]); (4, 1%nat, [3])] in
  three_way_b g_ab items edges_ab 3 = false /\
  cell_yacc g_ab tp_a pp_a items edges_ab 3 = (Reduce 2, [], [(2, 3); (2, 4)]) /\
  cell_spec g_ab tp_a pp_a items edges_ab 3 = Reduce 2.
Proof. vm_compute. repeat split; reflexivity. Qed.

Example agree_rr_wf : wf_state g_ab [(3, 3%nat, [3]); (2, 3%nat, [3]); (4, 1%nat, [3])] edges_ab.
Proof.
  unfold wf_state. split; [|split; [|split]].
  - simpl. nodup_tac.
  - intros i [<-|[<-|[<-|[]]]]; (split; [vm_compute; lia | simpl; nodup_tac]).
  - simpl. nodup_tac.
  - simpl. intuition discriminate.
Qed.

(* the per-cell demand is satisfiable: two candidates, the one pair *)
Example rr_cell_ok_23 : rr_cell_ok [2; 3] [(2, 3)].
Proof.
  unfold rr_cell_ok. split; [|split].
  - intros x y [E|[]]. inversion E; subst. simpl. intuition lia.
  - vm_compute. apply Permutation_refl.
  - reflexivity.
Qed.

(* and on the witnesses the boolean comparison says "differ" *)
Example disagree_a : yacc_agrees_b g_ab tp_a pp_a items_ab edges_ab 0 = false.
Proof. vm_compute. reflexivity. Qed.
Example disagree_b : yacc_agrees_b g_ab tp_b pp_b items_ab edges_ab 0 = false.
Proof. vm_compute. reflexivity. Qed.
Example disagree_c : yacc_agrees_b g_c tp_c pp_c items_c edges_c 0 = false.
Proof. vm_compute. reflexivity. Qed.
