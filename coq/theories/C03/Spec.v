(* C03 — declarative side conditions and the statements.

   Reading of the property (DESIGN.md, C03): for a cell with reduction
   candidates Rs (complete items whose lookahead contains the token, the
   advanced start item on end of input being the ACCEPT candidate, not a
   reduction) and optional shift target: the reduce winner is min Rs; with a
   shift edge present the outcome is decided by (token precedence, precedence
   of the WINNER): both present -> higher level wins, equal level -> %left
   reduce, %right shift, %nonassoc error cell; either absent -> shift AND the
   triple is reported.  k candidates give k-1 reported reduce/reduce pairs.
   [cell_spec], [sr_spec], [red_cands] … are in Model.v because the
   correspondence run evaluates them. *)
From Coq Require Import List Arith NArith Bool Lia Permutation.
From GV Require Import Common.Outcome Base.Grammar Base.Analyses LR.Automaton C03.Model.
Import ListNotations.

(* ---- what a closed state / its edges are assumed to look like ------------- *)

Definition item_key (i : item) : N * nat := (it_p i, it_d i).

(* items are the entries of a map keyed by (production, dot), the dot is inside
   the production, a lookahead is a set; edges are the entries of a map keyed
   by symbol; end of input is never shifted *)
Definition wf_state (g : grammar) (items : list item) (edges : list (sym * N)) : Prop :=
  NoDup (map item_key items) /\
  (forall i, In i items -> (it_d i <= length (rhs g (it_p i)))%nat /\ NoDup (it_la i)) /\
  NoDup (map fst edges) /\
  ~ In (T (eof g)) (map fst edges).

(* tokens/productions of one level have one associativity (true of every
   grammar: a level is a declaration line, see [decl_precs_consistent_stmt]) *)
Definition prec_consistent (tp pp : precs) : Prop :=
  forall a p t q, tp a = Some t -> pp p = Some q -> p_level t = p_level q -> p_kind t = p_kind q.

Definition accept_reduce_cell (g : grammar) (items : list item) (a : N) : Prop :=
  acc_cand g items a = true /\ red_cands g items a <> [].

(* ---- reported reduce/reduce pairs ------------------------------------------ *)

(* the candidates that lose *)
Definition losers (l : list N) : list N :=
  match min_list l with
  | Some w => filter (fun p => negb (N.eqb p w)) l
  | None => []
  end.

Definition rr_of_tok (a : N) (rr : list rrrec) : list rrrec := filter (fun r => N.eqb (rr_tok r) a) rr.

(* every record is (token, x, y, this state) with x < y both candidates of the
   cell; per cell every loser is the second component of exactly one record,
   hence k candidates give k-1 records (for k = 2 exactly (winner, other)) *)
Definition rr_ok (g : grammar) (s : N) (items : list item) (rr : list rrrec) : Prop :=
  (forall r, In r rr -> rr_st r = s /\ (rr_x r < rr_y r)%N /\
                        In (rr_x r) (red_cands g items (rr_tok r)) /\
                        In (rr_y r) (red_cands g items (rr_tok r))) /\
  (forall a, Permutation (map rr_y (rr_of_tok a rr)) (losers (red_cands g items a))) /\
  (forall a, length (rr_of_tok a rr) = rr_count_spec g items a).

(* ---- one state ---------------------------------------------------------------- *)

Definition state_result_ok (g : grammar) (tp pp : precs) (s : N) (items : list item) (edges : list (sym * N))
  (rr0 : list rrrec) (sr0 : list srrec) (fin0 : option N) (st : tstate) : Prop :=
  (forall a, ~ accept_reduce_cell g items a) /\
  (forall a, t_cells st a = cell_spec g tp pp items edges a) /\
  (exists sr, t_sr st = sr0 ++ sr /\ Permutation sr (sr_spec g tp pp s items edges)) /\
  (exists rr, t_rr st = rr0 ++ rr /\ rr_ok g s items rr) /\
  t_fin st = (if acc_cand g items (eof g) then Some s else fin0) /\
  (forall r t, In (r, t) (t_gotos st) <-> In (R r, t) edges) /\
  (forall a, In a (t_sa st) <-> has_candidate g items edges a = true).

(* for EVERY iteration order of the items and of the edges the mirror of the
   per-state loop body ends in the specified cells and conflict records; it
   fails exactly on an accept/reduce cell; its panic sites are unreachable *)
Definition state_mirror_meets_spec_stmt : Prop :=
  forall g tp pp s items edges io eo rr0 sr0 fin0,
    wf_state g items edges -> prec_consistent tp pp ->
    Permutation io items -> Permutation eo edges ->
    (fin0 = None \/ acc_cand g items (eof g) = false) ->
    match state_mirror g tp pp s io eo (init_tstate rr0 sr0 fin0) with
    | Done (Some st) => state_result_ok g tp pp s items edges rr0 sr0 fin0 st
    | Done None => exists a, accept_reduce_cell g items a
    | Panic => False
    | OutOfFuel => False
    end.

(* ---- the whole table ------------------------------------------------------------- *)

Definition sr_spec_all (g : grammar) (tp pp : precs) (decl : list (list item * list (sym * N))) : list srrec :=
  flat_map (fun sd => sr_spec g tp pp (N.of_nat (fst sd)) (fst (snd sd)) (snd (snd sd)))
           (combine (seq 0 (length decl)) decl).

Definition table_result_ok (g : grammar) (tp pp : precs) (decl : list (list item * list (sym * N))) (t : ttable) : Prop :=
  (forall s st a, nth_error decl s = Some st -> ~ accept_reduce_cell g (fst st) a) /\
  length (tb_rows t) = length decl /\
  (forall s st a, nth_error decl s = Some st -> tb_cell t s a = cell_spec g tp pp (fst st) (snd st) a) /\
  Permutation (tb_sr t) (sr_spec_all g tp pp decl) /\
  (exists rrs, tb_rr t = concat rrs /\ length rrs = length decl /\
     forall s st, nth_error decl s = Some st ->
       exists rr, nth_error rrs s = Some rr /\ rr_ok g (N.of_nat s) (fst st) rr) /\
  (exists st, nth_error decl (N.to_nat (tb_fin t)) = Some st /\ acc_cand g (fst st) (eof g) = true).

Definition table_mirror_meets_spec_stmt : Prop :=
  forall g tp pp (decl orders : list (list item * list (sym * N))),
    Forall (fun st => wf_state g (fst st) (snd st)) decl ->
    prec_consistent tp pp ->
    Forall2 (fun o d => Permutation (fst o) (fst d) /\ Permutation (snd o) (snd d)) orders decl ->
    length (filter (fun st => acc_cand g (fst st) (eof g)) decl) = 1%nat ->
    match table_mirror g tp pp orders with
    | Done (Some t) => table_result_ok g tp pp decl t
    | Done None => exists s st a, nth_error decl s = Some st /\ accept_reduce_cell g (fst st) a
    | Panic => False
    | OutOfFuel => False
    end.

(* ---- precedences from declarations ------------------------------------------------ *)

(* the mirror of the declaration loop computes the specified map *)
Definition token_prec_mirror_meets_spec_stmt : Prop :=
  forall ds t, token_prec_mirror ds t = token_prec_spec ds t.

(* "later line = higher level, one level per line": a token first declared on
   line i (counting from 0) has level i and that line's kind; a token declared
   nowhere has no precedence *)
Definition levels_from_decl_order_stmt : Prop :=
  (forall ds i k l t, nth_error ds i = Some (k, l) -> In t l ->
     (forall i' k' l', (i' < i)%nat -> nth_error ds i' = Some (k', l') -> ~ In t l') ->
     token_prec_spec ds t = Some (mkPrec (N.of_nat i) k)) /\
  (forall ds t, (forall k l, In (k, l) ds -> ~ In t l) -> token_prec_spec ds t = None).

(* precedences that come from declarations are consistent, so the
   panic!("Not supported.") of resolve_shift_reduce is unreachable *)
Definition decl_precs_consistent_stmt : Prop :=
  forall ds pp, (forall p q, pp p = Some q -> exists t, token_prec_spec ds t = Some q) ->
    prec_consistent (token_prec_spec ds) pp.

(* the spec determines the precedence *)
Definition prod_prec_spec_functional_stmt : Prop :=
  forall tp pn syms r1 r2, prod_prec_spec tp pn syms r1 -> prod_prec_spec tp pn syms r2 -> r1 = r2.

Definition prod_prec_rule_stmt : Prop :=
  forall tp pn syms,
    match prod_prec_mirror tp pn syms with
    | Done r => prod_prec_spec tp pn syms r
    | Panic => exists n, pn = Some n /\ tp n = None
    | OutOfFuel => False
    end.

(* ---- %expect -------------------------------------------------------------------------- *)

Definition expect_rule_stmt : Prop :=
  forall e err sr rr, build_ok_spec e err sr rr = true <-> sr = default0 e /\ rr = default0 err.

(* what the code does: it agrees with the rule whenever there is a conflict,
   and lets every build through when there is none *)
Definition expect_mirror_characterised_stmt : Prop :=
  forall e err sr rr,
    (((sr, rr) <> (0, 0))%nat -> build_ok_mirror e err sr rr = build_ok_spec e err sr rr) /\
    build_ok_mirror e err 0 0 = true.

(* … which is not the rule: %expect 2 with no conflicts builds *)
Definition expect_mirror_refuted_stmt : Prop :=
  exists e err sr rr, build_ok_mirror e err sr rr <> build_ok_spec e err sr rr.

(* ---- the boolean side conditions imply the declarative ones ------------------------------ *)

Definition wf_state_b_sound_stmt : Prop :=
  forall g items edges, wf_state_b g items edges = true -> wf_state g items edges.
Definition prec_consistent_b_sound_stmt : Prop :=
  forall tl pl, prec_consistent_b tl pl = true -> prec_consistent (precs_of tl) (precs_of pl).
