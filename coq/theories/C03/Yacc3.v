(* C03 — the cell as byacc prescribes it, also for cells offering a shift and
   two or more reductions ("three-way cells").  Definitions only.

   The property text states Yacc's rules pairwise (two reductions: the earlier
   production; shift against reduction: precedence, associativity, default
   shift).  For a cell with a shift and ONE reduction, or with reductions
   only, the pairwise wording determines the outcome, and [cell_spec]
   (Model.v) is that outcome.  With a shift and k >= 2 reductions the ORDER in
   which the pairwise rules are applied matters.  StateTable::new applies the
   reduce/reduce rule first (while the reductions are filled in) and compares
   the shift with the survivor only — this is what [cell_spec] says and what
   the mirror provably computes.  Yacc does it the other way round:

   byacc, mkpar.c [remove_conflicts]: the action list of one symbol in one
   state is the shift (if any) followed by the reductions in rule order.
   [pref] is the first action.  Every later action p:
     pref is the shift (suppressed or not):
       both have a precedence:  lower p    -> p suppressed (silently)
                                higher p   -> shift suppressed, pref := p
                                equal, %left     -> shift suppressed, pref := p
                                equal, %right    -> p suppressed
                                equal, %nonassoc -> both suppressed, pref stays the shift
       otherwise:               SRcount++, p suppressed
     pref is a reduction:       RRcount++, p suppressed
   The table entry is the unsuppressed action of the list, the error entry if
   there is none.  (An equal level is decided by the TOKEN's associativity:
   [pref->assoc] of the shift.)

   bison (conflicts.c [set_conflicts] / [resolve_sr_conflict], tables.c
   [action_row]) also compares the shift with every reduction that has a
   precedence BEFORE it looks for reduce/reduce conflicts; it differs from
   byacc in corners ([bison_resolve] below, [bison_yacc_differ] in
   Yacc3Proofs.v): an explicit %nonassoc error overrides every later reduction,
   a precedence-less reduction that lost to the shift by default comes back
   when a later reduction removes the shift, and what is left after the
   precedence phase is counted per default rule: ONE shift/reduce conflict if
   the shift is left with a reduction, the reductions left among themselves as
   reduce/reduce conflicts (byacc counts every precedence-less reduction
   against the shift and no reduce/reduce conflict while the shift is
   preferred).  Both are "Yacc"; where they differ the property text does not
   choose, and the check accepts either. *)
From Coq Require Import List Arith NArith Bool Lia.
From GV Require Import Common.Outcome Base.Grammar Base.Analyses LR.Automaton LR.Validator C03.Model C03.Spec.
Import ListNotations.

(* ---- reductions in production order ------------------------------------------ *)

Fixpoint insertN (x : N) (l : list N) : list N :=
  match l with
  | [] => [x]
  | y :: l' => if (x <=? y)%N then x :: l else y :: insertN x l'
  end.
Definition isort (l : list N) : list N := fold_right insertN [] l.

(* ---- byacc's remove_conflicts for one (state, symbol) --------------------------- *)

(* the preferred action: the shift (alive or suppressed) or a reduction *)
Inductive ypref := YShift (alive : bool) | YRed (p : N).

(* what is known after a prefix of the action list:
   preferred action, productions of the counted shift/reduce conflicts,
   (preferred, suppressed) pairs of the counted reduce/reduce conflicts *)
Definition yst := (ypref * list N * list (N * N))%type.

Definition ystep (tp pp : precs) (a : N) (st : yst) (p : N) : yst :=
  let '(pref, sr, rr) := st in
  match pref with
  | YRed q => (pref, sr, rr ++ [(q, p)])
  | YShift _ =>
      match tp a, pp p with
      | Some t, Some q =>
          if (p_level t <? p_level q)%N then (YRed p, sr, rr)
          else if (p_level q <? p_level t)%N then (pref, sr, rr)
          else match p_kind t with
               | ALeft => (YRed p, sr, rr)
               | ARight => (pref, sr, rr)
               | ANonassoc => (YShift false, sr, rr)
               end
      | _, _ => (pref, sr ++ [p], rr)
      end
  end.

Definition yfold (tp pp : precs) (a : N) (st : yst) (reds : list N) : yst :=
  fold_left (ystep tp pp a) reds st.

(* result of a cell: entry, productions p of the reported shift/reduce pairs
   (a, p), reported reduce/reduce pairs (kept, suppressed) *)
Definition yres := (act * list N * list (N * N))%type.
Definition yact (r : yres) : act := fst (fst r).
Definition ysr (r : yres) : list N := snd (fst r).
Definition yrr (r : yres) : list (N * N) := snd r.

Definition yacc_resolve (tp pp : precs) (a : N) (sh : option N) (reds : list N) : yres :=
  match sh with
  | Some tgt =>
      let '(pref, sr, rr) := yfold tp pp a (YShift true, [], []) reds in
      (match pref with YShift true => Shift tgt | YShift false => Err | YRed p => Reduce p end, sr, rr)
  | None =>
      match reds with
      | [] => (Err, [], [])
      | p :: rest =>
          let '(pref, sr, rr) := yfold tp pp a (YRed p, [], []) rest in
          (match pref with YRed q => Reduce q | YShift _ => Err end, sr, rr)
      end
  end.

(* the cell of token a in a state with the given closed items and edges; the
   accept candidate is treated as in [cell_spec] *)
Definition cell_yacc (g : grammar) (tp pp : precs) (items : list item) (edges : list (sym * N)) (a : N) : yres :=
  let r := yacc_resolve tp pp a (assoc_sym (T a) edges) (isort (red_cands g items a)) in
  (if acc_cand g items a then Accept else yact r, ysr r, yrr r).

(* ---- the same quantities of [cell_spec] / [sr_spec], per cell ------------------- *)

(* productions p with (a, p, s) in [sr_spec] *)
Definition sr_cell_spec (g : grammar) (tp pp : precs) (items : list item) (edges : list (sym * N)) (a : N) : list N :=
  match assoc_sym (T a) edges, winner g items a with
  | Some tgt, Some p => if snd (decide tp pp a p tgt) then [p] else []
  | _, _ => []
  end.

(* is (state, a) a three-way cell *)
Definition three_way_b (g : grammar) (items : list item) (edges : list (sym * N)) (a : N) : bool :=
  match assoc_sym (T a) edges with
  | Some _ => (2 <=? length (red_cands g items a))%nat
  | None => false
  end.

(* do [cell_yacc] and [cell_spec] say the same about the cell: entry, reported
   shift/reduce pairs (as sets), losing productions of the reported
   reduce/reduce pairs (as sets; which production a loser is paired with is
   not fixed by the property for k > 2 candidates, see [rr_ok]) *)
Definition same_setN (l l' : list N) : bool :=
  forallb (fun x => memN x l') l && forallb (fun x => memN x l) l'.
Definition yacc_agrees_b (g : grammar) (tp pp : precs) (items : list item) (edges : list (sym * N)) (a : N) : bool :=
  let y := cell_yacc g tp pp items edges a in
  act_eqb (yact y) (cell_spec g tp pp items edges a) &&
  same_setN (ysr y) (sr_cell_spec g tp pp items edges a) &&
  same_setN (map snd (yrr y)) (losers (red_cands g items a)) &&
  Nat.eqb (length (yrr y)) (rr_count_spec g items a).

(* ---- bison's order ------------------------------------------------------------------ *)

(* conflicts.c set_conflicts, first loop: every reduction that has a precedence
   is compared with the shift while the shift is still there (and the token has
   a precedence).  Result: is the shift still there, was an explicit error
   recorded (%nonassoc), the reductions that keep the lookahead. *)
Fixpoint bison_phase1 (tp pp : precs) (a : N) (alive errd : bool) (reds : list N) : bool * bool * list N :=
  match reds with
  | [] => (alive, errd, [])
  | p :: rest =>
      let keep (al er : bool) := let '(al', er', r) := bison_phase1 tp pp a al er rest in (al', er', p :: r) in
      if alive then
        match tp a, pp p with
        | Some t, Some q =>
            if (p_level t <? p_level q)%N then keep false errd
            else if (p_level q <? p_level t)%N then bison_phase1 tp pp a true errd rest
            else match p_kind t with
                 | ALeft => keep false errd
                 | ARight => bison_phase1 tp pp a true errd rest
                 | ANonassoc => bison_phase1 tp pp a false true rest
                 end
        | _, _ => keep true errd
        end
      else keep false errd
  end.

(* entry: tables.c action_row — reductions first (lowest rule number on a
   clash), the shift over them, explicit errors over everything.
   reported: conflicts.c count_state_sr_conflicts / count_state_rr_conflicts
   after set_conflicts — one shift/reduce conflict if the shift and a reduction
   are left (named after the earliest reduction left, the one the shift is
   preferred to), one reduce/reduce conflict per reduction left beyond the
   earliest. *)
Definition bison_resolve (tp pp : precs) (a : N) (sh : option N) (reds : list N) : yres :=
  match sh with
  | Some tgt =>
      let '(alive, errd, remaining) := bison_phase1 tp pp a true false reds in
      match remaining with
      | [] => (if errd then Err else if alive then Shift tgt else Err, [], [])
      | p :: rest =>
          (if errd then Err else if alive then Shift tgt else Reduce p,
           if alive then [p] else [],
           map (pair p) rest)
      end
  | None =>
      match reds with
      | [] => (Err, [], [])
      | p :: rest => (Reduce p, [], map (pair p) rest)
      end
  end.

Definition cell_bison (g : grammar) (tp pp : precs) (items : list item) (edges : list (sym * N)) (a : N) : yres :=
  let r := bison_resolve tp pp a (assoc_sym (T a) edges) (isort (red_cands g items a)) in
  (if acc_cand g items a then Accept else yact r, ysr r, yrr r).

(* do two results say the same about a cell (entry; shift/reduce pairs as
   sets; losing productions of the reduce/reduce pairs as sets, and their number) *)
Definition yres_same_b (x y : yres) : bool :=
  act_eqb (yact x) (yact y) && same_setN (ysr x) (ysr y) &&
  same_setN (map snd (yrr x)) (map snd (yrr y)) && Nat.eqb (length (yrr x)) (length (yrr y)).
