(* C19 — mirror of lrpar/src/lib/diagnostics.rs (SpannedDiagnosticFormatter):
   [file_location_msg], [prefixed_underline_span_with_text] (and
   [underline_span_with_text] = empty prefix), [format_spanned]'s line/dots
   logic and [underline_spans_on_line_with_text], on top of the NewlineCache
   mirror of Model.v.  Texts are lists of code points, offsets are UTF-8 byte
   offsets.  Every Rust panic site (str slicing off a char boundary / out of
   range, [usize] subtraction underflow, [Span::new] with end < start,
   [expect], [assert!]) is an explicit [Panic].

   The formatter builds its cache from the very text it slices
   ([nlc()] = NewlineCache::new().feed(self.src)), so the entry points below
   take the cache [c] of the text [src]; the statements assume
   [cache_of src = Done c].

   What is printed is returned in structured form (one [row] per printed
   source line); the column counts, which need UnicodeWidthStr::width, are
   functions of a row and of an abstract [width : list N -> nat].

   [fixed = false] is the pinned code, [fixed = true] the code after the
   proposed repair (notes/C19-diag-fix.diff).  Definitions only. *)
From Coq Require Import List Arith NArith Bool Lia.
From GV Require Import Common.Outcome C19.Model.
Import ListNotations.

(* &s[..n] : the characters covering exactly the first n bytes *)
Fixpoint take_bytes (s : list N) (n : nat) : outcome (list N) :=
  match n with
  | 0 => Done []
  | _ => match s with
         | [] => Panic
         | ch :: s' =>
             if len_utf8 ch <=? n
             then do r <- take_bytes s' (n - len_utf8 ch); Done (ch :: r)
             else Panic
         end
  end.

(* &src[a..b] : panics when a > b, b is past the end, or a/b is not on a
   character boundary *)
Definition slice_range (src : list N) (a b : nat) : outcome (list N) :=
  if b <? a then Panic else
  do rest <- slice_from src a; take_bytes rest (b - a).

(* Span::new *)
Definition span_new (s e : nat) : outcome (nat * nat) :=
  if e <? s then Panic else Done (s, e).

(* str::split('\n') : every piece, the (possibly empty) last one included *)
Fixpoint split_nl (s : list N) : list (list N) :=
  match s with
  | [] => [[]]
  | ch :: s' =>
      if (ch =? NL)%N then [] :: split_nl s'
      else match split_nl s' with
           | p :: ps => (ch :: p) :: ps
           | [] => [[ch]]                         (* never: split_nl is non-empty *)
           end
  end.

(* str::strip_suffix('\r').unwrap_or(self) *)
Definition strip_cr (l : list N) : list N :=
  match rev l with
  | ch :: r => if (ch =? CR)%N then rev r else l
  | [] => l
  end.

(* str::lines() (Rust >= 1.77 semantics, the toolchain in use):
   split_inclusive('\n'), then each piece loses its final "\n" and, only if it
   had one, a final "\r" before it.  In terms of the pieces of split('\n'):
   every piece but the last was terminated by '\n' and loses one final '\r';
   the last piece is kept as it is (a bare final '\r' included) unless it is
   empty, in which case it is not produced at all. *)
Fixpoint lines_of_pieces (ps : list (list N)) : list (list N) :=
  match ps with
  | [] => []
  | p :: ps' =>
      match ps' with
      | [] => match p with [] => [] | _ :: _ => [p] end
      | _ :: _ => strip_cr p :: lines_of_pieces ps'
      end
  end.
Definition rust_lines (s : list N) : list (list N) := lines_of_pieces (split_nl s).

(* str::starts_with('\n') *)
Definition starts_with_nl (l : list N) : bool :=
  match l with ch :: _ => (ch =? NL)%N | [] => false end.

(* n.to_string().len() *)
Fixpoint ndigits_go (fuel n : nat) : nat :=
  match fuel with
  | 0 => 1
  | S f => if n <? 10 then 1 else S (ndigits_go f (n / 10))
  end.
Definition ndigits (n : nat) : nat := ndigits_go n n.

(* one printed source line: "<r_num>| <r_text>\n", then the prefix, blanks up
   to the start of the underline, and the underline *)
Record row := {
  r_num : nat;              (* the line number printed *)
  r_text : list N;          (* the source text printed after "| " *)
  r_indent : list N;        (* the text whose display width is the indentation *)
  r_under : list N          (* the text whose display width is underlined *)
}.

(* number of blanks after the prefix:
   width(src[line_start..underline.start]) + (line_num_digits + "| ".len() - prefix.len());
   the subtraction cannot underflow after assert!(prefix.len() <= 3) *)
Definition row_indent_cols (width : list N -> nat) (plen : nat) (r : row) : nat :=
  width (r_indent r) + (ndigits (r_num r) + 2 - plen).
(* number of underline characters: width(src[underline]).max(1) *)
Definition row_under_cols (width : list N -> nat) (r : row) : nat :=
  Nat.max 1 (width (r_under r)).

(* the while loop of prefixed_underline_span_with_text over the remaining
   pieces of [source_lines]; (s, e) is the current value of [span].

   [source_line.len() - span_offset_from_start] underflows when the piece is
   shorter than the offset: a panic with overflow checks; without them the
   wrapped value w = 2^64 - k (k >= 1, k <= s) makes [span.start() + w] wrap to
   s - k < s <= e, so [Span::new(s, min(e, s - k))] panics: [Panic] in both
   build profiles. *)
Fixpoint underline_go (fixed : bool) (c : cache) (src : list N) (plen : nat)
         (pieces : list (list N)) (s e : nat) : outcome (list row) :=
  match pieces with
  | [] => Done []
  | piece :: rest =>
      do lb <- span_line_bytes c s e;
      let line_start := fst lb in
      if s <? line_start then Panic else                  (* span.start() - line_start_byte *)
      let off := s - line_start in
      do source_line <-
        (if fixed
         then (* repaired: the piece keeps its '\r'; it is not printed when it
                 belongs to a "\r\n" line ending *)
              do after <- slice_from src (line_start + byte_len piece);
              Done (if starts_with_nl after then strip_cr piece else piece)
         else Done piece);
      if byte_len piece <? off then Panic else            (* len - span_offset_from_start *)
      do us <- span_new s (Nat.min e (s + (byte_len piece - off)));
      do lc <- byte_to_line_col c src s;
      match lc with
      | None => Panic                                     (* .expect(..) *)
      | Some (line_num, _) =>
          if 3 <? plen then Panic else                    (* assert!(prefix.len() <= "0| ".len()) *)
          do ind <- slice_range src line_start (fst us);
          do und <- slice_range src (fst us) (snd us);
          let r := {| r_num := line_num; r_text := source_line;
                      r_indent := ind; r_under := und |} in
          match rest with
          | [] => Done [r]                                (* peek().is_none(): the message follows *)
          | _ :: _ =>
              do sp <- span_new (line_start + byte_len piece + 1) e;
              do rs <- underline_go fixed c src plen rest (fst sp) (snd sp);
              Done (r :: rs)
          end
      end
  end.

(* prefixed_underline_span_with_text(prefix, Span(s, e), ..) with
   plen = prefix.len(); an empty result means that nothing at all is printed
   (not even the message) *)
Definition underline_span_gen (fixed : bool) (c : cache) (src : list N)
           (plen s e : nat) : outcome (list row) :=
  do lb <- span_line_bytes c s e;
  do sl <- slice_range src (fst lb) (snd lb);
  underline_go fixed c src plen (if fixed then split_nl sl else rust_lines sl) s e.

Definition underline_span := underline_span_gen true.
Definition underline_span_orig := underline_span_gen false.

(* file_location_msg(msg, Some(span)): the (line, col) printed after the path *)
Definition file_location (c : cache) (src : list N) (s : nat) : outcome (nat * nat) :=
  do r <- byte_to_line_col c src s;
  Done (match r with Some p => p | None => (0, 0) end).

(* format_spanned: for each span the "..." decision and the rows.
   [next_line - line] is a usize subtraction: with overflow checks
   ([checked = true], debug builds) it panics when the next span starts on an
   earlier line; without them it wraps to a value > 1.
   (A SpansKind::Error value with more than one span hits unreachable!(): the
   mirror is of the other kinds.) *)
Fixpoint format_spanned_go (fixed checked : bool) (c : cache) (src : list N)
         (spans : list (nat * nat)) : outcome (list (bool * list row)) :=
  match spans with
  | [] => Done []
  | (s, e) :: rest =>
      do lc <- file_location c src s;
      let line := fst lc in
      do next_line <-
        match rest with
        | [] => Done line
        | (s2, _) :: _ =>
            do r <- byte_to_line_num c s2;
            Done (match r with Some l => l | None => line end)
        end;
      do dots <- (if next_line <? line
                  then (if checked then Panic else Done true)
                  else Done (1 <? next_line - line));
      do rows <- underline_span_gen fixed c src (if dots then 3 else 0) s e;
      do more <- format_spanned_go fixed checked c src rest;
      Done ((dots, rows) :: more)
  end.

(* Vec::dedup on the (start, end) pairs *)
Fixpoint dedup_pairs (l : list (nat * nat)) : list (nat * nat) :=
  match l with
  | [] => []
  | x :: l' =>
      match l' with
      | [] => [x]
      | y :: _ =>
          if (fst x =? fst y) && (snd x =? snd y) then dedup_pairs l' else x :: dedup_pairs l'
      end
  end.

Fixpoint map_outcome {A B} (f : A -> outcome B) (l : list A) : outcome (list B) :=
  match l with
  | [] => Done []
  | a :: l' => do b <- f a; do bs <- map_outcome f l'; Done (b :: bs)
  end.

(* the underline / gap loop of underline_spans_on_line_with_text: for each span
   its underlined text and the text between it and the next span *)
Fixpoint under_gaps (src : list N) (spans : list (nat * nat)) : outcome (list (list N * list N)) :=
  match spans with
  | [] => Done []
  | (s, e) :: rest =>
      do u <- slice_range src s e;
      do g <- match rest with
              | [] => Done []
              | (s2, _) :: _ => slice_range src e s2
              end;
      do more <- under_gaps src rest;
      Done ((u, g) :: more)
  end.

Record line_row := {
  lr_num : nat;                         (* line number printed *)
  lr_text : list N;                     (* source text printed *)
  lr_indent : list N;                   (* width = indentation *)
  lr_segs : list (list N * list N)      (* per span: underlined text, gap to the next span *)
}.

(* blanks before the first underline: width(src[line_start..first.start]) + digits + "| ".len() *)
Definition line_row_indent_cols (width : list N -> nat) (lr : line_row) : nat :=
  width (lr_indent lr) + (ndigits (lr_num lr) + 2).
(* per span: underline characters (width.max(1)) and blanks up to the next span *)
Definition seg_cols (width : list N -> nat) (seg : list N * list N) : nat * nat :=
  (Nat.max 1 (width (fst seg)), width (snd seg)).

(* underline_spans_on_line_with_text (private; reached from format_conflicts) *)
Definition spans_on_line (c : cache) (src : list N) (spans : list (nat * nat)) : outcome line_row :=
  do lines <- map_outcome (fun sp => span_line_bytes c (fst sp) (snd sp)) spans;
  if negb (length (dedup_pairs lines) =? 1) then Panic else      (* assert!(lines.len() == 1) *)
  match spans with
  | [] => Panic                                                 (* peek().unwrap() *)
  | (s1, e1) :: _ =>
      do lc <- byte_to_line_col c src s1;
      match lc with
      | None => Panic
      | Some (line_num, _) =>
          do lb <- span_line_bytes c s1 e1;
          do txt <- slice_range src (fst lb) (snd lb);
          do ind <- slice_range src (fst lb) s1;
          do segs <- under_gaps src spans;
          Done {| lr_num := line_num; lr_text := txt; lr_indent := ind; lr_segs := segs |}
      end
  end.

(* ---- what the correspondence check evaluates --------------------------- *)

(* UnicodeWidthStr::width (unicode-width 0.1.14, non-CJK) restricted to the
   characters the correspondence uses — ASCII (tab included), U+00E9, U+2660,
   U+4E2D, U+1F600 — : '\n' is 0, a '\r' directly before '\n' is 0, every other
   character up to U+00A0 is 1 (control characters included), U+4E2D and
   U+1F600 are 2, U+00E9 and U+2660 are 1.  This is NOT a model of the width
   tables (it is wrong outside that alphabet); the theorems quantify over
   every width function. *)
Definition char_width (ch : N) : nat :=
  if (ch =? NL)%N then 0
  else if ((ch =? 20013) || (ch =? 128512))%N then 2
  else 1.
Fixpoint corpus_width (s : list N) : nat :=
  match s with
  | [] => 0
  | ch :: s' =>
      (if (ch =? CR)%N && starts_with_nl s' then 0 else char_width ch) + corpus_width s'
  end.

Definition diag_case (fixed : bool) (plen : nat) (text : list N)
  : outcome (list (nat * nat * outcome (list row)) * list (nat * outcome (nat * nat))) :=
  do c <- cache_of text;
  let bs := boundaries text in
  let pairs := flat_map (fun s => map (fun e => (s, e)) (filter (fun e => s <=? e) bs)) bs in
  Done (map (fun '(s, e) => (s, e, underline_span_gen fixed c text plen s e)) pairs,
        map (fun off => (off, file_location c text off)) (bs ++ [byte_len text + 1])).

Definition spanned_case (fixed checked : bool) (text : list N) (spans : list (nat * nat))
  : outcome (list (bool * list row)) :=
  do c <- cache_of text; format_spanned_go fixed checked c text spans.

Definition on_line_case (text : list N) (spans : list (nat * nat)) : outcome line_row :=
  do c <- cache_of text; spans_on_line c text spans.
