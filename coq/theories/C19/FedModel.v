(* C19 — mirror of the lexer-level position queries that error pretty-printing
   goes through (lrlex/src/lib/lexer.rs, LRNonStreamingLexer::line_col; used by
   LexParseError::pp, lrpar/src/lib/parser.rs), on top of the NewlineCache
   mirror of Model.v.

   LRNonStreamingLexer::new(s, lexemes, newlines) takes the text AND a cache
   from its caller and does not relate them: the cache [c] below is therefore
   a separate argument, not [cache_of s].  byte_to_line_num_and_col_num
   answers None when the byte length of the text it is handed differs from
   what the cache was fed (Model.byte_to_line_col: [negb (byte_len src =? fl)],
   Rust: [src.len() != self.feed_len()]); line_col unwraps that answer.

   Definitions only. *)
From Coq Require Import List Arith NArith Bool.
From GV Require Import Common.Outcome C19.Model.
Import ListNotations.

(* NonStreamingLexer::line_col(Span(st, en)) of a lexer built with
   LRNonStreamingLexer::new(s, _, c).  [checked] = debug build
   (debug_assert!(span.end() >= span.start())).  The two positions are
   computed, and unwrapped, in this order. *)
Definition lexer_line_col (checked : bool) (c : cache) (s : list N) (st en : nat)
  : outcome ((nat * nat) * (nat * nat)) :=
  if checked && (en <? st) then Panic else            (* debug_assert! *)
  if byte_len s <? en then Panic else                  (* panic!("Span .. exceeds known input length ..") *)
  do a <- byte_to_line_col c s st;
  match a with
  | None => Panic                                      (* .unwrap() *)
  | Some p =>
      do b <- byte_to_line_col c s en;
      match b with
      | None => Panic                                  (* .unwrap() *)
      | Some q => Done (p, q)
      end
  end.

(* the (line, column) LexParseError::pp prints for an error whose span /
   lexeme span is (st, en): let ((line, col), _) = lexer.line_col(span) *)
Definition pp_position (checked : bool) (c : cache) (s : list N) (st en : nat)
  : outcome (nat * nat) :=
  do r <- lexer_line_col checked c s st en; Done (fst r).
