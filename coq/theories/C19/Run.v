(* C19 — what the correspondence check evaluates on the model side: the same
   queries the Rust harness (harness/src/c19.rs) makes on the implementation. *)
From Coq Require Import List Arith NArith Bool.
From GV Require Import Common.Outcome C19.Model.
Import ListNotations.

Record case_result := {
  cr_len : nat;
  cr_line_nums : list (nat * outcome (option nat));            (* every byte offset 0..len+1 *)
  cr_line_bytes : list (nat * outcome (option nat));           (* byte_to_line_byte, every byte offset 0..len+1 *)
  cr_line_cols : list (nat * outcome (option (nat * nat)));    (* every boundary, and len+1 *)
  cr_spans : list (nat * nat * outcome (nat * nat))            (* every boundary pair s <= e *)
}.

Fixpoint pairs_from (l : list nat) : list (nat * nat) :=
  match l with
  | [] => []
  | s :: l' => map (fun e => (s, e)) (s :: l') ++ pairs_from l'
  end.

Definition run_case (chunks : list (list N)) : outcome case_result :=
  do c <- feed_all empty chunks;
  let text := concat chunks in
  let len := byte_len text in
  let bs := boundaries text in
  Done {| cr_len := len;
          cr_line_nums := map (fun off => (off, byte_to_line_num c off)) (seq 0 (len + 2));
          cr_line_bytes := map (fun off => (off, byte_to_line_byte c off)) (seq 0 (len + 2));
          cr_line_cols := map (fun off => (off, byte_to_line_col c text off)) (bs ++ [len + 1]);
          cr_spans := map (fun '(s, e) => (s, e, span_line_bytes c s e)) (pairs_from bs) |}.
