(* C19 — proofs of the statements of FedSpec.v. *)
From Coq Require Import List Arith NArith Bool Lia.
From GV Require Import Common.Outcome C19.Model C19.Spec C19.Proofs C19.FedModel C19.FedSpec.
Import ListNotations.

Lemma line_col_requires_fed_cache : line_col_requires_fed_cache_stmt.
Proof.
  intros fed text c off Hc Hlen. apply cache_of_repr in Hc.
  unfold byte_to_line_col. rewrite (feed_len_repr c fed Hc). cbn [obind].
  destruct (Nat.eqb_spec (byte_len text) (byte_len fed)) as [E|E]; [congruence|].
  cbn [negb]. rewrite orb_true_r. reflexivity.
Qed.

Lemma line_col_total_on_fed_cache : line_col_total_on_fed_cache_stmt.
Proof.
  intros text c off Hc Hb.
  destruct (line_col_spec text c off Hc Hb) as (st & _ & H).
  eexists _, _. exact H.
Qed.

Lemma lexer_line_col_unfed_panics : lexer_line_col_unfed_panics_stmt.
Proof.
  intros checked fed text c st en Hc Hlen.
  assert (H : lexer_line_col checked c text st en = Panic).
  { unfold lexer_line_col.
    destruct (checked && (en <? st)); [reflexivity|].
    destruct (byte_len text <? en); [reflexivity|].
    rewrite (line_col_requires_fed_cache fed text c st Hc Hlen). reflexivity. }
  split; [exact H|]. unfold pp_position. rewrite H. reflexivity.
Qed.

Lemma boundary_le text off : boundary text off -> off <= byte_len text.
Proof.
  intros Hb. apply boundary_split in Hb. destruct Hb as (t1 & t2 & -> & ->).
  rewrite byte_len_app. lia.
Qed.

Lemma lexer_line_col_total_on_fed_cache : lexer_line_col_total_on_fed_cache_stmt.
Proof.
  intros checked text c st en Hc Hs He Hle.
  destruct (line_col_spec text c st Hc Hs) as (ls & Hls & H1).
  destruct (line_col_spec text c en Hc He) as (le & Hle' & H2).
  exists ls, le. split; [exact Hls|]. split; [exact Hle'|].
  assert (H : lexer_line_col checked c text st en =
              Done ((line_spec text st, col_spec text ls st), (line_spec text en, col_spec text le en))).
  { unfold lexer_line_col.
    rewrite (proj2 (Nat.ltb_ge en st)) by exact Hle. rewrite andb_false_r.
    pose proof (boundary_le text en He) as Hen.
    rewrite (proj2 (Nat.ltb_ge (byte_len text) en)) by exact Hen.
    rewrite H1. cbn [obind]. rewrite H2. reflexivity. }
  split; [exact H|]. unfold pp_position. rewrite H. reflexivity.
Qed.

Lemma cache_of_nil : cache_of [] = Done empty.
Proof. reflexivity. Qed.

Lemma lexer_line_col_empty_cache_iff : lexer_line_col_empty_cache_iff_stmt.
Proof.
  intros checked text st en Hs He Hle. split.
  - intros Hd. destruct text as [|ch text']; [reflexivity|exfalso].
    assert (Hlen : byte_len (@nil N) <> byte_len (ch :: text')).
    { cbn [byte_len]. pose proof (len_utf8_pos ch). lia. }
    destruct (lexer_line_col_unfed_panics checked [] (ch :: text') empty st en cache_of_nil Hlen)
      as [_ Hp].
    rewrite Hp in Hd. discriminate Hd.
  - intros ->.
    destruct (lexer_line_col_total_on_fed_cache checked [] empty st en cache_of_nil Hs He Hle)
      as (ls & le & _ & _ & _ & Hp).
    rewrite Hp. reflexivity.
Qed.

(* ---- the hypotheses are satisfiable: the auditor's input "2 +" ---------- *)

Definition two_plus : list N := [50; 32; 43]%N.

(* the example's cache (never fed) and the text "2 +": the answer is None at the
   error's offset 3, line_col / pp panic *)
Example unfed_witness :
  cache_of [] = Done empty /\ byte_len (@nil N) <> byte_len two_plus /\
  byte_to_line_col empty two_plus 3 = Done None /\
  pp_position false empty two_plus 3 3 = Panic.
Proof. vm_compute. repeat split; congruence. Qed.

(* the repaired example (cache fed the text): "Parsing error at line 1 column 4." *)
Example fed_witness :
  exists c, cache_of two_plus = Done c /\ boundary two_plus 3 /\
    byte_to_line_col c two_plus 3 = Done (Some (1, 4)) /\
    pp_position false c two_plus 3 3 = Done (1, 4) /\
    pp_position true c two_plus 0 3 = Done (1, 1).
Proof.
  eexists. split; [vm_compute; reflexivity|]. vm_compute. repeat split. auto 10.
Qed.

(* a span on the empty text with the never-fed cache: the one case that works *)
Example empty_cache_empty_text :
  boundary [] 0 /\ pp_position true empty [] 0 0 = Done (1, 1).
Proof. vm_compute. split; [left; reflexivity|reflexivity]. Qed.
