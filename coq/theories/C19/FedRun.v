(* C19 — what the correspondence check evaluates on the model side for
   (a) format_conflicts on grammars whose conflicts name added productions:
       per span the grammar reports, the rows underline_span_with_text prints
       and the (line, col) file_location_msg prints for its start;
   (b) the in-tree example programs: the (line, col) pp / line_col print for a
       span of one stdin line [text], lexer built by LRNonStreamingLexer::new
       with the cache of [fed]: [fed = text] is the repaired example,
       [fed = []] (NewlineCache::new(), never fed) the example before its
       repair. *)
From Coq Require Import List Arith NArith Bool.
From GV Require Import Common.Outcome C19.Model C19.Diag C19.FedModel.
Import ListNotations.

Definition diag_spans_case (text : list N) (spans : list (nat * nat))
  : outcome (list (nat * nat * outcome (list row) * outcome (nat * nat))) :=
  do c <- cache_of text;
  Done (map (fun '(s, e) => (s, e, underline_span c text 0 s e, file_location c text s)) spans).

Definition lexer_case (checked : bool) (fed text : list N) (spans : list (nat * nat))
  : outcome (list (nat * nat * outcome (nat * nat) * outcome ((nat * nat) * (nat * nat)))) :=
  do c <- cache_of fed;
  Done (map (fun '(s, e) => (s, e, pp_position checked c text s e, lexer_line_col checked c text s e)) spans).
