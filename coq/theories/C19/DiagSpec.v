(* C19 — declarative specification of what the span pretty-printer
   (SpannedDiagnosticFormatter) must print, written from the text alone with
   the vocabulary of Spec.v ([line_spec], [is_line_start], [line_end_spec],
   [chars_between], [col_spec]); statements about the mirror of Diag.v. *)
From Coq Require Import List Arith NArith Bool Lia.
From GV Require Import Common.Outcome C19.Model C19.Spec C19.Diag.
Import ListNotations.

(* [content] is the text of the line occupying the bytes [st, en) of [text]
   without its line terminator: [en] is the offset of the '\n' ending the line
   or the end of the text; a line ended by '\n' whose last character is '\r'
   is ended by "\r\n" and that '\r' is not part of its text (a '\r' that is not
   followed by '\n' is an ordinary character, as for the column count) *)
Definition line_text_spec (text : list N) (st en : nat) (content : list N) : Prop :=
  let raw := chars_between text 0 st en in
  if en <? byte_len text
  then (exists body, raw = body ++ [CR] /\ content = body) \/
       ((forall body, raw <> body ++ [CR]) /\ content = raw)
  else content = raw.

(* [r] is the row to print for line number [L] of [text] when the span [s, e)
   is underlined: the line number, the line's text, and the part of the span
   lying on this line — from max(s, line start) to min(e, line end) —
   positioned by the text between the line start and it *)
Definition row_ok (text : list N) (s e L : nat) (r : row) : Prop :=
  exists st en,
    is_line_start text st /\ line_spec text st = L /\ line_end_spec text st en /\
    r_num r = L /\
    line_text_spec text st en (r_text r) /\
    r_indent r = chars_between text 0 st (Nat.max s st) /\
    r_under r = chars_between text 0 (Nat.max s st) (Nat.min e en).

(* exactly one row per line from the line of [s] to the line of [e], in order *)
Definition rows_ok (text : list N) (s e : nat) (rows : list row) : Prop :=
  length rows = line_spec text e - line_spec text s + 1 /\
  forall i r, nth_error rows i = Some r -> row_ok text s e (line_spec text s + i) r.

(* ---- statements ---------------------------------------------------------- *)

(* the row specification leaves no freedom: it determines the rows *)
Definition rows_spec_determinate_stmt : Prop :=
  forall text s e rows1 rows2, rows_ok text s e rows1 -> rows_ok text s e rows2 -> rows1 = rows2.

(* the repaired prefixed_underline_span_with_text: for every text, every prefix
   the code accepts and every span on character boundaries it does not panic
   and prints exactly the lines of the span, each with its number, its text
   and the part of the span on it *)
Definition underline_rows_spec_stmt : Prop :=
  forall text c plen s e, cache_of text = Done c -> plen <= 3 ->
    boundary text s -> boundary text e -> s <= e ->
    exists rows, underline_span c text plen s e = Done rows /\ rows_ok text s e rows.

(* consequence spelled out: at least one row (so the message is printed), and
   every underline is at least one column wide whatever the width function *)
Definition underline_nonempty_stmt : Prop :=
  forall text c plen s e, cache_of text = Done c -> plen <= 3 ->
    boundary text s -> boundary text e -> s <= e ->
    exists r rows, underline_span c text plen s e = Done (r :: rows) /\
      forall width r', In r' (r :: rows) -> 1 <= row_under_cols width r'.

(* a prefix longer than "0| " trips the assert (whenever a row is printed) *)
Definition underline_long_prefix_stmt : Prop :=
  forall text c plen s e, cache_of text = Done c -> 3 < plen ->
    boundary text s -> boundary text e -> s <= e ->
    underline_span c text plen s e = Panic.

(* the pinned code, on a text with "\r\n" line endings and a span over more
   than one line, panics (it takes the '\n' of the first line for the start of
   the second, 2 bytes too early: a second line shorter than that underflows,
   a third line always does) ... *)
Definition underline_orig_crlf_panic_refuted_stmt : Prop :=
  exists text c s e, cache_of text = Done c /\
    boundary text s /\ boundary text e /\ s <= e /\
    underline_span_orig c text 0 s e = Panic.

(* ... or, when it gets through, prints the second line under the number of
   the first ... *)
Definition underline_orig_crlf_line_refuted_stmt : Prop :=
  exists text c s e rows, cache_of text = Done c /\
    boundary text s /\ boundary text e /\ s <= e /\
    underline_span_orig c text 0 s e = Done rows /\
    exists i r, nth_error rows i = Some r /\ r_num r <> line_spec text s + i.

(* ... on a span lying on an empty last line (e.g. the end of a text that ends
   in '\n', or of the empty text) it prints nothing, not even the message ... *)
Definition underline_orig_empty_refuted_stmt : Prop :=
  exists text c s e, cache_of text = Done c /\
    boundary text s /\ boundary text e /\ s <= e /\
    underline_span_orig c text 0 s e = Done [].

(* ... and on a single "\r\n"-terminated line it prints the '\r' as part of the
   line's text *)
Definition underline_orig_cr_text_refuted_stmt : Prop :=
  exists text c s e r, cache_of text = Done c /\
    boundary text s /\ boundary text e /\ s <= e /\
    underline_span_orig c text 0 s e = Done [r] /\
    ~ row_ok text s e (line_spec text s) r.

(* file_location_msg reports the line and column of the span's start
   (0:0 past the end of the text) *)
Definition file_location_spec_stmt : Prop :=
  forall text c off, cache_of text = Done c -> boundary text off ->
    exists st, line_start_spec text off st /\
      file_location c text off = Done (line_spec text off, col_spec text st off).

Definition file_location_out_of_range_stmt : Prop :=
  forall text c off, cache_of text = Done c -> byte_len text < off ->
    file_location c text off = Done (0, 0).

(* format_spanned (with the repaired row printer): for spans on character
   boundaries whose starts do not decrease it does not panic (in either build
   profile), prints for each span its rows, and marks a span with "..." exactly
   when the next span starts more than one line further down *)
Fixpoint starts_sorted (spans : list (nat * nat)) : Prop :=
  match spans with
  | [] => True
  | (s, _) :: rest =>
      match rest with
      | [] => True
      | (s2, _) :: _ => s <= s2 /\ starts_sorted rest
      end
  end.

Definition span_ok (text : list N) (sp : nat * nat) : Prop :=
  boundary text (fst sp) /\ boundary text (snd sp) /\ fst sp <= snd sp.

Definition next_start (rest : list (nat * nat)) (s : nat) : nat :=
  match rest with [] => s | (s2, _) :: _ => s2 end.

Fixpoint blocks_ok (text : list N) (spans : list (nat * nat)) (blocks : list (bool * list row)) : Prop :=
  match spans, blocks with
  | [], [] => True
  | (s, e) :: rest, (dots, rows) :: more =>
      (dots = true <-> 1 < line_spec text (next_start rest s) - line_spec text s) /\
      rows_ok text s e rows /\ blocks_ok text rest more
  | _, _ => False
  end.

Definition format_spanned_spec_stmt : Prop :=
  forall text c checked spans, cache_of text = Done c ->
    Forall (span_ok text) spans -> starts_sorted spans ->
    exists blocks, format_spanned_go true checked c text spans = Done blocks /\
      blocks_ok text spans blocks.

(* the order hypothesis is needed: with overflow checks (debug builds) a later
   span starting on an earlier line panics in [next_line - line]; without them
   the difference wraps and "..." is printed.  (Out of the domain: the spans of
   an error are produced in text order.) *)
Definition format_spanned_unsorted_panics_stmt : Prop :=
  exists text c spans, cache_of text = Done c /\ Forall (span_ok text) spans /\
    format_spanned_go true true c text spans = Panic.

(* underline_spans_on_line_with_text: for a non-empty list of spans on
   character boundaries that all lie on one line, in left-to-right order and
   not overlapping (the documented precondition), it does not panic and prints
   that line once, the underlined texts being the spans and the gaps the text
   between consecutive spans *)
Fixpoint spans_chain (spans : list (nat * nat)) : Prop :=
  match spans with
  | [] => True
  | (_, e) :: rest =>
      match rest with
      | [] => True
      | (s2, _) :: _ => e <= s2 /\ spans_chain rest
      end
  end.

Fixpoint segs_ok (text : list N) (spans : list (nat * nat)) (segs : list (list N * list N)) : Prop :=
  match spans, segs with
  | [], [] => True
  | (s, e) :: rest, (u, g) :: more =>
      u = chars_between text 0 s e /\
      g = chars_between text 0 e (next_start rest e) /\
      segs_ok text rest more
  | _, _ => False
  end.

Definition spans_on_line_spec_stmt : Prop :=
  forall text c s1 e1 rest st en, cache_of text = Done c ->
    Forall (span_ok text) ((s1, e1) :: rest) -> spans_chain ((s1, e1) :: rest) ->
    line_start_spec text s1 st -> line_end_spec text s1 en ->
    Forall (fun sp => snd sp <= en) ((s1, e1) :: rest) ->
    exists lr, spans_on_line c text ((s1, e1) :: rest) = Done lr /\
      lr_num lr = line_spec text s1 /\
      lr_text lr = chars_between text 0 st en /\
      lr_indent lr = chars_between text 0 st s1 /\
      segs_ok text ((s1, e1) :: rest) (lr_segs lr).
