(* C19 — declarative specification of lines, columns and "lines of a span",
   written without reference to the cache: everything is defined from the
   text alone. *)
From Coq Require Import List Arith NArith Bool Lia.
From GV Require Import Common.Outcome C19.Model.
Import ListNotations.

(* byte offsets of the '\n' characters of a text *)
Fixpoint nlpos_from (s : list N) (off : nat) : list nat :=
  match s with
  | [] => []
  | ch :: s' => if (ch =? NL)%N then off :: nlpos_from s' (off + 1)
                else nlpos_from s' (off + len_utf8 ch)
  end.
Definition nlpos (s : list N) : list nat := nlpos_from s 0.

(* "one plus the number of newlines before the offset" *)
Definition line_spec (text : list N) (off : nat) : nat :=
  1 + length (filter (fun p => p <? off) (nlpos text)).

(* p is the byte offset at which some line of the text starts *)
Definition is_line_start (text : list N) (p : nat) : Prop :=
  p = 0 \/ exists q, In q (nlpos text) /\ p = q + 1.

(* st is the start of the line containing offset s *)
Definition line_start_spec (text : list N) (s st : nat) : Prop :=
  is_line_start text st /\ st <= s /\
  forall p, is_line_start text p -> p <= s -> p <= st.

(* en is the end (newline excluded) of the line containing offset e, an offset
   at a line start belonging to the line it starts: the first '\n' at or after
   e, or the end of the text *)
Definition line_end_spec (text : list N) (e en : nat) : Prop :=
  (In en (nlpos text) \/ en = byte_len text) /\ e <= en /\
  forall p, In p (nlpos text) -> e <= p -> en <= p.

(* the characters of [text] that lie in the byte range [from, to) — both on
   character boundaries *)
Fixpoint chars_between (s : list N) (off from to : nat) : list N :=
  match s with
  | [] => []
  | ch :: s' =>
      (if (from <=? off) && (off <? to) then [ch] else []) ++
      chars_between s' (off + len_utf8 ch) from to
  end.

Definition char_at (s : list N) (off : nat) : option N :=
  match chars_between s 0 off (off + 1) with ch :: _ => Some ch | [] => None end.

(* "one plus the number of characters since the line began (a CR LF pair
   counting once)": the LF of a CR LF pair has the column of its CR *)
Definition col_spec (text : list N) (st off : nat) : nat :=
  let seg := chars_between text 0 st off in
  match char_at text off, rev seg with
  | Some ch, prev :: _ =>
      if (ch =? NL)%N && (prev =? CR)%N then length seg else length seg + 1
  | _, _ => length seg + 1
  end.

(* off is a character boundary of text (its end included) *)
Definition boundary (text : list N) (off : nat) : Prop := In off (boundaries text).

(* ---- statements (proved in Proofs.v, exported in Properties/C19.v) ------ *)

(* feeding in pieces is feeding the concatenation *)
Definition feed_chunking_stmt : Prop :=
  forall chunks, feed_all empty chunks = cache_of (concat chunks).

Definition line_num_spec_stmt : Prop :=
  forall text c off, cache_of text = Done c -> off <= byte_len text ->
    byte_to_line_num c off = Done (Some (line_spec text off)).

Definition line_num_out_of_range_stmt : Prop :=
  forall text c off, cache_of text = Done c -> byte_len text < off ->
    byte_to_line_num c off = Done None.

(* byte_to_line_byte: the start of the line containing the offset *)
Definition line_byte_spec_stmt : Prop :=
  forall text c off, cache_of text = Done c -> off <= byte_len text ->
    exists st, byte_to_line_byte c off = Done (Some st) /\ line_start_spec text off st.

Definition line_byte_out_of_range_stmt : Prop :=
  forall text c off, cache_of text = Done c -> byte_len text < off ->
    byte_to_line_byte c off = Done None.

Definition line_col_spec_stmt : Prop :=
  forall text c off, cache_of text = Done c -> boundary text off ->
    exists st, line_start_spec text off st /\
      byte_to_line_col c text off = Done (Some (line_spec text off, col_spec text st off)).

Definition span_lines_spec_stmt : Prop :=
  forall text c s e, cache_of text = Done c -> s <= e -> e <= byte_len text ->
    exists st en, span_line_bytes c s e = Done (st, en) /\
      line_start_spec text s st /\ line_end_spec text e en.

Definition cache_of_total_stmt : Prop :=
  forall text, exists c, cache_of text = Done c.

(* the pinned original code panics on a span ending at the start of the last
   line when that line is not line 2 *)
Definition span_lines_orig_refuted_stmt : Prop :=
  exists text c s e, cache_of text = Done c /\ s <= e /\ e <= byte_len text /\
    span_line_bytes_orig c s e = Panic.
