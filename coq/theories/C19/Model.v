(* C19 — mirror of cfgrammar/src/lib/newlinecache.rs (NewlineCache) over texts
   given as lists of Unicode code points.  Byte offsets are UTF-8 byte
   offsets, computed with [len_utf8].  Every Rust panic site (unwrap, slice,
   index, [j - 1]) is an explicit [Panic] outcome.

   This file contains definitions only (so it still runs when a proof breaks);
   the declarative specification is in Spec.v, proofs in Proofs.v. *)
From Coq Require Import List Arith NArith Bool Lia.
From GV Require Import Common.Outcome.
Import ListNotations.

Definition NL : N := 10%N.
Definition CR : N := 13%N.

(* char::len_utf8 *)
Definition len_utf8 (c : N) : nat :=
  if (c <? 128)%N then 1
  else if (c <? 2048)%N then 2
  else if (c <? 65536)%N then 3
  else 4.

Fixpoint byte_len (s : list N) : nat :=
  match s with [] => 0 | c :: s' => len_utf8 c + byte_len s' end.

(* struct NewlineCache { newlines: Vec<usize>, trailing_bytes: usize } *)
Record cache := { newlines : list nat; trailing : nat }.

(* NewlineCache::new *)
Definition empty : cache := {| newlines := [0]; trailing := 0 |}.

(* self.newlines.last().unwrap() *)
Definition last_newline (c : cache) : outcome nat :=
  match rev (newlines c) with x :: _ => Done x | [] => Panic end.

(* feed_len *)
Definition feed_len (c : cache) : outcome nat :=
  do l <- last_newline c; Done (l + trailing c).

(* feed: [start_pos] is computed once, [off] is the char_indices offset inside
   [src]; a '\n' pushes [start_pos + off + 1] and zeroes trailing_bytes, any
   other char adds its UTF-8 length to trailing_bytes. *)
Fixpoint feed_go (src : list N) (start_pos off : nat) (nls : list nat) (tr : nat)
  : list nat * nat :=
  match src with
  | [] => (nls, tr)
  | ch :: src' =>
      if (ch =? NL)%N
      then feed_go src' start_pos (off + 1) (nls ++ [start_pos + off + 1]) 0
      else feed_go src' start_pos (off + len_utf8 ch) nls (tr + len_utf8 ch)
  end.

Definition feed (c : cache) (src : list N) : outcome cache :=
  do start_pos <- feed_len c;
  let '(nls, tr) := feed_go src start_pos 0 (newlines c) (trailing c) in
  Done {| newlines := nls; trailing := tr |}.

Fixpoint feed_all (c : cache) (chunks : list (list N)) : outcome cache :=
  match chunks with
  | [] => Done c
  | s :: rest => do c' <- feed c s; feed_all c' rest
  end.

(* NewlineCache::from_str *)
Definition cache_of (text : list N) : outcome cache := feed empty text.

(* .iter().enumerate().rev().find(|(_, &line_off)| line_off <= byte):
   index of the last element <= byte *)
Fixpoint rfind_le_go (l : list nat) (byte : nat) (i : nat) (best : option nat) : option nat :=
  match l with
  | [] => best
  | x :: l' => rfind_le_go l' byte (S i) (if x <=? byte then Some i else best)
  end.
Definition rfind_le (l : list nat) (byte : nat) : option nat := rfind_le_go l byte 0 None.

(* byte_to_line_num *)
Definition byte_to_line_num (c : cache) (byte : nat) : outcome (option nat) :=
  do fl <- feed_len c;
  if fl <? byte then Done None else
  do last_nl <- last_newline c;
  let last_byte := last_nl + trailing c in
  if (byte <? last_byte) && (last_nl <? byte) then Done (Some (length (newlines c)))
  else match rfind_le (newlines c) byte with
       | Some line_m1 => Done (Some (line_m1 + 1))
       | None => Panic
       end.

(* line_num_to_byte *)
Definition line_num_to_byte (c : cache) (line_num : nat) : outcome (option nat) :=
  if (length (newlines c) <? line_num) || (line_num =? 0) then Done None
  else do b <- nth_checked (newlines c) (line_num - 1); Done (Some b).

(* byte_to_line_byte *)
Definition byte_to_line_byte (c : cache) (byte : nat) : outcome (option nat) :=
  do ln <- byte_to_line_num c byte;
  match ln with None => Done None | Some n => line_num_to_byte c n end.

(* &src[i..] : panics when i is past the end or not on a char boundary *)
Fixpoint slice_from (src : list N) (i : nat) : outcome (list N) :=
  match i with
  | 0 => Done src
  | _ => match src with
         | [] => Panic
         | ch :: src' => if len_utf8 ch <=? i then slice_from src' (i - len_utf8 ch) else Panic
         end
  end.

(* the column loop of byte_to_line_num_and_col_num *)
Fixpoint col_loop (s : list N) (c_off target : nat) (column : nat) (skip_nl : bool) : nat :=
  match s with
  | [] => column
  | ch :: s' =>
      let hit := skip_nl && (ch =? NL)%N in           (* Some(c) == skip_char *)
      let column' := if hit then column else column + 1 in
      let skip1 := if hit then skip_nl else false in
      let skip2 := if (ch =? CR)%N then true else skip1 in
      if c_off =? target then column'
      else col_loop s' (c_off + len_utf8 ch) target column' skip2
  end.

(* byte_to_line_num_and_col_num *)
Definition byte_to_line_col (c : cache) (src : list N) (byte : nat) : outcome (option (nat * nat)) :=
  do fl <- feed_len c;
  if (fl <? byte) || negb (byte_len src =? fl) then Done None else
  do ln <- byte_to_line_num c byte;
  match ln with
  | None => Done None
  | Some line_num =>
      if byte =? byte_len src then
        do line_byte <- last_newline c;
        do rest <- slice_from src line_byte;
        Done (Some (length (newlines c), length rest + 1))
      else
        do lb <- line_num_to_byte c line_num;
        match lb with
        | None => Panic                      (* .unwrap() *)
        | Some line_byte =>
            do rest <- slice_from src line_byte;
            (* byte - line_byte: usize subtraction, panics (debug) / wraps when negative *)
            if byte <? line_byte then Panic else
            Done (Some (line_num, col_loop rest 0 (byte - line_byte) 0 false))
        end
  end.

(* [T]::binary_search on a strictly increasing slice: Ok(j) with l[j] = x, or
   Err(j) with j the insertion point.  On strictly increasing input the answer
   is unique, so a linear scan computes the same result (trusted: the
   documented contract of core::slice::binary_search). *)
Inductive bs_result := BsOk (j : nat) | BsErr (j : nat).
Fixpoint bsearch_go (l : list nat) (x : nat) (i : nat) : bs_result :=
  match l with
  | [] => BsErr i
  | y :: l' => if y =? x then BsOk i else if x <? y then BsErr i else bsearch_go l' x (S i)
  end.
Definition bsearch (l : list nat) (x : nat) : bs_result := bsearch_go l x 0.

(* span_line_bytes.  [fixed = true] is the code after the "fix:" commit
   (guard [st_line + j == len - 1]); [fixed = false] is the pinned original
   (guard [st_line + j == len - st_line]), kept for the _refuted witness. *)
Definition span_line_bytes_gen (fixed : bool) (c : cache) (s e : nat) : outcome (nat * nat) :=
  let nls := newlines c in
  let len := length nls in
  do st_pair <-
    match bsearch nls s with
    | BsOk j => do x <- nth_checked nls j; Done (x, j + 1)
    | BsErr j => if j =? 0 then Panic else do x <- nth_checked nls (j - 1); Done (x, j)
    end;
  let '(st, st_line) := st_pair in
  if len <? st_line then Panic else                     (* &self.newlines[st_line..] *)
  do en <-
    match bsearch (skipn st_line nls) e with
    | BsOk j =>
        if (if fixed then st_line + j =? len - 1 else st_line + j =? len - st_line)
        then feed_len c
        else do x <- nth_checked nls (st_line + j + 1);
             if x =? 0 then Panic else Done (x - 1)
    | BsErr j =>
        if st_line + j =? len then feed_len c
        else do x <- nth_checked nls (st_line + j);
             if x =? 0 then Panic else Done (x - 1)
    end;
  Done (st, en).

Definition span_line_bytes := span_line_bytes_gen true.
Definition span_line_bytes_orig := span_line_bytes_gen false.

(* ---- what the correspondence check evaluates --------------------------- *)

(* byte offsets of the character boundaries of a text, including its end *)
Fixpoint boundaries_from (s : list N) (off : nat) : list nat :=
  match s with
  | [] => [off]
  | ch :: s' => off :: boundaries_from s' (off + len_utf8 ch)
  end.
Definition boundaries (s : list N) : list nat := boundaries_from s 0.
