(* C19 — statements about the precondition of the line/column query: the cache
   must have been fed the text the query is handed.  (The shipped manual-lexer
   example built its lexer with NewlineCache::new(), i.e. [empty], and a
   non-empty line: every position it had to print was the unwrap of a None.) *)
From Coq Require Import List Arith NArith Bool.
From GV Require Import Common.Outcome C19.Model C19.Spec C19.FedModel.
Import ListNotations.

(* the None of byte_to_line_num_and_col_num: the cache was built from a text
   whose byte length differs from that of the text passed — at EVERY offset *)
Definition line_col_requires_fed_cache_stmt : Prop :=
  forall fed text c off, cache_of fed = Done c -> byte_len fed <> byte_len text ->
    byte_to_line_col c text off = Done None.

(* with the cache of the text itself and an in-range boundary offset the answer
   is Some (which Some: C19_line_col_spec) *)
Definition line_col_total_on_fed_cache_stmt : Prop :=
  forall text c off, cache_of text = Done c -> boundary text off ->
    exists l col, byte_to_line_col c text off = Done (Some (l, col)).

(* hence line_col — and pp, which prints its first component — panics for every
   span when the lexer was handed such a cache, in both build profiles ... *)
Definition lexer_line_col_unfed_panics_stmt : Prop :=
  forall checked fed text c st en, cache_of fed = Done c -> byte_len fed <> byte_len text ->
    lexer_line_col checked c text st en = Panic /\ pp_position checked c text st en = Panic.

(* ... and is total, with the specified lines and columns, when the cache is
   that of the lexer's text and the span lies on character boundaries *)
Definition lexer_line_col_total_on_fed_cache_stmt : Prop :=
  forall checked text c st en, cache_of text = Done c ->
    boundary text st -> boundary text en -> st <= en ->
    exists ls le,
      line_start_spec text st ls /\ line_start_spec text en le /\
      lexer_line_col checked c text st en =
        Done ((line_spec text st, col_spec text ls st), (line_spec text en, col_spec text le en)) /\
      pp_position checked c text st en = Done (line_spec text st, col_spec text ls st).

(* the example's lexer: NewlineCache::new() never fed.  Its position queries
   succeed exactly on the empty text. *)
Definition lexer_line_col_empty_cache_iff_stmt : Prop :=
  forall checked text st en, boundary text st -> boundary text en -> st <= en ->
    (is_done (pp_position checked empty text st en) = true <-> text = []).
