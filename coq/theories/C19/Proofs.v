(* C19 — proofs of the statements of Spec.v about the model of Model.v.

   Plan: [cache_of text] is always [Done (mk text)] where [mk text] has
   newlines [nls_of text = 0 :: map S (nlpos text)] (a strictly increasing
   list of line starts) and [last + trailing = byte_len text].  All queries are
   then characterised through counting functions on strictly increasing
   lists. *)
From Coq Require Import List Arith NArith Bool Lia Sorted.
From GV Require Import Common.Outcome C19.Model C19.Spec.
Import ListNotations.

(* ------------------------------------------------------------------------ *)
(* UTF-8 lengths                                                            *)

Lemma len_utf8_pos c : 1 <= len_utf8 c.
Proof.
  unfold len_utf8.
  destruct (c <? 128)%N, (c <? 2048)%N, (c <? 65536)%N; lia.
Qed.

Lemma len_utf8_NL c : (c =? NL)%N = true -> len_utf8 c = 1.
Proof. intros H. apply N.eqb_eq in H. subst c. reflexivity. Qed.

Lemma byte_len_app a b : byte_len (a ++ b) = byte_len a + byte_len b.
Proof.
  induction a as [|ch a IH]; cbn [byte_len app]; [reflexivity|]. rewrite IH. lia.
Qed.

Lemma byte_len_0 s : byte_len s = 0 -> s = [].
Proof.
  destruct s as [|ch s]; [reflexivity|]. cbn [byte_len].
  pose proof (len_utf8_pos ch). lia.
Qed.

(* ------------------------------------------------------------------------ *)
(* generic list facts                                                       *)

Lemma last_In (l : list nat) d : l <> [] -> In (last l d) l.
Proof.
  induction l as [|a l IH]; intros Hne; [congruence|].
  destruct l as [|b l]; [left; reflexivity|].
  right. apply IH. discriminate.
Qed.

Lemma last_nth (l : list nat) d : last l d = nth (length l - 1) l d.
Proof.
  induction l as [|a l IH]; [reflexivity|].
  destruct l as [|b l]; [reflexivity|].
  change (last (a :: b :: l) d) with (last (b :: l) d). rewrite IH.
  cbn [length]. replace (S (S (length l)) - 1) with (S (S (length l) - 1)) by lia.
  reflexivity.
Qed.

Lemma last_app_ne (l1 l2 : list nat) d : l2 <> [] -> last (l1 ++ l2) d = last l2 d.
Proof.
  intros Hne. destruct (exists_last Hne) as [l2' [a ->]].
  rewrite app_assoc, !last_last. reflexivity.
Qed.

Lemma StronglySorted_skipn (l : list nat) : StronglySorted lt l ->
  forall k, StronglySorted lt (skipn k l).
Proof.
  induction 1 as [|a l Hs IH Hall]; intros k.
  - destruct k; constructor.
  - destruct k as [|k]; cbn [skipn]; [constructor; assumption|apply IH].
Qed.

Lemma sorted_nth_lt l : StronglySorted lt l ->
  forall i j, i < j -> j < length l -> nth i l 0 < nth j l 0.
Proof.
  induction 1 as [|a l Hs IH Hall]; intros i j Hij Hj; cbn [length] in Hj; [lia|].
  destruct j as [|j]; [lia|]. destruct i as [|i]; cbn [nth].
  - rewrite Forall_forall in Hall. apply Hall. apply nth_In. lia.
  - apply IH; lia.
Qed.

Lemma sorted_nth_le l : StronglySorted lt l ->
  forall i j, i <= j -> j < length l -> nth i l 0 <= nth j l 0.
Proof.
  intros Hs i j Hij Hj. destruct (Nat.eq_dec i j) as [->|Hne]; [lia|].
  apply Nat.lt_le_incl. apply sorted_nth_lt; [assumption|lia|assumption].
Qed.

Lemma sorted_le_last l : StronglySorted lt l ->
  forall y, In y l -> y <= last l 0.
Proof.
  intros Hs y Hy. apply (In_nth _ _ 0) in Hy. destruct Hy as [i [Hi <-]].
  rewrite last_nth. apply sorted_nth_le; [assumption|lia|lia].
Qed.

(* counting *)
Definition cnt (f : nat -> bool) (l : list nat) : nat := length (filter f l).
Definition cle (l : list nat) (b : nat) : nat := cnt (fun y => y <=? b) l.
Definition clt (l : list nat) (b : nat) : nat := cnt (fun y => y <? b) l.

Lemma cnt_cons f a l : cnt f (a :: l) = (if f a then 1 else 0) + cnt f l.
Proof. unfold cnt. cbn [filter]. destruct (f a); reflexivity. Qed.

Lemma cnt_app f l1 l2 : cnt f (l1 ++ l2) = cnt f l1 + cnt f l2.
Proof. unfold cnt. rewrite filter_app, app_length. reflexivity. Qed.

Lemma cnt_le_length f l : cnt f l <= length l.
Proof.
  induction l as [|a l IH]; [unfold cnt; cbn; lia|].
  rewrite cnt_cons. cbn [length]. destruct (f a); lia.
Qed.

Lemma cnt_zero f l : (forall y, In y l -> f y = false) -> cnt f l = 0.
Proof.
  induction l as [|a l IH]; intros H; [reflexivity|].
  rewrite cnt_cons, (H a (or_introl eq_refl)), IH; [reflexivity|].
  intros y Hy. apply H. right. assumption.
Qed.

Lemma cnt_all f l : (forall y, In y l -> f y = true) -> cnt f l = length l.
Proof.
  induction l as [|a l IH]; intros H; [reflexivity|].
  rewrite cnt_cons, (H a (or_introl eq_refl)), IH; [reflexivity|].
  intros y Hy. apply H. right. assumption.
Qed.

Lemma cnt_map f (g : nat -> nat) l : cnt f (map g l) = cnt (fun x => f (g x)) l.
Proof.
  induction l as [|a l IH]; [reflexivity|].
  cbn [map]. rewrite !cnt_cons, IH. reflexivity.
Qed.

(* on a strictly increasing list the elements satisfying a downward closed
   predicate are exactly the first [cnt f l] ones *)
Lemma sorted_prefix f (Hdc : forall y z, f y = true -> z <= y -> f z = true) l :
  StronglySorted lt l ->
  forall i, i < length l -> (f (nth i l 0) = true <-> i < cnt f l).
Proof.
  induction 1 as [|a l Hs IH Hall]; intros i Hi; cbn [length] in Hi; [lia|].
  rewrite Forall_forall in Hall.
  rewrite cnt_cons. destruct (f a) eqn:Fa.
  - destruct i as [|i]; cbn [nth].
    + split; [lia|auto].
    + rewrite IH by lia. lia.
  - rewrite cnt_zero.
    + split; [|lia]. intros Hf. exfalso.
      assert (Hge : a <= nth i (a :: l) 0).
      { destruct i as [|i]; cbn [nth]; [lia|].
        apply Nat.lt_le_incl, Hall, nth_In. lia. }
      rewrite (Hdc _ _ Hf Hge) in Fa. discriminate.
    + intros y Hy. destruct (f y) eqn:Fy; [|reflexivity].
      rewrite (Hdc _ _ Fy (Nat.lt_le_incl _ _ (Hall y Hy))) in Fa. discriminate.
Qed.

Lemma le_dc b : forall y z, (y <=? b) = true -> z <= y -> (z <=? b) = true.
Proof. intros y z H Hz. apply Nat.leb_le in H. apply Nat.leb_le. lia. Qed.

Lemma lt_dc b : forall y z, (y <? b) = true -> z <= y -> (z <? b) = true.
Proof. intros y z H Hz. apply Nat.ltb_lt in H. apply Nat.ltb_lt. lia. Qed.

Lemma cle_prefix l b : StronglySorted lt l ->
  forall i, i < length l -> (nth i l 0 <= b <-> i < cle l b).
Proof.
  intros Hs i Hi. rewrite <- Nat.leb_le.
  apply (sorted_prefix (fun y => y <=? b) (le_dc b) l Hs i Hi).
Qed.

Lemma clt_prefix l b : StronglySorted lt l ->
  forall i, i < length l -> (nth i l 0 < b <-> i < clt l b).
Proof.
  intros Hs i Hi. rewrite <- Nat.ltb_lt.
  apply (sorted_prefix (fun y => y <? b) (lt_dc b) l Hs i Hi).
Qed.

(* the last element <= b of a strictly increasing list *)
Lemma sorted_last_le l b : StronglySorted lt l -> 1 <= cle l b ->
  let st := nth (cle l b - 1) l 0 in
  In st l /\ st <= b /\ forall p, In p l -> p <= b -> p <= st.
Proof.
  intros Hs Hk st. pose proof (cnt_le_length (fun y => y <=? b) l) as Hlen.
  fold (cle l b) in Hlen.
  split; [apply nth_In; lia|]. split.
  - apply cle_prefix; [assumption|lia|lia].
  - intros p Hp Hpb. apply (In_nth _ _ 0) in Hp. destruct Hp as [i [Hi <-]].
    apply sorted_nth_le; [assumption| |lia].
    apply (cle_prefix l b Hs i Hi) in Hpb. lia.
Qed.

(* ------------------------------------------------------------------------ *)
(* rfind_le and bsearch on strictly increasing lists                        *)

Lemma rfind_le_go_spec l b : StronglySorted lt l -> forall i best,
  rfind_le_go l b i best =
  if cle l b =? 0 then best else Some (i + cle l b - 1).
Proof.
  induction 1 as [|a l Hs IH Hall]; intros i best; [reflexivity|].
  rewrite Forall_forall in Hall.
  cbn [rfind_le_go]. rewrite IH. unfold cle in *. rewrite cnt_cons.
  destruct (a <=? b) eqn:Ea.
  - destruct (cnt (fun y => y <=? b) l) as [|c]; cbn [Nat.eqb Nat.add]; f_equal; lia.
  - rewrite cnt_zero; [reflexivity|].
    intros y Hy. apply Nat.leb_gt. apply Nat.leb_gt in Ea. apply Hall in Hy. lia.
Qed.

Lemma bsearch_go_spec l : StronglySorted lt l -> forall x i,
  match bsearch_go l x i with
  | BsOk j => j = i + clt l x /\ nth_error l (clt l x) = Some x /\ cle l x = S (clt l x)
  | BsErr j => j = i + clt l x /\ ~ In x l /\ cle l x = clt l x
  end.
Proof.
  induction 1 as [|a l Hs IH Hall]; intros x i.
  - cbn. split; [lia|]. split; [tauto|reflexivity].
  - rewrite Forall_forall in Hall. cbn [bsearch_go]. unfold cle, clt in *.
    rewrite !cnt_cons.
    destruct (a =? x) eqn:Eax.
    + apply Nat.eqb_eq in Eax. subst a.
      rewrite Nat.ltb_irrefl, Nat.leb_refl.
      rewrite !cnt_zero.
      * cbn. split; [lia|]. split; reflexivity.
      * intros y Hy. apply Hall in Hy. first [apply Nat.ltb_ge|apply Nat.leb_gt]; lia.
      * intros y Hy. apply Hall in Hy. first [apply Nat.ltb_ge|apply Nat.leb_gt]; lia.
    + apply Nat.eqb_neq in Eax. destruct (x <? a) eqn:Exa.
      * apply Nat.ltb_lt in Exa.
        rewrite (proj2 (Nat.ltb_ge a x)) by lia.
        rewrite (proj2 (Nat.leb_gt a x)) by lia.
        rewrite !cnt_zero.
        -- split; [lia|]. split; [|reflexivity].
           intros [Hin|Hin]; [lia|]. apply Hall in Hin. lia.
        -- intros y Hy. apply Hall in Hy. first [apply Nat.ltb_ge|apply Nat.leb_gt]; lia.
        -- intros y Hy. apply Hall in Hy. first [apply Nat.ltb_ge|apply Nat.leb_gt]; lia.
      * apply Nat.ltb_ge in Exa.
        rewrite (proj2 (Nat.ltb_lt a x)) by lia.
        rewrite (proj2 (Nat.leb_le a x)) by lia.
        specialize (IH x (S i)).
        destruct (bsearch_go l x (S i)) as [j|j]; destruct IH as (Hj & Hx & Hc).
        -- split; [lia|]. split; [exact Hx|]. cbn [Nat.add]. f_equal. exact Hc.
        -- split; [lia|]. split; [|cbn [Nat.add]; f_equal; exact Hc].
           intros [Hin|Hin]; [lia|]. exact (Hx Hin).
Qed.

(* ------------------------------------------------------------------------ *)
(* newline positions                                                        *)

Lemma nlpos_from_app a b k :
  nlpos_from (a ++ b) k = nlpos_from a k ++ nlpos_from b (k + byte_len a).
Proof.
  revert k. induction a as [|ch a IH]; intros k; cbn [app nlpos_from byte_len].
  - f_equal. lia.
  - destruct (ch =? NL)%N eqn:E.
    + rewrite (len_utf8_NL _ E), IH. cbn [app]. do 3 f_equal. lia.
    + rewrite IH. do 2 f_equal. lia.
Qed.

Lemma nlpos_from_bounds s : forall k x,
  In x (nlpos_from s k) -> k <= x < k + byte_len s.
Proof.
  induction s as [|ch s IH]; intros k x H; cbn [nlpos_from byte_len] in *.
  - destruct H.
  - pose proof (len_utf8_pos ch) as Hpos. destruct (ch =? NL)%N eqn:E.
    + rewrite (len_utf8_NL _ E). destruct H as [H|H]; [lia|]. apply IH in H. lia.
    + apply IH in H. lia.
Qed.

Lemma nlpos_from_sorted s : forall k, StronglySorted lt (nlpos_from s k).
Proof.
  induction s as [|ch s IH]; intros k; cbn [nlpos_from]; [constructor|].
  destruct (ch =? NL)%N eqn:E; [|apply IH].
  constructor; [apply IH|]. apply Forall_forall. intros x Hx.
  apply nlpos_from_bounds in Hx. lia.
Qed.

Lemma nlpos_from_not_nl s : Forall (fun ch => (ch =? NL)%N = false) s ->
  forall k, nlpos_from s k = [].
Proof.
  induction 1 as [|ch s Hch Hs IH]; intros k; cbn [nlpos_from]; [reflexivity|].
  rewrite Hch. apply IH.
Qed.

(* the list of line starts *)
Definition nls_of (t : list N) : list nat := 0 :: map S (nlpos t).

Lemma nls_of_ne t : nls_of t <> [].
Proof. discriminate. Qed.

Lemma nls_of_sorted t : StronglySorted lt (nls_of t).
Proof.
  unfold nls_of, nlpos. constructor.
  - generalize (nlpos_from_sorted t 0). generalize (nlpos_from t 0).
    induction 1 as [|a l Hs IH Hall]; cbn [map]; constructor; [assumption|].
    rewrite Forall_forall in *. intros y Hy. apply in_map_iff in Hy.
    destruct Hy as [z [<- Hz]]. apply Hall in Hz. lia.
  - apply Forall_forall. intros y Hy. apply in_map_iff in Hy.
    destruct Hy as [z [<- Hz]]. lia.
Qed.

Lemma nls_of_le t x : In x (nls_of t) -> x <= byte_len t.
Proof.
  intros [<-|H]; [lia|]. apply in_map_iff in H. destruct H as [z [<- Hz]].
  apply nlpos_from_bounds in Hz. lia.
Qed.

Lemma nls_of_app t1 t2 :
  nls_of (t1 ++ t2) = nls_of t1 ++ map S (nlpos_from t2 (byte_len t1)).
Proof.
  unfold nls_of, nlpos. rewrite nlpos_from_app, map_app. reflexivity.
Qed.

Lemma nls_of_line_start t p : In p (nls_of t) <-> is_line_start t p.
Proof.
  unfold is_line_start, nls_of. cbn [In]. rewrite in_map_iff. split.
  - intros [H|[q [H Hq]]]; [left; auto|right]. exists q. split; [assumption|lia].
  - intros [H|[q [Hq H]]]; [left; auto|right]. exists q. split; [lia|assumption].
Qed.

Lemma last_nls_le t : last (nls_of t) 0 <= byte_len t.
Proof. apply nls_of_le, last_In, nls_of_ne. Qed.

(* ------------------------------------------------------------------------ *)
(* the cache built from a text                                              *)

Definition repr (c : cache) (t : list N) : Prop :=
  newlines c = nls_of t /\ last (nls_of t) 0 + trailing c = byte_len t.

Definition mk (t : list N) : cache :=
  {| newlines := nls_of t; trailing := byte_len t - last (nls_of t) 0 |}.

Lemma repr_mk t : repr (mk t) t.
Proof.
  split; [reflexivity|]. cbn [mk trailing]. pose proof (last_nls_le t). lia.
Qed.

Lemma last_newline_repr c t : repr c t -> last_newline c = Done (last (nls_of t) 0).
Proof.
  intros [Hn _]. unfold last_newline. rewrite Hn.
  destruct (exists_last (nls_of_ne t)) as [l' [a Hl]]. rewrite Hl.
  rewrite rev_unit, last_last. reflexivity.
Qed.

Lemma feed_len_repr c t : repr c t -> feed_len c = Done (byte_len t).
Proof.
  intros Hr. unfold feed_len. rewrite (last_newline_repr c t Hr). cbn [obind].
  destruct Hr as [_ Hl]. rewrite Hl. reflexivity.
Qed.

Lemma feed_go_spec src : forall sp off nls tr,
  nls <> [] -> last nls 0 + tr = sp + off ->
  exists nls' tr', feed_go src sp off nls tr = (nls', tr') /\
    nls' = nls ++ map S (nlpos_from src (sp + off)) /\
    last nls' 0 + tr' = sp + off + byte_len src.
Proof.
  induction src as [|ch src IH]; intros sp off nls tr Hne Hl.
  - exists nls, tr. cbn [feed_go nlpos_from map byte_len]. rewrite app_nil_r.
    split; [reflexivity|]. split; [reflexivity|lia].
  - cbn [feed_go nlpos_from byte_len]. destruct (ch =? NL)%N eqn:E.
    + destruct (IH sp (off + 1) (nls ++ [sp + off + 1]) 0) as (nls' & tr' & Hgo & Hn & Hl').
      * intros H. apply app_eq_nil in H. destruct H as [_ H]. discriminate.
      * rewrite last_last. lia.
      * exists nls', tr'. split; [exact Hgo|]. rewrite (len_utf8_NL _ E). split; [|lia].
        rewrite Hn, <- app_assoc. cbn [map app]. do 2 f_equal; [lia|].
        do 2 f_equal. lia.
    + destruct (IH sp (off + len_utf8 ch) nls (tr + len_utf8 ch)) as (nls' & tr' & Hgo & Hn & Hl').
      * exact Hne.
      * lia.
      * exists nls', tr'. split; [exact Hgo|]. split; [|lia].
        rewrite Hn. do 3 f_equal. lia.
Qed.

Lemma feed_repr c t1 t2 : repr c t1 -> feed c t2 = Done (mk (t1 ++ t2)).
Proof.
  intros Hr. unfold feed. rewrite (feed_len_repr c t1 Hr). cbn [obind].
  destruct Hr as [Hn Hl].
  destruct (feed_go_spec t2 (byte_len t1) 0 (newlines c) (trailing c))
    as (nls' & tr' & Hgo & Hn' & Hl').
  - rewrite Hn. apply nls_of_ne.
  - rewrite Hn. lia.
  - rewrite Hgo. f_equal. unfold mk.
    assert (Hnls : nls' = nls_of (t1 ++ t2)).
    { rewrite Hn', Hn, nls_of_app. do 3 f_equal. lia. }
    rewrite <- Hnls. f_equal. rewrite byte_len_app. lia.
Qed.

Lemma cache_of_mk t : cache_of t = Done (mk t).
Proof.
  unfold cache_of. change empty with (mk []).
  rewrite (feed_repr (mk []) [] t (repr_mk [])). reflexivity.
Qed.

Lemma cache_of_repr t c : cache_of t = Done c -> repr c t.
Proof.
  rewrite cache_of_mk. intros H. injection H as <-. apply repr_mk.
Qed.

Lemma feed_all_mk chunks : forall t,
  feed_all (mk t) chunks = Done (mk (t ++ concat chunks)).
Proof.
  induction chunks as [|s rest IH]; intros t; cbn [feed_all concat].
  - rewrite app_nil_r. reflexivity.
  - rewrite (feed_repr (mk t) t s (repr_mk t)). cbn [obind].
    rewrite IH, app_assoc. reflexivity.
Qed.

(* ------------------------------------------------------------------------ *)
(* statements 1: chunking, totality                                         *)

Lemma feed_chunking : feed_chunking_stmt.
Proof.
  intros chunks. rewrite cache_of_mk. change empty with (mk []).
  rewrite feed_all_mk. reflexivity.
Qed.

Lemma cache_of_total : cache_of_total_stmt.
Proof. intros text. exists (mk text). apply cache_of_mk. Qed.

(* ------------------------------------------------------------------------ *)
(* byte_to_line_num                                                         *)

Lemma cle_nls_pos t off : 1 <= cle (nls_of t) off.
Proof. unfold cle, nls_of. rewrite cnt_cons. cbn [Nat.leb]. lia. Qed.

Lemma cle_nls_line_spec t off : cle (nls_of t) off = line_spec t off.
Proof.
  unfold cle, nls_of, line_spec. rewrite cnt_cons, cnt_map. cbn [Nat.leb].
  reflexivity.
Qed.

Lemma cle_nls_le_length t off : cle (nls_of t) off <= length (nls_of t).
Proof. apply cnt_le_length. Qed.

Lemma line_num_repr c t off : repr c t -> off <= byte_len t ->
  byte_to_line_num c off = Done (Some (cle (nls_of t) off)).
Proof.
  intros Hr Hoff. unfold byte_to_line_num.
  rewrite (feed_len_repr c t Hr), (last_newline_repr c t Hr). cbn [obind].
  rewrite (proj2 (Nat.ltb_ge (byte_len t) off)) by lia.
  destruct Hr as [Hn Hl]. rewrite Hl, Hn.
  destruct ((off <? byte_len t) && (last (nls_of t) 0 <? off)) eqn:B.
  - apply andb_true_iff in B. destruct B as [_ B]. apply Nat.ltb_lt in B.
    do 2 f_equal. symmetry. apply cnt_all. intros y Hy. apply Nat.leb_le.
    apply (sorted_le_last _ (nls_of_sorted t)) in Hy. lia.
  - unfold rfind_le. rewrite (rfind_le_go_spec _ _ (nls_of_sorted t)).
    pose proof (cle_nls_pos t off) as Hpos.
    destruct (cle (nls_of t) off) as [|k] eqn:Ek; [lia|].
    cbn [Nat.eqb]. do 2 f_equal. lia.
Qed.

Lemma line_num_spec : line_num_spec_stmt.
Proof.
  intros text c off Hc Hoff. apply cache_of_repr in Hc.
  rewrite (line_num_repr c text off Hc Hoff), cle_nls_line_spec. reflexivity.
Qed.

Lemma line_num_out_of_range : line_num_out_of_range_stmt.
Proof.
  intros text c off Hc Hoff. apply cache_of_repr in Hc.
  unfold byte_to_line_num. rewrite (feed_len_repr c text Hc). cbn [obind].
  rewrite (proj2 (Nat.ltb_lt (byte_len text) off)) by lia. reflexivity.
Qed.

(* the start of the line containing [s] *)
Lemma line_start_nls t s :
  line_start_spec t s (nth (cle (nls_of t) s - 1) (nls_of t) 0).
Proof.
  destruct (sorted_last_le (nls_of t) s (nls_of_sorted t) (cle_nls_pos t s))
    as (Hin & Hle & Hmax).
  split; [apply nls_of_line_start; exact Hin|]. split; [exact Hle|].
  intros p Hp Hps. apply Hmax; [apply nls_of_line_start; exact Hp|exact Hps].
Qed.

(* ------------------------------------------------------------------------ *)
(* span_line_bytes                                                          *)

Lemma nth_error_nth_checked (l : list nat) i x :
  nth_error l i = Some x -> nth_checked l i = Done x.
Proof. intros H. unfold nth_checked. rewrite H. reflexivity. Qed.

Lemma nth_checked_lt (l : list nat) i :
  i < length l -> nth_checked l i = Done (nth i l 0).
Proof.
  intros Hi. apply nth_error_nth_checked. apply nth_error_nth'. exact Hi.
Qed.

Lemma nth_firstn_lt' (l : list nat) : forall k i, i < k ->
  nth i (firstn k l) 0 = nth i l 0.
Proof.
  induction l as [|a l IH]; intros k i Hi.
  - rewrite firstn_nil. reflexivity.
  - destruct k as [|k]; [lia|]. cbn [firstn]. destruct i as [|i]; [reflexivity|].
    cbn [nth]. apply IH. lia.
Qed.

Lemma cle_firstn l b b' k : StronglySorted lt l -> k <= cle l b -> b <= b' ->
  cle (firstn k l) b' = k.
Proof.
  intros Hs Hk Hb. pose proof (cnt_le_length (fun y => y <=? b) l) as Hlen.
  fold (cle l b) in Hlen.
  unfold cle. rewrite cnt_all; [apply firstn_length_le; lia|].
  intros y Hy. apply Nat.leb_le. apply (In_nth _ _ 0) in Hy.
  destruct Hy as [i [Hi <-]]. rewrite firstn_length_le in Hi by lia.
  rewrite nth_firstn_lt' by exact Hi.
  assert (nth i l 0 <= b); [|lia].
  apply cle_prefix; [assumption|lia|lia].
Qed.

Lemma nth_skipn' (l : list nat) : forall k j, nth j (skipn k l) 0 = nth (k + j) l 0.
Proof.
  induction l as [|a l IH]; intros k j.
  - rewrite skipn_nil. destruct j, k; reflexivity.
  - destruct k as [|k]; [reflexivity|]. cbn [skipn Nat.add nth]. apply IH.
Qed.

Lemma span_repr c t s e : repr c t -> s <= e -> e <= byte_len t ->
  span_line_bytes c s e =
  Done (nth (cle (nls_of t) s - 1) (nls_of t) 0,
        if cle (nls_of t) e =? length (nls_of t) then byte_len t
        else nth (cle (nls_of t) e) (nls_of t) 0 - 1).
Proof.
  intros Hr Hse He. unfold span_line_bytes, span_line_bytes_gen.
  rewrite (feed_len_repr c t Hr). destruct Hr as [Hn _]. rewrite Hn.
  assert (Hs : StronglySorted lt (nls_of t)) by apply nls_of_sorted.
  assert (Hk1 : 1 <= cle (nls_of t) s) by apply cle_nls_pos.
  assert (Hklen : cle (nls_of t) s <= length (nls_of t)) by apply cnt_le_length.
  set (nls := nls_of t) in *. set (k := cle nls s) in *.
  match goal with |- obind ?X _ = _ =>
    assert (Hst : X = Done (nth (k - 1) nls 0, k)) end.
  { unfold bsearch. pose proof (bsearch_go_spec nls Hs s 0) as Hb.
    destruct (bsearch_go nls s 0) as [j|j]; destruct Hb as (Hj & Hx & Hc);
      cbn [Nat.add] in Hj; fold k in Hc.
    - rewrite Hj, (nth_error_nth_checked _ _ _ Hx). cbn [obind]. do 2 f_equal.
      + rewrite Hc. replace (S (clt nls s) - 1) with (clt nls s) by lia.
        symmetry. apply nth_error_nth. exact Hx.
      + lia.
    - rewrite Hj, <- Hc. rewrite (proj2 (Nat.eqb_neq k 0)) by lia.
      rewrite nth_checked_lt by lia. reflexivity. }
  rewrite Hst. cbn [obind].
  rewrite (proj2 (Nat.ltb_ge (length nls) k)) by lia.
  match goal with |- obind ?X _ = _ =>
    assert (Hen : X = Done (if cle nls e =? length nls then byte_len t
                            else nth (cle nls e) nls 0 - 1)) end.
  { assert (Hs2 : StronglySorted lt (skipn k nls)) by (apply StronglySorted_skipn; exact Hs).
    assert (Hsplit : cle nls e = k + cle (skipn k nls) e).
    { rewrite <- (firstn_skipn k nls) at 1. unfold cle at 1. rewrite cnt_app.
      fold (cle (firstn k nls) e). fold (cle (skipn k nls) e).
      rewrite (cle_firstn nls s e k Hs); [reflexivity|fold k; lia|exact Hse]. }
    assert (Hlen2 : length (skipn k nls) = length nls - k) by apply skipn_length.
    unfold bsearch. pose proof (bsearch_go_spec (skipn k nls) Hs2 e 0) as Hb.
    destruct (bsearch_go (skipn k nls) e 0) as [j|j]; destruct Hb as (Hj & Hx & Hc);
      cbn [Nat.add] in Hj; subst j.
    - set (m := clt (skipn k nls) e) in *.
      assert (Hm : m < length (skipn k nls)).
      { apply nth_error_Some. rewrite Hx. discriminate. }
      assert (Hxe : nth (k + m) nls 0 = e).
      { rewrite <- nth_skipn'. apply nth_error_nth. exact Hx. }
      rewrite Hsplit, Hc.
      destruct (k + m =? length nls - 1) eqn:E1.
      + apply Nat.eqb_eq in E1.
        rewrite (proj2 (Nat.eqb_eq (k + S m) (length nls))) by lia. reflexivity.
      + apply Nat.eqb_neq in E1.
        rewrite (proj2 (Nat.eqb_neq (k + S m) (length nls))) by lia.
        rewrite nth_checked_lt by lia. cbn [obind].
        replace (k + m + 1) with (k + S m) by lia.
        assert (Hlt : nth (k + m) nls 0 < nth (k + S m) nls 0)
          by (apply sorted_nth_lt; [exact Hs|lia|lia]).
        rewrite (proj2 (Nat.eqb_neq (nth (k + S m) nls 0) 0)) by lia. reflexivity.
    - set (m := clt (skipn k nls) e) in *.
      assert (Hm : m <= length (skipn k nls)) by apply cnt_le_length.
      rewrite Hsplit, Hc.
      destruct (k + m =? length nls) eqn:E1; [reflexivity|].
      apply Nat.eqb_neq in E1.
      rewrite nth_checked_lt by lia. cbn [obind].
      assert (Hgt : ~ nth (k + m) nls 0 <= e).
      { intros Hle. apply (cle_prefix nls e Hs) in Hle; lia. }
      rewrite (proj2 (Nat.eqb_neq (nth (k + m) nls 0) 0)) by lia. reflexivity. }
  rewrite Hen. reflexivity.
Qed.

(* the end of the line containing [e] *)
Lemma line_end_nls t e : e <= byte_len t ->
  line_end_spec t e
    (if cle (nls_of t) e =? length (nls_of t) then byte_len t
     else nth (cle (nls_of t) e) (nls_of t) 0 - 1).
Proof.
  intros He.
  assert (Hs : StronglySorted lt (nls_of t)) by apply nls_of_sorted.
  assert (Hilen : cle (nls_of t) e <= length (nls_of t)) by apply cnt_le_length.
  assert (HS : forall p, In p (nlpos t) -> In (S p) (nls_of t)).
  { intros p Hp. right. apply in_map. exact Hp. }
  set (nls := nls_of t) in *. set (i := cle nls e) in *.
  destruct (i =? length nls) eqn:Ei.
  - apply Nat.eqb_eq in Ei. split; [right; reflexivity|]. split; [exact He|].
    intros p Hp Hep. exfalso. apply HS in Hp. apply (In_nth _ _ 0) in Hp.
    destruct Hp as [j [Hj Hjp]].
    assert (Hle : nth j nls 0 <= e) by (apply cle_prefix; [exact Hs|exact Hj|fold i; lia]).
    lia.
  - apply Nat.eqb_neq in Ei.
    assert (Hgt : ~ nth i nls 0 <= e).
    { intros Hle. apply (cle_prefix nls e Hs) in Hle; [fold i in Hle; lia|lia]. }
    assert (Hin : In (nth i nls 0) nls) by (apply nth_In; lia).
    destruct Hin as [H0|Hin]; [lia|].
    apply in_map_iff in Hin. destruct Hin as [q [Hq Hqin]].
    rewrite <- Hq in *. replace (S q - 1) with q by lia.
    split; [left; exact Hqin|]. split; [lia|].
    intros p Hp Hep. apply HS in Hp. apply (In_nth _ _ 0) in Hp.
    destruct Hp as [j [Hj Hjp]].
    assert (Hij : i <= j).
    { destruct (le_lt_dec i j) as [Hle|Hlt]; [exact Hle|exfalso].
      assert (nth j nls 0 <= e) by (apply cle_prefix; [exact Hs|exact Hj|fold i; lia]).
      lia. }
    pose proof (sorted_nth_le nls Hs i j Hij Hj) as Hmono. lia.
Qed.

Lemma span_lines_spec : span_lines_spec_stmt.
Proof.
  intros text c s e Hc Hse He. apply cache_of_repr in Hc.
  eexists. eexists. split; [apply (span_repr c text s e Hc Hse He)|].
  split; [apply line_start_nls|apply line_end_nls; exact He].
Qed.

Lemma span_lines_orig_refuted : span_lines_orig_refuted_stmt.
Proof.
  exists [97; 10; 98; 10; 99]%N, (mk [97; 10; 98; 10; 99]%N), 2, 4.
  split; [vm_compute; reflexivity|]. split; [lia|].
  split; [vm_compute; lia|vm_compute; reflexivity].
Qed.

(* ------------------------------------------------------------------------ *)
(* byte_to_line_col                                                         *)

Lemma boundary_split s : forall k b, In b (boundaries_from s k) ->
  exists t1 t2, s = t1 ++ t2 /\ b = k + byte_len t1.
Proof.
  induction s as [|ch s IH]; intros k b Hb; cbn [boundaries_from] in Hb.
  - destruct Hb as [<-|[]]. exists [], []. split; [reflexivity|cbn; lia].
  - destruct Hb as [<-|Hb].
    + exists [], (ch :: s). split; [reflexivity|cbn; lia].
    + apply IH in Hb. destruct Hb as (t1 & t2 & -> & ->).
      exists (ch :: t1), t2. split; [reflexivity|cbn [byte_len]; lia].
Qed.

Lemma slice_from_pos ch s i : 0 < i ->
  slice_from (ch :: s) i =
  if len_utf8 ch <=? i then slice_from s (i - len_utf8 ch) else Panic.
Proof. destruct i; [lia|reflexivity]. Qed.

Lemma slice_from_app t1 t2 : slice_from (t1 ++ t2) (byte_len t1) = Done t2.
Proof.
  induction t1 as [|ch t1 IH]; cbn [app byte_len]; [destruct t2; reflexivity|].
  pose proof (len_utf8_pos ch) as Hpos. rewrite slice_from_pos by lia.
  rewrite (proj2 (Nat.leb_le _ _)) by lia.
  replace (len_utf8 ch + byte_len t1 - len_utf8 ch) with (byte_len t1) by lia.
  exact IH.
Qed.

(* a text splits at the start of its last line *)
Lemma last_line_split t : exists a seg,
  t = a ++ seg /\ byte_len a = last (nls_of t) 0 /\
  Forall (fun ch => (ch =? NL)%N = false) seg.
Proof.
  induction t as [|ch t' IH] using rev_ind.
  - exists [], []. split; [reflexivity|]. split; [reflexivity|constructor].
  - rewrite nls_of_app. cbn [nlpos_from]. destruct (ch =? NL)%N eqn:E.
    + exists (t' ++ [ch]), []. split; [rewrite app_nil_r; reflexivity|].
      split; [|constructor]. cbn [map]. rewrite last_last, byte_len_app.
      cbn [byte_len]. rewrite (len_utf8_NL _ E). lia.
    + destruct IH as (a & seg & Ht & Ha & Hseg). cbn [map]. rewrite app_nil_r.
      exists a, (seg ++ [ch]). split; [rewrite Ht at 1; rewrite app_assoc; reflexivity|].
      split; [exact Ha|]. apply Forall_app. split; [exact Hseg|].
      constructor; [exact E|constructor].
Qed.

(* chars_between *)
Lemma cb_app x y k from to :
  chars_between (x ++ y) k from to =
  chars_between x k from to ++ chars_between y (k + byte_len x) from to.
Proof.
  revert k. induction x as [|ch x IH]; intros k; cbn [app chars_between byte_len].
  - f_equal. lia.
  - rewrite IH, <- app_assoc. do 3 f_equal. lia.
Qed.

Lemma cb_before x : forall k from to, k + byte_len x <= from ->
  chars_between x k from to = [].
Proof.
  induction x as [|ch x IH]; intros k from to H; cbn [chars_between byte_len] in *;
    [reflexivity|].
  pose proof (len_utf8_pos ch) as Hpos.
  rewrite (proj2 (Nat.leb_gt from k)) by lia. cbn [andb app]. apply IH. lia.
Qed.

Lemma cb_after x : forall k from to, to <= k -> chars_between x k from to = [].
Proof.
  induction x as [|ch x IH]; intros k from to H; cbn [chars_between]; [reflexivity|].
  rewrite (proj2 (Nat.ltb_ge k to)) by lia. rewrite andb_false_r. cbn [app].
  apply IH. lia.
Qed.

Lemma cb_in x : forall k from to, from <= k -> k + byte_len x <= to ->
  chars_between x k from to = x.
Proof.
  induction x as [|ch x IH]; intros k from to H1 H2; cbn [chars_between byte_len] in *;
    [reflexivity|].
  pose proof (len_utf8_pos ch) as Hpos.
  rewrite (proj2 (Nat.leb_le from k)) by lia.
  rewrite (proj2 (Nat.ltb_lt k to)) by lia. cbn [andb app]. f_equal. apply IH; lia.
Qed.

Lemma char_at_split t1 t2 :
  char_at (t1 ++ t2) (byte_len t1) = match t2 with ch :: _ => Some ch | [] => None end.
Proof.
  unfold char_at. rewrite cb_app, cb_before by lia. cbn [app Nat.add].
  destruct t2 as [|ch t2]; [reflexivity|]. cbn [chars_between].
  rewrite Nat.leb_refl, (proj2 (Nat.ltb_lt _ _)) by lia. cbn [andb app]. reflexivity.
Qed.

Lemma cb_seg a seg t2 :
  chars_between (a ++ seg ++ t2) 0 (byte_len a) (byte_len (a ++ seg)) = seg.
Proof.
  rewrite byte_len_app, !cb_app. cbn [Nat.add].
  rewrite cb_before by lia. rewrite cb_in by lia. rewrite cb_after by lia.
  rewrite app_nil_r. reflexivity.
Qed.

(* the column loop on a segment without newlines *)
Definition skip_after (seg : list N) (skip : bool) : bool :=
  match rev seg with prev :: _ => (prev =? CR)%N | [] => skip end.

Lemma col_loop_seg seg ch rest : Forall (fun x => (x =? NL)%N = false) seg ->
  forall c_off column skip,
  col_loop (seg ++ ch :: rest) c_off (c_off + byte_len seg) column skip =
  column + length seg + (if skip_after seg skip && (ch =? NL)%N then 0 else 1).
Proof.
  induction 1 as [|x seg Hx Hseg IH]; intros c_off column skip.
  - cbn [app col_loop byte_len length]. rewrite Nat.add_0_r, Nat.eqb_refl.
    unfold skip_after. cbn [rev]. destruct (skip && (ch =? NL)%N); lia.
  - cbn [app col_loop byte_len length]. rewrite Hx, andb_false_r.
    pose proof (len_utf8_pos x) as Hpos.
    rewrite (proj2 (Nat.eqb_neq c_off _)) by lia.
    replace (c_off + (len_utf8 x + byte_len seg))
      with (c_off + len_utf8 x + byte_len seg) by lia.
    rewrite IH.
    assert (Hsk : skip_after seg (if (x =? CR)%N then true else false)
                  = skip_after (x :: seg) skip).
    { unfold skip_after. cbn [rev]. destruct (rev seg); cbn [app];
        [destruct (x =? CR)%N|]; reflexivity. }
    rewrite Hsk. lia.
Qed.

Lemma cle_nls_split t1 t2 :
  cle (nls_of (t1 ++ t2)) (byte_len t1) = length (nls_of t1).
Proof.
  rewrite nls_of_app. unfold cle. rewrite cnt_app.
  rewrite cnt_all
    by (intros y Hy; apply Nat.leb_le; apply nls_of_le; exact Hy).
  rewrite cnt_zero; [lia|].
  intros y Hy. apply in_map_iff in Hy. destruct Hy as [z [<- Hz]].
  apply nlpos_from_bounds in Hz. apply Nat.leb_gt. lia.
Qed.

Lemma st_nls_split t1 t2 :
  nth (cle (nls_of (t1 ++ t2)) (byte_len t1) - 1) (nls_of (t1 ++ t2)) 0
  = last (nls_of t1) 0.
Proof.
  rewrite cle_nls_split, nls_of_app, app_nth1, last_nth; [reflexivity|].
  cbn [nls_of length]. lia.
Qed.

Lemma col_spec_split a seg t2 :
  col_spec ((a ++ seg) ++ t2) (byte_len a) (byte_len (a ++ seg)) =
  match t2 with
  | [] => length seg + 1
  | ch :: _ => length seg + (if skip_after seg false && (ch =? NL)%N then 0 else 1)
  end.
Proof.
  unfold col_spec. rewrite char_at_split, <- (app_assoc a seg t2), cb_seg.
  unfold skip_after. destruct t2 as [|ch t2].
  - destruct (rev seg); reflexivity.
  - destruct (rev seg) as [|prev r]; [reflexivity|].
    destruct (ch =? NL)%N, (prev =? CR)%N; cbn [andb]; lia.
Qed.

Lemma line_col_repr c t1 t2 : repr c (t1 ++ t2) ->
  byte_to_line_col c (t1 ++ t2) (byte_len t1) =
  Done (Some (line_spec (t1 ++ t2) (byte_len t1),
              col_spec (t1 ++ t2) (last (nls_of t1) 0) (byte_len t1))).
Proof.
  intros Hr.
  destruct (last_line_split t1) as (a & seg & Ht1 & Ha & Hseg). subst t1.
  rewrite <- Ha, col_spec_split, <- cle_nls_line_spec.
  assert (Hoff : byte_len (a ++ seg) <= byte_len ((a ++ seg) ++ t2))
    by (rewrite (byte_len_app (a ++ seg) t2); lia).
  assert (Hk : nth_checked (nls_of ((a ++ seg) ++ t2)) (length (nls_of (a ++ seg)) - 1)
               = Done (byte_len a)).
  { rewrite Ha, <- (st_nls_split (a ++ seg) t2), cle_nls_split.
    apply nth_checked_lt. rewrite (nls_of_app (a ++ seg) t2), app_length.
    cbn [nls_of length]. lia. }
  assert (Hlen : length (nls_of (a ++ seg)) <= length (nls_of ((a ++ seg) ++ t2)))
    by (rewrite (nls_of_app (a ++ seg) t2), app_length; lia).
  assert (Hpos : 1 <= length (nls_of (a ++ seg))) by (cbn [nls_of length]; lia).
  unfold byte_to_line_col. rewrite (feed_len_repr _ _ Hr). cbn [obind].
  rewrite Nat.eqb_refl. cbn [negb]. rewrite orb_false_r.
  rewrite (proj2 (Nat.ltb_ge _ _)) by exact Hoff.
  rewrite (line_num_repr c _ _ Hr) by exact Hoff. cbn [obind].
  rewrite cle_nls_split.
  destruct t2 as [|ch t2].
  - rewrite app_nil_r in *. rewrite Nat.eqb_refl, (last_newline_repr _ _ Hr), <- Ha.
    cbn [obind]. rewrite slice_from_app. cbn [obind].
    destruct Hr as [Hn _]. rewrite Hn. reflexivity.
  - pose proof (len_utf8_pos ch) as Hch.
    rewrite (proj2 (Nat.eqb_neq (byte_len (a ++ seg)) (byte_len ((a ++ seg) ++ ch :: t2))))
      by (rewrite (byte_len_app (a ++ seg) (ch :: t2)); cbn [byte_len]; lia).
    unfold line_num_to_byte. destruct Hr as [Hn _]. rewrite Hn.
    rewrite (proj2 (Nat.ltb_ge _ _)) by exact Hlen.
    rewrite (proj2 (Nat.eqb_neq _ 0)) by lia. cbn [orb].
    rewrite Hk. cbn [obind].
    rewrite <- (app_assoc a seg (ch :: t2)), slice_from_app. cbn [obind].
    rewrite (proj2 (Nat.ltb_ge _ _)) by (rewrite byte_len_app; lia).
    replace (byte_len (a ++ seg) - byte_len a) with (0 + byte_len seg)
      by (rewrite byte_len_app; lia).
    rewrite (col_loop_seg seg ch t2 Hseg). reflexivity.
Qed.

Lemma line_col_spec : line_col_spec_stmt.
Proof.
  intros text c off Hc Hb. apply cache_of_repr in Hc.
  apply boundary_split in Hb. destruct Hb as (t1 & t2 & -> & ->). cbn [Nat.add].
  exists (last (nls_of t1) 0). split.
  - rewrite <- (st_nls_split t1 t2). apply line_start_nls.
  - apply line_col_repr. exact Hc.
Qed.

(* ------------------------------------------------------------------------ *)
(* byte_to_line_byte                                                        *)

Lemma line_byte_repr c t off : repr c t -> off <= byte_len t ->
  byte_to_line_byte c off =
  Done (Some (nth (cle (nls_of t) off - 1) (nls_of t) 0)).
Proof.
  intros Hr Hoff. unfold byte_to_line_byte.
  rewrite (line_num_repr c t off Hr Hoff). cbn [obind].
  unfold line_num_to_byte. destruct Hr as [Hn _]. rewrite Hn.
  pose proof (cle_nls_pos t off) as Hpos.
  pose proof (cle_nls_le_length t off) as Hlen.
  rewrite (proj2 (Nat.ltb_ge _ _)) by exact Hlen.
  rewrite (proj2 (Nat.eqb_neq _ 0)) by lia. cbn [orb].
  rewrite nth_checked_lt by lia. reflexivity.
Qed.

Lemma line_byte_spec : line_byte_spec_stmt.
Proof.
  intros text c off Hc Hoff. apply cache_of_repr in Hc.
  eexists. split; [apply (line_byte_repr c text off Hc Hoff)|apply line_start_nls].
Qed.

Lemma line_byte_out_of_range : line_byte_out_of_range_stmt.
Proof.
  intros text c off Hc Hoff. unfold byte_to_line_byte.
  rewrite (line_num_out_of_range text c off Hc Hoff). reflexivity.
Qed.
