(* C19 — proofs of the statements of DiagSpec.v about the mirror of Diag.v.

   The cache queries are used only through the theorems of Proofs.v
   ([span_lines_spec], [line_col_spec], [line_num_spec]) together with the
   uniqueness of [line_start_spec] / [line_end_spec]; slices are turned into
   [chars_between] ([slice_range_cb]); the loop is followed along a
   decomposition  text = pre ++ piece_1 ++ '\n' :: piece_2 ++ ... ++ post. *)
From Coq Require Import List Arith NArith Bool Lia Sorted.
From GV Require Import Common.Outcome C19.Model C19.Spec C19.Proofs C19.Diag C19.DiagSpec.
Import ListNotations.

Definition nlfree (l : list N) : Prop := Forall (fun ch => (ch =? NL)%N = false) l.

(* ------------------------------------------------------------------------ *)
(* slices                                                                   *)

Lemma take_bytes_pos ch s n : 0 < n ->
  take_bytes (ch :: s) n =
  if len_utf8 ch <=? n then do r <- take_bytes s (n - len_utf8 ch); Done (ch :: r) else Panic.
Proof. destruct n; [lia|reflexivity]. Qed.

Lemma take_bytes_app x y : take_bytes (x ++ y) (byte_len x) = Done x.
Proof.
  induction x as [|ch x IH]; cbn [app byte_len]; [destruct y; reflexivity|].
  pose proof (len_utf8_pos ch) as Hpos. rewrite take_bytes_pos by lia.
  rewrite (proj2 (Nat.leb_le _ _)) by lia.
  replace (len_utf8 ch + byte_len x - len_utf8 ch) with (byte_len x) by lia.
  rewrite IH. reflexivity.
Qed.

Lemma slice_range_app x y z :
  slice_range (x ++ y ++ z) (byte_len x) (byte_len x + byte_len y) = Done y.
Proof.
  unfold slice_range. rewrite (proj2 (Nat.ltb_ge _ _)) by lia.
  rewrite slice_from_app. cbn [obind].
  replace (byte_len x + byte_len y - byte_len x) with (byte_len y) by lia.
  apply take_bytes_app.
Qed.

Lemma app_eq_split (x : list N) : forall y t1 t2,
  x ++ y = t1 ++ t2 -> byte_len x <= byte_len t1 ->
  exists m, t1 = x ++ m /\ y = m ++ t2.
Proof.
  induction x as [|ch x IH]; intros y t1 t2 H Hl.
  - exists t1. split; [reflexivity|exact H].
  - destruct t1 as [|ch' t1].
    + cbn [byte_len] in Hl. pose proof (len_utf8_pos ch). lia.
    + cbn [app] in H. injection H as -> H. cbn [byte_len] in Hl.
      destruct (IH y t1 t2 H ltac:(lia)) as (m & -> & ->).
      exists m. split; reflexivity.
Qed.

Lemma boundaries_from_app x y : forall k,
  In (k + byte_len x) (boundaries_from (x ++ y) k).
Proof.
  induction x as [|ch x IH]; intros k; cbn [app byte_len].
  - rewrite Nat.add_0_r. destruct y; cbn [boundaries_from]; left; reflexivity.
  - cbn [boundaries_from]. right.
    replace (k + (len_utf8 ch + byte_len x)) with (k + len_utf8 ch + byte_len x) by lia.
    apply IH.
Qed.

Lemma boundary_app text x y : text = x ++ y -> boundary text (byte_len x).
Proof. intros ->. unfold boundary, boundaries. apply (boundaries_from_app x y 0). Qed.

Lemma boundary_le text b : boundary text b -> b <= byte_len text.
Proof.
  intros Hb. apply boundary_split in Hb. destruct Hb as (t1 & t2 & -> & ->).
  rewrite byte_len_app. lia.
Qed.

(* &text[a..b] between two boundaries is chars_between *)
Lemma slice_range_cb text a b : boundary text a -> boundary text b -> a <= b ->
  slice_range text a b = Done (chars_between text 0 a b).
Proof.
  intros Ha Hb Hab.
  apply boundary_split in Ha. destruct Ha as (t1 & t2 & Ht & ->).
  apply boundary_split in Hb. destruct Hb as (u1 & u2 & Hu & ->).
  cbn [Nat.add] in *. subst text.
  destruct (app_eq_split t1 t2 u1 u2 Hu Hab) as (m & -> & ->).
  rewrite byte_len_app. rewrite slice_range_app.
  rewrite <- byte_len_app. rewrite cb_seg. reflexivity.
Qed.

(* ------------------------------------------------------------------------ *)
(* newline positions of a decomposed text                                   *)

Lemma nlpos_app x y : nlpos (x ++ y) = nlpos x ++ nlpos_from y (byte_len x).
Proof. unfold nlpos. rewrite nlpos_from_app. reflexivity. Qed.

Lemma nlpos_app_nlfree x a : nlfree a -> nlpos (x ++ a) = nlpos x.
Proof.
  intros Ha. rewrite nlpos_app, (nlpos_from_not_nl a Ha), app_nil_r. reflexivity.
Qed.

Lemma nlpos_lt x q : In q (nlpos x) -> q < byte_len x.
Proof. intros H. apply nlpos_from_bounds in H. lia. Qed.

(* text = x ++ line ++ rest with line NL-free: no newline inside the line *)
Lemma nlpos_decomp x line rest q : nlfree line ->
  In q (nlpos (x ++ line ++ rest)) ->
  q < byte_len x \/ byte_len x + byte_len line <= q.
Proof.
  intros Hl H. rewrite nlpos_app in H. apply in_app_or in H. destruct H as [H|H].
  - left. apply nlpos_lt. exact H.
  - right. rewrite nlpos_from_app, (nlpos_from_not_nl line Hl) in H. cbn [app] in H.
    apply nlpos_from_bounds in H. lia.
Qed.

Lemma nlpos_in_app x y : In (byte_len x) (nlpos (x ++ NL :: y)).
Proof.
  rewrite nlpos_app. apply in_or_app. right. cbn [nlpos_from].
  change (NL =? NL)%N with true. left. reflexivity.
Qed.

Lemma line_spec_app text x y : text = x ++ y ->
  line_spec text (byte_len x) = S (length (nlpos x)).
Proof.
  intros ->. rewrite <- cle_nls_line_spec, cle_nls_split. unfold nls_of.
  cbn [length]. rewrite map_length. reflexivity.
Qed.

Lemma is_line_start_app text x y : text = x ++ NL :: y ->
  is_line_start text (byte_len x + 1).
Proof.
  intros ->. right. exists (byte_len x). split; [apply nlpos_in_app|reflexivity].
Qed.

(* ------------------------------------------------------------------------ *)
(* lines of a decomposed text                                               *)

Definition post_ok (post : list N) : Prop := post = [] \/ exists post', post = NL :: post'.

Lemma line_start_decomp text pre line rest s :
  text = pre ++ line ++ rest -> nlfree line ->
  is_line_start text (byte_len pre) ->
  byte_len pre <= s -> s <= byte_len pre + byte_len line ->
  line_start_spec text s (byte_len pre).
Proof.
  intros Ht Hl Hst H1 H2. split; [exact Hst|]. split; [exact H1|].
  intros p Hp Hps. destruct Hp as [->|(q & Hq & ->)]; [lia|].
  rewrite Ht in Hq. apply (nlpos_decomp pre line rest q Hl) in Hq. lia.
Qed.

Lemma line_end_decomp text pre line rest x :
  text = pre ++ line ++ rest -> nlfree line -> post_ok rest ->
  byte_len pre <= x -> x <= byte_len pre + byte_len line ->
  line_end_spec text x (byte_len pre + byte_len line).
Proof.
  intros Ht Hl Hr H1 H2. split; [|split; [exact H2|]].
  - destruct Hr as [->|(rest' & ->)].
    + right. rewrite Ht, app_nil_r, byte_len_app. reflexivity.
    + left. rewrite Ht, app_assoc, <- byte_len_app. apply nlpos_in_app.
  - intros p Hp Hxp. rewrite Ht in Hp.
    apply (nlpos_decomp pre line rest p Hl) in Hp. lia.
Qed.

Lemma line_start_unique text s a b :
  line_start_spec text s a -> line_start_spec text s b -> a = b.
Proof.
  intros (Ha1 & Ha2 & Ha3) (Hb1 & Hb2 & Hb3).
  pose proof (Ha3 b Hb1 Hb2). pose proof (Hb3 a Ha1 Ha2). lia.
Qed.

Lemma line_end_unique text e a b :
  line_end_spec text e a -> line_end_spec text e b -> a = b.
Proof.
  intros (Ha1 & Ha2 & Ha3) (Hb1 & Hb2 & Hb3).
  assert (Hab : a <= b).
  { destruct Hb1 as [Hb1| ->]; [apply (Ha3 b Hb1 Hb2)|].
    destruct Ha1 as [Ha1| ->]; [apply nlpos_lt in Ha1; lia|lia]. }
  assert (Hba : b <= a).
  { destruct Ha1 as [Ha1| ->]; [apply (Hb3 a Ha1 Ha2)|].
    destruct Hb1 as [Hb1| ->]; [apply nlpos_lt in Hb1; lia|lia]. }
  lia.
Qed.

Lemma span_line_bytes_of text c s e st en :
  cache_of text = Done c -> s <= e -> e <= byte_len text ->
  line_start_spec text s st -> line_end_spec text e en ->
  span_line_bytes c s e = Done (st, en).
Proof.
  intros Hc Hse He Hst Hen.
  destruct (span_lines_spec text c s e Hc Hse He) as (st' & en' & Hs & Hst' & Hen').
  rewrite Hs, (line_start_unique text s st st' Hst Hst'),
    (line_end_unique text e en en' Hen Hen'). reflexivity.
Qed.

Lemma line_col_of text c s : cache_of text = Done c -> boundary text s ->
  exists col, byte_to_line_col c text s = Done (Some (line_spec text s, col)).
Proof.
  intros Hc Hb. destruct (line_col_spec text c s Hc Hb) as (st & _ & H).
  eexists. exact H.
Qed.

(* ------------------------------------------------------------------------ *)
(* split('\n')                                                              *)

(* the text of the pieces after the first, each preceded by its '\n' *)
Fixpoint tail_of (ps : list (list N)) : list N :=
  match ps with
  | [] => []
  | p :: ps' => NL :: p ++ tail_of ps'
  end.

Lemma split_nl_spec s : exists hd ps,
  split_nl s = hd :: ps /\ s = hd ++ tail_of ps /\ nlfree hd /\ Forall nlfree ps.
Proof.
  induction s as [|ch s IH].
  - exists [], []. repeat split; constructor.
  - destruct IH as (hd & ps & Hs & He & Hh & Hp). cbn [split_nl].
    destruct (ch =? NL)%N eqn:E.
    + exists [], (hd :: ps). apply N.eqb_eq in E. subst ch.
      rewrite Hs. split; [reflexivity|]. split; [cbn [tail_of app]; rewrite He at 1; reflexivity|].
      split; [constructor|]. constructor; assumption.
    + exists (ch :: hd), ps. rewrite Hs. split; [reflexivity|].
      split; [cbn [app]; rewrite He at 1; reflexivity|].
      split; [constructor; assumption|assumption].
Qed.

Lemma split_nl_nlfree_app a s : nlfree a ->
  split_nl (a ++ s) =
  match split_nl s with hd :: ps => (a ++ hd) :: ps | [] => [a] end.
Proof.
  induction 1 as [|ch a Hch Ha IH]; cbn [app].
  - destruct (split_nl_spec s) as (hd & ps & -> & _). reflexivity.
  - cbn [split_nl]. rewrite Hch, IH.
    destruct (split_nl_spec s) as (hd & ps & -> & _). reflexivity.
Qed.

Lemma split_nl_nlfree a : nlfree a -> split_nl a = [a].
Proof.
  intros Ha. rewrite <- (app_nil_r a) at 1. rewrite (split_nl_nlfree_app a [] Ha).
  cbn [split_nl]. rewrite app_nil_r. reflexivity.
Qed.

Lemma split_nl_length s k : length (split_nl s) = S (length (nlpos_from s k)).
Proof.
  revert k. induction s as [|ch s IH]; intros k; [reflexivity|].
  cbn [split_nl nlpos_from]. destruct (ch =? NL)%N.
  - cbn [length]. rewrite (IH (k + 1)). reflexivity.
  - destruct (split_nl_spec s) as (hd & ps & Hs & _). rewrite Hs.
    rewrite <- (IH (k + len_utf8 ch)), Hs. reflexivity.
Qed.

(* [e] lies in the last of the pieces hd :: ps, hd starting at offset base *)
Fixpoint in_last (ps : list (list N)) (base : nat) (hd : list N) (e : nat) : Prop :=
  match ps with
  | [] => base <= e /\ e <= base + byte_len hd
  | p :: ps' => in_last ps' (base + byte_len hd + 1) p e
  end.

Lemma in_last_ge ps : forall base hd e, in_last ps base hd e -> base <= e.
Proof.
  induction ps as [|p ps IH]; intros base hd e H; cbn [in_last] in H; [lia|].
  apply IH in H. lia.
Qed.

Lemma in_last_shift ps base x hd e :
  in_last ps (base + byte_len x) hd e -> in_last ps base (x ++ hd) e.
Proof.
  destruct ps as [|p ps]; cbn [in_last]; rewrite byte_len_app.
  - lia.
  - replace (base + (byte_len x + byte_len hd) + 1) with (base + byte_len x + byte_len hd + 1) by lia.
    trivial.
Qed.

Lemma in_last_split m : forall b base hd ps, nlfree b ->
  split_nl (m ++ b) = hd :: ps -> in_last ps base hd (base + byte_len m).
Proof.
  induction m as [|ch m IH]; intros b base hd ps Hb Hs; cbn [app] in Hs.
  - rewrite (split_nl_nlfree b Hb) in Hs. injection Hs as <- <-.
    cbn [in_last byte_len]. lia.
  - cbn [split_nl] in Hs. destruct (ch =? NL)%N eqn:E.
    + injection Hs as <- <-.
      destruct (split_nl_spec (m ++ b)) as (hd2 & ps2 & Hs2 & _). rewrite Hs2.
      cbn [in_last byte_len]. rewrite (len_utf8_NL _ E).
      replace (base + (1 + byte_len m)) with (base + 0 + 1 + byte_len m) by lia.
      apply (IH b _ hd2 ps2 Hb Hs2).
    + destruct (split_nl_spec (m ++ b)) as (hd2 & ps2 & Hs2 & _). rewrite Hs2 in Hs.
      injection Hs as <- <-. cbn [byte_len].
      apply (in_last_shift ps2 base [ch] hd2).
      cbn [byte_len]. rewrite Nat.add_0_r.
      replace (base + (len_utf8 ch + byte_len m)) with (base + len_utf8 ch + byte_len m) by lia.
      apply (IH b _ hd2 ps2 Hb Hs2).
Qed.

Lemma split_first_nl u : exists x post, u = x ++ post /\ nlfree x /\ post_ok post.
Proof.
  induction u as [|ch u IH].
  - exists [], []. split; [reflexivity|]. split; [constructor|left; reflexivity].
  - destruct (ch =? NL)%N eqn:E.
    + apply N.eqb_eq in E. subst ch. exists [], (NL :: u).
      split; [reflexivity|]. split; [constructor|right; eexists; reflexivity].
    + destruct IH as (x & post & -> & Hx & Hp). exists (ch :: x), post.
      split; [reflexivity|]. split; [constructor; assumption|assumption].
Qed.

Lemma strip_cr_spec l :
  (exists body, l = body ++ [CR] /\ strip_cr l = body) \/
  ((forall body, l <> body ++ [CR]) /\ strip_cr l = l).
Proof.
  unfold strip_cr. destruct (rev l) as [|ch r] eqn:E.
  - right. split; [|reflexivity]. intros body ->. rewrite rev_app_distr in E. discriminate.
  - assert (Hl : l = rev r ++ [ch]).
    { rewrite <- (rev_involutive l), E. reflexivity. }
    destruct (ch =? CR)%N eqn:Ec.
    + left. apply N.eqb_eq in Ec. subst ch. exists (rev r). split; [exact Hl|reflexivity].
    + right. split; [|reflexivity]. intros body Hb. rewrite Hl in Hb.
      apply app_inj_tail in Hb. destruct Hb as [_ ->].
      rewrite N.eqb_refl in Ec. discriminate.
Qed.

(* ------------------------------------------------------------------------ *)
(* one iteration of the loop (repaired variant)                             *)

Lemma starts_with_nl_post rest : post_ok rest ->
  starts_with_nl rest = negb (match rest with [] => true | _ => false end).
Proof. intros [->|(r & ->)]; reflexivity. Qed.

Lemma go_head text c plen ps pre a b rest e :
  cache_of text = Done c ->
  text = pre ++ (a ++ b) ++ rest ->
  is_line_start text (byte_len pre) -> nlfree (a ++ b) ->
  boundary text e -> byte_len pre + byte_len a <= e ->
  let s := byte_len pre + byte_len a in
  let lend := byte_len pre + byte_len (a ++ b) in
  underline_go true c text plen ((a ++ b) :: ps) s e =
  if 3 <? plen then Panic else
  let r := {| r_num := line_spec text s;
              r_text := if starts_with_nl rest then strip_cr (a ++ b) else a ++ b;
              r_indent := chars_between text 0 (byte_len pre) s;
              r_under := chars_between text 0 s (Nat.min e lend) |} in
  match ps with
  | [] => Done [r]
  | _ :: _ => do sp <- span_new (lend + 1) e;
              do rs <- underline_go true c text plen ps (fst sp) (snd sp);
              Done (r :: rs)
  end.
Proof.
  intros Hc Ht Hls Hl Hbe Hse s lend.
  pose proof (boundary_le text e Hbe) as He.
  assert (Hlen : byte_len (a ++ b) = byte_len a + byte_len b) by apply byte_len_app.
  assert (Hst : line_start_spec text s (byte_len pre)).
  { apply (line_start_decomp text pre (a ++ b) rest s Ht Hl Hls); unfold s; lia. }
  destruct (span_lines_spec text c s e Hc Hse He) as (st' & en' & Hsp & Hst' & _).
  rewrite <- (line_start_unique text s _ _ Hst Hst') in Hsp.
  assert (Hbpre : boundary text (byte_len pre)) by (apply (boundary_app text pre _ Ht)).
  assert (Hbs : boundary text s).
  { unfold s. rewrite <- byte_len_app. apply (boundary_app text (pre ++ a) (b ++ rest)).
    rewrite Ht, <- !app_assoc. reflexivity. }
  assert (Hblend : boundary text lend).
  { unfold lend. rewrite <- byte_len_app. apply (boundary_app text (pre ++ (a ++ b)) rest).
    rewrite Ht, <- !app_assoc. reflexivity. }
  assert (Hbmin : boundary text (Nat.min e lend)).
  { destruct (Nat.min_spec e lend) as [[_ ->]|[_ ->]]; assumption. }
  destruct (line_col_of text c s Hc Hbs) as (col & Hlc).
  cbn [underline_go]. rewrite Hsp. cbn [obind fst].
  rewrite (proj2 (Nat.ltb_ge s (byte_len pre))) by (unfold s; lia).
  assert (Hsf : slice_from text (byte_len pre + byte_len (a ++ b)) = Done rest).
  { rewrite <- byte_len_app. rewrite Ht at 1. rewrite app_assoc. apply slice_from_app. }
  rewrite Hsf. cbn [obind].
  rewrite (proj2 (Nat.ltb_ge (byte_len (a ++ b)) (s - byte_len pre))) by (unfold s; lia).
  replace (s + (byte_len (a ++ b) - (s - byte_len pre))) with lend by (unfold s, lend; lia).
  unfold span_new at 1.
  rewrite (proj2 (Nat.ltb_ge (Nat.min e lend) s)) by (unfold s, lend in *; lia).
  cbn [obind fst snd]. rewrite Hlc. cbn [obind].
  destruct (3 <? plen); [reflexivity|].
  rewrite (slice_range_cb text (byte_len pre) s Hbpre Hbs) by (unfold s; lia).
  rewrite (slice_range_cb text s (Nat.min e lend) Hbs Hbmin) by (unfold s, lend in *; lia).
  cbn [obind]. reflexivity.
Qed.

Definition row_at (text : list N) (s e L : nat) (r : row) (st en : nat) : Prop :=
  is_line_start text st /\ line_spec text st = L /\ line_end_spec text st en /\
  r_num r = L /\ line_text_spec text st en (r_text r) /\
  r_indent r = chars_between text 0 st (Nat.max s st) /\
  r_under r = chars_between text 0 (Nat.max s st) (Nat.min e en).

Lemma line_spec_in_line text pre a rest : text = pre ++ a ++ rest -> nlfree a ->
  line_spec text (byte_len pre + byte_len a) = line_spec text (byte_len pre).
Proof.
  intros Ht Ha. rewrite <- byte_len_app.
  rewrite (line_spec_app text (pre ++ a) rest) by (rewrite Ht, app_assoc; reflexivity).
  rewrite (line_spec_app text pre (a ++ rest) Ht), (nlpos_app_nlfree pre a Ha). reflexivity.
Qed.

Lemma head_row_ok text pre a b rest e :
  text = pre ++ (a ++ b) ++ rest ->
  is_line_start text (byte_len pre) -> nlfree (a ++ b) -> post_ok rest ->
  let s := byte_len pre + byte_len a in
  let lend := byte_len pre + byte_len (a ++ b) in
  row_at text s e (line_spec text s)
    {| r_num := line_spec text s;
       r_text := if starts_with_nl rest then strip_cr (a ++ b) else a ++ b;
       r_indent := chars_between text 0 (byte_len pre) s;
       r_under := chars_between text 0 s (Nat.min e lend) |}
    (byte_len pre) lend.
Proof.
  intros Ht Hls Hl Hr s lend. unfold row_at. cbn [r_num r_text r_indent r_under].
  apply Forall_app in Hl as Hab. destruct Hab as [Ha Hb].
  assert (Hline : line_spec text (byte_len pre) = line_spec text s).
  { symmetry. apply (line_spec_in_line text pre a (b ++ rest)); [|exact Ha].
    rewrite Ht, <- !app_assoc. reflexivity. }
  split; [exact Hls|]. split; [exact Hline|].
  split; [apply (line_end_decomp text pre (a ++ b) rest _ Ht Hl Hr); lia|].
  split; [reflexivity|].
  assert (Hmax : Nat.max s (byte_len pre) = s) by (unfold s; lia).
  rewrite Hmax. split; [|split; reflexivity].
  unfold line_text_spec.
  assert (Hraw : chars_between text 0 (byte_len pre) lend = a ++ b).
  { unfold lend. rewrite <- byte_len_app, Ht. apply cb_seg. }
  rewrite Hraw.
  assert (Hbl : byte_len text = lend + byte_len rest).
  { unfold lend. rewrite Ht, !byte_len_app. lia. }
  destruct Hr as [->|(rest' & ->)].
  - cbn [byte_len] in Hbl. rewrite (proj2 (Nat.ltb_ge lend (byte_len text))) by lia.
    reflexivity.
  - cbn [byte_len] in Hbl. pose proof (len_utf8_pos NL).
    rewrite (proj2 (Nat.ltb_lt lend (byte_len text))) by lia.
    cbn [starts_with_nl]. change (NL =? NL)%N with true. cbv iota.
    destruct (strip_cr_spec (a ++ b)) as [(body & Hb1 & Hb2)|(Hn & Hb2)].
    + left. exists body. split; assumption.
    + right. split; assumption.
Qed.

Lemma post_ok_tail ps post : post_ok post -> post_ok (tail_of ps ++ post).
Proof.
  intros Hp. destruct ps as [|p ps]; [exact Hp|]. right. cbn [tail_of app].
  eexists. reflexivity.
Qed.

Lemma go_fixed text c plen : cache_of text = Done c -> plen <= 3 ->
  forall ps pre a b post e,
  text = pre ++ (a ++ b) ++ tail_of ps ++ post ->
  is_line_start text (byte_len pre) ->
  nlfree (a ++ b) -> Forall nlfree ps -> post_ok post ->
  boundary text e -> byte_len pre + byte_len a <= e ->
  in_last ps (byte_len pre) (a ++ b) e ->
  exists rows,
    underline_go true c text plen ((a ++ b) :: ps) (byte_len pre + byte_len a) e = Done rows /\
    length rows = S (length ps) /\
    forall i r, nth_error rows i = Some r ->
      exists st en, byte_len pre <= st /\
        row_at text (byte_len pre + byte_len a) e
               (line_spec text (byte_len pre + byte_len a) + i) r st en.
Proof.
  intros Hc Hplen. induction ps as [|p ps IH]; intros pre a b post e Ht Hls Hl Hps Hpost Hbe Hse Hin.
  - cbn [tail_of app] in Ht.
    rewrite (go_head text c plen [] pre a b post e Hc Ht Hls Hl Hbe Hse).
    rewrite (proj2 (Nat.ltb_ge 3 plen)) by lia. cbv zeta.
    eexists. split; [reflexivity|]. split; [reflexivity|].
    intros i r Hi. destruct i as [|i]; [|destruct i; discriminate].
    cbn [nth_error] in Hi. injection Hi as <-. rewrite Nat.add_0_r.
    exists (byte_len pre), (byte_len pre + byte_len (a ++ b)). split; [lia|].
    apply (head_row_ok text pre a b post e Ht Hls Hl Hpost).
  - cbn [in_last] in Hin. pose proof (in_last_ge _ _ _ _ Hin) as Hge.
    assert (Hrest : post_ok (tail_of (p :: ps) ++ post)) by (apply post_ok_tail; exact Hpost).
    rewrite (go_head text c plen (p :: ps) pre a b (tail_of (p :: ps) ++ post) e Hc Ht Hls Hl Hbe Hse).
    rewrite (proj2 (Nat.ltb_ge 3 plen)) by lia. cbv zeta.
    unfold span_new. rewrite (proj2 (Nat.ltb_ge e _)) by lia. cbn [obind fst snd].
    set (pre' := pre ++ (a ++ b) ++ [NL]).
    assert (Hpre' : byte_len pre' = byte_len pre + byte_len (a ++ b) + 1).
    { unfold pre'. rewrite !byte_len_app. cbn [byte_len]. change (len_utf8 NL) with 1. lia. }
    assert (Ht' : text = pre' ++ ([] ++ p) ++ tail_of ps ++ post).
    { unfold pre'. rewrite Ht. cbn [tail_of app]. rewrite <- !app_assoc. reflexivity. }
    assert (Hls' : is_line_start text (byte_len pre')).
    { rewrite Hpre', <- byte_len_app.
      apply (is_line_start_app text (pre ++ (a ++ b)) (p ++ tail_of ps ++ post)).
      rewrite Ht. cbn [tail_of app]. rewrite <- !app_assoc. reflexivity. }
    inversion Hps as [|p0 ps0 Hp Hps']. subst p0 ps0.
    destruct (IH pre' [] p post e Ht' Hls' Hp Hps' Hpost Hbe) as (rows & Hgo & Hlen & Hrows).
    { cbn [byte_len]. lia. }
    { cbn [app]. rewrite Hpre'. exact Hin. }
    cbn [byte_len app] in Hgo. rewrite Hpre', Nat.add_0_r in Hgo. rewrite Hgo. cbn [obind].
    eexists. split; [reflexivity|]. split; [cbn [length]; rewrite Hlen; reflexivity|].
    intros i r Hi. destruct i as [|i].
    + cbn [nth_error] in Hi. injection Hi as <-. rewrite Nat.add_0_r.
      exists (byte_len pre), (byte_len pre + byte_len (a ++ b)). split; [lia|].
      apply (head_row_ok text pre a b _ e Ht Hls Hl Hrest).
    + cbn [nth_error] in Hi. destruct (Hrows i r Hi) as (st & en & Hst & Hrow).
      exists st, en. split; [lia|].
      cbn [byte_len] in Hrow. rewrite Nat.add_0_r in Hrow.
      apply Forall_app in Hl as Hab. destruct Hab as [Ha Hb].
      assert (Hl1 : line_spec text (byte_len pre + byte_len a) = line_spec text (byte_len pre)).
      { apply (line_spec_in_line text pre a (b ++ tail_of (p :: ps) ++ post)); [|exact Ha].
        rewrite Ht, <- !app_assoc. reflexivity. }
      assert (Hl2 : line_spec text (byte_len pre') = S (line_spec text (byte_len pre))).
      { rewrite (line_spec_app text pre' _ Ht'), (line_spec_app text pre _ Ht).
        unfold pre'. rewrite app_assoc, nlpos_app, app_length.
        rewrite (nlpos_app_nlfree pre (a ++ b) Hl). cbn [nlpos_from].
        change (NL =? NL)%N with true. cbn [length]. lia. }
      unfold row_at in *. rewrite Hl2 in Hrow. rewrite Hl1.
      replace (line_spec text (byte_len pre) + S i) with (S (line_spec text (byte_len pre)) + i) by lia.
      rewrite (Nat.max_r (byte_len pre') st) in Hrow by lia.
      rewrite (Nat.max_r (byte_len pre + byte_len a) st)
        by (rewrite byte_len_app in Hpre'; lia).
      exact Hrow.
Qed.

(* ------------------------------------------------------------------------ *)
(* the whole call                                                           *)

(* a span on character boundaries decomposes the text into the lines it
   touches; everything the loop needs, for any prefix length *)
Lemma underline_setup text c s e :
  cache_of text = Done c -> boundary text s -> boundary text e -> s <= e ->
  exists pre a hd ps post,
    text = pre ++ (a ++ hd) ++ tail_of ps ++ post /\
    is_line_start text (byte_len pre) /\
    nlfree (a ++ hd) /\ Forall nlfree ps /\ post_ok post /\
    s = byte_len pre + byte_len a /\
    in_last ps (byte_len pre) (a ++ hd) e /\
    length ps = line_spec text e - line_spec text s /\
    line_spec text s <= line_spec text e /\
    forall plen, underline_span c text plen s e =
                 underline_go true c text plen ((a ++ hd) :: ps) s e.
Proof.
  intros Hc Hbs Hbe Hse.
  pose proof (boundary_le text e Hbe) as Hele.
  apply boundary_split in Hbs. destruct Hbs as (t1 & t2 & Ht & Hs). cbn [Nat.add] in Hs.
  apply boundary_split in Hbe. destruct Hbe as (u1 & u2 & Hu & He). cbn [Nat.add] in He.
  assert (Hsplit : t1 ++ t2 = u1 ++ u2) by (rewrite <- Ht, <- Hu; reflexivity).
  destruct (app_eq_split t1 t2 u1 u2 Hsplit ltac:(lia)) as (m & Hu1 & Ht2).
  destruct (last_line_split t1) as (pre & a & Ht1 & Hpre & Ha).
  destruct (split_first_nl u2) as (b' & post & Hu2 & Hb' & Hpost).
  destruct (split_nl_spec (m ++ b')) as (hd & ps & Hsp & Hmb & Hhd & Hps).
  assert (Hl : nlfree (a ++ hd)) by (apply Forall_app; split; assumption).
  assert (Htext : text = pre ++ (a ++ hd) ++ tail_of ps ++ post).
  { rewrite Ht, Ht1, Ht2, Hu2. rewrite <- !app_assoc. f_equal. f_equal.
    rewrite !app_assoc. rewrite <- (app_assoc m b' post) at 1.
    rewrite app_assoc. rewrite Hmb. rewrite <- !app_assoc. reflexivity. }
  assert (Hls : is_line_start text (byte_len pre)).
  { apply nls_of_line_start. rewrite Ht, nls_of_app. apply in_or_app. left.
    rewrite Hpre. apply last_In, nls_of_ne. }
  assert (Hs' : s = byte_len pre + byte_len a).
  { rewrite Hs, Ht1, byte_len_app. reflexivity. }
  assert (He' : e = byte_len pre + byte_len a + byte_len m).
  { rewrite He, Hu1, Ht1, !byte_len_app. lia. }
  assert (Hin : in_last ps (byte_len pre) (a ++ hd) e).
  { apply in_last_shift. rewrite He'. apply (in_last_split m b' _ hd ps Hb' Hsp). }
  assert (Hls_s : line_spec text s = S (length (nlpos t1))).
  { rewrite Hs. apply (line_spec_app text t1 t2 Ht). }
  assert (Hls_e : line_spec text e = S (length (nlpos t1) + length ps)).
  { rewrite He. rewrite (line_spec_app text u1 u2 Hu), Hu1, nlpos_app, app_length.
    f_equal. f_equal.
    pose proof (split_nl_length (m ++ b') (byte_len t1)) as Hlen.
    rewrite Hsp, nlpos_from_app, (nlpos_from_not_nl b' Hb'), app_nil_r in Hlen.
    cbn [length] in Hlen. lia. }
  exists pre, a, hd, ps, post.
  split; [exact Htext|]. split; [exact Hls|]. split; [exact Hl|]. split; [exact Hps|].
  split; [exact Hpost|]. split; [exact Hs'|]. split; [exact Hin|].
  split; [lia|]. split; [lia|].
  intros plen. unfold underline_span, underline_span_gen.
  set (M := a ++ m ++ b').
  assert (HtM : text = pre ++ M ++ post).
  { unfold M. rewrite Ht, Ht1, Ht2, Hu2. rewrite <- !app_assoc. reflexivity. }
  assert (Hst : line_start_spec text s (byte_len pre)).
  { apply (line_start_decomp text pre (a ++ hd) (tail_of ps ++ post) s Htext Hl Hls);
      rewrite ?byte_len_app; lia. }
  assert (Hen : line_end_spec text e (byte_len pre + byte_len M)).
  { replace (byte_len pre + byte_len M) with (byte_len u1 + byte_len b').
    - apply (line_end_decomp text u1 b' post e); [rewrite Hu, Hu2; reflexivity|exact Hb'|exact Hpost|lia|lia].
    - unfold M. rewrite Hu1, Ht1, !byte_len_app. lia. }
  rewrite (span_line_bytes_of text c s e _ _ Hc Hse Hele Hst Hen). cbn [obind fst snd].
  rewrite HtM at 1. rewrite slice_range_app. cbn [obind].
  unfold M. rewrite (split_nl_nlfree_app a (m ++ b') Ha), Hsp. reflexivity.
Qed.

Lemma underline_rows_spec : underline_rows_spec_stmt.
Proof.
  intros text c plen s e Hc Hplen Hbs Hbe Hse.
  destruct (underline_setup text c s e Hc Hbs Hbe Hse)
    as (pre & a & hd & ps & post & Ht & Hls & Hl & Hps & Hpost & Hs & Hin & Hlen & Hle & Hgo).
  rewrite Hgo.
  destruct (go_fixed text c plen Hc Hplen ps pre a hd post e Ht Hls Hl Hps Hpost Hbe
              ltac:(lia) Hin) as (rows & Hrun & Hrl & Hrows).
  rewrite <- Hs in Hrun, Hrows.
  exists rows. split; [exact Hrun|]. split; [lia|].
  intros i r Hi. destruct (Hrows i r Hi) as (st & en & _ & Hrow).
  exists st, en. exact Hrow.
Qed.

Lemma underline_nonempty : underline_nonempty_stmt.
Proof.
  intros text c plen s e Hc Hplen Hbs Hbe Hse.
  destruct (underline_rows_spec text c plen s e Hc Hplen Hbs Hbe Hse) as (rows & Hrun & Hlen & _).
  destruct rows as [|r rows]; [cbn [length] in Hlen; lia|].
  exists r, rows. split; [exact Hrun|].
  intros width r' _. unfold row_under_cols. lia.
Qed.

Lemma underline_long_prefix : underline_long_prefix_stmt.
Proof.
  intros text c plen s e Hc Hplen Hbs Hbe Hse.
  destruct (underline_setup text c s e Hc Hbs Hbe Hse)
    as (pre & a & hd & ps & post & Ht & Hls & Hl & Hps & Hpost & Hs & Hin & Hlen & Hle & Hgo).
  rewrite Hgo, Hs.
  rewrite (go_head text c plen ps pre a hd (tail_of ps ++ post) e Hc Ht Hls Hl Hbe ltac:(lia)).
  rewrite (proj2 (Nat.ltb_lt 3 plen) Hplen). reflexivity.
Qed.

(* ---- the pinned code ---------------------------------------------------- *)

Lemma boundary_dec_true text b : existsb (Nat.eqb b) (boundaries text) = true -> boundary text b.
Proof.
  intros H. apply existsb_exists in H. destruct H as (x & Hx & Hb).
  apply Nat.eqb_eq in Hb. subst x. exact Hx.
Qed.

(* "a\r\nb", the whole text *)
Lemma underline_orig_crlf_panic_refuted : underline_orig_crlf_panic_refuted_stmt.
Proof.
  exists [97; 13; 10; 98]%N, (mk [97; 13; 10; 98]%N), 0, 4.
  split; [vm_compute; reflexivity|].
  split; [apply boundary_dec_true; vm_compute; reflexivity|].
  split; [apply boundary_dec_true; vm_compute; reflexivity|].
  split; [lia|]. vm_compute. reflexivity.
Qed.

(* "a\r\nbc", the whole text: the second row is numbered 1 *)
Lemma underline_orig_crlf_line_refuted : underline_orig_crlf_line_refuted_stmt.
Proof.
  exists [97; 13; 10; 98; 99]%N, (mk [97; 13; 10; 98; 99]%N), 0, 5.
  eexists.
  split; [vm_compute; reflexivity|].
  split; [apply boundary_dec_true; vm_compute; reflexivity|].
  split; [apply boundary_dec_true; vm_compute; reflexivity|].
  split; [lia|]. split; [vm_compute; reflexivity|].
  exists 1. eexists. split; [cbn [nth_error]; reflexivity|].
  vm_compute. discriminate.
Qed.

(* "a\n", the empty span at the end of the text *)
Lemma underline_orig_empty_refuted : underline_orig_empty_refuted_stmt.
Proof.
  exists [97; 10]%N, (mk [97; 10]%N), 2, 2.
  split; [vm_compute; reflexivity|].
  split; [apply boundary_dec_true; vm_compute; reflexivity|].
  split; [apply boundary_dec_true; vm_compute; reflexivity|].
  split; [lia|]. vm_compute. reflexivity.
Qed.

(* "a\r\n", the span of the 'a': the row's text is "a\r" *)
Lemma underline_orig_cr_text_refuted : underline_orig_cr_text_refuted_stmt.
Proof.
  exists [97; 13; 10]%N, (mk [97; 13; 10]%N), 0, 1. eexists.
  split; [vm_compute; reflexivity|].
  split; [apply boundary_dec_true; vm_compute; reflexivity|].
  split; [apply boundary_dec_true; vm_compute; reflexivity|].
  split; [lia|]. split; [vm_compute; reflexivity|].
  intros (st & en & Hst & Hline & Hen & _ & Htxt & _).
  (* line 1 starts at 0 and ends at the '\n' at 2 *)
  assert (Hst0 : st = 0).
  { destruct Hst as [->|(q & Hq & ->)]; [reflexivity|].
    vm_compute in Hq. destruct Hq as [<-|[]]. vm_compute in Hline. discriminate. }
  subst st.
  assert (Hen2 : en = 2).
  { apply (line_end_unique [97; 13; 10]%N 0 en 2 Hen).
    split; [left; vm_compute; left; reflexivity|]. split; [lia|].
    intros p Hp _. vm_compute in Hp. destruct Hp as [<-|[]]. lia. }
  subst en. unfold line_text_spec in Htxt. cbn [r_text] in Htxt.
  vm_compute in Htxt.
  destruct Htxt as [(body & Hb & Hc)|(Hn & _)].
  - subst body. cbn [app] in Hb. discriminate.
  - apply (Hn [97%N]). reflexivity.
Qed.

(* ------------------------------------------------------------------------ *)
(* file_location_msg                                                        *)

Lemma file_location_spec : file_location_spec_stmt.
Proof.
  intros text c off Hc Hb. destruct (line_col_spec text c off Hc Hb) as (st & Hst & H).
  exists st. split; [exact Hst|]. unfold file_location. rewrite H. reflexivity.
Qed.

Lemma file_location_out_of_range : file_location_out_of_range_stmt.
Proof.
  intros text c off Hc Hoff. apply cache_of_repr in Hc.
  unfold file_location, byte_to_line_col. rewrite (feed_len_repr c text Hc). cbn [obind].
  rewrite (proj2 (Nat.ltb_lt (byte_len text) off) Hoff). reflexivity.
Qed.

(* ------------------------------------------------------------------------ *)
(* format_spanned                                                           *)

Lemma filter_lt_mono (l : list nat) a b : a <= b ->
  length (filter (fun p => p <? a) l) <= length (filter (fun p => p <? b) l).
Proof.
  intros Hab. induction l as [|x l IH]; [reflexivity|]. cbn [filter].
  destruct (x <? a) eqn:Ea.
  - apply Nat.ltb_lt in Ea. rewrite (proj2 (Nat.ltb_lt x b)) by lia. cbn [length]. lia.
  - destruct (x <? b); cbn [length]; lia.
Qed.

Lemma line_spec_mono text a b : a <= b -> line_spec text a <= line_spec text b.
Proof. intros Hab. unfold line_spec. pose proof (filter_lt_mono (nlpos text) a b Hab). lia. Qed.

Lemma format_spanned_spec : format_spanned_spec_stmt.
Proof.
  intros text c checked spans Hc. induction spans as [|[s e] rest IH]; intros Hall Hsorted.
  - exists []. split; reflexivity.
  - inversion Hall as [|x l Hsp Hrest]. subst x l.
    destruct Hsp as (Hbs & Hbe & Hse). cbn [fst snd] in Hbs, Hbe, Hse.
    destruct (file_location_spec text c s Hc Hbs) as (st & _ & Hfl).
    cbn [format_spanned_go]. rewrite Hfl. cbn [obind fst].
    assert (Hnext :
      match rest with
      | [] => Done (line_spec text s)
      | (s2, _) :: _ =>
          do r <- byte_to_line_num c s2;
          Done (match r with Some l => l | None => line_spec text s end)
      end = Done (line_spec text (next_start rest s)) /\
      line_spec text s <= line_spec text (next_start rest s) /\ starts_sorted rest).
    { destruct rest as [|[s2 e2] rest'].
      - cbn [next_start]. split; [reflexivity|]. split; [lia|exact I].
      - cbn [starts_sorted] in Hsorted. destruct Hsorted as [Hs2 Hsorted].
        inversion Hrest as [|x l Hsp2 _]. subst x l. destruct Hsp2 as (Hbs2 & _).
        cbn [fst] in Hbs2. pose proof (boundary_le text s2 Hbs2) as Hle2.
        rewrite (line_num_spec text c s2 Hc Hle2). cbn [obind next_start].
        split; [reflexivity|]. split; [apply (line_spec_mono text s s2 Hs2)|exact Hsorted]. }
    destruct Hnext as (Hd & Hmono & Hsorted').
    rewrite Hd. cbn [obind].
    rewrite (proj2 (Nat.ltb_ge _ _) Hmono). cbn [obind].
    set (dots := 1 <? line_spec text (next_start rest s) - line_spec text s).
    assert (Hdots : dots = true <-> 1 < line_spec text (next_start rest s) - line_spec text s)
      by (apply Nat.ltb_lt).
    assert (Hplen : (if dots then 3 else 0) <= 3) by (destruct dots; lia).
    destruct (underline_rows_spec text c _ s e Hc Hplen Hbs Hbe Hse) as (rows & Hrun & Hrows).
    unfold underline_span in Hrun. rewrite Hrun. cbn [obind].
    destruct (IH Hrest Hsorted') as (more & Hmore & Hblocks).
    rewrite Hmore. cbn [obind].
    eexists. split; [reflexivity|]. cbn [blocks_ok]. split; [exact Hdots|].
    split; [exact Hrows|exact Hblocks].
Qed.

(* "a\nb": the 'b' first, then the 'a' *)
Lemma format_spanned_unsorted_panics : format_spanned_unsorted_panics_stmt.
Proof.
  exists [97; 10; 98]%N, (mk [97; 10; 98]%N), [(2, 3); (0, 1)].
  split; [vm_compute; reflexivity|]. split.
  - repeat constructor; cbn [fst snd]; try lia; apply boundary_dec_true; vm_compute; reflexivity.
  - vm_compute. reflexivity.
Qed.

(* ------------------------------------------------------------------------ *)
(* underline_spans_on_line_with_text                                        *)

Lemma same_line text s1 st en x :
  line_start_spec text s1 st -> line_end_spec text s1 en -> s1 <= x -> x <= en ->
  line_start_spec text x st /\ line_end_spec text x en.
Proof.
  intros (Hs1 & Hs2 & Hs3) (He1 & He2 & He3) Hx1 Hx2. split.
  - split; [exact Hs1|]. split; [lia|]. intros p Hp Hpx.
    destruct (Nat.le_gt_cases p s1) as [Hle|Hgt]; [apply (Hs3 p Hp Hle)|].
    destruct Hp as [->|(q & Hq & ->)]; [lia|].
    pose proof (He3 q Hq ltac:(lia)). lia.
  - split; [exact He1|]. split; [exact Hx2|]. intros p Hp Hxp. apply (He3 p Hp). lia.
Qed.

Lemma chain_lines text c st en s1 :
  cache_of text = Done c -> line_start_spec text s1 st -> line_end_spec text s1 en ->
  forall spans lo, Forall (span_ok text) spans -> spans_chain spans -> s1 <= lo ->
    match spans with sp :: _ => lo <= fst sp | [] => True end ->
    Forall (fun sp => snd sp <= en) spans ->
    map_outcome (fun sp => span_line_bytes c (fst sp) (snd sp)) spans =
    Done (map (fun _ => (st, en)) spans).
Proof.
  intros Hc Hst Hen. induction spans as [|[s e] rest IH]; intros lo Hall Hch Hlo Hhd Hends;
    [reflexivity|].
  inversion Hall as [|x l Hsp Hrest]. subst x l.
  inversion Hends as [|x l He Hends']. subst x l.
  destruct Hsp as (Hbs & Hbe & Hse). cbn [fst snd] in *.
  pose proof (boundary_le text e Hbe) as Hele.
  destruct (same_line text s1 st en s Hst Hen ltac:(lia) ltac:(lia)) as [Hst_s _].
  destruct (same_line text s1 st en e Hst Hen ltac:(lia) ltac:(lia)) as [_ Hen_e].
  cbn [map_outcome map fst snd].
  rewrite (span_line_bytes_of text c s e st en Hc Hse Hele Hst_s Hen_e). cbn [obind].
  rewrite (IH e Hrest).
  - reflexivity.
  - destruct rest as [|[s2 e2] rest']; [exact I|]. cbn [spans_chain] in Hch. apply Hch.
  - lia.
  - destruct rest as [|[s2 e2] rest']; [exact I|]. cbn [spans_chain] in Hch. cbn [fst]. apply Hch.
  - exact Hends'.
Qed.

Lemma dedup_const (x : nat * nat) (l : list (nat * nat)) :
  dedup_pairs (map (fun _ => x) l) = match l with [] => [] | _ :: _ => [x] end.
Proof.
  induction l as [|y l IH]; [reflexivity|]. cbn [map dedup_pairs].
  destruct l as [|z l]; [reflexivity|]. cbn [map] in *.
  rewrite !Nat.eqb_refl. cbn [andb]. exact IH.
Qed.

Lemma cb_empty x : forall k from, chars_between x k from from = [].
Proof.
  induction x as [|ch x IH]; intros k from; cbn [chars_between]; [reflexivity|].
  rewrite IH, app_nil_r.
  destruct (from <=? k) eqn:E1; [|reflexivity].
  apply Nat.leb_le in E1. rewrite (proj2 (Nat.ltb_ge k from)) by lia. reflexivity.
Qed.

Lemma under_gaps_spec text : forall spans,
  Forall (span_ok text) spans -> spans_chain spans ->
  exists segs, under_gaps text spans = Done segs /\ segs_ok text spans segs.
Proof.
  induction spans as [|[s e] rest IH]; intros Hall Hch.
  - exists []. split; reflexivity.
  - inversion Hall as [|x l Hsp Hrest]. subst x l.
    destruct Hsp as (Hbs & Hbe & Hse). cbn [fst snd] in *.
    cbn [under_gaps]. rewrite (slice_range_cb text s e Hbs Hbe Hse). cbn [obind].
    destruct rest as [|[s2 e2] rest'].
    + cbn [obind under_gaps]. eexists. split; [reflexivity|].
      cbn [segs_ok next_start]. split; [reflexivity|]. split; [|exact I].
      symmetry. apply cb_empty.
    + cbn [spans_chain] in Hch. destruct Hch as [Hes2 Hch].
      inversion Hrest as [|x l Hsp2 _]. subst x l. destruct Hsp2 as (Hbs2 & _). cbn [fst] in Hbs2.
      rewrite (slice_range_cb text e s2 Hbe Hbs2 Hes2). cbn [obind].
      destruct (IH Hrest Hch) as (segs & Hsegs & Hok). rewrite Hsegs. cbn [obind].
      eexists. split; [reflexivity|]. cbn [segs_ok next_start].
      split; [reflexivity|]. split; [reflexivity|exact Hok].
Qed.

Lemma nlpos_from_split s : forall k q, In q (nlpos_from s k) ->
  exists x y, s = x ++ NL :: y /\ q = k + byte_len x.
Proof.
  induction s as [|ch s IH]; intros k q Hq; cbn [nlpos_from] in Hq; [destruct Hq|].
  destruct (ch =? NL)%N eqn:E.
  - apply N.eqb_eq in E. subst ch. destruct Hq as [<-|Hq].
    + exists [], s. split; [reflexivity|cbn [byte_len]; lia].
    + destruct (IH _ _ Hq) as (x & y & -> & ->). exists (NL :: x), y.
      split; [reflexivity|]. cbn [byte_len]. change (len_utf8 NL) with 1. lia.
  - destruct (IH _ _ Hq) as (x & y & -> & ->). exists (ch :: x), y.
    split; [reflexivity|]. cbn [byte_len]. lia.
Qed.

Lemma line_start_boundary text st : is_line_start text st -> boundary text st.
Proof.
  intros [->|(q & Hq & ->)].
  - apply (boundary_app text [] text). reflexivity.
  - destruct (nlpos_from_split text 0 q Hq) as (x & y & Ht & ->). cbn [Nat.add].
    replace (byte_len x + 1) with (byte_len (x ++ [NL]))
      by (rewrite byte_len_app; reflexivity).
    apply (boundary_app text (x ++ [NL]) y). rewrite Ht, <- app_assoc. reflexivity.
Qed.

Lemma line_end_boundary text e en : line_end_spec text e en -> boundary text en.
Proof.
  intros ([Hq| ->] & _).
  - destruct (nlpos_from_split text 0 en Hq) as (x & y & Ht & ->). cbn [Nat.add].
    apply (boundary_app text x (NL :: y) Ht).
  - apply (boundary_app text text []). rewrite app_nil_r. reflexivity.
Qed.

Lemma spans_on_line_spec : spans_on_line_spec_stmt.
Proof.
  intros text c s1 e1 rest st en Hc Hall Hch Hst Hen Hends.
  unfold spans_on_line.
  rewrite (chain_lines text c st en s1 Hc Hst Hen ((s1, e1) :: rest) s1 Hall Hch
             (Nat.le_refl _) (Nat.le_refl _) Hends).
  cbn [obind]. rewrite dedup_const. cbn [length Nat.eqb negb].
  inversion Hall as [|x l Hsp Hrest]. subst x l.
  destruct Hsp as (Hbs & Hbe & Hse). cbn [fst snd] in *.
  inversion Hends as [|x l He1 _]. subst x l. cbn [snd] in He1.
  pose proof (boundary_le text e1 Hbe) as Hele.
  destruct (line_col_of text c s1 Hc Hbs) as (col & Hlc). rewrite Hlc. cbn [obind].
  destruct (same_line text s1 st en e1 Hst Hen Hse He1) as [_ Hen_e].
  rewrite (span_line_bytes_of text c s1 e1 st en Hc Hse Hele Hst Hen_e). cbn [obind fst snd].
  assert (Hbst : boundary text st) by (apply line_start_boundary, Hst).
  assert (Hben : boundary text en) by (apply (line_end_boundary text s1), Hen).
  assert (Hst_le : st <= s1) by apply Hst.
  assert (Hen_ge : s1 <= en) by apply Hen.
  rewrite (slice_range_cb text st en Hbst Hben) by lia. cbn [obind].
  rewrite (slice_range_cb text st s1 Hbst Hbs Hst_le). cbn [obind].
  destruct (under_gaps_spec text ((s1, e1) :: rest) Hall Hch) as (segs & Hsegs & Hok).
  rewrite Hsegs. cbn [obind].
  eexists. split; [reflexivity|]. cbn [lr_num lr_text lr_indent lr_segs].
  repeat split; try reflexivity. exact Hok.
Qed.

(* ------------------------------------------------------------------------ *)
(* the row specification determines the rows                                *)

Lemma filter_lt_strict (l : list nat) a b q : In q l -> a <= q -> q < b ->
  length (filter (fun p => p <? a) l) < length (filter (fun p => p <? b) l).
Proof.
  intros Hq Ha Hb. induction l as [|x l IH]; [destruct Hq|]. cbn [filter].
  destruct Hq as [->|Hq].
  - rewrite (proj2 (Nat.ltb_ge q a)) by lia. rewrite (proj2 (Nat.ltb_lt q b)) by lia.
    cbn [length]. pose proof (filter_lt_mono l a b ltac:(lia)). lia.
  - specialize (IH Hq). destruct (x <? a) eqn:Ea.
    + apply Nat.ltb_lt in Ea. rewrite (proj2 (Nat.ltb_lt x b)) by lia. cbn [length]. lia.
    + destruct (x <? b); cbn [length]; lia.
Qed.

Lemma line_start_by_number_lt text a b :
  is_line_start text b -> a < b -> line_spec text a < line_spec text b.
Proof.
  intros Hb Hab. destruct Hb as [->|(q & Hq & ->)]; [lia|].
  unfold line_spec. pose proof (filter_lt_strict (nlpos text) a (q + 1) q Hq ltac:(lia) ltac:(lia)).
  lia.
Qed.

Lemma line_start_by_number text a b :
  is_line_start text a -> is_line_start text b -> line_spec text a = line_spec text b -> a = b.
Proof.
  intros Ha Hb Hl. destruct (Nat.lt_trichotomy a b) as [H|[H|H]]; [|exact H|].
  - pose proof (line_start_by_number_lt text a b Hb H). lia.
  - pose proof (line_start_by_number_lt text b a Ha H). lia.
Qed.

Lemma line_text_unique text st en c1 c2 :
  line_text_spec text st en c1 -> line_text_spec text st en c2 -> c1 = c2.
Proof.
  unfold line_text_spec. destruct (en <? byte_len text); [|intros -> ->; reflexivity].
  intros [(b1 & H1 & ->)|(N1 & ->)] [(b2 & H2 & ->)|(N2 & ->)].
  - rewrite H1 in H2. apply app_inj_tail in H2. apply H2.
  - exfalso. apply (N2 b1 H1).
  - exfalso. apply (N1 b2 H2).
  - reflexivity.
Qed.

Lemma row_ok_unique text s e L r1 r2 : row_ok text s e L r1 -> row_ok text s e L r2 -> r1 = r2.
Proof.
  intros (st1 & en1 & Hs1 & Hl1 & He1 & Hn1 & Ht1 & Hi1 & Hu1)
         (st2 & en2 & Hs2 & Hl2 & He2 & Hn2 & Ht2 & Hi2 & Hu2).
  assert (st1 = st2) by (apply (line_start_by_number text); congruence). subst st2.
  assert (en1 = en2) by (apply (line_end_unique text st1); assumption). subst en2.
  pose proof (line_text_unique text st1 en1 _ _ Ht1 Ht2) as Ht.
  destruct r1 as [n1 t1 i1 u1], r2 as [n2 t2 i2 u2]. cbn [r_num r_text r_indent r_under] in *.
  congruence.
Qed.

Lemma rows_ok_unique_from text s e : forall rows1 rows2 L,
  length rows1 = length rows2 ->
  (forall i r, nth_error rows1 i = Some r -> row_ok text s e (L + i) r) ->
  (forall i r, nth_error rows2 i = Some r -> row_ok text s e (L + i) r) ->
  rows1 = rows2.
Proof.
  induction rows1 as [|r1 rows1 IH]; intros rows2 L Hlen H1 H2;
    destruct rows2 as [|r2 rows2]; try discriminate; [reflexivity|].
  f_equal.
  - apply (row_ok_unique text s e (L + 0)); [apply (H1 0)|apply (H2 0)]; reflexivity.
  - apply (IH rows2 (S L)); [cbn [length] in Hlen; lia| |].
    + intros i r Hi. replace (S L + i) with (L + S i) by lia. apply (H1 (S i)). exact Hi.
    + intros i r Hi. replace (S L + i) with (L + S i) by lia. apply (H2 (S i)). exact Hi.
Qed.

Lemma rows_spec_determinate : rows_spec_determinate_stmt.
Proof.
  intros text s e rows1 rows2 (Hl1 & H1) (Hl2 & H2).
  apply (rows_ok_unique_from text s e rows1 rows2 (line_spec text s)); [lia|exact H1|exact H2].
Qed.

(* ------------------------------------------------------------------------ *)
(* examples: the hypotheses are satisfiable, and what the repaired code prints
   where the pinned code fails *)

(* "a\r\nb", the whole text: two rows, numbered 1 and 2, without the '\r';
   the first underline covers "a\r" *)
Example underline_crlf_example :
  underline_span (mk [97; 13; 10; 98]%N) [97; 13; 10; 98]%N 0 0 4 =
  Done [ {| r_num := 1; r_text := [97]%N; r_indent := []; r_under := [97; 13]%N |};
         {| r_num := 2; r_text := [98]%N; r_indent := []; r_under := [98]%N |} ].
Proof. vm_compute. reflexivity. Qed.

(* "a\n", the empty span at the end: the empty line 2 is printed (with the message) *)
Example underline_empty_line_example :
  underline_span (mk [97; 10]%N) [97; 10]%N 0 2 2 =
  Done [ {| r_num := 2; r_text := []; r_indent := []; r_under := [] |} ].
Proof. vm_compute. reflexivity. Qed.

(* "a\n\n\nb" with the spans of 'a' and 'b': "..." after the first *)
Example format_spanned_example :
  exists r1 r2,
  spanned_case true true [97; 10; 10; 10; 98]%N [(0, 1); (4, 5)] =
  Done [(true, [r1]); (false, [r2])] /\ r_num r1 = 1 /\ r_num r2 = 4.
Proof. eexists. eexists. vm_compute. repeat split. Qed.

(* "ab cd" with the spans of "ab" and "cd" *)
Example spans_on_line_example :
  on_line_case [97; 98; 32; 99; 100]%N [(0, 2); (3, 5)] =
  Done {| lr_num := 1; lr_text := [97; 98; 32; 99; 100]%N; lr_indent := [];
          lr_segs := [([97; 98]%N, [32]%N); ([99; 100]%N, [])] |}.
Proof. vm_compute. reflexivity. Qed.
