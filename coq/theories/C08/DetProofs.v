(* C08 proofs, part 7: action mode and generic mode run in lock step when they are given the same
   recoverer FUNCTION; the witness that they do not when the recoverer may answer differently. *)
From Coq Require Import List Arith NArith Bool Lia.
From GV Require Import Common.Outcome Base.Grammar LR.Automaton LR.Validator LR.Spec.
From GV Require Import C08.Model C08.Spec C08.Forest C08.Loops C08.Spans C08.DetModel C08.DetSpec.
Import ListNotations.

Section Det.
Variable SP : Type.
Variable sh : lexeme -> SP.
Variable rd : list SP -> nat -> outcome (span * list SP).
Hypothesis nofuel : forall l n, rd l n <> OutOfFuel.
Variable g : grammar.
Variable A : automaton.
Variable prm : nat.
Variable lexemes : list lexeme.
Variable rcv : recoverer.

Notation pstate := (pstate SP).
Notation gstate := (gstate SP).

(* the generic value an action-mode stack entry stands for *)
Definition garg_val (vals : list ltree) (a : arg) : garg :=
  match a with
  | ALex l => GLex l
  | AVal j => GVal (erase g (nth j vals (LLeaf dummy_lex)))
  end.

(* the generic-mode state that corresponds to an action-mode state *)
Definition gstate_of (s : pstate) : gstate :=
  mkGSt (pstack s) (map (garg_val (values_of_log (log s))) (astack s)) (spans s).

(* every value on the value stack was returned by a call already made *)
Definition arg_bounded (n : nat) (a : arg) : Prop :=
  match a with ALex _ => True | AVal j => (j < n)%nat end.
Definition bounded (s : pstate) : Prop := Forall (arg_bounded (length (log s))) (astack s).

Lemma gnode_garg_val vals a : gnode (garg_val vals a) = erase g (value_of vals a).
Proof. destruct a; reflexivity. Qed.

Lemma garg_val_snoc vals x a : arg_bounded (length vals) a -> garg_val (vals ++ [x]) a = garg_val vals a.
Proof.
  destruct a as [l|j]; cbn [arg_bounded garg_val]; intros H; [reflexivity|].
  rewrite app_nth1 by exact H. reflexivity.
Qed.

Lemma arg_bounded_mono n m a : (n <= m)%nat -> arg_bounded n a -> arg_bounded m a.
Proof. destruct a; cbn; [auto|lia]. Qed.

Lemma bounded_shift (s : pstate) st' l : bounded s -> bounded (shift_st SP sh s st' l).
Proof.
  unfold bounded. cbn [shift_st astack log]. intros H. apply Forall_app. split; [exact H|].
  constructor; [exact I|constructor].
Qed.

Lemma In_firstn_incl {X} n (l : list X) x : In x (firstn n l) -> In x l.
Proof. intros H. rewrite <- (firstn_skipn n l). apply in_or_app. left. exact H. Qed.

Lemma Forall_firstn {X} (P : X -> Prop) n (l : list X) : Forall P l -> Forall P (firstn n l).
Proof.
  intros H. rewrite Forall_forall in *. intros x Hx. apply H. eapply In_firstn_incl. exact Hx.
Qed.

Lemma bounded_reduce (s s' : pstate) p : bounded s -> reduce_lr SP rd g A prm s p = Done s' -> bounded s'.
Proof.
  intros Hb H. apply reduce_lr_inv in H.
  destruct H as (pop_idx & prior & st' & sr & _ & _ & _ & _ & _ & _ & _ & _ & E). subst s'.
  unfold bounded in *. cbn [astack log]. rewrite app_length. cbn [length].
  apply Forall_app. split.
  - eapply Forall_impl; [|apply Forall_firstn; exact Hb].
    intros a Ha. eapply arg_bounded_mono; [|exact Ha]. lia.
  - constructor; [cbn; lia|constructor].
Qed.

Lemma gshift_of (s : pstate) st' l :
  gstate_of (shift_st SP sh s st' l) = gshift_st SP sh (gstate_of s) st' l.
Proof.
  unfold gstate_of, gshift_st. cbn [shift_st pstack astack spans log gpstack gastack gspans].
  rewrite map_app. reflexivity.
Qed.

(* one reduction: the generic copy does to the corresponding state what the action-mode copy does *)
Lemma greduce_of (s : pstate) p : bounded s ->
  greduce_lr SP rd g A (gstate_of s) p = omap gstate_of (reduce_lr SP rd g A prm s p).
Proof.
  intros Hb. unfold greduce_lr, reduce_lr, omap.
  cbn [gstate_of gpstack gastack gspans].
  destruct (negb (is_prodb g p)); [reflexivity|].
  destruct (length (pstack s) <? length (rhs g p))%nat; [reflexivity|].
  set (pop_idx := (length (pstack s) - length (rhs g p))%nat).
  destruct (last_opt (firstn pop_idx (pstack s))) as [prior|]; [|reflexivity].
  destruct (goto A prior (lhs g p)) as [st'|]; [|reflexivity].
  destruct (rd (spans s) pop_idx) as [sr| |]; cbn [obind]; try reflexivity.
  destruct (pop_idx =? 0)%nat; [reflexivity|].
  rewrite map_length.
  destruct (length (astack s) <? pop_idx - 1)%nat; [reflexivity|].
  cbn [obind]. f_equal. unfold gstate_of. cbn [pstack astack spans log]. f_equal.
  set (vals := values_of_log (log s)).
  set (k := (pop_idx - 1)%nat).
  rewrite values_of_log_snoc. fold vals. cbn [c_pidx c_args].
  rewrite map_app. cbn [map]. f_equal.
  - rewrite firstn_map. apply map_ext_in. intros a Ha. symmetry. apply garg_val_snoc.
    unfold vals. rewrite values_of_log_length.
    unfold bounded in Hb. rewrite Forall_forall in Hb. apply Hb. eapply In_firstn_incl. exact Ha.
  - f_equal. cbn [garg_val]. f_equal.
    replace (length (log s)) with (length vals) by (unfold vals; apply values_of_log_length).
    rewrite app_nth2 by lia. rewrite Nat.sub_diag. cbn [nth erase]. f_equal.
    rewrite skipn_map, !map_map. apply map_ext. intros a. apply gnode_garg_val.
Qed.

Lemma greduce_upto_eq (s : gstate) p : greduce_upto SP rd g A s p = greduce_lr SP rd g A s p.
Proof.
  unfold greduce_upto, greduce_lr.
  destruct (negb (is_prodb g p)); [reflexivity|].
  destruct (length (gpstack s) <? length (rhs g p))%nat; [reflexivity|].
  set (pop_idx := (length (gpstack s) - length (rhs g p))%nat).
  destruct (rd (gspans s) pop_idx) as [sr| |] eqn:Hsr; cbn [obind].
  - destruct (pop_idx =? 0)%nat.
    + destruct (last_opt (firstn pop_idx (gpstack s))) as [prior|]; [|reflexivity].
      destruct (goto A prior (lhs g p)); reflexivity.
    + destruct (length (gastack s) <? pop_idx - 1)%nat.
      * destruct (last_opt (firstn pop_idx (gpstack s))) as [prior|]; [|reflexivity].
        destruct (goto A prior (lhs g p)); reflexivity.
      * reflexivity.
  - destruct (last_opt (firstn pop_idx (gpstack s))) as [prior|]; [|reflexivity].
    destruct (goto A prior (lhs g p)); reflexivity.
  - exfalso. revert Hsr. apply nofuel.
Qed.

Definition pair_of (r : nat * pstate) : nat * gstate := (fst r, gstate_of (snd r)).

Lemma bounded_upto_loop fuel prefix laidx e (s : pstate) r :
  bounded s -> lr_upto_loop SP sh rd g A prm lexemes fuel prefix laidx e s = Done r -> bounded (snd r).
Proof.
  apply (lr_upto_loop_J SP sh rd g A prm lexemes nofuel bounded).
  - intros s0 st' l. apply bounded_shift.
  - intros s0 p s0'. apply bounded_reduce.
Qed.

Lemma bounded_upto fuel prefix laidx e (s : pstate) r :
  bounded s -> lr_upto SP sh rd g A prm lexemes fuel prefix laidx e s = Done r -> bounded (snd r).
Proof.
  apply (lr_upto_J SP sh rd g A prm lexemes nofuel bounded).
  - intros s0 st' l. apply bounded_shift.
  - intros s0 p s0'. apply bounded_reduce.
Qed.

Lemma bounded_apply fuel rs laidx (s : pstate) r :
  bounded s -> apply_repairs SP sh rd g A prm lexemes fuel rs laidx s = Done r -> bounded (snd r).
Proof.
  apply (apply_repairs_J SP sh rd g A prm lexemes nofuel bounded).
  - intros s0 st' l. apply bounded_shift.
  - intros s0 p s0'. apply bounded_reduce.
Qed.

Lemma glr_upto_loop_of : forall fuel prefix laidx e (s : pstate), bounded s ->
  glr_upto_loop SP sh rd g A lexemes fuel prefix laidx e (gstate_of s) =
  omap pair_of (lr_upto_loop SP sh rd g A prm lexemes fuel prefix laidx e s).
Proof.
  induction fuel as [|f IH]; intros prefix laidx e s Hb; cbn [glr_upto_loop lr_upto_loop]; [reflexivity|].
  destruct ((laidx =? e)%nat || (length lexemes <? laidx)%nat); [reflexivity|].
  cbn [gstate_of gpstack].
  destruct (last_opt (pstack s)) as [stidx|]; [|reflexivity].
  destruct (action A stidx _) as [st'|p| |]; try reflexivity.
  - destruct (match prefix with Some l => Done l | None => next_lexeme g lexemes laidx end) as [l| |];
      cbn [obind]; try reflexivity.
    fold (gstate_of s). rewrite <- gshift_of. apply IH. apply bounded_shift. exact Hb.
  - fold (gstate_of s). rewrite greduce_upto_eq, (reduce_upto_eq SP rd g A prm s p nofuel), (greduce_of s p Hb).
    destruct (reduce_lr SP rd g A prm s p) as [s'| |] eqn:Hr; cbn [omap obind]; try reflexivity.
    apply IH. eapply bounded_reduce; eassumption.
Qed.

Lemma glr_upto_of fuel prefix laidx e (s : pstate) : bounded s ->
  glr_upto SP sh rd g A lexemes fuel prefix laidx e (gstate_of s) =
  omap pair_of (lr_upto SP sh rd g A prm lexemes fuel prefix laidx e s).
Proof.
  intros Hb. unfold glr_upto, lr_upto. destruct prefix as [l|].
  - destruct (e =? laidx + 1)%nat; [|reflexivity]. apply glr_upto_loop_of. exact Hb.
  - apply glr_upto_loop_of. exact Hb.
Qed.

Lemma gapply_repairs_of fuel : forall rs laidx (s : pstate), bounded s ->
  gapply_repairs SP sh rd g A lexemes fuel rs laidx (gstate_of s) =
  omap pair_of (apply_repairs SP sh rd g A prm lexemes fuel rs laidx s).
Proof.
  induction rs as [|[t| |] rs IH]; intros laidx s Hb; cbn [gapply_repairs apply_repairs].
  - reflexivity.
  - destruct (next_lexeme g lexemes laidx) as [nl| |]; cbn [obind]; try reflexivity.
    rewrite (glr_upto_of fuel _ laidx (laidx + 1) s Hb).
    destruct (lr_upto SP sh rd g A prm lexemes fuel _ laidx (laidx + 1) s) as [r| |] eqn:Hu;
      cbn [omap obind]; try reflexivity.
    cbn [pair_of snd]. apply IH. eapply bounded_upto; eassumption.
  - apply IH. exact Hb.
  - rewrite (glr_upto_of fuel None laidx (laidx + 1) s Hb).
    destruct (lr_upto SP sh rd g A prm lexemes fuel None laidx (laidx + 1) s) as [r| |] eqn:Hu;
      cbn [omap obind]; try reflexivity.
    cbn [pair_of fst snd]. apply IH. eapply bounded_upto; eassumption.
Qed.

Lemma glr_f_of : forall fuel rec laidx (s : pstate) errs, bounded s ->
  glr_f SP sh rd g A lexemes rcv fuel rec laidx (gstate_of s) errs =
  omap (generic_of_actions g) (lr_f SP sh rd g A prm lexemes rcv fuel rec laidx s errs).
Proof.
  induction fuel as [|f IH]; intros rec laidx s errs Hb; cbn [glr_f lr_f]; [reflexivity|].
  cbn [gstate_of gpstack].
  destruct (last_opt (pstack s)) as [stidx|]; [|reflexivity].
  destruct (action A stidx _) as [st'|p| |].
  - destruct (next_lexeme g lexemes laidx) as [l| |]; cbn [obind]; try reflexivity.
    fold (gstate_of s). rewrite <- gshift_of. apply IH. apply bounded_shift. exact Hb.
  - fold (gstate_of s). rewrite (greduce_of s p Hb).
    destruct (reduce_lr SP rd g A prm s p) as [s'| |] eqn:Hr; cbn [omap obind]; try reflexivity.
    apply IH. eapply bounded_reduce; eassumption.
  - unfold gstate_of. cbn [gastack]. destruct (astack s) as [|[l|v] rest]; reflexivity.
  - destruct (next_lexeme g lexemes laidx) as [el| |]; cbn [obind]; try reflexivity.
    destruct (negb rec); [reflexivity|].
    destruct (rcv lexemes laidx (pstack s)) as [rs|]; [|reflexivity].
    fold (gstate_of s). rewrite (gapply_repairs_of f rs laidx s Hb).
    destruct (apply_repairs SP sh rd g A prm lexemes f rs laidx s) as [r| |] eqn:Hap;
      cbn [omap obind]; try reflexivity.
    cbn [pair_of fst snd]. apply IH. eapply bounded_apply; eassumption.
Qed.

Lemma gparse_f_of fuel rec :
  gparse_f SP sh rd g A lexemes rcv fuel rec =
  omap (generic_of_actions g) (parse_f SP sh rd g A prm lexemes rcv fuel rec).
Proof.
  unfold gparse_f, parse_f.
  replace (ginit_st SP A) with (gstate_of (init_st SP A)) by reflexivity.
  apply glr_f_of. constructor.
Qed.

(* a function-driven run is the oracle-driven run on the answers the function gave *)
Lemma lr_f_oracle : forall fuel rec laidx (s : pstate) errs r,
  lr_f SP sh rd g A prm lexemes rcv fuel rec laidx s errs = Done r ->
  exists oracle, lr SP sh rd g A prm lexemes fuel rec oracle laidx s (map (fun e => fst e) errs) = Done (forget r).
Proof.
  induction fuel as [|f IH]; intros rec laidx s errs r H; cbn [lr_f] in H; [discriminate|].
  cbn [lr].
  destruct (last_opt (pstack s)) as [stidx|]; [|discriminate].
  destruct (action A stidx _) as [st'|p| |].
  - destruct (next_lexeme g lexemes laidx) as [l| |]; cbn [obind] in *; try discriminate.
    apply IH. exact H.
  - destruct (reduce_lr SP rd g A prm s p) as [s'| |]; cbn [obind] in *; try discriminate.
    apply IH. exact H.
  - exists []. destruct (astack s) as [|[l|v] rest]; try discriminate.
    injection H as H. subst r. reflexivity.
  - destruct (next_lexeme g lexemes laidx) as [el| |]; cbn [obind] in *; try discriminate.
    destruct (negb rec).
    { exists []. injection H as H. subst r. unfold forget. cbn [f_val f_log f_errs].
      rewrite map_app. reflexivity. }
    destruct (rcv lexemes laidx (pstack s)) as [rs|].
    + destruct (apply_repairs SP sh rd g A prm lexemes f rs laidx s) as [r1| |] eqn:Hap;
        cbn [obind] in H; try discriminate.
      destruct (IH _ _ _ _ _ H) as (oracle' & Ho). exists (Some rs :: oracle').
      rewrite Hap. cbn [obind]. rewrite map_app in Ho. exact Ho.
    + exists []. injection H as H. subst r. unfold forget. cbn [f_val f_log f_errs].
      rewrite map_app. reflexivity.
Qed.

End Det.

(* ---- the statements ------------------------------------------------------------------------------ *)
Lemma actions_equal_generic_same_recoverer : actions_equal_generic_same_recoverer_stmt.
Proof.
  split; intros g A prm lexemes fuel rec rcv.
  - apply gparse_f_of. exact sp_reduce_cur_nofuel.
  - apply gparse_f_of. exact sp_reduce_fix_nofuel.
Qed.

Lemma actions_tree_equals_generic_recovery : actions_tree_equals_generic_recovery_stmt.
Proof.
  intros g A prm lexemes fuel rec rcv k log errs H.
  unfold run_generic_fixed_f. rewrite (gparse_f_of _ sp_shift_fix sp_reduce_fix sp_reduce_fix_nofuel g A prm).
  unfold run_actions_fixed_f in H. rewrite H. reflexivity.
Qed.

Lemma recoverer_run_is_oracle_run : recoverer_run_is_oracle_run_stmt.
Proof.
  intros SP sh rd g A prm lexemes fuel rec rcv r H. unfold parse_f in H.
  destruct (lr_f_oracle SP sh rd g A prm lexemes rcv fuel rec 0%nat (init_st SP A) [] r H) as (oracle & Ho).
  exists oracle. exact Ho.
Qed.

(* ---- the witness: one tie, two answers ------------------------------------------------------------ *)
(* generated from the harness dump of:  %start S %% S: 'a' B 'c'; B: 'b' | 'd';   (tokens a=0 c=1 b=2
   d=3 eof=4; rules ^=0 S=1 B=2; productions 0 = S: a B c, 1 = B: b, 2 = B: d, 3 = ^: S) *)
Definition tie_g : grammar := mkGrammar 5%N 3%N
  [(1%N, [T 0%N; R 2%N; T 1%N]); (2%N, [T 2%N]); (2%N, [T 3%N]); (0%N, [R 1%N])]
  3%N 4%N.
Definition tie_dump : dump := mkDump 7%N 0%N
  [(0%N, [(0%N, 0%nat, [4%N]); (3%N, 0%nat, [4%N])]); (1%N, [(0%N, 1%nat, [4%N]); (1%N, 0%nat, [1%N]); (2%N, 0%nat, [1%N])]); (2%N, [(3%N, 1%nat, [4%N])]); (3%N, [(0%N, 2%nat, [4%N])]); (4%N, [(1%N, 1%nat, [1%N])]); (5%N, [(2%N, 1%nat, [1%N])]); (6%N, [(0%N, 3%nat, [4%N])])]
  [(0%N, [(3%N, 0%nat, [4%N])]); (1%N, [(0%N, 1%nat, [4%N])]); (2%N, [(3%N, 1%nat, [4%N])]); (3%N, [(0%N, 2%nat, [4%N])]); (4%N, [(1%N, 1%nat, [1%N])]); (5%N, [(2%N, 1%nat, [1%N])]); (6%N, [(0%N, 3%nat, [4%N])])]
  [(0%N, [(T 0%N, 1%N); (R 1%N, 2%N)]); (1%N, [(T 2%N, 4%N); (R 2%N, 3%N); (T 3%N, 5%N)]); (2%N, []); (3%N, [(T 1%N, 6%N)]); (4%N, []); (5%N, []); (6%N, [])]
  [(0%N, [(0%N, Shift 1%N)]); (1%N, [(2%N, Shift 4%N); (3%N, Shift 5%N)]); (2%N, [(4%N, Accept)]); (3%N, [(1%N, Shift 6%N)]); (4%N, [(1%N, Reduce 1%N)]); (5%N, [(1%N, Reduce 2%N)]); (6%N, [(4%N, Reduce 0%N)])]
  [(0%N, [(1%N, 2%N)]); (1%N, [(2%N, 3%N)]); (2%N, []); (3%N, []); (4%N, []); (5%N, []); (6%N, [])].
Definition tie_A : automaton := of_dump tie_dump.
(* the text "a c": the error is at 'c' (lexeme 1) with the parse stack [0; 1]; `Insert b` and
   `Insert d` are the two repair sequences of the first rank *)
Definition tie_lexemes : list lexeme := [mkLex 0%N 0 1 false; mkLex 1%N 2 3 false].
Definition tie_rcv_b : recoverer := table_recoverer [(1%nat, [0%N; 1%N], [RInsert 2%N])].
Definition tie_rcv_d : recoverer := table_recoverer [(1%nat, [0%N; 1%N], [RInsert 3%N])].

Definition tie_log_b : list call :=
  [mkCall 1%N 2%N [ALex (mkLex 2%N 2 2 true)] (2, 2)%nat 77;
   mkCall 0%N 1%N [ALex (mkLex 0%N 0 1 false); AVal 0; ALex (mkLex 1%N 2 3 false)] (0, 3)%nat 77].
Definition tie_err (t : N) : err_f := (mkLex 1%N 2 3 false, 1%N, Some [RInsert t]).
Definition tie_tree (t : N) : gtree :=
  GNonterm 1%N [GTerm (mkLex 0%N 0 1 false); GNonterm 2%N [GTerm (mkLex t 2 2 true)]; GTerm (mkLex 1%N 2 3 false)].

Lemma tie_hyps : wf_grammar tie_g = true /\ validS tie_g tie_A = true /\
  tokens_in_range tie_g (map lx_tok tie_lexemes) /\ no_eof tie_g (map lx_tok tie_lexemes).
Proof.
  split; [vm_compute; reflexivity|]. split; [vm_compute; reflexivity|]. split.
  - repeat constructor.
  - intros [H | [H | []]]; discriminate.
Qed.

Lemma stack_eqb_sym : forall a b, stack_eqb a b = stack_eqb b a.
Proof.
  induction a as [|x a IH]; intros [|y b]; cbn [stack_eqb]; try reflexivity.
  rewrite N.eqb_sym, IH. reflexivity.
Qed.

Lemma tie_agree ls j qs : (j =? 1)%nat && stack_eqb qs [0%N; 1%N] = false -> tie_rcv_b ls j qs = tie_rcv_d ls j qs.
Proof.
  intros H. unfold tie_rcv_b, tie_rcv_d, table_recoverer. cbn [table_lookup].
  rewrite Nat.eqb_sym, (stack_eqb_sym [0%N; 1%N] qs), H. reflexivity.
Qed.

Lemma actions_differ_generic_if_recoverer_differs_refuted :
  actions_differ_generic_if_recoverer_differs_refuted_stmt.
Proof.
  exists tie_g, tie_A, 77%nat, tie_lexemes, 50%nat, tie_rcv_b, tie_rcv_d, 1%nat, [0%N; 1%N], 2%N, 3%N,
         1%nat, tie_log_b, [tie_err 2%N], (tie_tree 3%N), [tie_err 3%N].
  destruct tie_hyps as (H1 & H2 & H3 & H4).
  split; [exact H1|]. split; [exact H2|]. split; [exact H3|]. split; [exact H4|].
  split; [exact tie_agree|].
  split; [reflexivity|]. split; [reflexivity|].
  split; [vm_compute; reflexivity|]. split; [vm_compute; reflexivity|].
  split; [reflexivity|]. split; [reflexivity|].
  vm_compute. intros H. discriminate H.
Qed.

(* the hypotheses of the positive theorems are met by the same parse: with ONE recoverer both modes
   return the tree with the inserted 'b' (resp. 'd') and the same error *)
Example same_recoverer_witness_b :
  run_actions_fixed_f tie_g tie_A 77 tie_lexemes tie_rcv_b 50 true = Done (mkFRes (Some 1%nat) tie_log_b [tie_err 2%N]) /\
  run_generic_fixed_f tie_g tie_A tie_lexemes tie_rcv_b 50 true = Done (mkGRes (Some (tie_tree 2%N)) [tie_err 2%N]) /\
  erase tie_g (final_tree tie_log_b 1) = tie_tree 2%N.
Proof. repeat split; vm_compute; reflexivity. Qed.

Example same_recoverer_witness_d :
  exists log,
  run_actions_fixed_f tie_g tie_A 77 tie_lexemes tie_rcv_d 50 true = Done (mkFRes (Some 1%nat) log [tie_err 3%N]) /\
  run_generic_fixed_f tie_g tie_A tie_lexemes tie_rcv_d 50 true = Done (mkGRes (Some (tie_tree 3%N)) [tie_err 3%N]) /\
  erase tie_g (final_tree log 1) = tie_tree 3%N.
Proof. eexists. repeat split; vm_compute; reflexivity. Qed.
