(* C08 — mirror of the value/span bookkeeping of lrpar's Parser::lr and its
   duplicate Parser::lr_upto (lrpar/src/lib/parser.rs), and of
   cpctplus::apply_repairs which replays a repair sequence through lr_upto.

   Vec-typed stacks (pstack, astack, spans) are lists in Vec order (bottom
   first), indexed exactly as the Rust code indexes them; every panic site
   (usize underflow, index, slice, unwrap, Span::new(end < start), unreachable!)
   is an explicit [Panic] outcome; the parse loops run on fuel.

   Actions are modelled freely: the k-th action call returns the value [k] and
   appends (pidx, ridx, argument list, span, param) to a log; any concrete
   family of actions is a fold over that log.

   The span computation of a reduction is a parameter ("span policy") so that
   the same loops are instantiated with TODAY's code ([run_actions]) and with
   the proposed repair of it ([run_actions_fixed]).  Definitions only. *)
From Coq Require Import List Arith NArith Bool Lia.
From GV Require Import Common.Outcome Base.Grammar LR.Automaton.
Import ListNotations.

Definition span := (nat * nat)%type.           (* cfgrammar::Span { start, end } *)

(* a lexeme as the parser sees it: token id, byte span, faulty flag *)
Record lexeme := mkLex { lx_tok : N; lx_start : nat; lx_end : nat; lx_faulty : bool }.
Definition lx_span (l : lexeme) : span := (lx_start l, lx_end l).

(* AStackType<Lexeme, ActionT> with ActionT := the number of the call that returned the value *)
Inductive arg := ALex (l : lexeme) | AVal (k : nat).

(* one action call *)
Record call := mkCall { c_pidx : N; c_ridx : N; c_args : list arg; c_span : span; c_param : nat }.

(* Span::new: panics if end < start *)
Definition span_new (s e : nat) : outcome span := if (e <? s)%nat then Panic else Done (s, e).

(* v.last() *)
Definition last_opt {X} (l : list X) : option X := nth_error l (length l - 1).

(* ---- the two span computations ------------------------------------------------------ *)

(* TODAY (parser.rs:336-344, and again :448-462): spans : Vec<Span>

     let span = if spans.is_empty() { Span::new(0, 0) }
       else if pop_idx - 1 < spans.len() { Span::new(spans[pop_idx - 1].start(), spans[spans.len() - 1].end()) }
       else { Span::new(spans[spans.len() - 1].start(), spans[spans.len() - 1].end()) };
     spans.truncate(pop_idx - 1);
     spans.push(span);                                                                   *)
Definition sp_shift_cur (l : lexeme) : span := lx_span l.

Definition sp_reduce_cur (spans : list span) (pop_idx : nat) : outcome (span * list span) :=
  do sp <- match spans with
           | [] => span_new 0 0
           | _ :: _ =>
               if (pop_idx =? 0)%nat then Panic                       (* pop_idx - 1 underflows *)
               else if (pop_idx - 1 <? length spans)%nat then
                 do a <- nth_checked spans (pop_idx - 1);
                 do b <- nth_checked spans (length spans - 1);
                 span_new (fst a) (snd b)
               else
                 do b <- nth_checked spans (length spans - 1);
                 span_new (fst b) (snd b)
           end;
  if (pop_idx =? 0)%nat then Panic                                    (* truncate(pop_idx - 1) *)
  else Done (sp, firstn (pop_idx - 1) spans ++ [sp]).

(* PROPOSED REPAIR: spans : Vec<(Span, bool)>, the flag = "derived at least one lexeme"

     let kids = &spans[pop_idx - 1..];
     let e = match (kids.iter().find(|x| x.1), kids.iter().rfind(|x| x.1)) {
         (Some(f), Some(l)) => (Span::new(f.0.start(), l.0.end()), true),
         _ => { let p = if pop_idx - 1 == 0 { 0 } else { spans[pop_idx - 2].0.end() };
                (Span::new(p, p), false) } };
     spans.truncate(pop_idx - 1);
     spans.push(e);            // e.0 is the span passed to the action
   and on a shift  spans.push((la_lexeme.span(), true)).                                 *)
Definition sp_shift_fix (l : lexeme) : span * bool := (lx_span l, true).

Definition sp_reduce_fix (spans : list (span * bool)) (pop_idx : nat) : outcome (span * list (span * bool)) :=
  if (pop_idx =? 0)%nat then Panic else
  let base := pop_idx - 1 in
  if (length spans <? base)%nat then Panic else                       (* &spans[pop_idx - 1..] *)
  let kids := skipn base spans in
  do e <- match find (fun x => snd x) kids, find (fun x => snd x) (rev kids) with
          | Some f, Some l => do sp <- span_new (fst (fst f)) (snd (fst l)); Done (sp, true)
          | _, _ =>
              do p <- (if (base =? 0)%nat then Done 0%nat
                       else do x <- nth_checked spans (base - 1); Done (snd (fst x)));
              do sp <- span_new p p; Done (sp, false)
          end;
  Done (fst e, firstn base spans ++ [e]).

(* ---- the parser loops, generic in the span policy --------------------------------- *)
Section Loops.
Variable SP : Type.                                      (* element type of the spans stack *)
Variable sp_shift : lexeme -> SP.
Variable sp_reduce : list SP -> nat -> outcome (span * list SP).

Variable g : grammar.
Variable A : automaton.
Variable prm : nat.                                      (* the parse parameter (cloned into every call) *)
Variable lexemes : list lexeme.

Record pstate := mkSt { pstack : list N; astack : list arg; spans : list SP; log : list call }.

(* Parser::next_lexeme *)
Definition next_lexeme (laidx : nat) : outcome lexeme :=
  match nth_error lexemes laidx with
  | Some l => Done l
  | None =>
      if (length lexemes =? 0)%nat then Done (mkLex (eof g) 0 0 true)
      else do l <- nth_checked lexemes (laidx - 1);                   (* self.lexemes[laidx - 1] *)
           Done (mkLex (eof g) (lx_end l) (lx_end l) true)
  end.

(* Parser::next_tidx *)
Definition next_tidx (laidx : nat) : N :=
  match nth_error lexemes laidx with Some l => lx_tok l | None => eof g end.

Definition shift_st (s : pstate) (st' : N) (l : lexeme) : pstate :=
  mkSt (pstack s ++ [st']) (astack s ++ [ALex l]) (spans s ++ [sp_shift l]) (log s).

(* the Reduce arm of Parser::lr: parse stack first, then spans, then the action call *)
Definition reduce_lr (s : pstate) (p : N) : outcome pstate :=
  if negb (is_prodb g p) then Panic else                              (* grm.prod(pidx), actions[pidx] *)
  let n := length (rhs g p) in
  if (length (pstack s) <? n)%nat then Panic else                     (* pstack.len() - prod.len() *)
  let pop_idx := length (pstack s) - n in
  let ps1 := firstn pop_idx (pstack s) in                             (* pstack.drain(pop_idx..) *)
  match last_opt ps1 with
  | None => Panic                                                     (* pstack.last().unwrap() *)
  | Some prior =>
      match goto A prior (lhs g p) with
      | None => Panic                                                 (* goto(..).unwrap() *)
      | Some s' =>
          do sr <- sp_reduce (spans s) pop_idx;
          if (pop_idx =? 0)%nat then Panic else                       (* astack.drain(pop_idx - 1..) *)
          if (length (astack s) <? pop_idx - 1)%nat then Panic else
          let args := skipn (pop_idx - 1) (astack s) in
          Done (mkSt (ps1 ++ [s'])
                     (firstn (pop_idx - 1) (astack s) ++ [AVal (length (log s))])
                     (snd sr)
                     (log s ++ [mkCall p (lhs g p) args (fst sr) prm]))
      end
  end.

(* the Reduce arm of Parser::lr_upto: the same code, duplicated, with the spans / action
   part BEFORE the parse-stack part *)
Definition reduce_upto (s : pstate) (p : N) : outcome pstate :=
  if negb (is_prodb g p) then Panic else
  let n := length (rhs g p) in
  if (length (pstack s) <? n)%nat then Panic else
  let pop_idx := length (pstack s) - n in
  do sr <- sp_reduce (spans s) pop_idx;
  if (pop_idx =? 0)%nat then Panic else
  if (length (astack s) <? pop_idx - 1)%nat then Panic else
  let args := skipn (pop_idx - 1) (astack s) in
  let ps1 := firstn pop_idx (pstack s) in
  match last_opt ps1 with
  | None => Panic
  | Some prior =>
      match goto A prior (lhs g p) with
      | None => Panic
      | Some s' =>
          Done (mkSt (ps1 ++ [s'])
                     (firstn (pop_idx - 1) (astack s) ++ [AVal (length (log s))])
                     (snd sr)
                     (log s ++ [mkCall p (lhs g p) args (fst sr) prm]))
      end
  end.

(* Parser::lr_upto with astack = Some, spans = Some (the replay of a repair) *)
Fixpoint lr_upto_loop (fuel : nat) (prefix : option lexeme) (laidx end_laidx : nat) (s : pstate)
  : outcome (nat * pstate) :=
  match fuel with
  | O => OutOfFuel
  | S f =>
      if (laidx =? end_laidx)%nat || (length lexemes <? laidx)%nat then Done (laidx, s) else
      match last_opt (pstack s) with
      | None => Panic
      | Some stidx =>
          let la_tidx := match prefix with Some l => lx_tok l | None => next_tidx laidx end in
          match action A stidx la_tidx with
          | Reduce p => do s' <- reduce_upto s p; lr_upto_loop f prefix laidx end_laidx s'
          | Shift st' =>
              do l <- match prefix with Some l => Done l | None => next_lexeme laidx end;
              lr_upto_loop f prefix (S laidx) end_laidx (shift_st s st' l)
          | Accept => Done (laidx, s)
          | Err => Done (laidx, s)
          end
      end
  end.

Definition lr_upto (fuel : nat) (prefix : option lexeme) (laidx end_laidx : nat) (s : pstate)
  : outcome (nat * pstate) :=
  (* assert!(lexeme_prefix.is_none() || end_laidx == laidx + 1) *)
  match prefix with
  | Some _ => if (end_laidx =? laidx + 1)%nat then lr_upto_loop fuel prefix laidx end_laidx s else Panic
  | None => lr_upto_loop fuel prefix laidx end_laidx s
  end.

Inductive repair := RInsert (t : N) | RDelete | RShift.

(* cpctplus::apply_repairs *)
Fixpoint apply_repairs (fuel : nat) (rs : list repair) (laidx : nat) (s : pstate) : outcome (nat * pstate) :=
  match rs with
  | [] => Done (laidx, s)
  | RInsert t :: rs' =>
      do nl <- next_lexeme laidx;
      (* Lexeme::new_faulty(tidx, next_lexeme.span().start(), 0) *)
      let new := mkLex t (lx_start nl) (lx_start nl) true in
      do r <- lr_upto fuel (Some new) laidx (laidx + 1) s;
      apply_repairs fuel rs' laidx (snd r)
  | RDelete :: rs' => apply_repairs fuel rs' (laidx + 1) s
  | RShift :: rs' =>
      do r <- lr_upto fuel None laidx (laidx + 1) s;
      apply_repairs fuel rs' (fst r) (snd r)
  end.

(* what a parse returns: the value, the action log, the reported errors (lexeme, state) *)
Record pres := mkRes { r_val : option nat; r_log : list call; r_errs : list (lexeme * N) }.

(* Parser::lr.  [rec] = RecoveryKind::CPCTPlus; the search of the recoverer is not modelled:
   [oracle] lists, per error in order, the repair sequence the recoverer applied ([None] / an
   exhausted list = it found none). *)
Fixpoint lr (fuel : nat) (rec : bool) (oracle : list (option (list repair))) (laidx : nat)
            (s : pstate) (errs : list (lexeme * N)) : outcome pres :=
  match fuel with
  | O => OutOfFuel
  | S f =>
      match last_opt (pstack s) with
      | None => Panic
      | Some stidx =>
          match action A stidx (next_tidx laidx) with
          | Reduce p => do s' <- reduce_lr s p; lr f rec oracle laidx s' errs
          | Shift st' => do l <- next_lexeme laidx; lr f rec oracle (S laidx) (shift_st s st' l) errs
          | Accept =>
              match astack s with                                     (* astack.drain(..).next().unwrap() *)
              | AVal v :: _ => Done (mkRes (Some v) (log s) errs)
              | _ => Panic
              end
          | Err =>
              do el <- next_lexeme laidx;
              if negb rec then Done (mkRes None (log s) (errs ++ [(el, stidx)])) else
              match oracle with
              | Some rs :: oracle' =>
                  do r <- apply_repairs f rs laidx s;
                  lr f rec oracle' (fst r) (snd r) (errs ++ [(el, stidx)])
              | _ => Done (mkRes None (log s) (errs ++ [(el, stidx)]))
              end
          end
      end
  end.

Definition init_st : pstate := mkSt [start A] [] [] [].

Definition parse (fuel : nat) (rec : bool) (oracle : list (option (list repair))) : outcome pres :=
  lr fuel rec oracle 0 init_st [].

End Loops.

Arguments pstack {SP} _.
Arguments astack {SP} _.
Arguments spans {SP} _.
Arguments log {SP} _.
Arguments mkSt {SP} _ _ _ _.

(* ---- the instances ---------------------------------------------------------------------- *)

(* RTParserBuilder::parse_actions on today's code; [rec = false] is RecoveryKind::None *)
Definition run_actions_rec := parse span sp_shift_cur sp_reduce_cur.
Definition run_actions (g : grammar) (A : automaton) (prm : nat) (lexemes : list lexeme) (fuel : nat) :=
  run_actions_rec g A prm lexemes fuel false [].

(* the same with the proposed repair of the span computation *)
Definition run_actions_fixed_rec := parse (span * bool)%type sp_shift_fix sp_reduce_fix.
Definition run_actions_fixed (g : grammar) (A : automaton) (prm : nat) (lexemes : list lexeme) (fuel : nat) :=
  run_actions_fixed_rec g A prm lexemes fuel false [].
