(* C08 proofs, part 4: without recovery the mirror of Parser::lr walks in lock step with the
   LR interpreter [LR.Automaton.step] (the generic-tree mode proved sound in LR/Sound.v); on a
   validated table the accepting stack is a single tree, which therefore contains every call. *)
From Coq Require Import List Arith NArith Bool Lia.
From GV Require Import Common.Outcome Base.Grammar Base.Analyses LR.Automaton LR.Validator LR.Spec LR.Sound.
From GV Require Import C08.Model C08.Spec C08.Forest C08.Loops.
Import ListNotations.

(* ---- Forall2 ------------------------------------------------------------------------------ *)
Lemma Forall2_len {X Y} (R : X -> Y -> Prop) l l' : Forall2 R l l' -> length l = length l'.
Proof. induction 1; cbn; congruence. Qed.

Lemma Forall2_firstn {X Y} (R : X -> Y -> Prop) n : forall l l',
  Forall2 R l l' -> Forall2 R (firstn n l) (firstn n l').
Proof.
  induction n as [|n IH]; intros l l' H; [constructor|].
  destruct H; cbn [firstn]; constructor; auto.
Qed.

Lemma Forall2_skipn {X Y} (R : X -> Y -> Prop) n : forall l l',
  Forall2 R l l' -> Forall2 R (skipn n l) (skipn n l').
Proof.
  induction n as [|n IH]; intros l l' H; [exact H|].
  destruct H; cbn [skipn]; [constructor|auto].
Qed.

Lemma Forall2_In_l {X Y} (R : X -> Y -> Prop) l l' x :
  Forall2 R l l' -> In x l -> exists y, In y l' /\ R x y.
Proof.
  induction 1 as [|a b l l' Hab _ IH]; intros Hin; [contradiction|].
  destruct Hin as [Hin | Hin].
  - subst a. exists b. split; [left; reflexivity|exact Hab].
  - destruct (IH Hin) as (y & Hy & Hr). exists y. split; [right; exact Hy|exact Hr].
Qed.

(* ---- trees ---------------------------------------------------------------------------------- *)
Lemma ltree_ind2 (P : ltree -> Prop) :
  (forall l, P (LLeaf l)) ->
  (forall k p kids, Forall P kids -> P (LNode k p kids)) ->
  forall t, P t.
Proof.
  intros Hl Hn. fix IH 1. intros [l|k p kids]; [apply Hl|].
  apply Hn. induction kids as [|c cs IHc]; constructor; [apply IH|exact IHc].
Qed.

Lemma same_tree_node lx k p ka q kb :
  same_tree lx (LNode k p ka) (Node q kb) <-> p = q /\ Forall2 (same_tree lx) ka kb.
Proof.
  cbn [same_tree]. split; intros (Hp & H); (split; [exact Hp|]).
  - revert kb H. induction ka as [|x xs IH]; intros [|y ys] H; try contradiction; constructor.
    + destruct H as (H & _). exact H.
    + apply IH. destruct H as (_ & H). exact H.
  - induction H as [|x y xs ys Hxy _ IH]; [exact I|]. split; [exact Hxy|exact IH].
Qed.

Lemma same_tree_kind g lx a b : same_tree lx a b -> kind_of g a = root g b.
Proof.
  destruct a as [l|k p ka], b as [tok i|q kb]; cbn [same_tree]; try contradiction.
  - intros (_ & Ht). subst tok. reflexivity.
  - intros (Hp & _). subst q. reflexivity.
Qed.

Lemma same_tree_kinds g lx : forall a b, same_tree lx a b -> valid_tree g b ->
  forall j p kids, In (j, p, kids) (subnodes a) -> map (kind_of g) kids = rhs g p.
Proof.
  induction a as [l|k p ka IH] using ltree_ind2; intros b Hs Hv j p' kids Hin; [contradiction|].
  destruct b as [tok i|q kb]; [contradiction|].
  apply same_tree_node in Hs. destruct Hs as (Hp & Hf). subst q.
  inversion Hv as [|p0 kb0 Hprod Hvk Hroots]; subst p0 kb0.
  cbn [subnodes] in Hin. apply in_app_or in Hin. destruct Hin as [Hin | Hin].
  - apply in_flat_map in Hin. destruct Hin as (c & Hc & Hin).
    destruct (Forall2_In_l _ _ _ _ Hf Hc) as (y & Hy & Hcy).
    rewrite Forall_forall in IH, Hvk. eapply IH; [exact Hc|exact Hcy|apply Hvk; exact Hy|exact Hin].
  - cbn in Hin. destruct Hin as [Hin | []]. injection Hin as _ Hp Hk. subst p' kids.
    rewrite <- Hroots. clear -Hf. induction Hf as [|x y xs ys Hxy _ IHf]; [reflexivity|].
    cbn [map]. f_equal; [eapply same_tree_kind; exact Hxy|exact IHf].
Qed.

(* ---- the lock step --------------------------------------------------------------------------- *)
Section Sim.
Variable SP : Type.
Variable sp_shift : lexeme -> SP.
Variable sp_reduce : list SP -> nat -> outcome (span * list SP).
Variable g : grammar.
Variable A : automaton.
Variable prm : nat.
Variable lexemes : list lexeme.
Hypothesis Hwf : wf_grammar g = true.
Hypothesis HV : validS g A = true.

Notation input := (map lx_tok lexemes).
Hypothesis Hrng : tokens_in_range g input.
Hypothesis Hno : no_eof g input.

Notation pstate := (pstate SP).
Notation lr := (lr SP sp_shift sp_reduce g A prm lexemes).

Definition simrel (s : pstate) (F : list ltree) (stk : stack) : Prop :=
  pstack s = start A :: rev (map fst stk) /\
  Forall2 (same_tree lexemes) F (rev (map snd stk)).

Lemma last_opt_pstack (st0 : N) (stk : stack) :
  last_opt (st0 :: rev (map fst stk)) = Some (match stk with [] => st0 | (s, _) :: _ => s end).
Proof.
  destruct stk as [|[s t] rest]; [reflexivity|].
  cbn [map fst rev]. change (st0 :: rev (map fst rest) ++ [s]) with ((st0 :: rev (map fst rest)) ++ [s]).
  apply last_opt_app.
Qed.

Lemma next_tidx_la laidx : next_tidx g lexemes laidx = la g input laidx.
Proof.
  unfold next_tidx, la. destruct (nth_error lexemes laidx) as [l|] eqn:E.
  - symmetry. apply nth_error_nth. rewrite nth_error_map, E. reflexivity.
  - symmetry. apply nth_overflow. rewrite map_length. apply nth_error_None. exact E.
Qed.

Lemma lr_sim : forall fuel oracle laidx (s : pstate) errs res F stk,
  finv g prm (astack s) (log s) F ->
  simrel s F stk ->
  inv g A input (stk, laidx) ->
  flat_map lleaves F = firstn laidx lexemes ->
  lr fuel false oracle laidx s errs = Done res ->
  (forall v, r_val res = Some v ->
     exists t p kids,
       run_from g A input fuel (stk, laidx) = RAccept t /\
       final_tree (r_log res) v = LNode v p kids /\
       same_tree lexemes (LNode v p kids) t /\
       labels_post (LNode v p kids) = seq 0 (length (r_log res)) /\
       (forall n, In n (subnodes (LNode v p kids)) -> call_ok g prm (r_log res) n) /\
       lleaves (LNode v p kids) = lexemes /\
       r_errs res = errs) /\
  (r_val res = None ->
     exists pos st el, run_from g A input fuel (stk, laidx) = RReject pos st /\
                       r_errs res = errs ++ [(el, st)]).
Proof.
  induction fuel as [|f IH]; intros oracle laidx s errs res F stk HF (Hps & Hf2) Hinv Hlv H;
    cbn [Model.lr] in H; [discriminate|].
  pose proof Hinv as (Hc & Hpos & _). cbn [fst snd] in Hc, Hpos.
  pose proof (chain_top_in_range g A HV stk Hc) as Htop.
  pose proof (la_in_range g input laidx Hwf Hrng) as Hla.
  assert (Hlast : last_opt (pstack s) = Some (top A stk)).
  { rewrite Hps. rewrite last_opt_pstack. destruct stk as [|[s0 t0] r]; reflexivity. }
  rewrite Hlast, next_tidx_la in H.
  cbn [run_from]. unfold step.
  destruct (action A (top A stk) (la g input laidx)) as [st'|p| |] eqn:Hact.
  - (* shift *)
    pose proof (validS_S3_shift g A HV _ _ _ Htop Hla Hact) as Hne.
    assert (Hlt : (laidx < length lexemes)%nat).
    { destruct (Nat.lt_ge_cases laidx (length lexemes)) as [Hx | Hx]; [exact Hx|].
      exfalso. apply Hne. apply la_past_end. rewrite map_length. exact Hx. }
    destruct (nth_error lexemes laidx) as [l|] eqn:El; [|apply nth_error_None in El; lia].
    unfold next_lexeme in H. rewrite El in H. cbn [obind] in H.
    assert (Hal : la g input laidx = lx_tok l).
    { rewrite <- next_tidx_la. unfold next_tidx. rewrite El. reflexivity. }
    eapply (IH oracle (S laidx) (shift_st SP sp_shift s st' l) errs res (F ++ [LLeaf l]) ((st', Leaf (la g input laidx) laidx) :: stk)).
    + cbn [shift_st astack log]. apply finv_shift. exact HF.
    + split.
      * cbn [shift_st pstack map fst rev]. rewrite Hps. reflexivity.
      * cbn [map snd rev]. apply Forall2_app; [exact Hf2|]. constructor; [|constructor].
        cbn [same_tree]. split; [exact El|exact Hal].
    + eapply (step_preserves g A input Hwf HV Hrng (stk, laidx)); [exact Hinv|].
      unfold step. rewrite Hact. reflexivity.
    + rewrite flat_map_snoc. cbn [lleaves]. rewrite Hlv. symmetry. apply firstn_S_nth_error. exact El.
    + exact H.
  - (* reduce *)
    destruct (reduce_lr SP sp_reduce g A prm s p) as [s'| |] eqn:Hr; cbn [obind] in H; try discriminate.
    apply reduce_lr_inv in Hr.
    destruct Hr as (pop_idx & prior & st' & sr & Hp & Hn & Hpi & Hne & Hprior & Hg & _ & Hle & Hs').
    set (n := length (rhs g p)) in *.
    assert (Hlps : length (pstack s) = S (length stk)).
    { rewrite Hps. cbn [length]. rewrite rev_length, map_length. reflexivity. }
    assert (Hnle : (n <= length stk)%nat) by lia.
    assert (Hpi' : pop_idx = S (length stk - n)) by lia.
    assert (Hfirst : firstn pop_idx (pstack s) = start A :: rev (map fst (skipn n stk))).
    { rewrite Hpi', Hps. cbn [firstn]. f_equal.
      rewrite firstn_rev, map_length.
      replace (length stk - (length stk - n))%nat with n by lia.
      rewrite skipn_map. reflexivity. }
    assert (Hpr : prior = top A (skipn n stk)).
    { rewrite Hfirst, last_opt_pstack in Hprior. injection Hprior as Hprior. subst prior.
      destruct (skipn n stk) as [|[s0 t0] r]; reflexivity. }
    destruct (length stk <? n)%nat eqn:Hlt; [apply Nat.ltb_lt in Hlt; lia|].
    rewrite <- Hpr, Hg.
    assert (HlF : length F = length stk).
    { apply Forall2_len in Hf2. rewrite Hf2, rev_length, map_length. reflexivity. }
    assert (Hbase : (pop_idx - 1 = length stk - n)%nat) by lia.
    eapply (IH oracle laidx s' errs res (freduce F (pop_idx - 1) (length (log s)) p)
               ((st', Node p (rev (map snd (firstn n stk)))) :: skipn n stk)).
    + subst s'. cbn [astack log]. apply finv_reduce; assumption.
    + subst s'. split.
      * cbn [pstack map fst rev]. rewrite Hfirst. reflexivity.
      * cbn [map snd rev]. unfold freduce. apply Forall2_app.
        -- rewrite Hbase.
           replace (rev (map snd (skipn n stk))) with (firstn (length stk - n) (rev (map snd stk))).
           ++ apply Forall2_firstn. exact Hf2.
           ++ rewrite firstn_rev, map_length.
              replace (length stk - (length stk - n))%nat with n by lia.
              rewrite skipn_map. reflexivity.
        -- constructor; [|constructor]. apply same_tree_node. split; [reflexivity|].
           rewrite Hbase.
           replace (rev (map snd (firstn n stk))) with (skipn (length stk - n) (rev (map snd stk))).
           ++ apply Forall2_skipn. exact Hf2.
           ++ rewrite skipn_rev, map_length.
              replace (length stk - (length stk - n))%nat with n by lia.
              rewrite firstn_map. reflexivity.
    + eapply (step_preserves g A input Hwf HV Hrng (stk, laidx)); [exact Hinv|].
      unfold step. rewrite Hact. fold n. rewrite Hlt, <- Hpr, Hg. reflexivity.
    + unfold freduce. rewrite flat_map_snoc. cbn [lleaves]. rewrite <- flat_map_app, firstn_skipn. exact Hlv.
    + exact H.
  - (* accept *)
    destruct (accept_stack g A input Hwf HV Hrng stk laidx Hc Hact)
      as (Heof & s0 & p0 & k0 & us & Hstk & _ & _).
    subst stk. cbn [rev app map snd] in *.
    destruct (astack s) as [|[l|v] rest] eqn:Ha; try discriminate.
    injection H as H. subst res. cbn [r_val r_log r_errs].
    split; [|intros Hx; discriminate].
    intros v0 Hv0. injection Hv0 as Hv0. subst v0.
    destruct (finv_bottom g prm _ _ _ v rest HF eq_refl) as (p & kids & F' & HFe & Hft).
    subst F. inversion Hf2 as [|x y xs ys Hxy Hrest]; subst x y xs ys.
    inversion Hrest; subst F'.
    exists (Node p0 k0), p, kids. split; [reflexivity|]. split; [exact Hft|]. split; [exact Hxy|].
    destruct HF as (_ & Hb & Hcall & _).
    cbn [flat_map] in Hb, Hcall. rewrite app_nil_r in Hb, Hcall.
    split; [exact Hb|]. split; [exact Hcall|]. split; [|reflexivity].
    cbn [flat_map] in Hlv. rewrite app_nil_r in Hlv. rewrite Hlv.
    pose proof (la_eof_past_end g input laidx Hno Heof) as Hge. rewrite map_length in Hge.
    apply firstn_all2. exact Hge.
  - (* error *)
    destruct (next_lexeme g lexemes laidx) as [el| |]; cbn [obind negb] in H; try discriminate.
    injection H as H. subst res. cbn [r_val r_log r_errs].
    split; [intros v Hv; discriminate|]. intros _. exists laidx, (top A stk), el. split; reflexivity.
Qed.

End Sim.
