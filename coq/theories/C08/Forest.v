(* C08 proofs, part 1: the ghost forest that shadows astack, and the facts about the calls
   (post-order, arguments, values) that hold for ANY span policy, any table, with or without
   recovery. *)
From Coq Require Import List Arith NArith Bool Lia.
From GV Require Import Common.Outcome Base.Grammar LR.Automaton C08.Model C08.Spec.
Import ListNotations.

(* ---- lists ---------------------------------------------------------------------------- *)
Lemma last_opt_app {X} (l : list X) (x : X) : last_opt (l ++ [x]) = Some x.
Proof.
  unfold last_opt. rewrite app_length. cbn [length].
  replace (length l + 1 - 1)%nat with (length l) by lia.
  rewrite nth_error_app2 by lia. rewrite Nat.sub_diag. reflexivity.
Qed.

Lemma nth_error_snoc_old {X} (l : list X) (x y : X) (k : nat) :
  nth_error l k = Some y -> nth_error (l ++ [x]) k = Some y.
Proof.
  intros H. rewrite nth_error_app1; [exact H|].
  apply nth_error_Some. rewrite H. discriminate.
Qed.

Lemma nth_error_snoc_new {X} (l : list X) (x : X) : nth_error (l ++ [x]) (length l) = Some x.
Proof. rewrite nth_error_app2 by lia. rewrite Nat.sub_diag. reflexivity. Qed.

Lemma flat_map_snoc {X Y} (f : X -> list Y) (l : list X) (x : X) :
  flat_map f (l ++ [x]) = flat_map f l ++ f x.
Proof. rewrite flat_map_app. cbn [flat_map]. rewrite app_nil_r. reflexivity. Qed.

Lemma app_eq_len {X} (a b c d : list X) : length a = length c -> a ++ b = c ++ d -> a = c /\ b = d.
Proof.
  revert c. induction a as [|x a IH]; intros [|y c] Hl H; cbn in Hl; try discriminate.
  - split; [reflexivity|exact H].
  - cbn in H. injection H as Hx H. destruct (IH c) as (E1 & E2); [lia|exact H|].
    subst. split; reflexivity.
Qed.

(* ---- values of a log ------------------------------------------------------------------ *)
Lemma values_of_log_snoc log c :
  values_of_log (log ++ [c]) =
  values_of_log log ++ [LNode (length (values_of_log log)) (c_pidx c)
                              (map (value_of (values_of_log log)) (c_args c))].
Proof. unfold values_of_log. rewrite fold_left_app. reflexivity. Qed.

Lemma values_of_log_length log : length (values_of_log log) = length log.
Proof.
  induction log as [|c log IH] using rev_ind; [reflexivity|].
  rewrite values_of_log_snoc, !app_length, IH. reflexivity.
Qed.

(* ---- the forest invariant ----------------------------------------------------------------- *)
Section Forest.
Variable g : grammar.
Variable prm : nat.

(* [F] : one labelled tree per astack entry.  (a) astack shows each tree's argument form;
   (b) the calls made so far are exactly the inner nodes of F, numbered in post-order;
   (c) each such node's call is well-formed; (d) the tree of a root is the value its call
   would return from tree-building actions *)
Definition finv (ast : list arg) (lg : list call) (F : list ltree) : Prop :=
  ast = map arg_of F /\
  map label_of (flat_map subnodes F) = seq 0 (length lg) /\
  (forall n, In n (flat_map subnodes F) -> call_ok g prm lg n) /\
  (forall k p kids, In (LNode k p kids) F -> nth_error (values_of_log lg) k = Some (LNode k p kids)).

Lemma finv_init : finv [] [] [].
Proof.
  unfold finv. cbn. repeat split; try reflexivity; intros; contradiction.
Qed.

Lemma finv_shift ast lg F l : finv ast lg F -> finv (ast ++ [ALex l]) lg (F ++ [LLeaf l]).
Proof.
  intros (Ha & Hb & Hc & Hd). unfold finv. repeat split.
  - rewrite map_app, Ha. reflexivity.
  - rewrite flat_map_snoc. cbn [subnodes]. rewrite app_nil_r. exact Hb.
  - intros n Hn. rewrite flat_map_snoc in Hn. cbn [subnodes] in Hn. rewrite app_nil_r in Hn.
    apply Hc. exact Hn.
  - intros k p kids Hin. apply in_app_or in Hin. destruct Hin as [Hin | Hin].
    + apply Hd. exact Hin.
    + cbn in Hin. destruct Hin as [Hin | []]. discriminate.
Qed.

Definition freduce (F : list ltree) (base : nat) (len : nat) (p : N) : list ltree :=
  firstn base F ++ [LNode len p (skipn base F)].

Lemma call_ok_snoc lg c n : call_ok g prm lg n -> call_ok g prm (lg ++ [c]) n.
Proof.
  destruct n as [[k p] kids]. intros (c0 & Hn & H). exists c0. split; [|exact H].
  apply nth_error_snoc_old. exact Hn.
Qed.

Lemma value_of_roots lg F :
  (forall k p kids, In (LNode k p kids) F -> nth_error (values_of_log lg) k = Some (LNode k p kids)) ->
  map (value_of (values_of_log lg)) (map arg_of F) = F.
Proof.
  induction F as [|t F IH]; intros H; [reflexivity|].
  cbn [map]. f_equal.
  - destruct t as [l|k p kids]; cbn [arg_of value_of]; [reflexivity|].
    apply nth_error_nth. apply H. left. reflexivity.
  - apply IH. intros k p kids Hin. apply H. right. exact Hin.
Qed.

Lemma finv_reduce ast lg F base p sp :
  finv ast lg F -> (base <= length ast)%nat ->
  finv (firstn base ast ++ [AVal (length lg)])
       (lg ++ [mkCall p (lhs g p) (skipn base ast) sp prm])
       (freduce F base (length lg) p).
Proof.
  intros (Ha & Hb & Hc & Hd) Hle. unfold freduce.
  set (F1 := firstn base F). set (kids := skipn base F).
  assert (HF : F = F1 ++ kids) by (symmetry; apply firstn_skipn).
  assert (Hsub : flat_map subnodes (F1 ++ [LNode (length lg) p kids]) =
                 flat_map subnodes F ++ [(length lg, p, kids)]).
  { rewrite flat_map_snoc. cbn [subnodes]. rewrite app_assoc, <- flat_map_app, <- HF. reflexivity. }
  assert (Hargs : skipn base ast = map arg_of kids).
  { rewrite Ha. unfold kids. apply skipn_map. }
  unfold finv. repeat split.
  - rewrite map_app. cbn [map arg_of]. f_equal. rewrite Ha. unfold F1. apply firstn_map.
  - rewrite Hsub, map_app, Hb, app_length. cbn [map label_of fst length].
    rewrite Nat.add_1_r, seq_S. reflexivity.
  - intros n Hn. rewrite Hsub in Hn. apply in_app_or in Hn. destruct Hn as [Hn | Hn].
    + apply call_ok_snoc. apply Hc. exact Hn.
    + cbn in Hn. destruct Hn as [Hn | []]. subst n. cbn [call_ok].
      eexists. split; [apply nth_error_snoc_new|]. cbn. repeat split. exact Hargs.
  - intros k q ks Hin. rewrite values_of_log_snoc. apply in_app_or in Hin. destruct Hin as [Hin | Hin].
    + apply nth_error_snoc_old. apply Hd. rewrite HF. apply in_or_app. left. exact Hin.
    + cbn in Hin. destruct Hin as [Hin | []]. injection Hin as Hk Hq Hks. subst k q ks.
      rewrite <- (values_of_log_length lg). rewrite nth_error_snoc_new. cbn [c_pidx c_args].
      rewrite values_of_log_length. f_equal. f_equal.
      rewrite Hargs. apply value_of_roots.
      intros k p0 kids0 Hin. apply Hd. rewrite HF. apply in_or_app. right. exact Hin.
Qed.

(* what the invariant gives at the end: the bottom tree is the value tree of the bottom call *)
Lemma finv_bottom ast lg F v rest : finv ast lg F -> ast = AVal v :: rest ->
  exists p kids F', F = LNode v p kids :: F' /\ final_tree lg v = LNode v p kids.
Proof.
  intros (Ha & _ & _ & Hd) Hast. rewrite Hast in Ha.
  destruct F as [|t F']; [discriminate|]. cbn [map] in Ha. injection Ha as Ht _.
  destruct t as [l|k p kids]; cbn [arg_of] in Ht; [discriminate|]. injection Ht as Ht. subst k.
  exists p, kids, F'. split; [reflexivity|].
  unfold final_tree. apply nth_error_nth. apply Hd. left. reflexivity.
Qed.

(* the labels of the first tree of a forest numbered 0.. are 0.. *)
Lemma labels_prefix F t n :
  map label_of (flat_map subnodes (t :: F)) = seq 0 n ->
  labels_post t = seq 0 (length (labels_post t)).
Proof.
  cbn [flat_map]. rewrite map_app. fold (labels_post t). intros H.
  assert (Hl : (length (labels_post t) <= n)%nat).
  { apply (f_equal (@length nat)) in H. rewrite app_length, seq_length in H. lia. }
  replace n with (length (labels_post t) + (n - length (labels_post t)))%nat in H by lia.
  rewrite seq_app in H. apply app_eq_len in H.
  - destruct H as (H & _). exact H.
  - rewrite seq_length. reflexivity.
Qed.

End Forest.
