(* C08 — the recoverer as a FUNCTION of the input, and the generic parse-tree mode with
   recovery.

   Model.v runs Parser::lr against an ORACLE: the list of repair sequences the recoverer applied,
   one per error.  That is the right shape for replaying what an implementation reports, but it
   hides the question the property asks when it says "with and without error recovery": are the
   action-mode tree and the generic tree of the SAME input the same?  Both modes run the same
   Parser::lr (RTParserBuilder::parse_map is parse_actions with the action family
   [action_map]), each calling `recoverer.recover(finish_by, self, laidx, pstack, astack, spans)`,
   which searches over (grammar, table, costs, lexemes, laidx, pstack) only and then replays
   `repairs()[0]` onto the three stacks.

   Here the recoverer is a function  lexemes -> laidx -> pstack -> applied sequence  and
     [parse_f]   is Parser::lr in action mode (recording actions, as in Model.v), and
     [gparse_f]  is Parser::lr in generic mode: the value stack holds the trees built by
                 action_map with  fterm = Term,  fnonterm = Nonterm  (lrpar::Node).
   The reduce / lr_upto / apply_repairs code of Model.v is reused for action mode; generic mode
   has its own copies over its own value stack (same control flow, same span stack: Parser::lr
   maintains `spans` in every mode and hands the span to action_map, which ignores it).
   Definitions only. *)
From Coq Require Import List Arith NArith Bool Lia.
From GV Require Import Common.Outcome Base.Grammar LR.Automaton C08.Model.
Import ListNotations.

Definition omap {X Y} (f : X -> Y) (x : outcome X) : outcome Y := do a <- x; Done (f a).

(* what `recover` computes from: the lexemes, the index of the offending lexeme, the parse stack
   (grammar, table and token costs are fixed per parser).  [None] = no repair found. *)
Definition recoverer := list lexeme -> nat -> list N -> option (list repair).

(* a reported error: offending lexeme, state, the repair sequence applied (repairs()[0]) *)
Definition err_f := (lexeme * N * option (list repair))%type.

(* ---- action mode driven by a recoverer function ------------------------------------------ *)
Record fres := mkFRes { f_val : option nat; f_log : list call; f_errs : list err_f }.

Section ActionMode.
Variable SP : Type.
Variable sp_shift : lexeme -> SP.
Variable sp_reduce : list SP -> nat -> outcome (span * list SP).
Variable g : grammar.
Variable A : automaton.
Variable prm : nat.
Variable lexemes : list lexeme.
Variable rcv : recoverer.

(* Parser::lr (the copy of Model.lr with the oracle replaced by the function) *)
Fixpoint lr_f (fuel : nat) (rec : bool) (laidx : nat) (s : pstate SP) (errs : list err_f) : outcome fres :=
  match fuel with
  | O => OutOfFuel
  | S f =>
      match last_opt (pstack s) with
      | None => Panic
      | Some stidx =>
          match action A stidx (next_tidx g lexemes laidx) with
          | Reduce p => do s' <- reduce_lr SP sp_reduce g A prm s p; lr_f f rec laidx s' errs
          | Shift st' =>
              do l <- next_lexeme g lexemes laidx;
              lr_f f rec (S laidx) (shift_st SP sp_shift s st' l) errs
          | Accept =>
              match astack s with
              | AVal v :: _ => Done (mkFRes (Some v) (log s) errs)
              | _ => Panic
              end
          | Err =>
              do el <- next_lexeme g lexemes laidx;
              if negb rec then Done (mkFRes None (log s) (errs ++ [(el, stidx, None)])) else
              match rcv lexemes laidx (pstack s) with
              | Some rs =>
                  do r <- apply_repairs SP sp_shift sp_reduce g A prm lexemes f rs laidx s;
                  lr_f f rec (fst r) (snd r) (errs ++ [(el, stidx, Some rs)])
              | None => Done (mkFRes None (log s) (errs ++ [(el, stidx, None)]))
              end
          end
      end
  end.

Definition parse_f (fuel : nat) (rec : bool) : outcome fres :=
  lr_f fuel rec 0 (init_st SP A) [].

End ActionMode.

(* ---- generic mode --------------------------------------------------------------------------- *)
(* lrpar::Node<LexemeT, StorageT> *)
Inductive gtree := GTerm (l : lexeme) | GNonterm (ridx : N) (kids : list gtree).

(* AStackType<LexemeT, Node> *)
Inductive garg := GLex (l : lexeme) | GVal (t : gtree).

(* action_map's loop body:  ActionType(n) => n,  Lexeme(l) => fterm(l) *)
Definition gnode (a : garg) : gtree := match a with GLex l => GTerm l | GVal t => t end.

Record gres := mkGRes { g_val : option gtree; g_errs : list err_f }.

Section GenericMode.
Variable SP : Type.
Variable sp_shift : lexeme -> SP.
Variable sp_reduce : list SP -> nat -> outcome (span * list SP).
Variable g : grammar.
Variable A : automaton.
Variable lexemes : list lexeme.
Variable rcv : recoverer.

Record gstate := mkGSt { gpstack : list N; gastack : list garg; gspans : list SP }.

Definition gshift_st (s : gstate) (st' : N) (l : lexeme) : gstate :=
  mkGSt (gpstack s ++ [st']) (gastack s ++ [GLex l]) (gspans s ++ [sp_shift l]).

(* the Reduce arm of Parser::lr with actions[pidx] = action_map *)
Definition greduce_lr (s : gstate) (p : N) : outcome gstate :=
  if negb (is_prodb g p) then Panic else
  let n := length (rhs g p) in
  if (length (gpstack s) <? n)%nat then Panic else
  let pop_idx := length (gpstack s) - n in
  let ps1 := firstn pop_idx (gpstack s) in
  match last_opt ps1 with
  | None => Panic
  | Some prior =>
      match goto A prior (lhs g p) with
      | None => Panic
      | Some s' =>
          do sr <- sp_reduce (gspans s) pop_idx;
          if (pop_idx =? 0)%nat then Panic else
          if (length (gastack s) <? pop_idx - 1)%nat then Panic else
          let args := skipn (pop_idx - 1) (gastack s) in
          Done (mkGSt (ps1 ++ [s'])
                      (firstn (pop_idx - 1) (gastack s) ++ [GVal (GNonterm (lhs g p) (map gnode args))])
                      (snd sr))
      end
  end.

(* the Reduce arm of Parser::lr_upto (spans / action part before the parse-stack part) *)
Definition greduce_upto (s : gstate) (p : N) : outcome gstate :=
  if negb (is_prodb g p) then Panic else
  let n := length (rhs g p) in
  if (length (gpstack s) <? n)%nat then Panic else
  let pop_idx := length (gpstack s) - n in
  do sr <- sp_reduce (gspans s) pop_idx;
  if (pop_idx =? 0)%nat then Panic else
  if (length (gastack s) <? pop_idx - 1)%nat then Panic else
  let args := skipn (pop_idx - 1) (gastack s) in
  let ps1 := firstn pop_idx (gpstack s) in
  match last_opt ps1 with
  | None => Panic
  | Some prior =>
      match goto A prior (lhs g p) with
      | None => Panic
      | Some s' =>
          Done (mkGSt (ps1 ++ [s'])
                      (firstn (pop_idx - 1) (gastack s) ++ [GVal (GNonterm (lhs g p) (map gnode args))])
                      (snd sr))
      end
  end.

Fixpoint glr_upto_loop (fuel : nat) (prefix : option lexeme) (laidx end_laidx : nat) (s : gstate)
  : outcome (nat * gstate) :=
  match fuel with
  | O => OutOfFuel
  | S f =>
      if (laidx =? end_laidx)%nat || (length lexemes <? laidx)%nat then Done (laidx, s) else
      match last_opt (gpstack s) with
      | None => Panic
      | Some stidx =>
          let la_tidx := match prefix with Some l => lx_tok l | None => next_tidx g lexemes laidx end in
          match action A stidx la_tidx with
          | Reduce p => do s' <- greduce_upto s p; glr_upto_loop f prefix laidx end_laidx s'
          | Shift st' =>
              do l <- match prefix with Some l => Done l | None => next_lexeme g lexemes laidx end;
              glr_upto_loop f prefix (S laidx) end_laidx (gshift_st s st' l)
          | Accept => Done (laidx, s)
          | Err => Done (laidx, s)
          end
      end
  end.

Definition glr_upto (fuel : nat) (prefix : option lexeme) (laidx end_laidx : nat) (s : gstate)
  : outcome (nat * gstate) :=
  match prefix with
  | Some _ => if (end_laidx =? laidx + 1)%nat then glr_upto_loop fuel prefix laidx end_laidx s else Panic
  | None => glr_upto_loop fuel prefix laidx end_laidx s
  end.

(* cpctplus::apply_repairs *)
Fixpoint gapply_repairs (fuel : nat) (rs : list repair) (laidx : nat) (s : gstate) : outcome (nat * gstate) :=
  match rs with
  | [] => Done (laidx, s)
  | RInsert t :: rs' =>
      do nl <- next_lexeme g lexemes laidx;
      let new := mkLex t (lx_start nl) (lx_start nl) true in
      do r <- glr_upto fuel (Some new) laidx (laidx + 1) s;
      gapply_repairs fuel rs' laidx (snd r)
  | RDelete :: rs' => gapply_repairs fuel rs' (laidx + 1) s
  | RShift :: rs' =>
      do r <- glr_upto fuel None laidx (laidx + 1) s;
      gapply_repairs fuel rs' (fst r) (snd r)
  end.

Fixpoint glr_f (fuel : nat) (rec : bool) (laidx : nat) (s : gstate) (errs : list err_f) : outcome gres :=
  match fuel with
  | O => OutOfFuel
  | S f =>
      match last_opt (gpstack s) with
      | None => Panic
      | Some stidx =>
          match action A stidx (next_tidx g lexemes laidx) with
          | Reduce p => do s' <- greduce_lr s p; glr_f f rec laidx s' errs
          | Shift st' =>
              do l <- next_lexeme g lexemes laidx;
              glr_f f rec (S laidx) (gshift_st s st' l) errs
          | Accept =>
              match gastack s with
              | GVal t :: _ => Done (mkGRes (Some t) errs)
              | _ => Panic
              end
          | Err =>
              do el <- next_lexeme g lexemes laidx;
              if negb rec then Done (mkGRes None (errs ++ [(el, stidx, None)])) else
              match rcv lexemes laidx (gpstack s) with
              | Some rs =>
                  do r <- gapply_repairs f rs laidx s;
                  glr_f f rec (fst r) (snd r) (errs ++ [(el, stidx, Some rs)])
              | None => Done (mkGRes None (errs ++ [(el, stidx, None)]))
              end
          end
      end
  end.

Definition ginit_st : gstate := mkGSt [start A] [] [].

Definition gparse_f (fuel : nat) (rec : bool) : outcome gres :=
  glr_f fuel rec 0 ginit_st [].

End GenericMode.

Arguments gpstack {SP} _.
Arguments gastack {SP} _.
Arguments gspans {SP} _.
Arguments mkGSt {SP} _ _ _.

(* ---- the instances --------------------------------------------------------------------------- *)
(* RTParserBuilder::parse_actions / parse_map with the span stack of the pinned code … *)
Definition run_actions_f := parse_f span sp_shift_cur sp_reduce_cur.
Definition run_generic_f := gparse_f span sp_shift_cur sp_reduce_cur.
(* … and with the repaired span stack (what /repo has since ac69cc7) *)
Definition run_actions_fixed_f := parse_f (span * bool)%type sp_shift_fix sp_reduce_fix.
Definition run_generic_fixed_f := gparse_f (span * bool)%type sp_shift_fix sp_reduce_fix.

(* a recoverer given as a finite table (laidx, parse stack) -> sequence: what the correspondence
   run builds from the repairs an implementation reports, and what the witnesses use *)
Fixpoint stack_eqb (a b : list N) : bool :=
  match a, b with
  | [], [] => true
  | x :: a', y :: b' => N.eqb x y && stack_eqb a' b'
  | _, _ => false
  end.

Fixpoint table_lookup (tbl : list (nat * list N * list repair)) (laidx : nat) (ps : list N) : option (list repair) :=
  match tbl with
  | [] => None
  | (i, qs, rs) :: tbl' => if (i =? laidx)%nat && stack_eqb qs ps then Some rs else table_lookup tbl' laidx ps
  end.

Definition table_recoverer (tbl : list (nat * list N * list repair)) : recoverer :=
  fun _ laidx ps => table_lookup tbl laidx ps.
