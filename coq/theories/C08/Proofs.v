(* C08 proofs, part 5: the statements of Spec.v. *)
From Coq Require Import List Arith NArith Bool Lia.
From GV Require Import Common.Outcome Base.Grammar Base.Analyses LR.Automaton LR.Validator LR.Spec LR.Sound.
From GV Require Import C08.Model C08.Spec C08.Forest C08.Loops C08.Spans C08.Sim C08.Lockstep.
Import ListNotations.

(* ---- without recovery, validated table: any span policy ------------------------------------ *)
Section AnyPolicy.
Variable SP : Type.
Variable sp_shift : lexeme -> SP.
Variable sp_reduce : list SP -> nat -> outcome (span * list SP).

Definition run_any (g : grammar) (A : automaton) (prm : nat) (lexemes : list lexeme) (fuel : nat) :=
  parse SP sp_shift sp_reduce g A prm lexemes fuel false [].

Lemma run_any_sim g A prm lexemes fuel res :
  wf_grammar g = true -> validS g A = true ->
  tokens_in_range g (map lx_tok lexemes) -> no_eof g (map lx_tok lexemes) ->
  run_any g A prm lexemes fuel = Done res ->
  (forall v, r_val res = Some v ->
     exists t p kids,
       run g A fuel (map lx_tok lexemes) = RAccept t /\
       final_tree (r_log res) v = LNode v p kids /\
       same_tree lexemes (LNode v p kids) t /\
       labels_post (LNode v p kids) = seq 0 (length (r_log res)) /\
       (forall n, In n (subnodes (LNode v p kids)) -> call_ok g prm (r_log res) n) /\
       lleaves (LNode v p kids) = lexemes /\
       r_errs res = []) /\
  (r_val res = None ->
     exists pos st el, run g A fuel (map lx_tok lexemes) = RReject pos st /\
                       r_errs res = [(el, st)]).
Proof.
  intros Hwf HV Hrng Hno H. unfold run_any, parse in H.
  apply (lr_sim SP sp_shift sp_reduce g A prm lexemes Hwf HV Hrng Hno fuel [] 0%nat
           (init_st SP A) [] res [] []); try exact H.
  - apply finv_init.
  - split; [reflexivity|constructor].
  - apply inv_init.
  - reflexivity.
Qed.

Lemma any_action_log_is_postorder : action_log_is_postorder_for run_any.
Proof.
  intros g A Hwf HV prm lexemes fuel k log errs Hrng Hno H t.
  destruct (run_any_sim g A prm lexemes fuel _ Hwf HV Hrng Hno H) as (Hacc & _).
  destruct (Hacc k eq_refl) as (gt & p & kids & Hrun & Hft & Hsame & Hlab & Hcall & Hlv & Herr).
  cbn [r_log r_errs] in *. subst t. rewrite Hft.
  split; [exists p, kids; reflexivity|]. split; [exact Hlab|]. split; [exact Hcall|].
  split; [|split; assumption].
  destruct (lr_sound g A Hwf HV _ fuel gt Hrng Hno Hrun) as (us & _ & _ & Hvalid & _).
  intros j q ks Hin. eapply same_tree_kinds; eassumption.
Qed.

Lemma any_actions_tree_equals_generic : actions_tree_equals_generic_for run_any.
Proof.
  intros g A Hwf HV prm lexemes fuel k log errs Hrng Hno H.
  destruct (run_any_sim g A prm lexemes fuel _ Hwf HV Hrng Hno H) as (Hacc & _).
  destruct (Hacc k eq_refl) as (gt & p & kids & Hrun & Hft & Hsame & _).
  cbn [r_log] in *. exists gt. split; [exact Hrun|]. rewrite Hft. exact Hsame.
Qed.

Lemma any_actions_reject_equals_generic : actions_reject_equals_generic_for run_any.
Proof.
  intros g A Hwf HV prm lexemes fuel log errs Hrng Hno H.
  destruct (run_any_sim g A prm lexemes fuel _ Hwf HV Hrng Hno H) as (_ & Hrej).
  destruct (Hrej eq_refl) as (pos & st & el & Hrun & Herr). cbn [r_errs] in Herr.
  exists pos, st, el. split; assumption.
Qed.

(* with recovery, any table: the forest invariant alone *)
Lemma any_replay_calls_wellformed :
  (forall l n, sp_reduce l n <> OutOfFuel) ->
  replay_calls_wellformed_for (parse SP sp_shift sp_reduce).
Proof.
  intros Hnf g A prm lexemes fuel rec oracle k log errs H t. unfold parse in H.
  destruct (lr_J SP sp_shift sp_reduce g A prm lexemes Hnf (Jany g prm)
              (fun s st' l => Jany_shift g prm sp_shift s st' l)
              (fun s p s' => Jany_reduce g A prm sp_reduce s s' p)
              fuel rec oracle 0%nat (init_st SP A) [] _ (Jany_init g A prm) H)
    as (s' & (F & HF) & Hlog & Hval).
  cbn [r_log r_val] in Hlog, Hval. subst log.
  destruct (Hval k eq_refl) as (rest & Hast).
  destruct (finv_bottom g prm _ _ _ k rest HF Hast) as (p & kids & F' & HFe & Hft).
  subst t. rewrite Hft. destruct HF as (_ & Hb & Hcall & _). subst F.
  split; [exists p, kids; reflexivity|]. split.
  - eapply labels_prefix. exact Hb.
  - intros n Hn. apply Hcall. cbn [flat_map]. apply in_or_app. left. exact Hn.
Qed.

End AnyPolicy.

(* ---- today's code ------------------------------------------------------------------------------ *)
Lemma action_log_is_postorder : action_log_is_postorder_stmt.
Proof. exact (any_action_log_is_postorder span sp_shift_cur sp_reduce_cur). Qed.

Lemma actions_tree_equals_generic : actions_tree_equals_generic_stmt.
Proof. exact (any_actions_tree_equals_generic span sp_shift_cur sp_reduce_cur). Qed.

Lemma actions_reject_equals_generic : actions_reject_equals_generic_stmt.
Proof. exact (any_actions_reject_equals_generic span sp_shift_cur sp_reduce_cur). Qed.

Lemma replay_calls_wellformed : replay_calls_wellformed_stmt.
Proof. exact (any_replay_calls_wellformed span sp_shift_cur sp_reduce_cur sp_reduce_cur_nofuel). Qed.

Lemma replay_mirror_same_step : replay_mirror_same_step_stmt.
Proof.
  split; intros g A prm s p.
  - apply reduce_upto_eq. exact sp_reduce_cur_nofuel.
  - apply reduce_upto_eq. exact sp_reduce_fix_nofuel.
Qed.

(* ---- the repaired code -------------------------------------------------------------------------- *)
Lemma fixed_action_log_is_postorder : fixed_action_log_is_postorder_stmt.
Proof. exact (any_action_log_is_postorder _ sp_shift_fix sp_reduce_fix). Qed.

Lemma fixed_actions_tree_equals_generic : fixed_actions_tree_equals_generic_stmt.
Proof. exact (any_actions_tree_equals_generic _ sp_shift_fix sp_reduce_fix). Qed.

Lemma fixed_replay_calls_wellformed : fixed_replay_calls_wellformed_stmt.
Proof. exact (any_replay_calls_wellformed _ sp_shift_fix sp_reduce_fix sp_reduce_fix_nofuel). Qed.

Lemma replay_span_is_yield_hull : replay_span_is_yield_hull_stmt.
Proof.
  intros g A prm lexemes fuel rec oracle k log errs H j sp Hin.
  unfold run_actions_fixed_rec, parse in H.
  destruct (lr_J _ sp_shift_fix sp_reduce_fix g A prm lexemes sp_reduce_fix_nofuel (Jfix g prm)
              (Jfix_shift g prm) (fun s p s' => Jfix_reduce g A prm s s' p)
              fuel rec oracle 0%nat (init_st _ A) [] _ (Jfix_init g A prm) H)
    as (s' & (F & HF & _ & He) & Hlog & Hval).
  cbn [r_log r_val] in Hlog, Hval. subst log.
  destruct (Hval k eq_refl) as (rest & Hast).
  destruct (finv_bottom g prm _ _ _ k rest HF Hast) as (p & kids & F' & HFe & Hft).
  rewrite Hft in Hin. subst F. apply He. cbn [expected_spans_list]. apply in_or_app. left. exact Hin.
Qed.

Lemma span_is_yield_hull : span_is_yield_hull_stmt.
Proof.
  intros g A _ _ prm lexemes fuel k log errs _ _ H.
  exact (replay_span_is_yield_hull g A prm lexemes fuel false [] k log errs H).
Qed.

(* the strong form (positions given) implies the property's weak wording *)
Lemma hull_or_weak ls pe :
  match ls with
  | [] => fst (hull_or ls pe) = snd (hull_or ls pe)
  | l :: ls' => hull_or ls pe = (lx_start l, lx_end (last (l :: ls') l))
  end.
Proof. destruct ls; reflexivity. Qed.

Lemma expected_list_covers (ks : list ltree) :
  Forall (fun t => forall pe n, In n (subnodes t) ->
            exists pe', In (label_of n, hull_or (flat_map lleaves (snd n)) pe') (expected_spans t pe)) ks ->
  forall pe n c, In c ks -> In n (subnodes c) ->
    exists pe', In (label_of n, hull_or (flat_map lleaves (snd n)) pe') (expected_spans_list ks pe).
Proof.
  induction 1 as [|c0 cs Hx _ IH]; intros pe n c Hc Hin; [contradiction|].
  cbn [expected_spans_list]. destruct Hc as [Hc | Hc].
  - subst c0. destruct (Hx pe n Hin) as (pe' & Hpe'). exists pe'. apply in_or_app. left. exact Hpe'.
  - destruct (IH (end_after (lleaves c0) pe) n c Hc Hin) as (pe' & Hpe'). exists pe'.
    apply in_or_app. right. exact Hpe'.
Qed.

Lemma expected_covers_subnodes : forall t pe n, In n (subnodes t) ->
  exists pe', In (label_of n, hull_or (flat_map lleaves (snd n)) pe') (expected_spans t pe).
Proof.
  induction t as [l|k p kids IH] using ltree_ind2; intros pe n Hin; [contradiction|].
  cbn [subnodes] in Hin. rewrite expected_spans_node. apply in_app_or in Hin. destruct Hin as [Hin | Hin].
  - apply in_flat_map in Hin. destruct Hin as (c & Hc & Hin).
    destruct (expected_list_covers kids IH pe n c Hc Hin) as (pe' & Hpe').
    exists pe'. apply in_or_app. left. exact Hpe'.
  - cbn in Hin. destruct Hin as [Hin | []]. subst n. exists pe.
    apply in_or_app. right. left. reflexivity.
Qed.

Lemma span_is_yield_hull_weak : span_is_yield_hull_weak_stmt.
Proof.
  intros g A Hwf HV prm lexemes fuel k log errs Hrng Hno H n Hn.
  destruct (expected_covers_subnodes _ 0%nat n Hn) as (pe' & Hin).
  destruct (span_is_yield_hull g A Hwf HV prm lexemes fuel k log errs Hrng Hno H _ _ Hin) as (c & Hc & Hsp).
  destruct n as [[j p] kids]. cbn [label_of fst snd] in *. exists c. split; [exact Hc|].
  rewrite Hsp. apply hull_or_weak.
Qed.

Lemma fixed_changes_only_spans : fixed_changes_only_spans_stmt.
Proof.
  intros g A prm lexemes fuel rec oracle r r' H1 H2.
  unfold run_actions_rec, run_actions_fixed_rec, parse in H1, H2.
  eapply (rel_lr _ _ sp_shift_cur sp_shift_fix sp_reduce_cur sp_reduce_fix
            sp_reduce_cur_nofuel sp_reduce_fix_nofuel g A prm lexemes); [|exact H1|exact H2].
  unfold rel. cbn. auto.
Qed.

(* ---- the refutation for today's code ------------------------------------------------------------ *)
(* generated from the harness dump of:  %start S %% S: 'a' E 'b'; E: ;   (tokens a=0 b=1 eof=2;
   rules ^=0 S=1 E=2; productions 0 = S: a E b, 1 = E: , 2 = ^: S) *)
Definition wit_g : grammar := mkGrammar 3%N 3%N
  [(1%N, [T 0%N; R 2%N; T 1%N]); (2%N, []); (0%N, [R 1%N])]
  2%N 2%N.
Definition wit_dump : dump := mkDump 5%N 0%N
  [(0%N, [(0%N, 0%nat, [2%N]); (2%N, 0%nat, [2%N])]); (1%N, [(0%N, 1%nat, [2%N]); (1%N, 0%nat, [1%N])]); (2%N, [(2%N, 1%nat, [2%N])]); (3%N, [(0%N, 2%nat, [2%N])]); (4%N, [(0%N, 3%nat, [2%N])])]
  [(0%N, [(2%N, 0%nat, [2%N])]); (1%N, [(0%N, 1%nat, [2%N])]); (2%N, [(2%N, 1%nat, [2%N])]); (3%N, [(0%N, 2%nat, [2%N])]); (4%N, [(0%N, 3%nat, [2%N])])]
  [(0%N, [(T 0%N, 1%N); (R 1%N, 2%N)]); (1%N, [(R 2%N, 3%N)]); (2%N, []); (3%N, [(T 1%N, 4%N)]); (4%N, [])]
  [(0%N, [(0%N, Shift 1%N)]); (1%N, [(1%N, Reduce 1%N)]); (2%N, [(2%N, Accept)]); (3%N, [(1%N, Shift 4%N)]); (4%N, [(2%N, Reduce 0%N)])]
  [(0%N, [(1%N, 2%N)]); (1%N, [(2%N, 3%N)]); (2%N, []); (3%N, []); (4%N, [])].
Definition wit_A : automaton := of_dump wit_dump.
(* the text "a   b": a at bytes 0-1, b at bytes 4-5 *)
Definition wit_lexemes : list lexeme := [mkLex 0%N 0 1 false; mkLex 1%N 4 5 false].
Definition wit_log : list call :=
  [mkCall 1%N 2%N [] (0, 1)%nat 7;
   mkCall 0%N 1%N [ALex (mkLex 0%N 0 1 false); AVal 0; ALex (mkLex 1%N 4 5 false)] (0, 5)%nat 7].

Lemma wit_hyps : wf_grammar wit_g = true /\ validS wit_g wit_A = true /\
  tokens_in_range wit_g (map lx_tok wit_lexemes) /\ no_eof wit_g (map lx_tok wit_lexemes).
Proof.
  split; [vm_compute; reflexivity|]. split; [vm_compute; reflexivity|]. split.
  - repeat constructor.
  - intros [H | [H | []]]; discriminate.
Qed.

(* E derives no lexeme, yet its action is handed the span (0,1) of the 'a' before it *)
Lemma span_is_yield_hull_refuted : span_is_yield_hull_refuted_stmt.
Proof.
  exists wit_g, wit_A, 7%nat, wit_lexemes, 50%nat, 1%nat, wit_log, [].
  destruct wit_hyps as (H1 & H2 & H3 & H4).
  split; [exact H1|]. split; [exact H2|]. split; [exact H3|]. split; [exact H4|].
  split; [vm_compute; reflexivity|].
  exists (0%nat, 1%N, []). split.
  - vm_compute. left. reflexivity.
  - intros (c & Hc & Hz). vm_compute in Hc. injection Hc as Hc. subst c.
    cbn in Hz. discriminate.
Qed.

(* the hypotheses of the positive theorems are satisfiable: the same parse through the repaired
   code; E now gets the zero-length span at the end of 'a' *)
Example fixed_witness :
  run_actions_fixed wit_g wit_A 7 wit_lexemes 50 =
  Done (mkRes (Some 1%nat)
     [mkCall 1%N 2%N [] (1, 1)%nat 7;
      mkCall 0%N 1%N [ALex (mkLex 0%N 0 1 false); AVal 0; ALex (mkLex 1%N 4 5 false)] (0, 5)%nat 7] []).
Proof. vm_compute. reflexivity. Qed.

(* … and a replay with recovery: input "b" alone (at bytes 4-5), the recoverer inserts 'a' *)
Example fixed_witness_recovery :
  run_actions_fixed_rec wit_g wit_A 7 [mkLex 1%N 4 5 false] 50 true [Some [RInsert 0%N]] =
  Done (mkRes (Some 1%nat)
     [mkCall 1%N 2%N [] (4, 4)%nat 7;
      mkCall 0%N 1%N [ALex (mkLex 0%N 4 4 true); AVal 0; ALex (mkLex 1%N 4 5 false)] (4, 5)%nat 7]
     [(mkLex 1%N 4 5 false, 0%N)]).
Proof. vm_compute. reflexivity. Qed.
