(* C08 — declarative side: parse trees labelled with call numbers, what "the
   log is the post-order traversal of the final tree" means, the span a call
   must be given (hull of the lexemes under the node), equality with the generic
   parse tree, and the statements proved in Proofs.v. *)
From Coq Require Import List Arith NArith Bool Lia.
From GV Require Import Common.Outcome Base.Grammar LR.Automaton LR.Validator LR.Spec C08.Model.
Import ListNotations.

(* a parse tree whose inner nodes carry the number of the action call that built them *)
Inductive ltree := LLeaf (l : lexeme) | LNode (k : nat) (p : N) (kids : list ltree).

Definition dummy_lex : lexeme := mkLex 0 0 0 false.

(* what a node hands to its parent's action: the lexeme itself for a token, the value
   returned by its own action call for a rule *)
Definition arg_of (t : ltree) : arg :=
  match t with LLeaf l => ALex l | LNode k _ _ => AVal k end.

Definition kind_of (g : grammar) (t : ltree) : sym :=
  match t with LLeaf l => T (lx_tok l) | LNode _ p _ => R (lhs g p) end.

(* the lexemes under a node, left to right *)
Fixpoint lleaves (t : ltree) : list lexeme :=
  match t with LLeaf l => [l] | LNode _ _ kids => flat_map lleaves kids end.

(* the inner nodes (label, production, children) in post-order = left-to-right bottom-up *)
Fixpoint subnodes (t : ltree) : list (nat * N * list ltree) :=
  match t with
  | LLeaf _ => []
  | LNode k p kids => flat_map subnodes kids ++ [(k, p, kids)]
  end.
Definition label_of (n : nat * N * list ltree) : nat := fst (fst n).
Definition labels_post (t : ltree) : list nat := map label_of (subnodes t).

(* ---- "building a tree with actions" --------------------------------------------------- *)
(* the k-th call's action returns the node labelled k over the values of its arguments *)
Definition value_of (vals : list ltree) (a : arg) : ltree :=
  match a with ALex l => LLeaf l | AVal j => nth j vals (LLeaf dummy_lex) end.

Definition values_of_log (log : list call) : list ltree :=
  fold_left (fun vals c => vals ++ [LNode (length vals) (c_pidx c) (map (value_of vals) (c_args c))]) log [].

(* the tree the parse returns when its value is the one returned by call k *)
Definition final_tree (log : list call) (k : nat) : ltree := nth k (values_of_log log) (LLeaf dummy_lex).

(* the call made for a node: its production, that production's rule, one argument per child
   in order, the parse parameter *)
Definition call_ok (g : grammar) (prm : nat) (log : list call) (n : nat * N * list ltree) : Prop :=
  let '(k, p, kids) := n in
  exists c, nth_error log k = Some c /\ c_pidx c = p /\ c_ridx c = lhs g p /\
            c_args c = map arg_of kids /\ c_param c = prm.

(* ---- the generic parse tree (LR.Automaton.run builds it; Leaf a i = i-th lexeme) ------ *)
Fixpoint same_tree (lexemes : list lexeme) (a : ltree) (b : tree) : Prop :=
  match a, b with
  | LLeaf l, Leaf tok i => nth_error lexemes i = Some l /\ tok = lx_tok l
  | LNode _ p ka, Node q kb =>
      p = q /\
      (fix go (xs : list ltree) (ys : list tree) : Prop :=
         match xs, ys with
         | [], [] => True
         | x :: xs', y :: ys' => same_tree lexemes x y /\ go xs' ys'
         | _, _ => False
         end) ka kb
  | _, _ => False
  end.

(* ---- spans ---------------------------------------------------------------------------------- *)
(* hull of a non-empty lexeme list; for an empty one the zero-length span at [pe], the end of
   the last lexeme parsed before (0 at the beginning of the input) *)
Definition hull_or (ls : list lexeme) (pe : nat) : span :=
  match ls with [] => (pe, pe) | l :: _ => (lx_start l, lx_end (last ls l)) end.
Definition end_after (ls : list lexeme) (pe : nat) : nat :=
  match ls with [] => pe | l :: _ => lx_end (last ls l) end.

(* (label, span the call must receive) for every inner node of t; [pe] = end of the last lexeme
   to the left of t *)
Fixpoint expected_spans (t : ltree) (pe : nat) : list (nat * span) :=
  match t with
  | LLeaf _ => []
  | LNode k _ kids =>
      (fix go (ks : list ltree) (pe : nat) : list (nat * span) :=
         match ks with
         | [] => []
         | c :: cs => expected_spans c pe ++ go cs (end_after (lleaves c) pe)
         end) kids pe
      ++ [(k, hull_or (flat_map lleaves kids) pe)]
  end.

(* the property's own words, no position demanded of an empty node: first lexeme's start to
   last lexeme's end; zero-length when there is no lexeme *)
Definition hull_weak_ok (log : list call) (n : nat * N * list ltree) : Prop :=
  let '(k, _, kids) := n in
  exists c, nth_error log k = Some c /\
    match flat_map lleaves kids with
    | [] => fst (c_span c) = snd (c_span c)
    | l :: ls => c_span c = (lx_start l, lx_end (last (l :: ls) l))
    end.

(* ---- statements ------------------------------------------------------------------------------ *)
Definition runner := grammar -> automaton -> nat -> list lexeme -> nat -> outcome pres.
Definition runner_rec := grammar -> automaton -> nat -> list lexeme -> nat -> bool ->
                         list (option (list repair)) -> outcome pres.

(* Without recovery, on a validated table: an accepting parse made exactly the calls of the
   post-order traversal of the returned tree (call k built the k-th node), each with its
   production, rule, one argument per symbol in order (lexeme for a token, the child's value for
   a rule), the parameter; the tree's leaves are the input. *)
Definition action_log_is_postorder_for (run : runner) : Prop :=
  forall g A, wf_grammar g = true -> validS g A = true ->
  forall prm lexemes fuel k log errs,
    tokens_in_range g (map lx_tok lexemes) -> no_eof g (map lx_tok lexemes) ->
    run g A prm lexemes fuel = Done (mkRes (Some k) log errs) ->
    let t := final_tree log k in
    (exists p kids, t = LNode k p kids) /\
    labels_post t = seq 0 (length log) /\
    (forall n, In n (subnodes t) -> call_ok g prm log n) /\
    (forall j p kids, In (j, p, kids) (subnodes t) -> map (kind_of g) kids = rhs g p) /\
    lleaves t = lexemes /\
    errs = [].

(* the tree built by the actions is the generic parse tree *)
Definition actions_tree_equals_generic_for (run : runner) : Prop :=
  forall g A, wf_grammar g = true -> validS g A = true ->
  forall prm lexemes fuel k log errs,
    tokens_in_range g (map lx_tok lexemes) -> no_eof g (map lx_tok lexemes) ->
    run g A prm lexemes fuel = Done (mkRes (Some k) log errs) ->
    exists t, LR.Automaton.run g A fuel (map lx_tok lexemes) = RAccept t /\
              same_tree lexemes (final_tree log k) t.

(* … and a parse that returns no value is one the generic mode rejects at the same lexeme *)
Definition actions_reject_equals_generic_for (run : runner) : Prop :=
  forall g A, wf_grammar g = true -> validS g A = true ->
  forall prm lexemes fuel log errs,
    tokens_in_range g (map lx_tok lexemes) -> no_eof g (map lx_tok lexemes) ->
    run g A prm lexemes fuel = Done (mkRes None log errs) ->
    exists pos st el, LR.Automaton.run g A fuel (map lx_tok lexemes) = RReject pos st /\
                      errs = [(el, st)].

(* every call's span is the hull of the lexemes under its node; zero-length at the end of the
   last lexeme before it when there is none *)
Definition span_is_yield_hull_for (run : runner) : Prop :=
  forall g A, wf_grammar g = true -> validS g A = true ->
  forall prm lexemes fuel k log errs,
    tokens_in_range g (map lx_tok lexemes) -> no_eof g (map lx_tok lexemes) ->
    run g A prm lexemes fuel = Done (mkRes (Some k) log errs) ->
    forall j sp, In (j, sp) (expected_spans (final_tree log k) 0) ->
      exists c, nth_error log j = Some c /\ c_span c = sp.

Definition span_is_yield_hull_weak_for (run : runner) : Prop :=
  forall g A, wf_grammar g = true -> validS g A = true ->
  forall prm lexemes fuel k log errs,
    tokens_in_range g (map lx_tok lexemes) -> no_eof g (map lx_tok lexemes) ->
    run g A prm lexemes fuel = Done (mkRes (Some k) log errs) ->
    forall n, In n (subnodes (final_tree log k)) -> hull_weak_ok log n.

(* With recovery (any oracle = any repair sequences the recoverer may have chosen), on ANY table:
   the returned tree's calls are contiguous from 0 in post-order, each well-formed. *)
Definition replay_calls_wellformed_for (run : runner_rec) : Prop :=
  forall g A prm lexemes fuel rec oracle k log errs,
    run g A prm lexemes fuel rec oracle = Done (mkRes (Some k) log errs) ->
    let t := final_tree log k in
    (exists p kids, t = LNode k p kids) /\
    labels_post t = seq 0 (length (labels_post t)) /\
    (forall n, In n (subnodes t) -> call_ok g prm log n).

Definition replay_span_is_yield_hull_for (run : runner_rec) : Prop :=
  forall g A prm lexemes fuel rec oracle k log errs,
    run g A prm lexemes fuel rec oracle = Done (mkRes (Some k) log errs) ->
    forall j sp, In (j, sp) (expected_spans (final_tree log k) 0) ->
      exists c, nth_error log j = Some c /\ c_span c = sp.

(* the duplicated reduce code of lr_upto computes what the one of lr computes (both policies) *)
Definition replay_mirror_same_step_stmt : Prop :=
  (forall g A prm s p, reduce_upto span sp_reduce_cur g A prm s p = reduce_lr span sp_reduce_cur g A prm s p) /\
  (forall g A prm s p, reduce_upto (span * bool)%type sp_reduce_fix g A prm s p =
                       reduce_lr (span * bool)%type sp_reduce_fix g A prm s p).

(* ---- today's code ---- *)
Definition action_log_is_postorder_stmt := action_log_is_postorder_for run_actions.
Definition actions_tree_equals_generic_stmt := actions_tree_equals_generic_for run_actions.
Definition actions_reject_equals_generic_stmt := actions_reject_equals_generic_for run_actions.
Definition replay_calls_wellformed_stmt := replay_calls_wellformed_for run_actions_rec.

(* refuted for today's code, already in the weak form *)
Definition span_is_yield_hull_refuted_stmt : Prop :=
  exists g A prm lexemes fuel k log errs,
    wf_grammar g = true /\ validS g A = true /\
    tokens_in_range g (map lx_tok lexemes) /\ no_eof g (map lx_tok lexemes) /\
    run_actions g A prm lexemes fuel = Done (mkRes (Some k) log errs) /\
    exists n, In n (subnodes (final_tree log k)) /\ ~ hull_weak_ok log n.

(* ---- the repaired code ---- *)
Definition fixed_action_log_is_postorder_stmt := action_log_is_postorder_for run_actions_fixed.
Definition fixed_actions_tree_equals_generic_stmt := actions_tree_equals_generic_for run_actions_fixed.
Definition fixed_replay_calls_wellformed_stmt := replay_calls_wellformed_for run_actions_fixed_rec.
Definition span_is_yield_hull_stmt := span_is_yield_hull_for run_actions_fixed.
Definition span_is_yield_hull_weak_stmt := span_is_yield_hull_weak_for run_actions_fixed.
Definition replay_span_is_yield_hull_stmt := replay_span_is_yield_hull_for run_actions_fixed_rec.

(* the two mirrors differ in nothing but the spans: same verdict, same errors, same calls up to
   c_span (with or without recovery, any table) *)
Definition strip_span (c : call) : call := mkCall (c_pidx c) (c_ridx c) (c_args c) (0, 0)%nat (c_param c).
Definition fixed_changes_only_spans_stmt : Prop :=
  forall g A prm lexemes fuel rec oracle r r',
    run_actions_rec g A prm lexemes fuel rec oracle = Done r ->
    run_actions_fixed_rec g A prm lexemes fuel rec oracle = Done r' ->
    r_val r = r_val r' /\ r_errs r = r_errs r' /\ map strip_span (r_log r) = map strip_span (r_log r').
