(* C08 proofs, part 3: the spans stack of the REPAIRED code holds, for every astack entry, the
   hull of the lexemes under it (flag true) or the zero-length span at the end of the last
   lexeme before it (flag false); hence every call receives [expected_spans]. *)
From Coq Require Import List Arith NArith Bool Lia.
From GV Require Import Common.Outcome Base.Grammar LR.Automaton C08.Model C08.Spec C08.Forest C08.Loops.
Import ListNotations.

Definition nonemptyb {X} (l : list X) : bool := match l with [] => false | _ :: _ => true end.

Fixpoint expected_spans_list (ks : list ltree) (pe : nat) : list (nat * span) :=
  match ks with
  | [] => []
  | c :: cs => expected_spans c pe ++ expected_spans_list cs (end_after (lleaves c) pe)
  end.

Lemma expected_spans_node k p kids pe :
  expected_spans (LNode k p kids) pe =
  expected_spans_list kids pe ++ [(k, hull_or (flat_map lleaves kids) pe)].
Proof. reflexivity. Qed.

(* what the spans stack must hold for a forest whose left context ends at pe *)
Fixpoint stack_spans (F : list ltree) (pe : nat) : list (span * bool) :=
  match F with
  | [] => []
  | t :: ts => (hull_or (lleaves t) pe, nonemptyb (lleaves t)) :: stack_spans ts (end_after (lleaves t) pe)
  end.

(* ---- last / end_after ------------------------------------------------------------------- *)
Lemma last_app_cons {X} (a : list X) (y : X) (b : list X) (d d' : X) :
  last (a ++ y :: b) d = last (y :: b) d'.
Proof.
  induction a as [|x a IH].
  - cbn [app]. revert y. induction b as [|z b IHb]; intros y; [reflexivity|].
    change (last (y :: z :: b) d) with (last (z :: b) d).
    change (last (y :: z :: b) d') with (last (z :: b) d'). apply IHb.
  - cbn [app]. destruct (a ++ y :: b) eqn:E.
    + destruct a; discriminate.
    + exact IH.
Qed.

Lemma end_after_app a b pe : end_after (a ++ b) pe = end_after b (end_after a pe).
Proof.
  destruct b as [|y b].
  - rewrite app_nil_r. reflexivity.
  - destruct a as [|x a]; [reflexivity|].
    cbn [app end_after]. f_equal.
    change (x :: a ++ y :: b) with ((x :: a) ++ y :: b). apply last_app_cons.
Qed.

Lemma snd_hull_or ls pe : snd (hull_or ls pe) = end_after ls pe.
Proof. destruct ls; reflexivity. Qed.

Lemma lleaves_node k p kids : lleaves (LNode k p kids) = flat_map lleaves kids.
Proof. reflexivity. Qed.

(* ---- append ---------------------------------------------------------------------------------- *)
Lemma expected_spans_list_app a b pe :
  expected_spans_list (a ++ b) pe =
  expected_spans_list a pe ++ expected_spans_list b (end_after (flat_map lleaves a) pe).
Proof.
  revert pe. induction a as [|t a IH]; intros pe; [reflexivity|].
  cbn [app expected_spans_list flat_map]. rewrite IH, end_after_app, app_assoc. reflexivity.
Qed.

Lemma stack_spans_app a b pe :
  stack_spans (a ++ b) pe = stack_spans a pe ++ stack_spans b (end_after (flat_map lleaves a) pe).
Proof.
  revert pe. induction a as [|t a IH]; intros pe; [reflexivity|].
  cbn [app stack_spans flat_map]. rewrite IH, end_after_app. reflexivity.
Qed.

Lemma stack_spans_length F pe : length (stack_spans F pe) = length F.
Proof. revert pe. induction F as [|t F IH]; intros pe; [reflexivity|]. cbn. rewrite IH. reflexivity. Qed.

(* ---- find / rfind on a spans stack ----------------------------------------------------------- *)
Lemma find_first ks : forall pe,
  match flat_map lleaves ks with
  | [] => find (fun x : span * bool => snd x) (stack_spans ks pe) = None
  | l :: _ => exists f, find (fun x : span * bool => snd x) (stack_spans ks pe) = Some f /\
                        fst (fst f) = lx_start l
  end.
Proof.
  induction ks as [|t ks IH]; intros pe; [reflexivity|].
  cbn [flat_map stack_spans find].
  destruct (lleaves t) as [|l ls] eqn:El.
  - cbn [nonemptyb snd app]. apply IH.
  - cbn [nonemptyb snd app]. eexists. split; [reflexivity|]. reflexivity.
Qed.

Lemma find_last ks : forall pe,
  match flat_map lleaves ks with
  | [] => find (fun x : span * bool => snd x) (rev (stack_spans ks pe)) = None
  | _ :: _ => exists f, find (fun x : span * bool => snd x) (rev (stack_spans ks pe)) = Some f /\
                        snd (fst f) = end_after (flat_map lleaves ks) pe
  end.
Proof.
  induction ks as [|t ks IH] using rev_ind; intros pe; [reflexivity|].
  rewrite flat_map_snoc, stack_spans_app. cbn [stack_spans]. rewrite rev_app_distr. cbn [rev app find].
  destruct (lleaves t) as [|l ls] eqn:El.
  - cbn [nonemptyb snd]. rewrite app_nil_r. apply IH.
  - cbn [nonemptyb snd].
    destruct (flat_map lleaves ks ++ l :: ls) eqn:E; [destruct (flat_map lleaves ks); discriminate|].
    rewrite <- E. eexists. split; [reflexivity|].
    cbn [fst]. rewrite snd_hull_or, end_after_app. reflexivity.
Qed.

Lemma stack_spans_last_end F : forall pe x,
  last_opt (stack_spans F pe) = Some x -> snd (fst x) = end_after (flat_map lleaves F) pe.
Proof.
  induction F as [|t F IH] using rev_ind; intros pe x H; [discriminate|].
  rewrite stack_spans_app in H. cbn [stack_spans] in H. rewrite last_opt_app in H.
  injection H as H. subst x. cbn [fst]. rewrite snd_hull_or, flat_map_snoc, end_after_app. reflexivity.
Qed.

Lemma span_new_Done s e sp : span_new s e = Done sp -> sp = (s, e).
Proof. unfold span_new. destruct (e <? s)%nat; [discriminate|]. intros H. injection H as H. auto. Qed.

(* ---- the repaired span computation on a well-formed spans stack ------------------------------ *)
Lemma sp_reduce_fix_spec F base sr :
  (base <= length F)%nat ->
  sp_reduce_fix (stack_spans F 0) (S base) = Done sr ->
  let pe1 := end_after (flat_map lleaves (firstn base F)) 0 in
  fst sr = hull_or (flat_map lleaves (skipn base F)) pe1 /\
  forall len p, snd sr = stack_spans (freduce F base len p) 0.
Proof.
  intros Hle H pe1. unfold sp_reduce_fix in H.
  cbn [Nat.eqb] in H. replace (S base - 1)%nat with base in H by lia.
  set (F1 := firstn base F) in *. set (kids := skipn base F) in *.
  assert (HF : F = F1 ++ kids) by (symmetry; apply firstn_skipn).
  assert (HlF1 : length F1 = base) by (unfold F1; apply firstn_length_le; exact Hle).
  assert (Hsp : stack_spans F 0 = stack_spans F1 0 ++ stack_spans kids pe1).
  { rewrite HF at 1. apply stack_spans_app. }
  assert (Hfirst : firstn base (stack_spans F 0) = stack_spans F1 0).
  { rewrite Hsp. rewrite firstn_app, stack_spans_length, HlF1, Nat.sub_diag. cbn [firstn].
    rewrite app_nil_r. apply firstn_all2. rewrite stack_spans_length. lia. }
  assert (Hskip : skipn base (stack_spans F 0) = stack_spans kids pe1).
  { rewrite Hsp. rewrite skipn_app, stack_spans_length, HlF1, Nat.sub_diag. cbn [skipn].
    rewrite skipn_all2; [reflexivity|]. rewrite stack_spans_length. lia. }
  destruct (length (stack_spans F 0) <? base)%nat eqn:Hlen.
  { apply Nat.ltb_lt in Hlen. rewrite stack_spans_length in Hlen. lia. }
  rewrite Hskip, Hfirst in H.
  pose proof (find_first kids pe1) as Hff. pose proof (find_last kids pe1) as Hfl.
  destruct (flat_map lleaves kids) as [|l ls] eqn:Elv.
  - (* no lexeme under the production *)
    rewrite Hff in H.
    assert (Hp : (if (base =? 0)%nat then Done 0%nat
                  else do x <- nth_checked (stack_spans F 0) (base - 1); Done (snd (fst x))) = Done pe1
                 \/ exists o, o <> Done pe1 /\ False).
    { left. destruct (base =? 0)%nat eqn:Hb.
      - apply Nat.eqb_eq in Hb. unfold pe1, F1. rewrite Hb. reflexivity.
      - apply Nat.eqb_neq in Hb. unfold nth_checked.
        assert (Hn : nth_error (stack_spans F 0) (base - 1) = last_opt (stack_spans F1 0)).
        { unfold last_opt. rewrite stack_spans_length, HlF1, Hsp.
          apply nth_error_app1. rewrite stack_spans_length. lia. }
        rewrite Hn. destruct (last_opt (stack_spans F1 0)) as [x|] eqn:Hl.
        + cbn [obind]. f_equal. apply stack_spans_last_end. exact Hl.
        + exfalso. unfold last_opt in Hl. apply nth_error_None in Hl.
          rewrite stack_spans_length in Hl. lia. }
    destruct Hp as [Hp | (o & _ & [])]. rewrite Hp in H. cbn [obind] in H.
    unfold span_new in H. rewrite Nat.ltb_irrefl in H. cbn [obind] in H.
    injection H as H. subst sr. cbn [fst snd hull_or]. split; [reflexivity|].
    intros len p. unfold freduce. fold F1 kids. rewrite stack_spans_app. cbn [stack_spans].
    rewrite lleaves_node, Elv. reflexivity.
  - (* at least one lexeme *)
    destruct Hff as (f & Hf & Hfs). destruct Hfl as (f' & Hf' & Hfe).
    rewrite Hf, Hf' in H.
    destruct (span_new (fst (fst f)) (snd (fst f'))) as [sp| |] eqn:Hsn; cbn [obind] in H; try discriminate.
    injection H as H. subst sr. cbn [fst snd].
    apply span_new_Done in Hsn. rewrite Hfs, Hfe in Hsn. subst sp.
    split; [reflexivity|].
    intros len p. unfold freduce. fold F1 kids. rewrite stack_spans_app. cbn [stack_spans].
    rewrite lleaves_node, Elv. reflexivity.
Qed.

Lemma sp_reduce_fix_nofuel l n : sp_reduce_fix l n <> OutOfFuel.
Proof.
  unfold sp_reduce_fix. destruct (n =? 0)%nat; [discriminate|].
  destruct (length l <? n - 1)%nat; [discriminate|].
  destruct (find _ (skipn (n - 1) l)) as [f|]; [destruct (find _ (rev (skipn (n - 1) l))) as [f'|]|].
  - unfold span_new. destruct (_ <? _)%nat; cbn; discriminate.
  - destruct (n - 1 =? 0)%nat; cbn [obind].
    + unfold span_new. rewrite Nat.ltb_irrefl. cbn. discriminate.
    + unfold nth_checked. destruct (nth_error l (n - 1 - 1)); cbn [obind]; [|discriminate].
      unfold span_new. rewrite Nat.ltb_irrefl. cbn. discriminate.
  - destruct (n - 1 =? 0)%nat; cbn [obind].
    + unfold span_new. rewrite Nat.ltb_irrefl. cbn. discriminate.
    + unfold nth_checked. destruct (nth_error l (n - 1 - 1)); cbn [obind]; [|discriminate].
      unfold span_new. rewrite Nat.ltb_irrefl. cbn. discriminate.
Qed.

Lemma sp_reduce_cur_nofuel l n : sp_reduce_cur l n <> OutOfFuel.
Proof.
  unfold sp_reduce_cur. destruct l as [|x l].
  - cbn. destruct (n =? 0)%nat; discriminate.
  - destruct (n =? 0)%nat; [cbn; discriminate|].
    destruct (n - 1 <? length (x :: l))%nat.
    + unfold nth_checked. destruct (nth_error (x :: l) (n - 1)); cbn [obind]; [|discriminate].
      destruct (nth_error (x :: l) (length (x :: l) - 1)); cbn [obind]; [|discriminate].
      unfold span_new. destruct (_ <? _)%nat; cbn; discriminate.
    + unfold nth_checked. destruct (nth_error (x :: l) (length (x :: l) - 1)); cbn [obind]; [|discriminate].
      unfold span_new. destruct (_ <? _)%nat; cbn; discriminate.
Qed.

(* ---- the state invariant of the repaired code -------------------------------------------------- *)
Section FixInv.
Variable g : grammar.
Variable A : automaton.
Variable prm : nat.

Notation pstate := (pstate (span * bool)).

Definition sinv (s : pstate) (F : list ltree) : Prop :=
  spans s = stack_spans F 0 /\
  forall j sp, In (j, sp) (expected_spans_list F 0) ->
    exists c, nth_error (log s) j = Some c /\ c_span c = sp.

Definition Jfix (s : pstate) : Prop :=
  exists F, finv g prm (astack s) (log s) F /\ sinv s F.

(* the forest part alone, for any policy *)
Definition Jany {SP} (s : Model.pstate SP) : Prop := exists F, finv g prm (astack s) (log s) F.

Lemma Jany_shift {SP} sh (s : Model.pstate SP) st' l : Jany s -> Jany (shift_st SP sh s st' l).
Proof. intros (F & HF). exists (F ++ [LLeaf l]). cbn. apply finv_shift. exact HF. Qed.

Lemma Jany_reduce {SP} rd (s s' : Model.pstate SP) p :
  Jany s -> reduce_lr SP rd g A prm s p = Done s' -> Jany s'.
Proof.
  intros (F & HF) H. apply reduce_lr_inv in H.
  destruct H as (pop_idx & prior & st' & sr & _ & _ & _ & _ & _ & _ & _ & Hle & Hs'). subst s'.
  eexists. cbn [astack log]. apply finv_reduce; eassumption.
Qed.

Lemma Jfix_shift (s : pstate) st' l : Jfix s -> Jfix (shift_st _ sp_shift_fix s st' l).
Proof.
  intros (F & HF & Hs & He). exists (F ++ [LLeaf l]). split; [cbn; apply finv_shift; exact HF|].
  split.
  - cbn [shift_st spans]. rewrite Hs, stack_spans_app. reflexivity.
  - intros j sp Hin. rewrite expected_spans_list_app in Hin. cbn in Hin. rewrite app_nil_r in Hin.
    cbn [shift_st log]. apply He. exact Hin.
Qed.

Lemma Jfix_reduce (s s' : pstate) p :
  Jfix s -> reduce_lr _ sp_reduce_fix g A prm s p = Done s' -> Jfix s'.
Proof.
  intros (F & HF & Hs & He) H. apply reduce_lr_inv in H.
  destruct H as (pop_idx & prior & st' & sr & _ & _ & _ & Hne & _ & _ & Hsr & Hle & Hs'). subst s'.
  set (base := (pop_idx - 1)%nat) in *.
  assert (Hpi : pop_idx = S base) by (unfold base; lia).
  assert (HlF : length (astack s) = length F).
  { destruct HF as (Ha & _). rewrite Ha. apply map_length. }
  rewrite Hs, Hpi in Hsr.
  destruct (sp_reduce_fix_spec F base sr) as (Hsp & Hst); [lia|exact Hsr|].
  exists (freduce F base (length (log s)) p). split.
  - cbn [astack log]. apply finv_reduce; assumption.
  - split.
    + cbn [spans]. apply Hst.
    + cbn [log]. intros j sp Hin. unfold freduce in Hin.
      rewrite expected_spans_list_app in Hin. cbn [expected_spans_list] in Hin.
      rewrite expected_spans_node, app_nil_r in Hin.
      rewrite app_assoc in Hin. apply in_app_or in Hin. destruct Hin as [Hin | Hin].
      * destruct (He j sp) as (c & Hc & Hcs).
        { rewrite <- (firstn_skipn base F) at 1. rewrite expected_spans_list_app. exact Hin. }
        exists c. split; [apply nth_error_snoc_old; exact Hc|exact Hcs].
      * cbn in Hin. destruct Hin as [Hin | []]. injection Hin as Hj Hspe. subst j sp.
        eexists. split; [apply nth_error_snoc_new|]. cbn [c_span]. exact Hsp.
Qed.

Lemma Jfix_init : Jfix (init_st _ A).
Proof.
  exists []. split; [apply finv_init|]. split; [reflexivity|]. intros j sp [].
Qed.

Lemma Jany_init {SP} : @Jany SP (init_st SP A).
Proof. exists []. apply finv_init. Qed.

End FixInv.
