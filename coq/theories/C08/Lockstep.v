(* C08 proofs, part 6: two span policies run in lock step — same parse stack, same value
   stack, same verdict and errors, same calls up to the span field.  Hence the repair changes
   nothing but spans. *)
From Coq Require Import List Arith NArith Bool Lia.
From GV Require Import Common.Outcome Base.Grammar LR.Automaton C08.Model C08.Spec C08.Forest C08.Loops.
Import ListNotations.

Section Lockstep.
Variable SP1 SP2 : Type.
Variable sh1 : lexeme -> SP1.
Variable sh2 : lexeme -> SP2.
Variable rd1 : list SP1 -> nat -> outcome (span * list SP1).
Variable rd2 : list SP2 -> nat -> outcome (span * list SP2).
Hypothesis nofuel1 : forall l n, rd1 l n <> OutOfFuel.
Hypothesis nofuel2 : forall l n, rd2 l n <> OutOfFuel.
Variable g : grammar.
Variable A : automaton.
Variable prm : nat.
Variable lexemes : list lexeme.

Definition rel (s1 : pstate SP1) (s2 : pstate SP2) : Prop :=
  pstack s1 = pstack s2 /\ astack s1 = astack s2 /\
  map strip_span (log s1) = map strip_span (log s2).

Lemma rel_shift s1 s2 st' l : rel s1 s2 -> rel (shift_st SP1 sh1 s1 st' l) (shift_st SP2 sh2 s2 st' l).
Proof. intros (Hp & Ha & Hl). unfold rel. cbn. rewrite Hp, Ha. auto. Qed.

Lemma rel_reduce s1 s2 p s1' s2' : rel s1 s2 ->
  reduce_lr SP1 rd1 g A prm s1 p = Done s1' -> reduce_lr SP2 rd2 g A prm s2 p = Done s2' -> rel s1' s2'.
Proof.
  intros (Hp & Ha & Hl) H1 H2. apply reduce_lr_inv in H1. apply reduce_lr_inv in H2.
  destruct H1 as (pi1 & pr1 & st1 & sr1 & _ & _ & Hpi1 & _ & Hpr1 & Hg1 & _ & _ & E1).
  destruct H2 as (pi2 & pr2 & st2 & sr2 & _ & _ & Hpi2 & _ & Hpr2 & Hg2 & _ & _ & E2).
  assert (Hpi : pi2 = pi1) by (rewrite Hpi1, Hpi2, Hp; reflexivity). clear Hpi1 Hpi2. subst pi2.
  rewrite Hp in Hpr1. rewrite Hpr1 in Hpr2. injection Hpr2 as Hpr. subst pr2.
  rewrite Hg1 in Hg2. injection Hg2 as Hst. subst st2.
  assert (Hlen : length (log s1) = length (log s2)).
  { apply (f_equal (@length call)) in Hl. rewrite !map_length in Hl. exact Hl. }
  subst s1' s2'. unfold rel. cbn [pstack astack log]. rewrite Hp, Ha, Hlen. repeat split.
  rewrite !map_app, Hl. reflexivity.
Qed.

Notation loop1 := (lr_upto_loop SP1 sh1 rd1 g A prm lexemes).
Notation loop2 := (lr_upto_loop SP2 sh2 rd2 g A prm lexemes).

Lemma rel_loop : forall fuel prefix laidx e s1 s2 r1 r2, rel s1 s2 ->
  loop1 fuel prefix laidx e s1 = Done r1 -> loop2 fuel prefix laidx e s2 = Done r2 ->
  fst r1 = fst r2 /\ rel (snd r1) (snd r2).
Proof.
  induction fuel as [|f IH]; intros prefix laidx e s1 s2 r1 r2 Hrel H1 H2;
    cbn [Model.lr_upto_loop] in H1, H2; [discriminate|].
  destruct ((laidx =? e)%nat || (length lexemes <? laidx)%nat).
  { injection H1 as H1. injection H2 as H2. subst r1 r2. split; [reflexivity|exact Hrel]. }
  pose proof Hrel as (Hp & _). rewrite <- Hp in H2.
  destruct (last_opt (pstack s1)) as [stidx|]; [|discriminate].
  destruct (action A stidx _) as [st'|p| |].
  - destruct (match prefix with Some l => Done l | None => next_lexeme g lexemes laidx end) as [l| |];
      cbn [obind] in H1, H2; try discriminate.
    eapply IH; [|exact H1|exact H2]. apply rel_shift. exact Hrel.
  - rewrite reduce_upto_eq in H1 by exact nofuel1. rewrite reduce_upto_eq in H2 by exact nofuel2.
    destruct (reduce_lr SP1 rd1 g A prm s1 p) as [s1'| |] eqn:E1; cbn [obind] in H1; try discriminate.
    destruct (reduce_lr SP2 rd2 g A prm s2 p) as [s2'| |] eqn:E2; cbn [obind] in H2; try discriminate.
    eapply IH; [|exact H1|exact H2]. eapply rel_reduce; eassumption.
  - injection H1 as H1. injection H2 as H2. subst r1 r2. split; [reflexivity|exact Hrel].
  - injection H1 as H1. injection H2 as H2. subst r1 r2. split; [reflexivity|exact Hrel].
Qed.

Lemma rel_upto fuel prefix laidx e s1 s2 r1 r2 : rel s1 s2 ->
  lr_upto SP1 sh1 rd1 g A prm lexemes fuel prefix laidx e s1 = Done r1 ->
  lr_upto SP2 sh2 rd2 g A prm lexemes fuel prefix laidx e s2 = Done r2 ->
  fst r1 = fst r2 /\ rel (snd r1) (snd r2).
Proof.
  intros Hrel H1 H2. unfold Model.lr_upto in H1, H2. destruct prefix as [l|].
  - destruct (e =? laidx + 1)%nat; [|discriminate]. eapply rel_loop; eassumption.
  - eapply rel_loop; eassumption.
Qed.

Lemma rel_apply fuel : forall rs laidx s1 s2 r1 r2, rel s1 s2 ->
  apply_repairs SP1 sh1 rd1 g A prm lexemes fuel rs laidx s1 = Done r1 ->
  apply_repairs SP2 sh2 rd2 g A prm lexemes fuel rs laidx s2 = Done r2 ->
  fst r1 = fst r2 /\ rel (snd r1) (snd r2).
Proof.
  induction rs as [|[t| |] rs IH]; intros laidx s1 s2 r1 r2 Hrel H1 H2; cbn [Model.apply_repairs] in H1, H2.
  - injection H1 as H1. injection H2 as H2. subst r1 r2. split; [reflexivity|exact Hrel].
  - destruct (next_lexeme g lexemes laidx) as [nl| |]; cbn [obind] in H1, H2; try discriminate.
    destruct (lr_upto SP1 sh1 rd1 g A prm lexemes fuel _ laidx (laidx + 1) s1) as [u1| |] eqn:E1;
      cbn [obind] in H1; try discriminate.
    destruct (lr_upto SP2 sh2 rd2 g A prm lexemes fuel _ laidx (laidx + 1) s2) as [u2| |] eqn:E2;
      cbn [obind] in H2; try discriminate.
    destruct (rel_upto _ _ _ _ _ _ _ _ Hrel E1 E2) as (_ & Hr). eapply IH; eassumption.
  - eapply IH; eassumption.
  - destruct (lr_upto SP1 sh1 rd1 g A prm lexemes fuel None laidx (laidx + 1) s1) as [u1| |] eqn:E1;
      cbn [obind] in H1; try discriminate.
    destruct (lr_upto SP2 sh2 rd2 g A prm lexemes fuel None laidx (laidx + 1) s2) as [u2| |] eqn:E2;
      cbn [obind] in H2; try discriminate.
    destruct (rel_upto _ _ _ _ _ _ _ _ Hrel E1 E2) as (Hf & Hr). rewrite Hf in H1. eapply IH; eassumption.
Qed.

Lemma rel_lr : forall fuel rec oracle laidx s1 s2 errs r1 r2, rel s1 s2 ->
  lr SP1 sh1 rd1 g A prm lexemes fuel rec oracle laidx s1 errs = Done r1 ->
  lr SP2 sh2 rd2 g A prm lexemes fuel rec oracle laidx s2 errs = Done r2 ->
  r_val r1 = r_val r2 /\ r_errs r1 = r_errs r2 /\ map strip_span (r_log r1) = map strip_span (r_log r2).
Proof.
  induction fuel as [|f IH]; intros rec oracle laidx s1 s2 errs r1 r2 Hrel H1 H2;
    cbn [Model.lr] in H1, H2; [discriminate|].
  pose proof Hrel as (Hp & Ha & Hl). rewrite <- Hp in H2.
  destruct (last_opt (pstack s1)) as [stidx|]; [|discriminate].
  destruct (action A stidx _) as [st'|p| |].
  - destruct (next_lexeme g lexemes laidx) as [l| |]; cbn [obind] in H1, H2; try discriminate.
    eapply IH; [|exact H1|exact H2]. apply rel_shift. exact Hrel.
  - destruct (reduce_lr SP1 rd1 g A prm s1 p) as [s1'| |] eqn:E1; cbn [obind] in H1; try discriminate.
    destruct (reduce_lr SP2 rd2 g A prm s2 p) as [s2'| |] eqn:E2; cbn [obind] in H2; try discriminate.
    eapply IH; [|exact H1|exact H2]. eapply rel_reduce; eassumption.
  - rewrite <- Ha in H2. destruct (astack s1) as [|[l|v] rest]; try discriminate.
    injection H1 as H1. injection H2 as H2. subst r1 r2. cbn. auto.
  - destruct (next_lexeme g lexemes laidx) as [el| |]; cbn [obind] in H1, H2; try discriminate.
    destruct (negb rec).
    { injection H1 as H1. injection H2 as H2. subst r1 r2. cbn. auto. }
    destruct oracle as [|[rs|] oracle'].
    + injection H1 as H1. injection H2 as H2. subst r1 r2. cbn. auto.
    + destruct (apply_repairs SP1 sh1 rd1 g A prm lexemes f rs laidx s1) as [u1| |] eqn:E1;
        cbn [obind] in H1; try discriminate.
      destruct (apply_repairs SP2 sh2 rd2 g A prm lexemes f rs laidx s2) as [u2| |] eqn:E2;
        cbn [obind] in H2; try discriminate.
      destruct (rel_apply _ _ _ _ _ _ _ Hrel E1 E2) as (Hf & Hr). rewrite Hf in H1.
      eapply IH; eassumption.
    + injection H1 as H1. injection H2 as H2. subst r1 r2. cbn. auto.
Qed.

End Lockstep.
