(* C08 proofs, part 2: inversion of the reduce mirrors, equality of the two copies, and the
   induction principle "a state predicate kept by shift and reduce is kept by lr, lr_upto and
   apply_repairs" (any span policy, any table, any oracle). *)
From Coq Require Import List Arith NArith Bool Lia.
From GV Require Import Common.Outcome Base.Grammar LR.Automaton C08.Model C08.Spec C08.Forest.
Import ListNotations.

Section Loops.
Variable SP : Type.
Variable sp_shift : lexeme -> SP.
Variable sp_reduce : list SP -> nat -> outcome (span * list SP).
Variable g : grammar.
Variable A : automaton.
Variable prm : nat.
Variable lexemes : list lexeme.

Notation pstate := (pstate SP).
Notation reduce_lr := (reduce_lr SP sp_reduce g A prm).
Notation reduce_upto := (reduce_upto SP sp_reduce g A prm).
Notation shift_st := (shift_st SP sp_shift).
Notation lr_upto_loop := (lr_upto_loop SP sp_shift sp_reduce g A prm lexemes).
Notation lr_upto := (lr_upto SP sp_shift sp_reduce g A prm lexemes).
Notation apply_repairs := (apply_repairs SP sp_shift sp_reduce g A prm lexemes).
Notation lr := (lr SP sp_shift sp_reduce g A prm lexemes).

Lemma reduce_lr_inv (s s' : pstate) p : reduce_lr s p = Done s' ->
  exists pop_idx prior st' sr,
    is_prodb g p = true /\
    (length (rhs g p) <= length (pstack s))%nat /\
    pop_idx = (length (pstack s) - length (rhs g p))%nat /\
    pop_idx <> 0%nat /\
    last_opt (firstn pop_idx (pstack s)) = Some prior /\
    goto A prior (lhs g p) = Some st' /\
    sp_reduce (spans s) pop_idx = Done sr /\
    (pop_idx - 1 <= length (astack s))%nat /\
    s' = mkSt (firstn pop_idx (pstack s) ++ [st'])
              (firstn (pop_idx - 1) (astack s) ++ [AVal (length (log s))])
              (snd sr)
              (log s ++ [mkCall p (lhs g p) (skipn (pop_idx - 1) (astack s)) (fst sr) prm]).
Proof.
  unfold Model.reduce_lr. intros H.
  destruct (is_prodb g p) eqn:Hp; cbn [negb] in H; [|discriminate].
  destruct (length (pstack s) <? length (rhs g p))%nat eqn:Hlt; [discriminate|].
  apply Nat.ltb_ge in Hlt.
  set (pop_idx := (length (pstack s) - length (rhs g p))%nat) in *.
  destruct (last_opt (firstn pop_idx (pstack s))) as [prior|] eqn:Hlast; [|discriminate].
  destruct (goto A prior (lhs g p)) as [st'|] eqn:Hg; [|discriminate].
  destruct (sp_reduce (spans s) pop_idx) as [sr| |] eqn:Hsr; cbn [obind] in H; try discriminate.
  destruct (pop_idx =? 0)%nat eqn:H0; [discriminate|]. apply Nat.eqb_neq in H0.
  destruct (length (astack s) <? pop_idx - 1)%nat eqn:Hl2; [discriminate|]. apply Nat.ltb_ge in Hl2.
  injection H as H. exists pop_idx, prior, st', sr. repeat split; try assumption; try reflexivity.
  symmetry. exact H.
Qed.

(* the duplicated code of lr_upto computes what the code of lr computes *)
Lemma reduce_upto_eq (s : pstate) p :
  (forall l n, sp_reduce l n <> OutOfFuel) -> reduce_upto s p = reduce_lr s p.
Proof.
  intros Hnf.
  unfold Model.reduce_upto, Model.reduce_lr.
  destruct (negb (is_prodb g p)); [reflexivity|].
  destruct (length (pstack s) <? length (rhs g p))%nat; [reflexivity|].
  set (pop_idx := (length (pstack s) - length (rhs g p))%nat).
  destruct (sp_reduce (spans s) pop_idx) as [sr| |] eqn:Hsr; cbn [obind].
  - destruct (pop_idx =? 0)%nat.
    + destruct (last_opt (firstn pop_idx (pstack s))) as [prior|]; [|reflexivity].
      destruct (goto A prior (lhs g p)); reflexivity.
    + destruct (length (astack s) <? pop_idx - 1)%nat.
      * destruct (last_opt (firstn pop_idx (pstack s))) as [prior|]; [|reflexivity].
        destruct (goto A prior (lhs g p)); reflexivity.
      * reflexivity.
  - destruct (last_opt (firstn pop_idx (pstack s))) as [prior|]; [|reflexivity].
    destruct (goto A prior (lhs g p)); reflexivity.
  - exfalso. revert Hsr. apply Hnf.
Qed.

(* ---- a state predicate kept by shift and reduce is kept by every loop ------------------ *)
Section Keep.
Hypothesis sp_nofuel : forall l n, sp_reduce l n <> OutOfFuel.
Variable J : pstate -> Prop.
Hypothesis J_shift : forall s st' l, J s -> J (shift_st s st' l).
Hypothesis J_reduce : forall s p s', J s -> reduce_lr s p = Done s' -> J s'.

Lemma lr_upto_loop_J : forall fuel prefix laidx e s r,
  J s -> lr_upto_loop fuel prefix laidx e s = Done r -> J (snd r).
Proof.
  induction fuel as [|f IH]; intros prefix laidx e s r HJ H; cbn [Model.lr_upto_loop] in H; [discriminate|].
  destruct ((laidx =? e)%nat || (length lexemes <? laidx)%nat).
  { injection H as H. subst r. exact HJ. }
  destruct (last_opt (pstack s)) as [stidx|]; [|discriminate].
  destruct (action A stidx _) as [st'|p| |].
  - destruct (match prefix with Some l => Done l | None => next_lexeme g lexemes laidx end) as [l| |];
      cbn [obind] in H; try discriminate.
    eapply IH; [|exact H]. apply J_shift. exact HJ.
  - rewrite reduce_upto_eq in H by exact sp_nofuel.
    destruct (reduce_lr s p) as [s'| |] eqn:Hr; cbn [obind] in H; try discriminate.
    eapply IH; [|exact H]. eapply J_reduce; eassumption.
  - injection H as H. subst r. exact HJ.
  - injection H as H. subst r. exact HJ.
Qed.

Lemma lr_upto_J fuel prefix laidx e s r :
  J s -> lr_upto fuel prefix laidx e s = Done r -> J (snd r).
Proof.
  intros HJ H. unfold Model.lr_upto in H. destruct prefix as [l|].
  - destruct (e =? laidx + 1)%nat; [|discriminate]. eapply lr_upto_loop_J; eassumption.
  - eapply lr_upto_loop_J; eassumption.
Qed.

Lemma apply_repairs_J fuel : forall rs laidx s r,
  J s -> apply_repairs fuel rs laidx s = Done r -> J (snd r).
Proof.
  induction rs as [|[t| |] rs IH]; intros laidx s r HJ H; cbn [Model.apply_repairs] in H.
  - injection H as H. subst r. exact HJ.
  - destruct (next_lexeme g lexemes laidx) as [nl| |]; cbn [obind] in H; try discriminate.
    destruct (lr_upto fuel _ laidx (laidx + 1) s) as [r1| |] eqn:Hu; cbn [obind] in H; try discriminate.
    eapply IH; [|exact H]. eapply lr_upto_J; eassumption.
  - eapply IH; eassumption.
  - destruct (lr_upto fuel None laidx (laidx + 1) s) as [r1| |] eqn:Hu; cbn [obind] in H; try discriminate.
    eapply IH; [|exact H]. eapply lr_upto_J; eassumption.
Qed.

Lemma lr_J : forall fuel rec oracle laidx s errs res,
  J s -> lr fuel rec oracle laidx s errs = Done res ->
  exists s', J s' /\ r_log res = log s' /\
             (forall v, r_val res = Some v -> exists rest, astack s' = AVal v :: rest).
Proof.
  induction fuel as [|f IH]; intros rec oracle laidx s errs res HJ H; cbn [Model.lr] in H; [discriminate|].
  destruct (last_opt (pstack s)) as [stidx|]; [|discriminate].
  destruct (action A stidx _) as [st'|p| |].
  - destruct (next_lexeme g lexemes laidx) as [l| |]; cbn [obind] in H; try discriminate.
    eapply IH; [|exact H]. apply J_shift. exact HJ.
  - destruct (reduce_lr s p) as [s'| |] eqn:Hr; cbn [obind] in H; try discriminate.
    eapply IH; [|exact H]. eapply J_reduce; eassumption.
  - destruct (astack s) as [|[l|v] rest] eqn:Ha; try discriminate.
    injection H as H. subst res. exists s. split; [exact HJ|]. split; [reflexivity|].
    cbn [r_val]. intros v0 Hv. injection Hv as Hv. subst v0. exists rest. exact Ha.
  - destruct (next_lexeme g lexemes laidx) as [el| |]; cbn [obind] in H; try discriminate.
    destruct (negb rec).
    { injection H as H. subst res. exists s. split; [exact HJ|]. split; [reflexivity|].
      cbn [r_val]. intros v Hv. discriminate. }
    destruct oracle as [|[rs|] oracle'].
    + injection H as H. subst res. exists s. split; [exact HJ|]. split; [reflexivity|].
      cbn [r_val]. intros v Hv. discriminate.
    + destruct (apply_repairs f rs laidx s) as [r1| |] eqn:Hap; cbn [obind] in H; try discriminate.
      eapply IH; [|exact H]. eapply apply_repairs_J; eassumption.
    + injection H as H. subst res. exists s. split; [exact HJ|]. split; [reflexivity|].
      cbn [r_val]. intros v Hv. discriminate.
Qed.

End Keep.

End Loops.
