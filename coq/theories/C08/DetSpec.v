(* C08 — statements about the two modes run with one and the same recoverer FUNCTION. *)
From Coq Require Import List Arith NArith Bool Lia.
From GV Require Import Common.Outcome Base.Grammar LR.Automaton LR.Validator LR.Spec C08.Model C08.Spec C08.DetModel.
Import ListNotations.

(* the tree built by the recording actions, read as a generic parse tree: drop the call numbers,
   a node of production p is a node of p's rule *)
Fixpoint erase (g : grammar) (t : ltree) : gtree :=
  match t with
  | LLeaf l => GTerm l
  | LNode _ p kids => GNonterm (lhs g p) (map (erase g) kids)
  end.

(* what the generic mode must return when action mode returns r: the same errors with the same
   applied repair sequences, no value if r has none, else the tree the actions built *)
Definition generic_of_actions (g : grammar) (r : fres) : gres :=
  mkGRes (option_map (fun k => erase g (final_tree (f_log r) k)) (f_val r)) (f_errs r).

(* For one and the same recoverer function the two modes are the same function of the input:
   ANY grammar and table (validated or not, conflicts resolved or not), any lexemes, recovery on
   or off, any fuel — also the same panic and the same running out of fuel. *)
Definition actions_equal_generic_same_recoverer_for
    (SP : Type) (sh : lexeme -> SP) (rd : list SP -> nat -> outcome (span * list SP)) : Prop :=
  forall g A prm lexemes fuel rec (rcv : recoverer),
    gparse_f SP sh rd g A lexemes rcv fuel rec =
    omap (generic_of_actions g) (parse_f SP sh rd g A prm lexemes rcv fuel rec).

Definition actions_equal_generic_same_recoverer_stmt : Prop :=
  actions_equal_generic_same_recoverer_for span sp_shift_cur sp_reduce_cur /\
  actions_equal_generic_same_recoverer_for (span * bool)%type sp_shift_fix sp_reduce_fix.

(* the reading asked for by the property text: an accepted action-mode parse and the generic parse
   of the same input return the same tree and the same errors *)
Definition actions_tree_equals_generic_recovery_stmt : Prop :=
  forall g A prm lexemes fuel rec (rcv : recoverer) k log errs,
    run_actions_fixed_f g A prm lexemes rcv fuel rec = Done (mkFRes (Some k) log errs) ->
    run_generic_fixed_f g A lexemes rcv fuel rec = Done (mkGRes (Some (erase g (final_tree log k))) errs).

(* a function-driven run is an oracle-driven run (so every theorem of Spec.v about run_actions_rec /
   run_actions_fixed_rec with "any oracle" speaks about it) *)
Definition forget (r : fres) : pres := mkRes (f_val r) (f_log r) (map (fun e => fst e) (f_errs r)).
Definition recoverer_run_is_oracle_run_stmt : Prop :=
  forall SP sh rd g A prm lexemes fuel rec (rcv : recoverer) r,
    parse_f SP sh rd g A prm lexemes rcv fuel rec = Done r ->
    exists oracle, parse SP sh rd g A prm lexemes fuel rec oracle = Done (forget r).

(* The converse, which is the pinned defect (before /repo ca69cd1 `repairs()[0]` was picked in
   hash order: the "function" was a relation, each parse drew its own): two recoverers that
   differ at ONE configuration only, where each applies a sequence of the same rank (one Insert of
   a token the table accepts there), give an action-mode tree and a generic tree that differ —
   on a conflict-free validated table, both parses accepting with one reported error. *)
Definition actions_differ_generic_if_recoverer_differs_refuted_stmt : Prop :=
  exists g A prm lexemes fuel (rcv1 rcv2 : recoverer) i ps t1 t2 k log errs t gerrs,
    wf_grammar g = true /\ validS g A = true /\
    tokens_in_range g (map lx_tok lexemes) /\ no_eof g (map lx_tok lexemes) /\
    (forall ls j qs, (j =? i)%nat && stack_eqb qs ps = false -> rcv1 ls j qs = rcv2 ls j qs) /\
    rcv1 lexemes i ps = Some [RInsert t1] /\ rcv2 lexemes i ps = Some [RInsert t2] /\
    run_actions_fixed_f g A prm lexemes rcv1 fuel true = Done (mkFRes (Some k) log errs) /\
    run_generic_fixed_f g A lexemes rcv2 fuel true = Done (mkGRes (Some t) gerrs) /\
    length errs = 1%nat /\ length gerrs = 1%nat /\
    erase g (final_tree log k) <> t.
