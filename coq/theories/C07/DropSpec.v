(* C07 (and C05) — "a parse always returns" / "the value is that of the repaired input" need the
   recoverer to get by with a native stack that does not grow with the parse stack. *)
From Coq Require Import List Arith.
From GV Require Import Common.Outcome C07.DropModel.
Import ListNotations.

(* the recoverer's copy has exactly one node per parse-stack entry, each owned once *)
Definition start_cactus_nodes_stmt : Prop :=
  forall (A : Type) (pstack : list A),
    length (start_cactus pstack) = length pstack /\ Forall (fun n => fst n = 1) (start_cactus pstack).

(* releasing a uniquely owned chain of n nodes through Rc::drop nests n calls *)
Definition drop_recursive_depth_stmt : Prop :=
  forall (A : Type) (pstack : list A), drop_depth 0 (start_cactus pstack) = length pstack.

(* walking it with the guard never nests more than 2, whatever else still refers to the nodes *)
Definition drop_iterative_depth_stmt : Prop :=
  forall (A : Type) (adj : nat) (c : list (nat * A)),
    Forall (fun n => 1 <= fst n) c -> unwind_depth adj c <= 2.

(* while the guard lives, a search node that goes frees its private entries only: the nesting
   is bounded by what the search pushed, not by the depth of the parse *)
Definition guarded_drop_depth_stmt : Prop :=
  forall (A : Type) (priv shared : list (nat * A)),
    match shared with [] => True | (rc, _) :: _ => 2 <= rc end ->
    drop_depth 0 (priv ++ shared) <= S (length priv).

(* the repaired recoverer: a constant native stack suffices for every parse stack — the run is the
   run of the stack-less mirror *)
Definition recover_drop_depth_bounded_stmt : Prop :=
  forall (A : Type) (pstack : list A) (s : nat), 2 <= s ->
    recover_teardown true (Some s) pstack = recover_teardown true None pstack /\
    recover_teardown true None pstack = Done tt.

(* the pinned recoverer: it aborts exactly when the parse stack is deeper than the native stack has
   frames, so no native stack is large enough for all inputs (grammar `S: 'a' S 'b' | 'c';`, input
   a^s c c b^s: s+1 states at the error) *)
Definition recover_drop_depth_unbounded_refuted_stmt : Prop :=
  (forall (A : Type) (pstack : list A) (s : nat),
     recover_teardown false (Some s) pstack = Panic <-> s < length pstack) /\
  (forall s : nat, exists pstack : list nat,
     length pstack = S s /\ recover_teardown false (Some s) pstack = Panic /\
     recover_teardown false None pstack = Done tt).
