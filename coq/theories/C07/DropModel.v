(* C07 (and C05) — the native-stack need of releasing the recoverer's copy of the parse stack
   (lrpar/src/lib/cpctplus.rs CPCTPlus::recover, /repo 4f40408).  Executable definitions only.

   The Gallina mirrors of the recoverer have no native stack: a parse stack of any depth is a
   list.  The code copies `in_pstack` into a `cactus::Cactus` — one reference-counted node per
   stack entry, each node holding a handle to its parent — and `Cactus` has no iterative Drop:
   when the last handle to a node goes, `Rc::drop` frees the node and drops the parent handle
   stored in it INSIDE the same call.  The resource is made explicit the way C12 did for the
   header parser's recursion: a count of the frames in use at the deepest point.

     pinned   : the chain is released by whichever search node holds it last        drop_depth
     repaired : `let _unwind = UnwindCactus(Some(start_cactus_pstack.clone()))` is declared before
                every search node, hence dropped after all of them, and walks the chain with
                `while let Some(p) = c.parent() { c = p; }`                         unwind_depth *)
From Coq Require Import List Arith.
From GV Require Import Common.Outcome.
Import ListNotations.

Section Chain.
Variable A : Type.

(* a chain, top of the parse stack first: (strong count of the node, its value) *)
Definition chain : Type := list (nat * A).

(* let mut c = Cactus::new(); for st in in_pstack.iter() { c = c.child( *st ); } *)
Definition start_cactus (pstack : list A) : chain := map (fun st => (1, st)) (rev pstack).

(* frames of Rc::drop in use at the deepest point while ONE handle to the head of c is dropped;
   [adj] = handles to the head node beyond its recorded count.  Last handle: the node is freed and
   the handle in its parent field is dropped in a nested call; otherwise a decrement. *)
Fixpoint drop_depth (adj : nat) (c : chain) : nat :=
  match c with
  | [] => 0
  | (rc, _) :: p => if rc + adj <=? 1 then S (drop_depth 0 p) else 1
  end.

(* UnwindCactus::drop.  One iteration: `c.parent()` clones the handle in the head's parent field
   (the parent node has one handle more), the assignment drops the old `c`.  If that frees the head,
   its parent field is dropped in a nested call — a decrement, because p is a second handle — and p
   ends up as an ordinary handle; if other handles keep the head alive, p is an extra handle on
   the parent.  After the loop the last `c` is dropped. *)
Fixpoint unwind_depth (adj : nat) (c : chain) : nat :=
  match c with
  | [] => 0
  | (rc, _) :: p =>
      if rc + adj <=? 1
      then Nat.max (S (drop_depth 1 p)) (unwind_depth 0 p)
      else Nat.max 1 (unwind_depth 1 p)
  end.

(* a native stack with room for s frames of Rc::drop (None: unbounded, i.e. the Gallina mirrors) *)
Definition fits (stack : option nat) (need : nat) : bool :=
  match stack with None => true | Some s => need <=? s end.

(* the end of recover(), once the search's own nodes are gone and only the copy of the parse stack
   is left: Panic = "thread has overflowed its stack", the process aborts *)
Definition recover_teardown (fixed : bool) (stack : option nat) (pstack : list A) : outcome unit :=
  let c := start_cactus pstack in
  if fits stack (if fixed then unwind_depth 0 c else drop_depth 0 c) then Done tt else Panic.

End Chain.
Arguments start_cactus {A}.
Arguments drop_depth {A}.
Arguments unwind_depth {A}.
Arguments recover_teardown {A}.
