(* C07 (and C05) — proofs of DropSpec.v *)
From Coq Require Import List Arith Lia.
From GV Require Import Common.Outcome C07.DropModel C07.DropSpec.
Import ListNotations.

Lemma start_cactus_nodes : start_cactus_nodes_stmt.
Proof.
  intros A pstack. unfold start_cactus. split; [rewrite map_length, rev_length; reflexivity|].
  apply Forall_forall. intros n Hn. apply in_map_iff in Hn. destruct Hn as (st & <- & _). reflexivity.
Qed.

Lemma drop_depth_unique {A} : forall l : list A, drop_depth 0 (map (fun st => (1, st)) l) = length l.
Proof. induction l as [|x l IH]; cbn; [reflexivity|]. rewrite IH. reflexivity. Qed.

Lemma drop_recursive_depth : drop_recursive_depth_stmt.
Proof. intros A pstack. unfold start_cactus. rewrite drop_depth_unique, rev_length. reflexivity. Qed.

Lemma drop_depth_shared {A} (c : list (nat * A)) : Forall (fun n => 1 <= fst n) c -> drop_depth 1 c <= 1.
Proof.
  intros H. destruct c as [|(rc, a) p]; cbn; [lia|].
  inversion H as [|? ? H1 _]; subst. cbn in H1.
  destruct (rc + 1 <=? 1) eqn:E; [apply Nat.leb_le in E; lia|lia].
Qed.

Lemma drop_iterative_depth : drop_iterative_depth_stmt.
Proof.
  intros A adj c; revert adj. induction c as [|(rc, a) p IH]; intros adj H; cbn [unwind_depth]; [lia|].
  inversion H as [|? ? _ Hp]; subst.
  destruct (rc + adj <=? 1).
  - pose proof (drop_depth_shared p Hp). pose proof (IH 0 Hp). lia.
  - pose proof (IH 1 Hp). lia.
Qed.

Lemma guarded_drop_depth : guarded_drop_depth_stmt.
Proof.
  intros A priv shared Hs. induction priv as [|(rc, a) p IH]; cbn [app length].
  - destruct shared as [|(rc, a) p]; cbn; [lia|].
    destruct (rc + 0 <=? 1) eqn:E; [apply Nat.leb_le in E; lia|lia].
  - cbn [drop_depth]. destruct (rc + 0 <=? 1); lia.
Qed.

Lemma start_cactus_counts {A} (pstack : list A) : Forall (fun n => 1 <= fst n) (start_cactus pstack).
Proof.
  destruct (start_cactus_nodes A pstack) as (_ & H). eapply Forall_impl; [|exact H].
  intros n Hn. rewrite Hn. lia.
Qed.

Lemma recover_drop_depth_bounded : recover_drop_depth_bounded_stmt.
Proof.
  intros A pstack s Hs. unfold recover_teardown. cbn [fits].
  pose proof (drop_iterative_depth A 0 (start_cactus pstack) (start_cactus_counts pstack)) as H.
  replace (unwind_depth 0 (start_cactus pstack) <=? s) with true by (symmetry; apply Nat.leb_le; lia).
  split; reflexivity.
Qed.

Lemma recover_teardown_orig_panics {A} (pstack : list A) s :
  recover_teardown false (Some s) pstack = Panic <-> s < length pstack.
Proof.
  unfold recover_teardown. cbn [fits]. rewrite (drop_recursive_depth A pstack).
  destruct (length pstack <=? s) eqn:E.
  - apply Nat.leb_le in E. split; [discriminate|lia].
  - apply Nat.leb_gt in E. split; [intros _; exact E|reflexivity].
Qed.

Lemma recover_drop_depth_unbounded_refuted : recover_drop_depth_unbounded_refuted_stmt.
Proof.
  split; [intros A pstack s; apply recover_teardown_orig_panics|].
  intros s. exists (repeat 0 (S s)). rewrite repeat_length. split; [reflexivity|]. split.
  - apply recover_teardown_orig_panics. rewrite repeat_length. lia.
  - reflexivity.
Qed.

(* ---- witnesses ------------------------------------------------------------------------ *)
(* a parse stack of five states: the pinned teardown nests five calls, the guard two; with three
   frames of native stack the pinned one aborts and the repaired one does not *)
Example drop_depth_example :
  drop_depth 0 (start_cactus [0; 3; 3; 3; 4]) = 5 /\ unwind_depth 0 (start_cactus [0; 3; 3; 3; 4]) = 2 /\
  recover_teardown false (Some 3) [0; 3; 3; 3; 4] = Panic /\ recover_teardown true (Some 3) [0; 3; 3; 3; 4] = Done tt.
Proof. vm_compute. repeat split; reflexivity. Qed.

(* the bound 2 is reached (and 1 frame is not enough) as soon as the stack has two entries *)
Example drop_iterative_depth_tight : recover_teardown true (Some 1) [0; 3] = Panic.
Proof. vm_compute. reflexivity. Qed.

(* the hypotheses of guarded_drop_depth / drop_iterative_depth are met by a search node that pushed
   two states onto the guarded copy of a three-entry stack *)
Example guarded_drop_example :
  drop_depth 0 ([(1, 7); (1, 6)] ++ [(2, 4); (1, 3); (1, 0)]) = 3 /\
  Forall (fun n => 1 <= fst n) [(2, 4); (1, 3); (1, 0)].
Proof. split; [vm_compute; reflexivity|repeat constructor]. Qed.
