(* The termination statement with [validS] alone is false: the implementation's
   own table (conflicts resolved in favour of shift / the earlier production)
   for

       %start S
       S: 'c' 'c' A | B;   A: | B 'b';   B: 'a' 'a' 'd' | A A;

   passes validS (and validE), the grammar is acyclic, and on the input  b  the
   loop reduces  A -> (empty)  for ever in state 6 (goto(6, A) = 6).
   Dumped by harness/src/bin/lr.rs from /repo (tokens: 'c'=0 'b'=1 'a'=2 'd'=3,
   end of input = 4; rules: ^=0 S=1 A=2 B=3). *)
From Coq Require Import List Arith NArith Bool Lia.
From GV Require Import Base.Grammar Base.Analyses LR.Automaton LR.Validator LR.Spec
  LR.TermSpec.
Import ListNotations.
Open Scope N_scope.

Definition spin_grammar : grammar :=
  mkGrammar 5 4 [(1, [T 0; T 0; R 2]); (1, [R 3]); (2, []); (2, [R 3; T 1]); (3, [T 2; T 2; T 3]); (3, [R 2; R 2]); (0, [R 1])] 6 4.

Definition spin_dump : dump :=
  mkDump 13 0
    [(0, [(0, 0%nat, [4]); (1, 0%nat, [4]); (2, 0%nat, [1; 2; 4]); (3, 0%nat, [1; 2; 4]); (4, 0%nat, [1; 4]); (5, 0%nat, [1; 4]); (6, 0%nat, [4])]); (1, [(2, 0%nat, [1; 2; 4]); (3, 0%nat, [1; 2; 4]); (4, 0%nat, [1]); (5, 0%nat, [1]); (5, 1%nat, [1; 4])]); (2, [(4, 1%nat, [1; 4])]); (3, [(6, 1%nat, [4])]); (4, [(1, 1%nat, [4]); (3, 1%nat, [1; 2; 4])]); (5, [(0, 1%nat, [4])]); (6, [(2, 0%nat, [1; 2]); (3, 0%nat, [1; 2]); (4, 0%nat, [1]); (5, 0%nat, [1]); (5, 1%nat, [1]); (5, 2%nat, [1; 4])]); (7, [(3, 1%nat, [1; 2; 4])]); (8, [(4, 2%nat, [1; 4])]); (9, [(3, 2%nat, [1; 2; 4])]); (10, [(0, 2%nat, [4]); (2, 0%nat, [1; 2; 4]); (3, 0%nat, [1; 2; 4]); (4, 0%nat, [1]); (5, 0%nat, [1])]); (11, [(4, 3%nat, [1; 4])]); (12, [(0, 3%nat, [4]); (2, 0%nat, [1; 2]); (3, 0%nat, [1; 2]); (4, 0%nat, [1]); (5, 0%nat, [1]); (5, 1%nat, [1])])]
    [(0, [(6, 0%nat, [4])]); (1, [(5, 1%nat, [1; 4])]); (2, [(4, 1%nat, [1; 4])]); (3, [(6, 1%nat, [4])]); (4, [(1, 1%nat, [4]); (3, 1%nat, [1; 2; 4])]); (5, [(0, 1%nat, [4])]); (6, [(5, 1%nat, [1]); (5, 2%nat, [1; 4])]); (7, [(3, 1%nat, [1; 2; 4])]); (8, [(4, 2%nat, [1; 4])]); (9, [(3, 2%nat, [1; 2; 4])]); (10, [(0, 2%nat, [4])]); (11, [(4, 3%nat, [1; 4])]); (12, [(0, 3%nat, [4]); (5, 1%nat, [1])])]
    [(0, [(T 0, 5); (R 1, 3); (T 2, 2); (R 2, 1); (R 3, 4)]); (1, [(T 2, 2); (R 2, 6); (R 3, 7)]); (2, [(T 2, 8)]); (3, []); (4, [(T 1, 9)]); (5, [(T 0, 10)]); (6, [(T 2, 2); (R 2, 6); (R 3, 7)]); (7, [(T 1, 9)]); (8, [(T 3, 11)]); (9, []); (10, [(T 2, 2); (R 2, 12); (R 3, 7)]); (11, []); (12, [(T 2, 2); (R 2, 6); (R 3, 7)])]
    [(0, [(0, Shift 5); (1, Reduce 2); (2, Shift 2); (4, Reduce 2)]); (1, [(1, Reduce 2); (2, Shift 2); (4, Reduce 2)]); (2, [(2, Shift 8)]); (3, [(4, Accept)]); (4, [(1, Shift 9); (4, Reduce 1)]); (5, [(0, Shift 10)]); (6, [(1, Reduce 2); (2, Shift 2); (4, Reduce 5)]); (7, [(1, Shift 9)]); (8, [(3, Shift 11)]); (9, [(1, Reduce 3); (2, Reduce 3); (4, Reduce 3)]); (10, [(1, Reduce 2); (2, Shift 2); (4, Reduce 2)]); (11, [(1, Reduce 4); (4, Reduce 4)]); (12, [(1, Reduce 2); (2, Shift 2); (4, Reduce 0)])]
    [(0, [(1, 3); (2, 1); (3, 4)]); (1, [(2, 6); (3, 7)]); (2, []); (3, []); (4, []); (5, []); (6, [(2, 6); (3, 7)]); (7, []); (8, []); (9, []); (10, [(2, 12); (3, 7)]); (11, []); (12, [(2, 6); (3, 7)])].

Definition spin_automaton : automaton := of_dump spin_dump.

Example spin_wf : wf_grammar spin_grammar = true.
Proof. vm_compute. reflexivity. Qed.

Example spin_validS : validS spin_grammar spin_automaton = true.
Proof. vm_compute. reflexivity. Qed.

Example spin_validE : validE spin_grammar spin_automaton = true.
Proof. vm_compute. reflexivity. Qed.

(* the table has resolved conflicts: it fails the completeness validator *)
Example spin_not_validC : validC spin_grammar spin_automaton = false.
Proof. vm_compute. reflexivity. Qed.

Example spin_acyclic_b : acyclic_b spin_grammar = true.
Proof. vm_compute. reflexivity. Qed.

(* ... and the grammar has hidden left recursion (B -> A . A with A nullable,
   A -> . B 'b'), which is what the termination theorem excludes *)
Example spin_hlr : hlr_free_b spin_grammar = false.
Proof. vm_compute. reflexivity. Qed.

Close Scope N_scope.

Lemma spin_step : forall stk, top spin_automaton stk = 6%N ->
  step spin_grammar spin_automaton [1%N] (stk, 0%nat) = inl ((6%N, Node 2%N []) :: stk, 0%nat).
Proof.
  intros stk Htop. unfold step.
  pose proof Htop as Htop'. revert Htop'.
  generalize (top spin_automaton stk) as s. intros s ->.
  change (la spin_grammar [1%N] 0) with 1%N.
  change (action spin_automaton 6%N 1%N) with (Reduce 2%N).
  cbv iota beta.
  change (rhs spin_grammar 2%N) with (@nil sym).
  change (lhs spin_grammar 2%N) with 2%N.
  cbn [length skipn firstn map rev].
  revert Htop. generalize (top spin_automaton stk) as s. intros s ->.
  change (goto spin_automaton 6%N 2%N) with (Some 6%N).
  replace (length stk <? 0)%nat with false by (symmetry; apply Nat.ltb_ge; lia).
  reflexivity.
Qed.

Lemma spin_loop : forall fuel stk, top spin_automaton stk = 6%N ->
  run_from spin_grammar spin_automaton [1%N] fuel (stk, 0%nat) = ROutOfFuel.
Proof.
  induction fuel as [|fuel IH]; intros stk Htop; [reflexivity|].
  cbn [run_from]. rewrite (spin_step stk Htop). apply IH. reflexivity.
Qed.

Lemma spin_runs_forever : forall fuel,
  run spin_grammar spin_automaton fuel [1%N] = ROutOfFuel.
Proof.
  intros [|[|fuel]]; [reflexivity | reflexivity |].
  unfold run. cbn [run_from].
  change (step spin_grammar spin_automaton [1%N] ([], 0%nat))
    with (@inl (stack * nat) result ([(1%N, Node 2%N [])], 0%nat)).
  change (step spin_grammar spin_automaton [1%N] ([(1%N, Node 2%N [])], 0%nat))
    with (@inl (stack * nat) result ([(6%N, Node 2%N []); (1%N, Node 2%N [])], 0%nat)).
  apply spin_loop. reflexivity.
Qed.
