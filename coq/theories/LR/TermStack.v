(* The height of the parse stack is bounded by the number of lexemes under it:
   for an automaton passing [validS] and [validE] and a grammar with a
   left-corner potential ([TermGraph.hl_pot], what [hlr_free_b] certifies),

       length stk <= (leaves under stk + 1) * M * (Rk + 1).

   Every item of the state on top of the stack is explained by a *spine*: the
   nest of productions opened one inside the other from the start production,
   each contributing the symbols before its dot to the stack (items with the dot
   after a symbol are traced back along the edge, [vS2]; items with the dot at 0
   are in the LR(0) closure of the kernel, [vE1]).  Going down a spine the
   potential of the open production's rule never increases over a segment of
   trees without leaves and strictly decreases when that segment is non-empty. *)
From Coq Require Import List Arith NArith Bool Lia.
From GV Require Import Base.Grammar Base.GrammarFacts Base.Analyses
  LR.Automaton LR.Validator LR.Spec LR.Sound LR.Complete LR.TermSpec LR.TermGraph LR.TermTrees.
From GV Require LR.Prefix.
Import ListNotations.

(* ---- spines --------------------------------------------------------------------- *)

Inductive spine (g : grammar) : stack -> N -> nat -> Prop :=
| sp_start : spine g [] (start_prod g) 0
| sp_close stk p d q : spine g stk p d ->
    nth_error (rhs g p) d = Some (R (lhs g q)) -> is_prod g q -> spine g stk q 0
| sp_adv stk p d s t : spine g stk p d ->
    nth_error (rhs g p) d = Some (root g t) -> spine g ((s, t) :: stk) p (S d).

Lemma spine_clos g stk K :
  (forall i, In i K -> spine g stk (fst i) (snd i)) ->
  forall i, Prefix.clos g K i -> spine g stk (fst i) (snd i).
Proof.
  intros HK i Hc. induction Hc as [i Hi | p d r q Hc IH Hn Hq Hl].
  - apply HK. exact Hi.
  - simpl in *. subst r. eapply sp_close; eassumption.
Qed.

Section Spine.
Variable g : grammar.
Variable A : automaton.
Hypothesis Hwf : wf_grammar g = true.
Hypothesis HS : validS g A = true.
Hypothesis HE : validE g A = true.

Let HE1 : vE1 g A = true := proj1 (Prefix.validE_parts g A HE).
Let HE2 : vE2 A = true := proj2 (Prefix.validE_parts g A HE).
Let HS0 : vS0 A = true := proj1 (validS_parts g A HS).
Let HS1 : vS1 g A = true := proj1 (proj2 (validS_parts g A HS)).
Let HS2 : vS2 g A = true := proj1 (proj2 (proj2 (validS_parts g A HS))).

(* every item of the top state has a spine *)
Lemma items_spine : forall stk, chain g A stk ->
  forall i, In i (closed A (top A stk)) -> spine g stk (it_p i) (it_d i).
Proof.
  induction stk as [|[s t] rest IH]; intros Hc i Hi.
  - cbn [top] in Hi.
    pose proof (Prefix.vS0_spec A i HS0 Hi) as Hd. rewrite Hd.
    pose proof (Prefix.vE1_spec g A _ i HE1 (validS_S5_start g A HS) Hi Hd) as Hcl.
    apply (spine_clos g [] (kernel_of g A (start A))) in Hcl; [exact Hcl|].
    intros j Hj. unfold kernel_of in Hj. rewrite N.eqb_refl in Hj. simpl in Hj.
    destruct Hj as [Hj|Hj].
    + subst j. simpl. constructor.
    + apply in_map_iff in Hj. destruct Hj as (i' & _ & Hi').
      apply filter_In in Hi'. destruct Hi' as [Hi' Hd'].
      rewrite (Prefix.vS0_spec A i' HS0 Hi') in Hd'. discriminate Hd'.
  - cbn [chain] in Hc. destruct Hc as (He & HX & Hs & Hv & Hc). cbn [top] in Hi.
    specialize (IH Hc).
    pose proof (chain_top_in_range g A HS rest Hc) as Hrange.
    assert (Hx : sym_in_range g (root g t) = true) by (apply sym_in_range_all_syms; exact HX).
    destruct (Prefix.vS1_spec g A _ _ _ HS1 Hrange Hx He) as [Hns Hsr].
    assert (Hpos : forall j d, In j (closed A s) -> it_d j = S d ->
              spine g ((s, t) :: rest) (it_p j) (it_d j)).
    { intros j d Hj Hd.
      destruct (Prefix.vS2_spec g A _ _ _ j d HS2 Hrange Hx He Hj Hd) as [Hn Hh].
      apply Prefix.has_item_In in Hh. destruct Hh as (j' & Hj' & Hp' & Hd').
      specialize (IH j' Hj'). rewrite Hp', Hd' in IH. rewrite Hd.
      apply sp_adv; assumption. }
    destruct (it_d i) as [|d] eqn:Hd.
    + pose proof (Prefix.vE1_spec g A s i HE1 Hsr Hi Hd) as Hcl.
      apply (spine_clos g ((s, t) :: rest) (kernel_of g A s)) in Hcl; [exact Hcl|].
      intros j Hj. unfold kernel_of in Hj.
      apply N.eqb_neq in Hns. rewrite Hns in Hj. simpl in Hj.
      apply in_map_iff in Hj. destruct Hj as (j' & Hjj & Hj').
      apply filter_In in Hj'. destruct Hj' as [Hj' Hd'].
      subst j. simpl. destruct (it_d j') as [|d'] eqn:Hdj; [discriminate Hd'|].
      rewrite <- Hdj. eapply Hpos; eassumption.
    + rewrite <- Hd. eapply Hpos; eassumption.
Qed.

(* a non-empty stack has an item in its top state, hence a spine *)
Lemma stack_spine stk : chain g A stk -> stk <> [] -> exists p d, spine g stk p d.
Proof.
  intros Hc Hne.
  pose proof (chain_top_in_range g A HS stk Hc) as Hrange.
  assert (Hns : top A stk <> start A).
  { destruct stk as [|[s t] rest]; [contradiction|]. cbn [chain top] in *.
    destruct Hc as (He & HX & Hs & Hv & Hc).
    exact (proj1 (validS_S1 g A HS _ _ _ (chain_top_in_range g A HS rest Hc) HX He)). }
  destruct (Prefix.vE2_spec A _ HE2 Hrange Hns) as (i & Hi & _).
  exists (it_p i), (it_d i). apply items_spine; assumption.
Qed.

End Spine.

(* ---- counting along a spine ------------------------------------------------------- *)

Definition lv (stk : stack) : nat := length (flat_map leaves (map snd stk)).

Lemma lv_app a b : lv (a ++ b) = lv a + lv b.
Proof. unfold lv. rewrite map_app, flat_map_app, app_length. reflexivity. Qed.

Lemma flat_map_nil_rev {X Y} (f : X -> list Y) l : flat_map f l = [] -> flat_map f (rev l) = [].
Proof.
  intros H. pose proof (flat_map_nil_all f l H) as Hall.
  assert (Hr : forall x, In x (rev l) -> f x = []) by (intros x Hx; apply Hall, in_rev, Hx).
  clear H Hall. induction (rev l) as [|y r IH]; [reflexivity|].
  simpl. rewrite (Hr y (or_introl eq_refl)). apply IH. intros x Hx. apply Hr. right. exact Hx.
Qed.

Section Count.
Variable g : grammar.
Variable nl : list N.
Variable rho : N -> nat.
Variable P : N -> Prop.
Hypothesis Hwf : wf_grammar g = true.
Hypothesis Hcl : nullable_closed g nl = true.
Let Rk := N.to_nat (nrules g).
Let M := maxrhs g.
Hypothesis Hpot : hl_pot_on P g nl rho Rk.
(* P holds of the start rule and is closed under "occurs in a production of" *)
Hypothesis HPstart : P (start_rule g).
Hypothesis HPstep : forall p b, is_prod g p -> P (lhs g p) -> In (R b) (rhs g p) -> P b.

Definition spine_inv (stk : stack) (p : N) (d : nat) : Prop :=
  is_prod g p /\ P (lhs g p) /\ d <= length stk /\
  map (root g) (rev (map snd (firstn d stk))) = firstn d (rhs g p) /\
  length (skipn d stk) + M * rho (lhs g p) <= lv (skipn d stk) * (M * (Rk + 1)) + M * Rk.

Lemma spine_count stk p d : Forall (valid_tree g) (map snd stk) ->
  spine g stk p d -> spine_inv stk p d.
Proof.
  intros Hv Hsp. induction Hsp as [| stk p d q Hsp IH Hn Hq | stk p d s t Hsp IH Hn].
  - (* the start production *)
    unfold spine_inv. simpl.
    pose proof (wf_start_is_prod g Hwf) as Hp.
    split; [exact Hp|]. split; [exact HPstart|]. split; [lia|]. split; [reflexivity|].
    pose proof (proj2 Hpot (lhs g (start_prod g)) (wf_lhs_range g _ Hwf Hp)) as Hlt.
    assert (M * rho (lhs g (start_prod g)) <= M * Rk) by (apply Nat.mul_le_mono_l; lia). lia.
  - (* a production opened at the dot of p *)
    destruct (IH Hv) as (Hp & HP & Hd & Hroots & Hbound).
    unfold spine_inv. cbn [skipn firstn map rev].
    split; [exact Hq|].
    split; [exact (HPstep p (lhs g q) Hp HP (nth_error_In _ _ Hn))|].
    split; [lia|]. split; [reflexivity|].
    pose proof (proj2 Hpot (lhs g q) (wf_lhs_range g _ Hwf Hq)) as Hq_lt.
    assert (HdM : d <= M).
    { pose proof (maxrhs_spec g p Hp). pose proof (Prefix.nth_error_lt _ _ _ Hn). lia. }
    rewrite <- (firstn_skipn d stk) at 1 2.
    rewrite app_length, lv_app, firstn_length_le by exact Hd.
    destruct (lv (firstn d stk)) as [|k] eqn:Hlv.
    + (* the segment has no leaf: a left-corner step through a nullable prefix *)
      assert (Hnull : nullable_seq nl (firstn d (rhs g p)) = true).
      { rewrite <- Hroots. apply (forest_nullable g nl Hcl).
        - apply Forall_rev. rewrite <- (firstn_skipn d stk), map_app in Hv.
          apply Forall_app in Hv. exact (proj1 Hv).
        - apply leaves_nil_yield_nil. apply flat_map_nil_rev.
          unfold lv in Hlv. apply length_zero_iff_nil. exact Hlv. }
      pose proof (proj1 Hpot p _ _ _ Hp HP (Prefix.nth_error_split_at _ _ _ Hn) Hnull) as Hstep.
      destruct d as [|d'].
      * cbn [firstn is_nil] in Hstep.
        assert (M * rho (lhs g q) <= M * rho (lhs g p)) by (apply Nat.mul_le_mono_l; lia). lia.
      * assert (Hne : is_nil (firstn (S d') (rhs g p)) = false).
        { destruct (rhs g p); [destruct d'; discriminate Hn | reflexivity]. }
        rewrite Hne in Hstep.
        assert (M * (rho (lhs g q) + 1) <= M * rho (lhs g p)) by (apply Nat.mul_le_mono_l; lia).
        lia.
    + (* the segment has a leaf *)
      assert (M * rho (lhs g q) <= M * Rk) by (apply Nat.mul_le_mono_l; lia).
      rewrite Nat.mul_add_distr_r. cbn [Nat.mul]. lia.
  - (* a symbol of p pushed *)
    assert (Hv' : Forall (valid_tree g) (map snd stk)) by (inversion Hv; assumption).
    destruct (IH Hv') as (Hp & HP & Hd & Hroots & Hbound).
    unfold spine_inv. cbn [skipn firstn map rev length snd].
    split; [exact Hp|]. split; [exact HP|]. split; [lia|]. split; [|exact Hbound].
    rewrite map_app, Hroots. cbn [map]. symmetry. apply Prefix.firstn_S_nth_error. exact Hn.
Qed.

Lemma spine_height stk p d : Forall (valid_tree g) (map snd stk) ->
  spine g stk p d -> length stk <= (lv stk + 1) * M * (Rk + 1).
Proof.
  intros Hv Hsp. destruct (spine_count stk p d Hv Hsp) as (Hp & _ & Hd & Hroots & Hbound).
  assert (HdM : d <= M).
  { pose proof (maxrhs_spec g p Hp).
    assert (length (firstn d (rhs g p)) = d).
    { rewrite <- Hroots, map_length, rev_length, map_length. apply firstn_length_le. exact Hd. }
    rewrite firstn_length in *. lia. }
  assert (Hlen : length stk = d + length (skipn d stk)).
  { rewrite <- (firstn_skipn d stk) at 1. rewrite app_length, firstn_length_le by exact Hd. reflexivity. }
  assert (Hlv : lv (skipn d stk) <= lv stk).
  { rewrite <- (firstn_skipn d stk) at 2. rewrite lv_app. lia. }
  assert (lv (skipn d stk) * (M * (Rk + 1)) <= lv stk * (M * (Rk + 1)))
    by (apply Nat.mul_le_mono_r; exact Hlv).
  rewrite <- Nat.mul_assoc, Nat.mul_add_distr_r, Nat.mul_1_l.
  rewrite (Nat.mul_add_distr_l M Rk 1) at 2. lia.
Qed.

End Count.
