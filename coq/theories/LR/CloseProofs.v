(* Proofs about the mirror of Itemset::close / Itemset::goto (CloseMirror.v):
   soundness and completeness w.r.t. the declarative LR(1) closure, termination
   within [close_fuel], absence of panics, independence of the key order, the
   goto specification, and the relation to the textbook single-lookahead
   closure (CloseSpec.v).

   Structure: a work-list invariant [Inv keys zt s] (every item of s is pending
   — among the remaining keys, or flagged in zero_todos — or "satisfied": all
   productions of the rule after its dot are present with FIRST(tail) and, if
   the tail is nullable, the item's context).  One call of [process] preserves
   it ([inv_step]); when the loop ends nothing is pending, so the result is
   closed ([loop_spec]).  Termination: each re-queue strictly grows the number
   of (dot-0 item, token) pairs [mu], which is bounded by prods_len * (1 +
   tokens_len). *)
From Coq Require Import List Arith NArith Bool Lia.
From GV Require Import Common.Outcome Base.Grammar Base.Analyses Base.GrammarFacts
  Base.AnalysesProofs LR.Automaton LR.CloseMirror LR.CloseSpec.
Import ListNotations.

(* ---- lists ------------------------------------------------------------------------ *)

Lemma NoDup_snoc {A} (l : list A) (x : A) : NoDup l -> ~ In x l -> NoDup (l ++ [x]).
Proof.
  induction l as [|y l IH]; intros Hnd Hx; simpl.
  - constructor; [intros [] | constructor].
  - inversion Hnd as [|? ? Hy Hl]; subst. constructor.
    + intros Hin. apply in_app_or in Hin. destruct Hin as [Hin | [Hin | []]].
      * exact (Hy Hin).
      * apply Hx. left. symmetry. exact Hin.
    + apply IH; [exact Hl|]. intros Hin. apply Hx. right. exact Hin.
Qed.

Lemma In_skipn {A} (x : A) n l : In x (skipn n l) -> In x l.
Proof.
  intros H. rewrite <- (firstn_skipn n l). apply in_or_app. right. exact H.
Qed.

Lemma filter_length_le {A} (f : A -> bool) l : length (filter f l) <= length l.
Proof. induction l as [|x l IH]; simpl; [lia|]. destruct (f x); simpl; lia. Qed.

Lemma filter_length_mono {A} (f f' : A -> bool) l :
  (forall x, In x l -> f x = true -> f' x = true) -> length (filter f l) <= length (filter f' l).
Proof.
  induction l as [|x l IH]; intros H; simpl; [lia|].
  assert (IH' : length (filter f l) <= length (filter f' l)).
  { apply IH. intros y Hy. apply H. right. exact Hy. }
  destruct (f x) eqn:Hf.
  - rewrite (H x (or_introl eq_refl) Hf). simpl. lia.
  - destruct (f' x); simpl; lia.
Qed.

Lemma filter_length_strict {A} (f f' : A -> bool) l t :
  (forall x, In x l -> f x = true -> f' x = true) -> In t l -> f t = false -> f' t = true ->
  length (filter f l) < length (filter f' l).
Proof.
  induction l as [|x l IH]; intros H Ht Hf Hf'; [destruct Ht|].
  assert (Hm : length (filter f l) <= length (filter f' l)).
  { apply filter_length_mono. intros y Hy. apply H. right. exact Hy. }
  simpl. destruct Ht as [Ht | Ht].
  - subst x. rewrite Hf, Hf'. simpl. lia.
  - assert (IH' : length (filter f l) < length (filter f' l)).
    { apply IH; try assumption. intros y Hy. apply H. right. exact Hy. }
    destruct (f x) eqn:Hfx.
    + rewrite (H x (or_introl eq_refl) Hfx). simpl. lia.
    + destruct (f' x); simpl; lia.
Qed.

Fixpoint sumf (f : N -> nat) (l : list N) : nat :=
  match l with [] => 0 | x :: l' => f x + sumf f l' end.

Lemma sumf_le f f' l : (forall x, In x l -> f x <= f' x) -> sumf f l <= sumf f' l.
Proof.
  induction l as [|x l IH]; intros H; simpl; [lia|].
  pose proof (H x (or_introl eq_refl)). pose proof (IH (fun y Hy => H y (or_intror Hy))). lia.
Qed.

Lemma sumf_lt f f' l q : (forall x, In x l -> f x <= f' x) -> In q l -> f q < f' q ->
  sumf f l < sumf f' l.
Proof.
  induction l as [|x l IH]; intros H Hq Hlt; [destruct Hq|]. simpl.
  pose proof (H x (or_introl eq_refl)) as Hx.
  pose proof (sumf_le f f' l (fun y Hy => H y (or_intror Hy))) as Hl.
  destruct Hq as [Hq | Hq].
  - subst x. lia.
  - pose proof (IH (fun y Hy => H y (or_intror Hy)) Hq Hlt). lia.
Qed.

Lemma sumf_bound f l b : (forall x, In x l -> f x <= b) -> sumf f l <= length l * b.
Proof.
  induction l as [|x l IH]; intros H; simpl; [lia|].
  pose proof (H x (or_introl eq_refl)). pose proof (IH (fun y Hy => H y (or_intror Hy))). lia.
Qed.

Lemma length_pidxs g : length (pidxs g) = length (prods g).
Proof. unfold pidxs. rewrite map_length, seq_length. reflexivity. Qed.

Lemma unionN_incl_id a b : incl a b -> unionN a b = b.
Proof. exact (gunion_incl_id N.eqb N.eqb_eq a b). Qed.

Lemma subsetN_false a b : subsetN a b = false -> exists t, In t a /\ memN t b = false.
Proof.
  unfold subsetN. induction a as [|x a IH]; simpl; intros H; [discriminate H|].
  destruct (memN x b) eqn:Hx.
  - simpl in H. destruct (IH H) as (t & Ht & Hm). exists t. split; [right; exact Ht | exact Hm].
  - exists x. split; [left; reflexivity | exact Hx].
Qed.

(* ---- bits ---------------------------------------------------------------------------- *)

Fixpoint nbits (l : list bool) : nat :=
  match l with [] => 0 | b :: l' => (if b then 1 else 0) + nbits l' end.

Lemma first_set_Some l : forall i, first_set l = Some i -> nth i l false = true.
Proof.
  induction l as [|b l IH]; intros i H; simpl in H; [discriminate H|].
  destruct b.
  - injection H as H. subst i. reflexivity.
  - destruct (first_set l) as [j|]; simpl in H; [|discriminate H].
    injection H as H. subst i. simpl. apply IH. reflexivity.
Qed.

Lemma first_set_None l : first_set l = None -> forall i, nth i l false = false.
Proof.
  induction l as [|b l IH]; intros H i; [destruct i; reflexivity|].
  simpl in H. destruct b; [discriminate H|].
  destruct (first_set l); simpl in H; [discriminate H|].
  destruct i; [reflexivity|]. simpl. apply IH. reflexivity.
Qed.

Lemma length_set_bit v l : forall i, length (set_bit i v l) = length l.
Proof.
  induction l as [|b l IH]; intros i; [destruct i; reflexivity|].
  destruct i; simpl; [reflexivity|]. rewrite IH. reflexivity.
Qed.

Lemma nth_set_bit_eq v l : forall i, i < length l -> nth i (set_bit i v l) false = v.
Proof.
  induction l as [|b l IH]; intros i Hi; simpl in Hi; [lia|].
  destruct i; simpl; [reflexivity|]. apply IH. lia.
Qed.

Lemma nth_set_bit_neq v l : forall i j, i <> j -> nth j (set_bit i v l) false = nth j l false.
Proof.
  induction l as [|b l IH]; intros i j Hij; [destruct i; reflexivity|].
  destruct i, j; simpl; try reflexivity; [lia|]. apply IH. lia.
Qed.

Lemma nth_set_true_mono l : forall i j, nth j l false = true -> nth j (set_bit i true l) false = true.
Proof.
  induction l as [|b l IH]; intros i j H; [destruct j; discriminate H|].
  destruct i, j; simpl in *; try reflexivity; try exact H. apply IH. exact H.
Qed.

Lemma nth_set_false_anti l : forall i j, nth j (set_bit i false l) false = true -> nth j l false = true.
Proof.
  induction l as [|b l IH]; intros i j H; [destruct i, j; discriminate H|].
  destruct i, j; simpl in *; try discriminate H; try exact H. eapply IH. exact H.
Qed.

Lemma nbits_set_true l : forall i, nbits (set_bit i true l) <= S (nbits l).
Proof.
  induction l as [|b l IH]; intros i; [destruct i; simpl; lia|].
  destruct i; simpl; [destruct b; lia|]. specialize (IH i). destruct b; lia.
Qed.

Lemma nbits_set_false l : forall i, nth i l false = true -> S (nbits (set_bit i false l)) = nbits l.
Proof.
  induction l as [|b l IH]; intros i H; [destruct i; discriminate H|].
  destruct i; simpl in *.
  - subst b. reflexivity.
  - specialize (IH i H). destruct b; lia.
Qed.

Lemma nth_repeat_false n : forall i, nth i (repeat false n) false = false.
Proof. induction n as [|n IH]; intros i; destruct i; simpl; try reflexivity. apply IH. Qed.

Lemma nbits_repeat_false n : nbits (repeat false n) = 0.
Proof. induction n as [|n IH]; simpl; [reflexivity | exact IH]. Qed.

(* ---- lookup / add --------------------------------------------------------------------- *)

Definition keq (p : N) (d : nat) (p' : N) (d' : nat) : bool := N.eqb p p' && Nat.eqb d d'.

Lemma keq_true p d p' d' : keq p d p' d' = true <-> p = p' /\ d = d'.
Proof. unfold keq. rewrite andb_true_iff, N.eqb_eq, Nat.eqb_eq. reflexivity. Qed.

Lemma keq_refl p d : keq p d p d = true.
Proof. apply keq_true. split; reflexivity. Qed.

Lemma keq_false p d p' d' : keq p d p' d' = false <-> (p, d) <> (p', d').
Proof.
  split.
  - intros H He. injection He as H1 H2. subst. rewrite keq_refl in H. discriminate H.
  - intros H. destruct (keq p d p' d') eqn:E; [|reflexivity].
    apply keq_true in E. destruct E; subst. exfalso. apply H. reflexivity.
Qed.

Lemma key_eqb_keq p d p' d' la : key_eqb p' d' (p, d, la) = keq p d p' d'.
Proof. reflexivity. Qed.

Lemma lookup_cons p d i s :
  lookup p d (i :: s) = if keq (it_p i) (it_d i) p d then Some (it_la i) else lookup p d s.
Proof. reflexivity. Qed.

Lemma lookup_In p d s la : lookup p d s = Some la -> In (p, d, la) s.
Proof.
  induction s as [|[[p' d'] la'] s IH]; intros H; [discriminate H|].
  rewrite lookup_cons in H. unfold it_p, it_d, it_la in H. simpl in H.
  destruct (keq p' d' p d) eqn:E.
  - apply keq_true in E. destruct E. subst. injection H as H. subst. left. reflexivity.
  - right. apply IH. exact H.
Qed.

Lemma lookup_None_iff p d s : lookup p d s = None <-> ~ In (p, d) (keys_of s).
Proof.
  induction s as [|[[p' d'] la'] s IH]; simpl.
  - split; [intros _ [] | reflexivity].
  - rewrite key_eqb_keq. destruct (keq p' d' p d) eqn:E.
    + apply keq_true in E. destruct E. subst. split; [intros H; discriminate H|].
      intros H. exfalso. apply H. left. reflexivity.
    + apply keq_false in E. rewrite IH. split.
      * intros H [Hk | Hk]; [apply E; exact Hk | exact (H Hk)].
      * intros H Hk. apply H. right. exact Hk.
Qed.

Lemma In_lookup p d s la : NoDup (keys_of s) -> In (p, d, la) s -> lookup p d s = Some la.
Proof.
  induction s as [|[[p' d'] la'] s IH]; intros Hnd Hin; [destruct Hin|].
  simpl in Hnd. inversion Hnd as [|? ? Hk Hnd']; subst.
  simpl. rewrite key_eqb_keq. destruct Hin as [Hin | Hin].
  - injection Hin as ? ? ?. subst. rewrite keq_refl. reflexivity.
  - destruct (keq p' d' p d) eqn:E.
    + apply keq_true in E. destruct E. subst. exfalso. apply Hk.
      change (p, d) with (fst (p, d, la)). apply in_map. exact Hin.
    + apply IH; assumption.
Qed.

Definition new_ctx_of (c : list N) (o : option (list N)) : list N :=
  match o with Some la => unionN c la | None => c end.

Lemma add_cons p d c i s :
  add p d c (i :: s) =
  if keq (it_p i) (it_d i) p d
  then (((p, d, unionN c (it_la i)) : item) :: s, negb (subsetN c (it_la i)))
  else (i :: fst (add p d c s), snd (add p d c s)).
Proof.
  simpl. unfold key_eqb, keq. destruct (N.eqb (it_p i) p && Nat.eqb (it_d i) d); [reflexivity|].
  destruct (add p d c s). reflexivity.
Qed.

Lemma add_lookup p d c s p' d' :
  lookup p' d' (fst (add p d c s)) =
  if keq p d p' d' then Some (new_ctx_of c (lookup p d s)) else lookup p' d' s.
Proof.
  induction s as [|i s IH].
  - simpl. rewrite key_eqb_keq. reflexivity.
  - rewrite add_cons, (lookup_cons p d i s). destruct (keq (it_p i) (it_d i) p d) eqn:E.
    + cbn [fst]. rewrite (lookup_cons p' d' ((p, d, unionN c (it_la i)) : item) s).
      cbn [it_p it_d it_la fst snd new_ctx_of].
      destruct (keq p d p' d') eqn:E'; [reflexivity|].
      rewrite lookup_cons. apply keq_true in E. destruct E as [E1 E2]. rewrite E1, E2, E'. reflexivity.
    + cbn [fst]. rewrite !lookup_cons, IH.
      destruct (keq (it_p i) (it_d i) p' d') eqn:E2; [|reflexivity].
      destruct (keq p d p' d') eqn:E3; [|reflexivity].
      apply keq_true in E2. apply keq_true in E3. destruct E2, E3. subst p' d'.
      assert (Hk : keq (it_p i) (it_d i) p d = true) by (apply keq_true; split; assumption).
      rewrite Hk in E. discriminate E.
Qed.

Lemma add_changed p d c s :
  snd (add p d c s) = match lookup p d s with Some la => negb (subsetN c la) | None => true end.
Proof.
  induction s as [|i s IH]; [reflexivity|].
  rewrite add_cons, lookup_cons. destruct (keq (it_p i) (it_d i) p d); [reflexivity | exact IH].
Qed.

Lemma add_same p d c s : snd (add p d c s) = false -> fst (add p d c s) = s.
Proof.
  induction s as [|i s IH]; [intros H; discriminate H|].
  rewrite add_cons. destruct (keq (it_p i) (it_d i) p d) eqn:E; simpl.
  - intros H. apply negb_false_iff in H. apply subsetN_incl in H.
    rewrite (unionN_incl_id _ _ H). apply keq_true in E. destruct E as [E1 E2].
    destruct i as [[pi di] li]. unfold it_p, it_d, it_la in *. simpl in *. subst. reflexivity.
  - intros H. rewrite (IH H). reflexivity.
Qed.

Lemma add_keys p d c s :
  keys_of (fst (add p d c s)) =
  match lookup p d s with Some _ => keys_of s | None => keys_of s ++ [(p, d)] end.
Proof.
  induction s as [|i s IH]; [reflexivity|].
  rewrite add_cons, lookup_cons. destruct (keq (it_p i) (it_d i) p d) eqn:E; simpl.
  - apply keq_true in E. destruct E as [E1 E2]. destruct i as [[pi di] li].
    unfold it_p, it_d in *. simpl in *. subst. reflexivity.
  - rewrite IH. destruct (lookup p d s); reflexivity.
Qed.

Lemma add_nodup p d c s : NoDup (keys_of s) -> NoDup (keys_of (fst (add p d c s))).
Proof.
  intros H. rewrite add_keys. destruct (lookup p d s) eqn:E; [exact H|].
  apply NoDup_snoc; [exact H|]. apply lookup_None_iff. exact E.
Qed.

Lemma In_new_ctx_of a c o :
  In a (new_ctx_of c o) <-> In a c \/ exists la, o = Some la /\ In a la.
Proof.
  destruct o as [la|]; simpl.
  - rewrite In_unionN. split.
    + intros [H | H]; [left; exact H | right; exists la; split; [reflexivity | exact H]].
    + intros [H | (la' & He & H)]; [left; exact H|]. injection He as He. subst la'. right. exact H.
  - split; [intros H; left; exact H|]. intros [H | (la' & He & _)]; [exact H | discriminate He].
Qed.

(* ---- the measure ------------------------------------------------------------------------ *)

Definition cnt (g : grammar) (la : list N) : nat := length (filter (fun t => memN t la) (tidxs g)).
Definition wgt (g : grammar) (s : itemset) (q : N) : nat :=
  match lookup q 0 s with Some la => 1 + cnt g la | None => 0 end.
Definition mu (g : grammar) (s : itemset) : nat := sumf (wgt g s) (pidxs g).
Definition mu_bound (g : grammar) : nat := length (prods g) * S (N.to_nat (ntoks g)).

Lemma cnt_le g la : cnt g la <= N.to_nat (ntoks g).
Proof. unfold cnt. rewrite <- (length_tidxs g). apply filter_length_le. Qed.

Lemma mu_le_bound g s : mu g s <= mu_bound g.
Proof.
  unfold mu, mu_bound. rewrite <- length_pidxs. apply sumf_bound.
  intros q _. unfold wgt. destruct (lookup q 0 s); [|lia]. pose proof (cnt_le g l). lia.
Qed.

Lemma cnt_union_lt g c la t :
  In t c -> memN t la = false -> (t < ntoks g)%N -> cnt g la < cnt g (unionN c la).
Proof.
  intros Hc Hm Ht. unfold cnt. apply filter_length_strict with (t := t).
  - intros x _ Hx. apply memN_In. apply In_unionN. right. apply memN_In. exact Hx.
  - apply In_tidxs. exact Ht.
  - exact Hm.
  - apply memN_In. apply In_unionN. left. exact Hc.
Qed.

Lemma add_mu g q c s : is_prod g q -> (forall a, In a c -> (a < ntoks g)%N) ->
  snd (add q 0 c s) = true -> S (mu g s) <= mu g (fst (add q 0 c s)).
Proof.
  intros Hq Hc Hch. unfold mu.
  assert (Hw : forall x, wgt g (fst (add q 0 c s)) x =
                         if N.eqb q x then 1 + cnt g (new_ctx_of c (lookup q 0 s)) else wgt g s x).
  { intros x. unfold wgt. rewrite add_lookup. unfold keq. rewrite Nat.eqb_refl, andb_true_r.
    destruct (N.eqb q x); reflexivity. }
  apply (sumf_lt (wgt g s) (wgt g (fst (add q 0 c s))) (pidxs g) q).
  - intros x _. rewrite Hw. destruct (N.eqb q x) eqn:E; [|lia].
    apply N.eqb_eq in E. subst x. unfold wgt. destruct (lookup q 0 s) as [la|]; [|lia].
    simpl. apply le_n_S. unfold cnt. apply filter_length_mono.
    intros t _ Ht. apply memN_In. apply In_unionN. right. apply memN_In. exact Ht.
  - apply In_pidxs. exact Hq.
  - rewrite Hw, N.eqb_refl. rewrite add_changed in Hch. unfold wgt.
    destruct (lookup q 0 s) as [la|]; [|lia].
    apply negb_true_iff in Hch. apply subsetN_false in Hch. destruct Hch as (t & Ht & Hm).
    simpl. apply le_n_S. apply (cnt_union_lt g c la t Ht Hm). apply Hc. exact Ht.
Qed.

(* ---- new_ctx --------------------------------------------------------------------------- *)

Lemma tail_ctx_spec g nl fs l : forall acc c nb, tail_ctx g nl fs l acc = Done (c, nb) ->
  nb = nullable_seq nl l /\ forall a, In a c <-> In a acc \/ In a (first_seq nl fs l).
Proof.
  induction l as [|x l IH]; intros acc c nb H.
  - simpl in H. injection H as H1 H2. subst. split; [reflexivity|].
    intros a. simpl. split; [intros Ha; left; exact Ha | intros [Ha | []]; exact Ha].
  - destruct x as [t | r].
    + simpl in H. destruct (t <? ntoks g)%N; [|discriminate H].
      injection H as H1 H2. subst. split; [reflexivity|]. intros a.
      rewrite In_addN, In_first_seq_T. tauto.
    + simpl in H. destruct (r <? nrules g)%N; [|discriminate H].
      rewrite nullable_seq_cons. simpl nullable_sym.
      destruct (memN r nl) eqn:Hm.
      * destruct (IH _ _ _ H) as [Hnb Hc]. split; [exact Hnb|].
        intros a. rewrite Hc, In_unionN, In_first_seq_R, In_first_of_rule, Hm. tauto.
      * injection H as H1 H2. subst. split; [reflexivity|].
        intros a. rewrite In_unionN, In_first_seq_R, In_first_of_rule, Hm. split.
        -- intros [Ha | Ha]; [right; left; exact Ha | left; exact Ha].
        -- intros [Ha | [Ha | [Ha _]]]; [right; exact Ha | left; exact Ha | discriminate Ha].
Qed.

Lemma tail_ctx_done g nl fs l : forallb (sym_in_range g) l = true ->
  forall acc, exists c nb, tail_ctx g nl fs l acc = Done (c, nb).
Proof.
  induction l as [|x l IH]; intros Hr acc.
  - exists acc, true. reflexivity.
  - simpl in Hr. apply andb_true_iff in Hr. destruct Hr as [Hx Hl].
    destruct x as [t | r]; simpl in Hx; simpl; rewrite Hx.
    + eexists. eexists. reflexivity.
    + destruct (memN r nl); [apply IH; exact Hl|]. eexists. eexists. reflexivity.
Qed.

(* symbols stay in range along derivations of a well-formed grammar *)
Lemma derives_in_range g a b : wf_grammar g = true -> derives g a b ->
  forallb (sym_in_range g) a = true -> forallb (sym_in_range g) b = true.
Proof.
  intros Hwf H. induction H as [a | a b p c Hp Hd IH]; intros Ha; [exact Ha|].
  specialize (IH Ha). rewrite forallb_app in IH. simpl in IH.
  apply andb_true_iff in IH. destruct IH as [Hb IH]. apply andb_true_iff in IH. destruct IH as [_ Hc].
  rewrite !forallb_app, Hb, Hc, andb_true_r. simpl. apply forallb_forall.
  intros x Hx. exact (wf_rhs_range g p x Hwf Hp Hx).
Qed.

Lemma first_seq_in_range g nl fs l a : wf_grammar g = true -> nullable_exact g nl -> first_exact g fs ->
  forallb (sym_in_range g) l = true -> In a (first_seq nl fs l) -> (a < ntoks g)%N.
Proof.
  intros Hwf Hn Hf Hl Ha. apply (first_seq_exact g nl fs l a Hn Hf) in Ha. destruct Ha as (c & Hd).
  pose proof (derives_in_range g _ _ Hwf Hd Hl) as Hr. simpl in Hr.
  apply andb_true_iff in Hr. destruct Hr as [Hr _]. apply N.ltb_lt. exact Hr.
Qed.

Lemma In_rule_to_prods g r q : In q (rule_to_prods g r) <-> is_prod g q /\ lhs g q = r.
Proof. unfold rule_to_prods. rewrite filter_In, In_pidxs, N.eqb_eq. reflexivity. Qed.

(* ---- the work-list argument ------------------------------------------------------------- *)

Section Close.
Variable g : grammar.
Variables (nl : list N) (fs : list pairN).
Hypothesis Hwf : wf_grammar g = true.
Hypothesis Hnl : nullable_exact g nl.
Hypothesis Hfs : first_exact g fs.
Variable K : itemset.

Definition le_is (a b : itemset) : Prop :=
  forall p d la, lookup p d a = Some la -> exists la', lookup p d b = Some la' /\ incl la la'.

Definition range_is (s : itemset) : Prop :=
  forall p d la, lookup p d s = Some la ->
    is_prod g p /\ d <= length (rhs g p) /\ forall a, In a la -> (a < ntoks g)%N.

Definition sound_is (s : itemset) : Prop :=
  forall p d la, lookup p d s = Some la ->
    lr0_closure_rel g K p d /\ forall a, In a la -> lr1_closure_rel g K p d a.

(* every production of the rule after the dot is present with FIRST(tail) and,
   when the tail is nullable, the item's context *)
Definition satisfied (s : itemset) (p : N) (d : nat) (la : list N) : Prop :=
  forall r, nth_error (rhs g p) d = Some (R r) -> forall q, is_prod g q -> lhs g q = r ->
    exists la', lookup q 0 s = Some la' /\
      incl (first_seq nl fs (skipn (S d) (rhs g p))) la' /\
      (nullable_seq nl (skipn (S d) (rhs g p)) = true -> incl la la').

Lemma le_is_refl s : le_is s s.
Proof. intros p d la H. exists la. split; [exact H | apply incl_refl]. Qed.

Lemma le_is_trans a b c : le_is a b -> le_is b c -> le_is a c.
Proof.
  intros Hab Hbc p d la H. destruct (Hab _ _ _ H) as (la1 & H1 & I1).
  destruct (Hbc _ _ _ H1) as (la2 & H2 & I2). exists la2. split; [exact H2|].
  eapply incl_tran; eassumption.
Qed.

Lemma le_is_some a b p d : le_is a b -> lookup p d a <> None -> lookup p d b <> None.
Proof.
  intros Hab H. destruct (lookup p d a) as [la|] eqn:E; [|congruence].
  destruct (Hab _ _ _ E) as (la' & H' & _). congruence.
Qed.

Lemma satisfied_mono s s' p d la : le_is s s' -> satisfied s p d la -> satisfied s' p d la.
Proof.
  intros Hle Hs r Hr q Hq Hl. destruct (Hs r Hr q Hq Hl) as (la1 & H1 & Hf & Hn).
  destruct (Hle _ _ _ H1) as (la2 & H2 & I2). exists la2. split; [exact H2|]. split.
  - eapply incl_tran; eassumption.
  - intros Hnb. eapply incl_tran; [apply Hn; exact Hnb | exact I2].
Qed.

(* what one or several calls of add do to (zero_todos, itemset) *)
Record rel (zt : list bool) (s : itemset) (zt' : list bool) (s' : itemset) : Prop := {
  rel_le : le_is s s';
  rel_len : length zt' = length zt;
  rel_mono : forall q, bit zt q = true -> bit zt' q = true;
  rel_new : forall q, bit zt' q = true -> bit zt q = true \/ lookup q 0 s' <> None;
  rel_same : forall p d la', lookup p d s' = Some la' ->
               lookup p d s = Some la' \/ (d = 0 /\ bit zt' p = true);
  rel_mu : nbits zt' + mu g s <= nbits zt + mu g s'
}.

Lemma rel_refl zt s : rel zt s zt s.
Proof.
  constructor.
  - apply le_is_refl.
  - reflexivity.
  - intros q H. exact H.
  - intros q H. left. exact H.
  - intros p d la H. left. exact H.
  - lia.
Qed.

Lemma rel_trans zt s zt1 s1 zt2 s2 : rel zt s zt1 s1 -> rel zt1 s1 zt2 s2 -> rel zt s zt2 s2.
Proof.
  intros A B. constructor.
  - eapply le_is_trans; [exact (rel_le _ _ _ _ A) | exact (rel_le _ _ _ _ B)].
  - rewrite (rel_len _ _ _ _ B). exact (rel_len _ _ _ _ A).
  - intros q H. apply (rel_mono _ _ _ _ B). apply (rel_mono _ _ _ _ A). exact H.
  - intros q H. destruct (rel_new _ _ _ _ B q H) as [H1 | H1]; [|right; exact H1].
    destruct (rel_new _ _ _ _ A q H1) as [H0 | H0]; [left; exact H0|].
    right. exact (le_is_some _ _ _ _ (rel_le _ _ _ _ B) H0).
  - intros p d la H. destruct (rel_same _ _ _ _ B p d la H) as [H1 | H1]; [|right; exact H1].
    destruct (rel_same _ _ _ _ A p d la H1) as [H0 | [H0 H0']]; [left; exact H0|].
    right. split; [exact H0|]. apply (rel_mono _ _ _ _ B). exact H0'.
  - pose proof (rel_mu _ _ _ _ A). pose proof (rel_mu _ _ _ _ B). lia.
Qed.

Definition ctx_in_range (c : list N) : Prop := forall a, In a c -> (a < ntoks g)%N.

Lemma rel_add q c zt s : is_prod g q -> ctx_in_range c -> length zt = length (prods g) ->
  rel zt s (if snd (add q 0 c s) then set_bit (N.to_nat q) true zt else zt) (fst (add q 0 c s)).
Proof.
  intros Hq Hc Hlen.
  assert (Hi : N.to_nat q < length zt) by (rewrite Hlen; exact Hq).
  destruct (snd (add q 0 c s)) eqn:Hch.
  - constructor.
    + intros p d la H. rewrite add_lookup. destruct (keq q 0 p d) eqn:E.
      * apply keq_true in E. destruct E. subst p d. rewrite H. simpl.
        eexists. split; [reflexivity|]. intros a Ha. apply In_unionN. right. exact Ha.
      * exists la. split; [exact H | apply incl_refl].
    + apply length_set_bit.
    + intros x H. unfold bit in *. apply nth_set_true_mono. exact H.
    + intros x H. destruct (N.eq_dec x q) as [E | E].
      * subst x. right. rewrite add_lookup, keq_refl. discriminate.
      * left. unfold bit in *. rewrite nth_set_bit_neq in H; [exact H|].
        intros He. apply E. apply N2Nat.inj. symmetry. exact He.
    + intros p d la H. rewrite add_lookup in H. destruct (keq q 0 p d) eqn:E.
      * apply keq_true in E. destruct E. subst p d. right. split; [reflexivity|].
        unfold bit. apply nth_set_bit_eq. exact Hi.
      * left. exact H.
    + pose proof (nbits_set_true zt (N.to_nat q)). pose proof (add_mu g q c s Hq Hc Hch). lia.
  - rewrite (add_same _ _ _ _ Hch). apply rel_refl.
Qed.

Lemma add_all_cons q qs c zt s :
  add_all (q :: qs) c zt s =
  add_all qs c (if snd (add q 0 c s) then set_bit (N.to_nat q) true zt else zt) (fst (add q 0 c s)).
Proof. simpl. destruct (add q 0 c s). reflexivity. Qed.

Lemma add_all_rel c : ctx_in_range c -> forall qs zt s,
  (forall q, In q qs -> is_prod g q) -> length zt = length (prods g) ->
  rel zt s (fst (add_all qs c zt s)) (snd (add_all qs c zt s)) /\
  forall q, In q qs -> exists la, lookup q 0 (snd (add_all qs c zt s)) = Some la /\ incl c la.
Proof.
  intros Hc. induction qs as [|q qs IH]; intros zt s Hqs Hlen.
  - split; [apply rel_refl | intros q []].
  - rewrite add_all_cons.
    pose proof (rel_add q c zt s (Hqs q (or_introl eq_refl)) Hc Hlen) as R1.
    set (zt1 := if snd (add q 0 c s) then set_bit (N.to_nat q) true zt else zt) in *.
    set (s1 := fst (add q 0 c s)) in *.
    assert (Hlen1 : length zt1 = length (prods g)).
    { rewrite (rel_len _ _ _ _ R1). exact Hlen. }
    destruct (IH zt1 s1 (fun x Hx => Hqs x (or_intror Hx)) Hlen1) as [R2 Hin].
    split; [eapply rel_trans; eassumption|].
    intros x [Hx | Hx]; [|apply Hin; exact Hx]. subst x.
    assert (H1 : exists la, lookup q 0 s1 = Some la /\ incl c la).
    { unfold s1. rewrite add_lookup, keq_refl. eexists. split; [reflexivity|].
      intros a Ha. apply In_new_ctx_of. left. exact Ha. }
    destruct H1 as (la1 & H1 & I1). destruct (rel_le _ _ _ _ R2 _ _ _ H1) as (la2 & H2 & I2).
    exists la2. split; [exact H2 | eapply incl_tran; eassumption].
Qed.

Lemma add_all_inv (P : itemset -> Prop) qs c :
  (forall s q, In q qs -> P s -> P (fst (add q 0 c s))) ->
  forall zt s, P s -> P (snd (add_all qs c zt s)).
Proof.
  induction qs as [|q qs IH]; intros H zt s Hs; [exact Hs|].
  rewrite add_all_cons. apply IH.
  - intros s' x Hx. apply H. right. exact Hx.
  - apply H; [left; reflexivity | exact Hs].
Qed.

Lemma add_range q c s : is_prod g q -> ctx_in_range c -> range_is s -> range_is (fst (add q 0 c s)).
Proof.
  intros Hq Hc Hs p d la H. rewrite add_lookup in H. destruct (keq q 0 p d) eqn:E.
  - apply keq_true in E. destruct E. subst p d. injection H as H. subst la.
    split; [exact Hq|]. split; [lia|]. intros a Ha. apply In_new_ctx_of in Ha.
    destruct Ha as [Ha | (la' & Hl & Ha)]; [apply Hc; exact Ha|].
    exact (proj2 (proj2 (Hs _ _ _ Hl)) a Ha).
  - exact (Hs _ _ _ H).
Qed.

Lemma add_sound q c s : lr0_closure_rel g K q 0 -> (forall a, In a c -> lr1_closure_rel g K q 0 a) ->
  sound_is s -> sound_is (fst (add q 0 c s)).
Proof.
  intros H0 H1 Hs p d la H. rewrite add_lookup in H. destruct (keq q 0 p d) eqn:E.
  - apply keq_true in E. destruct E. subst p d. injection H as H. subst la.
    split; [exact H0|]. intros a Ha. apply In_new_ctx_of in Ha.
    destruct Ha as [Ha | (la' & Hl & Ha)]; [apply H1; exact Ha|].
    exact (proj2 (Hs _ _ _ Hl) a Ha).
  - exact (Hs _ _ _ H).
Qed.

(* ---- one iteration of the loop body ------------------------------------------------------ *)

Lemma process_ok p d la zt s :
  NoDup (keys_of s) -> range_is s -> sound_is s -> length zt = length (prods g) ->
  lookup p d s = Some la ->
  exists zt' s', process g nl fs p d zt s = Done (zt', s') /\
    NoDup (keys_of s') /\ range_is s' /\ sound_is s' /\ rel zt s zt' s' /\ satisfied s' p d la.
Proof.
  intros Hnd Hrg Hsd Hlen Hl.
  destruct (Hrg _ _ _ Hl) as (Hp & Hd & Hla). destruct (Hsd _ _ _ Hl) as (H0 & H1).
  unfold process. rewrite (proj2 (is_prodb_spec g p) Hp). simpl negb. cbv iota.
  destruct (Nat.eqb d (length (rhs g p))) eqn:Ed.
  { apply Nat.eqb_eq in Ed. exists zt, s. split; [reflexivity|].
    split; [exact Hnd|]. split; [exact Hrg|]. split; [exact Hsd|]. split; [apply rel_refl|].
    intros r Hr. exfalso. assert (Hn : nth_error (rhs g p) d = None) by (apply nth_error_None; lia).
      congruence. }
  apply Nat.eqb_neq in Ed.
  destruct (nth_error (rhs g p) d) as [x|] eqn:Ex; [|apply nth_error_None in Ex; lia].
  destruct x as [t | r].
  { exists zt, s. split; [reflexivity|].
    split; [exact Hnd|]. split; [exact Hrg|]. split; [exact Hsd|]. split; [apply rel_refl|].
    intros r Hr. rewrite Ex in Hr. discriminate Hr. }
  assert (Hrr : (r <? nrules g)%N = true).
  { exact (wf_rhs_range g p (R r) Hwf Hp (nth_error_In _ _ Ex)). }
  rewrite Hrr. simpl negb. cbv iota.
  set (beta := skipn (S d) (rhs g p)).
  assert (Hbr : forallb (sym_in_range g) beta = true).
  { apply forallb_forall. intros x Hx. apply (wf_rhs_range g p x Hwf Hp). exact (In_skipn _ _ _ Hx). }
  destruct (tail_ctx_done g nl fs beta Hbr []) as (c0 & nb & Htc). rewrite Htc.
  destruct (tail_ctx_spec g nl fs beta [] c0 nb Htc) as (Hnb & Hc0).
  cbn [obind fst snd]. rewrite Hl.
  set (c := if nb then unionN la c0 else c0).
  assert (Hdo : (if nb then Done (unionN la c0) else Done c0) = Done c) by (unfold c; destruct nb; reflexivity).
  rewrite Hdo. cbn [obind].
  assert (Hc : forall a, In a c <-> In a (first_seq nl fs beta) \/ (nullable_seq nl beta = true /\ In a la)).
  { intros a. unfold c. rewrite <- Hnb. destruct nb.
    - rewrite In_unionN, Hc0. simpl. split.
      + intros [H | [[] | H]]; [right; split; [reflexivity | exact H] | left; exact H].
      + intros [H | [_ H]]; [right; right; exact H | left; exact H].
    - rewrite Hc0. simpl. split.
      + intros [[] | H]. left. exact H.
      + intros [H | [H _]]; [right; exact H | discriminate H]. }
  assert (Hcr : ctx_in_range c).
  { intros a Ha. apply Hc in Ha. destruct Ha as [Ha | [_ Ha]].
    - exact (first_seq_in_range g nl fs beta a Hwf Hnl Hfs Hbr Ha).
    - apply Hla. exact Ha. }
  set (qs := rule_to_prods g r).
  assert (Hqs : forall q, In q qs -> is_prod g q).
  { intros q Hq. apply In_rule_to_prods in Hq. exact (proj1 Hq). }
  destruct (add_all_rel c Hcr qs zt s Hqs Hlen) as [Hrel Hadded].
  exists (fst (add_all qs c zt s)), (snd (add_all qs c zt s)).
  split; [destruct (add_all qs c zt s); reflexivity|].
  split; [apply (add_all_inv (fun s => NoDup (keys_of s))); [intros s' q _; apply add_nodup | exact Hnd]|].
  split; [apply (add_all_inv range_is); [intros s' q Hq; apply add_range; [apply Hqs; exact Hq | exact Hcr] | exact Hrg]|].
  split.
  { apply (add_all_inv sound_is); [|exact Hsd]. intros s' q Hq. apply In_rule_to_prods in Hq.
    destruct Hq as [Hq Hlq]. apply add_sound.
    - exact (c0_step g K p d r q H0 Ex Hq Hlq).
    - intros a Ha. apply Hc in Ha. destruct Ha as [Ha | [Hn Ha]].
      + apply (c1_first g K p d r q a H0 Ex Hq Hlq).
        apply (first_seq_exact g nl fs beta a Hnl Hfs). exact Ha.
      + apply (c1_null g K p d a r q (H1 a Ha) Ex Hq Hlq).
        apply (nullable_seq_exact g nl beta Hnl). exact Hn. }
  split; [exact Hrel|].
  intros r' Hr' q Hq Hlq. rewrite Ex in Hr'. injection Hr' as Hr'. subst r'.
  destruct (Hadded q) as (la' & Hl' & Hi'); [apply In_rule_to_prods; split; assumption|].
  exists la'. split; [exact Hl'|]. split.
  - intros a Ha. apply Hi'. apply Hc. left. exact Ha.
  - intros Hn a Ha. apply Hi'. apply Hc. right. split; assumption.
Qed.

(* ---- the loop invariant --------------------------------------------------------------------- *)

Record Inv (keys : list (N * nat)) (zt : list bool) (s : itemset) : Prop := {
  inv_nodup : NoDup (keys_of s);
  inv_range : range_is s;
  inv_sound : sound_is s;
  inv_grow : le_is K s;
  inv_keys : forall p d, In (p, d) keys -> lookup p d s <> None;
  inv_zlen : length zt = length (prods g);
  inv_zbit : forall q, bit zt q = true -> lookup q 0 s <> None;
  inv_work : forall p d la, lookup p d s = Some la ->
               In (p, d) keys \/ (d = 0 /\ bit zt p = true) \/ satisfied s p d la
}.

(* [zt0] is the bit field handed to process: zt itself (key phase) or zt with
   the chosen bit cleared (zero phase) *)
Lemma inv_step keys ks zt zt0 s p d la :
  Inv keys zt s -> lookup p d s = Some la ->
  length zt0 = length zt ->
  (forall q, bit zt0 q = true -> bit zt q = true) ->
  (forall p' d', In (p', d') keys \/ (d' = 0 /\ bit zt p' = true) ->
     (p', d') = (p, d) \/ In (p', d') ks \/ (d' = 0 /\ bit zt0 p' = true)) ->
  (forall k, In k ks -> In k keys) ->
  exists zt' s', process g nl fs p d zt0 s = Done (zt', s') /\ Inv ks zt' s' /\
    nbits zt' + mu g s <= nbits zt0 + mu g s'.
Proof.
  intros I Hl Hlen0 Hsub Hpend Hks.
  assert (Hlen : length zt0 = length (prods g)) by (rewrite Hlen0; exact (inv_zlen _ _ _ I)).
  destruct (process_ok p d la zt0 s (inv_nodup _ _ _ I) (inv_range _ _ _ I) (inv_sound _ _ _ I) Hlen Hl)
    as (zt' & s' & Hpr & Hnd & Hrg & Hsd & Hrel & Hsat).
  exists zt', s'. split; [exact Hpr|]. split; [|exact (rel_mu _ _ _ _ Hrel)].
  constructor; try assumption.
  - eapply le_is_trans; [exact (inv_grow _ _ _ I) | exact (rel_le _ _ _ _ Hrel)].
  - intros p' d' Hin. apply (le_is_some _ _ _ _ (rel_le _ _ _ _ Hrel)).
    apply (inv_keys _ _ _ I). apply Hks. exact Hin.
  - rewrite (rel_len _ _ _ _ Hrel). exact Hlen.
  - intros q Hq. destruct (rel_new _ _ _ _ Hrel q Hq) as [H | H]; [|exact H].
    apply (le_is_some _ _ _ _ (rel_le _ _ _ _ Hrel)). apply (inv_zbit _ _ _ I). apply Hsub. exact H.
  - intros p' d' la' Hl'. destruct (rel_same _ _ _ _ Hrel _ _ _ Hl') as [Hold | Hflag].
    + destruct (inv_work _ _ _ I _ _ _ Hold) as [Hk | [Hb | Hs]].
      * destruct (Hpend p' d' (or_introl Hk)) as [He | [Hin | Hb]].
        -- injection He as ? ?. subst p' d'. rewrite Hl in Hold. injection Hold as Hold. subst la'.
           right. right. exact Hsat.
        -- left. exact Hin.
        -- right. left. split; [exact (proj1 Hb)|]. apply (rel_mono _ _ _ _ Hrel). exact (proj2 Hb).
      * destruct (Hpend p' d' (or_intror Hb)) as [He | [Hin | Hb']].
        -- injection He as ? ?. subst p' d'. rewrite Hl in Hold. injection Hold as Hold. subst la'.
           right. right. exact Hsat.
        -- left. exact Hin.
        -- right. left. split; [exact (proj1 Hb')|]. apply (rel_mono _ _ _ _ Hrel). exact (proj2 Hb').
      * right. right. exact (satisfied_mono _ _ _ _ _ (rel_le _ _ _ _ Hrel) Hs).
    + right. left. exact Hflag.
Qed.

(* never Panic; OutOfFuel only below the bound; a result satisfies the
   invariant with nothing pending *)
Lemma loop_spec fuel : forall keys zt s, Inv keys zt s ->
  (close_loop g nl fs fuel keys zt s = OutOfFuel /\
   fuel + mu g s < length keys + nbits zt + mu_bound g + 1) \/
  (exists C zt', close_loop g nl fs fuel keys zt s = Done C /\ Inv [] zt' C /\ first_set zt' = None).
Proof.
  induction fuel as [|f IH]; intros keys zt s I.
  - left. split; [reflexivity|]. pose proof (mu_le_bound g s). lia.
  - destruct keys as [|[p d] ks].
    + simpl. destruct (first_set zt) as [i|] eqn:Ef.
      * pose proof (first_set_Some zt i Ef) as Hi.
        assert (Hb : bit zt (N.of_nat i) = true) by (unfold bit; rewrite Nat2N.id; exact Hi).
        destruct (lookup (N.of_nat i) 0 s) as [la|] eqn:Hl; [|exfalso; exact (inv_zbit _ _ _ I _ Hb Hl)].
        destruct (inv_step [] [] zt (set_bit i false zt) s (N.of_nat i) 0 la I Hl) as (zt' & s' & Hpr & I' & Hm).
        -- apply length_set_bit.
        -- intros q Hq. unfold bit in *. exact (nth_set_false_anti _ _ _ Hq).
        -- intros p' d' [[] | [Hd Hq]]. subst d'. destruct (N.eq_dec p' (N.of_nat i)) as [E | E].
           ++ left. subst p'. reflexivity.
           ++ right. right. split; [reflexivity|]. unfold bit in *. rewrite nth_set_bit_neq; [exact Hq|].
              intros He. apply E. rewrite He. symmetry. apply N2Nat.id.
        -- intros k [].
        -- rewrite Hpr. cbn [obind fst snd].
           pose proof (nbits_set_false zt i Hi) as Hnb.
           destruct (IH [] zt' s' I') as [[Ho Hlt] | Hdone].
           ++ left. split; [exact Ho|]. simpl length in *. lia.
           ++ right. exact Hdone.
      * right. exists s, zt. split; [reflexivity|]. split; [exact I | exact Ef].
    + simpl.
      destruct (lookup p d s) as [la|] eqn:Hl; [|exfalso; exact (inv_keys _ _ _ I p d (or_introl eq_refl) Hl)].
      destruct (inv_step ((p, d) :: ks) ks zt zt s p d la I Hl) as (zt' & s' & Hpr & I' & Hm).
      * reflexivity.
      * intros q Hq. exact Hq.
      * intros p' d' [[He | Hin] | Hb].
        -- left. symmetry. exact He.
        -- right. left. exact Hin.
        -- right. right. exact Hb.
      * intros k Hk. right. exact Hk.
      * rewrite Hpr. cbn [obind fst snd].
        destruct (IH ks zt' s' I') as [[Ho Hlt] | Hdone].
        -- left. split; [exact Ho|]. simpl length. lia.
        -- right. exact Hdone.
Qed.

End Close.

(* ---- from the boolean input check to the invariant ------------------------------------------ *)

Lemma nodup_keys_NoDup l : nodup_keys l = true <-> NoDup l.
Proof.
  induction l as [|k l IH]; simpl.
  - split; [intros _; constructor | reflexivity].
  - rewrite andb_true_iff, negb_true_iff, IH.
    assert (He : existsb (fun k' => N.eqb (fst k) (fst k') && Nat.eqb (snd k) (snd k')) l = true <-> In k l).
    { rewrite existsb_exists. split.
      - intros (k' & Hin & Hk). apply andb_true_iff in Hk. destruct Hk as [H1 H2].
        apply N.eqb_eq in H1. apply Nat.eqb_eq in H2. destruct k, k'. simpl in *. subst. exact Hin.
      - intros Hin. exists k. split; [exact Hin|]. rewrite N.eqb_refl, Nat.eqb_refl. reflexivity. }
    split.
    + intros [Hn Hl]. constructor; [|exact Hl]. intros Hin. apply He in Hin. congruence.
    + intros H. inversion H as [|? ? Hn Hl]; subst. split; [|exact Hl].
      destruct (existsb _ l) eqn:E; [|reflexivity]. exfalso. apply Hn. apply He. reflexivity.
Qed.

Lemma items_ok_spec g s : items_ok g s = true <->
  NoDup (keys_of s) /\
  forall p d la, In (p, d, la) s ->
    is_prod g p /\ d <= length (rhs g p) /\ forall a, In a la -> (a < ntoks g)%N.
Proof.
  unfold items_ok. rewrite andb_true_iff, nodup_keys_NoDup, forallb_forall. split.
  - intros [Hnd H]. split; [exact Hnd|]. intros p d la Hin. specialize (H _ Hin).
    unfold it_p, it_d, it_la in H. simpl in H.
    apply andb_true_iff in H. destruct H as [H H3]. apply andb_true_iff in H. destruct H as [H1 H2].
    split; [apply is_prodb_spec; exact H1|]. split; [apply Nat.leb_le; exact H2|].
    rewrite forallb_forall in H3. intros a Ha. apply N.ltb_lt. apply H3. exact Ha.
  - intros [Hnd H]. split; [exact Hnd|]. intros [[p d] la] Hin. destruct (H _ _ _ Hin) as (H1 & H2 & H3).
    unfold it_p, it_d, it_la. simpl. rewrite (proj2 (is_prodb_spec g p) H1), (proj2 (Nat.leb_le _ _) H2). simpl.
    apply forallb_forall. intros a Ha. apply N.ltb_lt. apply H3. exact Ha.
Qed.

Lemma init_inv g nl fs keys K : close_pre g nl fs keys K ->
  Inv g nl fs K keys (repeat false (length (prods g))) K.
Proof.
  intros (Hwf & Hnl & Hfs & Hok & Hcov). apply items_ok_spec in Hok. destruct Hok as [Hnd Hrg].
  constructor.
  - exact Hnd.
  - intros p d la H. apply Hrg. apply lookup_In. exact H.
  - intros p d la H. apply lookup_In in H. split; [exact (c0_base g K p d la H)|].
    intros a Ha. exact (c1_base g K p d la a H Ha).
  - apply le_is_refl.
  - intros p d Hin. apply Hcov in Hin. intros Hn. apply lookup_None_iff in Hn. exact (Hn Hin).
  - apply repeat_length.
  - intros q Hq. unfold bit in Hq. rewrite nth_repeat_false in Hq. discriminate Hq.
  - intros p d la H. left. apply Hcov. apply lookup_In in H.
    change (p, d) with (fst (p, d, la)). apply in_map. exact H.
Qed.

(* the three possible outcomes of the mirror on well-formed inputs *)
Lemma close_mirror_cases g nl fs keys K fuel : close_pre g nl fs keys K ->
  (close_mirror g nl fs keys K fuel = OutOfFuel /\ fuel < close_fuel g keys) \/
  (exists C zt, close_mirror g nl fs keys K fuel = Done C /\
     Inv g nl fs K [] zt C /\ first_set zt = None).
Proof.
  intros Hpre. pose proof (init_inv g nl fs keys K Hpre) as I.
  destruct Hpre as (Hwf & Hnl & Hfs & _ & _).
  destruct (loop_spec g nl fs Hwf Hnl Hfs K fuel keys _ K I) as [[Ho Hlt] | Hd].
  - left. split; [exact Ho|]. rewrite nbits_repeat_false in Hlt. unfold close_fuel, mu_bound in *. lia.
  - right. exact Hd.
Qed.

Lemma final_closed g nl fs K zt C : Inv g nl fs K [] zt C -> first_set zt = None ->
  forall p d la, lookup p d C = Some la -> satisfied g nl fs C p d la.
Proof.
  intros I Hz p d la H. destruct (inv_work _ _ _ _ _ _ _ I _ _ _ H) as [[] | [[_ Hb] | Hs]]; [|exact Hs].
  unfold bit in Hb. rewrite (first_set_None zt Hz) in Hb. discriminate Hb.
Qed.

(* ---- theorems 1-4 -------------------------------------------------------------------------------- *)

Lemma close_mirror_done g nl fs keys K fuel C : close_pre g nl fs keys K ->
  close_mirror g nl fs keys K fuel = Done C ->
  exists zt, Inv g nl fs K [] zt C /\ first_set zt = None.
Proof.
  intros Hpre H. destruct (close_mirror_cases g nl fs keys K fuel Hpre) as [[Ho _] | (C' & zt & Hd & I & Hz)].
  - rewrite Ho in H. discriminate H.
  - rewrite Hd in H. injection H as H. subst C'. exists zt. split; assumption.
Qed.

Lemma close_mirror_sound : close_mirror_sound_stmt.
Proof.
  intros g nl fs keys K fuel C Hpre H p d la Hin.
  destruct (close_mirror_done g nl fs keys K fuel C Hpre H) as (zt & I & _).
  apply (inv_sound _ _ _ _ _ _ _ I). apply In_lookup; [exact (inv_nodup _ _ _ _ _ _ _ I) | exact Hin].
Qed.

Lemma close_mirror_complete : close_mirror_complete_stmt.
Proof.
  intros g nl fs keys K fuel C Hpre H.
  destruct (close_mirror_done g nl fs keys K fuel C Hpre H) as (zt & I & Hz).
  pose proof (final_closed g nl fs K zt C I Hz) as Hcl.
  destruct Hpre as (Hwf & Hnl & Hfs & Hok & _). apply items_ok_spec in Hok. destruct Hok as [HndK _].
  assert (H0 : forall p d, lr0_closure_rel g K p d -> exists la, lookup p d C = Some la).
  { intros p d Hr. induction Hr as [p d la Hin | p d r q Hpar IH Hnth Hq Hlq].
    - destruct (inv_grow _ _ _ _ _ _ _ I p d la (In_lookup _ _ _ _ HndK Hin)) as (la' & Hl & _).
      exists la'. exact Hl.
    - destruct IH as (la & Hl). destruct (Hcl _ _ _ Hl r Hnth q Hq Hlq) as (la' & Hl' & _).
      exists la'. exact Hl'. }
  assert (H1 : forall p d a, lr1_closure_rel g K p d a -> exists la, lookup p d C = Some la /\ In a la).
  { intros p d a Hr. induction Hr as [p d la a Hin Ha | p d r q b Hpar Hnth Hq Hlq Hf | p d a r q Hpar IH Hnth Hq Hlq Hn].
    - destruct (inv_grow _ _ _ _ _ _ _ I p d la (In_lookup _ _ _ _ HndK Hin)) as (la' & Hl & Hi).
      exists la'. split; [exact Hl | apply Hi; exact Ha].
    - destruct (H0 _ _ Hpar) as (la & Hl). destruct (Hcl _ _ _ Hl r Hnth q Hq Hlq) as (la' & Hl' & Hfi & _).
      exists la'. split; [exact Hl'|]. apply Hfi. apply (first_seq_exact g nl fs _ b Hnl Hfs). exact Hf.
    - destruct IH as (la & Hl & Ha). destruct (Hcl _ _ _ Hl r Hnth q Hq Hlq) as (la' & Hl' & _ & Hni).
      exists la'. split; [exact Hl'|]. apply Hni; [|exact Ha].
      apply (nullable_seq_exact g nl _ Hnl). exact Hn. }
  split.
  - intros p d Hr. destruct (H0 p d Hr) as (la & Hl). exists la. apply lookup_In. exact Hl.
  - intros p d a Hr. destruct (H1 p d a Hr) as (la & Hl & Ha). exists la. split; [apply lookup_In; exact Hl | exact Ha].
Qed.

Lemma close_mirror_result_ok : close_mirror_result_ok_stmt.
Proof.
  intros g nl fs keys K fuel C Hpre H.
  destruct (close_mirror_done g nl fs keys K fuel C Hpre H) as (zt & I & _).
  apply items_ok_spec. split; [exact (inv_nodup _ _ _ _ _ _ _ I)|].
  intros p d la Hin. apply (inv_range _ _ _ _ _ _ _ I).
  apply In_lookup; [exact (inv_nodup _ _ _ _ _ _ _ I) | exact Hin].
Qed.

Lemma close_mirror_terminates : close_mirror_terminates_stmt.
Proof.
  intros g nl fs keys K fuel Hpre Hfuel.
  destruct (close_mirror_cases g nl fs keys K fuel Hpre) as [[_ Hlt] | (C & zt & Hd & _)]; [lia|].
  exists C. exact Hd.
Qed.

Lemma close_mirror_never_panics : close_mirror_never_panics_stmt.
Proof.
  intros g nl fs keys K fuel Hpre H.
  destruct (close_mirror_cases g nl fs keys K fuel Hpre) as [[Ho _] | (C & zt & Hd & _)];
    rewrite H in *; discriminate.
Qed.

Lemma lr0_rel_ext g K1 K2 : (forall i, In i K1 -> In i K2) ->
  forall p d, lr0_closure_rel g K1 p d -> lr0_closure_rel g K2 p d.
Proof.
  intros HK p d H. induction H as [p d la Hin | p d r q Hpar IH Hnth Hq Hlq].
  - exact (c0_base g K2 p d la (HK _ Hin)).
  - exact (c0_step g K2 p d r q IH Hnth Hq Hlq).
Qed.

Lemma lr1_rel_ext g K1 K2 : (forall i, In i K1 -> In i K2) ->
  forall p d a, lr1_closure_rel g K1 p d a -> lr1_closure_rel g K2 p d a.
Proof.
  intros HK p d a H.
  induction H as [p d la a Hin Ha | p d r q b Hpar Hnth Hq Hlq Hf | p d a r q Hpar IH Hnth Hq Hlq Hn].
  - exact (c1_base g K2 p d la a (HK _ Hin) Ha).
  - exact (c1_first g K2 p d r q b (lr0_rel_ext g K1 K2 HK p d Hpar) Hnth Hq Hlq Hf).
  - exact (c1_null g K2 p d a r q IH Hnth Hq Hlq Hn).
Qed.

Lemma close_mirror_order_insensitive : close_mirror_order_insensitive_stmt.
Proof.
  intros g nl fs K1 K2 keys1 keys2 fuel1 fuel2 C1 C2 HK Hp1 Hp2 H1 H2.
  assert (HK12 : forall i, In i K1 -> In i K2) by (intros i; apply HK).
  assert (HK21 : forall i, In i K2 -> In i K1) by (intros i; apply HK).
  pose proof (close_mirror_sound g nl fs keys1 K1 fuel1 C1 Hp1 H1) as S1.
  pose proof (close_mirror_sound g nl fs keys2 K2 fuel2 C2 Hp2 H2) as S2.
  destruct (close_mirror_complete g nl fs keys1 K1 fuel1 C1 Hp1 H1) as [A1 B1].
  destruct (close_mirror_complete g nl fs keys2 K2 fuel2 C2 Hp2 H2) as [A2 B2].
  split.
  - intros p d. split; intros (la & Hin).
    + apply A2. apply (lr0_rel_ext g K1 K2 HK12). exact (proj1 (S1 _ _ _ Hin)).
    + apply A1. apply (lr0_rel_ext g K2 K1 HK21). exact (proj1 (S2 _ _ _ Hin)).
  - intros p d a. split; intros (la & Hin & Ha).
    + apply B2. apply (lr1_rel_ext g K1 K2 HK12). exact (proj2 (S1 _ _ _ Hin) a Ha).
    + apply B1. apply (lr1_rel_ext g K2 K1 HK21). exact (proj2 (S2 _ _ _ Hin) a Ha).
Qed.

(* ---- goto ---------------------------------------------------------------------------------------- *)

Lemma add_fresh p d c s : lookup p d s = None -> fst (add p d c s) = s ++ [((p, d, c) : item)].
Proof.
  induction s as [|i s IH]; intros H; [reflexivity|].
  rewrite add_cons. rewrite lookup_cons in H.
  destruct (keq (it_p i) (it_d i) p d); [discriminate H|]. simpl. rewrite (IH H). reflexivity.
Qed.

Lemma goto_loop_spec g x : forall l acc,
  NoDup (keys_of l) -> NoDup (keys_of acc) ->
  (forall p d la, In (p, d, la) l -> is_prod g p /\ d <= length (rhs g p)) ->
  (forall p d la, In (p, d, la) l -> lookup p (S d) acc = None) ->
  exists G, goto_loop g x l acc = Done G /\ NoDup (keys_of G) /\
    forall p d' la, In (p, d', la) G <->
      In (p, d', la) acc \/
      exists d, d' = S d /\ In (p, d, la) l /\ nth_error (rhs g p) d = Some x.
Proof.
  induction l as [|[[p0 d0] la0] l IH]; intros acc Hndl Hnda Hrg Hfresh.
  - exists acc. split; [reflexivity|]. split; [exact Hnda|]. intros p d' la. split.
    + intros H. left. exact H.
    + intros [H | (d & _ & [] & _)]. exact H.
  - simpl in Hndl. inversion Hndl as [|? ? Hk0 Hndl']; subst.
    destruct (Hrg p0 d0 la0 (or_introl eq_refl)) as [Hp0 Hd0].
    assert (Hrg' : forall p d la, In (p, d, la) l -> is_prod g p /\ d <= length (rhs g p)).
    { intros p d la Hin. apply (Hrg p d la). right. exact Hin. }
    (* the branches that leave acc unchanged *)
    assert (Hskip : nth_error (rhs g p0) d0 <> Some x ->
      exists G, goto_loop g x l acc = Done G /\ NoDup (keys_of G) /\
        forall p d' la, In (p, d', la) G <->
          In (p, d', la) acc \/
          exists d, d' = S d /\ In (p, d, la) ((p0, d0, la0) :: l) /\ nth_error (rhs g p) d = Some x).
    { intros Hne.
      destruct (IH acc Hndl' Hnda Hrg' (fun p d la Hin => Hfresh p d la (or_intror Hin))) as (G & HG & HndG & HinG).
      exists G. split; [exact HG|]. split; [exact HndG|]. intros p d' la. rewrite HinG. split.
      - intros [H | (d & Hd & Hin & Hn)]; [left; exact H|]. right. exists d. split; [exact Hd|].
        split; [right; exact Hin | exact Hn].
      - intros [H | (d & Hd & [He | Hin] & Hn)]; [left; exact H| |].
        + injection He as ? ? ?. subst p d la. exfalso. exact (Hne Hn).
        + right. exists d. split; [exact Hd|]. split; [exact Hin | exact Hn]. }
    cbn [goto_loop]. unfold it_p, it_d, it_la. cbn [fst snd].
    rewrite (proj2 (is_prodb_spec g p0) Hp0). cbn [negb].
    destruct (Nat.eqb d0 (length (rhs g p0))) eqn:Ed.
    { apply Nat.eqb_eq in Ed. apply Hskip. intros Hn.
      assert (Hnone : nth_error (rhs g p0) d0 = None) by (apply nth_error_None; lia). congruence. }
    apply Nat.eqb_neq in Ed.
    destruct (nth_error (rhs g p0) d0) as [y|] eqn:Ey; [|apply nth_error_None in Ey; lia].
    destruct (sym_eqb x y) eqn:Exy.
    + apply sym_eqb_eq in Exy. subst y.
      pose proof (Hfresh p0 d0 la0 (or_introl eq_refl)) as Hf0.
      set (acc' := fst (add p0 (S d0) la0 acc)).
      destruct (IH acc' Hndl') as (G & HG & HndG & HinG).
      * apply add_nodup. exact Hnda.
      * exact Hrg'.
      * intros p d la Hin. unfold acc'. rewrite add_lookup. destruct (keq p0 (S d0) p (S d)) eqn:E.
        -- apply keq_true in E. destruct E as [E1 E2]. injection E2 as E2. subst p d.
           exfalso. apply Hk0. change (p0, d0) with (fst (p0, d0, la)). apply in_map. exact Hin.
        -- apply (Hfresh p d la). right. exact Hin.
      * exists G. split; [exact HG|]. split; [exact HndG|]. intros p d' la. rewrite HinG.
        unfold acc'. rewrite (add_fresh _ _ _ _ Hf0), in_app_iff. split.
        -- intros [[H | [H | []]] | (d & Hd & Hin & Hn)].
           ++ left. exact H.
           ++ injection H as ? ? ?. subst p d' la. right. exists d0. split; [reflexivity|].
              split; [left; reflexivity | exact Ey].
           ++ right. exists d. split; [exact Hd|]. split; [right; exact Hin | exact Hn].
        -- intros [H | (d & Hd & [He | Hin] & Hn)].
           ++ left. left. exact H.
           ++ injection He as ? ? ?. subst p d la d'. left. right. left. reflexivity.
           ++ right. exists d. split; [exact Hd|]. split; [exact Hin | exact Hn].
    + apply Hskip. intros Hn. injection Hn as Hn. subst y.
      assert (Ht : sym_eqb x x = true) by (apply sym_eqb_eq; reflexivity). congruence.
Qed.

Lemma goto_mirror_spec : goto_mirror_spec_stmt.
Proof.
  intros g S x Hok. apply items_ok_spec in Hok. destruct Hok as [Hnd Hrg].
  destruct (goto_loop_spec g x S [] Hnd (NoDup_nil _)) as (G & HG & HndG & HinG).
  - intros p d la Hin. destruct (Hrg p d la Hin) as (H1 & H2 & _). split; assumption.
  - intros p d la _. reflexivity.
  - exists G. split; [exact HG|]. split; [exact HndG|]. intros p d' la. rewrite HinG. split.
    + intros [[] | H]. exact H.
    + intros H. right. exact H.
Qed.

(* ---- the textbook single-lookahead closure --------------------------------------------------------- *)

Lemma first_of_form_split : first_of_form_split_stmt.
Proof.
  intros g beta a b. unfold first_of_form. split.
  - intros (c & Hd). apply derives_split in Hd. destruct Hd as (c1 & c2 & Hc & H1 & H2).
    apply derives_T1_inv in H2. subst c2. destruct c1 as [|y c1].
    + simpl in Hc. injection Hc as Hb Hc. subst. right. split; [exact H1 | reflexivity].
    + simpl in Hc. injection Hc as Hy Hc. subst y. left. exists c1. exact H1.
  - intros [(c & Hd) | [Hd Hb]].
    + exists (c ++ [T a]). exact (derives_ctx_r g beta (T b :: c) [T a] Hd).
    + subst b. exists []. exact (derives_ctx_r g beta [] [T a] Hd).
Qed.

Lemma lr1_lr0 g K p d a : lr1_closure_rel g K p d a -> lr0_closure_rel g K p d.
Proof.
  intros H. induction H as [p d la a Hin Ha | p d r q b Hpar Hnth Hq Hlq Hf | p d a r q Hpar IH Hnth Hq Hlq Hn].
  - exact (c0_base g K p d la Hin).
  - exact (c0_step g K p d r q Hpar Hnth Hq Hlq).
  - exact (c0_step g K p d r q IH Hnth Hq Hlq).
Qed.

Lemma lr1_textbook_incl : lr1_textbook_incl_stmt.
Proof.
  intros g K p d a H. induction H as [p d la a Hin Ha | p d a r q b Hpar IH Hnth Hq Hlq Hf].
  - exact (c1_base g K p d la a Hin Ha).
  - apply first_of_form_split in Hf. destruct Hf as [Hf | [Hn Hb]].
    + exact (c1_first g K p d r q b (lr1_lr0 g K p d a IH) Hnth Hq Hlq Hf).
    + subst b. exact (c1_null g K p d a r q IH Hnth Hq Hlq Hn).
Qed.

Lemma productive_seq g l : productive g -> forallb (sym_in_range g) l = true ->
  exists w, derives g l (tokens_of w).
Proof.
  intros Hp. induction l as [|x l IH]; intros Hr.
  - exists []. apply d_refl.
  - simpl in Hr. apply andb_true_iff in Hr. destruct Hr as [Hx Hl]. destruct (IH Hl) as (w & Hw).
    destruct x as [t | r].
    + exists (t :: w). simpl. apply derives_cons. exact Hw.
    + simpl in Hx. apply N.ltb_lt in Hx. destruct (Hp r Hx) as (w1 & Hw1).
      exists (w1 ++ w). rewrite tokens_of_app. exact (derives_app g [R r] _ l _ Hw1 Hw).
Qed.

Lemma first_of_form_nonempty g beta a : productive g -> forallb (sym_in_range g) beta = true ->
  exists b, first_of_form g beta a b.
Proof.
  intros Hp Hr. destruct (productive_seq g beta Hp Hr) as (w & Hw).
  pose proof (derives_ctx_r g beta (tokens_of w) [T a] Hw) as Hd.
  destruct w as [|b w].
  - exists a, []. exact Hd.
  - exists b, (tokens_of w ++ [T a]). exact Hd.
Qed.

Lemma nth_error_rhs_is_prod g p d x : nth_error (rhs g p) d = Some x -> is_prod g p.
Proof.
  unfold rhs, prod, is_prod. destruct (nth_error (prods g) (N.to_nat p)) as [[l r]|] eqn:E.
  - intros _. apply nth_error_Some. congruence.
  - intros H. destruct d; discriminate H.
Qed.

Lemma lr1_textbook_agrees : lr1_textbook_agrees_stmt.
Proof.
  intros g K Hwf Hprod HK.
  assert (Hnext : forall p d a r q, lr1_textbook_rel g K p d a -> nth_error (rhs g p) d = Some (R r) ->
            is_prod g q -> lhs g q = r -> exists b, lr1_textbook_rel g K q 0 b).
  { intros p d a r q Ht Hnth Hq Hlq.
    pose proof (nth_error_rhs_is_prod g p d _ Hnth) as Hp.
    destruct (first_of_form_nonempty g (skipn (S d) (rhs g p)) a Hprod) as (b & Hb).
    - apply forallb_forall. intros x Hx. apply (wf_rhs_range g p x Hwf Hp). exact (In_skipn _ _ _ Hx).
    - exists b. exact (tb_step g K p d a r q b Ht Hnth Hq Hlq Hb). }
  assert (H0 : forall p d, lr0_closure_rel g K p d -> exists a, lr1_textbook_rel g K p d a).
  { intros p d H. induction H as [p d la Hin | p d r q Hpar IH Hnth Hq Hlq].
    - destruct la as [|a la]; [exfalso; exact (HK p d [] Hin eq_refl)|].
      exists a. exact (tb_base g K p d (a :: la) a Hin (or_introl eq_refl)).
    - destruct IH as (a & Ha). exact (Hnext p d a r q Ha Hnth Hq Hlq). }
  intros p d a. split; [|apply lr1_textbook_incl].
  intros H. induction H as [p d la a Hin Ha | p d r q b Hpar Hnth Hq Hlq Hf | p d a r q Hpar IH Hnth Hq Hlq Hn].
  - exact (tb_base g K p d la a Hin Ha).
  - destruct (H0 p d Hpar) as (a & Ha).
    apply (tb_step g K p d a r q b Ha Hnth Hq Hlq). apply first_of_form_split. left. exact Hf.
  - apply (tb_step g K p d a r q a IH Hnth Hq Hlq). apply first_of_form_split. right. split; [exact Hn | reflexivity].
Qed.

(* ---- statement 1 with the textbook relation is false --------------------------------------------------

   Witness = the implementation's own dump (harness `lr`) of
       %start S  %%  S: A;  A: B C;  B: D 'e';  D: 'd';  C: C 'c';
   tokens 'e'=0 'd'=1 'c'=2 $=3; rules ^=0 S=1 A=2 B=3 D=4 C=5; C derives no token
   string and is not nullable, so FIRST(C $) is empty and [B -> . D 'e'] has no
   lookahead at all in the start state; the code (and the mirror) still give
   [D -> . 'd'] the lookahead 'e' = FIRST('e' ...), which the textbook closure
   over single-lookahead items cannot contain. *)

Definition wit_g : grammar :=
  mkGrammar 4 6 [(1, [R 2]); (2, [R 3; R 5]); (3, [R 4; T 0]); (4, [T 1]); (5, [R 5; T 2]); (0, [R 1])]%N 5 3.
Definition wit_nl : list N := match first_ref wit_g with Some (nl, _) => nl | None => [] end.
Definition wit_fs : list pairN := match first_ref wit_g with Some (_, fs) => fs | None => [] end.
Definition wit_K : itemset := [(5%N, 0, [3%N])].
Definition wit_C : itemset :=
  [(5%N, 0, [3%N]); (0%N, 0, [3%N]); (1%N, 0, [3%N]); (2%N, 0, []); (3%N, 0, [0%N])].

Lemma wit_first : first_ref wit_g = Some (wit_nl, wit_fs).
Proof. vm_compute. reflexivity. Qed.

Lemma wit_pre : close_pre wit_g wit_nl wit_fs [(5%N, 0)] wit_K.
Proof.
  destruct (first_ref_exact' wit_g wit_nl wit_fs wit_first) as [Hn Hf].
  split; [vm_compute; reflexivity|]. split; [exact Hn|]. split; [exact Hf|].
  split; [vm_compute; reflexivity|]. intros k. simpl. tauto.
Qed.

Lemma wit_run : close_mirror wit_g wit_nl wit_fs [(5%N, 0)] wit_K (close_fuel wit_g [(5%N, 0)]) = Done wit_C.
Proof. vm_compute. reflexivity. Qed.

Definition wit_L : list (N * nat * N) := [(5%N, 0, 3%N); (0%N, 0, 3%N); (1%N, 0, 3%N)].

Lemma wit_no_first_C b : ~ first_of_form wit_g [R 5%N] 3%N b.
Proof.
  destruct (first_ref_exact' wit_g wit_nl wit_fs wit_first) as [Hn Hf].
  intros H. apply first_of_form_split in H. destruct H as [H | [H _]].
  - apply (Hf 5%N b) in H. vm_compute in H.
    repeat (destruct H as [H | H]; [discriminate H|]). exact H.
  - apply (Hn 5%N) in H. vm_compute in H. exact H.
Qed.

Lemma wit_first_nil a b : first_of_form wit_g [] a b -> b = a.
Proof.
  intros H. apply first_of_form_split in H. destruct H as [(c & H) | [_ H]]; [|exact H].
  apply derives_nil_inv in H. discriminate H.
Qed.

Lemma wit_textbook_inv p d a : lr1_textbook_rel wit_g wit_K p d a -> In (p, d, a) wit_L.
Proof.
  intros H. induction H as [p d la a Hin Ha | p d a r q b Hpar IH Hnth Hq Hlq Hf].
  - destruct Hin as [Hin | []]. injection Hin as ? ? ?. subst p d la.
    destruct Ha as [Ha | []]. subst a. left. reflexivity.
  - apply In_pidxs in Hq. vm_compute in Hq.
    destruct IH as [IH | [IH | [IH | []]]]; injection IH as ? ? ?; subst p d a;
      vm_compute in Hnth; injection Hnth as Hnth; subst r;
      destruct Hq as [Hq | [Hq | [Hq | [Hq | [Hq | [Hq | []]]]]]]; subst q;
      vm_compute in Hlq; try discriminate Hlq.
    + change (skipn 1 (rhs wit_g 5%N)) with (@nil sym) in Hf. apply wit_first_nil in Hf. subst b.
      right. left. reflexivity.
    + change (skipn 1 (rhs wit_g 0%N)) with (@nil sym) in Hf. apply wit_first_nil in Hf. subst b.
      right. right. left. reflexivity.
    + change (skipn 1 (rhs wit_g 1%N)) with [R 5%N] in Hf. exfalso. exact (wit_no_first_C b Hf).
Qed.

Lemma close_mirror_sound_textbook_refuted : close_mirror_sound_textbook_refuted_stmt.
Proof.
  exists wit_g, wit_nl, wit_fs, [(5%N, 0)], wit_K, (close_fuel wit_g [(5%N, 0)]), wit_C, 3%N, 0, [0%N], 0%N.
  split; [exact wit_pre|]. split; [exact wit_run|]. split.
  - intros i [Hi | []]. subst i. discriminate.
  - split; [right; right; right; right; left; reflexivity|]. split; [left; reflexivity|].
    intros H. apply wit_textbook_inv in H.
    destruct H as [H | [H | [H | []]]]; discriminate H.
Qed.

(* the textbook form of statement 1 is therefore not provable *)
Lemma close_mirror_sound_textbook_false : ~ close_mirror_sound_textbook_stmt.
Proof.
  intros H. destruct close_mirror_sound_textbook_refuted
    as (g & nl & fs & keys & K & fuel & C & p & d & la & a & Hpre & Hrun & _ & Hin & Ha & Hno).
  exact (Hno (H g nl fs keys K fuel C Hpre Hrun p d la a Hin Ha)).
Qed.

(* ---- the hypotheses are satisfiable; the mirror on the calculator grammar ----------------------------
   (LR/Examples.v: the implementation's own dump).  Closing the start kernel
   gives the dump's closed state 0, goto on E (rule 1) gives the dump's core
   state 3 — as sets. *)
From GV Require LR.Validator LR.Examples.

Definition calc_nl : list N := match first_ref Examples.calc_grammar with Some (nl, _) => nl | None => [] end.
Definition calc_fs : list pairN := match first_ref Examples.calc_grammar with Some (_, fs) => fs | None => [] end.

Example calc_close_pre : close_pre Examples.calc_grammar calc_nl calc_fs [(6%N, 0)] [(6%N, 0, [5%N])].
Proof.
  assert (Hfr : first_ref Examples.calc_grammar = Some (calc_nl, calc_fs)) by (vm_compute; reflexivity).
  destruct (first_ref_exact' _ _ _ Hfr) as [Hn Hf].
  split; [vm_compute; reflexivity|]. split; [exact Hn|]. split; [exact Hf|].
  split; [vm_compute; reflexivity|]. intros k. simpl. tauto.
Qed.

Example calc_close_start :
  close_mirror Examples.calc_grammar calc_nl calc_fs [(6%N, 0)] [(6%N, 0, [5%N])]
               (close_fuel Examples.calc_grammar [(6%N, 0)]) =
  Done [(6%N, 0, [5%N]); (0%N, 0, [0%N; 5%N]); (1%N, 0, [0%N; 5%N]); (2%N, 0, [1%N; 0%N; 5%N]);
        (3%N, 0, [1%N; 0%N; 5%N]); (4%N, 0, [1%N; 0%N; 5%N]); (5%N, 0, [1%N; 0%N; 5%N])].
Proof. vm_compute. reflexivity. Qed.

Example calc_goto_E :
  goto_mirror Examples.calc_grammar
    [(6%N, 0, [5%N]); (0%N, 0, [0%N; 5%N]); (1%N, 0, [0%N; 5%N]); (2%N, 0, [1%N; 0%N; 5%N]);
     (3%N, 0, [1%N; 0%N; 5%N]); (4%N, 0, [1%N; 0%N; 5%N]); (5%N, 0, [1%N; 0%N; 5%N])] (R 1%N) =
  Done [(6%N, 1, [5%N]); (0%N, 1, [0%N; 5%N])].
Proof. vm_compute. reflexivity. Qed.
