(* MIRROR of lrtable/src/lib/itemset.rs: Itemset::add (36-47), Itemset::close
   (50-139) and Itemset::goto (142-156).  Definitions only.

   An itemset (a HashMap<(PIdx, SIdx), Ctx>) is an association list keyed by
   (production, dot); a context (a Vob with tokens_len bits) is a lookahead SET
   kept as a list of token indices.  The mirror follows the Rust control flow:

   * the iteration order of `self.items.keys()` (a hash-map order) is the
     explicit list parameter [keys] of [close_mirror];
   * `zero_todos` is a list of booleans of length prods_len, scanned for its
     first set bit exactly as `iter_set_bits(..).next()` does;
   * `new_ctx` is computed symbol by symbol from the tail after the dot with
     the tables [fs] (YaccFirsts::firsts) and [nl] (is_epsilon_set), and the
     item's own context is OR-ed in when the whole tail is nullable;
   * `Vob::or` returns whether a bit changed; `add` returns that flag (true for
     a vacant entry) and the flag decides whether the production is re-queued;
   * every indexing that can panic is an explicit [Panic]: grm.prod(pidx),
     prod[dot], new_ctx.set(tidx), firsts.firsts(ridx)/rule_to_prods(ridx),
     new_is.items[&(pidx, dot)].  `zero_todos.set(ref_pidx, ..)` cannot be out
     of range in the mirror itself (the list has length prods_len and ref_pidx
     ranges over the productions), so [set_bit] is total;
   * the `loop` runs on fuel ([OutOfFuel] excluded by close_mirror_terminates).

   `rule_to_prods(r)` is taken in increasing production order; the theorems
   show that the result does not depend on any of these orders.
   `dot + 1` in goto is plain addition (index-width overflow is C20's subject). *)
From Coq Require Import List Arith NArith Bool Lia.
From GV Require Import Common.Outcome Base.Grammar Base.Analyses LR.Automaton.
Import ListNotations.

Definition itemset := list item.          (* item = (p, dot, lookahead set) *)
Definition keys_of (s : itemset) : list (N * nat) := map fst s.

Definition key_eqb (p : N) (d : nat) (i : item) : bool := N.eqb (it_p i) p && Nat.eqb (it_d i) d.

(* self.items.get(&(p, d)) *)
Fixpoint lookup (p : N) (d : nat) (s : itemset) : option (list N) :=
  match s with
  | [] => None
  | i :: s' => if key_eqb p d i then Some (it_la i) else lookup p d s'
  end.

(* Vob::or: self |= other; returns true iff a bit of self changed *)
Definition ctx_or (old other : list N) : list N * bool :=
  (unionN other old, negb (subsetN other old)).

(* Itemset::add *)
Fixpoint add (p : N) (d : nat) (c : list N) (s : itemset) : itemset * bool :=
  match s with
  | [] => ([(p, d, c)], true)                           (* Entry::Vacant: insert(ctx.clone()); true *)
  | i :: s' =>
      if key_eqb p d i
      then let (c', ch) := ctx_or (it_la i) c in ((p, d, c') :: s', ch)   (* Entry::Occupied: or *)
      else let (s'', ch) := add p d c s' in (i :: s'', ch)
  end.

(* ---- the bit field zero_todos ------------------------------------------------ *)

(* iter_set_bits(..).next() *)
Fixpoint first_set (l : list bool) : option nat :=
  match l with
  | [] => None
  | b :: l' => if b then Some 0%nat else option_map S (first_set l')
  end.

Fixpoint set_bit (i : nat) (v : bool) (l : list bool) : list bool :=
  match l, i with
  | [], _ => []
  | _ :: l', O => v :: l'
  | b :: l', S i' => b :: set_bit i' v l'
  end.

Definition bit (l : list bool) (q : N) : bool := nth (N.to_nat q) l false.

(* ---- new_ctx ------------------------------------------------------------------- *)

(* the `for sym in prod.iter().skip(dot + 1)` loop: (new_ctx, nullable) *)
Fixpoint tail_ctx (g : grammar) (nl : list N) (fs : list pairN) (l : list sym) (acc : list N)
  : outcome (list N * bool) :=
  match l with
  | [] => Done (acc, true)
  | T t :: _ =>
      if (t <? ntoks g)%N then Done (addN t acc, false)         (* new_ctx.set(tidx, true); break *)
      else Panic
  | R r :: l' =>
      if (r <? nrules g)%N then
        let acc' := unionN (first_of_rule fs r) acc in             (* new_ctx.or(firsts.firsts(ridx)) *)
        if memN r nl then tail_ctx g nl fs l' acc'                 (* is_epsilon_set(ridx) *)
        else Done (acc', false)
      else Panic
  end.

(* grm.rule_to_prods(ridx) *)
Definition rule_to_prods (g : grammar) (r : N) : list N :=
  filter (fun q => N.eqb (lhs g q) r) (pidxs g).

(* for ref_pidx in rule_to_prods(s_ridx): if new_is.add(ref_pidx, 0, &new_ctx) { zero_todos.set(ref_pidx, true) } *)
Fixpoint add_all (qs : list N) (c : list N) (zt : list bool) (s : itemset) : list bool * itemset :=
  match qs with
  | [] => (zt, s)
  | q :: qs' =>
      let (s', ch) := add q 0%nat c s in
      add_all qs' c (if ch then set_bit (N.to_nat q) true zt else zt) s'
  end.

(* the body of the loop after (pidx, dot) has been chosen *)
Definition process (g : grammar) (nl : list N) (fs : list pairN) (p : N) (d : nat)
  (zt : list bool) (s : itemset) : outcome (list bool * itemset) :=
  if negb (is_prodb g p) then Panic else                          (* grm.prod(pidx) *)
  let rh := rhs g p in
  if Nat.eqb d (length rh) then Done (zt, s) else                 (* dot == prod_len: continue *)
  match nth_error rh d with
  | None => Panic                                                 (* prod[dot] *)
  | Some (T _) => Done (zt, s)
  | Some (R r) =>
      if negb (r <? nrules g)%N then Panic else
      do cn <- tail_ctx g nl fs (skipn (S d) rh) [];
      do c <- (if snd cn
               then match lookup p d s with                       (* new_ctx.or(&new_is.items[&(pidx, dot)]) *)
                    | Some own => Done (unionN own (fst cn))
                    | None => Panic
                    end
               else Done (fst cn));
      Done (add_all (rule_to_prods g r) c zt s)
  end.

Fixpoint close_loop (g : grammar) (nl : list N) (fs : list pairN) (fuel : nat)
  (keys : list (N * nat)) (zt : list bool) (s : itemset) : outcome itemset :=
  match fuel with
  | O => OutOfFuel
  | S f =>
      match keys with
      | (p, d) :: ks =>                                            (* keys_iter.next() = Some(..) *)
          do zs <- process g nl fs p d zt s;
          close_loop g nl fs f ks (fst zs) (snd zs)
      | [] =>
          match first_set zt with
          | None => Done s                                         (* break *)
          | Some i =>
              do zs <- process g nl fs (N.of_nat i) 0%nat (set_bit i false zt) s;
              close_loop g nl fs f [] (fst zs) (snd zs)
          end
      end
  end.

(* Itemset::close; [keys] = the order in which self.items.keys() yields the keys *)
Definition close_mirror (g : grammar) (nl : list N) (fs : list pairN)
  (keys : list (N * nat)) (k : itemset) (fuel : nat) : outcome itemset :=
  close_loop g nl fs fuel keys (repeat false (length (prods g))) k.

(* enough fuel for every input (close_mirror_terminates) *)
Definition close_fuel (g : grammar) (keys : list (N * nat)) : nat :=
  length keys + length (prods g) * S (N.to_nat (ntoks g)) + 1.

(* Itemset::goto; the iteration order of `&self.items` is the order of the list *)
Fixpoint goto_loop (g : grammar) (x : sym) (l : list item) (acc : itemset) : outcome itemset :=
  match l with
  | [] => Done acc
  | i :: l' =>
      if negb (is_prodb g (it_p i)) then Panic else               (* grm.prod(pidx) *)
      let rh := rhs g (it_p i) in
      if Nat.eqb (it_d i) (length rh) then goto_loop g x l' acc else
      match nth_error rh (it_d i) with
      | None => Panic                                             (* prod[dot] *)
      | Some y =>
          if sym_eqb x y
          then goto_loop g x l' (fst (add (it_p i) (S (it_d i)) (it_la i) acc))
          else goto_loop g x l' acc
      end
  end.

Definition goto_mirror (g : grammar) (s : itemset) (x : sym) : outcome itemset := goto_loop g x s [].

(* ---- well-formed inputs (decidable, so the correspondence run evaluates it on
        every real core state) ---------------------------------------------------- *)

Fixpoint nodup_keys (l : list (N * nat)) : bool :=
  match l with
  | [] => true
  | k :: l' => negb (existsb (fun k' => N.eqb (fst k) (fst k') && Nat.eqb (snd k) (snd k')) l') && nodup_keys l'
  end.

(* a hash map (distinct keys) of items in range: production index, dot within
   the production, lookahead tokens among the grammar's tokens *)
Definition items_ok (g : grammar) (s : itemset) : bool :=
  nodup_keys (keys_of s) &&
  forallb (fun i => is_prodb g (it_p i) && (it_d i <=? length (rhs g (it_p i)))%nat &&
                    forallb (fun a => (a <? ntoks g)%N) (it_la i)) s.
