(* Completeness of the potential computation of TermSpec.v: on a graph over the
   vertices 0..n-1 with weights 0/1 in which every closed walk has weight 0,
   [pot n E] (n+1 Bellman-Ford rounds of longest-walk weights) passes
   [pot_ok].  Generic part only; the two instances are in TermComplete.v. *)
From Coq Require Import List Arith NArith Bool Lia.
From GV Require Import Base.Grammar Base.Analyses LR.TermSpec.
Import ListNotations.

(* ---- lists ------------------------------------------------------------------------ *)

Lemma dup_split (l : list N) : ~ NoDup l ->
  exists x l1 l2 l3, l = l1 ++ x :: l2 ++ x :: l3.
Proof.
  induction l as [|y l IH]; intros H; [exfalso; apply H; constructor|].
  destruct (in_dec N.eq_dec y l) as [Hin|Hnin].
  - destruct (in_split _ _ Hin) as (l2 & l3 & Hl). subst l.
    exists y, [], l2, l3. reflexivity.
  - destruct IH as (x & l1 & l2 & l3 & Hl).
    + intros Hnd. apply H. constructor; assumption.
    + subst l. exists x, (y :: l1), l2, l3. reflexivity.
Qed.

Lemma pigeonhole n (l : list N) : (forall x, In x l -> N.to_nat x < n) -> n < length l ->
  exists x l1 l2 l3, l = l1 ++ x :: l2 ++ x :: l3.
Proof.
  intros Hall Hlen. apply dup_split. intros Hnd.
  assert (Hincl : incl l (map N.of_nat (seq 0 n))).
  { intros x Hx. apply in_map_iff. exists (N.to_nat x). split; [apply N2Nat.id|].
    apply in_seq. specialize (Hall x Hx). lia. }
  pose proof (NoDup_incl_length Hnd Hincl) as Hle.
  rewrite map_length, seq_length in Hle. lia.
Qed.

Lemma iter_S_r {X} (f : X -> X) k : forall x, iter (S k) f x = f (iter k f x).
Proof.
  induction k as [|k IH]; intros x; [reflexivity|].
  change (iter (S (S k)) f x) with (iter (S k) f (f x)). rewrite IH. reflexivity.
Qed.

Lemma list_last_case {X} (l : list X) : l = [] \/ exists l' x, l = l' ++ [x].
Proof.
  destruct l as [|y l]; [left; reflexivity|]. right.
  destruct (@exists_last X (y :: l)) as (l' & x & H); [discriminate|]. exists l', x. exact H.
Qed.

Lemma pot_at_repeat n r : pot_at (repeat 0 n) r = 0.
Proof.
  unfold pot_at. generalize (N.to_nat r) as i. induction n as [|n IH]; intros [|i]; simpl; auto.
Qed.

Lemma nth_map_seq {X} (F : nat -> X) n i d : i < n -> nth i (map F (seq 0 n)) d = F i.
Proof.
  intros Hi. rewrite (nth_indep _ d (F 0)) by (rewrite map_length, seq_length; exact Hi).
  rewrite map_nth. rewrite seq_nth by exact Hi. reflexivity.
Qed.

(* ---- one Bellman-Ford round ------------------------------------------------------------ *)

Definition best (E : list wedge) (f : list nat) (a : N) : nat :=
  fold_right (fun e m => match e with (x, y, w) =>
                if N.eqb x a then Nat.max m (pot_at f y + w) else m end) 0 E.

Lemma pot_step_at n E f a : N.to_nat a < n -> pot_at (pot_step n E f) a = best E f a.
Proof.
  intros Ha. unfold pot_at at 1, pot_step. rewrite nth_map_seq by exact Ha.
  rewrite N2Nat.id. reflexivity.
Qed.

Lemma best_ge E f a y w : In (a, y, w) E -> pot_at f y + w <= best E f a.
Proof.
  induction E as [|[[x' y'] w'] E IH]; intros Hin; [destruct Hin|].
  cbn [best fold_right]. fold (best E f a). destruct Hin as [Hin|Hin].
  - injection Hin as -> -> ->. rewrite N.eqb_refl. lia.
  - specialize (IH Hin). destruct (N.eqb x' a); lia.
Qed.

Lemma best_witness E f a : best E f a = 0 \/
  exists y w, In (a, y, w) E /\ best E f a = pot_at f y + w.
Proof.
  induction E as [|[[x' y'] w'] E IH]; [left; reflexivity|].
  cbn [best fold_right]. fold (best E f a).
  destruct (N.eqb x' a) eqn:Hx.
  - apply N.eqb_eq in Hx. subst x'.
    destruct (Nat.max_spec (best E f a) (pot_at f y' + w')) as [[_ Hm]|[_ Hm]]; rewrite Hm.
    + right. exists y', w'. split; [left; reflexivity | reflexivity].
    + destruct IH as [IH | (y & w & Hin & IH)]; [left; exact IH|].
      right. exists y, w. split; [right; exact Hin | exact IH].
  - destruct IH as [IH | (y & w & Hin & IH)]; [left; exact IH|].
    right. exists y, w. split; [right; exact Hin | exact IH].
Qed.

(* ---- walks ------------------------------------------------------------------------------- *)

Section Pot.
Variable n : nat.
Variable E : list wedge.
Hypothesis Hrange : forall x y w, In (x, y, w) E -> N.to_nat x < n /\ N.to_nat y < n /\ w <= 1.

(* walk a c l v: from a to c, l = the vertices left (sources of the edges), v = weight *)
Inductive walk : N -> N -> list N -> nat -> Prop :=
| wk_nil a : walk a a [] 0
| wk_cons a b c w l v : In (a, b, w) E -> walk b c l v -> walk a c (a :: l) (w + v).

Hypothesis Hnopos : forall a l v, walk a a l v -> v = 0.

Lemma walk_head x c y l v : walk x c (y :: l) v -> x = y.
Proof. intros H. inversion H; subst. reflexivity. Qed.

Lemma walk_app a x c l1 l2 v1 v2 : walk a x l1 v1 -> walk x c l2 v2 ->
  walk a c (l1 ++ l2) (v1 + v2).
Proof.
  intros H1 H2. induction H1 as [a | a b x w l v Hin H1 IH]; [exact H2|].
  cbn [app]. rewrite <- Nat.add_assoc. apply (wk_cons a b); [exact Hin | apply IH; exact H2].
Qed.

Lemma walk_split l1 : forall a c l2 v, walk a c (l1 ++ l2) v ->
  exists x v1 v2, walk a x l1 v1 /\ walk x c l2 v2 /\ v = v1 + v2.
Proof.
  induction l1 as [|y l1 IH]; intros a c l2 v H.
  - exists a, 0, v. split; [constructor|]. split; [exact H | reflexivity].
  - cbn [app] in H. inversion H as [|a' b c' w l v' Hin Hw]; subst.
    destruct (IH _ _ _ _ Hw) as (x & v1 & v2 & H1 & H2 & Hv).
    exists x, (w + v1), v2. split; [eapply wk_cons; eassumption|]. split; [exact H2 | lia].
Qed.

Lemma walk_weight a c l v : walk a c l v -> v <= length l.
Proof.
  intros H. induction H as [a | a b c w l v Hin H IH]; [simpl; lia|].
  destruct (Hrange _ _ _ Hin) as (_ & _ & Hw). simpl. lia.
Qed.

Lemma walk_range a c l v : walk a c l v -> N.to_nat a < n ->
  N.to_nat c < n /\ forall x, In x l -> N.to_nat x < n.
Proof.
  intros H. induction H as [a | a b c w l v Hin H IH]; intros Ha.
  - split; [exact Ha | intros x []].
  - destruct (Hrange _ _ _ Hin) as (_ & Hb & _). destruct (IH Hb) as [Hc Hl].
    split; [exact Hc|]. intros x [Hx|Hx]; [subst x; exact Ha | apply Hl; exact Hx].
Qed.

(* a walk through at least n edges repeats a vertex; the closed part weighs nothing *)
Lemma walk_shorten_once a c l v : N.to_nat a < n -> walk a c l v -> n <= length l ->
  exists l', walk a c l' v /\ length l' < length l.
Proof.
  intros Ha H Hlen. destruct (walk_range a c l v H Ha) as [Hc Hl].
  destruct (pigeonhole n (l ++ [c])) as (x & l1 & l2 & l3 & Heq).
  - intros y Hy. apply in_app_or in Hy.
    destruct Hy as [Hy|[Hy|[]]]; [apply Hl; exact Hy | subst y; exact Hc].
  - rewrite app_length. simpl. lia.
  - destruct (list_last_case l3) as [Hnil | (l3' & c' & Hl3)].
    + (* the second occurrence is the end point *)
      subst l3.
      replace (l1 ++ x :: l2 ++ [x]) with ((l1 ++ x :: l2) ++ [x]) in Heq
        by (rewrite <- app_assoc; reflexivity).
      apply app_inj_tail in Heq. destruct Heq as [Hl' Hcx]. subst l c.
      destruct (walk_split l1 _ _ _ _ H) as (y & v1 & v2 & H1 & H2 & Hv).
      pose proof (walk_head _ _ _ _ _ H2) as Hy. subst y.
      pose proof (Hnopos _ _ _ H2) as Hz. subst v2.
      exists l1. split; [rewrite Hv, Nat.add_0_r; exact H1|].
      rewrite app_length. simpl. lia.
    + subst l3.
      replace (l1 ++ x :: l2 ++ x :: l3' ++ [c']) with ((l1 ++ x :: l2 ++ x :: l3') ++ [c']) in Heq
        by (rewrite <- !app_assoc; cbn [app]; rewrite <- !app_assoc; reflexivity).
      apply app_inj_tail in Heq. destruct Heq as [Hl' Hcc]. subst l c'.
      destruct (walk_split l1 _ _ _ _ H) as (y & v1 & v2 & H1 & H2 & Hv).
      pose proof (walk_head _ _ _ _ _ H2) as Hy. subst y.
      change (x :: l2 ++ x :: l3') with ((x :: l2) ++ x :: l3') in H2.
      destruct (walk_split (x :: l2) _ _ _ _ H2) as (y & v3 & v4 & H3 & H4 & Hv').
      pose proof (walk_head _ _ _ _ _ H4) as Hy. subst y.
      pose proof (Hnopos _ _ _ H3) as Hz. subst v3.
      exists (l1 ++ x :: l3'). split.
      * replace v with (v1 + v4) by lia. eapply walk_app; eassumption.
      * rewrite !app_length. simpl. rewrite app_length. simpl. lia.
Qed.

Lemma walk_shorten a : N.to_nat a < n -> forall m c l v, length l <= m -> walk a c l v ->
  exists l', walk a c l' v /\ length l' < n.
Proof.
  intros Ha. induction m as [|m IH]; intros c l v Hm H.
  - exists l. split; [exact H | lia].
  - destruct (Nat.lt_ge_cases (length l) n) as [Hlt|Hge]; [exists l; split; assumption|].
    destruct (walk_shorten_once a c l v Ha H Hge) as (l' & H' & Hlt).
    apply (IH c l' v); [lia | exact H'].
Qed.

(* ---- the rounds compute longest-walk weights ------------------------------------------ *)

Definition fk (k : nat) : list nat := iter k (pot_step n E) (repeat 0 n).

Lemma fk_S k a : N.to_nat a < n -> pot_at (fk (S k)) a = best E (fk k) a.
Proof. intros Ha. unfold fk. rewrite iter_S_r. apply pot_step_at. exact Ha. Qed.

Lemma fk_witness : forall k a, N.to_nat a < n ->
  exists c l v, walk a c l v /\ length l <= k /\ pot_at (fk k) a = v.
Proof.
  induction k as [|k IH]; intros a Ha.
  - exists a, [], 0. split; [constructor|]. split; [simpl; lia|]. apply pot_at_repeat.
  - rewrite (fk_S k a Ha). destruct (best_witness E (fk k) a) as [H0 | (y & w & Hin & Hb)].
    + exists a, [], 0. split; [constructor|]. split; [simpl; lia | exact H0].
    + destruct (Hrange _ _ _ Hin) as (_ & Hy & _).
      destruct (IH y Hy) as (c & l & v & Hw & Hl & Hv).
      exists c, (a :: l), (w + v). split; [apply (wk_cons a y); assumption|].
      split; [simpl; lia|]. rewrite Hb, Hv. lia.
Qed.

Lemma fk_dominates a c l v : walk a c l v -> forall k, length l <= k -> N.to_nat a < n ->
  v <= pot_at (fk k) a.
Proof.
  intros H. induction H as [a | a b c w l v Hin H IH]; intros k Hk Ha; [lia|].
  destruct k as [|k]; [simpl in Hk; lia|].
  destruct (Hrange _ _ _ Hin) as (_ & Hb & _).
  specialize (IH k ltac:(simpl in Hk; lia) Hb).
  rewrite (fk_S k a Ha). pose proof (best_ge E (fk k) a b w Hin). lia.
Qed.

Lemma fk_stable k a : N.to_nat a < n -> n <= S k -> pot_at (fk (S k)) a = pot_at (fk k) a.
Proof.
  intros Ha Hk.
  destruct (fk_witness (S k) a Ha) as (c & l & v & Hw & Hl & Hv).
  destruct (walk_shorten a Ha _ c l v (Nat.le_refl _) Hw) as (l' & Hw' & Hl').
  pose proof (fk_dominates a c l' v Hw' k ltac:(lia) Ha) as Hge.
  destruct (fk_witness k a Ha) as (c2 & l2 & v2 & Hw2 & Hl2 & Hv2).
  pose proof (fk_dominates a c2 l2 v2 Hw2 (S k) ltac:(lia) Ha) as Hle.
  lia.
Qed.

Lemma fk_small k a : N.to_nat a < n -> pot_at (fk k) a < n.
Proof.
  intros Ha. destruct (fk_witness k a Ha) as (c & l & v & Hw & Hl & Hv).
  destruct (walk_shorten a Ha _ c l v (Nat.le_refl _) Hw) as (l' & Hw' & Hl').
  pose proof (walk_weight a c l' v Hw'). lia.
Qed.

Lemma pot_complete : pot_ok n E (pot n E) = true.
Proof.
  unfold pot_ok. apply andb_true_iff. split; apply forallb_forall.
  - intros [[x y] w] Hin. apply Nat.leb_le.
    destruct (Hrange _ _ _ Hin) as (Hx & Hy & _).
    change (pot n E) with (fk (S n)).
    rewrite <- (fk_stable (S n) x Hx ltac:(lia)). rewrite (fk_S (S n) x Hx).
    apply best_ge. exact Hin.
  - intros a Hin. apply in_seq in Hin. apply Nat.ltb_lt.
    change (pot n E) with (fk (S n)). apply fk_small. rewrite Nat2N.id. lia.
Qed.

End Pot.
