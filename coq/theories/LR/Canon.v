(* Canonical (unmerged) LR(1) construction — executable reference used by C02.
   It is NOT verified: every automaton it produces is validated with
   validS/validC/validE (whose soundness is proved), which is what makes the
   premise "the grammar is LR(1)" and the comparison trustworthy.
   States are sets of LR(1) items grouped by (production, dot) with their
   lookahead sets, in a canonical sorted form; two states are identified only
   if they are equal as sets of LR(1) items (no merging). *)
From Coq Require Import List Arith NArith Bool Lia.
From GV Require Import Base.Grammar Base.Analyses LR.Automaton LR.Validator.
Import ListNotations.

(* sorted insertion of a token into a lookahead set *)
Fixpoint ins_tok (a : N) (l : list N) : list N :=
  match l with
  | [] => [a]
  | b :: l' => if (a <? b)%N then a :: l else if (a =? b)%N then l else b :: ins_tok a l'
  end.
Definition union_tok (a b : list N) : list N := fold_right ins_tok b a.

Definition key_ltb (p1 : N) (d1 : nat) (p2 : N) (d2 : nat) : bool :=
  (p1 <? p2)%N || ((p1 =? p2)%N && (d1 <? d2)%nat).

(* insert/merge an item into a state kept sorted by (p, d) *)
Fixpoint ins_item (i : item) (l : list item) : list item :=
  match l with
  | [] => [(it_p i, it_d i, union_tok (it_la i) [])]
  | j :: l' =>
      if key_ltb (it_p i) (it_d i) (it_p j) (it_d j) then (it_p i, it_d i, union_tok (it_la i) []) :: l
      else if (it_p i =? it_p j)%N && (it_d i =? it_d j)%nat
           then (it_p j, it_d j, union_tok (it_la i) (it_la j)) :: l'
           else j :: ins_item i l'
  end.

Fixpoint la_count (l : list item) : nat :=
  match l with [] => 0 | i :: l' => S (length (it_la i)) + la_count l' end.

Definition prods_of_rule (g : grammar) (r : N) : list N :=
  filter (fun q => (lhs g q =? r)%N) (pidxs g).

(* one closure round *)
Definition close_step (g : grammar) (nl : list N) (fs : list pairN) (st : list item) : list item :=
  fold_left (fun acc i =>
    match nth_error (rhs g (it_p i)) (it_d i) with
    | Some (R r) =>
        let la' := firstseq_la nl fs (skipn (S (it_d i)) (rhs g (it_p i))) (it_la i) in
        fold_left (fun acc2 q => ins_item (q, 0%nat, la') acc2) (prods_of_rule g r) acc
    | _ => acc
    end) st st.

Fixpoint close_fix (g : grammar) (nl : list N) (fs : list pairN) (fuel : nat) (st : list item) : list item :=
  match fuel with
  | O => st
  | S f => let st' := close_step g nl fs st in
           if (la_count st' =? la_count st)%nat then st' else close_fix g nl fs f st'
  end.

Definition close1 (g : grammar) (nl : list N) (fs : list pairN) (kernel : list item) : list item :=
  let k := fold_left (fun acc i => ins_item i acc) kernel [] in
  close_fix g nl fs (S (length (prods g) * S (N.to_nat (ntoks g)))) k.

(* kernel of the X-successor *)
Definition goto_kernel (g : grammar) (st : list item) (X : sym) : list item :=
  flat_map (fun i => match nth_error (rhs g (it_p i)) (it_d i) with
                     | Some Y => if sym_eqb X Y then [(it_p i, S (it_d i), it_la i)] else []
                     | None => [] end) st.

Fixpoint list_eqb {A} (eqb : A -> A -> bool) (a b : list A) : bool :=
  match a, b with
  | [], [] => true
  | x :: a', y :: b' => eqb x y && list_eqb eqb a' b'
  | _, _ => false
  end.
Definition item_eqb (i j : item) : bool :=
  (it_p i =? it_p j)%N && (it_d i =? it_d j)%nat && list_eqb N.eqb (it_la i) (it_la j).
Definition state_eqb (a b : list item) : bool := list_eqb item_eqb a b.

Fixpoint find_state (st : list item) (l : list (list item)) (i : nat) : option nat :=
  match l with
  | [] => None
  | s :: l' => if state_eqb st s then Some i else find_state st l' (S i)
  end.

(* work-list construction: [sts] = all states found so far (index = state
   number), [next] = index of the next state to expand *)
Fixpoint build (g : grammar) (nl : list N) (fs : list pairN) (fuel : nat)
  (sts : list (list item)) (edges : list (N * list (sym * N))) (next : nat)
  : option (list (list item) * list (N * list (sym * N))) :=
  match fuel with
  | O => None
  | S f =>
      match nth_error sts next with
      | None => Some (sts, edges)
      | Some st =>
          let '(sts', es) :=
            fold_left (fun '(cur, es) X =>
              match goto_kernel g st X with
              | [] => (cur, es)
              | k => let tgt := close1 g nl fs k in
                     match find_state tgt cur 0 with
                     | Some j => (cur, (X, N.of_nat j) :: es)
                     | None => (cur ++ [tgt], (X, N.of_nat (length cur)) :: es)
                     end
              end) (all_syms g) (sts, []) in
          build g nl fs f sts' (edges ++ [(N.of_nat next, rev es)]) (S next)
      end
  end.

(* table cells from item sets: shifts from terminal edges, reductions from
   complete items; a cell with two candidates makes the grammar not LR(1) *)
Definition cell_candidates (g : grammar) (st : list item) (es : list (sym * N)) (a : N) : list act :=
  (match assoc_sym (T a) es with Some s' => [Shift s'] | None => [] end) ++
  flat_map (fun i => if (it_d i =? length (rhs g (it_p i)))%nat && memN a (it_la i)
                     then [if (it_p i =? start_prod g)%N then Accept else Reduce (it_p i)] else []) st.

Record canon := mkCanon { c_dump : dump; c_conflicts : nat }.

Definition canon_lr1 (g : grammar) (max_states : nat) : option canon :=
  match first_ref g with
  | None => None
  | Some (nl, fs) =>
      let s0 := close1 g nl fs [(start_prod g, 0%nat, [eof g])] in
      match build g nl fs max_states [s0] [] 0 with
      | None => None
      | Some (sts, edges) =>
          let n := length sts in
          let idx := map N.of_nat (seq 0 n) in
          let cl := combine idx sts in
          let cells := map (fun '(s, st) =>
              let es := odefault [] (assocN s edges) in
              (s, map (fun a => (a, cell_candidates g st es a)) (tidxs g))) cl in
          let conflicts := fold_left (fun acc '(_, row) =>
              fold_left (fun acc2 '(_, c) => if (1 <? length c)%nat then S acc2 else acc2) row acc) cells 0 in
          let actions := map (fun '(s, row) =>
              (s, flat_map (fun '(a, c) => match c with x :: _ => [(a, x)] | [] => [] end) row)) cells in
          let gotos := map (fun '(s, es) =>
              (s, flat_map (fun '(X, t) => match X with R r => [(r, t)] | T _ => [] end) es)) edges in
          Some {| c_dump := {| d_nstates := N.of_nat n; d_start := 0%N; d_closed := cl; d_core := [];
                               d_edges := edges; d_actions := actions; d_gotos := gotos |};
                  c_conflicts := conflicts |}
      end
  end.
