(* Non-vacuity of the validator theorems: the implementation's own table for the
   calculator grammar (dumped by harness/src/bin/lr.rs from /repo and pasted as
   a literal) passes every validator, and the interpreter accepts "n + n * n". *)
From Coq Require Import List NArith Bool.
From GV Require Import Base.Grammar Base.Analyses LR.Automaton LR.Validator LR.Spec.
Import ListNotations.
Open Scope N_scope.

Definition calc_grammar : grammar :=
  mkGrammar 6 4 [(1, [R 1; T 0; R 2]); (1, [R 2]); (2, [R 2; T 1; R 3]); (2, [R 3]); (3, [T 2; R 1; T 3]); (3, [T 4]); (0, [R 1])] 6 5.

Definition calc_dump : dump :=
  mkDump 12 0
    [(0, [(0, 0%nat, [0; 5]); (1, 0%nat, [0; 5]); (2, 0%nat, [0; 1; 5]); (3, 0%nat, [0; 1; 5]); (4, 0%nat, [0; 1; 5]); (5, 0%nat, [0; 1; 5]); (6, 0%nat, [5])]); (1, [(5, 1%nat, [0; 1; 3; 5])]); (2, [(0, 0%nat, [0; 3]); (1, 0%nat, [0; 3]); (2, 0%nat, [0; 1; 3]); (3, 0%nat, [0; 1; 3]); (4, 0%nat, [0; 1; 3]); (4, 1%nat, [0; 1; 3; 5]); (5, 0%nat, [0; 1; 3])]); (3, [(0, 1%nat, [0; 5]); (6, 1%nat, [5])]); (4, [(1, 1%nat, [0; 3; 5]); (2, 1%nat, [0; 1; 3; 5])]); (5, [(3, 1%nat, [0; 1; 3; 5])]); (6, [(0, 1%nat, [0; 3]); (4, 2%nat, [0; 1; 3; 5])]); (7, [(0, 2%nat, [0; 3; 5]); (2, 0%nat, [0; 1; 3; 5]); (3, 0%nat, [0; 1; 3; 5]); (4, 0%nat, [0; 1; 3; 5]); (5, 0%nat, [0; 1; 3; 5])]); (8, [(2, 2%nat, [0; 1; 3; 5]); (4, 0%nat, [0; 1; 3; 5]); (5, 0%nat, [0; 1; 3; 5])]); (9, [(4, 3%nat, [0; 1; 3; 5])]); (10, [(0, 3%nat, [0; 3; 5]); (2, 1%nat, [0; 1; 3; 5])]); (11, [(2, 3%nat, [0; 1; 3; 5])])]
    [(0, [(6, 0%nat, [5])]); (1, [(5, 1%nat, [0; 1; 3; 5])]); (2, [(4, 1%nat, [0; 1; 3; 5])]); (3, [(0, 1%nat, [0; 5]); (6, 1%nat, [5])]); (4, [(1, 1%nat, [0; 3; 5]); (2, 1%nat, [0; 1; 3; 5])]); (5, [(3, 1%nat, [0; 1; 3; 5])]); (6, [(0, 1%nat, [0; 3]); (4, 2%nat, [0; 1; 3; 5])]); (7, [(0, 2%nat, [0; 3; 5])]); (8, [(2, 2%nat, [0; 1; 3; 5])]); (9, [(4, 3%nat, [0; 1; 3; 5])]); (10, [(0, 3%nat, [0; 3; 5]); (2, 1%nat, [0; 1; 3; 5])]); (11, [(2, 3%nat, [0; 1; 3; 5])])]
    [(0, [(R 1, 3); (T 2, 2); (R 2, 4); (R 3, 5); (T 4, 1)]); (1, []); (2, [(R 1, 6); (T 2, 2); (R 2, 4); (R 3, 5); (T 4, 1)]); (3, [(T 0, 7)]); (4, [(T 1, 8)]); (5, []); (6, [(T 0, 7); (T 3, 9)]); (7, [(T 2, 2); (R 2, 10); (R 3, 5); (T 4, 1)]); (8, [(T 2, 2); (R 3, 11); (T 4, 1)]); (9, []); (10, [(T 1, 8)]); (11, [])]
    [(0, [(2, Shift 2); (4, Shift 1)]); (1, [(0, Reduce 5); (1, Reduce 5); (3, Reduce 5); (5, Reduce 5)]); (2, [(2, Shift 2); (4, Shift 1)]); (3, [(0, Shift 7); (5, Accept)]); (4, [(0, Reduce 1); (1, Shift 8); (3, Reduce 1); (5, Reduce 1)]); (5, [(0, Reduce 3); (1, Reduce 3); (3, Reduce 3); (5, Reduce 3)]); (6, [(0, Shift 7); (3, Shift 9)]); (7, [(2, Shift 2); (4, Shift 1)]); (8, [(2, Shift 2); (4, Shift 1)]); (9, [(0, Reduce 4); (1, Reduce 4); (3, Reduce 4); (5, Reduce 4)]); (10, [(0, Reduce 0); (1, Shift 8); (3, Reduce 0); (5, Reduce 0)]); (11, [(0, Reduce 2); (1, Reduce 2); (3, Reduce 2); (5, Reduce 2)])]
    [(0, [(1, 3); (2, 4); (3, 5)]); (1, []); (2, [(1, 6); (2, 4); (3, 5)]); (3, []); (4, []); (5, []); (6, []); (7, [(2, 10); (3, 5)]); (8, [(3, 11)]); (9, []); (10, []); (11, [])].

Definition calc_automaton : automaton := of_dump calc_dump.

Example calc_wf : wf_grammar calc_grammar = true.
Proof. vm_compute. reflexivity. Qed.

Example calc_table_valid :
  validS calc_grammar calc_automaton = true /\ validC calc_grammar calc_automaton = true /\
  validE calc_grammar calc_automaton = true /\ single_candidate calc_grammar calc_automaton = true.
Proof. vm_compute. repeat split. Qed.

(* tokens: '+'=0 '*'=1 '('=2 ')'=3 'n'=4 *)
Example calc_accepts :
  exists t, run calc_grammar calc_automaton 100 [4; 0; 4; 1; 4] = RAccept t.
Proof. eexists. vm_compute. reflexivity. Qed.

Example calc_rejects :
  run calc_grammar calc_automaton 100 [4; 0; 0] = RReject 2 7.
Proof. vm_compute. reflexivity. Qed.
