(* The table-driven LR loop returns (TermSpec.v):
     - every step adds exactly one node to the forest on the stack,
     - the forest of a reachable configuration is bounded (TermTrees.v: sizes of
       trees; TermStack.v: number of trees),
   hence [run] with [lr_fuel] never answers [ROutOfFuel].
   Also the refutation of the [validS]-only statement (witness: TermRefute.v). *)
From Coq Require Import List Arith NArith Bool Lia.
From GV Require Import Base.Grammar Base.GrammarFacts Base.Analyses
  LR.Automaton LR.Validator LR.Spec LR.Sound
  LR.TermSpec LR.TermGraph LR.TermTrees LR.TermStack LR.TermRefute.
Import ListNotations.

(* ---- one step, one node ------------------------------------------------------------ *)

Definition csize (c : stack * nat) : nat := forest_size (map snd (fst c)).

Lemma step_size g A input c c' : step g A input c = inl c' -> csize c' = S (csize c).
Proof.
  destruct c as [stk pos]. unfold step, csize.
  destruct (action A (top A stk) (la g input pos)) as [s'|p| |].
  - intros H. injection H as H. subst c'. reflexivity.
  - destruct (length stk <? length (rhs g p))%nat eqn:Hlt; [discriminate|].
    destruct (goto A _ (lhs g p)) as [s'|]; [|discriminate].
    intros H. injection H as H. subst c'. cbn [fst map snd forest_size fold_right].
    fold (forest_size (map snd (skipn (length (rhs g p)) stk))).
    rewrite tree_size_node, forest_size_rev.
    rewrite <- (firstn_skipn (length (rhs g p)) stk) at 3.
    rewrite map_app, forest_size_app. lia.
  - destruct (rev stk) as [|[s [a i|q k]] l]; discriminate.
  - discriminate.
Qed.

Lemma step_not_out_of_fuel g A input c : step g A input c <> inr ROutOfFuel.
Proof.
  destruct c as [stk pos]. unfold step.
  destruct (action A (top A stk) (la g input pos)) as [s'|p| |].
  - discriminate.
  - destruct (length stk <? length (rhs g p))%nat; [discriminate|].
    destruct (goto A _ (lhs g p)); discriminate.
  - destruct (rev stk) as [|[s [a i|q k]] l]; discriminate.
  - discriminate.
Qed.

(* ---- the forest of a reachable configuration is bounded ---------------------------- *)

Lemma flat_map_rev_length {X Y} (f : X -> list Y) l :
  length (flat_map f (rev l)) = length (flat_map f l).
Proof.
  induction l as [|x l IH]; [reflexivity|].
  simpl. rewrite flat_map_app, !app_length, IH. simpl. rewrite app_nil_r. lia.
Qed.

Lemma inv_lv g A input c : inv g A input c -> lv (fst c) = snd c.
Proof.
  destruct c as [stk pos]. intros (_ & Hpos & Hlv). cbn [fst snd] in *.
  unfold lv. rewrite <- flat_map_rev_length. fold (stack_leaves stk). rewrite Hlv.
  rewrite combine_length, firstn_length, seq_length. lia.
Qed.

Section Bound.
Variable g : grammar.
Variable A : automaton.
Hypothesis Hwf : wf_grammar g = true.
Hypothesis HS : validS g A = true.
Hypothesis HE : validE g A = true.
Hypothesis Hac : acyclic_b g = true.
(* a left-corner potential on a set P of rules that contains the start rule and
   is closed under "occurs in a production of" *)
Variable nl2 : list N.
Variable rho : N -> nat.
Variable P : N -> Prop.
Hypothesis Hcl2 : nullable_closed g nl2 = true.
Hypothesis Hpot : hl_pot_on P g nl2 rho (N.to_nat (nrules g)).
Hypothesis HPstart : P (start_rule g).
Hypothesis HPstep : forall p b, is_prod g p -> P (lhs g p) -> In (R b) (rhs g p) -> P b.
Variable input : list N.

Let Rk := N.to_nat (nrules g).
Let M := maxrhs g.
Let n := length input.
Let E := eps_size M Rk.
Let H := (n + 1) * M * (Rk + 1).
Let B := H * E + n * Qc g.

Lemma fuel_is_bound : lr_fuel g input = S B.
Proof. reflexivity. Qed.

Lemma inv_height c : inv g A input c -> length (fst c) <= H.
Proof.
  intros Hinv. pose proof (inv_lv g A input c Hinv) as Hlv.
  destruct c as [stk pos]. destruct Hinv as (Hc & Hpos & _). cbn [fst snd] in *.
  destruct stk as [|e stk']; [simpl; lia|].
  assert (Hne : e :: stk' <> []) by discriminate.
  destruct (stack_spine g A HS HE _ Hc Hne) as (p & d & Hsp).
  pose proof (spine_height g nl2 rho P Hwf Hcl2 Hpot HPstart HPstep
                _ p d (chain_valid g A _ Hc) Hsp) as Hh.
  etransitivity; [exact Hh|]. rewrite Hlv. unfold H.
  apply Nat.mul_le_mono_r. apply Nat.mul_le_mono_r. unfold n. lia.
Qed.

Lemma inv_size c : inv g A input c -> csize c <= B.
Proof.
  intros Hinv. pose proof (inv_lv g A input c Hinv) as Hlv.
  pose proof (inv_height c Hinv) as Hh.
  destruct c as [stk pos]. pose proof Hinv as (Hc & Hpos & _). cbn [fst snd] in *.
  destruct (acyclic_b_cert g Hac) as (nl & rk & Hcl & Hrk).
  pose proof (forest_bound g nl rk Hwf Hcl Hrk _ (chain_valid g A _ Hc)) as Hf.
  unfold csize. cbn [fst]. etransitivity; [exact Hf|].
  rewrite map_length. fold (lv stk). rewrite Hlv. unfold B. fold M Rk E.
  apply Nat.add_le_mono.
  - apply Nat.mul_le_mono_r. exact Hh.
  - apply Nat.mul_le_mono_r. exact Hpos.
Qed.

Hypothesis Hrng : tokens_in_range g input.

Lemma run_from_returns : forall fuel c, inv g A input c -> B < csize c + fuel ->
  run_from g A input fuel c <> ROutOfFuel.
Proof.
  induction fuel as [|fuel IH]; intros c Hinv Hlt.
  - pose proof (inv_size c Hinv). lia.
  - cbn [run_from]. destruct (step g A input c) as [c'|r] eqn:Hstep.
    + apply IH.
      * exact (step_preserves g A input Hwf HS Hrng c c' Hinv Hstep).
      * rewrite (step_size g A input c c' Hstep). lia.
    + intros Hr. subst r. exact (step_not_out_of_fuel g A input c Hstep).
Qed.

Lemma run_returns : run g A (lr_fuel g input) input <> ROutOfFuel.
Proof.
  unfold run. apply run_from_returns; [apply inv_init|].
  rewrite fuel_is_bound. unfold csize. simpl. lia.
Qed.

End Bound.

(* ---- the theorems --------------------------------------------------------------------- *)

Lemma lr_terminates_b : lr_terminates_b_stmt.
Proof.
  intros g A Hwf HS HE Hac Hhl input Hrng.
  destruct (hlr_free_b_cert g Hhl) as (nl & rho & Hcl & Hpot).
  exact (run_returns g A Hwf HS HE Hac nl rho (fun _ => True) Hcl (hl_pot_on_all g nl rho _ Hpot) I
           (fun _ _ _ _ _ => I) input Hrng).
Qed.

Lemma lr_terminates_b_exists : lr_terminates_b_exists_stmt.
Proof.
  intros g A Hwf HS HE Hac Hhl input Hrng _. exists (lr_fuel g input).
  exact (lr_terminates_b g A Hwf HS HE Hac Hhl input Hrng).
Qed.

Lemma lr_terminates_validS_only_refuted : lr_terminates_validS_only_refuted_stmt.
Proof.
  exists spin_grammar, spin_automaton, [1%N].
  split; [exact spin_wf|]. split; [exact spin_validS|]. split; [exact spin_validE|].
  split; [exact (acyclic_b_sound spin_grammar spin_acyclic_b)|].
  split; [repeat constructor|].
  split; [intros [H|[]]; discriminate H|].
  exact spin_runs_forever.
Qed.

Lemma lr_terminates_validS_only_false : ~ lr_terminates_validS_only_stmt.
Proof.
  intros H.
  destruct lr_terminates_validS_only_refuted
    as (g & A & input & Hwf & HS & _ & Hac & Hrng & Hno & Hloop).
  destruct (H g A Hwf HS Hac input Hrng Hno) as (fuel & Hfin).
  apply Hfin. apply Hloop.
Qed.
