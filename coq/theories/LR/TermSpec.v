(* Termination of the table-driven LR loop (lifts the limit "termination of the
   real parser is observed under a watchdog, not proved").

   Definitions and statements only; proofs in TermGraph.v / TermTrees.v /
   TermStack.v / TermProofs.v / TermRefute.v.

   What is stated here
   -------------------
   * [acyclic g]: no rule derives just itself in one or more steps (sentential
     forms), and a boolean certificate checker [acyclic_b] with
     [acyclic_b g = true -> acyclic g].
   * [hlr_free g]: no *hidden left recursion*: no rule C with
     C =>+ nu C delta where nu is a NON-EMPTY string of symbols deriving the
     empty string (plain left recursion, nu = [], is allowed).  Boolean
     certificate checker [hlr_free_b] with [hlr_free_b g = true -> hlr_free g].
     Every LR(k) grammar (reduced) is free of hidden left recursion: the parser
     would have to push an unknown number of empty nu's before the first token
     of C; on the other hand a table with RESOLVED CONFLICTS for a grammar that
     has hidden left recursion can spin for ever on an epsilon-reduction
     ([lr_terminates_validS_only_refuted_stmt]).
   * [lr_fuel]: an explicit fuel bound, a function of |input|, the number of
     rules and the maximal production length only.
   * [lr_terminates_stmt]: for every automaton passing [validS] and [validE]
     (NO completeness condition: conflict-resolved tables are covered) over an
     acyclic grammar without hidden left recursion, the interpreter returns on
     every input within [lr_fuel].  [lr_terminates_b_stmt]: the same with the
     two boolean certificates as hypotheses (what a check evaluates on a dump).
   * [lr_terminates_validated_stmt]: for validated complete (conflict-free)
     tables -- validS, validC, validE, productive and acyclic grammar -- nothing
     is assumed about hidden left recursion: validC excludes it for every rule
     that occurs in a sentential form (TermHLR.v). *)
From Coq Require Import List Arith NArith Bool Lia.
From GV Require Import Base.Grammar Base.Analyses LR.Automaton LR.Validator LR.Spec.
Import ListNotations.

(* ---- derivations in one or more steps; acyclicity -------------------------- *)

(* the first step is explicit; the rest is [derives] *)
Definition derives_plus (g : grammar) (a b : list sym) : Prop :=
  exists x p y, is_prod g p /\ a = x ++ R (lhs g p) :: y /\ derives g (x ++ rhs g p ++ y) b.

(* "no rule can derive just itself" *)
Definition acyclic (g : grammar) : Prop := forall r, ~ derives_plus g [R r] [R r].

(* ---- hidden left recursion --------------------------------------------------- *)

(* one left-corner step through a prefix deriving the empty string; the flag
   says whether that prefix is non-empty *)
Definition is_nil {X} (l : list X) : bool := match l with [] => true | _ => false end.

Definition hl_step (g : grammar) (a b : N) (m : bool) : Prop :=
  exists p al be, is_prod g p /\ lhs g p = a /\ rhs g p = al ++ R b :: be /\
                  derives g al [] /\ m = negb (is_nil al).

(* paths of left-corner steps; the flag is the disjunction of the steps' flags *)
Inductive hl_path (g : grammar) : N -> N -> bool -> Prop :=
| hp_one a b m : hl_step g a b m -> hl_path g a b m
| hp_cons a b c m m' : hl_step g a b m -> hl_path g b c m' -> hl_path g a c (m || m').

Definition hlr_free (g : grammar) : Prop := forall r, ~ hl_path g r r true.

(* ---- the two graphs, as edge lists over a nullable set ------------------------ *)

(* every way of writing r = al ++ R b :: be *)
Definition rule_splits (r : list sym) : list (list sym * N * list sym) :=
  flat_map (fun i => match nth_error r i with
                     | Some (R b) => [(firstn i r, b, skipn (S i) r)]
                     | _ => []
                     end) (seq 0 (length r)).

(* weighted edges (from, to, weight) *)
Definition wedge := (N * N * nat)%type.

(* a -> b (weight 1) when a has a production  al b be  with al, be nullable *)
Definition unit_edges (g : grammar) (nl : list N) : list wedge :=
  flat_map (fun pr =>
    flat_map (fun s => match s with (al, b, be) =>
      if nullable_seq nl al && nullable_seq nl be then [(fst pr, b, 1%nat)] else [] end)
      (rule_splits (snd pr))) (prods g).

(* a -> b when a has a production  al b be  with al nullable; weight 1 when al
   is non-empty, 0 otherwise *)
Definition hl_edges (g : grammar) (nl : list N) : list wedge :=
  flat_map (fun pr =>
    flat_map (fun s => match s with (al, b, be) =>
      if nullable_seq nl al then [(fst pr, b, if is_nil al then 0%nat else 1%nat)] else [] end)
      (rule_splits (snd pr))) (prods g).

(* ---- potentials: longest-walk weights by Bellman-Ford rounds ------------------- *)

Definition pot_at (f : list nat) (r : N) : nat := nth (N.to_nat r) f 0%nat.

Definition pot_step (n : nat) (E : list wedge) (f : list nat) : list nat :=
  map (fun a =>
         fold_right (fun e m => match e with (x, y, w) =>
                       if N.eqb x (N.of_nat a) then Nat.max m (pot_at f y + w) else m end)
                    0%nat E)
      (seq 0 n).

Definition pot (n : nat) (E : list wedge) : list nat :=
  iter (S n) (pot_step n E) (repeat 0%nat n).

(* the certificate check: the potential dominates every edge and stays below n *)
Definition pot_ok (n : nat) (E : list wedge) (f : list nat) : bool :=
  forallb (fun e => match e with (x, y, w) => (pot_at f y + w <=? pot_at f x)%nat end) E &&
  forallb (fun a => (pot_at f (N.of_nat a) <? n)%nat) (seq 0 n).

Definition rank_of (g : grammar) (nl : list N) : list nat :=
  pot (N.to_nat (nrules g)) (unit_edges g nl).
Definition hpot_of (g : grammar) (nl : list N) : list nat :=
  pot (N.to_nat (nrules g)) (hl_edges g nl).

Definition acyclic_b (g : grammar) : bool :=
  match nullable_ref g with
  | Some nl => pot_ok (N.to_nat (nrules g)) (unit_edges g nl) (rank_of g nl)
  | None => false
  end.

Definition hlr_free_b (g : grammar) : bool :=
  match nullable_ref g with
  | Some nl => pot_ok (N.to_nat (nrules g)) (hl_edges g nl) (hpot_of g nl)
  | None => false
  end.

(* ---- the fuel bound --------------------------------------------------------------- *)

Definition maxrhs (g : grammar) : nat :=
  fold_right (fun pr m => Nat.max (length (snd pr)) m) 0%nat (prods g).

(* size of a tree with empty yield whose root has rank r: every child has a
   smaller rank *)
Fixpoint eps_size (M : nat) (r : nat) : nat :=
  match r with O => 1 | S r' => 1 + M * eps_size M r' end.

(* n = |input|, Rk = number of rules, M = maximal production length:
     E  = bound on the size of a tree with empty yield
     Q  = bound on (size of a tree with m >= 1 leaves) / m
     H  = bound on the height of the parse stack after <= n shifts
   every step adds exactly one node to the forest on the stack, whose size is
   at most  H * E + n * Q *)
Definition lr_fuel_n (Rk M n : nat) : nat :=
  let E := eps_size M Rk in
  let Q := 1 + 2 * (1 + M * E) * Rk in
  let H := (n + 1) * M * (Rk + 1) in
  S (H * E + n * Q).

Definition lr_fuel (g : grammar) (input : list N) : nat :=
  lr_fuel_n (N.to_nat (nrules g)) (maxrhs g) (length input).

(* ---- statements ---------------------------------------------------------------------- *)

Definition acyclic_b_sound_stmt : Prop := forall g, acyclic_b g = true -> acyclic g.
Definition hlr_free_b_sound_stmt : Prop := forall g, hlr_free_b g = true -> hlr_free g.

(* the property as first asked: FALSE (a conflict-resolved table passes validS,
   the grammar is acyclic, and the loop spins on one lexeme) *)
Definition lr_terminates_validS_only_stmt : Prop :=
  forall g A, wf_grammar g = true -> validS g A = true -> acyclic g ->
  forall input, tokens_in_range g input -> no_eof g input ->
    exists fuel, finished (run g A fuel input).

Definition lr_terminates_validS_only_refuted_stmt : Prop :=
  exists g A input,
    wf_grammar g = true /\ validS g A = true /\ validE g A = true /\ acyclic g /\
    tokens_in_range g input /\ no_eof g input /\
    forall fuel, run g A fuel input = ROutOfFuel.

(* the certificate form: what a check evaluates on a dump *)
Definition lr_terminates_b_stmt : Prop :=
  forall g A, wf_grammar g = true -> validS g A = true -> validE g A = true ->
    acyclic_b g = true -> hlr_free_b g = true ->
  forall input, tokens_in_range g input ->
    run g A (lr_fuel g input) input <> ROutOfFuel.

Definition lr_terminates_b_exists_stmt : Prop :=
  forall g A, wf_grammar g = true -> validS g A = true -> validE g A = true ->
    acyclic_b g = true -> hlr_free_b g = true ->
  forall input, tokens_in_range g input -> no_eof g input ->
    exists fuel, finished (run g A fuel input).

(* the certificate checkers are complete for well-formed grammars, so the
   hypotheses can be stated declaratively *)
Definition acyclic_b_complete_stmt : Prop :=
  forall g, wf_grammar g = true -> acyclic g -> acyclic_b g = true.
Definition hlr_free_b_complete_stmt : Prop :=
  forall g, wf_grammar g = true -> hlr_free g -> hlr_free_b g = true.

(* THE termination theorem, declarative hypotheses: every automaton passing
   validS and validE (validC is NOT needed) over a grammar in which no rule
   derives just itself and without hidden left recursion returns on every input
   within [lr_fuel] *)
Definition lr_terminates_stmt : Prop :=
  forall g A, wf_grammar g = true -> validS g A = true -> validE g A = true ->
    acyclic g -> hlr_free g ->
  forall input, tokens_in_range g input ->
    (exists fuel, finished (run g A fuel input)) /\
    run g A (lr_fuel g input) input <> ROutOfFuel.

(* for validated complete (conflict-free) tables nothing has to be assumed about
   hidden left recursion: validC excludes it for the rules that matter.
   Hypotheses: the three validators, every rule derives a token string, no rule
   derives just itself *)
Definition lr_terminates_validated_stmt : Prop :=
  forall g A, wf_grammar g = true ->
    validS g A = true -> validC g A = true -> validE g A = true ->
    productive g -> acyclic g ->
  forall input, tokens_in_range g input -> no_eof g input ->
    (exists fuel, finished (run g A fuel input)) /\
    run g A (lr_fuel g input) input <> ROutOfFuel.
