(* Termination for validated conflict-free tables: validS + validC + validE,
   productive and acyclic grammar.  The left-corner potential needed by the
   stack-height bound is computed on the rules that occur in sentential forms
   (TermHLR.reachable_hlr_free excludes hidden left recursion there). *)
From Coq Require Import List Arith NArith Bool Lia.
From GV Require Import Base.Grammar Base.GrammarFacts Base.Analyses Base.AnalysesProofs
  LR.Automaton LR.Validator LR.Spec LR.Sound
  LR.TermSpec LR.TermGraph LR.TermPot LR.TermProofs LR.TermComplete LR.TermHLR.
Import ListNotations.

(* ---- sreach is decidable through the reachability reference --------------------------- *)

Lemma sreach_reaches g r : sreach g r -> r = start_rule g \/ reaches g (start_rule g) r.
Proof.
  intros H. induction H as [|p b _ IH Hp Hin]; [left; reflexivity|]. right.
  destruct IH as [IH|IH].
  - exact (r_direct g p _ b Hp IH Hin).
  - eapply r_trans; [exact IH|]. exact (r_direct g p _ b Hp eq_refl Hin).
Qed.

Lemma reaches_sreach g a b : reaches g a b -> sreach g a -> sreach g b.
Proof.
  intros H. induction H as [p a b Hp Hl Hin | a b c _ IH1 _ IH2]; intros Ha.
  - subst a. exact (sr_step g p b Ha Hp Hin).
  - apply IH2, IH1, Ha.
Qed.

Definition reachable_b (g : grammar) (rs : list pairN) (r : N) : bool :=
  N.eqb r (start_rule g) || memP (start_rule g, r) rs.

Lemma reachable_b_spec g rs r : reach_ref g = Some rs ->
  reachable_b g rs r = true <-> sreach g r.
Proof.
  intros Hrs. pose proof (reach_ref_exact' g rs Hrs) as Hex. unfold reachable_b.
  rewrite orb_true_iff, N.eqb_eq, memP_In, Hex. split.
  - intros [H|H]; [subst r; constructor | exact (reaches_sreach g _ _ H (sr_start g))].
  - apply sreach_reaches.
Qed.

(* ---- walks in a sub-graph ---------------------------------------------------------------- *)

Lemma walk_incl E' E a c l v : incl E' E -> walk E' a c l v -> walk E a c l v.
Proof.
  intros Hi H. induction H as [a | a b c w l v Hin _ IH]; [constructor|].
  eapply wk_cons; [apply Hi; exact Hin | exact IH].
Qed.

Lemma walk_first_edge E a c z l v : walk E a c (z :: l) v -> exists b w, In (a, b, w) E.
Proof. intros H. inversion H; subst. eauto. Qed.

(* ---- the potential ----------------------------------------------------------------------- *)

Section Validated.
Variable g : grammar.
Variable A : automaton.
Hypothesis Hwf : wf_grammar g = true.
Hypothesis HS : validS g A = true.
Hypothesis HC : validC g A = true.
Hypothesis Hprod : productive g.
Hypothesis Hac : acyclic g.

Lemma reachable_potential :
  exists nl rho, nullable_closed g nl = true /\
    hl_pot_on (sreach g) g nl rho (N.to_nat (nrules g)).
Proof.
  destruct (nullable_ref g) as [nl|] eqn:Hnl; [|exfalso; exact (nullable_ref_total g Hwf Hnl)].
  destruct (reach_ref g) as [rs|] eqn:Hrs; [|exfalso; exact (reach_ref_total g Hwf Hrs)].
  set (n := N.to_nat (nrules g)).
  set (E' := filter (fun e : wedge => reachable_b g rs (fst (fst e))) (hl_edges g nl)).
  assert (Hincl : incl E' (hl_edges g nl)) by (intros e He; apply filter_In in He; tauto).
  assert (Hok : pot_ok n E' (pot n E') = true).
  { apply pot_complete.
    - intros x y w Hin. apply Hincl in Hin.
      destruct (In_hl_edges_inv g nl x y w Hin) as (p & al & be & Hp & Hl & Hr & _ & Hw).
      destruct (split_range g p al y be Hwf Hp Hr) as [H1 H2]. rewrite Hl in H1.
      split; [exact H1|]. split; [exact H2|]. subst w. destruct (is_nil al); lia.
    - intros a l v H. destruct l as [|z l]; [inversion H; reflexivity|].
      destruct v as [|v]; [reflexivity|]. exfalso.
      destruct (walk_first_edge E' a a z l (S v) H) as (b & w & Hin).
      apply filter_In in Hin. destruct Hin as [_ Hreach]. cbn [fst] in Hreach.
      apply (reachable_b_spec g rs a Hrs) in Hreach.
      apply (reachable_hlr_free g Hwf Hprod A HS HC Hac a Hreach).
      apply (hl_walk_path g nl Hnl a a (z :: l) (S v)); [|discriminate].
      exact (walk_incl E' _ _ _ _ _ Hincl H). }
  apply pot_ok_spec in Hok. destruct Hok as [H1 H2].
  exists nl, (pot_at (pot n E')). split; [exact (proj2 (nullable_ref_inv g nl Hnl))|]. split.
  - intros p al b be Hp Hreach Hr Ha. apply H1. apply filter_In. split.
    + exact (In_hl_edges g nl p al b be Hp Hr Ha).
    + cbn [fst]. apply (reachable_b_spec g rs _ Hrs). exact Hreach.
  - intros r Hr. apply H2. unfold n. lia.
Qed.

End Validated.

Lemma lr_terminates_validated : lr_terminates_validated_stmt.
Proof.
  intros g A Hwf HS HC HE Hprod Hac input Hrng _.
  destruct (reachable_potential g A Hwf HS HC Hprod Hac) as (nl & rho & Hcl & Hpot).
  pose proof (run_returns g A Hwf HS HE (acyclic_b_complete g Hwf Hac) nl rho (sreach g) Hcl Hpot
                (sr_start g) (fun p b Hp Hl Hin => sr_step g p b Hl Hp Hin) input Hrng) as H.
  split; [exists (lr_fuel g input)|]; exact H.
Qed.
