(* Statements about the LR interpreter and the validators (C01, C02, C04).
   Proved in Sound.v / Complete.v / Prefix.v / Agree.v. *)
From Coq Require Import List Arith NArith Bool Lia.
From GV Require Import Base.Grammar Base.Analyses LR.Automaton LR.Validator.
Import ListNotations.

(* the lexer never produces the (unnamed) end-of-input token *)
Definition no_eof (g : grammar) (input : list N) : Prop := ~ In (eof g) input.

(* every input token is one of the grammar's tokens (the harness and lrlex only
   produce such ids; the table has no column for anything else) *)
Definition tokens_in_range (g : grammar) (input : list N) : Prop :=
  Forall (fun a => (a < ntoks g)%N) input.

Definition finished (r : result) : Prop := r <> ROutOfFuel.

(* ---- C01 part A: an accepted input yields a valid derivation of exactly it -- *)
Definition lr_sound_stmt : Prop :=
  forall g A, wf_grammar g = true -> validS g A = true ->
  forall input fuel t, tokens_in_range g input -> no_eof g input -> run g A fuel input = RAccept t ->
    exists s, user_start g = Some s /\ root g t = R s /\
              valid_tree g t /\ leaves_in_order t input.

(* the interpreter's panic sites (stack underflow, goto(..).unwrap(), the accept
   assertions) are unreachable *)
Definition lr_never_panics_stmt : Prop :=
  forall g A, wf_grammar g = true -> validS g A = true ->
  forall input fuel, tokens_in_range g input -> no_eof g input -> run g A fuel input <> RPanic.

Definition run_fuel_mono_stmt : Prop :=
  forall g A input f f' r, run g A f input = r -> finished r -> (f <= f')%nat ->
    run g A f' input = r.

(* ---- C01 part B: every sentence is accepted, with its tree ------------------ *)
Definition lr_complete_stmt : Prop :=
  forall g A, wf_grammar g = true -> validS g A = true -> validC g A = true ->
  forall t s, user_start g = Some s -> root g t = R s -> valid_tree g t ->
    leaves_in_order t (yield t) -> no_eof g (yield t) ->
    exists fuel, run g A fuel (yield t) = RAccept t.

Definition lr_accepts_sentences_stmt : Prop :=
  forall g A, wf_grammar g = true -> validS g A = true -> validC g A = true ->
  forall w, sentence g w -> no_eof g w -> exists fuel t, run g A fuel w = RAccept t.

Definition lr_rejects_nonsentences_stmt : Prop :=
  forall g A, wf_grammar g = true -> validS g A = true ->
  forall input, tokens_in_range g input -> no_eof g input -> ~ sentence g input ->
  forall fuel t, run g A fuel input <> RAccept t.

(* ---- C04: the error position ------------------------------------------------- *)
(* everything before the reported lexeme is a prefix of a sentence *)
Definition shifted_prefix_viable_stmt : Prop :=
  forall g A, wf_grammar g = true -> validS g A = true -> validE g A = true -> productive g ->
  forall input fuel k st, tokens_in_range g input -> no_eof g input -> run g A fuel input = RReject k st ->
    (k <= length input)%nat /\ sentence_prefix g (firstn k input).

(* the lexemes up to and including the reported one (end of input = the eof
   token) are not a prefix of any sentence followed by end of input *)
Definition first_error_not_viable_stmt : Prop :=
  forall g A, wf_grammar g = true -> validS g A = true -> validC g A = true ->
  forall input fuel k st, tokens_in_range g input -> no_eof g input -> run g A fuel input = RReject k st ->
    ~ exists w, sentence g w /\ no_eof g w /\
                firstn (S k) (w ++ [eof g]) = firstn (S k) (input ++ [eof g]).

(* ---- C02: two validated automata for one grammar behave identically --------- *)
Definition same_verdict (r1 r2 : result) : Prop :=
  match r1, r2 with
  | RAccept t1, RAccept t2 => t1 = t2
  | RReject k1 _, RReject k2 _ => k1 = k2
  | _, _ => False
  end.

Definition validated_automata_agree_stmt : Prop :=
  forall g A B, wf_grammar g = true -> productive g ->
    validS g A = true -> validC g A = true -> validE g A = true ->
    validS g B = true -> validC g B = true -> validE g B = true ->
  forall input f1 f2, tokens_in_range g input -> no_eof g input ->
    finished (run g A f1 input) -> finished (run g B f2 input) ->
    same_verdict (run g A f1 input) (run g B f2 input).
