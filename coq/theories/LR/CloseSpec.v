(* Declarative LR(1) closure / goto and the statements about the mirror of
   Itemset::close and Itemset::goto (CloseMirror.v).  Proved in CloseProofs.v. *)
From Coq Require Import List Arith NArith Bool Lia.
From GV Require Import Common.Outcome Base.Grammar Base.Analyses Base.AnalysesProofs
  LR.Automaton LR.CloseMirror.
Import ListNotations.

(* ---- the declarative closure ---------------------------------------------------

   An itemset carries a lookahead SET per LR(0) item, and that set can be empty
   (an item of a rule that is followed only by symbols deriving no token
   string).  So the closure is given by two least relations:

   [lr0_closure_rel g K p d]    the item  p : alpha . beta  (dot at d) is present;
   [lr1_closure_rel g K p d a]  a is one of its lookaheads, i.e. the
                                 single-lookahead LR(1) item [p, d, a] is there.

   base = the input items; step: for [A -> alpha . B beta] in the closure and
   B -> gamma a production, [B -> . gamma] is in the closure, with every token
   of FIRST(beta), and with every lookahead a of the parent when beta derives
   the empty string — together: b in FIRST(beta a) (lemma first_of_form_split).
   FIRST and nullability are over sentential forms ([derives]). *)

Inductive lr0_closure_rel (g : grammar) (K : list item) : N -> nat -> Prop :=
| c0_base p d la : In (p, d, la) K -> lr0_closure_rel g K p d
| c0_step p d r q :
    lr0_closure_rel g K p d -> nth_error (rhs g p) d = Some (R r) ->
    is_prod g q -> lhs g q = r -> lr0_closure_rel g K q 0%nat.

Inductive lr1_closure_rel (g : grammar) (K : list item) : N -> nat -> N -> Prop :=
| c1_base p d la a : In (p, d, la) K -> In a la -> lr1_closure_rel g K p d a
| c1_first p d r q b :
    lr0_closure_rel g K p d -> nth_error (rhs g p) d = Some (R r) ->
    is_prod g q -> lhs g q = r ->
    (exists c, derives g (skipn (S d) (rhs g p)) (T b :: c)) ->
    lr1_closure_rel g K q 0%nat b
| c1_null p d a r q :
    lr1_closure_rel g K p d a -> nth_error (rhs g p) d = Some (R r) ->
    is_prod g q -> lhs g q = r ->
    derives g (skipn (S d) (rhs g p)) [] ->
    lr1_closure_rel g K q 0%nat a.

(* b in FIRST(beta a) *)
Definition first_of_form (g : grammar) (beta : list sym) (a b : N) : Prop :=
  exists c, derives g (beta ++ [T a]) (T b :: c).

(* the textbook closure over single-lookahead items only: an item without any
   lookahead does not exist in it *)
Inductive lr1_textbook_rel (g : grammar) (K : list item) : N -> nat -> N -> Prop :=
| tb_base p d la a : In (p, d, la) K -> In a la -> lr1_textbook_rel g K p d a
| tb_step p d a r q b :
    lr1_textbook_rel g K p d a -> nth_error (rhs g p) d = Some (R r) ->
    is_prod g q -> lhs g q = r ->
    first_of_form g (skipn (S d) (rhs g p)) a b ->
    lr1_textbook_rel g K q 0%nat b.

(* ---- hypotheses ------------------------------------------------------------------ *)

(* [keys] lists exactly the keys of K (any permutation of them does) *)
Definition keys_cover (K : itemset) (keys : list (N * nat)) : Prop :=
  forall k, In k keys <-> In k (keys_of K).

(* well-formed grammar; the FIRST / epsilon tables are exact (what C17
   establishes for YaccFirsts); K is a map of items in range; keys = its keys *)
Definition close_pre (g : grammar) (nl : list N) (fs : list pairN)
  (keys : list (N * nat)) (K : itemset) : Prop :=
  wf_grammar g = true /\ nullable_exact g nl /\ first_exact g fs /\
  items_ok g K = true /\ keys_cover K keys.

(* the same itemset as a set of (p, dot, lookahead set) *)
Definition same_itemset (A B : itemset) : Prop :=
  (forall p d, (exists la, In (p, d, la) A) <-> (exists la, In (p, d, la) B)) /\
  (forall p d a, (exists la, In (p, d, la) A /\ In a la) <-> (exists la, In (p, d, la) B /\ In a la)).

(* ---- statements ------------------------------------------------------------------- *)

(* 1. everything the mirror returns is in the declarative closure *)
Definition close_mirror_sound_stmt : Prop :=
  forall g nl fs keys K fuel C, close_pre g nl fs keys K ->
    close_mirror g nl fs keys K fuel = Done C ->
    forall p d la, In (p, d, la) C ->
      lr0_closure_rel g K p d /\ forall a, In a la -> lr1_closure_rel g K p d a.

(* 2. everything in the declarative closure is in what the mirror returns *)
Definition close_mirror_complete_stmt : Prop :=
  forall g nl fs keys K fuel C, close_pre g nl fs keys K ->
    close_mirror g nl fs keys K fuel = Done C ->
    (forall p d, lr0_closure_rel g K p d -> exists la, In (p, d, la) C) /\
    (forall p d a, lr1_closure_rel g K p d a -> exists la, In (p, d, la) C /\ In a la).

(* the result is again a map of items in range (one context per (p, dot)), so
   1 + 2 determine it as a set of (p, dot, lookahead set), and goto applies *)
Definition close_mirror_result_ok_stmt : Prop :=
  forall g nl fs keys K fuel C, close_pre g nl fs keys K ->
    close_mirror g nl fs keys K fuel = Done C -> items_ok g C = true.

(* 3. never Panic, never OutOfFuel within the explicit bound *)
Definition close_mirror_terminates_stmt : Prop :=
  forall g nl fs keys K fuel, close_pre g nl fs keys K -> (close_fuel g keys <= fuel)%nat ->
    exists C, close_mirror g nl fs keys K fuel = Done C.

Definition close_mirror_never_panics_stmt : Prop :=
  forall g nl fs keys K fuel, close_pre g nl fs keys K ->
    close_mirror g nl fs keys K fuel <> Panic.

(* 4. the order of the initial keys, the order in which the map K itself is laid
   out (K1, K2: the same items) and the fuel do not matter *)
Definition close_mirror_order_insensitive_stmt : Prop :=
  forall g nl fs K1 K2 keys1 keys2 fuel1 fuel2 C1 C2,
    (forall i, In i K1 <-> In i K2) ->
    close_pre g nl fs keys1 K1 -> close_pre g nl fs keys2 K2 ->
    close_mirror g nl fs keys1 K1 fuel1 = Done C1 ->
    close_mirror g nl fs keys2 K2 fuel2 = Done C2 ->
    same_itemset C1 C2.

(* 5. goto = { [A -> alpha X . beta, L] | [A -> alpha . X beta, L] in S },
   contexts copied, one entry per advanced item, whatever the order of S *)
Definition goto_mirror_spec_stmt : Prop :=
  forall g S x, items_ok g S = true ->
    exists G, goto_mirror g S x = Done G /\
      NoDup (keys_of G) /\
      forall p d' la, In (p, d', la) G <->
        exists d, d' = Datatypes.S d /\ In (p, d, la) S /\ nth_error (rhs g p) d = Some x.

(* ---- the textbook relation ---------------------------------------------------------- *)

(* FIRST(beta a) = FIRST(beta), plus a when beta derives the empty string *)
Definition first_of_form_split_stmt : Prop :=
  forall g beta a b, first_of_form g beta a b <->
    (exists c, derives g beta (T b :: c)) \/ (derives g beta [] /\ b = a).

(* the textbook closure is always contained in the closure above (so 2. holds
   for it as it stands) *)
Definition lr1_textbook_incl_stmt : Prop :=
  forall g K p d a, lr1_textbook_rel g K p d a -> lr1_closure_rel g K p d a.

(* 1. with the textbook relation: false of the mirror (and of the code) when an
   item has an empty lookahead set — see close_mirror_sound_textbook_refuted *)
Definition close_mirror_sound_textbook_stmt : Prop :=
  forall g nl fs keys K fuel C, close_pre g nl fs keys K ->
    close_mirror g nl fs keys K fuel = Done C ->
    forall p d la a, In (p, d, la) C -> In a la -> lr1_textbook_rel g K p d a.

Definition close_mirror_sound_textbook_refuted_stmt : Prop :=
  exists g nl fs keys K fuel C p d la a,
    close_pre g nl fs keys K /\ close_mirror g nl fs keys K fuel = Done C /\
    (forall i, In i K -> it_la i <> []) /\
    In (p, d, la) C /\ In a la /\ ~ lr1_textbook_rel g K p d a.

(* where every rule derives a token string and every input item has a
   lookahead, the two relations coincide: there 1. and 2. are statements about
   the textbook closure *)
Definition lr1_textbook_agrees_stmt : Prop :=
  forall g K, wf_grammar g = true -> productive g ->
    (forall p d la, In (p, d, la) K -> la <> []) ->
    forall p d a, lr1_closure_rel g K p d a <-> lr1_textbook_rel g K p d a.
