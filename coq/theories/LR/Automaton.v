(* LR automata as dumped from lrtable (StateGraph + StateTable), and the LR
   interpreter mirroring lrpar's Parser::lr with RecoveryKind::None.
   Definitions only. *)
From Coq Require Import List Arith NArith Bool Lia.
From GV Require Import Base.Grammar.
Import ListNotations.

Inductive act := Shift (s : N) | Reduce (p : N) | Accept | Err.

(* an LR(1) item: production, dot position, lookahead tokens *)
Definition item := (N * nat * list N)%type.
Definition it_p (i : item) : N := fst (fst i).
Definition it_d (i : item) : nat := snd (fst i).
Definition it_la (i : item) : list N := snd i.

(* The automaton is a record of functions plus the number of states; theorems
   quantify over arbitrary such records, validators enumerate 0..nstates-1. *)
Record automaton := mkAutomaton {
  nstates : N;
  start : N;
  closed : N -> list item;          (* StateGraph::closed_state *)
  core : N -> list item;            (* StateGraph::core_state *)
  edge : N -> sym -> option N;      (* StateGraph::edge *)
  action : N -> N -> act;           (* StateTable::action *)
  goto : N -> N -> option N         (* StateTable::goto *)
}.

Definition states (A : automaton) : list N := map N.of_nat (seq 0 (N.to_nat (nstates A))).

(* ---- the interpreter --------------------------------------------------- *)

(* parse stack paired with the value (tree) stack, top first; the start state at
   the bottom of pstack is implicit *)
Definition stack := list (N * tree).
Definition top (A : automaton) (stk : stack) : N :=
  match stk with [] => start A | (s, _) :: _ => s end.

Inductive result :=
| RAccept (t : tree)
| RReject (pos : nat) (st : N)      (* ParseError { stidx, lexeme = next_lexeme(pos) } *)
| RPanic
| ROutOfFuel.

(* next_tidx: the token at laidx, the end-of-input token past the end *)
Definition la (g : grammar) (input : list N) (pos : nat) : N := nth pos input (eof g).

Definition step (g : grammar) (A : automaton) (input : list N) (c : stack * nat)
  : (stack * nat) + result :=
  let (stk, pos) := c in
  let s := top A stk in
  let a := la g input pos in
  match action A s a with
  | Shift s' => inl ((s', Leaf a pos) :: stk, S pos)
  | Reduce p =>
      let n := length (rhs g p) in
      (* pstack.len() - prod.len(), then pstack.last().unwrap() *)
      if (length stk <? n)%nat then inr RPanic else
      let kids := rev (map snd (firstn n stk)) in
      let stk' := skipn n stk in
      match goto A (top A stk') (lhs g p) with
      | Some s' => inl ((s', Node p kids) :: stk', pos)
      | None => inr RPanic                      (* goto(..).unwrap() *)
      end
  | Accept =>
      (* astack.drain(..).next().unwrap(): the bottom element; a lexeme there is unreachable!() *)
      match rev stk with
      | (_, Node p k) :: _ => inr (RAccept (Node p k))
      | _ => inr RPanic
      end
  | Err => inr (RReject pos s)
  end.

Fixpoint run_from (g : grammar) (A : automaton) (input : list N) (fuel : nat) (c : stack * nat) : result :=
  match fuel with
  | O => ROutOfFuel
  | S f => match step g A input c with
           | inl c' => run_from g A input f c'
           | inr r => r
           end
  end.

Definition run (g : grammar) (A : automaton) (fuel : nat) (input : list N) : result :=
  run_from g A input fuel ([], 0%nat).

(* reflexive-transitive closure of [step] on configurations *)
Inductive steps (g : grammar) (A : automaton) (input : list N) : stack * nat -> stack * nat -> Prop :=
| st_refl c : steps g A input c c
| st_step c c' c'' : step g A input c = inl c' -> steps g A input c' c'' -> steps g A input c c''.

(* ---- dumps: lists as the harness prints them, turned into an automaton -- *)

Record dump := mkDump {
  d_nstates : N;
  d_start : N;
  d_closed : list (N * list item);
  d_core : list (N * list item);
  d_edges : list (N * list (sym * N));
  d_actions : list (N * list (N * act));
  d_gotos : list (N * list (N * N))
}.

Fixpoint assocN {A} (k : N) (l : list (N * A)) : option A :=
  match l with
  | [] => None
  | (k', v) :: l' => if N.eqb k k' then Some v else assocN k l'
  end.
Fixpoint assoc_sym {A} (k : sym) (l : list (sym * A)) : option A :=
  match l with
  | [] => None
  | (k', v) :: l' => if sym_eqb k k' then Some v else assoc_sym k l'
  end.
Definition odefault {A} (d : A) (o : option A) : A := match o with Some x => x | None => d end.
