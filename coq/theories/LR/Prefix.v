(* C04, first half: when the LR interpreter reports an error, everything it has
   shifted so far is a prefix of a sentence (the "viable prefix" property).

   The argument is the textbook one: every item of the state on top of the
   stack is LR(0)-valid for the string of roots on the stack.  Items with the
   dot after a symbol are traced back along the edge (vS2); items with the dot
   at 0 are justified by [validE] (they are in the LR(0) closure of the kernel).

   [vE2] (every non-start state has a kernel item) excludes item-less junk
   states entered by a spurious shift. *)
From Coq Require Import List Arith NArith Bool Lia.
From GV Require Import Base.Grammar Base.GrammarFacts Base.Analyses
  LR.Automaton LR.Validator LR.Spec.
Import ListNotations.

(* ---- list helpers ----------------------------------------------------------- *)

Lemma nth_error_split_at {X} (l : list X) d x :
  nth_error l d = Some x -> l = firstn d l ++ x :: skipn (S d) l.
Proof.
  revert d. induction l as [|y l IH]; intros [|d] H; simpl in *; try discriminate H.
  - injection H as H. subst y. reflexivity.
  - f_equal. apply IH. exact H.
Qed.

Lemma firstn_S_nth_error {X} (l : list X) d x :
  nth_error l d = Some x -> firstn (S d) l = firstn d l ++ [x].
Proof.
  revert d. induction l as [|y l IH]; intros [|d] H; simpl in *; try discriminate H.
  - injection H as H. subst y. reflexivity.
  - f_equal. apply IH. exact H.
Qed.

Lemma nth_error_lt {X} (l : list X) d x : nth_error l d = Some x -> d < length l.
Proof. intros H. apply nth_error_Some. rewrite H. discriminate. Qed.

Ltac fb H x Hin :=
  let H' := fresh "Hfb" in
  pose proof (proj1 (forallb_forall _ _) H x Hin) as H'; cbv beta in H'; clear H; rename H' into H.

(* ---- the LR(0) closure is sound --------------------------------------------- *)

Section Closure.
Variable g : grammar.

Inductive clos (K : list item0) : item0 -> Prop :=
| clos_base i : In i K -> clos K i
| clos_step p d r q : clos K (p, d) -> nth_error (rhs g p) d = Some (R r) ->
    is_prod g q -> lhs g q = r -> clos K (q, 0%nat).

Lemma mem0_In x l : mem0 x l = true -> In x l.
Proof.
  unfold mem0. intros H. apply existsb_exists in H. destruct H as (y & Hy & He).
  apply andb_true_iff in He. destruct He as [H1 H2].
  apply N.eqb_eq in H1. apply Nat.eqb_eq in H2.
  destruct x as [x1 x2], y as [y1 y2]. simpl in *. subst. exact Hy.
Qed.

Lemma lr0_step_sound K l :
  (forall i, In i l -> clos K i) -> forall i, In i (lr0_step g l) -> clos K i.
Proof.
  intros Hl. unfold lr0_step.
  assert (Hq : forall q, In q (pidxs g) -> is_prod g q) by (intros q Hq; apply In_pidxs; exact Hq).
  revert Hq. generalize (pidxs g) as qs.
  match goal with |- forall qs, _ -> forall i, In i (fold_right ?f l qs) -> _ => set (F := f) end.
  induction qs as [|q qs IH]; intros Hq i Hi.
  - apply Hl. exact Hi.
  - assert (IH' : forall i, In i (fold_right F l qs) -> clos K i).
    { apply IH. intros q' Hq'. apply Hq. right. exact Hq'. }
    cbn [fold_right] in Hi. set (acc := fold_right F l qs) in *. unfold F in Hi.
    destruct (mem0 (q, 0%nat) acc); [apply IH'; exact Hi|].
    match type of Hi with context [if existsb ?f l then _ else _] =>
      destruct (existsb f l) eqn:Hex end; [|apply IH'; exact Hi].
    destruct Hi as [Hi|Hi]; [|apply IH'; exact Hi]. subst i.
    apply existsb_exists in Hex. destruct Hex as ([p d] & Hpd & Hm). simpl in Hm.
    destruct (nth_error (rhs g p) d) as [[t|r]|] eqn:Hn; try discriminate Hm.
    apply N.eqb_eq in Hm.
    eapply clos_step; [apply Hl; exact Hpd | exact Hn | apply Hq; left; reflexivity | symmetry; exact Hm].
Qed.

Lemma iter_lr0_sound K n : forall l,
  (forall i, In i l -> clos K i) -> forall i, In i (iter n (lr0_step g) l) -> clos K i.
Proof.
  induction n as [|n IH]; intros l Hl i Hi; simpl in Hi.
  - apply Hl. exact Hi.
  - eapply IH; [|exact Hi]. apply lr0_step_sound. exact Hl.
Qed.

Lemma lr0_closure_sound K i : In i (lr0_closure g K) -> clos K i.
Proof.
  unfold lr0_closure. apply iter_lr0_sound. intros j Hj. apply clos_base. exact Hj.
Qed.

(* ---- LR(0) validity of an item for a string of stack roots ------------------ *)

Definition ctx_valid (gamma : list sym) (p : N) (d : nat) : Prop :=
  exists delta rest,
    derives g [R (start_rule g)] (delta ++ R (lhs g p) :: rest) /\
    gamma = delta ++ firstn d (rhs g p) /\ is_prod g p /\ d <= length (rhs g p).

Lemma ctx_valid_start : is_prod g (start_prod g) -> ctx_valid [] (start_prod g) 0.
Proof.
  intros Hp. exists [], []. simpl. repeat split.
  - apply d_refl.
  - exact Hp.
  - lia.
Qed.

Lemma ctx_valid_close gamma p d q :
  ctx_valid gamma p d -> nth_error (rhs g p) d = Some (R (lhs g q)) -> is_prod g q ->
  ctx_valid gamma q 0.
Proof.
  intros (delta & rest & Hder & Hgam & Hp & Hd) Hn Hq.
  exists gamma, (skipn (S d) (rhs g p) ++ rest). repeat split.
  - pose proof (d_step g _ delta p rest Hp Hder) as H.
    rewrite (nth_error_split_at _ _ _ Hn) in H.
    rewrite <- app_assoc in H. simpl in H. rewrite app_assoc in H. rewrite <- Hgam in H.
    exact H.
  - simpl. rewrite app_nil_r. reflexivity.
  - exact Hq.
  - lia.
Qed.

Lemma ctx_valid_advance gamma p d X :
  ctx_valid gamma p d -> nth_error (rhs g p) d = Some X -> ctx_valid (gamma ++ [X]) p (S d).
Proof.
  intros (delta & rest & Hder & Hgam & Hp & Hd) Hn.
  exists delta, rest. repeat split.
  - exact Hder.
  - rewrite (firstn_S_nth_error _ _ _ Hn), app_assoc, <- Hgam. reflexivity.
  - exact Hp.
  - apply nth_error_lt in Hn. lia.
Qed.

Lemma ctx_valid_viable gamma p d :
  ctx_valid gamma p d -> exists rest, derives g [R (start_rule g)] (gamma ++ rest).
Proof.
  intros (delta & rest & Hder & Hgam & Hp & Hd).
  exists (skipn d (rhs g p) ++ rest).
  pose proof (d_step g _ delta p rest Hp Hder) as H.
  rewrite <- (firstn_skipn d (rhs g p)) in H.
  rewrite <- app_assoc in H. rewrite app_assoc in H. rewrite <- Hgam in H. exact H.
Qed.

Lemma ctx_valid_clos gamma K :
  (forall i, In i K -> ctx_valid gamma (fst i) (snd i)) ->
  forall i, clos K i -> ctx_valid gamma (fst i) (snd i).
Proof.
  intros HK i Hc. induction Hc as [i Hi | p d r q Hc IH Hn Hq Hl].
  - apply HK. exact Hi.
  - simpl in *. subst r. eapply ctx_valid_close; eassumption.
Qed.

(* ---- sentential forms of a well-formed, productive grammar ------------------- *)

Definition form_in_range (a : list sym) : Prop := Forall (fun x => sym_in_range g x = true) a.

Lemma derives_in_range a b : wf_grammar g = true ->
  derives g a b -> form_in_range a -> form_in_range b.
Proof.
  intros Hwf H Ha. unfold form_in_range in *. induction H as [a | a b p c Hp Hd IH].
  - exact Ha.
  - specialize (IH Ha). apply Forall_app in IH. destruct IH as [Hb Hc].
    inversion Hc as [|x l Hx Hc']; subst.
    apply Forall_app. split; [exact Hb|]. apply Forall_app. split; [|exact Hc'].
    apply Forall_forall. intros x Hx'. eapply wf_rhs_range; eassumption.
Qed.

Lemma productive_form a : productive g -> form_in_range a ->
  exists w, derives g a (tokens_of w).
Proof.
  intros Hprod Ha. unfold form_in_range in Ha. induction Ha as [|x a Hx Ha IH].
  - exists []. apply d_refl.
  - destruct IH as (w & Hw). destruct x as [t|r]; simpl in Hx.
    + exists (t :: w). simpl. apply derives_cons. exact Hw.
    + apply N.ltb_lt in Hx. destruct (Hprod r Hx) as (wr & Hwr).
      exists (wr ++ w). rewrite tokens_of_app.
      exact (derives_app g [R r] _ a _ Hwr Hw).
Qed.

Lemma wf_lhs_start p : wf_grammar g = true -> is_prod g p ->
  lhs g p = start_rule g -> p = start_prod g.
Proof.
  unfold wf_grammar. intros Hwf Hp Hl.
  repeat (apply andb_true_iff in Hwf; destruct Hwf as [Hwf ?]).
  match goal with H : forallb (fun p => N.eqb p (start_prod g) || _) _ = true |- _ =>
    fb H p (proj2 (In_pidxs g p) Hp); apply orb_true_iff in H; destruct H as [H|H] end.
  - apply N.eqb_eq. assumption.
  - rewrite Hl, N.eqb_refl in *. discriminate.
Qed.

Lemma user_start_rhs s : user_start g = Some s -> rhs g (start_prod g) = [R s].
Proof.
  unfold user_start. intros H.
  destruct (rhs g (start_prod g)) as [|[t|r] [|y l]]; try discriminate H.
  injection H as H. subst r. reflexivity.
Qed.

(* a derivation from ^ is trivial or goes through the user's start rule *)
Lemma derives_start s a : wf_grammar g = true -> user_start g = Some s ->
  derives g [R (start_rule g)] a -> a = [R (start_rule g)] \/ derives g [R s] a.
Proof.
  intros Hwf Hs H. remember [R (start_rule g)] as a0 eqn:Ha0.
  induction H as [a | a b p c Hp Hd IH].
  - left. reflexivity.
  - right. destruct (IH Ha0) as [Heq | Hder].
    + subst a. destruct b as [|y b].
      * simpl in Heq. injection Heq as Hl Hc. subst c.
        pose proof (wf_lhs_start p Hwf Hp Hl) as Hpp. subst p.
        rewrite (user_start_rhs s Hs). simpl. apply d_refl.
      * simpl in Heq. injection Heq as _ Heq. destruct b; discriminate Heq.
    + apply d_step; assumption.
Qed.

End Closure.

(* ---- reflection of the validator conditions ---------------------------------- *)

Section Reflect.
Variable g : grammar.
Variable A : automaton.

Lemma In_states s : In s (states A) <-> (s < nstates A)%N.
Proof.
  unfold states. rewrite in_map_iff. split.
  - intros (n & Hn & Hin). apply in_seq in Hin. subst s. lia.
  - intros H. exists (N.to_nat s). split; [apply N2Nat.id|]. apply in_seq. lia.
Qed.

Lemma In_all_syms X : sym_in_range g X = true -> In X (all_syms g).
Proof.
  unfold all_syms. intros H. apply in_or_app. destruct X as [t|r]; simpl in H.
  - left. apply in_map. apply In_tidxs. apply N.ltb_lt. exact H.
  - right. apply in_map. apply In_ridxs. apply N.ltb_lt. exact H.
Qed.

Lemma has_item_In p d l : has_item p d l = true ->
  exists i, In i l /\ it_p i = p /\ it_d i = d.
Proof.
  unfold has_item, find_item. intros H.
  destruct (find _ l) as [i|] eqn:Hf; [|discriminate H].
  apply find_some in Hf. destruct Hf as [Hi He]. apply andb_true_iff in He.
  destruct He as [H1 H2]. apply N.eqb_eq in H1. apply Nat.eqb_eq in H2.
  exists i. repeat split; assumption.
Qed.

Lemma validS_parts : validS g A = true ->
  vS0 A = true /\ vS1 g A = true /\ vS2 g A = true /\ vS3 g A = true /\
  vS4 g A = true /\ vS5 g A = true.
Proof.
  unfold validS. intros H.
  repeat (apply andb_true_iff in H; destruct H as [H ?]). repeat split; assumption.
Qed.

Lemma vS0_spec i : vS0 A = true -> In i (closed A (start A)) -> it_d i = 0.
Proof.
  unfold vS0. intros H Hi. fb H i Hi. apply Nat.eqb_eq. exact H.
Qed.

Lemma vS1_spec s X s' : vS1 g A = true -> (s < nstates A)%N -> sym_in_range g X = true ->
  edge A s X = Some s' -> s' <> start A /\ (s' < nstates A)%N.
Proof.
  unfold vS1. intros H Hs HX He.
  fb H s (proj2 (In_states s) Hs). fb H X (In_all_syms X HX). rewrite He in H.
  apply andb_true_iff in H. destruct H as [H1 H2]. split.
  - intros Heq. subst s'. rewrite N.eqb_refl in H1. discriminate H1.
  - apply N.ltb_lt. exact H2.
Qed.

Lemma vS2_spec s X s' i d : vS2 g A = true -> (s < nstates A)%N -> sym_in_range g X = true ->
  edge A s X = Some s' -> In i (closed A s') -> it_d i = S d ->
  nth_error (rhs g (it_p i)) d = Some X /\ has_item (it_p i) d (closed A s) = true.
Proof.
  unfold vS2. intros H Hs HX He Hi Hd.
  fb H s (proj2 (In_states s) Hs). fb H X (In_all_syms X HX). rewrite He in H.
  fb H i Hi. rewrite Hd in H.
  destruct (nth_error (rhs g (it_p i)) d) as [Y|]; [|discriminate H].
  apply andb_true_iff in H. destruct H as [HY Hh]. apply sym_eqb_eq in HY. subst Y.
  split; [reflexivity | exact Hh].
Qed.

Lemma vS3_reduce s a p : vS3 g A = true -> (s < nstates A)%N -> (a < ntoks g)%N ->
  action A s a = Reduce p ->
  is_prod g p /\ p <> start_prod g /\ has_item p (length (rhs g p)) (closed A s) = true.
Proof.
  unfold vS3. intros H Hs Ha Hact.
  fb H s (proj2 (In_states s) Hs). fb H a (proj2 (In_tidxs g a) Ha). rewrite Hact in H.
  apply andb_true_iff in H. destruct H as [H H3].
  apply andb_true_iff in H. destruct H as [H1 H2]. repeat split.
  - apply is_prodb_spec. exact H1.
  - intros Heq. subst p. rewrite N.eqb_refl in H2. discriminate H2.
  - exact H3.
Qed.

Lemma vS3_shift s a s' : vS3 g A = true -> (s < nstates A)%N -> (a < ntoks g)%N ->
  action A s a = Shift s' -> a <> eof g.
Proof.
  unfold vS3. intros H Hs Ha Hact.
  fb H s (proj2 (In_states s) Hs). fb H a (proj2 (In_tidxs g a) Ha). rewrite Hact in H.
  intros Heq. subst a. rewrite N.eqb_refl in H. discriminate H.
Qed.

Lemma optN_eqb_eq a b : optN_eqb a b = true -> a = b.
Proof.
  destruct a as [x|], b as [y|]; simpl; intros H; try discriminate H; [|reflexivity].
  apply N.eqb_eq in H. subst y. reflexivity.
Qed.

Lemma vS4_shift s a s' : vS4 g A = true -> (s < nstates A)%N -> (a < ntoks g)%N ->
  action A s a = Shift s' -> edge A s (T a) = Some s'.
Proof.
  unfold vS4. intros H Hs Ha Hact.
  fb H s (proj2 (In_states s) Hs).
  apply andb_true_iff in H. destruct H as [H _]. apply andb_true_iff in H. destruct H as [H _].
  fb H a (proj2 (In_tidxs g a) Ha). rewrite Hact in H. apply optN_eqb_eq. exact H.
Qed.

Lemma vS4_goto s r s' : vS4 g A = true -> (s < nstates A)%N -> (r < nrules g)%N ->
  goto A s r = Some s' -> edge A s (R r) = Some s'.
Proof.
  unfold vS4. intros H Hs Hr Hgo.
  fb H s (proj2 (In_states s) Hs).
  apply andb_true_iff in H. destruct H as [H _]. apply andb_true_iff in H. destruct H as [_ H].
  fb H r (proj2 (In_ridxs g r) Hr). rewrite Hgo in H. apply optN_eqb_eq. exact H.
Qed.

Lemma vS5_start : vS5 g A = true -> (start A < nstates A)%N.
Proof.
  unfold vS5. intros H. apply andb_true_iff in H. destruct H as [H _].
  apply N.ltb_lt. exact H.
Qed.

Lemma vS5_is_prod s i : vS5 g A = true -> (s < nstates A)%N -> In i (closed A s) ->
  is_prod g (it_p i).
Proof.
  unfold vS5. intros H Hs Hi. apply andb_true_iff in H. destruct H as [_ H].
  fb H s (proj2 (In_states s) Hs). fb H i Hi.
  apply andb_true_iff in H. destruct H as [H _]. apply is_prodb_spec. exact H.
Qed.

Lemma validE_parts : validE g A = true -> vE1 g A = true /\ vE2 A = true.
Proof. unfold validE. intros H. apply andb_true_iff in H. exact H. Qed.

Lemma vE1_spec s i : vE1 g A = true -> (s < nstates A)%N -> In i (closed A s) ->
  it_d i = 0 -> clos g (kernel_of g A s) (it_p i, 0).
Proof.
  unfold vE1. intros H Hs Hi Hd.
  fb H s (proj2 (In_states s) Hs). fb H i Hi. rewrite Hd in H. simpl in H.
  apply lr0_closure_sound. apply mem0_In. exact H.
Qed.

Lemma vE2_spec s : vE2 A = true -> (s < nstates A)%N -> s <> start A ->
  exists i, In i (closed A s) /\ it_d i <> 0.
Proof.
  unfold vE2. intros H Hs Hne.
  fb H s (proj2 (In_states s) Hs). apply orb_true_iff in H. destruct H as [H|H].
  - apply N.eqb_eq in H. contradiction.
  - apply existsb_exists in H. destruct H as (i & Hi & Hd). exists i. split; [exact Hi|].
    intros Heq. rewrite Heq in Hd. discriminate Hd.
Qed.

End Reflect.

(* ---- the stack invariant ------------------------------------------------------ *)

Section Invariant.
Variable g : grammar.
Variable A : automaton.
Hypothesis Hwf : wf_grammar g = true.
Hypothesis HS : validS g A = true.
Hypothesis HE : validE g A = true.

Let HE1 : vE1 g A = true := proj1 (validE_parts g A HE).
Let HE2 : vE2 A = true := proj2 (validE_parts g A HE).
Let HS0 : vS0 A = true := proj1 (validS_parts g A HS).
Let HS1 : vS1 g A = true := proj1 (proj2 (validS_parts g A HS)).
Let HS2 : vS2 g A = true := proj1 (proj2 (proj2 (validS_parts g A HS))).
Let HS3 : vS3 g A = true := proj1 (proj2 (proj2 (proj2 (validS_parts g A HS)))).
Let HS4 : vS4 g A = true := proj1 (proj2 (proj2 (proj2 (proj2 (validS_parts g A HS))))).
Let HS5 : vS5 g A = true := proj2 (proj2 (proj2 (proj2 (proj2 (validS_parts g A HS))))).

(* roots of the stack, bottom to top *)
Definition gamma (stk : stack) : list sym := rev (map (fun e => root g (snd e)) stk).
(* tokens under the stack, left to right *)
Definition consumed (stk : stack) : list N := flat_map yield (rev (map snd stk)).

(* every stack entry was pushed along an edge from the state below it *)
Inductive wfstk : stack -> Prop :=
| wfs_nil : wfstk []
| wfs_cons s t rest : wfstk rest ->
    edge A (top A rest) (root g t) = Some s ->
    sym_in_range g (root g t) = true ->
    valid_tree g t ->
    wfstk ((s, t) :: rest).

Lemma wfstk_top_range stk : wfstk stk -> (top A stk < nstates A)%N.
Proof.
  intros H. induction H as [|s t rest Hr IH He Hx Ht]; simpl.
  - apply vS5_start with (g := g). exact HS5.
  - exact (proj2 (vS1_spec g A _ _ _ HS1 IH Hx He)).
Qed.

Lemma wfstk_top_start stk : wfstk stk -> stk <> [] -> top A stk <> start A.
Proof.
  intros H Hne. destruct H as [|s t rest Hr He Hx Ht]; [contradiction|]. simpl.
  exact (proj1 (vS1_spec g A _ _ _ HS1 (wfstk_top_range rest Hr) Hx He)).
Qed.

Lemma wfstk_skipn n : forall stk, wfstk stk -> wfstk (skipn n stk).
Proof.
  induction n as [|n IH]; intros stk H; simpl; [exact H|].
  destruct H as [|s t rest Hr He Hx Ht]; [constructor | apply IH; exact Hr].
Qed.

Lemma wfstk_valid stk : wfstk stk -> Forall (valid_tree g) (map snd stk).
Proof.
  intros H. induction H as [|s t rest Hr IH He Hx Ht]; simpl; constructor; assumption.
Qed.

(* every item of the top state is LR(0)-valid for the roots on the stack *)
Lemma items_valid stk : wfstk stk ->
  forall i, In i (closed A (top A stk)) -> ctx_valid g (gamma stk) (it_p i) (it_d i).
Proof.
  intros H. induction H as [|s t rest Hr IH He Hx Ht]; intros i Hi.
  - simpl in *. unfold gamma. simpl.
    pose proof (vS0_spec A i HS0 Hi) as Hd. rewrite Hd.
    pose proof (vE1_spec g A _ i HE1 (vS5_start g A HS5) Hi Hd) as Hc.
    apply (ctx_valid_clos g [] (kernel_of g A (start A))) in Hc; [exact Hc|].
    intros j Hj. unfold kernel_of in Hj. rewrite N.eqb_refl in Hj. simpl in Hj.
    destruct Hj as [Hj|Hj].
    + subst j. simpl. apply ctx_valid_start. apply wf_start_is_prod. exact Hwf.
    + apply in_map_iff in Hj. destruct Hj as (i' & _ & Hi').
      apply filter_In in Hi'. destruct Hi' as [Hi' Hd'].
      rewrite (vS0_spec A i' HS0 Hi') in Hd'. discriminate Hd'.
  - simpl in Hi.
    assert (Hg : gamma ((s, t) :: rest) = gamma rest ++ [root g t]) by reflexivity.
    rewrite Hg.
    pose proof (wfstk_top_range rest Hr) as Hrange.
    destruct (vS1_spec g A _ _ _ HS1 Hrange Hx He) as [Hns Hsr].
    assert (Hpos : forall j d, In j (closed A s) -> it_d j = S d ->
              ctx_valid g (gamma rest ++ [root g t]) (it_p j) (it_d j)).
    { intros j d Hj Hd.
      destruct (vS2_spec g A _ _ _ j d HS2 Hrange Hx He Hj Hd) as [Hn Hh].
      apply has_item_In in Hh. destruct Hh as (j' & Hj' & Hp' & Hd').
      specialize (IH j' Hj'). rewrite Hp', Hd' in IH. rewrite Hd.
      apply ctx_valid_advance; assumption. }
    destruct (it_d i) as [|d] eqn:Hd.
    + pose proof (vE1_spec g A s i HE1 Hsr Hi Hd) as Hc.
      apply (ctx_valid_clos g (gamma rest ++ [root g t]) (kernel_of g A s)) in Hc; [exact Hc|].
      intros j Hj. unfold kernel_of in Hj.
      apply N.eqb_neq in Hns. rewrite Hns in Hj. simpl in Hj.
      apply in_map_iff in Hj. destruct Hj as (j' & Hjj & Hj').
      apply filter_In in Hj'. destruct Hj' as [Hj' Hd'].
      subst j. simpl. destruct (it_d j') as [|d'] eqn:Hdj; [discriminate Hd'|].
      rewrite <- Hdj. eapply Hpos; eassumption.
    + rewrite <- Hd. eapply Hpos; eassumption.
Qed.

(* the [d] symbols before the dot of an item of the top state are the roots of
   the top [d] stack entries *)
Lemma item_back : forall d stk p, wfstk stk ->
  has_item p d (closed A (top A stk)) = true ->
  d <= length stk /\
  map (root g) (rev (map snd (firstn d stk))) = firstn d (rhs g p).
Proof.
  induction d as [|d IH]; intros stk p Hw Hh.
  - simpl. split; [lia | reflexivity].
  - apply has_item_In in Hh. destruct Hh as (i & Hi & Hp & Hd).
    destruct Hw as [|s t rest Hr He Hx Ht].
    + simpl in Hi. rewrite (vS0_spec A i HS0 Hi) in Hd. discriminate Hd.
    + simpl in Hi.
      destruct (vS2_spec g A _ _ _ i d HS2 (wfstk_top_range rest Hr) Hx He Hi Hd) as [Hn Hh].
      rewrite Hp in Hn, Hh.
      destruct (IH rest p Hr Hh) as [Hlen Hmap]. split; [simpl; lia|].
      simpl. rewrite map_app, Hmap. simpl.
      symmetry. apply firstn_S_nth_error. exact Hn.
Qed.

Lemma consumed_app l1 l2 : consumed (l1 ++ l2) = consumed l2 ++ consumed l1.
Proof. unfold consumed. rewrite map_app, rev_app_distr, flat_map_app. reflexivity. Qed.

Lemma gamma_derives stk : wfstk stk -> derives g (gamma stk) (tokens_of (consumed stk)).
Proof.
  intros H. unfold gamma, consumed.
  replace (rev (map (fun e => root g (snd e)) stk)) with (map (root g) (rev (map snd stk)))
    by (rewrite map_rev, map_map; reflexivity).
  apply forest_derives. apply Forall_rev. apply wfstk_valid. exact H.
Qed.

(* ---- configurations ----------------------------------------------------------- *)

Variable input : list N.
Hypothesis Hin : tokens_in_range g input.

Lemma la_range pos : (la g input pos < ntoks g)%N.
Proof.
  unfold la. destruct (lt_dec pos (length input)) as [H|H].
  - unfold tokens_in_range in Hin. rewrite Forall_forall in Hin. apply Hin. apply nth_In. exact H.
  - rewrite nth_overflow by lia. apply wf_eof_range. exact Hwf.
Qed.

Definition inv (c : stack * nat) : Prop :=
  snd c <= length input /\ wfstk (fst c) /\ consumed (fst c) = firstn (snd c) input.

Lemma inv_init : inv ([], 0).
Proof. unfold inv. simpl. repeat split; [lia | constructor]. Qed.

Lemma inv_step c c' : inv c -> step g A input c = inl c' -> inv c'.
Proof.
  destruct c as [stk pos]. intros (Hpos & Hw & Hc) Hstep. simpl in Hpos, Hw, Hc.
  pose proof (wfstk_top_range stk Hw) as Hrange.
  pose proof (la_range pos) as Hla.
  unfold step in Hstep.
  destruct (action A (top A stk) (la g input pos)) as [s'|p| |] eqn:Hact.
  - (* shift *)
    injection Hstep as Hc'. subst c'.
    pose proof (vS3_shift g A _ _ _ HS3 Hrange Hla Hact) as Hne.
    pose proof (vS4_shift g A _ _ _ HS4 Hrange Hla Hact) as Hedge.
    assert (Hlt : pos < length input).
    { destruct (lt_dec pos (length input)) as [H|H]; [exact H|].
      exfalso. apply Hne. unfold la. apply nth_overflow. lia. }
    unfold inv. simpl fst. simpl snd. repeat split.
    + lia.
    + constructor; [exact Hw | exact Hedge | | constructor].
      simpl. apply N.ltb_lt. exact Hla.
    + replace ((s', Leaf (la g input pos) pos) :: stk) with
        ([(s', Leaf (la g input pos) pos)] ++ stk) by reflexivity.
      rewrite consumed_app, Hc. unfold consumed. simpl.
      symmetry. apply firstn_S_nth_error. unfold la.
      rewrite (nth_error_nth' input (eof g) Hlt). reflexivity.
  - (* reduce *)
    destruct (vS3_reduce g A _ _ _ HS3 Hrange Hla Hact) as (Hp & Hnp & Hh).
    destruct (length stk <? length (rhs g p)) eqn:Hlen; [discriminate Hstep|].
    destruct (goto A (top A (skipn (length (rhs g p)) stk)) (lhs g p)) as [s'|] eqn:Hgo;
      [|discriminate Hstep].
    injection Hstep as Hc'. subst c'.
    set (n := length (rhs g p)) in *.
    destruct (item_back n stk p Hw Hh) as [Hn Hmap].
    unfold n in Hmap at 2. rewrite firstn_all in Hmap.
    pose proof (wfstk_skipn n stk Hw) as Hw'.
    pose proof (wf_lhs_range g p Hwf Hp) as Hlr.
    pose proof (vS4_goto g A _ _ _ HS4 (wfstk_top_range _ Hw') Hlr Hgo) as Hedge.
    unfold inv. simpl fst. simpl snd. repeat split.
    + exact Hpos.
    + constructor; [exact Hw' | exact Hedge | simpl; apply N.ltb_lt; exact Hlr |].
      constructor; [exact Hp | | exact Hmap].
      apply Forall_rev. pose proof (wfstk_valid stk Hw) as Hv.
      rewrite <- (firstn_skipn n stk), map_app in Hv. apply Forall_app in Hv.
      exact (proj1 Hv).
    + rewrite <- Hc. rewrite <- (firstn_skipn n stk) at 3.
      replace ((s', Node p (rev (map snd (firstn n stk)))) :: skipn n stk) with
        ([(s', Node p (rev (map snd (firstn n stk))))] ++ skipn n stk) by reflexivity.
      rewrite !consumed_app. f_equal.
      unfold consumed. simpl. rewrite app_nil_r. apply yield_node.
  - (* accept *)
    destruct (rev stk) as [|[s0 [a i|p k]] l]; discriminate Hstep.
  - discriminate Hstep.
Qed.

Lemma step_reject c k st : step g A input c = inr (RReject k st) ->
  k = snd c /\ st = top A (fst c).
Proof.
  destruct c as [stk pos]. unfold step. intros Hstep.
  destruct (action A (top A stk) (la g input pos)) as [s'|p| |] eqn:Hact.
  - discriminate Hstep.
  - destruct (length stk <? length (rhs g p)); [discriminate Hstep|].
    destruct (goto A _ _); discriminate Hstep.
  - destruct (rev stk) as [|[s0 [a i|p k']] l]; discriminate Hstep.
  - injection Hstep as H1 H2. subst. split; reflexivity.
Qed.

Hypothesis Hprod : productive g.

Lemma inv_viable c : inv c -> sentence_prefix g (firstn (snd c) input).
Proof.
  destruct c as [stk pos]. intros (Hpos & Hw & Hc). simpl in *.
  assert (Hv : exists rest, derives g [R (start_rule g)] (gamma stk ++ rest)).
  { destruct stk as [|e stk'] eqn:Hstk.
    - exists [R (start_rule g)]. apply d_refl.
    - rewrite <- Hstk in *.
      assert (Hne : stk <> []) by (rewrite Hstk; discriminate).
      destruct (vE2_spec A _ HE2 (wfstk_top_range stk Hw) (wfstk_top_start stk Hw Hne))
        as (i & Hi & _).
      eapply ctx_valid_viable. apply (items_valid stk Hw i Hi). }
  destruct Hv as (rest & Hv).
  assert (Hr : form_in_range g (gamma stk ++ rest)).
  { apply (derives_in_range g _ _ Hwf Hv). constructor; [|constructor].
    simpl. apply N.ltb_lt. apply wf_start_rule_range. exact Hwf. }
  apply Forall_app in Hr. destruct Hr as [_ Hr].
  destruct (productive_form g rest Hprod Hr) as (w & Hw2).
  pose proof (gamma_derives stk Hw) as Hg. rewrite Hc in Hg.
  pose proof (derives_trans g _ _ _ Hv (derives_app g _ _ _ _ Hg Hw2)) as Hd.
  rewrite <- tokens_of_app in Hd.
  destruct (wf_user_start g Hwf) as (s & Hs).
  exists w, s. split; [exact Hs|].
  destruct (derives_start g s _ Hwf Hs Hd) as [Heq|Hder]; [|exact Hder].
  exfalso. destruct (firstn pos input ++ w); discriminate Heq.
Qed.

Lemma run_from_reject_viable fuel : forall c k st, inv c ->
  run_from g A input fuel c = RReject k st ->
  k <= length input /\ sentence_prefix g (firstn k input).
Proof.
  induction fuel as [|f IH]; intros c k st Hinv Hrun; simpl in Hrun; [discriminate Hrun|].
  destruct (step g A input c) as [c'|r] eqn:Hstep.
  - eapply IH; [eapply inv_step; eassumption | exact Hrun].
  - subst r. destruct (step_reject c k st Hstep) as [Hk _]. subst k.
    split; [exact (proj1 Hinv) | apply inv_viable; exact Hinv].
Qed.

End Invariant.

Lemma shifted_prefix_viable : shifted_prefix_viable_stmt.
Proof.
  intros g A Hwf HS HE Hprod input fuel k st Hin _ Hrun.
  eapply (run_from_reject_viable g A Hwf HS HE input Hin Hprod fuel ([], 0) k st).
  - apply inv_init.
  - exact Hrun.
Qed.
