(* A grammar that has a validated complete automaton (validS, validC) and is
   productive and acyclic has no hidden left recursion among the rules that
   occur in sentential forms: otherwise two sentences  u z d v  and  u z d d v
   (d non-empty) force different numbers of empty trees onto the stack before
   the same lexeme with the same lookahead, against the determinism of [step]
   (TermLeaf.left_context_determined); and d empty makes the rule derive itself. *)
From Coq Require Import List Arith NArith Bool Lia.
From GV Require Import Base.Grammar Base.Analyses Base.GrammarFacts
  LR.Automaton LR.Validator LR.Spec LR.Sound LR.Complete
  LR.TermSpec LR.TermComplete LR.TermRenum LR.TermLeaf.
From GV Require LR.Prefix.
Import ListNotations.

(* rules that occur in a sentential form of ^ *)
Inductive sreach (g : grammar) : N -> Prop :=
| sr_start : sreach g (start_rule g)
| sr_step p b : sreach g (lhs g p) -> is_prod g p -> In (R b) (rhs g p) -> sreach g b.

Lemma sreach_range g r : wf_grammar g = true -> sreach g r -> (r < nrules g)%N.
Proof.
  intros Hwf H. destruct H as [|p b _ Hp Hin].
  - apply wf_start_rule_range. exact Hwf.
  - pose proof (wf_rhs_range g p _ Hwf Hp Hin) as H. simpl in H. apply N.ltb_lt. exact H.
Qed.

Lemma firstn_S_app {X} (a : list X) x r : firstn (S (length a)) (a ++ x :: r) = a ++ [x].
Proof.
  rewrite firstn_app. replace (S (length a) - length a) with 1 by lia.
  rewrite firstn_all2 by lia. reflexivity.
Qed.

Section HLR.
Variable g : grammar.
Hypothesis Hwf : wf_grammar g = true.
Hypothesis Hprod : productive g.

(* ---- forests ------------------------------------------------------------------------ *)

Lemma eps_forest al : derives g al [] ->
  exists ts, Forall (valid_tree g) ts /\ map (root g) ts = al /\ flat_map leaves ts = [].
Proof. intros H. exact (derives_forest_leaves g al [] H). Qed.

Lemma rhs_part_in_range p al x be : is_prod g p -> rhs g p = al ++ x :: be ->
  Prefix.form_in_range g al /\ Prefix.form_in_range g be.
Proof.
  intros Hp Hr. split; apply Forall_forall; intros y Hy; apply (wf_rhs_range g p y Hwf Hp);
    rewrite Hr; apply in_or_app; [left; exact Hy | right; right; exact Hy].
Qed.

Lemma prod_forest al : Prefix.form_in_range g al ->
  exists ts, Forall (valid_tree g) ts /\ map (root g) ts = al.
Proof.
  intros Hr. destruct (Prefix.productive_form g al Hprod Hr) as (w & Hw).
  destruct (derives_forest g al w Hw) as (ts & Hv & Hm & _). exists ts. split; assumption.
Qed.

Lemma leaves_nil_derives ts : Forall (valid_tree g) ts -> flat_map leaves ts = [] ->
  derives g (map (root g) ts) [].
Proof.
  intros Hv Hl. pose proof (forest_derives g ts Hv) as H.
  rewrite yield_flat_map, Hl in H. exact H.
Qed.

(* ---- wrapping a tree along a left-corner path -------------------------------------------- *)

Definition wrap_ok (a c : N) (m : bool) (W : tree -> tree) (extra : nat) (tail : list (N * nat)) : Prop :=
  (m = true -> 1 <= extra) /\
  (tail = [] -> derives_plus g [R a] [R c]) /\
  forall t, valid_tree g t -> root g t = R c ->
    valid_tree g (W t) /\ root g (W t) = R a /\ leaves (W t) = leaves t ++ tail /\
    (leaves t <> [] -> lctxlen (W t) 0 = extra + lctxlen t 0).

Lemma wrap_step a b m : hl_step g a b m -> exists W extra tail, wrap_ok a b m W extra tail.
Proof.
  intros (p & al & be & Hp & Hl & Hr & Hd & Hm).
  destruct (eps_forest al Hd) as (pre & Hvpre & Hrpre & Hlpre).
  destruct (rhs_part_in_range p al (R b) be Hp Hr) as [_ Hbe].
  destruct (prod_forest be Hbe) as (post & Hvpost & Hrpost).
  exists (fun t => Node p (pre ++ t :: post)), (length pre), (flat_map leaves post).
  split; [|split].
  - intros Hmt. subst m. destruct al as [|x al]; [discriminate Hmt|].
    destruct pre; [discriminate Hrpre | simpl; lia].
  - intros Htail. exists [], p, []. split; [exact Hp|]. split; [rewrite Hl; reflexivity|].
    cbn [app]. rewrite app_nil_r, Hr.
    pose proof (leaves_nil_derives post Hvpost Htail) as Hdb. rewrite Hrpost in Hdb.
    exact (derives_app g al [] (R b :: be) [R b] Hd (derives_cons g (R b) be [] Hdb)).
  - intros t Hvt Hrt. split; [|split; [|split]].
    + constructor; [exact Hp| |].
      * apply Forall_app. split; [exact Hvpre|]. constructor; assumption.
      * rewrite map_app. cbn [map]. rewrite Hrpre, Hrt, Hrpost. symmetry. exact Hr.
    + cbn [root]. rewrite Hl. reflexivity.
    + rewrite leaves_Node, flat_map_app. cbn [flat_map]. rewrite Hlpre. reflexivity.
    + intros Hne. rewrite lctxlen_node.
      pose proof (lctxlen_f_enter pre t post 0) as H. rewrite Hlpre in H. cbn [length Nat.add] in H.
      apply H. destruct (leaves t); [contradiction Hne; reflexivity | simpl; lia].
Qed.

Lemma derives_plus_trans a b c : derives_plus g a b -> derives_plus g b c -> derives_plus g a c.
Proof.
  intros Hab Hbc. eapply derives_plus_trans_r; [exact Hab|]. apply derives_plus_derives. exact Hbc.
Qed.

Lemma wrap_path a c m : hl_path g a c m -> exists W extra tail, wrap_ok a c m W extra tail.
Proof.
  intros H. induction H as [a b m Hs | a b c m m' Hs Hp IH].
  - apply wrap_step. exact Hs.
  - destruct (wrap_step a b m Hs) as (W1 & e1 & t1 & Hm1 & Hd1 & H1).
    destruct IH as (W2 & e2 & t2 & Hm2 & Hd2 & H2).
    exists (fun t => W1 (W2 t)), (e1 + e2), (t2 ++ t1). split; [|split].
    + intros Hmm. apply orb_true_iff in Hmm. destruct Hmm as [Hmm|Hmm].
      * specialize (Hm1 Hmm). lia.
      * specialize (Hm2 Hmm). lia.
    + intros Ht. apply app_eq_nil in Ht. destruct Ht as [Ht2 Ht1].
      exact (derives_plus_trans _ _ _ (Hd1 Ht1) (Hd2 Ht2)).
    + intros t Hvt Hrt. destruct (H2 t Hvt Hrt) as (Hv2 & Hr2 & Hl2 & Hc2).
      destruct (H1 (W2 t) Hv2 Hr2) as (Hv1 & Hr1 & Hl1 & Hc1).
      split; [exact Hv1|]. split; [exact Hr1|]. split.
      * rewrite Hl1, Hl2, app_assoc. reflexivity.
      * intros Hne. rewrite Hc1.
        -- rewrite (Hc2 Hne). lia.
        -- rewrite Hl2. destruct (leaves t); [contradiction Hne; reflexivity | discriminate].
Qed.

(* the end of a left-corner path occurs on a right-hand side *)
Lemma hl_path_end_not_start a c m : hl_path g a c m -> c <> start_rule g.
Proof.
  intros H. induction H as [a b m (p & al & be & Hp & _ & Hr & _) | a b c m m' _ _ IH]; [|exact IH].
  intros Hb. subst b.
  assert (Hin : In (R (start_rule g)) (rhs g p)) by (rewrite Hr; apply in_elt).
  destruct (wf_rhs_not_start_eof g p _ Hwf Hp Hin) as [H _]. apply H. reflexivity.
Qed.

(* ---- embedding a tree of a reachable rule into a sentence tree ---------------------------- *)

Lemma sentence_context s : user_start g = Some s ->
  forall c, sreach g c -> c <> start_rule g ->
  exists (K : tree -> tree) (prel postl : list (N * nat)) (L0 : nat),
    forall t, valid_tree g t -> root g t = R c ->
      valid_tree g (K t) /\ root g (K t) = R s /\ leaves (K t) = prel ++ leaves t ++ postl /\
      forall i, i < length (leaves t) -> lctxlen (K t) (length prel + i) = L0 + lctxlen t i.
Proof.
  intros Hus c Hc. induction Hc as [|p b Hreach IH Hp Hin]; intros Hne; [contradiction Hne; reflexivity|].
  destruct (N.eq_dec (lhs g p) (start_rule g)) as [Hst|Hnst].
  - (* the production is ^ : S *)
    pose proof (wf_start_prod_unique g p Hwf Hp Hst) as Hpp. subst p.
    rewrite (user_start_rhs g s Hus) in Hin. destruct Hin as [Hin|[]]. injection Hin as Hb. subst b.
    exists (fun t => t), [], [], 0. intros t Hvt Hrt. rewrite app_nil_r. cbn [app length Nat.add].
    repeat split; auto.
  - destruct (IH Hnst) as (K & prel & postl & L0 & HK).
    destruct (in_split _ _ Hin) as (al & be & Hr).
    destruct (rhs_part_in_range p al (R b) be Hp Hr) as [Hal Hbe].
    destruct (prod_forest al Hal) as (pre & Hvpre & Hrpre).
    destruct (prod_forest be Hbe) as (post & Hvpost & Hrpost).
    exists (fun t => K (Node p (pre ++ t :: post))),
           (prel ++ flat_map leaves pre), (flat_map leaves post ++ postl), (L0 + length pre).
    intros t Hvt Hrt.
    assert (HvN : valid_tree g (Node p (pre ++ t :: post))).
    { constructor; [exact Hp| |].
      - apply Forall_app. split; [exact Hvpre|]. constructor; assumption.
      - rewrite map_app. cbn [map]. rewrite Hrpre, Hrt, Hrpost. symmetry. exact Hr. }
    destruct (HK _ HvN eq_refl) as (HvK & HrK & HlK & HcK).
    split; [exact HvK|]. split; [exact HrK|]. split.
    + rewrite HlK, leaves_Node, flat_map_app. cbn [flat_map]. rewrite <- !app_assoc. reflexivity.
    + intros i Hi. rewrite app_length, <- Nat.add_assoc. rewrite HcK.
      * rewrite lctxlen_node, (lctxlen_f_enter pre t post i Hi). lia.
      * rewrite leaves_Node, flat_map_app, app_length. cbn [flat_map]. rewrite app_length. lia.
Qed.

(* ---- the theorem ---------------------------------------------------------------------------- *)

Variable A : automaton.
Hypothesis HS : validS g A = true.
Hypothesis HC : validC g A = true.
Hypothesis Hac : acyclic g.

Theorem reachable_hlr_free c : sreach g c -> ~ hl_path g c c true.
Proof.
  intros Hc Hpath.
  pose proof (hl_path_end_not_start c c true Hpath) as Hne.
  destruct (wf_user_start g Hwf) as (s & Hus).
  destruct (wrap_path c c true Hpath) as (W & extra & tail & Hm & Hd & HW).
  specialize (Hm eq_refl).
  destruct tail as [|x0 tail0]; [exact (Hac c (Hd eq_refl))|]. clear Hd.
  destruct (Hprod c (sreach_range g c Hwf Hc)) as (w & Hw).
  destruct (derives_tree g c w Hw) as (t0 & Hv0 & Hr0 & _).
  destruct (HW t0 Hv0 Hr0) as (Hv1 & Hr1 & Hl1 & _). set (t1 := W t0) in *.
  destruct (HW t1 Hv1 Hr1) as (Hv2 & Hr2 & Hl2 & Hc2). set (t2 := W t1) in *.
  assert (Hne1 : leaves t1 <> []) by (rewrite Hl1; destruct (leaves t0); discriminate).
  specialize (Hc2 Hne1).
  destruct (sentence_context s Hus c Hc Hne) as (K & prel & postl & L0 & HK).
  destruct (HK t1 Hv1 Hr1) as (HvK1 & HrK1 & HlK1 & HcK1).
  destruct (HK t2 Hv2 Hr2) as (HvK2 & HrK2 & HlK2 & HcK2).
  destruct (leaves t1) as [|x1 rest1] eqn:Hlt1; [contradiction Hne1; reflexivity|].
  assert (Hy1 : yield (K t1) = map fst prel ++ fst x1 :: map fst (rest1 ++ postl)).
  { unfold yield. rewrite HlK1, map_app. reflexivity. }
  assert (Hy2 : yield (K t2) = map fst prel ++ fst x1 :: map fst ((rest1 ++ x0 :: tail0) ++ postl)).
  { unfold yield. rewrite HlK2, Hl2, map_app. reflexivity. }
  set (j := length prel).
  assert (Hj : j = length (map fst prel)) by (rewrite map_length; reflexivity).
  pose proof (left_context_determined g A Hwf HS HC (renum 0 (K t1)) (renum 0 (K t2)) s j Hus) as Hdet.
  rewrite !root_renum, !yield_renum, !lctxlen_renum in Hdet.
  specialize (Hdet HrK1 (valid_renum g _ HvK1 0)).
  assert (Ho1 : leaves_in_order (renum 0 (K t1)) (yield (K t1))) by apply renum_in_order.
  assert (Ho2 : leaves_in_order (renum 0 (K t2)) (yield (K t2))) by apply renum_in_order.
  specialize (Hdet Ho1 HrK2 (valid_renum g _ HvK2 0) Ho2).
  assert (Hlen1 : j < length (yield (K t1))) by (rewrite Hy1, app_length; simpl; lia).
  assert (Hlen2 : j < length (yield (K t2))) by (rewrite Hy2, app_length; simpl; lia).
  specialize (Hdet Hlen1 Hlen2).
  assert (Hpre : firstn (S j) (yield (K t1)) = firstn (S j) (yield (K t2))).
  { rewrite Hy1, Hy2, Hj, !firstn_S_app. reflexivity. }
  specialize (Hdet Hpre).
  assert (H0a : 0 < length (x1 :: rest1)) by (simpl; lia).
  pose proof (HcK1 0 H0a) as E1.
  assert (H0b : 0 < length (leaves t2)) by (rewrite Hl2; simpl; lia).
  pose proof (HcK2 0 H0b) as E2.
  rewrite Nat.add_0_r in E1, E2. fold j in E1, E2. lia.
Qed.

End HLR.
