(* Completeness of the LR interpreter under the validators (C01 part B): with
   [validS] (only S1/S5: states stay in range) and [validC], the run on the
   yield of a valid tree rooted at the user's start rule accepts with exactly
   that tree.  Also: lookahead locality of [step], and the consequence that
   the lexemes up to and including the reported error are not a prefix of a
   sentence followed by end of input.

   FIRST/nullable: only the *coverage* direction of the reference analyses is
   needed (the sets contain everything they should), and that follows from the
   closedness checks built into [first_ref]; AnalysesProofs.v is not used. *)
From Coq Require Import List Arith NArith Bool Lia.
From GV Require Import Base.Grammar Base.Analyses Base.GrammarFacts
  LR.Automaton LR.Validator LR.Spec LR.Sound.
Import ListNotations.

(* ---- lists ------------------------------------------------------------------ *)

Lemma app_inv_length {X} (a b c d : list X) :
  a ++ b = c ++ d -> length a = length c -> a = c /\ b = d.
Proof.
  revert c. induction a as [|x a IH]; intros [|y c] H Hl; simpl in *; try discriminate Hl.
  - split; [reflexivity | exact H].
  - injection H as Hx H. injection Hl as Hl. destruct (IH c H Hl) as [H1 H2].
    subst. split; reflexivity.
Qed.

Lemma skipn_cons_nth {X} (l : list X) i x r :
  skipn i l = x :: r -> nth_error l i = Some x /\ skipn (S i) l = r.
Proof.
  revert i. induction l as [|y l IH]; intros [|i] H; simpl in *; try discriminate H.
  - injection H as Hx Hr. subst. split; reflexivity.
  - apply IH. exact H.
Qed.

Lemma skipn_nil_len {X} (l : list X) i : skipn i l = [] -> (length l <= i)%nat.
Proof.
  intros H. assert (Hl : length (skipn i l) = 0%nat) by (rewrite H; reflexivity).
  rewrite skipn_length in Hl. lia.
Qed.

Lemma combine_firstn_rev (sts : list N) (kids : list tree) (stk : stack) :
  length sts = length kids ->
  rev (map snd (firstn (length kids) (rev (combine sts kids) ++ stk))) = kids
  /\ skipn (length kids) (rev (combine sts kids) ++ stk) = stk.
Proof.
  intros Hl.
  assert (Hc : length (rev (combine sts kids)) = length kids).
  { rewrite rev_length, combine_length. lia. }
  split.
  - rewrite firstn_app. rewrite Hc, Nat.sub_diag. simpl. rewrite app_nil_r.
    rewrite firstn_all2 by lia. rewrite map_rev, rev_involutive.
    clear Hc. revert kids Hl. induction sts as [|s sts IH]; intros [|k ks] H; simpl in *;
      try discriminate H; [reflexivity|].
    f_equal. apply IH. lia.
  - rewrite skipn_app. rewrite Hc, Nat.sub_diag. simpl. rewrite skipn_all2 by lia. reflexivity.
Qed.

Lemma map_fst_combine_seq {X} (w : list X) n : map fst (combine w (seq n (length w))) = w.
Proof.
  revert n. induction w as [|a w IH]; intros n; simpl; [reflexivity|]. rewrite IH. reflexivity.
Qed.

Lemma map_snd_combine_seq {X} (w : list X) n : map snd (combine w (seq n (length w))) = seq n (length w).
Proof.
  revert n. induction w as [|a w IH]; intros n; simpl; [reflexivity|]. rewrite IH. reflexivity.
Qed.

Lemma nth_firstn_lt {X} (l : list X) n i d : (i < n)%nat -> nth i (firstn n l) d = nth i l d.
Proof.
  revert n i. induction l as [|x l IH]; intros [|n] [|i] H; simpl; try reflexivity; try lia.
  apply IH. lia.
Qed.

(* ---- the list-sets of Analyses.v ------------------------------------------------ *)

Lemma memN_In x l : memN x l = true <-> In x l.
Proof.
  unfold memN. rewrite existsb_exists. split.
  - intros (y & Hy & He). apply N.eqb_eq in He. subst y. exact Hy.
  - intros H. exists x. split; [exact H | apply N.eqb_refl].
Qed.

Lemma In_addN x y l : In x (addN y l) <-> x = y \/ In x l.
Proof.
  unfold addN. destruct (memN y l) eqn:E.
  - split; [intros H; right; exact H|]. intros [H|H]; [|exact H]. subst x. apply memN_In. exact E.
  - simpl. split; intros [H|H]; auto.
Qed.

Lemma In_unionN x a b : In x (unionN a b) <-> In x a \/ In x b.
Proof.
  unfold unionN. induction a as [|y a IH]; simpl.
  - split; [intros H; right; exact H | intros [[]|H]; exact H].
  - rewrite In_addN, IH. split.
    + intros [H|[H|H]]; auto.
    + intros [[H|H]|H]; auto.
Qed.

Lemma subsetN_incl a b : subsetN a b = true -> incl a b.
Proof.
  unfold subsetN. rewrite forallb_forall. intros H x Hx. apply memN_In. apply H. exact Hx.
Qed.

Lemma memP_In x l : memP x l = true <-> In x l.
Proof.
  unfold memP. rewrite existsb_exists. split.
  - intros (y & Hy & He). unfold pair_eqb in He. apply andb_true_iff in He. destruct He as [H1 H2].
    apply N.eqb_eq in H1. apply N.eqb_eq in H2. destruct x as [x1 x2], y as [y1 y2]. simpl in *.
    subst. exact Hy.
  - intros H. exists x. split; [exact H|]. unfold pair_eqb. rewrite !N.eqb_refl. reflexivity.
Qed.

Lemma first_of_rule_In fs r a : In a (first_of_rule fs r) <-> In (r, a) fs.
Proof.
  unfold first_of_rule. rewrite in_map_iff. split.
  - intros ([r' a'] & Ha & Hf). apply filter_In in Hf. destruct Hf as [Hin He]. simpl in *.
    apply N.eqb_eq in He. subst. exact Hin.
  - intros H. exists (r, a). split; [reflexivity|]. apply filter_In. split; [exact H|].
    simpl. apply N.eqb_refl.
Qed.

(* ---- FIRST / nullable coverage from the closedness checks ---------------------- *)

Lemma first_ref_closed g nl fs : first_ref g = Some (nl, fs) ->
  nullable_closed g nl = true /\ first_closed g nl fs = true.
Proof.
  unfold first_ref. destruct (nullable_ref g) as [nl'|] eqn:Hn; [|discriminate].
  cbv zeta.
  match goal with |- context [first_closed g nl' ?F] => set (fs' := F) end.
  destruct (first_closed g nl' fs') eqn:Hf; [|discriminate].
  intros H. injection H as H1 H2. subst nl' fs. split; [|exact Hf].
  unfold nullable_ref in Hn. cbv zeta in Hn.
  match type of Hn with context [nullable_closed g ?F] => set (s := F) in * end.
  destruct (nullable_closed g s) eqn:Hc; [|discriminate].
  injection Hn as Hn. subst nl. exact Hc.
Qed.

Lemma forest_nullable_of g nl kids :
  Forall (fun t => yield t = [] -> nullable_sym nl (root g t) = true) kids ->
  flat_map yield kids = [] -> nullable_seq nl (map (root g) kids) = true.
Proof.
  intros H. induction H as [|k ks Hk Hks IH]; intros Hy; simpl in *; [reflexivity|].
  apply app_eq_nil in Hy. destruct Hy as [Hy1 Hy2].
  rewrite (Hk Hy1). simpl. apply IH. exact Hy2.
Qed.

Lemma tree_nullable g nl : nullable_closed g nl = true ->
  forall t, valid_tree g t -> yield t = [] -> nullable_sym nl (root g t) = true.
Proof.
  intros Hc t Hv. induction Hv as [a i | p kids Hp Hk IH Hm] using valid_tree_ind'; intros Hy.
  - discriminate Hy.
  - rewrite yield_node in Hy. pose proof (forest_nullable_of g nl kids IH Hy) as Hs.
    rewrite Hm in Hs. unfold nullable_closed in Hc. rewrite forallb_forall in Hc.
    specialize (Hc _ (prod_in_prods g p Hp)). simpl in Hc. rewrite Hs in Hc. simpl in Hc.
    simpl. exact Hc.
Qed.

Lemma forest_nullable g nl : nullable_closed g nl = true ->
  forall kids, Forall (valid_tree g) kids -> flat_map yield kids = [] ->
    nullable_seq nl (map (root g) kids) = true.
Proof.
  intros Hc kids Hv. apply forest_nullable_of. rewrite Forall_forall in *.
  intros t Ht. apply tree_nullable; [exact Hc | apply Hv; exact Ht].
Qed.

(* the first token of a tree's yield is in FIRST of its root *)
Definition first_covers (g : grammar) (fs : list pairN) (t : tree) : Prop :=
  forall a u, yield t = a :: u ->
    match root g t with T b => a = b | R r => In (r, a) fs end.

Lemma forest_first_of g nl fs : nullable_closed g nl = true ->
  forall kids, Forall (valid_tree g) kids -> Forall (first_covers g fs) kids ->
  forall a u, flat_map yield kids = a :: u -> In a (first_seq nl fs (map (root g) kids)).
Proof.
  intros Hc kids Hv Hf. induction Hf as [|k ks Hk Hks IH]; intros a u Hy; [discriminate Hy|].
  inversion Hv as [|? ? Hvk Hvks]; subst. cbn [flat_map map] in *.
  destruct (yield k) as [|a' u'] eqn:Hyk.
  - pose proof (tree_nullable g nl Hc k Hvk Hyk) as Hn.
    destruct (root g k) as [b|r] eqn:Hr; simpl in Hn; [discriminate Hn|].
    cbn [first_seq]. rewrite Hn. apply In_unionN. right. eapply IH; [exact Hvks | exact Hy].
  - simpl in Hy. injection Hy as Ha Hu. subst a'.
    specialize (Hk a u' Hyk).
    destruct (root g k) as [b|r] eqn:Hr; cbn [first_seq].
    + left. symmetry. exact Hk.
    + destruct (memN r nl); [apply In_unionN; left|]; apply first_of_rule_In; exact Hk.
Qed.

Lemma tree_first g nl fs : nullable_closed g nl = true -> first_closed g nl fs = true ->
  forall t, valid_tree g t -> first_covers g fs t.
Proof.
  intros Hc Hfc t Hv. induction Hv as [a i | p kids Hp Hk IH Hm] using valid_tree_ind'; intros b u Hy.
  - simpl. injection Hy as Hy _. symmetry. exact Hy.
  - rewrite yield_node in Hy. pose proof (forest_first_of g nl fs Hc kids Hk IH b u Hy) as Hs.
    rewrite Hm in Hs. unfold first_closed in Hfc. rewrite forallb_forall in Hfc.
    specialize (Hfc _ (prod_in_prods g p Hp)). simpl in Hfc. rewrite forallb_forall in Hfc.
    specialize (Hfc b Hs). simpl. apply memP_In. exact Hfc.
Qed.

Lemma forest_first g nl fs : first_ref g = Some (nl, fs) ->
  forall kids, Forall (valid_tree g) kids ->
  forall a u, flat_map yield kids = a :: u -> In a (first_seq nl fs (map (root g) kids)).
Proof.
  intros Hfr kids Hv. destruct (first_ref_closed g nl fs Hfr) as [Hc Hfc].
  apply (forest_first_of g nl fs Hc kids Hv). rewrite Forall_forall in *.
  intros t Ht. apply (tree_first g nl fs Hc Hfc). apply Hv. exact Ht.
Qed.

Lemma forest_nullable_ref g nl fs : first_ref g = Some (nl, fs) ->
  forall kids, Forall (valid_tree g) kids -> flat_map yield kids = [] ->
    nullable_seq nl (map (root g) kids) = true.
Proof.
  intros Hfr. destruct (first_ref_closed g nl fs Hfr) as [Hc _]. apply forest_nullable. exact Hc.
Qed.

(* what a remaining forest and the lookahead after it put into FIRST(rest . L) *)
Lemma firstseq_la_covers g nl fs : first_ref g = Some (nl, fs) ->
  forall kids L a, Forall (valid_tree g) kids ->
    match flat_map yield kids with [] => In a L | b :: _ => a = b end ->
    In a (firstseq_la nl fs (map (root g) kids) L).
Proof.
  intros Hfr kids L a Hv H. unfold firstseq_la.
  destruct (flat_map yield kids) as [|b u] eqn:Hy.
  - rewrite (forest_nullable_ref g nl fs Hfr kids Hv Hy). apply In_unionN. right. exact H.
  - subst b. pose proof (forest_first g nl fs Hfr kids Hv a u Hy) as Hf.
    destruct (nullable_seq nl (map (root g) kids)); [apply In_unionN; left|]; exact Hf.
Qed.

(* ---- more of wf_grammar ----------------------------------------------------------- *)

Lemma nth_error_rhs_is_prod g p d X : nth_error (rhs g p) d = Some X -> is_prod g p.
Proof.
  unfold rhs, prod, is_prod. destruct (nth_error (prods g) (N.to_nat p)) as [[l r]|] eqn:Hn.
  - intros _. apply nth_error_Some. rewrite Hn. discriminate.
  - destruct d; discriminate.
Qed.

Lemma wf_rhs_not_start_eof g p x : wf_grammar g = true -> is_prod g p -> In x (rhs g p) ->
  x <> R (start_rule g) /\ x <> T (eof g).
Proof.
  unfold wf_grammar. intros Hwf Hp Hx.
  apply andb_true_iff in Hwf. destruct Hwf as [_ Hwf].
  rewrite forallb_forall in Hwf. specialize (Hwf _ (prod_in_prods g p Hp)). simpl in Hwf.
  rewrite forallb_forall in Hwf. specialize (Hwf x Hx).
  apply andb_true_iff in Hwf. destruct Hwf as [H1 H2].
  split; intros He; subst x.
  - assert (E : sym_eqb (R (start_rule g)) (R (start_rule g)) = true) by (apply sym_eqb_eq; reflexivity).
    rewrite E in H1. discriminate H1.
  - assert (E : sym_eqb (T (eof g)) (T (eof g)) = true) by (apply sym_eqb_eq; reflexivity).
    rewrite E in H2. discriminate H2.
Qed.

Lemma wf_start_prod_unique g p : wf_grammar g = true -> is_prod g p ->
  lhs g p = start_rule g -> p = start_prod g.
Proof.
  unfold wf_grammar. intros Hwf Hp Hl.
  apply andb_true_iff in Hwf. destruct Hwf as [Hwf _].
  apply andb_true_iff in Hwf. destruct Hwf as [_ Hwf].
  rewrite forallb_forall in Hwf. specialize (Hwf p (proj2 (In_pidxs g p) Hp)).
  apply orb_true_iff in Hwf. destruct Hwf as [H|H].
  - apply N.eqb_eq. exact H.
  - rewrite Hl, N.eqb_refl in H. discriminate H.
Qed.

(* ---- the interpreter: lookahead locality ---------------------------------------------
   (steps_trans, steps_final_run_from, run_from_steps, run_from_det: Sound.v) *)

Lemma steps_one g A input c c' : step g A input c = inl c' -> steps g A input c c'.
Proof. intros H. eapply st_step; [exact H | apply st_refl]. Qed.

Lemma step_pos_mono g A input c c' : step g A input c = inl c' -> (snd c <= snd c')%nat.
Proof.
  destruct c as [stk pos]. unfold step. destruct (action A (top A stk) (la g input pos)) as [s'|p| |].
  - intros H. injection H as H. subst c'. simpl. lia.
  - destruct (length stk <? length (rhs g p))%nat; [discriminate|].
    destruct (goto A _ (lhs g p)); [|discriminate]. intros H. injection H as H. subst c'. simpl. lia.
  - destruct (rev stk) as [|[s [a i|q k]] l]; discriminate.
  - discriminate.
Qed.

Lemma steps_pos_mono g A input c c' : steps g A input c c' -> (snd c <= snd c')%nat.
Proof.
  intros H. induction H as [c | c c1 c' Hs Hst IH]; [lia|].
  apply step_pos_mono in Hs. lia.
Qed.

Lemma step_reject_pos g A input c k st : step g A input c = inr (RReject k st) ->
  snd c = k /\ top A (fst c) = st.
Proof.
  destruct c as [stk pos]. unfold step. destruct (action A (top A stk) (la g input pos)) as [s'|p| |].
  - discriminate.
  - destruct (length stk <? length (rhs g p))%nat; [discriminate|].
    destruct (goto A _ (lhs g p)); discriminate.
  - destruct (rev stk) as [|[s [a i|q kk]] l]; discriminate.
  - intros H. injection H as H1 H2. simpl. split; assumption.
Qed.

(* lookahead locality: a step looks at the input only through [la] at the
   current position *)
Lemma step_la_ext g A i1 i2 stk pos : la g i1 pos = la g i2 pos ->
  step g A i1 (stk, pos) = step g A i2 (stk, pos).
Proof. intros H. unfold step. rewrite H. reflexivity. Qed.

Definition la_agree (g : grammar) (i1 i2 : list N) (k : nat) : Prop :=
  forall pos, (pos < k)%nat -> la g i1 pos = la g i2 pos.

Lemma la_agree_sym g i1 i2 k : la_agree g i1 i2 k -> la_agree g i2 i1 k.
Proof. intros H pos Hp. symmetry. apply H. exact Hp. Qed.

Lemma steps_local g A i1 i2 k c c' : la_agree g i1 i2 k ->
  steps g A i1 c c' -> (snd c' < k)%nat -> steps g A i2 c c'.
Proof.
  intros Hag H. induction H as [c | c c1 c' Hs Hst IH]; intros Hk; [apply st_refl|].
  pose proof (step_pos_mono _ _ _ _ _ Hs) as Hm1. pose proof (steps_pos_mono _ _ _ _ _ Hst) as Hm2.
  eapply st_step; [|apply IH; exact Hk].
  destruct c as [stk pos]. simpl in *. rewrite <- Hs. symmetry. apply step_la_ext. apply Hag. lia.
Qed.

(* a step that leaves the position below k lands on the same configuration for
   both inputs; the final step at a position below k gives the same verdict *)
Lemma step_local g A i1 i2 k c : la_agree g i1 i2 k -> (snd c < k)%nat ->
  step g A i1 c = step g A i2 c.
Proof. intros Hag Hk. destruct c as [stk pos]. apply step_la_ext. apply Hag. exact Hk. Qed.

(* [la] reads the input padded with the end-of-input token *)
Lemma la_padded g input pos : la g input pos = nth pos (input ++ [eof g]) (eof g).
Proof.
  unfold la. destruct (Nat.lt_ge_cases pos (length input)) as [H|H].
  - rewrite app_nth1 by exact H. reflexivity.
  - rewrite app_nth2 by exact H. rewrite nth_overflow by exact H.
    destruct (pos - length input)%nat as [|[|n]]; reflexivity.
Qed.

Lemma firstn_padded_la_agree g i1 i2 k :
  firstn k (i1 ++ [eof g]) = firstn k (i2 ++ [eof g]) -> la_agree g i1 i2 k.
Proof.
  intros H pos Hp. rewrite !la_padded.
  rewrite <- (nth_firstn_lt (i1 ++ [eof g]) k pos (eof g) Hp).
  rewrite <- (nth_firstn_lt (i2 ++ [eof g]) k pos (eof g) Hp). rewrite H. reflexivity.
Qed.

(* if the run on i1 is rejected at position k and i2 agrees with i1 (padded)
   on positions <= k, the run on i2 is rejected in the same way *)
Lemma reject_local g A i1 i2 fuel k st :
  run g A fuel i1 = RReject k st -> la_agree g i1 i2 (S k) ->
  exists fuel', run g A fuel' i2 = RReject k st.
Proof.
  intros Hrun Hag. unfold run in *.
  destruct (run_from_steps g A i1 fuel _ _ Hrun) as (c' & Hst & Hfin); [unfold finished; discriminate|].
  destruct (step_reject_pos _ _ _ _ _ _ Hfin) as [Hk _].
  assert (Hlt : (snd c' < S k)%nat) by lia.
  apply (steps_final_run_from g A i2 _ c').
  - eapply steps_local; [exact Hag | exact Hst | exact Hlt].
  - rewrite <- Hfin. symmetry. apply (step_local g A i1 i2 (S k)); assumption.
Qed.

(* ---- reflection of the validators (Prop level) -------------------------------- *)

Lemma find_item_some p d l j : find_item p d l = Some j -> In j l /\ j = (p, d, it_la j).
Proof.
  unfold find_item. intros H. apply find_some in H. destruct H as [Hin He].
  apply andb_true_iff in He. destruct He as [H1 H2].
  apply N.eqb_eq in H1. apply Nat.eqb_eq in H2.
  destruct j as [[p' d'] L']. unfold it_p, it_d, it_la in *. simpl in *. subst. split; [exact Hin | reflexivity].
Qed.

Lemma act_eqb_eq a b : act_eqb a b = true -> a = b.
Proof.
  destruct a as [x|x| |], b as [y|y| |]; simpl; intros H; try discriminate H; try reflexivity;
    apply N.eqb_eq in H; subst; reflexivity.
Qed.

Lemma optN_eqb_eq a b : optN_eqb a b = true -> a = b.
Proof.
  destruct a as [x|], b as [y|]; simpl; intros H; try discriminate H; try reflexivity.
  apply N.eqb_eq in H. subst. reflexivity.
Qed.

Lemma In_all_syms g X : sym_in_range g X = true -> In X (all_syms g).
Proof.
  unfold all_syms. intros H. apply in_or_app. destruct X as [a|r]; simpl in H; apply N.ltb_lt in H.
  - left. apply in_map. apply In_tidxs. exact H.
  - right. apply in_map. apply In_ridxs. exact H.
Qed.

Lemma vS1_spec g A : vS1 g A = true ->
  forall s X s', (s < nstates A)%N -> sym_in_range g X = true -> edge A s X = Some s' ->
    (s' < nstates A)%N /\ s' <> start A.
Proof.
  unfold vS1. intros H s X s' Hs HX He. rewrite forallb_forall in H.
  specialize (H s (proj2 (In_states A s) Hs)). rewrite forallb_forall in H.
  specialize (H X (In_all_syms g X HX)). rewrite He in H.
  apply andb_true_iff in H. destruct H as [H1 H2]. split.
  - apply N.ltb_lt. exact H2.
  - intros E. subst s'. rewrite N.eqb_refl in H1. discriminate H1.
Qed.

Lemma vC1_spec g A : vC1 g A = true ->
  exists L, In (start_prod g, 0%nat, L) (closed A (start A)) /\ In (eof g) L.
Proof.
  unfold vC1. destruct (find_item (start_prod g) 0 (closed A (start A))) as [j|] eqn:Hf; [|discriminate].
  intros H. apply find_item_some in Hf. destruct Hf as [Hin Hj]. exists (it_la j). split.
  - rewrite <- Hj. exact Hin.
  - apply memN_In. exact H.
Qed.

Lemma vC2_spec g nl fs A : vC2 g nl fs A = true ->
  forall s p d L r q, (s < nstates A)%N -> In (p, d, L) (closed A s) ->
    nth_error (rhs g p) d = Some (R r) -> is_prod g q -> lhs g q = r ->
    exists L', In (q, 0%nat, L') (closed A s) /\
               incl (firstseq_la nl fs (skipn (S d) (rhs g p)) L) L'.
Proof.
  unfold vC2. intros H s p d L r q Hs Hin Hnth Hq Hl. rewrite forallb_forall in H.
  specialize (H s (proj2 (In_states A s) Hs)). rewrite forallb_forall in H.
  specialize (H _ Hin). unfold it_p, it_d, it_la in H. simpl in H. rewrite Hnth in H.
  rewrite forallb_forall in H. specialize (H q (proj2 (In_pidxs g q) Hq)).
  rewrite Hl, N.eqb_refl in H. simpl in H.
  destruct (find_item q 0 (closed A s)) as [j|] eqn:Hf; [|discriminate H].
  apply find_item_some in Hf. destruct Hf as [Hinj Hj]. exists (snd j). split.
  - unfold it_la in Hj. rewrite <- Hj. exact Hinj.
  - apply subsetN_incl. exact H.
Qed.

Lemma vC3_spec g A : vC3 g A = true ->
  forall s p d L X, (s < nstates A)%N -> In (p, d, L) (closed A s) ->
    nth_error (rhs g p) d = Some X ->
    exists s', edge A s X = Some s' /\
      (exists L', In (p, S d, L') (closed A s') /\ incl L L') /\
      match X with T a => action A s a = Shift s' | R r => goto A s r = Some s' end.
Proof.
  unfold vC3. intros H s p d L X Hs Hin Hnth. rewrite forallb_forall in H.
  specialize (H s (proj2 (In_states A s) Hs)). rewrite forallb_forall in H.
  specialize (H _ Hin). unfold it_p, it_d, it_la in H. simpl in H. rewrite Hnth in H.
  destruct (edge A s X) as [s'|]; [|discriminate H]. exists s'. split; [reflexivity|].
  apply andb_true_iff in H. destruct H as [H1 H2]. split.
  - destruct (find_item p (S d) (closed A s')) as [j|] eqn:Hf; [|discriminate H1].
    apply find_item_some in Hf. destruct Hf as [Hinj Hj]. exists (snd j). split.
    + unfold it_la in Hj. rewrite <- Hj. exact Hinj.
    + apply subsetN_incl. exact H1.
  - destruct X as [a|r]; [apply act_eqb_eq | apply optN_eqb_eq]; exact H2.
Qed.

Lemma vC4_spec_reduce g A : vC4 g A = true ->
  forall s p L a, (s < nstates A)%N -> In (p, length (rhs g p), L) (closed A s) ->
    p <> start_prod g -> In a L -> action A s a = Reduce p.
Proof.
  unfold vC4. intros H s p L a Hs Hin Hns Ha. rewrite forallb_forall in H.
  specialize (H s (proj2 (In_states A s) Hs)). rewrite forallb_forall in H.
  specialize (H _ Hin). unfold it_p, it_d, it_la in H. simpl in H.
  rewrite Nat.eqb_refl in H. destruct (N.eqb p (start_prod g)) eqn:E.
  - apply N.eqb_eq in E. contradiction.
  - rewrite forallb_forall in H. apply act_eqb_eq. apply H. exact Ha.
Qed.

Lemma vC4_spec_accept g A : vC4 g A = true ->
  forall s L, (s < nstates A)%N ->
    In (start_prod g, length (rhs g (start_prod g)), L) (closed A s) ->
    In (eof g) L -> action A s (eof g) = Accept.
Proof.
  unfold vC4. intros H s L Hs Hin Ha. rewrite forallb_forall in H.
  specialize (H s (proj2 (In_states A s) Hs)). rewrite forallb_forall in H.
  specialize (H _ Hin). unfold it_p, it_d, it_la in H. simpl in H.
  rewrite Nat.eqb_refl, N.eqb_refl in H. apply memN_In in Ha. rewrite Ha in H. simpl in H.
  apply act_eqb_eq. exact H.
Qed.

Lemma validC_parts g A : validC g A = true ->
  exists nl fs, first_ref g = Some (nl, fs) /\
    vC1 g A = true /\ vC2 g nl fs A = true /\ vC3 g A = true /\ vC4 g A = true.
Proof.
  unfold validC. destruct (first_ref g) as [[nl fs]|]; [|discriminate]. intros H.
  exists nl, fs. repeat (apply andb_true_iff in H; destruct H as [H ?]). tauto.
Qed.

(* ---- positions in the input and leaf numbering ----------------------------------- *)

(* input laid out as pre ++ w ++ rest with |pre| = pos *)
Definition at_pos (input : list N) (pos : nat) (w : list N) : Prop :=
  exists pre rest, input = pre ++ w ++ rest /\ length pre = pos.

Lemma la_at g input pos a w : at_pos input pos (a :: w) -> la g input pos = a.
Proof.
  intros (pre & rest & -> & <-). unfold la. rewrite app_nth2 by lia.
  rewrite Nat.sub_diag. reflexivity.
Qed.

Lemma at_pos_split input pos u v : at_pos input pos (u ++ v) ->
  at_pos input pos u /\ at_pos input (pos + length u) v.
Proof.
  intros (pre & rest & -> & <-). split.
  - exists pre, (v ++ rest). rewrite <- app_assoc. auto.
  - exists (pre ++ u), rest. rewrite app_length. split; auto. rewrite <- !app_assoc. reflexivity.
Qed.

Lemma at_pos_end g input pos : at_pos input pos [] -> forall a,
  match skipn pos input with [] => a = eof g | b :: _ => a = b end -> a = la g input pos.
Proof.
  intros (pre & rest & -> & <-) a. simpl. rewrite skipn_app, Nat.sub_diag, skipn_all. simpl.
  unfold la. rewrite app_nth2 by lia. rewrite Nat.sub_diag. destruct rest; simpl; auto.
Qed.

(* the lexeme indices of the leaves *)
Definition idxs (t : tree) : list nat := map snd (leaves t).

Lemma idxs_flat_map ts : map snd (flat_map leaves ts) = flat_map idxs ts.
Proof.
  induction ts as [|t ts IH]; simpl; [reflexivity|]. rewrite map_app, IH. reflexivity.
Qed.

Lemma idxs_node p kids : idxs (Node p kids) = flat_map idxs kids.
Proof. unfold idxs at 1. simpl. apply idxs_flat_map. Qed.

Lemma length_idxs_yield t : length (idxs t) = length (yield t).
Proof. unfold idxs, yield. rewrite !map_length. reflexivity. Qed.

Lemma leaves_in_order_yield t input : leaves_in_order t input -> yield t = input.
Proof. unfold leaves_in_order, yield. intros H. rewrite H. apply map_fst_combine_seq. Qed.

Lemma leaves_in_order_idxs t input : leaves_in_order t input -> idxs t = seq 0 (length (yield t)).
Proof.
  intros H. pose proof (leaves_in_order_yield t input H) as Hy. rewrite Hy.
  unfold leaves_in_order in H. unfold idxs. rewrite H. apply map_snd_combine_seq.
Qed.

(* ---- the main lemma --------------------------------------------------------------- *)

Section Main.
Variable g : grammar.
Variable A : automaton.
Variable nl : list N.
Variable fs : list pairN.
Hypothesis Hwf : wf_grammar g = true.
Hypothesis HS1 : vS1 g A = true.
Hypothesis Hfr : first_ref g = Some (nl, fs).
Hypothesis HC2 : vC2 g nl fs A = true.
Hypothesis HC3 : vC3 g A = true.
Hypothesis HC4 : vC4 g A = true.

(* state s has an item with X after the dot whose continuation allows a *)
Definition expects (s : N) (X : sym) (a : N) : Prop :=
  exists p d L, In (p, d, L) (closed A s) /\ nth_error (rhs g p) d = Some X /\
                In a (firstseq_la nl fs (skipn (S d) (rhs g p)) L).

(* from any configuration whose top state expects the root of t followed by
   the token after t's yield, the interpreter consumes that yield and pushes
   exactly t *)
Definition goal_for (t : tree) : Prop :=
  forall input stk pos, (top A stk < nstates A)%N ->
    at_pos input pos (yield t) ->
    idxs t = seq pos (length (yield t)) ->
    expects (top A stk) (root g t) (la g input (pos + length (yield t))) ->
    exists s', edge A (top A stk) (root g t) = Some s' /\ (s' < nstates A)%N /\
      steps g A input (stk, pos) ((s', t) :: stk, (pos + length (yield t))%nat).

Lemma edge_target_in_range s p d X s' : (s < nstates A)%N ->
  nth_error (rhs g p) d = Some X -> edge A s X = Some s' -> (s' < nstates A)%N.
Proof.
  intros Hs Hnth He. pose proof (nth_error_rhs_is_prod g p d X Hnth) as Hp.
  apply nth_error_In in Hnth.
  exact (proj1 (vS1_spec g A HS1 s X s' Hs (wf_rhs_range g p X Hwf Hp Hnth) He)).
Qed.

(* processing the forest of kids of production q from dot i on *)
Lemma forest_lemma q : forall kids, Forall (valid_tree g) kids -> Forall goal_for kids ->
  forall input stk pos i L, (top A stk < nstates A)%N ->
    at_pos input pos (flat_map yield kids) ->
    flat_map idxs kids = seq pos (length (flat_map yield kids)) ->
    In (q, i, L) (closed A (top A stk)) ->
    skipn i (rhs g q) = map (root g) kids ->
    (i <= length (rhs g q))%nat ->
    In (la g input (pos + length (flat_map yield kids))) L ->
    exists sts L', length sts = length kids /\
      steps g A input (stk, pos)
            (rev (combine sts kids) ++ stk, (pos + length (flat_map yield kids))%nat) /\
      (top A (rev (combine sts kids) ++ stk) < nstates A)%N /\
      In (q, length (rhs g q), L') (closed A (top A (rev (combine sts kids) ++ stk))) /\
      incl L L'.
Proof.
  intros kids Hv Hg. induction kids as [|k ks IH]; intros input stk pos i L Htop Hat Hnum Hin Hsk Hi Hla.
  - simpl in *. exists [], L. rewrite Nat.add_0_r. simpl.
    split; [reflexivity|]. split; [apply st_refl|]. split; [exact Htop|]. split; [|apply incl_refl].
    apply skipn_nil_len in Hsk. assert (E : i = length (rhs g q)) by lia. subst i. exact Hin.
  - inversion Hv as [|? ? Hvk Hvks]; subst. inversion Hg as [|? ? Hgk Hgks]; subst.
    cbn [flat_map map] in *.
    apply at_pos_split in Hat. destruct Hat as (Hat1 & Hat2).
    apply skipn_cons_nth in Hsk. destruct Hsk as (Hnth & Hsk').
    rewrite app_length, seq_app in Hnum.
    apply app_inv_length in Hnum; [|rewrite seq_length; apply length_idxs_yield].
    destruct Hnum as (Hnum1 & Hnum2).
    rewrite app_length, Nat.add_assoc in Hla.
    assert (Hexp : expects (top A stk) (root g k) (la g input (pos + length (yield k)))).
    { exists q, i, L. split; [exact Hin|]. split; [exact Hnth|].
      rewrite Hsk'. apply (firstseq_la_covers g nl fs Hfr ks L _ Hvks).
      destruct (flat_map yield ks) as [|b u] eqn:Hy.
      - simpl in Hla. rewrite Nat.add_0_r in Hla. exact Hla.
      - apply (la_at g input _ b u). exact Hat2. }
    destruct (Hgk input stk pos Htop Hat1 Hnum1 Hexp) as (s' & He & Hs' & Hst).
    destruct (vC3_spec g A HC3 _ _ _ _ _ Htop Hin Hnth) as (s'' & He' & (L' & Hin' & Hincl) & _).
    rewrite He in He'. injection He' as He'. subst s''.
    assert (Hi' : (S i <= length (rhs g q))%nat).
    { apply nth_error_Some. rewrite Hnth. discriminate. }
    destruct (IH Hvks Hgks input ((s', k) :: stk) (pos + length (yield k))%nat (S i) L'
                 Hs' Hat2 Hnum2 Hin' Hsk' Hi' (Hincl _ Hla))
      as (sts & L'' & Hlen & Hst' & Htop' & Hfin & Hincl').
    exists (s' :: sts), L''. cbn [combine rev length].
    rewrite app_length, Nat.add_assoc. rewrite <- app_assoc. cbn [app].
    split; [lia|]. split; [eapply steps_trans; [exact Hst | exact Hst']|].
    split; [exact Htop'|]. split; [exact Hfin|].
    intros x Hx. apply Hincl', Hincl, Hx.
Qed.

Theorem main_lemma : forall t, valid_tree g t -> goal_for t.
Proof.
  intros t Hvt. induction Hvt as [a i | q kids Hq Hv Hg Hm] using valid_tree_ind'.
  - (* leaf: shift *)
    intros input stk pos Htop Hat Hnum (p & d & L & Hin & Hnth & _).
    change (yield (Leaf a i)) with [a] in *. change (idxs (Leaf a i)) with [i] in *.
    change (root g (Leaf a i)) with (T a) in *. simpl in Hnum. injection Hnum as Hnum. subst i.
    destruct (vC3_spec g A HC3 _ _ _ _ _ Htop Hin Hnth) as (s' & He & _ & Hact).
    exists s'. split; [exact He|]. split; [exact (edge_target_in_range _ _ _ _ _ Htop Hnth He)|].
    apply steps_one. unfold step. rewrite (la_at g input pos a [] Hat). rewrite Hact.
    simpl. rewrite Nat.add_1_r. reflexivity.
  - (* node: closure, the kids, reduce, goto *)
    intros input stk pos Htop Hat Hnum (p & d & L & Hin & Hnth & Hfs).
    rewrite yield_node in *. rewrite idxs_node in Hnum.
    change (root g (Node q kids)) with (R (lhs g q)) in *.
    assert (Hns : q <> start_prod g).
    { intros E. subst q. pose proof (nth_error_rhs_is_prod g p d _ Hnth) as Hp.
      apply nth_error_In in Hnth. destruct (wf_rhs_not_start_eof g p _ Hwf Hp Hnth) as [H _].
      apply H. reflexivity. }
    destruct (vC2_spec g nl fs A HC2 _ _ _ _ _ q Htop Hin Hnth Hq eq_refl) as (L0 & Hin0 & HL0).
    destruct (vC3_spec g A HC3 _ _ _ _ _ Htop Hin Hnth) as (s' & He & _ & Hgoto).
    assert (Hla : In (la g input (pos + length (flat_map yield kids))) L0) by (apply HL0; exact Hfs).
    destruct (forest_lemma q kids Hv Hg input stk pos 0%nat L0 Htop Hat Hnum Hin0 (eq_sym Hm)
                (Nat.le_0_l _) Hla) as (sts & L' & Hlen & Hst & Htop' & Hfin & Hincl).
    exists s'. split; [exact He|]. split; [exact (edge_target_in_range _ _ _ _ _ Htop Hnth He)|].
    eapply steps_trans; [exact Hst|]. apply steps_one. unfold step.
    rewrite (vC4_spec_reduce g A HC4 _ _ _ _ Htop' Hfin Hns (Hincl _ Hla)).
    assert (Hk : length (rhs g q) = length kids) by (rewrite <- Hm, map_length; reflexivity).
    rewrite Hk.
    destruct (combine_firstn_rev sts kids stk Hlen) as (Hrev & Hskip).
    rewrite Hrev, Hskip.
    assert (Hlt : (length (rev (combine sts kids) ++ stk) <? length kids)%nat = false).
    { apply Nat.ltb_ge. rewrite app_length, rev_length, combine_length. lia. }
    rewrite Hlt, Hgoto. reflexivity.
Qed.

End Main.

(* ---- top level ---------------------------------------------------------------------- *)

(* the configuration reached on the yield of a start-rule tree, and the accept *)
Lemma lr_complete : lr_complete_stmt.
Proof.
  intros g A Hwf HS HC t s Hus Hroot Hvt Hord _.
  destruct (validS_parts g A HS) as (_ & HS1 & _ & _ & _ & HS5).
  pose proof (validS_S5_start g A HS) as Hstart.
  destruct (validC_parts g A HC) as (nl & fs & Hfr & HC1 & HC2 & HC3 & HC4).
  destruct (vC1_spec g A HC1) as (L & Hin & Heof).
  pose proof (user_start_rhs g s Hus) as Hrhs.
  assert (Hnth : nth_error (rhs g (start_prod g)) 0 = Some (R s)) by (rewrite Hrhs; reflexivity).
  pose proof (main_lemma g A nl fs Hwf HS1 Hfr HC2 HC3 HC4 t Hvt) as Hmain.
  assert (Hla : la g (yield t) (0 + length (yield t)) = eof g).
  { unfold la. apply nth_overflow. simpl. lia. }
  destruct (Hmain (yield t) [] 0%nat) as (s' & He & Hs' & Hst).
  - exact Hstart.
  - exists [], []. split; [rewrite app_nil_r; reflexivity | reflexivity].
  - exact (leaves_in_order_idxs t _ Hord).
  - exists (start_prod g), 0%nat, L. split; [exact Hin|]. split; [rewrite Hroot; exact Hnth|].
    rewrite Hla, Hrhs. simpl. unfold firstseq_la. simpl. exact Heof.
  - simpl top in *.
    destruct (vC3_spec g A HC3 _ _ _ _ _ Hstart Hin Hnth) as (s'' & He' & (L' & Hin' & Hincl) & _).
    rewrite Hroot in He. rewrite He in He'. injection He' as He'. subst s''.
    assert (Hlen : length (rhs g (start_prod g)) = 1%nat) by (rewrite Hrhs; reflexivity).
    rewrite <- Hlen in Hin'.
    pose proof (vC4_spec_accept g A HC4 s' L' Hs' Hin' (Hincl _ Heof)) as Hacc.
    apply (steps_final_run_from g A (yield t) _ _ _ Hst).
    unfold step. simpl top. rewrite Hla, Hacc.
    destruct t as [a i | p kids]; [discriminate Hroot|]. reflexivity.
Qed.

Lemma lr_accepts_sentences : lr_accepts_sentences_stmt.
Proof.
  intros g A Hwf HS HC w (s & Hus & Hd) Hne.
  destruct (derives_tree_in_order g s w Hd) as (t & Hvt & Hroot & Hord).
  pose proof (leaves_in_order_yield t w Hord) as Hy.
  destruct (lr_complete g A Hwf HS HC t s Hus Hroot Hvt) as (fuel & Hrun).
  - rewrite Hy. exact Hord.
  - rewrite Hy. exact Hne.
  - exists fuel, t. rewrite <- Hy. exact Hrun.
Qed.

(* the tree of an accepted input derives it: non-sentences are not accepted *)
Lemma lr_rejects_nonsentences_from_sound : lr_sound_stmt -> lr_rejects_nonsentences_stmt.
Proof.
  intros Hsound g A Hwf HS input Hrange Hne Hns fuel t Hrun.
  destruct (Hsound g A Hwf HS input fuel t Hrange Hne Hrun) as (s & Hus & Hroot & Hvt & Hord).
  apply Hns. exists s. split; [exact Hus|].
  rewrite <- (leaves_in_order_yield t input Hord), <- Hroot. apply tree_derives. exact Hvt.
Qed.

Lemma lr_rejects_nonsentences : lr_rejects_nonsentences_stmt.
Proof. exact (lr_rejects_nonsentences_from_sound lr_sound). Qed.

(* a rejected run and an accepted run cannot agree up to the error position *)
Lemma reject_not_prefix_of_accepted g A input fuel k st w fuel' t :
  run g A fuel input = RReject k st ->
  firstn (S k) (w ++ [eof g]) = firstn (S k) (input ++ [eof g]) ->
  run g A fuel' w = RAccept t -> False.
Proof.
  intros Hrej Hpre Hacc.
  assert (Hag : la_agree g input w (S k)).
  { apply firstn_padded_la_agree. symmetry. exact Hpre. }
  destruct (reject_local g A input w fuel k st Hrej Hag) as (f2 & Hrej').
  unfold run in *.
  pose proof (run_from_det g A w fuel' f2 _ _ _ Hacc Hrej') as E.
  assert (E' : RAccept t = RReject k st) by (apply E; unfold finished; discriminate). discriminate E'.
Qed.

Lemma first_error_not_viable : first_error_not_viable_stmt.
Proof.
  intros g A Hwf HS HC input fuel k st _ _ Hrun (w & Hsent & Hne & Hpre).
  destruct (lr_accepts_sentences g A Hwf HS HC w Hsent Hne) as (fuel' & t & Hacc).
  exact (reject_not_prefix_of_accepted g A input fuel k st w fuel' t Hrun Hpre Hacc).
Qed.
