(* C02: two validated automata for one grammar give the same verdict on every
   input: the same tree, or an error at the same lexeme.

   Accept: the tree of A is a valid tree of the input (soundness), so B accepts
   the input with that very tree (completeness), and runs are deterministic.
   Reject: if A stopped strictly before B, the lexemes up to and including A's
   error lexeme are a prefix of what B shifted, hence of a sentence
   ([shifted_prefix_viable] for B), which [first_error_not_viable] for A forbids. *)
From Coq Require Import List Arith NArith Bool Lia.
From GV Require Import Base.Grammar Base.GrammarFacts LR.Automaton LR.Validator LR.Spec
  LR.Sound LR.Complete LR.Prefix.
Import ListNotations.

(* ---- helpers ------------------------------------------------------------------ *)

Lemma run_det g A input f1 f2 r1 r2 :
  run g A f1 input = r1 -> run g A f2 input = r2 -> finished r1 -> finished r2 -> r1 = r2.
Proof.
  intros H1 H2 F1 F2.
  pose proof (run_fuel_mono g A input f1 (Nat.max f1 f2) r1 H1 F1 (Nat.le_max_l _ _)) as E1.
  pose proof (run_fuel_mono g A input f2 (Nat.max f1 f2) r2 H2 F2 (Nat.le_max_r _ _)) as E2.
  congruence.
Qed.

Lemma agree_map_fst_combine_seq (w : list N) : forall n,
  map fst (combine w (seq n (length w))) = w.
Proof.
  induction w as [|a w IH]; intros n; simpl; [reflexivity|]. f_equal. apply IH.
Qed.

Lemma agree_leaves_in_order_yield t input : leaves_in_order t input -> yield t = input.
Proof.
  unfold leaves_in_order, yield. intros H. rewrite H. apply agree_map_fst_combine_seq.
Qed.

(* the end-of-input token occurs in no sentence *)
Lemma wf_rhs_no_eof g p : wf_grammar g = true -> is_prod g p -> ~ In (T (eof g)) (rhs g p).
Proof.
  unfold wf_grammar. intros Hwf Hp Hin.
  apply andb_true_iff in Hwf. destruct Hwf as [_ H6].
  pose proof (proj1 (forallb_forall _ _) H6 _ (prod_in_prods g p Hp)) as H1.
  simpl in H1. pose proof (proj1 (forallb_forall _ _) H1 _ Hin) as H2. simpl in H2.
  rewrite N.eqb_refl in H2. discriminate H2.
Qed.

Lemma derives_no_eof g a b : wf_grammar g = true -> derives g a b ->
  ~ In (T (eof g)) a -> ~ In (T (eof g)) b.
Proof.
  intros Hwf H Ha. induction H as [a | a b p c Hp Hd IH].
  - exact Ha.
  - specialize (IH Ha). intros Hin. apply in_app_or in Hin. destruct Hin as [Hin|Hin].
    + apply IH. apply in_or_app. left. exact Hin.
    + apply in_app_or in Hin. destruct Hin as [Hin|Hin].
      * exact (wf_rhs_no_eof g p Hwf Hp Hin).
      * apply IH. apply in_or_app. right. right. exact Hin.
Qed.

Lemma sentence_no_eof g w : wf_grammar g = true -> sentence g w -> no_eof g w.
Proof.
  intros Hwf (s & _ & Hd) Hin.
  apply (derives_no_eof g _ _ Hwf Hd).
  - intros [H|[]]. discriminate H.
  - unfold tokens_of. apply in_map. exact Hin.
Qed.

Lemma firstn_app_le {X} (l1 l2 : list X) n : n <= length l1 -> firstn n (l1 ++ l2) = firstn n l1.
Proof.
  intros H. rewrite firstn_app. replace (n - length l1) with 0 by lia.
  simpl. apply app_nil_r.
Qed.

(* ---- the two halves ------------------------------------------------------------- *)

Lemma accept_transfers g A B : wf_grammar g = true ->
  validS g A = true -> validS g B = true -> validC g B = true ->
  forall input f t, tokens_in_range g input -> no_eof g input ->
    run g A f input = RAccept t -> exists f', run g B f' input = RAccept t.
Proof.
  intros Hwf HSA HSB HCB input f t Hin Hne Hrun.
  destruct (lr_sound g A Hwf HSA input f t Hin Hne Hrun) as (s & Hus & Hroot & Hvt & Hord).
  pose proof (agree_leaves_in_order_yield t input Hord) as Hy.
  destruct (lr_complete g B Hwf HSB HCB t s Hus Hroot Hvt) as (f' & Hrun').
  - rewrite Hy. exact Hord.
  - rewrite Hy. exact Hne.
  - exists f'. rewrite <- Hy. exact Hrun'.
Qed.

Lemma reject_le g A B : wf_grammar g = true -> productive g ->
  validS g A = true -> validC g A = true ->
  validS g B = true -> validE g B = true ->
  forall input f1 f2 k1 s1 k2 s2, tokens_in_range g input -> no_eof g input ->
    run g A f1 input = RReject k1 s1 -> run g B f2 input = RReject k2 s2 -> k2 <= k1.
Proof.
  intros Hwf Hprod HSA HCA HSB HEB input f1 f2 k1 s1 k2 s2 Hin Hne H1 H2.
  destruct (le_lt_dec k2 k1) as [Hle|Hlt]; [exact Hle|]. exfalso.
  destruct (shifted_prefix_viable g B Hwf HSB HEB Hprod input f2 k2 s2 Hin Hne H2)
    as [Hk2 (v & Hsent)].
  apply (first_error_not_viable g A Hwf HSA HCA input f1 k1 s1 Hin Hne H1).
  exists (firstn k2 input ++ v). split; [exact Hsent|].
  split; [apply sentence_no_eof; assumption|].
  rewrite <- app_assoc.
  rewrite firstn_app_le by (rewrite firstn_length; lia).
  rewrite firstn_firstn. replace (Nat.min (S k1) k2) with (S k1) by lia.
  rewrite firstn_app_le by lia. reflexivity.
Qed.

(* ---- C02 -------------------------------------------------------------------------- *)

Lemma validated_automata_agree : validated_automata_agree_stmt.
Proof.
  intros g A B Hwf Hprod HSA HCA HEA HSB HCB HEB input f1 f2 Hin Hne Hf1 Hf2.
  pose proof (lr_never_panics g A Hwf HSA input f1 Hin Hne) as Hp1.
  pose proof (lr_never_panics g B Hwf HSB input f2 Hin Hne) as Hp2.
  destruct (run g A f1 input) as [t1|k1 s1| |] eqn:H1;
    try (exfalso; apply Hp1; reflexivity); try (exfalso; apply Hf1; reflexivity);
  destruct (run g B f2 input) as [t2|k2 s2| |] eqn:H2;
    try (exfalso; apply Hp2; reflexivity); try (exfalso; apply Hf2; reflexivity); simpl.
  - (* accept / accept *)
    destruct (accept_transfers g A B Hwf HSA HSB HCB input f1 t1 Hin Hne H1) as (f' & H').
    assert (E : RAccept t1 = RAccept t2)
      by (apply (run_det g B input f' f2 _ _ H' H2); unfold finished; discriminate).
    injection E as E. exact E.
  - (* accept / reject *)
    destruct (accept_transfers g A B Hwf HSA HSB HCB input f1 t1 Hin Hne H1) as (f' & H').
    assert (E : RAccept t1 = RReject k2 s2)
      by (apply (run_det g B input f' f2 _ _ H' H2); unfold finished; discriminate).
    discriminate E.
  - (* reject / accept *)
    destruct (accept_transfers g B A Hwf HSB HSA HCA input f2 t2 Hin Hne H2) as (f' & H').
    assert (E : RAccept t2 = RReject k1 s1)
      by (apply (run_det g A input f' f1 _ _ H' H1); unfold finished; discriminate).
    discriminate E.
  - (* reject / reject *)
    pose proof (reject_le g A B Hwf Hprod HSA HCA HSB HEB input f1 f2 k1 s1 k2 s2 Hin Hne H1 H2).
    pose proof (reject_le g B A Hwf Hprod HSB HCB HSA HEA input f2 f1 k2 s2 k1 s1 Hin Hne H2 H1).
    lia.
Qed.
