(* Soundness of the LR interpreter over a validated automaton ([validS]):
   reflection of the validator clauses to Prop, the stack invariant ([chain],
   [inv]) and its preservation by [step], the item lemma, determinism / fuel
   helpers, and the theorems [lr_sound], [lr_never_panics], [run_fuel_mono]. *)
From Coq Require Import List Arith NArith Bool Lia.
From GV Require Import Base.Grammar Base.Analyses LR.Automaton LR.Validator LR.Spec.
Import ListNotations.

(* ---- small list facts --------------------------------------------------- *)

Lemma firstn_S_nth_error {X} (l : list X) : forall d x,
  nth_error l d = Some x -> firstn (S d) l = firstn d l ++ [x].
Proof.
  induction l as [|y l IH]; intros [|d] x Hn; cbn in Hn; try discriminate.
  - injection Hn as Hn. subst y. reflexivity.
  - cbn [firstn app]. f_equal. apply IH. exact Hn.
Qed.

Lemma combine_app_same {X Y} (l1 l2 : list X) (m1 m2 : list Y) :
  length l1 = length m1 ->
  combine (l1 ++ l2) (m1 ++ m2) = combine l1 m1 ++ combine l2 m2.
Proof.
  revert m1. induction l1 as [|x l1 IH]; intros [|y m1] Hlen; cbn in Hlen; try discriminate.
  - reflexivity.
  - cbn [app combine]. f_equal. apply IH. lia.
Qed.

Lemma combine_firstn_S (input : list N) (pos : nat) (d : N) :
  (pos < length input)%nat ->
  combine (firstn (S pos) input) (seq 0 (S pos)) =
  combine (firstn pos input) (seq 0 pos) ++ [(nth pos input d, pos)].
Proof.
  intros Hlt.
  assert (Hn : nth_error input pos = Some (nth pos input d)).
  { destruct (nth_error input pos) as [x|] eqn:E.
    - f_equal. symmetry. apply nth_error_nth. exact E.
    - apply nth_error_None in E. lia. }
  rewrite (firstn_S_nth_error _ _ _ Hn), seq_S.
  rewrite combine_app_same.
  - reflexivity.
  - rewrite seq_length. apply firstn_length_le. lia.
Qed.

Lemma leaves_Node p k : leaves (Node p k) = flat_map leaves k.
Proof. reflexivity. Qed.

(* ---- enumerations -------------------------------------------------------- *)

Lemma In_N_seq (n x : N) : In x (map N.of_nat (seq 0 (N.to_nat n))) <-> (x < n)%N.
Proof.
  rewrite in_map_iff. split.
  - intros (k & Hk & Hin). apply in_seq in Hin. lia.
  - intros Hlt. exists (N.to_nat x). split; [apply N2Nat.id|]. apply in_seq. lia.
Qed.

Lemma In_states A s : In s (states A) <-> (s < nstates A)%N.
Proof. apply In_N_seq. Qed.
Lemma In_tidxs g a : In a (tidxs g) <-> (a < ntoks g)%N.
Proof. apply In_N_seq. Qed.
Lemma In_ridxs g r : In r (ridxs g) <-> (r < nrules g)%N.
Proof. apply In_N_seq. Qed.

Lemma In_all_syms_T g a : In (T a) (all_syms g) <-> (a < ntoks g)%N.
Proof.
  unfold all_syms. rewrite in_app_iff, !in_map_iff. split.
  - intros [(x & Hx & Hin) | (x & Hx & _)]; [|discriminate].
    injection Hx as Hx. subst x. apply In_tidxs. exact Hin.
  - intros Hlt. left. exists a. split; [reflexivity|]. apply In_tidxs. exact Hlt.
Qed.

Lemma In_all_syms_R g r : In (R r) (all_syms g) <-> (r < nrules g)%N.
Proof.
  unfold all_syms. rewrite in_app_iff, !in_map_iff. split.
  - intros [(x & Hx & _) | (x & Hx & Hin)]; [discriminate|].
    injection Hx as Hx. subst x. apply In_ridxs. exact Hin.
  - intros Hlt. right. exists r. split; [reflexivity|]. apply In_ridxs. exact Hlt.
Qed.

Lemma sym_in_range_all_syms g X : sym_in_range g X = true <-> In X (all_syms g).
Proof.
  destruct X as [a|r]; cbn [sym_in_range].
  - rewrite N.ltb_lt. symmetry. apply In_all_syms_T.
  - rewrite N.ltb_lt. symmetry. apply In_all_syms_R.
Qed.

Lemma sym_eqb_eq a b : sym_eqb a b = true <-> a = b.
Proof.
  destruct a as [x|x], b as [y|y]; cbn [sym_eqb]; rewrite ?N.eqb_eq;
    split; intros H; try discriminate; try congruence.
Qed.

Lemma has_item_In p d l : has_item p d l = true -> exists la', In (p, d, la') l.
Proof.
  unfold has_item, find_item. intros H.
  destruct (find (fun i : item => (it_p i =? p)%N && Nat.eqb (it_d i) d) l) as [i|] eqn:E;
    [|discriminate].
  apply find_some in E. destruct E as (Hin & Hc).
  destruct i as [[p' d'] la']. cbn [it_p it_d fst snd] in Hc.
  apply andb_true_iff in Hc. destruct Hc as (Hp & Hd).
  apply N.eqb_eq in Hp. apply Nat.eqb_eq in Hd. subst p' d'.
  exists la'. exact Hin.
Qed.

(* ---- well-formed grammars ------------------------------------------------ *)

Lemma wf_grammar_parts g : wf_grammar g = true ->
  is_prodb g (start_prod g) = true /\
  (eof g <? ntoks g)%N = true /\
  (exists s, user_start g = Some s) /\
  forallb (fun pr => (fst pr <? nrules g)%N && forallb (sym_in_range g) (snd pr)) (prods g) = true.
Proof.
  unfold wf_grammar. rewrite !andb_true_iff.
  intros (((((H1 & H2) & H3) & H4) & _) & _).
  repeat split; try assumption.
  destruct (user_start g) as [s|]; [exists s; reflexivity|discriminate].
Qed.

Lemma wf_eof_in_range g : wf_grammar g = true -> (eof g < ntoks g)%N.
Proof. intros H. apply wf_grammar_parts in H. apply N.ltb_lt. tauto. Qed.

Lemma wf_start_is_prod g : wf_grammar g = true -> is_prod g (start_prod g).
Proof.
  intros H. apply wf_grammar_parts in H. destruct H as (H & _).
  unfold is_prodb in H. apply Nat.ltb_lt in H. exact H.
Qed.

Lemma wf_user_start g : wf_grammar g = true -> exists s, user_start g = Some s.
Proof. intros H. apply wf_grammar_parts in H. tauto. Qed.

Lemma user_start_rhs g s : user_start g = Some s -> rhs g (start_prod g) = [R s].
Proof.
  unfold user_start. intros H.
  destruct (rhs g (start_prod g)) as [|[a|r] [|y l]]; try discriminate.
  injection H as H. subst r. reflexivity.
Qed.

Lemma is_prod_prod g p : is_prod g p -> exists l r, prod g p = Some (l, r) /\ In (l, r) (prods g).
Proof.
  unfold is_prod, prod. intros H.
  destruct (nth_error (prods g) (N.to_nat p)) as [[l r]|] eqn:E.
  - exists l, r. split; [reflexivity|]. eapply nth_error_In. exact E.
  - apply nth_error_None in E. lia.
Qed.

Lemma wf_lhs_in_range g p : wf_grammar g = true -> is_prod g p -> (lhs g p < nrules g)%N.
Proof.
  intros Hwf Hp. apply wf_grammar_parts in Hwf. destruct Hwf as (_ & _ & _ & Hall).
  destruct (is_prod_prod g p Hp) as (l & r & Hpr & Hin).
  rewrite forallb_forall in Hall. specialize (Hall _ Hin). cbn [fst snd] in Hall.
  apply andb_true_iff in Hall. destruct Hall as (Hl & _).
  unfold lhs. rewrite Hpr. apply N.ltb_lt. exact Hl.
Qed.

Lemma wf_rhs_in_range g p X : wf_grammar g = true -> is_prod g p ->
  In X (rhs g p) -> In X (all_syms g).
Proof.
  intros Hwf Hp HX. apply wf_grammar_parts in Hwf. destruct Hwf as (_ & _ & _ & Hall).
  destruct (is_prod_prod g p Hp) as (l & r & Hpr & Hin).
  rewrite forallb_forall in Hall. specialize (Hall _ Hin). cbn [fst snd] in Hall.
  apply andb_true_iff in Hall. destruct Hall as (_ & Hr).
  unfold rhs in HX. rewrite Hpr in HX.
  rewrite forallb_forall in Hr. apply sym_in_range_all_syms. apply Hr. exact HX.
Qed.

(* ---- reflection of the soundness validators ----------------------------------- *)

Lemma validS_parts g A : validS g A = true ->
  vS0 A = true /\ vS1 g A = true /\ vS2 g A = true /\
  vS3 g A = true /\ vS4 g A = true /\ vS5 g A = true.
Proof. unfold validS. rewrite !andb_true_iff. tauto. Qed.

Lemma validS_S0 g A : validS g A = true ->
  forall p d la', In (p, d, la') (closed A (start A)) -> d = 0%nat.
Proof.
  intros HV p d la' Hin. apply validS_parts in HV. destruct HV as (H0 & _).
  unfold vS0 in H0. rewrite forallb_forall in H0. specialize (H0 _ Hin).
  cbn [it_d fst snd] in H0. apply Nat.eqb_eq in H0. exact H0.
Qed.

Lemma validS_S1 g A : validS g A = true ->
  forall s X s', (s < nstates A)%N -> In X (all_syms g) -> edge A s X = Some s' ->
    s' <> start A /\ (s' < nstates A)%N.
Proof.
  intros HV s X s' Hs HX He. apply validS_parts in HV. destruct HV as (_ & H1 & _).
  unfold vS1 in H1. rewrite forallb_forall in H1.
  specialize (H1 s (proj2 (In_states A s) Hs)).
  rewrite forallb_forall in H1. specialize (H1 X HX). rewrite He in H1.
  apply andb_true_iff in H1. destruct H1 as (Hne & Hlt).
  apply negb_true_iff, N.eqb_neq in Hne. apply N.ltb_lt in Hlt. split; assumption.
Qed.

Lemma validS_S2 g A : validS g A = true ->
  forall s X s' p d la', (s < nstates A)%N -> In X (all_syms g) -> edge A s X = Some s' ->
    In (p, S d, la') (closed A s') ->
    nth_error (rhs g p) d = Some X /\ exists la'', In (p, d, la'') (closed A s).
Proof.
  intros HV s X s' p d la' Hs HX He Hin. apply validS_parts in HV.
  destruct HV as (_ & _ & H2 & _).
  unfold vS2 in H2. rewrite forallb_forall in H2.
  specialize (H2 s (proj2 (In_states A s) Hs)).
  rewrite forallb_forall in H2. specialize (H2 X HX). rewrite He in H2.
  rewrite forallb_forall in H2. specialize (H2 _ Hin).
  cbn [it_d it_p fst snd] in H2.
  destruct (nth_error (rhs g p) d) as [Y|]; [|discriminate].
  apply andb_true_iff in H2. destruct H2 as (HY & Hit).
  apply sym_eqb_eq in HY. subst Y. split; [reflexivity|].
  apply has_item_In. exact Hit.
Qed.

Lemma validS_S3_cell g A : validS g A = true ->
  forall s a, (s < nstates A)%N -> (a < ntoks g)%N ->
    match action A s a with
    | Reduce p => is_prodb g p && negb (N.eqb p (start_prod g)) &&
                  has_item p (length (rhs g p)) (closed A s)
    | Accept => N.eqb a (eof g) && has_item (start_prod g) 1 (closed A s)
    | Shift _ => negb (N.eqb a (eof g))
    | Err => true
    end = true.
Proof.
  intros HV s a Hs Ha. apply validS_parts in HV. destruct HV as (_ & _ & _ & H3 & _).
  unfold vS3 in H3. rewrite forallb_forall in H3.
  specialize (H3 s (proj2 (In_states A s) Hs)).
  rewrite forallb_forall in H3. exact (H3 a (proj2 (In_tidxs g a) Ha)).
Qed.

Lemma validS_S3_reduce g A : validS g A = true ->
  forall s a p, (s < nstates A)%N -> (a < ntoks g)%N -> action A s a = Reduce p ->
    is_prod g p /\ p <> start_prod g /\
    exists la', In (p, length (rhs g p), la') (closed A s).
Proof.
  intros HV s a p Hs Ha Hact. pose proof (validS_S3_cell g A HV s a Hs Ha) as H.
  rewrite Hact in H. rewrite !andb_true_iff in H. destruct H as ((Hp & Hne) & Hit).
  unfold is_prodb in Hp. apply Nat.ltb_lt in Hp.
  apply negb_true_iff, N.eqb_neq in Hne.
  split; [exact Hp|]. split; [exact Hne|]. apply has_item_In. exact Hit.
Qed.

Lemma validS_S3_accept g A : validS g A = true ->
  forall s a, (s < nstates A)%N -> (a < ntoks g)%N -> action A s a = Accept ->
    a = eof g /\ exists la', In (start_prod g, 1%nat, la') (closed A s).
Proof.
  intros HV s a Hs Ha Hact. pose proof (validS_S3_cell g A HV s a Hs Ha) as H.
  rewrite Hact in H. rewrite andb_true_iff in H. destruct H as (He & Hit).
  apply N.eqb_eq in He. split; [exact He|]. apply has_item_In. exact Hit.
Qed.

Lemma validS_S3_shift g A : validS g A = true ->
  forall s a s', (s < nstates A)%N -> (a < ntoks g)%N -> action A s a = Shift s' ->
    a <> eof g.
Proof.
  intros HV s a s' Hs Ha Hact. pose proof (validS_S3_cell g A HV s a Hs Ha) as H.
  rewrite Hact in H. apply negb_true_iff, N.eqb_neq in H. exact H.
Qed.

Lemma optN_eqb_Some o s' : optN_eqb o (Some s') = true -> o = Some s'.
Proof.
  destruct o as [x|]; cbn [optN_eqb]; intros H; [|discriminate].
  apply N.eqb_eq in H. subst x. reflexivity.
Qed.

Lemma validS_S4_state g A : validS g A = true -> forall s, (s < nstates A)%N ->
  (forall a, (a < ntoks g)%N ->
     match action A s a with
     | Shift s' => optN_eqb (edge A s (T a)) (Some s') | _ => true end = true) /\
  (forall r, (r < nrules g)%N ->
     match goto A s r with
     | Some s' => optN_eqb (edge A s (R r)) (Some s') | None => true end = true) /\
  (forall i, In i (closed A s) ->
     negb (Nat.eqb (it_d i) 0) || N.eqb (it_p i) (start_prod g) ||
     match goto A s (lhs g (it_p i)) with Some _ => true | None => false end = true).
Proof.
  intros HV s Hs. apply validS_parts in HV. destruct HV as (_ & _ & _ & _ & H4 & _).
  unfold vS4 in H4. rewrite forallb_forall in H4.
  specialize (H4 s (proj2 (In_states A s) Hs)).
  rewrite !andb_true_iff in H4. destruct H4 as ((Ha & Hr) & Hi).
  rewrite forallb_forall in Ha, Hr, Hi.
  split; [|split].
  - intros a Hlt. apply Ha. apply In_tidxs. exact Hlt.
  - intros r Hlt. apply Hr. apply In_ridxs. exact Hlt.
  - exact Hi.
Qed.

Lemma validS_S4_shift g A : validS g A = true ->
  forall s a s', (s < nstates A)%N -> (a < ntoks g)%N -> action A s a = Shift s' ->
    edge A s (T a) = Some s'.
Proof.
  intros HV s a s' Hs Ha Hact. destruct (validS_S4_state g A HV s Hs) as (H & _ & _).
  specialize (H a Ha). rewrite Hact in H. apply optN_eqb_Some. exact H.
Qed.

Lemma validS_S4_goto g A : validS g A = true ->
  forall s r s', (s < nstates A)%N -> (r < nrules g)%N -> goto A s r = Some s' ->
    edge A s (R r) = Some s'.
Proof.
  intros HV s r s' Hs Hr Hg. destruct (validS_S4_state g A HV s Hs) as (_ & H & _).
  specialize (H r Hr). rewrite Hg in H. apply optN_eqb_Some. exact H.
Qed.

Lemma validS_S4_goto_defined g A : validS g A = true ->
  forall s p la', (s < nstates A)%N -> In (p, 0%nat, la') (closed A s) -> p <> start_prod g ->
    exists s', goto A s (lhs g p) = Some s'.
Proof.
  intros HV s p la' Hs Hin Hne. destruct (validS_S4_state g A HV s Hs) as (_ & _ & H).
  specialize (H _ Hin). cbn [it_d it_p fst snd] in H.
  rewrite !orb_true_iff in H. destruct H as [[H | H] | H].
  - discriminate.
  - apply N.eqb_eq in H. contradiction.
  - destruct (goto A s (lhs g p)) as [s'|]; [exists s'; reflexivity|discriminate].
Qed.

Lemma validS_S5_start g A : validS g A = true -> (start A < nstates A)%N.
Proof.
  intros HV. apply validS_parts in HV. destruct HV as (_ & _ & _ & _ & _ & H5).
  unfold vS5 in H5. apply andb_true_iff in H5. destruct H5 as (H & _).
  apply N.ltb_lt. exact H.
Qed.

Lemma validS_S5_items g A : validS g A = true ->
  forall s p d la', (s < nstates A)%N -> In (p, d, la') (closed A s) ->
    is_prod g p /\ (p = start_prod g -> d = 0%nat -> s = start A).
Proof.
  intros HV s p d la' Hs Hin. apply validS_parts in HV.
  destruct HV as (_ & _ & _ & _ & _ & H5).
  unfold vS5 in H5. apply andb_true_iff in H5. destruct H5 as (_ & H5).
  rewrite forallb_forall in H5. specialize (H5 s (proj2 (In_states A s) Hs)).
  rewrite forallb_forall in H5. specialize (H5 _ Hin). cbn [it_d it_p fst snd] in H5.
  apply andb_true_iff in H5. destruct H5 as (Hp & Hst).
  unfold is_prodb in Hp. apply Nat.ltb_lt in Hp. split; [exact Hp|].
  intros Hpe Hd. subst p d.
  rewrite N.eqb_refl in Hst. cbn in Hst. apply N.eqb_eq in Hst. exact Hst.
Qed.

(* ---- the lookahead ----------------------------------------------------------------- *)

Lemma la_in_range g input pos : wf_grammar g = true -> tokens_in_range g input ->
  (la g input pos < ntoks g)%N.
Proof.
  intros Hwf Hin. unfold la.
  destruct (nth_in_or_default pos input (eof g)) as [H | H].
  - unfold tokens_in_range in Hin. rewrite Forall_forall in Hin. apply Hin. exact H.
  - rewrite H. apply wf_eof_in_range. exact Hwf.
Qed.

Lemma la_past_end g input pos : (length input <= pos)%nat -> la g input pos = eof g.
Proof. intros H. unfold la. apply nth_overflow. exact H. Qed.

Lemma la_eof_past_end g input pos : no_eof g input -> la g input pos = eof g ->
  (length input <= pos)%nat.
Proof.
  intros Hno Hla. destruct (Nat.lt_ge_cases pos (length input)) as [Hlt | Hge]; [|exact Hge].
  exfalso. apply Hno. rewrite <- Hla. unfold la. apply nth_In. exact Hlt.
Qed.

(* ---- the stack invariant ------------------------------------------------------------ *)

(* consecutive states are linked by graph edges labelled with the (in-range)
   roots of the trees, every state is a state, every tree is valid *)
Fixpoint chain (g : grammar) (A : automaton) (stk : stack) : Prop :=
  match stk with
  | [] => True
  | (s, t) :: rest =>
      edge A (top A rest) (root g t) = Some s /\
      In (root g t) (all_syms g) /\
      (s < nstates A)%N /\
      valid_tree g t /\
      chain g A rest
  end.

(* the leaves of the whole stack, bottom first *)
Definition stack_leaves (stk : stack) : list (N * nat) :=
  flat_map leaves (rev (map snd stk)).

(* the invariant of a configuration: the leaves are exactly the consumed lexemes *)
Definition inv (g : grammar) (A : automaton) (input : list N) (c : stack * nat) : Prop :=
  chain g A (fst c) /\
  (snd c <= length input)%nat /\
  stack_leaves (fst c) = combine (firstn (snd c) input) (seq 0 (snd c)).

Lemma inv_init g A input : inv g A input ([], 0%nat).
Proof. unfold inv, stack_leaves. cbn. repeat split. lia. Qed.

Lemma chain_top_in_range g A : validS g A = true ->
  forall stk, chain g A stk -> (top A stk < nstates A)%N.
Proof.
  intros HV [|[s t] rest] Hc; cbn [top].
  - apply (validS_S5_start g A HV).
  - cbn [chain] in Hc. tauto.
Qed.

Lemma chain_skipn g A : forall n stk, chain g A stk -> chain g A (skipn n stk).
Proof.
  induction n as [|n IH]; intros [|[s t] rest] Hc; cbn [skipn]; try exact Hc.
  apply IH. cbn [chain] in Hc. tauto.
Qed.

Lemma chain_firstn_valid g A : forall n stk, chain g A stk ->
  Forall (valid_tree g) (map snd (firstn n stk)).
Proof.
  induction n as [|n IH]; intros [|[s t] rest] Hc; cbn [firstn map snd]; try constructor.
  - cbn [chain] in Hc. tauto.
  - apply IH. cbn [chain] in Hc. tauto.
Qed.

Lemma chain_valid g A : forall stk, chain g A stk -> Forall (valid_tree g) (map snd stk).
Proof.
  intros stk Hc. rewrite <- (firstn_all stk). apply (chain_firstn_valid g A). exact Hc.
Qed.

(* an item with the dot at d in the top state: the top d trees spell the first d
   symbols of the production, and the state below them has the item's dot-0 form *)
Lemma item_lemma g A : validS g A = true -> forall stk, chain g A stk ->
  forall d p la', In (p, d, la') (closed A (top A stk)) ->
    (d <= length stk)%nat /\
    map (root g) (rev (map snd (firstn d stk))) = firstn d (rhs g p) /\
    exists la'', In (p, 0%nat, la'') (closed A (top A (skipn d stk))).
Proof.
  intros HV stk Hc d. revert stk Hc.
  induction d as [|d IH]; intros stk Hc p la' Hin.
  - cbn [firstn skipn map rev]. split; [lia|]. split; [reflexivity|].
    exists la'. exact Hin.
  - destruct stk as [|[s t] rest].
    + cbn [top] in Hin. apply (validS_S0 g A HV) in Hin. discriminate.
    + cbn [chain] in Hc. destruct Hc as (He & HX & Hs & Hv & Hc).
      cbn [top] in Hin.
      pose proof (chain_top_in_range g A HV rest Hc) as Htop.
      destruct (validS_S2 g A HV _ _ _ _ _ _ Htop HX He Hin) as (Hn & la'' & Hin').
      destruct (IH rest Hc p la'' Hin') as (Hle & Hm & H0).
      cbn [length firstn skipn map snd rev]. split; [lia|]. split; [|exact H0].
      rewrite map_app, Hm. cbn [map].
      symmetry. apply firstn_S_nth_error. exact Hn.
Qed.

Lemma stack_leaves_shift s a pos stk :
  stack_leaves ((s, Leaf a pos) :: stk) = stack_leaves stk ++ [(a, pos)].
Proof.
  unfold stack_leaves. cbn [map snd rev]. rewrite flat_map_app. reflexivity.
Qed.

Lemma stack_leaves_reduce s p n stk :
  stack_leaves ((s, Node p (rev (map snd (firstn n stk)))) :: skipn n stk) = stack_leaves stk.
Proof.
  unfold stack_leaves. cbn [map snd rev]. rewrite flat_map_app.
  cbn [flat_map]. rewrite leaves_Node, app_nil_r.
  rewrite <- flat_map_app, <- rev_app_distr, <- map_app, firstn_skipn. reflexivity.
Qed.

(* the invariant is preserved by every step *)
Lemma step_preserves g A input : wf_grammar g = true -> validS g A = true ->
  tokens_in_range g input ->
  forall c c', inv g A input c -> step g A input c = inl c' -> inv g A input c'.
Proof.
  intros Hwf HV Hrng [stk pos] c' (Hc & Hpos & Hlv) Hstep. cbn [fst snd] in Hc, Hpos, Hlv.
  pose proof (chain_top_in_range g A HV stk Hc) as Htop.
  pose proof (la_in_range g input pos Hwf Hrng) as Hla.
  unfold step in Hstep.
  destruct (action A (top A stk) (la g input pos)) as [s'|p| |] eqn:Hact.
  - (* shift *)
    injection Hstep as Hstep. subst c'.
    pose proof (validS_S3_shift g A HV _ _ _ Htop Hla Hact) as Hne.
    pose proof (validS_S4_shift g A HV _ _ _ Htop Hla Hact) as He.
    assert (Hlt : (pos < length input)%nat).
    { destruct (Nat.lt_ge_cases pos (length input)) as [H | H]; [exact H|].
      exfalso. apply Hne. apply la_past_end. exact H. }
    assert (HX : In (T (la g input pos)) (all_syms g)) by (apply In_all_syms_T; exact Hla).
    destruct (validS_S1 g A HV _ _ _ Htop HX He) as (_ & Hs').
    unfold inv. cbn [fst snd]. split; [|split].
    + cbn [chain root]. repeat split; try assumption. constructor.
    + lia.
    + rewrite stack_leaves_shift, Hlv. unfold la. symmetry.
      apply combine_firstn_S. exact Hlt.
  - (* reduce *)
    destruct (validS_S3_reduce g A HV _ _ _ Htop Hla Hact) as (Hp & Hne & la' & Hin).
    destruct (item_lemma g A HV stk Hc _ _ _ Hin) as (Hle & Hm & la'' & H0).
    destruct (length stk <? length (rhs g p))%nat eqn:Hlt; [discriminate|].
    destruct (goto A (top A (skipn (length (rhs g p)) stk)) (lhs g p)) as [s'|] eqn:Hg;
      [|discriminate].
    injection Hstep as Hstep. subst c'.
    pose proof (chain_skipn g A (length (rhs g p)) stk Hc) as Hc'.
    pose proof (chain_top_in_range g A HV _ Hc') as Htop'.
    pose proof (wf_lhs_in_range g p Hwf Hp) as Hl.
    pose proof (validS_S4_goto g A HV _ _ _ Htop' Hl Hg) as He.
    assert (HX : In (R (lhs g p)) (all_syms g)) by (apply In_all_syms_R; exact Hl).
    destruct (validS_S1 g A HV _ _ _ Htop' HX He) as (_ & Hs').
    unfold inv. cbn [fst snd]. split; [|split].
    + cbn [chain root]. repeat split; try assumption.
      constructor.
      * exact Hp.
      * apply Forall_rev. apply (chain_firstn_valid g A). exact Hc.
      * rewrite Hm. apply firstn_all.
    + exact Hpos.
    + rewrite stack_leaves_reduce. exact Hlv.
  - (* accept *)
    destruct (rev stk) as [|[s0 [a0 i0|p0 k0]] l0]; discriminate.
  - discriminate.
Qed.

(* at an Accept cell the stack is a single tree rooted at the user's start rule *)
Lemma accept_stack g A input : wf_grammar g = true -> validS g A = true ->
  tokens_in_range g input ->
  forall stk pos, chain g A stk -> action A (top A stk) (la g input pos) = Accept ->
    la g input pos = eof g /\
    exists s p k us, stk = [(s, Node p k)] /\ user_start g = Some us /\ lhs g p = us.
Proof.
  intros Hwf HV Hrng stk pos Hc Hact.
  pose proof (chain_top_in_range g A HV stk Hc) as Htop.
  pose proof (la_in_range g input pos Hwf Hrng) as Hla.
  destruct (validS_S3_accept g A HV _ _ Htop Hla Hact) as (Heof & la' & Hin).
  split; [exact Heof|].
  destruct (item_lemma g A HV stk Hc _ _ _ Hin) as (Hle & Hm & la'' & H0).
  destruct stk as [|[s t] rest]; [cbn [length] in Hle; lia|].
  cbn [skipn] in H0. cbn [firstn map snd rev app root] in Hm.
  cbn [chain] in Hc. destruct Hc as (_ & _ & _ & Hv & Hc).
  pose proof (chain_top_in_range g A HV rest Hc) as Htop'.
  destruct (validS_S5_items g A HV _ _ _ _ Htop' H0) as (_ & Hst).
  specialize (Hst eq_refl eq_refl).
  assert (Hrest : rest = []).
  { destruct rest as [|[s2 t2] rest2]; [reflexivity|]. exfalso.
    cbn [top] in Hst. cbn [chain] in Hc. destruct Hc as (He2 & HX2 & _ & _ & Hc2).
    pose proof (chain_top_in_range g A HV rest2 Hc2) as Htop2.
    destruct (validS_S1 g A HV _ _ _ Htop2 HX2 He2) as (Hne & _).
    contradiction. }
  subst rest.
  destruct (wf_user_start g Hwf) as (us & Hus).
  rewrite (user_start_rhs g us Hus) in Hm. cbn [firstn] in Hm.
  destruct t as [a i|p k]; cbn [root] in Hm; [discriminate|].
  injection Hm as Hm.
  exists s, p, k, us. repeat split; assumption.
Qed.

(* no step from a configuration satisfying the invariant panics *)
Lemma step_no_panic g A input : wf_grammar g = true -> validS g A = true ->
  tokens_in_range g input ->
  forall c, inv g A input c -> step g A input c <> inr RPanic.
Proof.
  intros Hwf HV Hrng [stk pos] (Hc & Hpos & Hlv). cbn [fst snd] in Hc, Hpos, Hlv.
  pose proof (chain_top_in_range g A HV stk Hc) as Htop.
  pose proof (la_in_range g input pos Hwf Hrng) as Hla.
  unfold step.
  destruct (action A (top A stk) (la g input pos)) as [s'|p| |] eqn:Hact.
  - discriminate.
  - destruct (validS_S3_reduce g A HV _ _ _ Htop Hla Hact) as (Hp & Hne & la' & Hin).
    destruct (item_lemma g A HV stk Hc _ _ _ Hin) as (Hle & Hm & la'' & H0).
    destruct (length stk <? length (rhs g p))%nat eqn:Hlt;
      [apply Nat.ltb_lt in Hlt; lia|].
    pose proof (chain_skipn g A (length (rhs g p)) stk Hc) as Hc'.
    pose proof (chain_top_in_range g A HV _ Hc') as Htop'.
    destruct (validS_S4_goto_defined g A HV _ _ _ Htop' H0 Hne) as (s' & Hg).
    rewrite Hg. discriminate.
  - destruct (accept_stack g A input Hwf HV Hrng stk pos Hc Hact)
      as (_ & s & p & k & us & Hstk & _ & _).
    subst stk. cbn [rev app]. discriminate.
  - discriminate.
Qed.

(* an accepting step returns a valid tree of the whole input *)
Lemma step_accept g A input : wf_grammar g = true -> validS g A = true ->
  tokens_in_range g input -> no_eof g input ->
  forall c t, inv g A input c -> step g A input c = inr (RAccept t) ->
    exists s, user_start g = Some s /\ root g t = R s /\
              valid_tree g t /\ leaves_in_order t input.
Proof.
  intros Hwf HV Hrng Hno [stk pos] t (Hc & Hpos & Hlv) Hstep. cbn [fst snd] in Hc, Hpos, Hlv.
  unfold step in Hstep.
  destruct (action A (top A stk) (la g input pos)) as [s'|p| |] eqn:Hact.
  - discriminate.
  - destruct (length stk <? length (rhs g p))%nat; [discriminate|].
    destruct (goto A (top A (skipn (length (rhs g p)) stk)) (lhs g p)); discriminate.
  - destruct (accept_stack g A input Hwf HV Hrng stk pos Hc Hact)
      as (Heof & s & p & k & us & Hstk & Hus & Hlhs).
    subst stk. cbn [rev app] in Hstep. injection Hstep as Hstep. subst t.
    exists us. split; [exact Hus|]. split; [cbn [root]; f_equal; exact Hlhs|].
    cbn [chain] in Hc. destruct Hc as (_ & _ & _ & Hv & _). split; [exact Hv|].
    pose proof (la_eof_past_end g input pos Hno Heof) as Hge.
    assert (Hp : pos = length input) by lia. subst pos.
    unfold leaves_in_order. rewrite firstn_all in Hlv. rewrite <- Hlv.
    unfold stack_leaves. cbn [map snd rev app flat_map]. rewrite app_nil_r. reflexivity.
  - discriminate.
Qed.

(* ---- steps, run_from, fuel ------------------------------------------------------------ *)

Lemma steps_trans g A input c1 c2 c3 :
  steps g A input c1 c2 -> steps g A input c2 c3 -> steps g A input c1 c3.
Proof.
  intros H12 H23. induction H12 as [c|c c' c'' Hs _ IH]; [exact H23|].
  eapply st_step; [exact Hs|]. apply IH. exact H23.
Qed.

Lemma steps_step_r g A input c1 c2 c3 :
  steps g A input c1 c2 -> step g A input c2 = inl c3 -> steps g A input c1 c3.
Proof.
  intros H12 Hs. eapply steps_trans; [exact H12|].
  eapply st_step; [exact Hs|]. apply st_refl.
Qed.

Lemma steps_preserves g A input : wf_grammar g = true -> validS g A = true ->
  tokens_in_range g input ->
  forall c c', inv g A input c -> steps g A input c c' -> inv g A input c'.
Proof.
  intros Hwf HV Hrng c c' Hinv Hst.
  induction Hst as [c|c c' c'' Hs _ IH]; [exact Hinv|].
  apply IH. eapply step_preserves; eassumption.
Qed.

Lemma run_from_fuel_mono g A input : forall f f' c r,
  run_from g A input f c = r -> finished r -> (f <= f')%nat ->
  run_from g A input f' c = r.
Proof.
  induction f as [|f IH]; intros f' c r Hrun Hfin Hle.
  - cbn [run_from] in Hrun. exfalso. apply Hfin. symmetry. exact Hrun.
  - destruct f' as [|f']; [lia|].
    cbn [run_from] in Hrun |- *.
    destruct (step g A input c) as [c'|r']; [|exact Hrun].
    apply IH; [exact Hrun|exact Hfin|lia].
Qed.

(* running after some steps is running from the start with more fuel *)
Lemma steps_run_from_plus g A input c c' :
  steps g A input c c' -> exists n, forall fuel,
    run_from g A input (n + fuel) c = run_from g A input fuel c'.
Proof.
  intros Hst. induction Hst as [c|c c' c'' Hs _ IH].
  - exists 0%nat. intros fuel. reflexivity.
  - destruct IH as (n & IH). exists (S n). intros fuel.
    cbn [Nat.add run_from]. rewrite Hs. apply IH.
Qed.

Lemma steps_run_from g A input c c' fuel r :
  steps g A input c c' -> run_from g A input fuel c' = r -> finished r ->
  exists fuel', run_from g A input fuel' c = r.
Proof.
  intros Hst Hrun _. destruct (steps_run_from_plus g A input c c' Hst) as (n & Hn).
  exists (n + fuel)%nat. rewrite Hn. exact Hrun.
Qed.

Lemma steps_final_run_from g A input c c' r :
  steps g A input c c' -> step g A input c' = inr r ->
  exists fuel, run_from g A input fuel c = r.
Proof.
  intros Hst Hs. destruct (steps_run_from_plus g A input c c' Hst) as (n & Hn).
  exists (n + 1)%nat. rewrite Hn. cbn [run_from]. rewrite Hs. reflexivity.
Qed.

(* a finished run is a sequence of steps ending in a final step *)
Lemma run_from_steps g A input : forall fuel c r,
  run_from g A input fuel c = r -> finished r ->
  exists c', steps g A input c c' /\ step g A input c' = inr r.
Proof.
  induction fuel as [|fuel IH]; intros c r Hrun Hfin.
  - cbn [run_from] in Hrun. exfalso. apply Hfin. symmetry. exact Hrun.
  - cbn [run_from] in Hrun. destruct (step g A input c) as [c1|r1] eqn:Hs.
    + destruct (IH c1 r Hrun Hfin) as (c' & Hst & Hlast).
      exists c'. split; [|exact Hlast]. eapply st_step; eassumption.
    + subst r1. exists c. split; [apply st_refl|exact Hs].
Qed.

(* two finished runs from the same configuration agree *)
Lemma run_from_det g A input f1 f2 c r1 r2 :
  run_from g A input f1 c = r1 -> run_from g A input f2 c = r2 ->
  finished r1 -> finished r2 -> r1 = r2.
Proof.
  intros H1 H2 Hf1 Hf2.
  pose proof (run_from_fuel_mono g A input f1 (Nat.max f1 f2) c r1 H1 Hf1 (Nat.le_max_l _ _)) as E1.
  pose proof (run_from_fuel_mono g A input f2 (Nat.max f1 f2) c r2 H2 Hf2 (Nat.le_max_r _ _)) as E2.
  congruence.
Qed.

(* invariant-level versions over [run_from] *)
Lemma run_from_no_panic g A input : wf_grammar g = true -> validS g A = true ->
  tokens_in_range g input ->
  forall fuel c, inv g A input c -> run_from g A input fuel c <> RPanic.
Proof.
  intros Hwf HV Hrng fuel c Hinv Hrun.
  assert (Hfin : finished RPanic) by (unfold finished; discriminate).
  destruct (run_from_steps g A input fuel c RPanic Hrun Hfin) as (c' & Hst & Hlast).
  pose proof (steps_preserves g A input Hwf HV Hrng c c' Hinv Hst) as Hinv'.
  exact (step_no_panic g A input Hwf HV Hrng c' Hinv' Hlast).
Qed.

Lemma run_from_sound g A input : wf_grammar g = true -> validS g A = true ->
  tokens_in_range g input -> no_eof g input ->
  forall fuel c t, inv g A input c -> run_from g A input fuel c = RAccept t ->
    exists s, user_start g = Some s /\ root g t = R s /\
              valid_tree g t /\ leaves_in_order t input.
Proof.
  intros Hwf HV Hrng Hno fuel c t Hinv Hrun.
  assert (Hfin : finished (RAccept t)) by (unfold finished; discriminate).
  destruct (run_from_steps g A input fuel c _ Hrun Hfin) as (c' & Hst & Hlast).
  pose proof (steps_preserves g A input Hwf HV Hrng c c' Hinv Hst) as Hinv'.
  exact (step_accept g A input Hwf HV Hrng Hno c' t Hinv' Hlast).
Qed.

(* ---- the theorems ------------------------------------------------------------------------ *)

Lemma lr_sound : lr_sound_stmt.
Proof.
  intros g A Hwf HV input fuel t Hrng Hno Hrun. unfold run in Hrun.
  exact (run_from_sound g A input Hwf HV Hrng Hno fuel _ t (inv_init g A input) Hrun).
Qed.

Lemma lr_never_panics : lr_never_panics_stmt.
Proof.
  intros g A Hwf HV input fuel Hrng _. unfold run.
  exact (run_from_no_panic g A input Hwf HV Hrng fuel _ (inv_init g A input)).
Qed.

Lemma run_fuel_mono : run_fuel_mono_stmt.
Proof.
  intros g A input f f' r Hrun Hfin Hle. unfold run in Hrun |- *.
  exact (run_from_fuel_mono g A input f f' _ r Hrun Hfin Hle).
Qed.
