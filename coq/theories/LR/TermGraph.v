(* The two certificate checkers of TermSpec.v are sound:
     acyclic_b g = true  ->  acyclic g
     hlr_free_b g = true ->  hlr_free g
   and what they give to the termination proof ([unit_rank], [hl_pot]). *)
From Coq Require Import List Arith NArith Bool Lia.
From GV Require Import Base.Grammar Base.GrammarFacts Base.Analyses Base.AnalysesProofs
  LR.Automaton LR.Validator LR.Spec LR.TermSpec.
Import ListNotations.

(* ---- splits ------------------------------------------------------------------- *)

Lemma In_rule_splits r al b be : r = al ++ R b :: be -> In (al, b, be) (rule_splits r).
Proof.
  intros Hr. unfold rule_splits. apply in_flat_map. exists (length al). split.
  - apply in_seq. subst r. rewrite app_length. simpl. lia.
  - assert (Hn : nth_error r (length al) = Some (R b)).
    { subst r. rewrite nth_error_app2 by lia. rewrite Nat.sub_diag. reflexivity. }
    rewrite Hn. left. subst r. f_equal; [f_equal|].
    + rewrite firstn_app, Nat.sub_diag, firstn_all. simpl. apply app_nil_r.
    + replace (S (length al)) with (length al + 1)%nat by lia.
      rewrite skipn_app. rewrite skipn_all2 by lia.
      replace (length al + 1 - length al)%nat with 1%nat by lia. reflexivity.
Qed.

Lemma In_unit_edges g nl p al b be : is_prod g p -> rhs g p = al ++ R b :: be ->
  nullable_seq nl al = true -> nullable_seq nl be = true ->
  In (lhs g p, b, 1%nat) (unit_edges g nl).
Proof.
  intros Hp Hr Ha Hb. unfold unit_edges. apply in_flat_map.
  exists (lhs g p, rhs g p). split; [apply prod_in_prods; exact Hp|].
  apply in_flat_map. exists (al, b, be). split; [apply In_rule_splits; exact Hr|].
  cbn [fst snd]. rewrite Ha, Hb. left. reflexivity.
Qed.

Lemma In_hl_edges g nl p al b be : is_prod g p -> rhs g p = al ++ R b :: be ->
  nullable_seq nl al = true ->
  In (lhs g p, b, if is_nil al then 0%nat else 1%nat) (hl_edges g nl).
Proof.
  intros Hp Hr Ha. unfold hl_edges. apply in_flat_map.
  exists (lhs g p, rhs g p). split; [apply prod_in_prods; exact Hp|].
  apply in_flat_map. exists (al, b, be). split; [apply In_rule_splits; exact Hr|].
  cbn [fst snd]. rewrite Ha. left. reflexivity.
Qed.

(* ---- the certificate check ---------------------------------------------------- *)

Lemma pot_ok_spec n E f : pot_ok n E f = true ->
  (forall x y w, In (x, y, w) E -> pot_at f y + w <= pot_at f x) /\
  (forall r, N.to_nat r < n -> pot_at f r < n).
Proof.
  unfold pot_ok. intros H. apply andb_true_iff in H. destruct H as [H1 H2].
  rewrite forallb_forall in H1, H2. split.
  - intros x y w Hin. specialize (H1 _ Hin). cbn in H1. apply Nat.leb_le. exact H1.
  - intros r Hr. specialize (H2 (N.to_nat r)).
    rewrite N2Nat.id in H2. apply Nat.ltb_lt. apply H2. apply in_seq. lia.
Qed.

(* what [acyclic_b] certifies: a rank that strictly decreases along unit steps *)
Definition unit_rank (g : grammar) (nl : list N) (rk : N -> nat) (Rk : nat) : Prop :=
  (forall p al b be, is_prod g p -> rhs g p = al ++ R b :: be ->
     nullable_seq nl al = true -> nullable_seq nl be = true -> rk b < rk (lhs g p)) /\
  (forall r, (r < nrules g)%N -> rk r < Rk).

(* what [hlr_free_b] certifies: a potential that does not increase along
   left-corner steps through nullable prefixes and strictly decreases when the
   prefix is non-empty *)
Definition hl_pot (g : grammar) (nl : list N) (rho : N -> nat) (Rk : nat) : Prop :=
  (forall p al b be, is_prod g p -> rhs g p = al ++ R b :: be ->
     nullable_seq nl al = true ->
     rho b + (if is_nil al then 0 else 1) <= rho (lhs g p)) /\
  (forall r, (r < nrules g)%N -> rho r < Rk).

(* the same, required only of the productions of rules satisfying P *)
Definition hl_pot_on (P : N -> Prop) (g : grammar) (nl : list N) (rho : N -> nat) (Rk : nat) : Prop :=
  (forall p al b be, is_prod g p -> P (lhs g p) -> rhs g p = al ++ R b :: be ->
     nullable_seq nl al = true ->
     rho b + (if is_nil al then 0 else 1) <= rho (lhs g p)) /\
  (forall r, (r < nrules g)%N -> rho r < Rk).

Lemma hl_pot_on_all g nl rho Rk : hl_pot g nl rho Rk -> hl_pot_on (fun _ => True) g nl rho Rk.
Proof.
  intros [H1 H2]. split; [|exact H2]. intros p al b be Hp _. apply H1. exact Hp.
Qed.

Lemma acyclic_b_cert g : acyclic_b g = true ->
  exists nl rk, nullable_closed g nl = true /\ unit_rank g nl rk (N.to_nat (nrules g)).
Proof.
  unfold acyclic_b. destruct (nullable_ref g) as [nl|] eqn:Hn; [|discriminate].
  intros H. apply pot_ok_spec in H. destruct H as [H1 H2].
  exists nl, (pot_at (rank_of g nl)). split; [exact (proj2 (nullable_ref_inv g nl Hn))|].
  split.
  - intros p al b be Hp Hr Ha Hb.
    pose proof (H1 _ _ _ (In_unit_edges g nl p al b be Hp Hr Ha Hb)) as H. lia.
  - intros r Hr. apply H2. lia.
Qed.

Lemma hlr_free_b_cert g : hlr_free_b g = true ->
  exists nl rho, nullable_closed g nl = true /\ hl_pot g nl rho (N.to_nat (nrules g)).
Proof.
  unfold hlr_free_b. destruct (nullable_ref g) as [nl|] eqn:Hn; [|discriminate].
  intros H. apply pot_ok_spec in H. destruct H as [H1 H2].
  exists nl, (pot_at (hpot_of g nl)). split; [exact (proj2 (nullable_ref_inv g nl Hn))|].
  split.
  - intros p al b be Hp Hr Ha.
    exact (H1 _ _ _ (In_hl_edges g nl p al b be Hp Hr Ha)).
  - intros r Hr. apply H2. lia.
Qed.

(* ---- acyclic_b is sound --------------------------------------------------------- *)

Section Acyclic.
Variable g : grammar.
Variable nl : list N.
Variable rk : N -> nat.
Variable Rk : nat.
Hypothesis Hcl : nullable_closed g nl = true.
Hypothesis Hrk : unit_rank g nl rk Rk.

(* a sentential form that still derives [R a]: one rule occurrence of rank at
   least that of a, everything around it nullable *)
Definition focus (a : N) (l : list sym) : Prop :=
  exists al b be, l = al ++ R b :: be /\ nullable_seq nl al = true /\
                  nullable_seq nl be = true /\ (b = a \/ rk a < rk b).

Lemma derives_focus a l : derives g l [R a] -> focus a l.
Proof.
  intros H. remember [R a] as tgt eqn:Ht. revert Ht.
  induction H as [l | b p c d Hp Hd IH] using derives_ind_l; intros Ht.
  - subst l. exists [], a, []. repeat split. left. reflexivity.
  - destruct (IH Ht) as (al & x & be & Heq & Hal & Hbe & Hx).
    pose proof (nullable_closed_P g nl Hcl) as HclP.
    apply app3_eq_mid in Heq. destruct Heq as [(b' & Hb & Hbe') | [(u & v & Hm & Hal' & Hbe') | (c' & Hc & Hal')]].
    + (* the occurrence is in b *)
      exists al, x, (b' ++ R (lhs g p) :: c). subst b be. split; [rewrite <- app_assoc; reflexivity|].
      split; [exact Hal|]. split; [|exact Hx].
      rewrite !nullable_seq_app in Hbe. rewrite nullable_seq_app, nullable_seq_cons.
      apply andb_true_iff in Hbe. destruct Hbe as [H1 Hbe].
      apply andb_true_iff in Hbe. destruct Hbe as [H2 H3].
      rewrite H1, H3. cbn [nullable_sym]. rewrite andb_true_r. cbn.
      apply memN_In. apply HclP; assumption.
    + (* the occurrence is in the production's right-hand side *)
      exists b, (lhs g p), c. subst al be. split; [reflexivity|].
      rewrite nullable_seq_app in Hal, Hbe.
      apply andb_true_iff in Hal. destruct Hal as [Hb Hu].
      apply andb_true_iff in Hbe. destruct Hbe as [Hv Hc].
      split; [exact Hb|]. split; [exact Hc|]. right.
      pose proof (proj1 Hrk p u x v Hp Hm Hu Hv) as Hlt.
      destruct Hx as [Hx | Hx]; [subst x; exact Hlt | lia].
    + (* the occurrence is in c *)
      exists (b ++ R (lhs g p) :: c'), x, be. subst c al. split.
      * rewrite <- app_assoc. reflexivity.
      * split; [|split; [exact Hbe | exact Hx]].
        rewrite !nullable_seq_app in Hal. rewrite nullable_seq_app, nullable_seq_cons.
        apply andb_true_iff in Hal. destruct Hal as [H1 Hal].
        apply andb_true_iff in Hal. destruct Hal as [H2 H3].
        rewrite H1, H3. cbn [nullable_sym]. rewrite andb_true_r. cbn.
        apply memN_In. apply HclP; assumption.
Qed.

Lemma ranked_acyclic : acyclic g.
Proof.
  intros r (x & p & y & Hp & Heq & Hd).
  destruct x as [|x0 x]; [|destruct x; discriminate Heq].
  cbn [app] in Heq. injection Heq as Hr Hy. subst y. cbn [app] in Hd. rewrite app_nil_r in Hd.
  destruct (derives_focus r _ Hd) as (al & b & be & Hrhs & Hal & Hbe & Hb).
  pose proof (proj1 Hrk p al b be Hp Hrhs Hal Hbe) as Hlt. rewrite <- Hr in Hlt.
  destruct Hb as [Hb | Hb]; [subst b|]; lia.
Qed.

End Acyclic.

Lemma acyclic_b_sound : acyclic_b_sound_stmt.
Proof.
  intros g H. destruct (acyclic_b_cert g H) as (nl & rk & Hcl & Hrk).
  exact (ranked_acyclic g nl rk _ Hcl Hrk).
Qed.

(* ---- hlr_free_b is sound ---------------------------------------------------------- *)

Lemma hl_pot_path g nl rho Rk : nullable_closed g nl = true -> hl_pot g nl rho Rk ->
  forall a c m, hl_path g a c m -> rho c + (if m then 1 else 0) <= rho a.
Proof.
  intros Hcl Hpot.
  assert (Hstep : forall a b m, hl_step g a b m -> rho b + (if m then 1 else 0) <= rho a).
  { intros a b m (p & al & be & Hp & Hl & Hr & Hd & Hm). subst a m.
    pose proof (nullable_back g nl (nullable_closed_P g nl Hcl) al [] Hd eq_refl) as Hn.
    pose proof (proj1 Hpot p al b be Hp Hr Hn) as H.
    destruct al; exact H. }
  intros a c m H. induction H as [a b m Hs | a b c m m' Hs Hp IH].
  - apply Hstep. exact Hs.
  - apply Hstep in Hs. destruct m, m'; cbn in *; lia.
Qed.

Lemma hlr_free_b_sound : hlr_free_b_sound_stmt.
Proof.
  intros g H r Hp. destruct (hlr_free_b_cert g H) as (nl & rho & Hcl & Hpot).
  pose proof (hl_pot_path g nl rho _ Hcl Hpot r r true Hp) as Hle. cbn in Hle. lia.
Qed.
