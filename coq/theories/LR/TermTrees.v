(* Size bounds for valid parse trees of a grammar with a unit rank
   ([TermGraph.unit_rank], what [acyclic_b] certifies):
     - a tree with empty yield has at most  E = eps_size M Rk  nodes,
     - a tree with m >= 1 leaves has at most  m * (1 + 2 * (1 + M * E) * Rk)  nodes,
   M = maximal production length, Rk = number of rules. *)
From Coq Require Import List Arith NArith Bool Lia.
From GV Require Import Base.Grammar Base.GrammarFacts Base.Analyses
  LR.Automaton LR.Validator LR.Spec LR.Sound LR.Complete LR.TermSpec LR.TermGraph.
Import ListNotations.

Definition forest_size (ts : list tree) : nat :=
  fold_right (fun k n => tree_size k + n) 0 ts.

Lemma tree_size_node p kids : tree_size (Node p kids) = S (forest_size kids).
Proof. reflexivity. Qed.

Lemma forest_size_app a b : forest_size (a ++ b) = forest_size a + forest_size b.
Proof. induction a as [|t a IH]; simpl; [reflexivity|]. rewrite IH. lia. Qed.

Lemma forest_size_rev a : forest_size (rev a) = forest_size a.
Proof.
  induction a as [|t a IH]; simpl; [reflexivity|].
  rewrite forest_size_app, IH. simpl. lia.
Qed.

Lemma forest_size_le ts c : Forall (fun t => tree_size t <= c) ts ->
  forest_size ts <= length ts * c.
Proof. intros H. induction H as [|t ts Ht _ IH]; simpl; lia. Qed.

Lemma flat_map_nil_all {X Y} (f : X -> list Y) l : flat_map f l = [] ->
  forall x, In x l -> f x = [].
Proof.
  induction l as [|y l IH]; intros H x Hx; [destruct Hx|].
  simpl in H. apply app_eq_nil in H. destruct H as [H1 H2].
  destruct Hx as [Hx|Hx]; [subst y; exact H1 | apply IH; assumption].
Qed.

Lemma leaves_nil_yield_nil ts : flat_map leaves ts = [] -> flat_map yield ts = [].
Proof. intros H. rewrite yield_flat_map, H. reflexivity. Qed.

Lemma maxrhs_spec g p : is_prod g p -> length (rhs g p) <= maxrhs g.
Proof.
  intros Hp. pose proof (prod_in_prods g p Hp) as Hin. unfold maxrhs.
  induction (prods g) as [|pr l IH]; [destruct Hin|].
  simpl. destruct Hin as [Hin|Hin].
  - subst pr. simpl. lia.
  - specialize (IH Hin). lia.
Qed.

Lemma eps_size_pos M r : 1 <= eps_size M r.
Proof. destruct r; simpl; lia. Qed.

Lemma eps_size_mono M r r' : r <= r' -> eps_size M r <= eps_size M r'.
Proof.
  intros H. induction H as [|r' H IH]; [lia|].
  etransitivity; [exact IH|]. clear.
  induction r' as [|r' IH]; simpl in *.
  - lia.
  - apply le_n_S. apply Nat.mul_le_mono_l. exact IH.
Qed.

(* the first tree of a forest that has a leaf *)
Lemma first_nonempty ts : flat_map leaves ts <> [] ->
  exists pre k post, ts = pre ++ k :: post /\ flat_map leaves pre = [] /\ leaves k <> [].
Proof.
  induction ts as [|t ts IH]; intros H; [contradiction H; reflexivity|].
  destruct (leaves t) as [|x l] eqn:Hl.
  - simpl in H. rewrite Hl in H. simpl in H.
    destruct (IH H) as (pre & k & post & Hts & Hpre & Hk).
    exists (t :: pre), k, post. subst ts. repeat split; [|exact Hk]. simpl. rewrite Hl. exact Hpre.
  - exists [], t, ts. repeat split. rewrite Hl. discriminate.
Qed.

Section Trees.
Variable g : grammar.
Variable nl : list N.
Variable rk : N -> nat.
Hypothesis Hwf : wf_grammar g = true.
Hypothesis Hcl : nullable_closed g nl = true.
Let Rk := N.to_nat (nrules g).
Let M := maxrhs g.
Hypothesis Hrk : unit_rank g nl rk Rk.

Let E := eps_size M Rk.
Let W := 1 + M * E.
Let K := 2 * W * Rk.

Lemma rk_lhs_bound p : is_prod g p -> rk (lhs g p) < Rk.
Proof. intros Hp. apply (proj2 Hrk). apply wf_lhs_range; assumption. Qed.

(* the roots around a child with all the leaves are nullable: a unit step *)
Lemma unit_step_kids p pre q kk post :
  is_prod g p -> Forall (valid_tree g) (pre ++ Node q kk :: post) ->
  map (root g) (pre ++ Node q kk :: post) = rhs g p ->
  flat_map leaves pre = [] -> flat_map leaves post = [] ->
  rk (lhs g q) < rk (lhs g p).
Proof.
  intros Hp Hv Hm Hpre Hpost. rewrite map_app in Hm. cbn [map root] in Hm.
  apply Forall_app in Hv. destruct Hv as [Hv1 Hv2]. inversion Hv2 as [|? ? _ Hv3]; subst.
  apply (proj1 Hrk p (map (root g) pre) (lhs g q) (map (root g) post) Hp (eq_sym Hm)).
  - apply (forest_nullable g nl Hcl pre Hv1). apply leaves_nil_yield_nil. exact Hpre.
  - apply (forest_nullable g nl Hcl post Hv3). apply leaves_nil_yield_nil. exact Hpost.
Qed.

(* ---- trees with empty yield ---------------------------------------------------- *)

Lemma eps_tree_size : forall t, valid_tree g t -> leaves t = [] ->
  match t with
  | Leaf _ _ => False
  | Node p _ => tree_size t <= eps_size M (rk (lhs g p))
  end.
Proof.
  intros t Hv. induction Hv as [a i | p kids Hp Hk IH Hm] using valid_tree_ind'; intros Hl.
  - discriminate Hl.
  - rewrite leaves_Node in Hl. rewrite tree_size_node.
    destruct (rk (lhs g p)) as [|r] eqn:Hr.
    + (* rank 0: no child at all *)
      destruct kids as [|k ks]; [simpl; lia|]. exfalso.
      pose proof (flat_map_nil_all leaves _ Hl k (or_introl eq_refl)) as Hk0.
      inversion IH as [|? ? IHk _]; subst. specialize (IHk Hk0).
      destruct k as [a i|q kk]; [exact IHk|].
      pose proof (unit_step_kids p [] q kk ks Hp Hk Hm eq_refl) as Hlt.
      simpl in Hl. apply app_eq_nil in Hl. specialize (Hlt (proj2 Hl)). lia.
    + assert (Hall : Forall (fun t => tree_size t <= eps_size M r) kids).
      { apply Forall_forall. intros k Hin.
        pose proof (flat_map_nil_all leaves _ Hl k Hin) as Hk0.
        rewrite Forall_forall in IH. specialize (IH k Hin Hk0).
        destruct k as [a i|q kk]; [contradiction|].
        etransitivity; [exact IH|]. apply eps_size_mono.
        destruct (in_split _ _ Hin) as (pre & post & Hsplit). subst kids.
        rewrite flat_map_app in Hl. apply app_eq_nil in Hl. destruct Hl as [Hl1 Hl2].
        simpl in Hl2. apply app_eq_nil in Hl2.
        pose proof (unit_step_kids p pre q kk post Hp Hk Hm Hl1 (proj2 Hl2)) as Hlt. lia. }
      apply forest_size_le in Hall.
      assert (Hlen : length kids <= M).
      { rewrite <- (map_length (root g)), Hm. apply maxrhs_spec. exact Hp. }
      cbn [eps_size]. apply le_n_S. etransitivity; [exact Hall|].
      apply Nat.mul_le_mono_r. exact Hlen.
Qed.

Lemma eps_tree_bound t : valid_tree g t -> leaves t = [] -> tree_size t <= E.
Proof.
  intros Hv Hl. pose proof (eps_tree_size t Hv Hl) as H.
  destruct t as [a i|p kids]; [contradiction|].
  etransitivity; [exact H|]. apply eps_size_mono.
  inversion Hv; subst. pose proof (rk_lhs_bound p ltac:(assumption)). lia.
Qed.

(* ---- trees with leaves ------------------------------------------------------------ *)

Definition crank (t : tree) : nat :=
  match t with Leaf _ _ => 0 | Node p _ => S (rk (lhs g p)) end.
Definition nleaves (t : tree) : nat := length (leaves t).

Lemma crank_bound t : valid_tree g t -> crank t <= Rk.
Proof.
  intros Hv. destruct Hv as [a i|p kids Hp _ _]; simpl; [lia|].
  pose proof (rk_lhs_bound p Hp). lia.
Qed.

Definition big_ok (t : tree) : Prop :=
  leaves t <> [] -> tree_size t + K <= nleaves t + K * nleaves t + W * crank t.

(* forests whose trees satisfy the two bounds *)
Definition both_ok (t : tree) : Prop :=
  (leaves t = [] -> tree_size t <= E) /\
  (leaves t <> [] -> tree_size t + W * Rk <= nleaves t + K * nleaves t).

Lemma forest_both ts : Forall both_ok ts ->
  let mm := length (flat_map leaves ts) in
  forest_size ts <= E * length ts + mm + K * mm /\
  (flat_map leaves ts <> [] -> forest_size ts + W * Rk <= E * length ts + mm + K * mm).
Proof.
  intros H. induction H as [|t ts [Ht0 Ht1] _ IH]; cbn zeta in *.
  - simpl. split; [lia | intros Hne; contradiction Hne; reflexivity].
  - destruct IH as [IH1 IH2]. cbn [flat_map forest_size fold_right length].
    fold (forest_size ts). rewrite app_length.
    set (mm := length (flat_map leaves ts)) in *.
    rewrite Nat.mul_succ_r, Nat.mul_add_distr_l.
    destruct (leaves t) as [|x l] eqn:Hl.
    + specialize (Ht0 eq_refl). cbn [length app]. rewrite Nat.mul_0_r. split; [lia|].
      intros Hne. specialize (IH2 Hne). lia.
    + assert (Hne : x :: l <> []) by discriminate. specialize (Ht1 Hne).
      unfold nleaves in Ht1. rewrite Hl in Ht1. split; [lia|]. intros _. lia.
Qed.

Lemma big_tree_size : forall t, valid_tree g t -> big_ok t.
Proof.
  intros t Hv. induction Hv as [a i | p kids Hp Hk IH Hm] using valid_tree_ind'; intros Hl.
  - unfold nleaves. simpl. lia.
  - rewrite leaves_Node in Hl. rewrite tree_size_node.
    assert (Hlen : length kids <= M).
    { rewrite <- (map_length (root g)), Hm. apply maxrhs_spec. exact Hp. }
    assert (Hboth : Forall both_ok kids).
    { rewrite Forall_forall in *. intros k Hin. split.
      - apply eps_tree_bound. apply Hk. exact Hin.
      - intros Hne. pose proof (IH k Hin Hne) as Hb.
        pose proof (crank_bound k (Hk k Hin)) as Hc.
        assert (W * crank k <= W * Rk) by (apply Nat.mul_le_mono_l; exact Hc).
        unfold K in *. lia. }
    destruct (first_nonempty kids Hl) as (pre & k & post & Hkids & Hpre & Hkne).
    subst kids. apply Forall_app in Hboth. destruct Hboth as [Hb1 Hb2].
    inversion Hb2 as [|? ? Hbk Hb3]; subst.
    pose proof (proj1 (forest_both pre Hb1)) as Fpre. cbn zeta in Fpre.
    rewrite Hpre in Fpre. cbn [length] in Fpre. rewrite Nat.mul_0_r in Fpre.
    destruct (forest_both post Hb3) as [Fpost Fpost']. cbn zeta in Fpost, Fpost'.
    rewrite app_length in Hlen. cbn [length] in Hlen.
    rewrite forest_size_app. cbn [forest_size fold_right]. fold (forest_size post).
    unfold nleaves. rewrite leaves_Node, flat_map_app. cbn [flat_map].
    rewrite Hpre. cbn [app]. rewrite app_length.
    set (mk := length (leaves k)) in *. set (mp := length (flat_map leaves post)) in *.
    rewrite Nat.mul_add_distr_l. cbn [crank]. rewrite Nat.mul_succ_r.
    assert (HE : E * length pre + E * length post <= M * E).
    { rewrite <- Nat.mul_add_distr_l, (Nat.mul_comm M E). apply Nat.mul_le_mono_l. lia. }
    destruct (flat_map leaves post) as [|x l] eqn:Hpost.
    + (* exactly one child carries the leaves: a unit step *)
      assert (Hck : crank k <= rk (lhs g p)).
      { destruct k as [a i|q kk]; [simpl; lia|]. simpl.
        pose proof (unit_step_kids p pre q kk post Hp Hk Hm Hpre Hpost). lia. }
      rewrite Forall_forall in IH.
      pose proof (IH k (in_elt k pre post) Hkne) as Hbk'.
      unfold nleaves in Hbk'. fold mk in Hbk'.
      assert (W * crank k <= W * rk (lhs g p)) by (apply Nat.mul_le_mono_l; exact Hck).
      subst mp. cbn [length] in *. rewrite Nat.mul_0_r in *. unfold W in *. lia.
    + assert (Hne : x :: l <> []) by discriminate. specialize (Fpost' Hne).
      pose proof (proj2 Hbk Hkne) as Hbk'. unfold nleaves in Hbk'. fold mk in Hbk'.
      unfold K, W in *. lia.
Qed.

Definition Qc : nat := 1 + K.

Lemma big_tree_bound t : valid_tree g t -> leaves t <> [] ->
  tree_size t <= nleaves t * Qc.
Proof.
  intros Hv Hl. pose proof (big_tree_size t Hv Hl) as H.
  pose proof (crank_bound t Hv) as Hc.
  assert (W * crank t <= W * Rk) by (apply Nat.mul_le_mono_l; exact Hc).
  unfold Qc. rewrite Nat.mul_add_distr_l, Nat.mul_1_r, (Nat.mul_comm (nleaves t) K).
  unfold K in *. lia.
Qed.

(* the whole forest on a stack *)
Lemma forest_bound ts : Forall (valid_tree g) ts ->
  forest_size ts <= length ts * E + length (flat_map leaves ts) * Qc.
Proof.
  intros H. induction H as [|t ts Ht _ IH]; [simpl; lia|].
  cbn [forest_size fold_right length flat_map]. fold (forest_size ts).
  rewrite app_length, Nat.mul_add_distr_r.
  destruct (leaves t) as [|x l] eqn:Hl.
  - pose proof (eps_tree_bound t Ht Hl). simpl. lia.
  - assert (Hne : leaves t <> []) by (rewrite Hl; discriminate).
    pose proof (big_tree_bound t Ht Hne) as Hb. unfold nleaves in Hb. rewrite Hl in Hb. lia.
Qed.

End Trees.
