(* Non-vacuity of the termination theorem: the calculator grammar of Examples.v
   passes both certificate checks, hence its (validated) table makes the loop
   return on every input; the fuel bound for a 5-lexeme input. *)
From Coq Require Import List Arith NArith Bool Lia.
From GV Require Import Base.Grammar Base.Analyses LR.Automaton LR.Validator LR.Spec
  LR.Examples LR.TermSpec LR.TermGraph LR.TermProofs LR.TermValidated.
From GV Require Import Base.GrammarFacts.
Import ListNotations.

Example calc_acyclic_b : acyclic_b calc_grammar = true.
Proof. vm_compute. reflexivity. Qed.

Example calc_acyclic : acyclic calc_grammar.
Proof. exact (acyclic_b_sound calc_grammar calc_acyclic_b). Qed.

Example calc_hlr_free_b : hlr_free_b calc_grammar = true.
Proof. vm_compute. reflexivity. Qed.

Example calc_hlr_free : hlr_free calc_grammar.
Proof. exact (hlr_free_b_sound calc_grammar calc_hlr_free_b). Qed.

Example calc_terminates : forall input, tokens_in_range calc_grammar input ->
  run calc_grammar calc_automaton (lr_fuel calc_grammar input) input <> ROutOfFuel.
Proof.
  intros input Hrng.
  apply lr_terminates_b; try exact Hrng.
  - exact calc_wf.
  - exact (proj1 calc_table_valid).
  - exact (proj1 (proj2 (proj2 calc_table_valid))).
  - exact calc_acyclic_b.
  - exact calc_hlr_free_b.
Qed.

(* 4 rules, productions of length <= 3, 5 lexemes *)
Example calc_fuel : N.of_nat (lr_fuel calc_grammar [4; 0; 4; 1; 4]%N) = 25456%N.
Proof. vm_compute. reflexivity. Qed.

(* the hypotheses of the validated form are satisfiable *)
Example calc_productive : productive calc_grammar.
Proof.
  assert (Hp : forall p, (p < 7)%N -> is_prod calc_grammar p).
  { intros p Hp. unfold is_prod. simpl. lia. }
  assert (H3 : derives calc_grammar [R 3%N] (tokens_of [4%N]))
    by exact (derives_prod calc_grammar 5%N (Hp 5%N eq_refl)).
  assert (H2 : derives calc_grammar [R 2%N] (tokens_of [4%N])).
  { eapply derives_trans; [exact (derives_prod calc_grammar 3%N (Hp 3%N eq_refl)) | exact H3]. }
  assert (H1 : derives calc_grammar [R 1%N] (tokens_of [4%N])).
  { eapply derives_trans; [exact (derives_prod calc_grammar 1%N (Hp 1%N eq_refl)) | exact H2]. }
  assert (H0 : derives calc_grammar [R 0%N] (tokens_of [4%N])).
  { eapply derives_trans; [exact (derives_prod calc_grammar 6%N (Hp 6%N eq_refl)) | exact H1]. }
  intros r Hr. change (nrules calc_grammar) with 4%N in Hr. exists [4%N].
  assert (Hc : r = 0%N \/ r = 1%N \/ r = 2%N \/ r = 3%N) by lia.
  destruct Hc as [-> | [-> | [-> | ->]]]; assumption.
Qed.

Example calc_terminates_validated : forall input,
  tokens_in_range calc_grammar input -> no_eof calc_grammar input ->
  run calc_grammar calc_automaton (lr_fuel calc_grammar input) input <> ROutOfFuel.
Proof.
  intros input Hrng Hno.
  destruct calc_table_valid as (HS & HC & HE & _).
  exact (proj2 (lr_terminates_validated calc_grammar calc_automaton calc_wf HS HC HE
                  calc_productive calc_acyclic input Hrng Hno)).
Qed.
