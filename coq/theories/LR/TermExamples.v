(* Non-vacuity of the termination theorem: the calculator grammar of Examples.v
   passes both certificate checks, hence its (validated) table makes the loop
   return on every input; the fuel bound for a 5-lexeme input. *)
From Coq Require Import List Arith NArith Bool Lia.
From GV Require Import Base.Grammar Base.Analyses LR.Automaton LR.Validator LR.Spec
  LR.Examples LR.TermSpec LR.TermGraph LR.TermProofs.
Import ListNotations.

Example calc_acyclic_b : acyclic_b calc_grammar = true.
Proof. vm_compute. reflexivity. Qed.

Example calc_acyclic : acyclic calc_grammar.
Proof. exact (acyclic_b_sound calc_grammar calc_acyclic_b). Qed.

Example calc_hlr_free_b : hlr_free_b calc_grammar = true.
Proof. vm_compute. reflexivity. Qed.

Example calc_hlr_free : hlr_free calc_grammar.
Proof. exact (hlr_free_b_sound calc_grammar calc_hlr_free_b). Qed.

Example calc_terminates : forall input, tokens_in_range calc_grammar input ->
  run calc_grammar calc_automaton (lr_fuel calc_grammar input) input <> ROutOfFuel.
Proof.
  intros input Hrng.
  apply lr_terminates_b; try exact Hrng.
  - exact calc_wf.
  - exact (proj1 calc_table_valid).
  - exact (proj1 (proj2 (proj2 calc_table_valid))).
  - exact calc_acyclic_b.
  - exact calc_hlr_free_b.
Qed.

(* 4 rules, productions of length <= 3, 5 lexemes *)
Example calc_fuel : lr_fuel calc_grammar [4; 0; 4; 1; 4]%N = 25456%nat.
Proof. vm_compute. reflexivity. Qed.
