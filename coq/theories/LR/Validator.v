(* Boolean validators over a dumped automaton.  Theorems (Sound.v, Complete.v,
   Prefix.v): [validS] implies every accepted input yields a valid tree of
   exactly that input and the interpreter never panics; [validS && validC]
   implies every sentence is accepted; [validS && validE] + productivity imply
   that an error is only reported after a viable prefix.
   Definitions only. *)
From Coq Require Import List Arith NArith Bool Lia.
From GV Require Import Base.Grammar Base.Analyses LR.Automaton.
Import ListNotations.

Definition find_item (p : N) (d : nat) (l : list item) : option item :=
  find (fun i => N.eqb (it_p i) p && Nat.eqb (it_d i) d) l.
Definition has_item (p : N) (d : nat) (l : list item) : bool :=
  match find_item p d l with Some _ => true | None => false end.

Definition all_syms (g : grammar) : list sym := map T (tidxs g) ++ map R (ridxs g).

Definition act_eqb (a b : act) : bool :=
  match a, b with
  | Shift x, Shift y => N.eqb x y
  | Reduce x, Reduce y => N.eqb x y
  | Accept, Accept => true
  | Err, Err => true
  | _, _ => false
  end.
Definition optN_eqb (a b : option N) : bool :=
  match a, b with
  | Some x, Some y => N.eqb x y
  | None, None => true
  | _, _ => false
  end.

(* ---- soundness conditions ------------------------------------------------ *)

(* S0: every item of the start state has its dot at 0 *)
Definition vS0 (A : automaton) : bool :=
  forallb (fun i => Nat.eqb (it_d i) 0) (closed A (start A)).

(* S1: no edge enters the start state; edges stay inside 0..nstates-1 *)
Definition vS1 (g : grammar) (A : automaton) : bool :=
  forallb (fun s => forallb (fun X =>
    match edge A s X with
    | Some s' => negb (N.eqb s' (start A)) && (s' <? nstates A)%N
    | None => true
    end) (all_syms g)) (states A).

(* S2: predecessor consistency along every edge *)
Definition vS2 (g : grammar) (A : automaton) : bool :=
  forallb (fun s => forallb (fun X =>
    match edge A s X with
    | Some s' =>
        forallb (fun i =>
          match it_d i with
          | O => true
          | S d => match nth_error (rhs g (it_p i)) d with
                   | Some Y => sym_eqb Y X && has_item (it_p i) d (closed A s)
                   | None => false
                   end
          end) (closed A s')
    | None => true
    end) (all_syms g)) (states A).

(* S3: reductions are justified by complete items; accept only at the advanced
   start item on end of input; end of input is never shifted *)
Definition vS3 (g : grammar) (A : automaton) : bool :=
  forallb (fun s => forallb (fun a =>
    match action A s a with
    | Reduce p => is_prodb g p && negb (N.eqb p (start_prod g)) &&
                  has_item p (length (rhs g p)) (closed A s)
    | Accept => N.eqb a (eof g) && has_item (start_prod g) 1 (closed A s)
    | Shift _ => negb (N.eqb a (eof g))
    | Err => true
    end) (tidxs g)) (states A).

(* S4: shift and goto cells are graph edges; goto is defined wherever a
   production of the rule may have been started *)
Definition vS4 (g : grammar) (A : automaton) : bool :=
  forallb (fun s =>
    forallb (fun a => match action A s a with
                      | Shift s' => optN_eqb (edge A s (T a)) (Some s')
                      | _ => true end) (tidxs g) &&
    forallb (fun r => match goto A s r with
                      | Some s' => optN_eqb (edge A s (R r)) (Some s')
                      | None => true end) (ridxs g) &&
    forallb (fun i => negb (Nat.eqb (it_d i) 0) || N.eqb (it_p i) (start_prod g) ||
                      match goto A s (lhs g (it_p i)) with Some _ => true | None => false end)
            (closed A s)) (states A).

(* S5: the start item lives only in the start state; items mention productions;
   the start state is a state *)
Definition vS5 (g : grammar) (A : automaton) : bool :=
  (start A <? nstates A)%N &&
  forallb (fun s =>
    forallb (fun i => is_prodb g (it_p i) &&
                      (negb (N.eqb (it_p i) (start_prod g) && Nat.eqb (it_d i) 0) || N.eqb s (start A)))
            (closed A s)) (states A).

Definition validS (g : grammar) (A : automaton) : bool :=
  vS0 A && vS1 g A && vS2 g A && vS3 g A && vS4 g A && vS5 g A.

(* ---- completeness conditions ------------------------------------------------ *)

(* FIRST of a symbol sequence followed by a lookahead set *)
Definition firstseq_la (nl : list N) (fs : list pairN) (l : list sym) (la : list N) : list N :=
  if nullable_seq nl l then unionN (first_seq nl fs l) la else first_seq nl fs l.

(* C1: the start item with end-of-input lookahead *)
Definition vC1 (g : grammar) (A : automaton) : bool :=
  match find_item (start_prod g) 0 (closed A (start A)) with
  | Some i => memN (eof g) (it_la i)
  | None => false
  end.

(* C2: closure — every production of a rule after a dot is present with a
   lookahead set covering FIRST(rest . L), FIRST/nullable being the proved-exact
   references, not the implementation's *)
Definition vC2 (g : grammar) (nl : list N) (fs : list pairN) (A : automaton) : bool :=
  forallb (fun s => forallb (fun i =>
    match nth_error (rhs g (it_p i)) (it_d i) with
    | Some (R r) =>
        let need := firstseq_la nl fs (skipn (S (it_d i)) (rhs g (it_p i))) (it_la i) in
        forallb (fun q => negb (N.eqb (lhs g q) r) ||
                   match find_item q 0 (closed A s) with
                   | Some j => subsetN need (it_la j)
                   | None => false
                   end) (pidxs g)
    | _ => true
    end) (closed A s)) (states A).

(* C3: transitions — the advanced item is in the target with a superset
   lookahead, and the table cell is the shift / goto to that target *)
Definition vC3 (g : grammar) (A : automaton) : bool :=
  forallb (fun s => forallb (fun i =>
    match nth_error (rhs g (it_p i)) (it_d i) with
    | Some X =>
        match edge A s X with
        | Some s' =>
            match find_item (it_p i) (S (it_d i)) (closed A s') with
            | Some j => subsetN (it_la i) (it_la j)
            | None => false
            end &&
            match X with
            | T a => act_eqb (action A s a) (Shift s')
            | R r => optN_eqb (goto A s r) (Some s')
            end
        | None => false
        end
    | None => true
    end) (closed A s)) (states A).

(* C4: complete items reduce on each of their lookaheads; the advanced start
   item accepts on end of input *)
Definition vC4 (g : grammar) (A : automaton) : bool :=
  forallb (fun s => forallb (fun i =>
    if Nat.eqb (it_d i) (length (rhs g (it_p i))) then
      if N.eqb (it_p i) (start_prod g)
      then negb (memN (eof g) (it_la i)) || act_eqb (action A s (eof g)) Accept
      else forallb (fun a => act_eqb (action A s a) (Reduce (it_p i))) (it_la i)
    else true) (closed A s)) (states A).

Definition validC (g : grammar) (A : automaton) : bool :=
  match first_ref g with
  | Some (nl, fs) => vC1 g A && vC2 g nl fs A && vC3 g A && vC4 g A
  | None => false
  end.

(* ---- LR(0) justification of closure items (for the viable-prefix theorem) --- *)

Definition item0 := (N * nat)%type.
Definition mem0 (x : item0) (l : list item0) : bool :=
  existsb (fun y => N.eqb (fst x) (fst y) && Nat.eqb (snd x) (snd y)) l.

(* one round: add (q,0) for every production q of a rule after some dot *)
Definition lr0_step (g : grammar) (l : list item0) : list item0 :=
  fold_right (fun q acc =>
      if mem0 (q, 0%nat) acc then acc
      else if existsb (fun pd => match nth_error (rhs g (fst pd)) (snd pd) with
                                 | Some (R r) => N.eqb r (lhs g q)
                                 | _ => false end) l
           then (q, 0%nat) :: acc else acc) l (pidxs g).

Definition lr0_closure (g : grammar) (kernel : list item0) : list item0 :=
  iter (S (length (prods g))) (lr0_step g) kernel.

Definition kernel_of (g : grammar) (A : automaton) (s : N) : list item0 :=
  (if N.eqb s (start A) then [(start_prod g, 0%nat)] else []) ++
  map (fun i => (it_p i, it_d i)) (filter (fun i => negb (Nat.eqb (it_d i) 0)) (closed A s)).

(* E1: every dot-0 item of a closed state is in the LR(0) closure of the state's
   kernel (its dot>0 items; the start item for the start state) *)
Definition vE1 (g : grammar) (A : automaton) : bool :=
  forallb (fun s =>
    let cl := lr0_closure g (kernel_of g A s) in
    forallb (fun i => negb (Nat.eqb (it_d i) 0) || mem0 (it_p i, 0%nat) cl) (closed A s))
    (states A).

(* E2: every non-start state has a kernel item (an item with its dot past a
   symbol); without it an edge into an item-less junk state would let the parser
   shift a lexeme no sentence continues with *)
Definition vE2 (A : automaton) : bool :=
  forallb (fun s => N.eqb s (start A) ||
                    existsb (fun i => negb (Nat.eqb (it_d i) 0)) (closed A s)) (states A).

Definition validE (g : grammar) (A : automaton) : bool := vE1 g A && vE2 A.

(* no cell has more than one candidate: the reading of "conflict-free" used by
   C01 part B and C04 (nothing reported, nothing settled silently by precedence) *)
Definition candidates (g : grammar) (A : automaton) (s a : N) : nat :=
  (match edge A s (T a) with Some _ => 1 | None => 0 end) +
  length (filter (fun i => Nat.eqb (it_d i) (length (rhs g (it_p i))) && memN a (it_la i)) (closed A s)).
Definition single_candidate (g : grammar) (A : automaton) : bool :=
  forallb (fun s => forallb (fun a => (candidates g A s a <=? 1)%nat) (tidxs g)) (states A).

(* ---- building an automaton from a dump --------------------------------------- *)

Definition of_dump (d : dump) : automaton :=
  {| nstates := d_nstates d;
     start := d_start d;
     closed := fun s => odefault [] (assocN s (d_closed d));
     core := fun s => odefault [] (assocN s (d_core d));
     edge := fun s X => match assocN s (d_edges d) with Some l => assoc_sym X l | None => None end;
     action := fun s a => match assocN s (d_actions d) with
                          | Some l => odefault Err (assocN a l) | None => Err end;
     goto := fun s r => match assocN s (d_gotos d) with Some l => assocN r l | None => None end |}.
