(* Renumbering the leaves of a tree in order (the LR interpreter builds leaves
   carrying their lexeme index), and the measure [lctxlen t j]: the number of
   stack entries the interpreter has pushed for t just before it shifts t's
   j-th leaf (the trees hanging to the left of the path to that leaf). *)
From Coq Require Import List Arith NArith Bool Lia.
From GV Require Import Base.Grammar Base.GrammarFacts LR.Sound LR.Complete LR.TermTrees.
Import ListNotations.

Lemma tree_ind' (P : tree -> Prop) :
  (forall a i, P (Leaf a i)) ->
  (forall p kids, Forall P kids -> P (Node p kids)) ->
  forall t, P t.
Proof.
  intros HL HN. fix IH 1. intros [a i|p kids]; [apply HL|]. apply HN.
  induction kids as [|k ks IHk]; constructor; [apply IH | exact IHk].
Qed.

(* ---- the left context of a leaf ------------------------------------------------------ *)

Section LctxList.
Variable f : tree -> nat -> nat.
Fixpoint lctx_list (ks : list tree) (j : nat) : nat :=
  match ks with
  | [] => 0
  | k :: ks' => if j <? length (leaves k) then f k j else S (lctx_list ks' (j - length (leaves k)))
  end.
End LctxList.

Fixpoint lctxlen (t : tree) (j : nat) : nat :=
  match t with Leaf _ _ => 0 | Node _ kids => lctx_list lctxlen kids j end.

Definition lctxlen_f := lctx_list lctxlen.

Lemma lctxlen_node p kids j : lctxlen (Node p kids) j = lctxlen_f kids j.
Proof. reflexivity. Qed.

Lemma lctxlen_f_cons k ks j : lctxlen_f (k :: ks) j =
  if j <? length (leaves k) then lctxlen k j else S (lctxlen_f ks (j - length (leaves k))).
Proof. reflexivity. Qed.

(* skipping a whole forest *)
Lemma lctxlen_f_app pre rest i :
  lctxlen_f (pre ++ rest) (length (flat_map leaves pre) + i) = length pre + lctxlen_f rest i.
Proof.
  induction pre as [|k pre IH]; [reflexivity|].
  cbn [app flat_map length]. rewrite lctxlen_f_cons, app_length.
  replace (length (leaves k) + length (flat_map leaves pre) + i <? length (leaves k)) with false
    by (symmetry; apply Nat.ltb_ge; lia).
  replace (length (leaves k) + length (flat_map leaves pre) + i - length (leaves k))
    with (length (flat_map leaves pre) + i) by lia.
  rewrite IH. reflexivity.
Qed.

(* entering the tree that has the leaf *)
Lemma lctxlen_f_enter pre t post i : i < length (leaves t) ->
  lctxlen_f (pre ++ t :: post) (length (flat_map leaves pre) + i) = length pre + lctxlen t i.
Proof.
  intros Hi. rewrite lctxlen_f_app, lctxlen_f_cons.
  apply Nat.ltb_lt in Hi. rewrite Hi. reflexivity.
Qed.

(* ---- renumbering ---------------------------------------------------------------------- *)

Section RenumList.
Variable f : nat -> tree -> tree.
Fixpoint renum_list (s : nat) (ks : list tree) : list tree :=
  match ks with
  | [] => []
  | k :: ks' => f s k :: renum_list (s + length (leaves k)) ks'
  end.
End RenumList.

Fixpoint renum (s : nat) (t : tree) : tree :=
  match t with Leaf a _ => Leaf a s | Node p kids => Node p (renum_list renum s kids) end.

Definition relabel (s : nat) (lv : list (N * nat)) : list (N * nat) :=
  combine (map fst lv) (seq s (length lv)).

Lemma relabel_app s l1 l2 : relabel s (l1 ++ l2) = relabel s l1 ++ relabel (s + length l1) l2.
Proof.
  unfold relabel. rewrite map_app, app_length, seq_app.
  apply combine_app_same. rewrite map_length, seq_length. reflexivity.
Qed.

Lemma relabel_length s lv : length (relabel s lv) = length lv.
Proof. unfold relabel. rewrite combine_length, map_length, seq_length. lia. Qed.

Lemma leaves_renum : forall t s, leaves (renum s t) = relabel s (leaves t).
Proof.
  induction t as [a i|p kids IH] using tree_ind'; intros s; [reflexivity|].
  cbn [renum]. rewrite !leaves_Node. revert s.
  induction IH as [|k ks Hk _ IHks]; intros s; [reflexivity|].
  cbn [renum_list flat_map]. rewrite relabel_app, Hk, IHks. reflexivity.
Qed.

Lemma length_leaves_renum t s : length (leaves (renum s t)) = length (leaves t).
Proof. rewrite leaves_renum. apply relabel_length. Qed.

Lemma yield_renum t s : yield (renum s t) = yield t.
Proof.
  unfold yield. rewrite leaves_renum. unfold relabel.
  rewrite <- (map_length fst (leaves t)). apply map_fst_combine_seq.
Qed.

Lemma idxs_renum t s : idxs (renum s t) = seq s (length (yield t)).
Proof.
  unfold idxs, yield. rewrite leaves_renum. unfold relabel.
  rewrite <- (map_length fst (leaves t)). apply map_snd_combine_seq.
Qed.

Lemma renum_in_order t : leaves_in_order (renum 0 t) (yield t).
Proof.
  unfold leaves_in_order. rewrite leaves_renum. unfold relabel, yield.
  rewrite map_length. reflexivity.
Qed.

Lemma root_renum g t s : root g (renum s t) = root g t.
Proof. destruct t; reflexivity. Qed.

Lemma roots_renum_list g ks : forall s, map (root g) (renum_list renum s ks) = map (root g) ks.
Proof.
  induction ks as [|k ks IH]; intros s; [reflexivity|].
  cbn [renum_list map]. rewrite root_renum, IH. reflexivity.
Qed.

Lemma valid_renum g : forall t, valid_tree g t -> forall s, valid_tree g (renum s t).
Proof.
  intros t Hv. induction Hv as [a i|p kids Hp Hk IH Hm] using valid_tree_ind'; intros s.
  - constructor.
  - cbn [renum]. constructor; [exact Hp| |rewrite roots_renum_list; exact Hm].
    clear Hm Hk. revert s. induction IH as [|k ks Hk1 _ IHks]; intros s; constructor; auto.
Qed.

Lemma lctxlen_renum : forall t s j, lctxlen (renum s t) j = lctxlen t j.
Proof.
  induction t as [a i|p kids IH] using tree_ind'; intros s j; [reflexivity|].
  cbn [renum]. rewrite !lctxlen_node. revert s j.
  induction IH as [|k ks Hk _ IHks]; intros s j; [reflexivity|].
  cbn [renum_list]. rewrite !lctxlen_f_cons, length_leaves_renum, Hk.
  destruct (j <? length (leaves k)); [reflexivity|]. f_equal. apply IHks.
Qed.

Lemma tree_size_renum : forall t s, tree_size (renum s t) = tree_size t.
Proof.
  induction t as [a i|p kids IH] using tree_ind'; intros s; [reflexivity|].
  cbn [renum]. rewrite !tree_size_node. f_equal. revert s.
  induction IH as [|k ks Hk _ IHks]; intros s; [reflexivity|].
  cbn [renum_list forest_size fold_right]. fold (forest_size (renum_list renum (s + length (leaves k)) ks)).
  fold (forest_size ks). rewrite Hk, IHks. reflexivity.
Qed.
