(* The certificate checkers are complete (TermPot.v instantiated to the two
   graphs), hence the termination theorem with declarative hypotheses. *)
From Coq Require Import List Arith NArith Bool Lia.
From GV Require Import Base.Grammar Base.GrammarFacts Base.Analyses Base.AnalysesProofs
  LR.Automaton LR.Validator LR.Spec LR.TermSpec LR.TermGraph LR.TermPot LR.TermProofs.
From GV Require LR.Prefix.
Import ListNotations.

(* ---- edges back to productions ------------------------------------------------------ *)

Lemma In_rule_splits_inv r al b be : In (al, b, be) (rule_splits r) -> r = al ++ R b :: be.
Proof.
  unfold rule_splits. intros H. apply in_flat_map in H. destruct H as (i & _ & Hi).
  destruct (nth_error r i) as [[t|b']|] eqn:Hn; [destruct Hi | | destruct Hi].
  destruct Hi as [Hi|[]]. injection Hi as <- <- <-.
  apply Prefix.nth_error_split_at. exact Hn.
Qed.

Lemma In_unit_edges_inv g nl x y w : In (x, y, w) (unit_edges g nl) ->
  exists p al be, is_prod g p /\ lhs g p = x /\ rhs g p = al ++ R y :: be /\
    nullable_seq nl al = true /\ nullable_seq nl be = true /\ w = 1.
Proof.
  unfold unit_edges. intros H. apply in_flat_map in H. destruct H as (pr & Hpr & H).
  apply in_flat_map in H. destruct H as ([[al b] be] & Hs & H).
  destruct (nullable_seq nl al) eqn:Ha; [|destruct H].
  destruct (nullable_seq nl be) eqn:Hb; [|destruct H].
  destruct H as [H|[]]. injection H as <- <- <-.
  apply In_rule_splits_inv in Hs.
  destruct (in_prods_prod g pr Hpr) as (p & Hp & Hl & Hr).
  exists p, al, be. rewrite Hr. repeat split; assumption.
Qed.

Lemma In_hl_edges_inv g nl x y w : In (x, y, w) (hl_edges g nl) ->
  exists p al be, is_prod g p /\ lhs g p = x /\ rhs g p = al ++ R y :: be /\
    nullable_seq nl al = true /\ w = if is_nil al then 0 else 1.
Proof.
  unfold hl_edges. intros H. apply in_flat_map in H. destruct H as (pr & Hpr & H).
  apply in_flat_map in H. destruct H as ([[al b] be] & Hs & H).
  destruct (nullable_seq nl al) eqn:Ha; [|destruct H].
  destruct H as [H|[]]. injection H as <- <- <-.
  apply In_rule_splits_inv in Hs.
  destruct (in_prods_prod g pr Hpr) as (p & Hp & Hl & Hr).
  exists p, al, be. rewrite Hr. repeat split; assumption.
Qed.

Lemma split_range g p al y be : wf_grammar g = true -> is_prod g p ->
  rhs g p = al ++ R y :: be ->
  N.to_nat (lhs g p) < N.to_nat (nrules g) /\ N.to_nat y < N.to_nat (nrules g).
Proof.
  intros Hwf Hp Hr. pose proof (wf_lhs_range g p Hwf Hp) as Hl.
  assert (Hin : In (R y) (rhs g p)) by (rewrite Hr; apply in_elt).
  pose proof (wf_rhs_range g p _ Hwf Hp Hin) as Hy. simpl in Hy. apply N.ltb_lt in Hy. lia.
Qed.

(* ---- derivations in one or more steps -------------------------------------------------- *)

Lemma derives_plus_derives g a b : derives_plus g a b -> derives g a b.
Proof.
  intros (x & p & y & Hp & Ha & Hd). subst a. apply derives_step_l; assumption.
Qed.

Lemma derives_plus_trans_r g a b c : derives_plus g a b -> derives g b c -> derives_plus g a c.
Proof.
  intros (x & p & y & Hp & Ha & Hd) Hbc. exists x, p, y. split; [exact Hp|]. split; [exact Ha|].
  eapply derives_trans; eassumption.
Qed.

Section Complete.
Variable g : grammar.
Variable nl : list N.
Hypothesis Hwf : wf_grammar g = true.
Hypothesis Hnl : nullable_ref g = Some nl.

Let Hsound : nullable_sound g nl.
Proof. intros r Hr. apply (nullable_ref_exact' g nl Hnl). exact Hr. Qed.

Lemma unit_edge_derives x y w : In (x, y, w) (unit_edges g nl) -> derives_plus g [R x] [R y].
Proof.
  intros H. destruct (In_unit_edges_inv g nl x y w H) as (p & al & be & Hp & Hl & Hr & Ha & Hb & _).
  exists [], p, []. split; [exact Hp|]. split; [rewrite Hl; reflexivity|].
  cbn [app]. rewrite app_nil_r, Hr.
  pose proof (nullable_seq_sound g nl al Hsound Ha) as Hda.
  pose proof (nullable_seq_sound g nl be Hsound Hb) as Hdb.
  exact (derives_app g al [] (R y :: be) [R y] Hda (derives_cons g (R y) be [] Hdb)).
Qed.

Lemma unit_walk_derives a c l v : walk (unit_edges g nl) a c l v -> l <> [] ->
  derives_plus g [R a] [R c].
Proof.
  intros H. induction H as [a | a b c w l v Hin H IH]; intros Hne; [contradiction Hne; reflexivity|].
  pose proof (unit_edge_derives a b w Hin) as Hab.
  destruct l as [|z l].
  - inversion H; subst. exact Hab.
  - eapply derives_plus_trans_r; [exact Hab|]. apply derives_plus_derives. apply IH. discriminate.
Qed.

Lemma acyclic_complete : acyclic g -> acyclic_b g = true.
Proof.
  intros Hac. unfold acyclic_b. rewrite Hnl. unfold rank_of. apply pot_complete.
  - intros x y w Hin.
    destruct (In_unit_edges_inv g nl x y w Hin) as (p & al & be & Hp & Hl & Hr & _ & _ & Hw).
    destruct (split_range g p al y be Hwf Hp Hr) as [H1 H2]. rewrite Hl in H1. lia.
  - intros a l v H. destruct l as [|z l].
    + inversion H. reflexivity.
    + exfalso. apply (Hac a). apply (unit_walk_derives a a (z :: l) v H). discriminate.
Qed.

Lemma hl_edge_step x y w : In (x, y, w) (hl_edges g nl) -> hl_step g x y (negb (w =? 0)).
Proof.
  intros H. destruct (In_hl_edges_inv g nl x y w H) as (p & al & be & Hp & Hl & Hr & Ha & Hw).
  exists p, al, be. repeat split; try assumption.
  - apply (nullable_seq_sound g nl al Hsound Ha).
  - subst w. destruct al; reflexivity.
Qed.

Lemma hl_walk_path a c l v : walk (hl_edges g nl) a c l v -> l <> [] ->
  hl_path g a c (negb (v =? 0)).
Proof.
  intros H. induction H as [a | a b c w l v Hin H IH]; intros Hne; [contradiction Hne; reflexivity|].
  pose proof (hl_edge_step a b w Hin) as Hab.
  destruct l as [|z l].
  - inversion H; subst. rewrite Nat.add_0_r. apply hp_one. exact Hab.
  - replace (negb (w + v =? 0)) with (negb (w =? 0) || negb (v =? 0)).
    + eapply hp_cons; [exact Hab|]. apply IH. discriminate.
    + destruct w, v; reflexivity.
Qed.

Lemma hlr_free_complete : hlr_free g -> hlr_free_b g = true.
Proof.
  intros Hfree. unfold hlr_free_b. rewrite Hnl. unfold hpot_of. apply pot_complete.
  - intros x y w Hin.
    destruct (In_hl_edges_inv g nl x y w Hin) as (p & al & be & Hp & Hl & Hr & _ & Hw).
    destruct (split_range g p al y be Hwf Hp Hr) as [H1 H2]. rewrite Hl in H1.
    split; [exact H1|]. split; [exact H2|]. subst w. destruct (is_nil al); lia.
  - intros a l v H. destruct l as [|z l].
    + inversion H. reflexivity.
    + destruct v as [|v]; [reflexivity|]. exfalso. apply (Hfree a).
      apply (hl_walk_path a a (z :: l) (S v) H). discriminate.
Qed.

End Complete.

Lemma acyclic_b_complete : acyclic_b_complete_stmt.
Proof.
  intros g Hwf Hac. destruct (nullable_ref g) as [nl|] eqn:Hnl.
  - exact (acyclic_complete g nl Hwf Hnl Hac).
  - exfalso. exact (nullable_ref_total g Hwf Hnl).
Qed.

Lemma hlr_free_b_complete : hlr_free_b_complete_stmt.
Proof.
  intros g Hwf Hfree. destruct (nullable_ref g) as [nl|] eqn:Hnl.
  - exact (hlr_free_complete g nl Hwf Hnl Hfree).
  - exfalso. exact (nullable_ref_total g Hwf Hnl).
Qed.

Lemma lr_terminates : lr_terminates_stmt.
Proof.
  intros g A Hwf HS HE Hac Hfree input Hrng.
  pose proof (lr_terminates_b g A Hwf HS HE (acyclic_b_complete g Hwf Hac)
                (hlr_free_b_complete g Hwf Hfree) input Hrng) as H.
  split; [exists (lr_fuel g input)|]; exact H.
Qed.
