(* Refinement of Complete.main_lemma: on the yield of a valid tree the validated
   (validC) interpreter passes, for every leaf j, through the configuration in
   which exactly the trees to the left of the path to that leaf are on the stack
   and the next action is the shift of that leaf.  With the determinism of
   [step]: two sentences that agree up to and including lexeme j have the same
   left context at j. *)
From Coq Require Import List Arith NArith Bool Lia.
From GV Require Import Base.Grammar Base.Analyses Base.GrammarFacts
  LR.Automaton LR.Validator LR.Spec LR.Sound LR.Complete LR.TermRenum.
Import ListNotations.

Lemma length_leaves_yield t : length (leaves t) = length (yield t).
Proof. unfold yield. rewrite map_length. reflexivity. Qed.

Section Leaf.
Variable g : grammar.
Variable A : automaton.
Variable nl : list N.
Variable fs : list pairN.
Hypothesis Hwf : wf_grammar g = true.
Hypothesis HS1 : vS1 g A = true.
Hypothesis Hfr : first_ref g = Some (nl, fs).
Hypothesis HC2 : vC2 g nl fs A = true.
Hypothesis HC3 : vC3 g A = true.
Hypothesis HC4 : vC4 g A = true.

Definition goal_leaf (t : tree) : Prop :=
  forall input stk pos j, (top A stk < nstates A)%N ->
    at_pos input pos (yield t) ->
    idxs t = seq pos (length (yield t)) ->
    expects g A nl fs (top A stk) (root g t) (la g input (pos + length (yield t))) ->
    j < length (yield t) ->
    exists stk1 s', length stk1 = lctxlen t j /\
      steps g A input (stk, pos) (stk1 ++ stk, (pos + j)%nat) /\
      action A (top A (stk1 ++ stk)) (la g input (pos + j)) = Shift s'.

Lemma forest_leaf q : forall kids, Forall (valid_tree g) kids ->
  Forall (goal_for g A nl fs) kids -> Forall goal_leaf kids ->
  forall input stk pos i L j, (top A stk < nstates A)%N ->
    at_pos input pos (flat_map yield kids) ->
    flat_map idxs kids = seq pos (length (flat_map yield kids)) ->
    In (q, i, L) (closed A (top A stk)) ->
    skipn i (rhs g q) = map (root g) kids ->
    (i <= length (rhs g q))%nat ->
    In (la g input (pos + length (flat_map yield kids))) L ->
    j < length (flat_map yield kids) ->
    exists stk1 s', length stk1 = lctxlen_f kids j /\
      steps g A input (stk, pos) (stk1 ++ stk, (pos + j)%nat) /\
      action A (top A (stk1 ++ stk)) (la g input (pos + j)) = Shift s'.
Proof.
  intros kids Hv Hg Hgl. induction kids as [|k ks IH];
    intros input stk pos i L j Htop Hat Hnum Hin Hsk Hi Hla Hj.
  - simpl in Hj. lia.
  - inversion Hv as [|? ? Hvk Hvks]; subst. inversion Hg as [|? ? Hgk Hgks]; subst.
    inversion Hgl as [|? ? Hglk Hglks]; subst.
    cbn [flat_map map] in *.
    apply at_pos_split in Hat. destruct Hat as (Hat1 & Hat2).
    apply skipn_cons_nth in Hsk. destruct Hsk as (Hnth & Hsk').
    rewrite app_length, seq_app in Hnum.
    apply app_inv_length in Hnum; [|rewrite seq_length; apply length_idxs_yield].
    destruct Hnum as (Hnum1 & Hnum2).
    rewrite app_length, Nat.add_assoc in Hla. rewrite app_length in Hj.
    assert (Hexp : expects g A nl fs (top A stk) (root g k) (la g input (pos + length (yield k)))).
    { exists q, i, L. split; [exact Hin|]. split; [exact Hnth|].
      rewrite Hsk'. apply (firstseq_la_covers g nl fs Hfr ks L _ Hvks).
      destruct (flat_map yield ks) as [|b u] eqn:Hy.
      - simpl in Hla. rewrite Nat.add_0_r in Hla. exact Hla.
      - apply (la_at g input _ b u). exact Hat2. }
    rewrite lctxlen_f_cons, length_leaves_yield.
    destruct (j <? length (yield k)) eqn:Hlt.
    + apply Nat.ltb_lt in Hlt. exact (Hglk input stk pos j Htop Hat1 Hnum1 Hexp Hlt).
    + apply Nat.ltb_ge in Hlt.
      destruct (Hgk input stk pos Htop Hat1 Hnum1 Hexp) as (s' & He & Hs' & Hst).
      destruct (vC3_spec g A HC3 _ _ _ _ _ Htop Hin Hnth) as (s'' & He' & (L' & Hin' & Hincl) & _).
      rewrite He in He'. injection He' as He'. subst s''.
      assert (Hi' : (S i <= length (rhs g q))%nat).
      { apply nth_error_Some. rewrite Hnth. discriminate. }
      destruct (IH Hvks Hgks Hglks input ((s', k) :: stk) (pos + length (yield k))%nat (S i) L'
                   (j - length (yield k)) Hs' Hat2 Hnum2 Hin' Hsk' Hi' (Hincl _ Hla) ltac:(lia))
        as (stk1 & s2 & Hlen & Hst' & Hact).
      replace (pos + length (yield k) + (j - length (yield k))) with (pos + j) in * by lia.
      exists (stk1 ++ [(s', k)]), s2. rewrite <- app_assoc. cbn [app].
      split; [rewrite app_length; simpl; lia|].
      split; [eapply steps_trans; [exact Hst | exact Hst'] | exact Hact].
Qed.

Theorem leaf_lemma : forall t, valid_tree g t -> goal_leaf t.
Proof.
  intros t Hvt. induction Hvt as [a i | q kids Hq Hv Hg Hm] using valid_tree_ind'.
  - intros input stk pos j Htop Hat Hnum (p & d & L & Hin & Hnth & _) Hj.
    change (yield (Leaf a i)) with [a] in *. change (root g (Leaf a i)) with (T a) in *.
    simpl in Hj. assert (j = 0) by lia. subst j.
    destruct (vC3_spec g A HC3 _ _ _ _ _ Htop Hin Hnth) as (s' & He & _ & Hact).
    exists [], s'. cbn [app]. rewrite Nat.add_0_r. split; [reflexivity|].
    split; [apply st_refl|]. rewrite (la_at g input pos a [] Hat). exact Hact.
  - intros input stk pos j Htop Hat Hnum (p & d & L & Hin & Hnth & Hfs) Hj.
    rewrite yield_node in *. rewrite idxs_node in Hnum.
    change (root g (Node q kids)) with (R (lhs g q)) in *.
    destruct (vC2_spec g nl fs A HC2 _ _ _ _ _ q Htop Hin Hnth Hq eq_refl) as (L0 & Hin0 & HL0).
    assert (Hla : In (la g input (pos + length (flat_map yield kids))) L0) by (apply HL0; exact Hfs).
    rewrite lctxlen_node.
    apply (forest_leaf q kids Hv) with (i := 0%nat) (L := L0); try assumption.
    + apply Forall_forall. intros k Hk. rewrite Forall_forall in Hv.
      apply (main_lemma g A nl fs Hwf HS1 Hfr HC2 HC3 HC4). apply Hv. exact Hk.
    + symmetry. exact Hm.
    + lia.
Qed.

End Leaf.

(* ---- determinism ---------------------------------------------------------------------- *)

Lemma steps_linear g A input c c1 c2 :
  steps g A input c c1 -> steps g A input c c2 ->
  steps g A input c1 c2 \/ steps g A input c2 c1.
Proof.
  intros H1. revert c2. induction H1 as [c | c c' c1 Hs H1 IH]; intros c2 H2.
  - left. exact H2.
  - inversion H2 as [| ? c'' ? Hs2 H2']; subst.
    + right. eapply st_step; eassumption.
    + rewrite Hs in Hs2. injection Hs2 as Hs2. subst c''. apply IH. exact H2'.
Qed.

Definition preshift (g : grammar) (A : automaton) (input : list N) (c : stack * nat) : Prop :=
  exists s', action A (top A (fst c)) (la g input (snd c)) = Shift s'.

Lemma preshift_step g A input c : preshift g A input c ->
  exists c', step g A input c = inl c' /\ snd c' = S (snd c).
Proof.
  destruct c as [stk pos]. intros (s' & Hact). cbn [fst snd] in Hact.
  unfold step. rewrite Hact. eexists. split; reflexivity.
Qed.

Lemma preshift_unique g A input c c1 c2 :
  steps g A input c c1 -> steps g A input c c2 -> snd c1 = snd c2 ->
  preshift g A input c1 -> preshift g A input c2 -> c1 = c2.
Proof.
  intros H1 H2 Hpos P1 P2.
  assert (Haux : forall x y, steps g A input x y -> snd x = snd y -> preshift g A input x -> x = y).
  { intros x y Hxy Hp Px. inversion Hxy as [| ? x' ? Hs Hrest]; subst; [reflexivity|].
    destruct (preshift_step g A input x Px) as (x'' & Hs' & Hsx).
    rewrite Hs in Hs'. injection Hs' as Hs'. subst x''.
    pose proof (steps_pos_mono _ _ _ _ _ Hrest). lia. }
  destruct (steps_linear g A input c c1 c2 H1 H2) as [H|H].
  - apply Haux; assumption.
  - symmetry. apply Haux; [exact H | symmetry; exact Hpos | exact P2].
Qed.

(* ---- top level --------------------------------------------------------------------------- *)

Lemma run_leaf g A : wf_grammar g = true -> validS g A = true -> validC g A = true ->
  forall t s j, user_start g = Some s -> root g t = R s -> valid_tree g t ->
    leaves_in_order t (yield t) -> j < length (yield t) ->
    exists stk1, length stk1 = lctxlen t j /\
      steps g A (yield t) ([], 0) (stk1, j) /\ preshift g A (yield t) (stk1, j).
Proof.
  intros Hwf HS HC t s j Hus Hroot Hvt Hord Hj.
  destruct (validS_parts g A HS) as (_ & HS1 & _ & _ & _ & HS5).
  pose proof (validS_S5_start g A HS) as Hstart.
  destruct (validC_parts g A HC) as (nl & fs & Hfr & HC1 & HC2 & HC3 & HC4).
  destruct (vC1_spec g A HC1) as (L & Hin & Heof).
  pose proof (user_start_rhs g s Hus) as Hrhs.
  assert (Hnth : nth_error (rhs g (start_prod g)) 0 = Some (R s)) by (rewrite Hrhs; reflexivity).
  assert (Hla : la g (yield t) (0 + length (yield t)) = eof g).
  { unfold la. apply nth_overflow. simpl. lia. }
  destruct (leaf_lemma g A nl fs Hwf HS1 Hfr HC2 HC3 HC4 t Hvt (yield t) [] 0%nat j)
    as (stk1 & s' & Hlen & Hst & Hact).
  - exact Hstart.
  - exists [], []. split; [rewrite app_nil_r; reflexivity | reflexivity].
  - exact (leaves_in_order_idxs t _ Hord).
  - exists (start_prod g), 0%nat, L. split; [exact Hin|]. split; [rewrite Hroot; exact Hnth|].
    rewrite Hla, Hrhs. simpl. unfold firstseq_la. simpl. exact Heof.
  - exact Hj.
  - rewrite app_nil_r in *. cbn [Nat.add] in *. exists stk1. split; [exact Hlen|].
    split; [exact Hst|]. exists s'. exact Hact.
Qed.

(* two sentence trees whose yields agree up to and including lexeme j have the
   same number of trees to the left of that lexeme *)
Lemma left_context_determined g A : wf_grammar g = true -> validS g A = true -> validC g A = true ->
  forall t1 t2 s j, user_start g = Some s ->
    root g t1 = R s -> valid_tree g t1 -> leaves_in_order t1 (yield t1) ->
    root g t2 = R s -> valid_tree g t2 -> leaves_in_order t2 (yield t2) ->
    j < length (yield t1) -> j < length (yield t2) ->
    firstn (S j) (yield t1) = firstn (S j) (yield t2) ->
    lctxlen t1 j = lctxlen t2 j.
Proof.
  intros Hwf HS HC t1 t2 s j Hus Hr1 Hv1 Ho1 Hr2 Hv2 Ho2 Hj1 Hj2 Hpre.
  destruct (run_leaf g A Hwf HS HC t1 s j Hus Hr1 Hv1 Ho1 Hj1) as (k1 & Hl1 & Hst1 & Hp1).
  destruct (run_leaf g A Hwf HS HC t2 s j Hus Hr2 Hv2 Ho2 Hj2) as (k2 & Hl2 & Hst2 & Hp2).
  assert (Hag : la_agree g (yield t1) (yield t2) (S j)).
  { apply firstn_padded_la_agree. rewrite !firstn_app.
    replace (S j - length (yield t1)) with 0 by lia.
    replace (S j - length (yield t2)) with 0 by lia. rewrite Hpre. reflexivity. }
  assert (Hst1' : steps g A (yield t2) ([], 0) (k1, j)).
  { eapply steps_local; [exact Hag | exact Hst1 | simpl; lia]. }
  assert (Hp1' : preshift g A (yield t2) (k1, j)).
  { destruct Hp1 as (s' & Hact). exists s'. cbn [fst snd] in *. rewrite <- (Hag j ltac:(lia)). exact Hact. }
  pose proof (preshift_unique g A (yield t2) _ _ _ Hst1' Hst2 eq_refl Hp1' Hp2) as Heq.
  injection Heq as Heq. subst k2. lia.
Qed.
