(* Outcome type shared by all mirrors: every Rust operation that can panic
   (unwrap, slice, index, checked arithmetic, assert) is an explicit [Panic]
   result of the model; every loop whose termination is not structural runs on
   fuel and returns [OutOfFuel] when it is exhausted. *)
From Coq Require Import List.
Import ListNotations.

Inductive outcome (A : Type) : Type :=
| Done (a : A)
| Panic
| OutOfFuel.
Arguments Done {A} a.
Arguments Panic {A}.
Arguments OutOfFuel {A}.

Definition obind {A B} (x : outcome A) (f : A -> outcome B) : outcome B :=
  match x with Done a => f a | Panic => Panic | OutOfFuel => OutOfFuel end.

Notation "'do' x <- e1 ; e2" := (obind e1 (fun x => e2))
  (at level 200, x pattern, e1 at level 100, e2 at level 200, right associativity).

Definition nth_checked {A} (l : list A) (i : nat) : outcome A :=
  match nth_error l i with Some a => Done a | None => Panic end.

Definition is_done {A} (x : outcome A) : bool :=
  match x with Done _ => true | _ => false end.
