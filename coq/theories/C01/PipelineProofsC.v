(* C01 (pipeline) — when the construction reports no conflict (and precedence settled
   nothing) no state of the graph has a conflict; then the table of StateTable::new's
   mirror coincides, cell by cell, with the automaton INDUCED by the graph
   (C02/InducedModel.v), so C02's theorems about the latter (validC,
   single_candidate) transfer.  Conversely, on a graph without conflicts nothing is
   reported and nothing is settled by precedence. *)
From Coq Require Import List Arith NArith Bool Lia Permutation.
From GV Require Import Common.Outcome Base.Grammar Base.GrammarFacts Base.Analyses Base.AnalysesProofs
  LR.Automaton LR.Validator LR.Spec LR.Agree LR.CloseMirror LR.CloseSpec LR.CloseProofs
  C02.Model C02.Spec C02.PagerSpec C02.PagerProofsBridge C02.PagerProofsMain C02.PagerProofsExists
  C02.Lr1Model C02.Lr1Proofs C02.LoopModel C02.LoopSpec C02.LoopEdgeProofs C02.LoopFactsProofs
  C02.InducedModel C02.InducedSpec C02.InducedSProofs C02.InducedCProofs C02.InducedEProofs
  C03.Model C03.Spec C03.Lists C03.Small C03.Proofs
  C01.Pipeline C01.PipelineEdges C01.PipelineTable C01.PipelineSpec C01.PipelineProofs.
Import ListNotations.

Lemma pc_forallb_ext_in {A : Type} (f h : A -> bool) (l : list A) :
  (forall x, In x l -> f x = h x) -> forallb f l = forallb h l.
Proof.
  induction l as [|x l IH]; intros H; [reflexivity|]. cbn [forallb].
  rewrite (H x (or_introl eq_refl)), IH; [reflexivity|]. intros y Hy. apply H. right. exact Hy.
Qed.

Lemma pc_winner_some g C a p : In p (red_cands g C a) -> exists q, winner g C a = Some q.
Proof.
  intros Hin. unfold winner. destruct (min_list (red_cands g C a)) as [q|] eqn:E; [exists q; reflexivity|].
  apply min_list_none in E. rewrite E in Hin. destruct Hin.
Qed.

Section ConflictFree.
Variables (g : grammar) (tp pp : precs) (pg : pgraph) (t : ttable).
Hypothesis GF : graph_facts g pg.
Hypothesis HE : ENoDup (pg_edges pg).
Hypothesis TF : table_facts g tp pp pg t.

Let A := built_automaton (mkBuilt pg t).

(* a complete item of a closed state carrying a, as a candidate of the cell *)
Lemma pc_complete_cand s core cl q a : nth_error (pg_states pg) s = Some (core, cl) ->
  lr1_closure_rel g core q (length (rhs g q)) a ->
  (q = start_prod g /\ a = eof g /\ acc_cand g cl a = true) \/ In q (red_cands g cl a).
Proof.
  intros Hs Hcl. destruct (gf_reach g pg GF s _ _ Hs) as (_ & (_ & _ & Hrep1) & _).
  apply Hrep1 in Hcl. apply has_la_pd in Hcl. destruct Hcl as (la & Hin & Ha).
  destruct (is_acc g q a) eqn:Eacc.
  - left. unfold is_acc in Eacc. apply andb_true_iff in Eacc. destruct Eacc as [E1 E2].
    apply N.eqb_eq in E1. apply N.eqb_eq in E2. split; [exact E1|]. split; [exact E2|].
    apply pt_acc_cand_true. exists (q, length (rhs g q), la). cbn [it_p it_d it_la fst snd].
    subst q. repeat split; assumption.
  - right. apply pt_in_red_cands. exists (q, length (rhs g q), la). cbn [it_p it_d it_la fst snd].
    repeat split; assumption.
Qed.

(* an item with a token after its dot gives an edge *)
Lemma pc_shift_edge s core cl es p d a : nth_error (pg_states pg) s = Some (core, cl) ->
  nth_error (pg_edges pg) s = Some es ->
  lr0_closure_rel g core p d -> nth_error (rhs g p) d = Some (T a) ->
  exists tgt, assoc_sym (T a) es = Some tgt.
Proof.
  intros Hs Hes Hcl Hn. pose proof (gf_wf g pg GF) as Hwf.
  destruct (gf_reach g pg GF s _ _ Hs) as (Hpr & _ & _).
  destruct (goto_exists g core Hwf (pager_reachable_items_ok g core Hwf Hpr) (T a)) as (G & Hg & _).
  assert (Hk : exists k, has_core G k).
  { exists (p, S d). apply (proj1 Hg). exists d. split; [reflexivity|]. split; assumption. }
  destruct (gf_complete g pg GF _ core cl es _ G Hs Hes Hg Hk) as (t' & _ & _ & Ha & _).
  exists t'. exact Ha.
Qed.

(* ---- nothing reported, nothing settled  ==>  no state has a conflict ----------------------- *)

Lemma pc_report_conflict_free :
  tb_rr t = [] -> tb_sr t = [] -> prec_unsettled g tp pp (mkBuilt pg t) -> graph_conflict_free g pg.
Proof.
  intros Hrr Hsr Hun s core cl Hs Hconf. pose proof (gf_wf g pg GF) as Hwf.
  assert (Hes : exists es, nth_error (pg_edges pg) s = Some es).
  { apply le_nth_error_ex. rewrite (gf_len g pg GF). exact (le_nth_error_lt _ _ _ Hs). }
  destruct Hes as [es Hes].
  destruct Hconf as [(a & p & d & q & H0 & Hn & H1) | (a & q1 & q2 & Hne & H1 & H2)].
  - destruct (pc_shift_edge s core cl es p d a Hs Hes H0 Hn) as [tgt Ha].
    destruct (pc_complete_cand s core cl q a Hs H1) as [(_ & Ea & _)|Hq].
    + subst a. apply (wf_rhs_no_eof g p Hwf (nth_error_rhs_is_prod g p d _ Hn)).
      apply (nth_error_In _ d). exact Hn.
    + destruct (pc_winner_some g cl a q Hq) as [w Hw].
      assert (Hset : tp a = None \/ pp w = None).
      { apply (Hun (N.of_nat s) a w).
        - apply l1_In_states. cbn [nstates built_automaton b_graph]. pose proof (le_nth_error_lt _ _ _ Hs). lia.
        - cbn [edge built_automaton b_graph]. unfold st_edge. rewrite Nat2N.id, Hes, Ha. discriminate.
        - cbn [closed built_automaton b_graph]. unfold st_closed. rewrite Nat2N.id, Hs. exact Hw. }
      assert (Hin : In (a, w, N.of_nat s) (sr_spec g tp pp (N.of_nat s) cl (st_edges es))).
      { unfold sr_spec. apply in_flat_map. exists (T a, N.of_nat tgt). split.
        - unfold st_edges. apply in_map_iff. exists (T a, tgt). split; [reflexivity|exact (le_assoc_in _ _ _ Ha)].
        - cbn [fst snd]. rewrite Hw. rewrite (proj2 (pp_decide_snd tp pp a w (N.of_nat tgt)) Hset).
          left. reflexivity. }
      pose proof (tf_sr g tp pp pg t TF s core cl es _ Hs Hes Hin) as Hin'. rewrite Hsr in Hin'. destruct Hin'.
  - destruct (pc_complete_cand s core cl q1 a Hs H1) as [(E1 & Ea1 & Hacc1)|Hq1];
      destruct (pc_complete_cand s core cl q2 a Hs H2) as [(E2 & Ea2 & Hacc2)|Hq2].
    + congruence.
    + apply (tf_noar g tp pp pg t TF s core cl a Hs). split; [exact Hacc1|].
      intros E. rewrite E in Hq2. destruct Hq2.
    + apply (tf_noar g tp pp pg t TF s core cl a Hs). split; [exact Hacc2|].
      intros E. rewrite E in Hq1. destruct Hq1.
    + apply (tf_rr g tp pp pg t TF s core cl a Hs); [|exact Hrr].
      exact (l1_two_in _ _ _ Hq1 Hq2 Hne).
Qed.

(* ---- on a graph without conflicts the table is the induced one ------------------------------- *)

Hypothesis CF : graph_conflict_free g pg.

Lemma pc_no_shift_reduce s core cl es a tgt p : nth_error (pg_states pg) s = Some (core, cl) ->
  nth_error (pg_edges pg) s = Some es ->
  assoc_sym (T a) es = Some tgt -> In p (red_cands g cl a) -> False.
Proof.
  intros Hs Hes Ha Hp. apply (CF s core cl Hs). left.
  destruct (iC_edge_item g pg s core cl es (T a) tgt GF Hs Hes Ha) as (p0 & d0 & H0 & Hn).
  destruct (gf_reach g pg GF s _ _ Hs) as (_ & Hrep & _).
  apply pt_in_red_cands in Hp. destruct Hp as (i & Hi & Ep & Hd & Hla & _).
  pose proof (iS_closed_la g _ _ i a Hrep Hi Hla) as Hcl1. rewrite Ep, Hd in Hcl1.
  exists a, p0, d0, p. split; [exact H0|]. split; [exact Hn|exact Hcl1].
Qed.

Lemma pc_action_induced s core cl es a :
  nth_error (pg_states pg) (N.to_nat s) = Some (core, cl) ->
  nth_error (pg_edges pg) (N.to_nat s) = Some es ->
  cell_spec g tp pp cl (st_edges es) a = induced_action g pg s a.
Proof.
  intros Hs Hes. pose proof (gf_wf g pg GF) as Hwf. pose proof (CF _ _ _ Hs) as Hnc.
  destruct (gf_reach g pg GF _ _ _ Hs) as (Hpr & Hrep & Hok).
  unfold cell_spec. rewrite pt_assoc_edges.
  destruct (acc_cand g cl a) eqn:Eacc.
  - apply pt_acc_cand_true in Eacc. destruct Eacc as (i & Hi & Ep & Hd & Hla & Ea).
    rewrite <- Ep in Hd.
    rewrite (iC_reduce_action g pg s core cl es i a GF Hs Hes Hnc Hi Hd Hla), Ep, N.eqb_refl. reflexivity.
  - destruct (assoc_sym (T a) es) as [tgt|] eqn:Ea; cbn [option_map].
    + destruct (winner g cl a) as [p|] eqn:Ew.
      * exfalso. exact (pc_no_shift_reduce _ core cl es a tgt p Hs Hes Ea (pp_winner_in g cl a p Ew)).
      * unfold induced_action. rewrite (iS_st_edge pg s es (T a) Hes), Ea. reflexivity.
    + destruct (winner g cl a) as [p|] eqn:Ew.
      * destruct (pp_red_cand_item g pg _ core cl a p GF Hs (pp_winner_in g cl a p Ew))
          as (i & Hi & Ep & Hd & Hla & Hne & _ & _).
        rewrite <- Ep in Hd.
        rewrite (iC_reduce_action g pg s core cl es i a GF Hs Hes Hnc Hi Hd Hla), Ep.
        rewrite (proj2 (N.eqb_neq _ _) Hne). reflexivity.
      * unfold induced_action. rewrite (iS_st_edge pg s es (T a) Hes), Ea. cbn [option_map].
        rewrite (iS_st_closed pg s core cl Hs).
        destruct (reducers g cl a) as [|i l] eqn:Er; [reflexivity|]. exfalso.
        assert (Hir : In i (reducers g cl a)) by (rewrite Er; left; reflexivity).
        unfold reducers in Hir. apply filter_In in Hir. destruct Hir as [Hi Hf].
        apply andb_true_iff in Hf. destruct Hf as [Hd Hm]. apply Nat.eqb_eq in Hd. apply memN_In in Hm.
        pose proof (iS_closed_la g _ _ i a Hrep Hi Hm) as Hcl1. rewrite Hd in Hcl1.
        destruct (pc_complete_cand _ core cl (it_p i) a Hs Hcl1) as [(_ & _ & Hacc)|Hq].
        -- congruence.
        -- destruct (pc_winner_some g cl a _ Hq) as [w Hw]. congruence.
Qed.

Lemma pc_agrees s : In s (states A) ->
  (forall a, action A s a = action (induced g pg) s a) /\
  (forall r, goto A s r = goto (induced g pg) s r).
Proof.
  intros Hs. destruct (pp_state g pg t GF s Hs) as (core & cl & es & Hst & Hes). unfold A. split.
  - intros a. rewrite (pp_action g tp pp pg t TF s core cl es a Hst Hes).
    cbn [action induced]. exact (pc_action_induced s core cl es a Hst Hes).
  - intros r. rewrite (pp_goto g tp pp pg t TF s core cl es r Hst Hes). reflexivity.
Qed.

Lemma pc_vC3 : vC3 g A = vC3 g (induced g pg).
Proof.
  unfold vC3. apply pc_forallb_ext_in. intros s Hs.
  destruct (pc_agrees s Hs) as [Hact Hgo].
  apply pc_forallb_ext_in. intros i _.
  destruct (nth_error (rhs g (it_p i)) (it_d i)) as [X|]; [|reflexivity].
  change (edge A s X) with (edge (induced g pg) s X).
  destruct (edge (induced g pg) s X) as [s'|]; [|reflexivity].
  change (closed A s') with (closed (induced g pg) s'). f_equal.
  destruct X as [a|r]; [rewrite Hact|rewrite Hgo]; reflexivity.
Qed.

Lemma pc_vC4 : vC4 g A = vC4 g (induced g pg).
Proof.
  unfold vC4. apply pc_forallb_ext_in. intros s Hs.
  destruct (pc_agrees s Hs) as [Hact _].
  change (closed A s) with (closed (induced g pg) s).
  apply pc_forallb_ext_in. intros i _.
  destruct (Nat.eqb (it_d i) (length (rhs g (it_p i)))); [|reflexivity].
  destruct (N.eqb (it_p i) (start_prod g)).
  - rewrite Hact. reflexivity.
  - apply pc_forallb_ext_in. intros a _. rewrite Hact. reflexivity.
Qed.

Lemma pc_validC : validC g A = true.
Proof.
  rewrite <- (induced_validC g pg GF CF). unfold validC.
  destruct (first_ref g) as [[nl fs]|]; [|reflexivity].
  change (vC1 g A) with (vC1 g (induced g pg)). change (vC2 g nl fs A) with (vC2 g nl fs (induced g pg)).
  rewrite pc_vC3, pc_vC4. reflexivity.
Qed.

Lemma pc_single : single_candidate g A = true.
Proof.
  change (single_candidate g A) with (single_candidate g (induced g pg)).
  exact (induced_single_candidate g pg GF CF).
Qed.

(* ---- ... and nothing is reported, nothing settled by precedence --------------------------------- *)

Lemma pc_unsettled : prec_unsettled g tp pp (mkBuilt pg t).
Proof.
  intros s a p Hs Hedge Hw. exfalso.
  destruct (pp_state g pg t GF s Hs) as (core & cl & es & Hst & Hes).
  cbn [edge built_automaton b_graph] in Hedge. rewrite (iS_st_edge pg s es (T a) Hes) in Hedge.
  cbn [closed built_automaton b_graph] in Hw. rewrite (iS_st_closed pg s core cl Hst) in Hw.
  destruct (assoc_sym (T a) es) as [tgt|] eqn:Ea; [|apply Hedge; reflexivity].
  exact (pc_no_shift_reduce _ core cl es a tgt p Hst Hes Ea (pp_winner_in g cl a p Hw)).
Qed.

End ConflictFree.
