(* C01 (pipeline) — with the precedences computed from the declarations by the
   mirrors of C03 ([from_yacc_decl]) the hypothesis [prec_consistent] is a theorem. *)
From Coq Require Import List Arith NArith Bool Lia.
From GV Require Import Common.Outcome Base.Grammar Base.Analyses LR.Automaton LR.Validator LR.Spec
  C02.LoopModel C03.Model C03.Spec C03.Small
  C01.Pipeline C01.PipelineSpec C01.PipelineProofs C01.PipelineMain.
Import ListNotations.

Lemma pd_prod_precs g tp pn : forall ps l, prod_precs g tp pn ps = Done l ->
  forall p q, In (p, q) l -> exists t, tp t = Some q.
Proof.
  induction ps as [|p0 ps IH]; intros l H p q Hin; cbn [prod_precs] in H.
  - injection H as H. subst l. destruct Hin.
  - pose proof (prod_prec_rule tp (nth (N.to_nat p0) pn None) (rhs g p0)) as HR.
    destruct (prod_prec_mirror tp (nth (N.to_nat p0) pn None) (rhs g p0)) as [r| |]; cbn [obind] in H;
      try discriminate H.
    destruct (prod_precs g tp pn ps) as [l'| |] eqn:E; cbn [obind] in H; try discriminate H.
    injection H as H. subst l.
    assert (Hr : forall q0, r = Some q0 -> exists t, tp t = Some q0).
    { intros q0 Er. subst r. unfold prod_prec_spec in HR.
      destruct (nth (N.to_nat p0) pn None) as [n|].
      - exists n. symmetry. exact HR.
      - destruct HR as [(t & _ & Et)|[_ F]]; [exists t; symmetry; exact Et|discriminate F]. }
    destruct r as [q0|].
    + destruct Hin as [Hin|Hin].
      * injection Hin as _ Eq. subst q0. exact (Hr q eq_refl).
      * exact (IH l' eq_refl p q Hin).
    + exact (IH l' eq_refl p q Hin).
Qed.

Lemma pd_consistent g ds pn ppl : prod_precs g (token_prec_mirror ds) pn (pidxs g) = Done ppl ->
  prec_consistent (token_prec_mirror ds) (precs_of ppl).
Proof.
  intros H.
  assert (Hc : prec_consistent (token_prec_spec ds) (precs_of ppl)).
  { apply decl_precs_consistent. intros p q Hq. unfold precs_of in Hq. apply assocN_In in Hq.
    destruct (pd_prod_precs g _ pn _ _ H p q Hq) as [t Ht]. exists t.
    rewrite <- (token_prec_mirror_meets_spec ds t). exact Ht. }
  intros a p t q Ha Hp. rewrite (token_prec_mirror_meets_spec ds a) in Ha. exact (Hc a p t q Ha Hp).
Qed.

Lemma pd_unpack g ds pn max_st fuel orders tos b :
  from_yacc_decl g ds pn max_st fuel orders tos = Done (Some b) ->
  exists ppl, prec_consistent (token_prec_mirror ds) (precs_of ppl) /\
    from_yacc_mirror g (token_prec_mirror ds) (precs_of ppl) max_st fuel orders tos = Done (Some b).
Proof.
  unfold from_yacc_decl. cbv zeta. intros H.
  destruct (prod_precs g (token_prec_mirror ds) pn (pidxs g)) as [ppl| |] eqn:E; cbn [obind] in H;
    try discriminate H.
  exists ppl. split; [exact (pd_consistent g ds pn ppl E)|exact H].
Qed.

Lemma construction_decl_sound : construction_decl_sound_stmt.
Proof.
  intros g ds pn max_st fuel orders tos b Hwf H.
  destruct (pd_unpack g ds pn max_st fuel orders tos b H) as (ppl & Hcons & H').
  destruct (construction_validated g _ _ max_st fuel orders tos b Hwf Hcons H') as [HS HE].
  split; [exact HS|]. split; [exact HE|].
  exact (construction_sound g _ _ max_st fuel orders tos b Hwf Hcons H').
Qed.

Lemma construction_decl_complete : construction_decl_complete_stmt.
Proof.
  intros g pn max_st fuel orders tos b Hwf H Hrep.
  destruct (pd_unpack g [] pn max_st fuel orders tos b H) as (ppl & Hcons & H').
  assert (Hcf : conflict_free_report g (token_prec_mirror []) (precs_of ppl) b).
  { split; [exact Hrep|]. intros s a p _ _ _. left. reflexivity. }
  split.
  - exact (proj1 (construction_conflict_free g _ _ max_st fuel orders tos b Hwf Hcons H' Hcf)).
  - exact (construction_accepts_sentences g _ _ max_st fuel orders tos b Hwf Hcons H' Hcf).
Qed.
