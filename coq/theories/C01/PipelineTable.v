(* C01 (pipeline) — what the mirror of StateTable::new is given when it is run
   on a graph of pager_mirror, and what C03's theorems then say about its
   result: every hypothesis of [table_mirror_meets_spec] (states are maps,
   dots in range, contexts are sets, edge maps, end of input never shifted,
   exactly one accepting state) is DISCHARGED from the facts C02 proves about
   the graph. *)
From Coq Require Import List Arith NArith Bool Lia Permutation.
From GV Require Import Common.Outcome Base.Grammar Base.GrammarFacts Base.Analyses Base.AnalysesProofs
  LR.Automaton LR.Validator LR.Agree LR.CloseMirror LR.CloseSpec LR.CloseProofs
  C02.Model C02.Spec C02.PagerSpec C02.PagerProofsBridge C02.PagerProofsMain C02.PagerProofsExists
  C02.Lr1Model C02.Lr1Proofs C02.LoopModel C02.LoopSpec C02.LoopEdgeProofs
  C02.InducedModel C02.InducedSpec C02.InducedSProofs
  C03.Model C03.Spec C03.Lists C03.Small C03.Proofs
  C01.Pipeline C01.PipelineSpec C01.PipelineEdges.
Import ListNotations.

(* ---- oracle orders are permutations ----------------------------------------------------- *)

Lemma pt_extract_perm {A : Type} (f : A -> bool) : forall l x r,
  extract f l = Some (x, r) -> Permutation l (x :: r).
Proof.
  induction l as [|y l IH]; intros x r H; cbn [extract] in H; [discriminate H|].
  destruct (f y).
  - injection H as E1 E2. subst x r. apply Permutation_refl.
  - destruct (extract f l) as [[z r']|] eqn:E; [|discriminate H].
    injection H as E1 E2. subst x r.
    eapply Permutation_trans; [apply perm_skip; exact (IH z r' eq_refl)|]. apply perm_swap.
Qed.

Lemma pt_pick_order_perm {K A : Type} (is : K -> A -> bool) : forall ks l,
  Permutation (pick_order is ks l) l.
Proof.
  induction ks as [|k ks IH]; intros l; cbn [pick_order]; [apply Permutation_refl|].
  destruct (extract (is k) l) as [[x r]|] eqn:E.
  - apply Permutation_sym. eapply Permutation_trans; [exact (pt_extract_perm _ _ _ _ E)|].
    apply perm_skip. apply Permutation_sym. apply IH.
  - apply IH.
Qed.

(* ---- the canonical (list order) input ------------------------------------------------------ *)

Definition st_items (g : grammar) (cl : itemset) : list item := map (norm_item g) cl.
Definition st_edges (es : list (sym * nat)) : list (sym * N) := map (fun e => (fst e, N.of_nat (snd e))) es.

Definition decl_of (g : grammar) (pg : pgraph) : list (list item * list (sym * N)) :=
  table_input g (pg_states pg) (pg_edges pg) [].

Lemma pt_table_input_perm g : forall sts edges tos,
  Forall2 (fun o d => Permutation (fst o) (fst d) /\ Permutation (snd o) (snd d))
          (table_input g sts edges tos) (table_input g sts edges []).
Proof.
  induction sts as [|st sts IH]; intros [|es edges] tos; cbn [table_input]; try constructor.
  - cbn [fst snd hd]. split.
    + unfold state_items. cbn [pick_order]. apply pt_pick_order_perm.
    + unfold state_edges. cbn [pick_order]. apply pt_pick_order_perm.
  - cbn [tl]. apply IH.
Qed.

Lemma pt_table_input_nth g : forall sts edges s st,
  nth_error (table_input g sts edges []) s = Some st <->
  exists c es, nth_error sts s = Some c /\ nth_error edges s = Some es /\
               st = (st_items g (snd c), st_edges es).
Proof.
  induction sts as [|c0 sts IH]; intros [|es0 edges] s st; cbn [table_input].
  - split; [destruct s; discriminate|]. intros (c & es & H & _). destruct s; discriminate H.
  - split; [destruct s; discriminate|]. intros (c & es & H & _). destruct s; discriminate H.
  - split; [destruct s; discriminate|]. intros (c & es & _ & H & _). destruct s; discriminate H.
  - destruct s as [|s]; cbn [nth_error hd tl fst snd].
    + unfold state_items, state_edges. cbn [pick_order]. split.
      * intros H. injection H as H. subst st. exists c0, es0. repeat split.
      * intros (c & es & H1 & H2 & H3). injection H1 as H1. injection H2 as H2. subst c es st. reflexivity.
    + apply IH.
Qed.

Lemma pt_table_input_length g : forall sts edges tos, length edges = length sts ->
  length (table_input g sts edges tos) = length sts.
Proof.
  induction sts as [|c sts IH]; intros [|es edges] tos H; cbn [table_input length] in *; try lia.
  rewrite IH; lia.
Qed.

(* ---- contexts as sorted sets ------------------------------------------------------------------ *)

Lemma pt_NoDup_tidxs g : NoDup (tidxs g).
Proof.
  unfold tidxs. apply NoDup_map_inj; [|apply seq_NoDup].
  intros x y _ _ E. apply Nat2N.inj. exact E.
Qed.

Lemma pt_memN_set_bits g la a : (forall x, In x la -> (x < ntoks g)%N) ->
  memN a (set_bits_of g la) = memN a la.
Proof.
  intros Hr. apply eq_iff_eq_true. unfold set_bits_of. rewrite !memN_In, filter_In, memN_In. split.
  - intros [_ H]. exact H.
  - intros H. split; [|exact H]. apply l1_In_tidxs. exact (Hr a H).
Qed.

Definition la_in_range (g : grammar) (C : itemset) : Prop :=
  forall i, In i C -> forall x, In x (it_la i) -> (x < ntoks g)%N.

Lemma pt_items_ok_range g C : items_ok g C = true -> la_in_range g C.
Proof.
  intros H i Hi x Hx. apply items_ok_spec in H. destruct H as [_ H].
  destruct i as [[p d] la]. exact (proj2 (proj2 (H p d la Hi)) x Hx).
Qed.

Lemma pt_red_cands_norm g a : forall C, la_in_range g C ->
  red_cands g (st_items g C) a = red_cands g C a.
Proof.
  induction C as [|i C IH]; intros Hr; [reflexivity|].
  assert (Hr' : la_in_range g C) by (intros j Hj; apply Hr; right; exact Hj).
  unfold red_cands, st_items in *. cbn [map filter].
  assert (E : complete g (norm_item g i) && memN a (it_la (norm_item g i)) &&
              negb (is_acc g (it_p (norm_item g i)) a) =
              complete g i && memN a (it_la i) && negb (is_acc g (it_p i) a)).
  { unfold complete. cbn [norm_item it_p it_d it_la fst snd].
    rewrite (pt_memN_set_bits g _ a (Hr i (or_introl eq_refl))). reflexivity. }
  rewrite E. destruct (complete g i && memN a (it_la i) && negb (is_acc g (it_p i) a)); cbn [map].
  - rewrite (IH Hr'). reflexivity.
  - exact (IH Hr').
Qed.

Lemma pt_acc_cand_norm g a : forall C, la_in_range g C ->
  acc_cand g (st_items g C) a = acc_cand g C a.
Proof.
  induction C as [|i C IH]; intros Hr; [reflexivity|].
  assert (Hr' : la_in_range g C) by (intros j Hj; apply Hr; right; exact Hj).
  unfold acc_cand, st_items in *. cbn [map existsb]. rewrite (IH Hr'). f_equal.
  unfold complete. cbn [norm_item it_p it_d it_la fst snd].
  rewrite (pt_memN_set_bits g _ a (Hr i (or_introl eq_refl))). reflexivity.
Qed.

Lemma pt_cell_spec_norm g tp pp C edges a : la_in_range g C ->
  cell_spec g tp pp (st_items g C) edges a = cell_spec g tp pp C edges a.
Proof.
  intros Hr. unfold cell_spec, winner. rewrite (pt_acc_cand_norm g a C Hr), (pt_red_cands_norm g a C Hr).
  reflexivity.
Qed.

Lemma pt_sr_spec_norm g tp pp s C edges : la_in_range g C ->
  sr_spec g tp pp s (st_items g C) edges = sr_spec g tp pp s C edges.
Proof.
  intros Hr. unfold sr_spec. apply flat_map_ext. intros [X t]. cbn [fst snd].
  destruct X as [a|r]; [|reflexivity]. unfold winner. rewrite (pt_red_cands_norm g a C Hr). reflexivity.
Qed.

(* membership in the candidate lists *)
Lemma pt_in_red_cands g C a p :
  In p (red_cands g C a) <->
  exists i, In i C /\ it_p i = p /\ it_d i = length (rhs g p) /\ In a (it_la i) /\ is_acc g p a = false.
Proof.
  unfold red_cands. rewrite in_map_iff. split.
  - intros (i & Ep & Hi). apply filter_In in Hi. destruct Hi as [Hi Hf].
    apply andb_true_iff in Hf. destruct Hf as [Hf Hacc]. apply andb_true_iff in Hf. destruct Hf as [Hc Hm].
    unfold complete in Hc. apply Nat.eqb_eq in Hc. apply memN_In in Hm. apply negb_true_iff in Hacc.
    subst p. exists i. repeat split; assumption.
  - intros (i & Hi & Ep & Hd & Ha & Hacc). exists i. split; [exact Ep|]. apply filter_In. split; [exact Hi|].
    subst p. unfold complete. rewrite Hd, Nat.eqb_refl, (proj2 (memN_In a _) Ha), Hacc. reflexivity.
Qed.

Lemma pt_acc_cand_true g C a :
  acc_cand g C a = true <->
  exists i, In i C /\ it_p i = start_prod g /\ it_d i = length (rhs g (start_prod g)) /\
            In a (it_la i) /\ a = eof g.
Proof.
  unfold acc_cand. rewrite existsb_exists. split.
  - intros (i & Hi & Hf). apply andb_true_iff in Hf. destruct Hf as [Hf Hacc].
    apply andb_true_iff in Hf. destruct Hf as [Hc Hm]. unfold complete in Hc. apply Nat.eqb_eq in Hc.
    apply memN_In in Hm. unfold is_acc in Hacc. apply andb_true_iff in Hacc. destruct Hacc as [E1 E2].
    apply N.eqb_eq in E1. apply N.eqb_eq in E2. exists i. rewrite <- E1. repeat split; assumption.
  - intros (i & Hi & Ep & Hd & Ha & Ea). exists i. split; [exact Hi|].
    unfold complete, is_acc. rewrite Ep, Hd, Nat.eqb_refl, (proj2 (memN_In a _) Ha), Ea, !N.eqb_refl. reflexivity.
Qed.

(* ---- the states of a graph are well-formed inputs of the table mirror --------------------------- *)

Lemma pt_item_key_norm g i : item_key (norm_item g i) = fst i.
Proof. destruct i as [[p d] la]. reflexivity. Qed.

Lemma pt_wf_state g pg s core closed es : graph_facts g pg -> ENoDup (pg_edges pg) ->
  nth_error (pg_states pg) s = Some (core, closed) -> nth_error (pg_edges pg) s = Some es ->
  wf_state g (st_items g closed) (st_edges es).
Proof.
  intros GF HE Hs Hes. pose proof (gf_wf g pg GF) as Hwf.
  destruct (gf_reach g pg GF s core closed Hs) as (_ & Hrep & Hok).
  pose proof (proj1 (items_ok_spec g closed) Hok) as [Hnd Hrange].
  unfold wf_state. split; [|split; [|split]].
  - unfold st_items. rewrite map_map.
    rewrite (map_ext _ fst (pt_item_key_norm g)). exact Hnd.
  - intros i Hi. unfold st_items in Hi. apply in_map_iff in Hi. destruct Hi as (i0 & E & Hi0). subst i.
    destruct i0 as [[p d] la]. cbn [norm_item it_p it_d it_la fst snd]. split.
    + exact (proj1 (proj2 (Hrange p d la Hi0))).
    + unfold set_bits_of. apply NoDup_filter. apply pt_NoDup_tidxs.
  - unfold st_edges. rewrite map_map. cbn [fst].
    exact (proj1 (Forall_forall _ _) HE es (nth_error_In _ _ Hes)).
  - unfold st_edges. rewrite map_map. cbn [fst]. intros Hin.
    apply in_map_iff in Hin. destruct Hin as ([X t] & EX & Hin). cbn [fst] in EX. subst X.
    assert (Ha : assoc_sym (T (eof g)) es = Some t).
    { apply pe_assoc_of_in; [|exact Hin]. exact (proj1 (Forall_forall _ _) HE es (nth_error_In _ _ Hes)). }
    destruct (iS_edge g pg s core closed es _ t GF Hs Hes Ha) as (_ & _ & _ & _ & _ & (p & d & _ & Hn) & _).
    apply (wf_rhs_no_eof g p Hwf (nth_error_rhs_is_prod g p d _ Hn)).
    apply (nth_error_In _ d). exact Hn.
Qed.

Lemma pt_decl_wf g pg : graph_facts g pg -> ENoDup (pg_edges pg) ->
  Forall (fun st => wf_state g (fst st) (snd st)) (decl_of g pg).
Proof.
  intros GF HE. apply Forall_forall. intros st Hin.
  apply In_nth_error in Hin. destruct Hin as [s Hs].
  apply pt_table_input_nth in Hs. destruct Hs as ([core closed] & es & H1 & H2 & E). subst st.
  cbn [fst snd]. exact (pt_wf_state g pg s core closed es GF HE H1 H2).
Qed.

(* ---- exactly one accepting state --------------------------------------------------------------- *)

Lemma pt_filter_length_one {A : Type} (f : A -> bool) : forall (l : list A) k x,
  nth_error l k = Some x -> f x = true ->
  (forall k' y, nth_error l k' = Some y -> f y = true -> k' = k) ->
  length (filter f l) = 1%nat.
Proof.
  induction l as [|y l IH]; intros k x Hk Hf Hu; [destruct k; discriminate Hk|].
  cbn [filter]. destruct k as [|k].
  - cbn [nth_error] in Hk. injection Hk as Hk. subst y. rewrite Hf. cbn [length]. f_equal.
    assert (Hnone : forall z, In z l -> f z = false).
    { intros z Hz. destruct (f z) eqn:Ez; [|reflexivity].
      apply In_nth_error in Hz. destruct Hz as [j Hj]. pose proof (Hu (S j) z Hj Ez). discriminate. }
    clear -Hnone. induction l as [|z l IH]; [reflexivity|]. cbn [filter].
    rewrite (Hnone z (or_introl eq_refl)). apply IH. intros w Hw. apply Hnone. right. exact Hw.
  - destruct (f y) eqn:Ey.
    + pose proof (Hu 0%nat y eq_refl Ey). discriminate.
    + apply (IH k x Hk Hf). intros k' z Hz Hfz. pose proof (Hu (S k') z Hz Hfz) as E. lia.
Qed.

Lemma pt_reach_pred edges t : pg_reach edges t -> t <> 0%nat ->
  exists s es X, nth_error edges s = Some es /\ assoc_sym X es = Some t.
Proof.
  intros H. destruct H as [|s es X t _ En Ha]; intros Hne; [contradiction|].
  exists s, es, X. split; assumption.
Qed.

(* the state reached from the start state on the user's start rule *)
Lemma pt_accept_state g pg : graph_facts g pg ->
  exists S0 core0 closed0 es0 t core_t closed_t,
    rhs g (start_prod g) = [R S0] /\
    nth_error (pg_states pg) 0 = Some (core0, closed0) /\ nth_error (pg_edges pg) 0 = Some es0 /\
    assoc_sym (R S0) es0 = Some t /\ nth_error (pg_states pg) t = Some (core_t, closed_t) /\
    acc_cand g closed_t (eof g) = true.
Proof.
  intros GF. pose proof (gf_wf g pg GF) as Hwf.
  destruct (iS_rhs_start g Hwf) as [S0 HS0].
  destruct (gf_start g pg GF) as [closed0 H0].
  assert (Hes0 : exists es0, nth_error (pg_edges pg) 0 = Some es0).
  { apply le_nth_error_ex. rewrite (gf_len g pg GF). exact (le_nth_error_lt _ _ _ H0). }
  destruct Hes0 as [es0 Hes0].
  destruct (gf_reach g pg GF 0%nat _ _ H0) as (Hpr & _ & _).
  destruct (goto_exists g (start_kernel g) Hwf (pager_reachable_items_ok g _ Hwf Hpr) (R S0)) as (G & Hg & _).
  assert (Hc0 : lr0_closure_rel g (start_kernel g) (start_prod g) 0%nat).
  { apply (c0_base g _ _ _ [eof g]). left. reflexivity. }
  assert (Hl0 : lr1_closure_rel g (start_kernel g) (start_prod g) 0%nat (eof g)).
  { apply (c1_base g _ _ _ [eof g]); left; reflexivity. }
  assert (Hn0 : nth_error (rhs g (start_prod g)) 0 = Some (R S0)) by (rewrite HS0; reflexivity).
  assert (HkG : has_core G (start_prod g, 1%nat)).
  { apply (proj1 Hg). exists 0%nat. split; [reflexivity|]. split; assumption. }
  assert (HlG : has_la G (start_prod g, 1%nat) (eof g)).
  { apply (proj2 Hg). exists 0%nat. split; [reflexivity|]. split; assumption. }
  destruct (gf_complete g pg GF 0%nat _ closed0 es0 (R S0) G H0 Hes0 Hg (ex_intro _ _ HkG))
    as (t & core_t & closed_t & Ha & Ht & [_ Hsub]).
  exists S0, (start_kernel g), closed0, es0, t, core_t, closed_t.
  split; [exact HS0|]. split; [exact H0|]. split; [exact Hes0|]. split; [exact Ha|]. split; [exact Ht|].
  destruct (gf_reach g pg GF t _ _ Ht) as (_ & (_ & _ & Hrep1) & _).
  pose proof (Hsub _ _ HlG) as Hla. apply has_la_pd in Hla. destruct Hla as (la & Hin & Hla).
  assert (Hcl : lr1_closure_rel g core_t (start_prod g) 1%nat (eof g)) by (apply (c1_base g _ _ _ la); assumption).
  apply Hrep1 in Hcl. apply has_la_pd in Hcl. destruct Hcl as (la' & Hin' & Hla').
  apply pt_acc_cand_true. exists (start_prod g, 1%nat, la').
  cbn [it_p it_d it_la fst snd]. rewrite HS0. repeat split; assumption.
Qed.

Lemma pt_accept_unique g pg k core closed : graph_facts g pg ->
  (forall j, (j < length (pg_states pg))%nat -> pg_reach (pg_edges pg) j) ->
  nth_error (pg_states pg) k = Some (core, closed) -> acc_cand g closed (eof g) = true ->
  forall S0 es0, rhs g (start_prod g) = [R S0] -> nth_error (pg_edges pg) 0 = Some es0 ->
    assoc_sym (R S0) es0 = Some k.
Proof.
  intros GF HR Hk Hacc S0 es0 HS0 Hes0. pose proof (gf_wf g pg GF) as Hwf.
  apply pt_acc_cand_true in Hacc. destruct Hacc as (i & Hi & Ep & Hd & _ & _).
  rewrite HS0 in Hd. cbn [length] in Hd.
  destruct (gf_reach g pg GF k _ _ Hk) as (_ & Hrep & _).
  pose proof (iS_closed_core g _ _ i Hrep Hi) as Hcl. rewrite Ep, Hd in Hcl.
  apply iS_lr0_S in Hcl.
  assert (Hk0 : k <> 0%nat).
  { intros E. subst k. destruct (gf_start g pg GF) as [c0 H0]. rewrite H0 in Hk. injection Hk as E1 _.
    subst core. apply iS_start_kernel_core in Hcl. discriminate Hcl. }
  destruct (pt_reach_pred _ k (HR k (le_nth_error_lt _ _ _ Hk)) Hk0) as (s & es & X & Hes & Ha).
  destruct (le_nth_error_ex (pg_states pg) s) as ([core_s closed_s] & Hs).
  { rewrite <- (gf_len g pg GF). exact (le_nth_error_lt _ _ _ Hes). }
  destruct (iS_edge g pg s core_s closed_s es X k GF Hs Hes Ha) as (ck & clk & Hk' & _ & _ & _ & Hadv).
  rewrite Hk in Hk'. injection Hk' as E1 E2. subst ck clk.
  destruct (Hadv _ _ Hcl) as (d & Ed & Hcl0 & Hn). injection Ed as Ed. subst d.
  destruct (iS_closed_dot0 g pg s core_s closed_s _ GF Hs Hcl0) as [[Es _]|[Nq _]]; [|contradiction].
  subst s. rewrite Hes0 in Hes. injection Hes as Hes. subst es.
  rewrite HS0 in Hn. cbn [nth_error] in Hn. injection Hn as Hn. subst X. exact Ha.
Qed.

Lemma pt_one_accept g pg : graph_facts g pg ->
  (forall j, (j < length (pg_states pg))%nat -> pg_reach (pg_edges pg) j) ->
  length (filter (fun st => acc_cand g (fst st) (eof g)) (decl_of g pg)) = 1%nat.
Proof.
  intros GF HR.
  destruct (pt_accept_state g pg GF) as (S0 & core0 & closed0 & es0 & t & core_t & closed_t &
                                         HS0 & H0 & Hes0 & Ha & Ht & Hacc).
  destruct (le_nth_error_ex (pg_edges pg) t) as (es_t & Hest).
  { rewrite (gf_len g pg GF). exact (le_nth_error_lt _ _ _ Ht). }
  apply (pt_filter_length_one _ _ t (st_items g closed_t, st_edges es_t)).
  - apply pt_table_input_nth. exists (core_t, closed_t), es_t. repeat split; assumption.
  - cbn [fst]. destruct (gf_reach g pg GF t _ _ Ht) as (_ & _ & Hok).
    rewrite (pt_acc_cand_norm g _ _ (pt_items_ok_range g _ Hok)). exact Hacc.
  - intros k' st Hk' Hf. apply pt_table_input_nth in Hk'.
    destruct Hk' as ([core' closed'] & es' & H1 & H2 & E). subst st. cbn [fst snd] in Hf.
    destruct (gf_reach g pg GF k' _ _ H1) as (_ & _ & Hok').
    rewrite (pt_acc_cand_norm g _ _ (pt_items_ok_range g _ Hok')) in Hf.
    pose proof (pt_accept_unique g pg k' core' closed' GF HR H1 Hf S0 es0 HS0 Hes0) as E.
    rewrite Ha in E. injection E as E. symmetry. exact E.
Qed.

(* ---- goto rows and state_actions bits of the table mirror (C03's table theorem does not state them) - *)

Definition row_ok (g : grammar) (row : trow) (d : list item * list (sym * N)) : Prop :=
  (forall r t, In (r, t) (row_gotos row) <-> In (R r, t) (snd d)) /\
  (forall a, In a (row_sa row) <-> has_candidate g (fst d) (snd d) a = true).

Lemma pt_states_loop_rows g tp pp : prec_consistent tp pp ->
  forall orders decl,
    Forall2 (fun o d => Permutation (fst o) (fst d) /\ Permutation (snd o) (snd d)) orders decl ->
    Forall (fun st => wf_state g (fst st) (snd st)) decl ->
    forall n rows0 rr0 sr0 fin0 rows' rr' sr' fin', acc_ok g fin0 decl ->
    states_loop g tp pp n orders rows0 rr0 sr0 fin0 = Done (Some (rows', rr', sr', fin')) ->
    exists rows, rows' = rows0 ++ rows /\ Forall2 (row_ok g) rows decl.
Proof.
  intros Hcons orders decl HF. induction HF as [|[io eo] [items edges] orders decl [Hpi Hpe] HF IH];
    intros Hwf n rows0 rr0 sr0 fin0 rows' rr' sr' fin' Hacc H.
  - cbn [states_loop] in H. injection H as E1 _ _ _. subst rows'. exists []. split; [rewrite app_nil_r; reflexivity|constructor].
  - simpl in Hpi, Hpe. inversion Hwf as [|? ? Hwf1 Hwf']; subst. simpl in Hwf1.
    cbn [states_loop] in H.
    assert (Hfin : fin0 = None \/ acc_cand g items (eof g) = false).
    { destruct fin0 as [f|]; [right | left; reflexivity]. unfold acc_ok in Hacc. simpl in Hacc.
      unfold accst at 1 in Hacc. simpl in Hacc. destruct (acc_cand g items (eof g)); [discriminate | reflexivity]. }
    pose proof (state_mirror_meets_spec g tp pp (N.of_nat n) items edges io eo rr0 sr0 fin0 Hwf1 Hcons Hpi Hpe Hfin) as HS.
    destruct (state_mirror g tp pp (N.of_nat n) io eo (init_tstate rr0 sr0 fin0)) as [[st|]| |];
      try contradiction; try discriminate H.
    destruct HS as (_ & _ & _ & _ & Hfinv & Hgot & Hsa).
    assert (Hacc' : acc_ok g (t_fin st) decl).
    { rewrite Hfinv. unfold acc_ok in *. simpl filter in Hacc.
      change (accst g (items, edges)) with (acc_cand g items (eof g)) in Hacc.
      destruct (acc_cand g items (eof g)).
      - destruct fin0; [discriminate|]. simpl in Hacc. destruct (filter (accst g) decl); [reflexivity | simpl in Hacc; lia].
      - exact Hacc. }
    destruct (IH Hwf' (S n) _ _ _ _ rows' rr' sr' fin' Hacc' H) as (rows & E & Hrows).
    exists (mkRow (t_cells st) (t_sa st) (t_gotos st) :: rows). split.
    + rewrite E, <- app_assoc. reflexivity.
    + constructor; [|exact Hrows]. split; cbn [row_gotos row_sa fst snd]; assumption.
Qed.

(* ---- everything C03 says about the table built on a graph of pager_mirror ------------------------ *)

Record table_facts (g : grammar) (tp pp : precs) (pg : pgraph) (t : ttable) : Prop := mkTableFacts {
  tf_len : length (tb_rows t) = length (pg_states pg);
  tf_cell : forall s core closed es a,
      nth_error (pg_states pg) s = Some (core, closed) -> nth_error (pg_edges pg) s = Some es ->
      tb_cell t s a = cell_spec g tp pp closed (st_edges es) a;
  tf_goto : forall s core closed es r,
      nth_error (pg_states pg) s = Some (core, closed) -> nth_error (pg_edges pg) s = Some es ->
      tb_goto t s r = option_map N.of_nat (assoc_sym (R r) es);
  tf_noar : forall s core closed a,
      nth_error (pg_states pg) s = Some (core, closed) -> ~ accept_reduce_cell g closed a;
  tf_sr : forall s core closed es e,
      nth_error (pg_states pg) s = Some (core, closed) -> nth_error (pg_edges pg) s = Some es ->
      In e (sr_spec g tp pp (N.of_nat s) closed (st_edges es)) -> In e (tb_sr t);
  tf_rr : forall s core closed a,
      nth_error (pg_states pg) s = Some (core, closed) ->
      (2 <= length (red_cands g closed a))%nat -> tb_rr t <> [];
  tf_sr_sub : forall e, In e (tb_sr t) ->
      exists s core closed es,
        nth_error (pg_states pg) s = Some (core, closed) /\ nth_error (pg_edges pg) s = Some es /\
        In e (sr_spec g tp pp (N.of_nat s) closed (st_edges es));
  tf_rr_sub : forall r, In r (tb_rr t) ->
      exists s core closed,
        nth_error (pg_states pg) s = Some (core, closed) /\
        (2 <= length (red_cands g closed (rr_tok r)))%nat;
  tf_sa : forall s core closed es row a,
      nth_error (pg_states pg) s = Some (core, closed) -> nth_error (pg_edges pg) s = Some es ->
      nth_error (tb_rows t) s = Some row ->
      (In a (row_sa row) <-> has_candidate g closed (st_edges es) a = true)
}.

Lemma Forall2_nth_error_r {A B : Type} (P : A -> B -> Prop) (l1 : list A) (l2 : list B) :
  Forall2 P l1 l2 -> forall k y, nth_error l2 k = Some y -> exists x, nth_error l1 k = Some x /\ P x y.
Proof.
  intros H. induction H as [|x y l1 l2 Hxy H IH]; intros k z Hk; [destruct k; discriminate Hk|].
  destruct k as [|k]; cbn [nth_error] in *.
  - injection Hk as Hk. subst z. exists x. split; [reflexivity|exact Hxy].
  - exact (IH k z Hk).
Qed.

Lemma pt_assoc_edges X es : assoc_sym X (st_edges es) = option_map N.of_nat (assoc_sym X es).
Proof. unfold st_edges. apply (le_assoc_map N.of_nat X es). Qed.

Lemma pt_assocN_of_in {A : Type} (k : N) (v : A) : forall l, In (k, v) l -> exists v', assocN k l = Some v'.
Proof.
  induction l as [|[k' w] l IH]; intros Hin; [destruct Hin|]. cbn [assocN].
  destruct (N.eqb_spec k k') as [E|E]; [exists w; reflexivity|].
  destruct Hin as [Hin|Hin]; [injection Hin as E1 _; congruence|]. exact (IH Hin).
Qed.

Lemma pt_in_sr_spec_all g tp pp : forall decl n k st e, nth_error decl k = Some st ->
  In e (sr_spec g tp pp (N.of_nat (n + k)) (fst st) (snd st)) ->
  In e (flat_map (fun sd => sr_spec g tp pp (N.of_nat (fst sd)) (fst (snd sd)) (snd (snd sd)))
                 (combine (seq n (length decl)) decl)).
Proof.
  induction decl as [|st0 decl IH]; intros n k st e Hk He; [destruct k; discriminate Hk|].
  cbn [length seq combine flat_map fst snd]. apply in_or_app. destruct k as [|k].
  - cbn [nth_error] in Hk. injection Hk as Hk. subst st0. left. rewrite Nat.add_0_r in He. exact He.
  - right. apply (IH (S n) k st e Hk). replace (S n + k)%nat with (n + S k)%nat by lia. exact He.
Qed.

Lemma pt_in_combine_seq {A : Type} : forall (l : list A) n k x,
  In (k, x) (combine (seq n (length l)) l) -> exists j, k = (n + j)%nat /\ nth_error l j = Some x.
Proof.
  induction l as [|y l IH]; intros n k x Hin; [destruct Hin|].
  cbn [length seq combine] in Hin. destruct Hin as [Hin|Hin].
  - injection Hin as E1 E2. subst k y. exists 0%nat. split; [lia|reflexivity].
  - destruct (IH (S n) k x Hin) as (j & Ej & Hj). exists (S j). split; [lia|exact Hj].
Qed.

Lemma table_facts_of_mirror g tp pp pg tos t : graph_facts g pg -> ENoDup (pg_edges pg) ->
  (forall j, (j < length (pg_states pg))%nat -> pg_reach (pg_edges pg) j) ->
  prec_consistent tp pp ->
  table_mirror g tp pp (table_input g (pg_states pg) (pg_edges pg) tos) = Done (Some t) ->
  table_facts g tp pp pg t.
Proof.
  intros GF HE HR Hcons Ht.
  pose proof (pt_decl_wf g pg GF HE) as Hwf.
  pose proof (pt_table_input_perm g (pg_states pg) (pg_edges pg) tos) as Hperm.
  pose proof (pt_one_accept g pg GF HR) as Hone.
  fold (decl_of g pg) in Hperm.
  pose proof (table_mirror_meets_spec g tp pp (decl_of g pg) _ Hwf Hcons Hperm Hone) as HT.
  rewrite Ht in HT. destruct HT as (Hnoar & Hlen & Hcell & Hsr & (rrs & Hrr & Hrrlen & Hrrs) & _).
  (* the rows *)
  assert (Hrows : Forall2 (row_ok g) (tb_rows t) (decl_of g pg)).
  { unfold table_mirror in Ht.
    destruct (states_loop g tp pp 0 (table_input g (pg_states pg) (pg_edges pg) tos) [] [] [] None)
      as [[[[[rows' rr'] sr'] fin']|]| |] eqn:EL; try discriminate Ht.
    destruct fin' as [f|]; [|discriminate Ht]. injection Ht as Ht. subst t. cbn [tb_rows].
    assert (Hacc : acc_ok g None (decl_of g pg)).
    { unfold acc_ok. change (fun st => acc_cand g (fst st) (eof g)) with (accst g) in Hone. lia. }
    destruct (pt_states_loop_rows g tp pp Hcons _ _ Hperm Hwf 0%nat [] [] [] None rows' rr' sr' (Some f) Hacc EL)
      as (rows & E & Hrows). simpl in E. subst rows'. exact Hrows. }
  assert (Hdecl : forall s core closed es, nth_error (pg_states pg) s = Some (core, closed) ->
            nth_error (pg_edges pg) s = Some es ->
            nth_error (decl_of g pg) s = Some (st_items g closed, st_edges es)).
  { intros s core closed es H1 H2. apply pt_table_input_nth. exists (core, closed), es. repeat split; assumption. }
  assert (Hrange : forall s core closed, nth_error (pg_states pg) s = Some (core, closed) -> la_in_range g closed).
  { intros s core closed H1. destruct (gf_reach g pg GF s _ _ H1) as (_ & _ & Hok). exact (pt_items_ok_range g _ Hok). }
  assert (Hes_of : forall s core closed, nth_error (pg_states pg) s = Some (core, closed) ->
            exists es, nth_error (pg_edges pg) s = Some es).
  { intros s core closed H1. apply le_nth_error_ex. rewrite (gf_len g pg GF). exact (le_nth_error_lt _ _ _ H1). }
  constructor.
  - rewrite Hlen. unfold decl_of. apply pt_table_input_length. exact (gf_len g pg GF).
  - intros s core closed es a H1 H2.
    rewrite (Hcell s _ a (Hdecl s core closed es H1 H2)). cbn [fst snd].
    apply pt_cell_spec_norm. exact (Hrange s core closed H1).
  - intros s core closed es r H1 H2.
    pose proof (Hdecl s core closed es H1 H2) as Hd.
    destruct (Forall2_nth_error_r _ _ _ Hrows s _ Hd) as (row & Hrow & [Hg _]). cbn [snd] in Hg.
    unfold tb_goto. rewrite Hrow.
    assert (Hnd : NoDup (map fst (st_edges es))).
    { exact (proj1 (proj2 (proj2 (pt_wf_state g pg s core closed es GF HE H1 H2)))). }
    rewrite <- pt_assoc_edges.
    destruct (assoc_sym (R r) (st_edges es)) as [tgt|] eqn:Ea.
    + apply (assoc_sym_In (R r) tgt _ Hnd) in Ea. apply Hg in Ea.
      destruct (pt_assocN_of_in r tgt _ Ea) as [v' Hv']. rewrite Hv'. f_equal.
      apply assocN_In in Hv'. apply Hg in Hv'. apply (assoc_sym_In (R r) v' _ Hnd) in Hv'.
      apply Hg in Ea. apply (assoc_sym_In (R r) tgt _ Hnd) in Ea. congruence.
    + destruct (assocN r (row_gotos row)) as [v'|] eqn:Ev; [|reflexivity].
      apply assocN_In in Ev. apply Hg in Ev. apply (assoc_sym_In (R r) v' _ Hnd) in Ev. congruence.
  - intros s core closed a H1 [Hac Hrc]. destruct (Hes_of s core closed H1) as [es H2].
    apply (Hnoar s _ a (Hdecl s core closed es H1 H2)). cbn [fst]. split.
    + rewrite (pt_acc_cand_norm g a closed (Hrange s core closed H1)). exact Hac.
    + rewrite (pt_red_cands_norm g a closed (Hrange s core closed H1)). exact Hrc.
  - intros s core closed es e H1 H2 He.
    eapply Permutation_in; [apply Permutation_sym; exact Hsr|].
    unfold sr_spec_all. apply (pt_in_sr_spec_all g tp pp (decl_of g pg) 0 s _ e (Hdecl s core closed es H1 H2)).
    cbn [fst snd]. rewrite (pt_sr_spec_norm g tp pp _ closed _ (Hrange s core closed H1)). exact He.
  - intros s core closed a H1 H2len Hnil. destruct (Hes_of s core closed H1) as [es H2].
    destruct (Hrrs s _ (Hdecl s core closed es H1 H2)) as (rr & Hrrs_s & (_ & _ & Hcount)).
    specialize (Hcount a). cbn [fst] in Hcount. unfold rr_count_spec in Hcount.
    rewrite (pt_red_cands_norm g a closed (Hrange s core closed H1)) in Hcount.
    assert (Hrrne : rr <> []).
    { intros E. subst rr. cbn in Hcount. lia. }
    apply Hrrne. rewrite Hrr in Hnil.
    apply nth_error_In in Hrrs_s.
    destruct rr as [|x rr]; [reflexivity|]. exfalso.
    assert (Hin : In x (concat rrs)) by (apply in_concat; exists (x :: rr); split; [exact Hrrs_s|left; reflexivity]).
    rewrite Hnil in Hin. destruct Hin.
  - intros e He. apply (Permutation_in _ Hsr) in He. unfold sr_spec_all in He.
    apply in_flat_map in He. destruct He as ([k st] & Hin & He). cbn [fst snd] in He.
    destruct (pt_in_combine_seq _ _ _ _ Hin) as (j & Ej & Hj). cbn [Nat.add] in Ej. subst j.
    pose proof Hj as Hj'. apply pt_table_input_nth in Hj'. destruct Hj' as ([core closed] & es & H1 & H2 & E).
    subst st. cbn [fst snd] in He.
    exists k, core, closed, es. split; [exact H1|]. split; [exact H2|].
    rewrite (pt_sr_spec_norm g tp pp _ closed _ (Hrange k core closed H1)) in He. exact He.
  - intros r Hr. rewrite Hrr in Hr. apply in_concat in Hr. destruct Hr as (rr & Hrr_in & Hr).
    apply In_nth_error in Hrr_in. destruct Hrr_in as [k Hk].
    destruct (le_nth_error_ex (decl_of g pg) k) as (st & Hst).
    { rewrite <- Hrrlen. exact (le_nth_error_lt _ _ _ Hk). }
    destruct (Hrrs k st Hst) as (rr' & Hk' & (_ & _ & Hcount)). rewrite Hk in Hk'. injection Hk' as E. subst rr'.
    pose proof Hst as Hst'. apply pt_table_input_nth in Hst'. destruct Hst' as ([core closed] & es & H1 & H2 & E).
    subst st. cbn [fst snd] in Hcount.
    exists k, core, closed. split; [exact H1|].
    specialize (Hcount (rr_tok r)). unfold rr_count_spec in Hcount.
    rewrite (pt_red_cands_norm g _ closed (Hrange k core closed H1)) in Hcount.
    assert (Hin : In r (rr_of_tok (rr_tok r) rr)).
    { unfold rr_of_tok. apply filter_In. split; [exact Hr|apply N.eqb_refl]. }
    destruct (rr_of_tok (rr_tok r) rr) as [|x l]; [destruct Hin|]. cbn [length] in Hcount. lia.
  - intros s core closed es row a H1 H2 Hrow.
    pose proof (Hdecl s core closed es H1 H2) as Hd.
    destruct (Forall2_nth_error_r _ _ _ Hrows s _ Hd) as (row' & Hrow' & [_ Hsa]).
    rewrite Hrow in Hrow'. injection Hrow' as E. subst row'. cbn [fst snd] in Hsa.
    rewrite (Hsa a). unfold has_candidate.
    rewrite (pt_acc_cand_norm g a closed (Hrange s core closed H1)),
            (pt_red_cands_norm g a closed (Hrange s core closed H1)). reflexivity.
Qed.

(* the mirror of StateTable::new cannot panic on a graph of pager_mirror; it fails only on an
   accept/reduce cell *)
Lemma pt_table_mirror_outcome g tp pp pg tos : graph_facts g pg -> ENoDup (pg_edges pg) ->
  (forall j, (j < length (pg_states pg))%nat -> pg_reach (pg_edges pg) j) ->
  prec_consistent tp pp ->
  match table_mirror g tp pp (table_input g (pg_states pg) (pg_edges pg) tos) with
  | Done (Some _) => True
  | Done None => exists s core closed a, nth_error (pg_states pg) s = Some (core, closed) /\
                                         accept_reduce_cell g closed a
  | Panic => False
  | OutOfFuel => False
  end.
Proof.
  intros GF HE HR Hcons.
  pose proof (pt_decl_wf g pg GF HE) as Hwf.
  pose proof (pt_table_input_perm g (pg_states pg) (pg_edges pg) tos) as Hperm.
  pose proof (pt_one_accept g pg GF HR) as Hone.
  fold (decl_of g pg) in Hperm.
  pose proof (table_mirror_meets_spec g tp pp (decl_of g pg) _ Hwf Hcons Hperm Hone) as HT.
  destruct (table_mirror g tp pp (table_input g (pg_states pg) (pg_edges pg) tos)) as [[t|]| |];
    try exact HT; [exact I|].
  destruct HT as (s & st & a & Hst & [Hac Hrc]).
  apply pt_table_input_nth in Hst. destruct Hst as ([core closed] & es & H1 & H2 & E). subst st.
  cbn [fst snd] in Hac, Hrc.
  destruct (gf_reach g pg GF s _ _ H1) as (_ & _ & Hok). pose proof (pt_items_ok_range g _ Hok) as Hr.
  exists s, core, closed, a. split; [exact H1|]. split.
  - rewrite <- (pt_acc_cand_norm g a closed Hr). exact Hac.
  - rewrite <- (pt_red_cands_norm g a closed Hr). exact Hrc.
Qed.
