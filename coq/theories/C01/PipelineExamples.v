(* C01 (pipeline) — non-vacuity: concrete grammars run through [from_yacc_mirror] /
   [from_yacc_decl] inside Coq (vm_compute), the end-to-end theorems applied to them, and
   the witness showing that "conflicts() is None" alone does NOT give completeness. *)
From Coq Require Import List Arith NArith Bool Lia.
From GV Require Import Common.Outcome Base.Grammar Base.Analyses LR.Automaton LR.Validator LR.Spec
  C02.LoopModel C02.InducedModel C02.PagerSpec C02.Examples C03.Model C03.Spec
  C01.Pipeline C01.PipelineSpec C01.PipelineProofs C01.PipelineMain C01.PipelineDecl.
Import ListNotations.
Open Scope N_scope.

Definition u32max : N := 4294967295.
Definition noprec : precs := fun _ => None.

(* computed facts are stated as  match <run> with Done (Some b) => P b | _ => False end  (closed by
   vm_compute); this turns them into an existential *)
Lemma built_ex (o : outcome (option built)) (P : built -> Prop) :
  match o with Done (Some b) => P b | _ => False end -> exists b, o = Done (Some b) /\ P b.
Proof.
  destruct o as [[b|]| |]; intros H; try contradiction. exists b. split; [reflexivity|exact H].
Qed.

(* ---- g1 (C02/Examples.v): S : a A d | b A e ; A : c — LR(1), no precedence ---------------------- *)

Definition g1_fact (b : built) : Prop :=
  (length (pg_states (b_graph b)), reports_no_conflict b,
   run g1 (built_automaton b) 100 [0; 2; 3], run g1 (built_automaton b) 100 [0; 2; 4])
  = (9%nat, true, RAccept (Node 0 [Leaf 0 0; Node 2 [Leaf 2 1]; Leaf 3 2]), RReject 2 4).

Example g1_runs :
  match from_yacc_mirror g1 noprec noprec u32max 100 [] [] with
  | Done (Some b) => g1_fact b
  | _ => False
  end.
Proof. vm_compute. reflexivity. Qed.

Example g1_wf : wf_grammar g1 = true.
Proof. vm_compute. reflexivity. Qed.

(* the hypotheses of construction_sound / construction_complete are satisfiable, and the
   theorems say what the run above shows *)
Example g1_end_to_end :
  exists b, from_yacc_mirror g1 noprec noprec u32max 100 [] [] = Done (Some b) /\
    conflict_free_report g1 noprec noprec b /\
    validS g1 (built_automaton b) = true /\ validC g1 (built_automaton b) = true /\
    (forall w, sentence g1 w -> no_eof g1 w -> exists fuel' t, run g1 (built_automaton b) fuel' w = RAccept t) /\
    (forall input fuel' t, tokens_in_range g1 input -> no_eof g1 input ->
       run g1 (built_automaton b) fuel' input = RAccept t -> valid_tree g1 t /\ leaves_in_order t input).
Proof.
  destruct (built_ex (from_yacc_mirror g1 noprec noprec u32max 100 [] []) g1_fact g1_runs) as (b & E & Hv). unfold g1_fact in Hv.
  exists b. split; [exact E|].
  assert (Hrep : reports_no_conflict b = true) by exact (f_equal (fun x => snd (fst (fst x))) Hv).
  assert (Hcf : conflict_free_report g1 noprec noprec b).
  { split; [exact Hrep|]. intros s a p _ _ _. left. reflexivity. }
  pose proof (pm_noprec_consistent noprec) as Hcons.
  destruct (construction_validated g1 _ _ _ _ _ _ b g1_wf Hcons E) as [HS _].
  destruct (construction_conflict_free g1 _ _ _ _ _ _ b g1_wf Hcons E Hcf) as [HC _].
  split; [exact Hcf|]. split; [exact HS|]. split; [exact HC|]. split.
  - exact (construction_accepts_sentences g1 _ _ _ _ _ _ b g1_wf Hcons E Hcf).
  - intros input fuel' t Hr Hne Hrun.
    destruct (construction_sound g1 _ _ _ _ _ _ b g1_wf Hcons E input fuel' t Hr Hne Hrun) as (s & _ & _ & Hvt & Hl).
    split; assumption.
Qed.

(* the LR(1) headline instantiated (lr1_grammar g1 by the proved-sound certificate of C02) *)
Example g1_lr1_correct :
  exists fuel,
    (exists b, from_yacc_mirror g1 noprec noprec u32max fuel [] [] = Done (Some b) /\
       conflict_free_report g1 noprec noprec b /\
       validS g1 (built_automaton b) = true /\ validC g1 (built_automaton b) = true /\
       validE g1 (built_automaton b) = true /\ single_candidate g1 (built_automaton b) = true) \/
    (from_yacc_mirror g1 noprec noprec u32max fuel [] [] = Panic /\ storage_check_fired g1 u32max fuel []).
Proof. exact (construction_lr1_correct g1 noprec noprec u32max [] [] g1_wf (pm_noprec_consistent noprec) g1_lr1). Qed.

(* the StorageT check of StateTable::new: 9 states need max_value - 1 > 9 *)
Example g1_storage_check :
  (is_done (from_yacc_mirror g1 noprec noprec 11 100 [] []), from_yacc_mirror g1 noprec noprec 10 100 [] [])
  = (true, Panic).
Proof. vm_compute. reflexivity. Qed.

(* ---- an ambiguous grammar whose conflicts precedence resolves ---------------------------------------
   %left '+'  %left '*'   E : E '+' E | E '*' E | 'n' ;     tokens + = 0, * = 1, n = 2, $ = 3 *)

Definition g_expr : grammar :=
  mkGrammar 4 2 [(1, [R 1; T 0; R 1]); (1, [R 1; T 1; R 1]); (1, [T 2]); (0, [R 1])] 3 3.
Definition ds_expr : list decl := [(ALeft, [0]); (ALeft, [1])].

(* nothing is reported, 4 cells were settled by precedence (single_candidate fails), the table
   is validS but not validC, and  n + n * n  gets the tree the precedences ask for *)
Example expr_with_prec :
  match from_yacc_decl g_expr ds_expr [] u32max 100 [] [] with
  | Done (Some b) => (length (pg_states (b_graph b)), reports_no_conflict b, validS g_expr (built_automaton b),
               single_candidate g_expr (built_automaton b), run g_expr (built_automaton b) 100 [2; 0; 2; 1; 2])
              = (7%nat, true, true, false,
                 RAccept (Node 0 [Node 2 [Leaf 2 0]; Leaf 0 1;
                                  Node 1 [Node 2 [Leaf 2 2]; Leaf 1 3; Node 2 [Leaf 2 4]]]))
  | _ => False
  end.
Proof. vm_compute. reflexivity. Qed.

(* without declarations the 4 shift/reduce conflicts are reported (and resolved as shifts) *)
Example expr_without_prec :
  match from_yacc_decl g_expr [] [] u32max 100 [] [] with
  | Done (Some b) => (reports_no_conflict b, length (tb_sr (b_table b)), length (tb_rr (b_table b))) = (false, 4%nat, 0%nat)
  | _ => False
  end.
Proof. vm_compute. reflexivity. Qed.

(* construction_decl_sound applies to both *)
Example expr_sound ds b : from_yacc_decl g_expr ds [] u32max 100 [] [] = Done (Some b) ->
  forall input fuel' t, tokens_in_range g_expr input -> no_eof g_expr input ->
    run g_expr (built_automaton b) fuel' input = RAccept t -> valid_tree g_expr t /\ leaves_in_order t input.
Proof.
  intros H input fuel' t Hr Hne Hrun.
  assert (Hwf : wf_grammar g_expr = true) by (vm_compute; reflexivity).
  destruct (construction_decl_sound g_expr ds [] u32max 100%nat [] [] b Hwf H) as (_ & _ & Hs).
  destruct (Hs input fuel' t Hr Hne Hrun) as (s & _ & _ & Hvt & Hl). split; assumption.
Qed.

(* ---- "conflicts() is None" is not enough for completeness ---------------------------------------------
   %nonassoc '<'   E : E '<' E | 'n' ;     tokens < = 0, n = 1, $ = 2.
   The construction reports nothing; the cell (state after E < E, '<') was ERASED by %nonassoc;
   the sentence  n < n < n  is rejected. *)

Definition g_na : grammar := mkGrammar 3 2 [(1, [R 1; T 0; R 1]); (1, [T 1]); (0, [R 1])] 2 2.
Definition ds_na : list decl := [(ANonassoc, [0])].

Example na_sentence : sentence g_na [1; 0; 1; 0; 1].
Proof.
  exists 1. split; [reflexivity|].
  assert (P0 : is_prod g_na 0) by (unfold is_prod; simpl; lia).
  assert (P1 : is_prod g_na 1) by (unfold is_prod; simpl; lia).
  apply (d_step g_na [R 1] [T 1; T 0; T 1; T 0] 1 [] P1).
  apply (d_step g_na [R 1] [T 1; T 0] 1 [T 0; R 1] P1).
  apply (d_step g_na [R 1] [] 1 [T 0; R 1; T 0; R 1] P1).
  apply (d_step g_na [R 1] [] 0 [T 0; R 1] P0).
  apply (d_step g_na [R 1] [] 0 [] P0).
  apply d_refl.
Qed.

Definition na_fact (b : built) : Prop :=
  reports_no_conflict b = true /\ run g_na (built_automaton b) 100 [1; 0; 1; 0; 1] = RReject 3 4.

Example na_runs :
  match from_yacc_decl g_na ds_na [] u32max 100 [] [] with
  | Done (Some b) => na_fact b
  | _ => False
  end.
Proof. vm_compute. split; reflexivity. Qed.

Lemma construction_complete_reports_only_refuted : construction_complete_reports_only_refuted_stmt.
Proof.
  destruct (built_ex (from_yacc_decl g_na ds_na [] u32max 100 [] []) na_fact na_runs) as (b & E & H1 & H2).
  exists g_na, ds_na, [], u32max, 100%nat, b, [1; 0; 1; 0; 1].
  split; [vm_compute; reflexivity|]. split; [exact E|]. split; [exact H1|].
  split; [exact na_sentence|]. split.
  - intros Hin. simpl in Hin. repeat (destruct Hin as [Hin|Hin]; [discriminate Hin|]). exact Hin.
  - split; [repeat constructor|]. exists 3%nat, 4. exact H2.
Qed.

(* ---- Err(AcceptReduceConflict):  S : S | 'a' ------------------------------------------------------------ *)

Definition g_ar : grammar := mkGrammar 2 2 [(1, [R 1]); (1, [T 0]); (0, [R 1])] 2 1.
Example accept_reduce_conflict : from_yacc_decl g_ar [] [] u32max 100 [] [] = Done None.
Proof. vm_compute. reflexivity. Qed.
