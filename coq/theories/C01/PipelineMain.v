(* C01 (pipeline) — the END-TO-END theorems of PipelineSpec.v: C01's two clauses, C04's
   two clauses, totality of the construction, and the LR(1) headline, for the
   composition of the mirrors of pager_stategraph and StateTable::new. *)
From Coq Require Import List Arith NArith Bool Lia Permutation.
From GV Require Import Common.Outcome Base.Grammar Base.GrammarFacts Base.Analyses Base.AnalysesProofs
  LR.Automaton LR.Validator LR.Spec LR.CloseMirror LR.CloseSpec
  C02.Model C02.Spec C02.PagerSpec C02.PagerProofsBridge C02.PagerProofsMisc
  C02.Lr1Model C02.LoopModel C02.LoopSpec C02.LoopEdgeProofs C02.LoopFactsProofs C02.LoopTotalProofs
  C02.InducedModel C02.InducedSpec C02.InducedSProofs C02.InducedCProofs C02.InducedMainProofs
  C03.Model C03.Spec C03.Small
  C01.Pipeline C01.PipelineEdges C01.PipelineTable C01.PipelineSpec C01.PipelineProofs C01.PipelineProofsC.
From GV Require LR.Sound LR.Complete LR.Prefix.
Import ListNotations.

Lemma pm_report b : reports_no_conflict b = true -> tb_rr (b_table b) = [] /\ tb_sr (b_table b) = [].
Proof.
  unfold reports_no_conflict. destruct (tb_rr (b_table b)); [|discriminate].
  destruct (tb_sr (b_table b)); [|discriminate]. intros _. split; reflexivity.
Qed.

(* ---- always ------------------------------------------------------------------------------------- *)

Lemma construction_sound : construction_sound_stmt.
Proof.
  intros g tp pp max_st fuel orders tos b Hwf Hcons H input fuel' t Hr Hne Hrun.
  destruct (construction_validated g tp pp max_st fuel orders tos b Hwf Hcons H) as [HS _].
  exact (LR.Sound.lr_sound g _ Hwf HS input fuel' t Hr Hne Hrun).
Qed.

Lemma construction_never_panics : construction_never_panics_stmt.
Proof.
  intros g tp pp max_st fuel orders tos b Hwf Hcons H input fuel' Hr Hne.
  destruct (construction_validated g tp pp max_st fuel orders tos b Hwf Hcons H) as [HS _].
  exact (LR.Sound.lr_never_panics g _ Hwf HS input fuel' Hr Hne).
Qed.

Lemma construction_rejects_nonsentences : construction_rejects_nonsentences_stmt.
Proof.
  intros g tp pp max_st fuel orders tos b Hwf Hcons H input Hr Hne Hns fuel' t.
  destruct (construction_validated g tp pp max_st fuel orders tos b Hwf Hcons H) as [HS _].
  exact (LR.Complete.lr_rejects_nonsentences g _ Hwf HS input Hr Hne Hns fuel' t).
Qed.

Lemma construction_shifted_prefix_viable : construction_shifted_prefix_viable_stmt.
Proof.
  intros g tp pp max_st fuel orders tos b Hwf Hcons Hprod H input fuel' k st Hr Hne Hrun.
  destruct (construction_validated g tp pp max_st fuel orders tos b Hwf Hcons H) as [HS HE].
  exact (LR.Prefix.shifted_prefix_viable g _ Hwf HS HE Hprod input fuel' k st Hr Hne Hrun).
Qed.

(* ---- without conflicts ------------------------------------------------------------------------------ *)

Lemma pm_conflict_free g tp pp max_st fuel orders tos b : wf_grammar g = true -> prec_consistent tp pp ->
  from_yacc_mirror g tp pp max_st fuel orders tos = Done (Some b) ->
  conflict_free_report g tp pp b ->
  run_facts g tp pp max_st b /\ graph_conflict_free g (b_graph b).
Proof.
  intros Hwf Hcons H [Hrep Hun].
  destruct (pp_unpack g tp pp max_st fuel orders tos b Hwf Hcons H) as [RF _]. split; [exact RF|].
  destruct RF as [GF HE _ TF _]. destruct (pm_report b Hrep) as [Hrr Hsr].
  rewrite (pp_built_eta b) in Hun.
  exact (pc_report_conflict_free g tp pp _ _ GF TF Hrr Hsr Hun).
Qed.

Lemma construction_agrees_with_induced : construction_agrees_with_induced_stmt.
Proof.
  intros g tp pp max_st fuel orders tos b Hwf Hcons H Hcf s Hs.
  destruct (pm_conflict_free g tp pp max_st fuel orders tos b Hwf Hcons H Hcf) as [[GF HE _ TF _] CF].
  rewrite (pp_built_eta b) in Hs |- *. cbn [b_graph].
  exact (pc_agrees g tp pp _ _ GF TF CF s Hs).
Qed.

Lemma construction_conflict_free : construction_conflict_free_stmt.
Proof.
  intros g tp pp max_st fuel orders tos b Hwf Hcons H Hcf.
  destruct (pm_conflict_free g tp pp max_st fuel orders tos b Hwf Hcons H Hcf) as [[GF HE _ TF _] CF].
  rewrite (pp_built_eta b). split.
  - exact (pc_validC g tp pp _ _ GF TF CF).
  - exact (pc_single g _ _ GF CF).
Qed.

Lemma construction_complete : construction_complete_stmt.
Proof.
  intros g tp pp max_st fuel orders tos b Hwf Hcons H Hcf t s Hus Hroot Hvt Hlo Hne.
  destruct (construction_validated g tp pp max_st fuel orders tos b Hwf Hcons H) as [HS _].
  destruct (construction_conflict_free g tp pp max_st fuel orders tos b Hwf Hcons H Hcf) as [HC _].
  exact (LR.Complete.lr_complete g _ Hwf HS HC t s Hus Hroot Hvt Hlo Hne).
Qed.

Lemma construction_accepts_sentences : construction_accepts_sentences_stmt.
Proof.
  intros g tp pp max_st fuel orders tos b Hwf Hcons H Hcf w Hw Hne.
  destruct (construction_validated g tp pp max_st fuel orders tos b Hwf Hcons H) as [HS _].
  destruct (construction_conflict_free g tp pp max_st fuel orders tos b Hwf Hcons H Hcf) as [HC _].
  exact (LR.Complete.lr_accepts_sentences g _ Hwf HS HC w Hw Hne).
Qed.

Lemma construction_first_error_not_viable : construction_first_error_not_viable_stmt.
Proof.
  intros g tp pp max_st fuel orders tos b Hwf Hcons H Hcf input fuel' k st Hr Hne Hrun.
  destruct (construction_validated g tp pp max_st fuel orders tos b Hwf Hcons H) as [HS _].
  destruct (construction_conflict_free g tp pp max_st fuel orders tos b Hwf Hcons H Hcf) as [HC _].
  exact (LR.Complete.first_error_not_viable g _ Hwf HS HC input fuel' k st Hr Hne Hrun).
Qed.

Lemma pm_noprec_consistent pp : prec_consistent (fun _ => None) pp.
Proof. intros a p t q F. discriminate F. Qed.

Lemma construction_noprec_complete : construction_noprec_complete_stmt.
Proof.
  intros g pp max_st fuel orders tos b Hwf H Hrep.
  assert (Hcf : conflict_free_report g (fun _ => None) pp b).
  { split; [exact Hrep|]. intros s a p _ _ _. left. reflexivity. }
  split.
  - exact (construction_accepts_sentences g _ pp max_st fuel orders tos b Hwf (pm_noprec_consistent pp) H Hcf).
  - exact (construction_complete g _ pp max_st fuel orders tos b Hwf (pm_noprec_consistent pp) H Hcf).
Qed.

(* ---- totality ---------------------------------------------------------------------------------------- *)

Lemma pm_after_graph g tp pp max_st fuel orders tos nl fs pg : wf_grammar g = true -> prec_consistent tp pp ->
  first_ref g = Some (nl, fs) -> pager_mirror g nl fs max_st fuel orders = Done pg ->
  (exists b, from_yacc_mirror g tp pp max_st fuel orders tos = Done (Some b) /\ b_graph b = pg) \/
  (from_yacc_mirror g tp pp max_st fuel orders tos = Done None /\
   exists s core closed a, nth_error (pg_states pg) s = Some (core, closed) /\ accept_reduce_cell g closed a) \/
  (from_yacc_mirror g tp pp max_st fuel orders tos = Panic /\
   (max_st - 1 <= N.of_nat (length (pg_states pg)))%N).
Proof.
  intros Hwf Hcons Efr Epg. pose proof (pp_first_ref_pre g nl fs Hwf Efr) as Hpre.
  unfold from_yacc_mirror. rewrite Efr, Epg. cbn [obind].
  destruct (N.of_nat (length (pg_states pg)) <? max_st - 1)%N eqn:Esz; cbn [negb].
  2:{ right; right. split; [reflexivity|]. apply N.ltb_ge. exact Esz. }
  pose proof (pager_mirror_graph_facts g nl fs max_st fuel orders pg Hpre Epg) as GF.
  pose proof (pager_mirror_edges_nodup g nl fs max_st fuel orders pg Epg) as HE.
  pose proof (pager_mirror_all_reachable g nl fs max_st fuel orders pg Hpre Epg) as HR.
  pose proof (pt_table_mirror_outcome g tp pp pg tos GF HE HR Hcons) as HT.
  destruct (table_mirror g tp pp (table_input g (pg_states pg) (pg_edges pg) tos)) as [[t|]| |];
    cbn [obind option_map]; try contradiction.
  - left. exists (mkBuilt pg t). split; reflexivity.
  - right; left. split; [reflexivity|exact HT].
Qed.

Lemma construction_total : construction_total_stmt.
Proof.
  intros g tp pp max_st orders tos Hwf Hcons.
  destruct (first_ref g) as [[nl fs]|] eqn:Efr; [|exfalso; exact (first_ref_total g Hwf Efr)].
  pose proof (pp_first_ref_pre g nl fs Hwf Efr) as Hpre.
  destruct (pager_mirror_total g nl fs max_st orders Hpre) as (fuel & [[pg Epg]|[Epanic Hmax]]); exists fuel.
  - destruct (pm_after_graph g tp pp max_st fuel orders tos nl fs pg Hwf Hcons Efr Epg)
      as [(b & Hb & _)|[[Hn _]|[Hp Hsz]]].
    + left. exists b. exact Hb.
    + right; left. exact Hn.
    + right; right. split; [exact Hp|]. exists nl, fs. split; [exact Efr|]. right. exists pg. split; assumption.
  - right; right. split.
    + unfold from_yacc_mirror. rewrite Efr, Epanic. reflexivity.
    + exists nl, fs. split; [exact Efr|]. left. split; assumption.
Qed.

(* ---- LR(1) grammars ------------------------------------------------------------------------------------- *)

Lemma pm_filter_and_le {A : Type} (f h : A -> bool) (l : list A) :
  (length (filter (fun x => f x && h x) l) <= length (filter f l))%nat.
Proof.
  induction l as [|x l IH]; [apply le_n|]. cbn [filter].
  destruct (f x); cbn [andb]; [destruct (h x); cbn [length]; lia|exact IH].
Qed.

Lemma pm_red_cands_le g pg s core cl a : graph_facts g pg -> graph_conflict_free g pg ->
  nth_error (pg_states pg) s = Some (core, cl) -> (length (red_cands g cl a) <= 1)%nat.
Proof.
  intros GF CF Hs. destruct (gf_reach g pg GF s _ _ Hs) as (_ & Hrep & _).
  pose proof (conflict_free_cell g core cl a false Hrep (CF s core cl Hs)) as Hc.
  unfold cell_count in Hc. cbn [Nat.add] in Hc.
  assert (Hc' : (length (filter (fun i => Nat.eqb (it_d i) (length (rhs g (it_p i))) && memN a (it_la i)) cl) <= 1)%nat).
  { apply Hc. intros F. discriminate F. }
  unfold red_cands. rewrite map_length.
  eapply Nat.le_trans; [|exact Hc'].
  apply (pm_filter_and_le (fun i => complete g i && memN a (it_la i)) (fun i => negb (is_acc g (it_p i) a)) cl).
Qed.

Lemma construction_lr1_correct : construction_lr1_correct_stmt.
Proof.
  intros g tp pp max_st orders tos Hwf Hcons Hlr1.
  destruct (first_ref g) as [[nl fs]|] eqn:Efr; [|exfalso; exact (first_ref_total g Hwf Efr)].
  pose proof (pp_first_ref_pre g nl fs Hwf Efr) as Hpre.
  destruct (pager_mirror_total g nl fs max_st orders Hpre) as (fuel & [[pg Epg]|[Epanic Hmax]]); exists fuel.
  2:{ right. split.
      - unfold from_yacc_mirror. rewrite Efr, Epanic. reflexivity.
      - exists nl, fs. split; [exact Efr|]. left. split; assumption. }
  pose proof (pager_mirror_graph_facts g nl fs max_st fuel orders pg Hpre Epg) as GF.
  pose proof (graph_facts_conflict_free g pg GF Hlr1) as CF.
  destruct (pm_after_graph g tp pp max_st fuel orders tos nl fs pg Hwf Hcons Efr Epg)
    as [(b & Hb & Egb)|[[_ (s & core & cl & a & Hs & [Hac Hrc])]|[Hp Hsz]]].
  - left. exists b. split; [exact Hb|].
    destruct (pp_unpack g tp pp max_st fuel orders tos b Hwf Hcons Hb) as [[GFb HE _ TF _] _].
    rewrite Egb in *.
    assert (Hrep : reports_no_conflict b = true).
    { unfold reports_no_conflict.
      destruct (tb_rr (b_table b)) as [|r rr] eqn:Err.
      - destruct (tb_sr (b_table b)) as [|e sr] eqn:Esr; [reflexivity|]. exfalso.
        destruct (tf_sr_sub g tp pp pg _ TF e) as (s & core & cl & es & Hs & Hes & Hin).
        { rewrite Esr. left. reflexivity. }
        unfold sr_spec in Hin. apply in_flat_map in Hin. destruct Hin as ([X tgt] & HinE & Hin).
        cbn [fst snd] in Hin. destruct X as [a|r0]; [|destruct Hin].
        destruct (winner g cl a) as [p|] eqn:Ew; [|destruct Hin].
        unfold st_edges in HinE. apply in_map_iff in HinE. destruct HinE as ([X0 n0] & E0 & HinE).
        cbn [fst snd] in E0. injection E0 as EX _. subst X0.
        assert (Ha : assoc_sym (T a) es = Some n0).
        { apply pe_assoc_of_in; [|exact HinE]. exact (proj1 (Forall_forall _ _) HE es (nth_error_In _ _ Hes)). }
        exact (pc_no_shift_reduce g pg GF CF s core cl es a n0 p Hs Hes Ha (pp_winner_in g cl a p Ew)).
      - exfalso. destruct (tf_rr_sub g tp pp pg _ TF r) as (s & core & cl & Hs & Hlen).
        { rewrite Err. left. reflexivity. }
        pose proof (pm_red_cands_le g pg s core cl (rr_tok r) GF CF Hs). lia. }
    assert (Hun : prec_unsettled g tp pp b).
    { rewrite (pp_built_eta b), Egb. exact (pc_unsettled g tp pp pg _ GF CF). }
    split; [split; assumption|].
    rewrite (pp_built_eta b), Egb.
    split; [exact (pp_validS g tp pp pg _ GF HE TF)|].
    split; [exact (pc_validC g tp pp pg _ GF TF CF)|].
    split; [exact (pp_validE g pg _ GF)|exact (pc_single g pg _ GF CF)].
  - (* an accept/reduce cell is a reduce/reduce conflict of the state *)
    exfalso. apply (CF s core cl Hs). right.
    destruct (gf_reach g pg GF s _ _ Hs) as (_ & Hrep & _).
    apply pt_acc_cand_true in Hac. destruct Hac as (i & Hi & Ep & Hd & Hla & Ea).
    destruct (red_cands g cl a) as [|p l] eqn:Erc; [contradiction|].
    assert (Hp : In p (red_cands g cl a)) by (rewrite Erc; left; reflexivity).
    destruct (pp_red_cand_item g pg s core cl a p GF Hs Hp) as (j & Hj & Epj & Hdj & Hlaj & Hne & _ & _).
    pose proof (iS_closed_la g _ _ i a Hrep Hi Hla) as H1. rewrite Ep, Hd in H1.
    pose proof (iS_closed_la g _ _ j a Hrep Hj Hlaj) as H2. rewrite Epj, Hdj in H2.
    exists a, (start_prod g), p. split; [intros E; apply Hne; symmetry; exact E|]. split; assumption.
  - right. split; [exact Hp|]. exists nl, fs. split; [exact Efr|]. right. exists pg. split; assumption.
Qed.
