(* C01 — END-TO-END statements about the construction [from_yacc_mirror]
   (Pipeline.v: mirror of pager_stategraph + gc composed with the mirror of
   StateTable::new), for EVERY grammar, every oracle of hash orders (of the
   pager loop and of the table loops), every StorageT bound and fuel.
   Proved in PipelineProofs.v.

   The side conditions are: the grammar dump is well formed ([wf_grammar]);
   precedences of one level have one associativity ([prec_consistent]: true of
   all precedences that come from declarations — the [from_yacc_decl] variants
   have no such hypothesis); the input consists of the grammar's tokens
   ([tokens_in_range]) without the end-of-input token ([no_eof]).  "The
   construction returned a table" ([= Done (Some b)]) excludes the StorageT
   size checks ([Panic]) and Err(AcceptReduceConflict) ([Done None]);
   [construction_total] says these are the only other outcomes.

   "Construction reports no conflicts" ([conflict_free_report]):
   conflicts() is None — both conflict vectors empty — AND no cell in which a
   shift and a reduction compete was settled by precedence ([prec_unsettled]).
   The second half is needed: a cell settled by %left/%right/%nonassoc is
   never reported ([C03.Model.decide] returns the flag false), and it may
   erase an action a sentence needs (%nonassoc writes an error cell).  It is
   implied by "no precedence is declared" ([construction_noprec_complete],
   the reading checks/C01.py applies to the implementation). *)
From Coq Require Import List Arith NArith Bool Lia.
From GV Require Import Common.Outcome Base.Grammar Base.Analyses LR.Automaton LR.Validator LR.Spec
  LR.CloseMirror C02.Model C02.PagerSpec C02.LoopModel C02.LoopSpec C02.InducedModel
  C03.Model C03.Spec C16.Model C16.Spec C01.Pipeline.
Import ListNotations.

(* ---- two more facts about every graph pager_mirror returns (PipelineEdges.v) -------------------- *)

(* every `edges[i]` is a map: distinct symbols *)
Definition ENoDup (edges : list (list (sym * nat))) : Prop :=
  Forall (fun es => NoDup (map fst es)) edges.

Definition pager_mirror_edges_nodup_stmt : Prop :=
  forall g nl fs max_st fuel orders pg,
    pager_mirror g nl fs max_st fuel orders = Done pg -> ENoDup (pg_edges pg).

(* after gc every state is reachable from state 0 along edges *)
Inductive pg_reach (edges : list (list (sym * nat))) : nat -> Prop :=
| pgr_start : pg_reach edges 0
| pgr_edge s es X t : pg_reach edges s -> nth_error edges s = Some es -> assoc_sym X es = Some t ->
    pg_reach edges t.

Definition pager_mirror_all_reachable_stmt : Prop :=
  forall g nl fs max_st fuel orders pg, loop_pre g nl fs ->
    pager_mirror g nl fs max_st fuel orders = Done pg ->
    forall j, (j < length (pg_states pg))%nat -> pg_reach (pg_edges pg) j.

Definition prec_unsettled (g : grammar) (tp pp : precs) (b : built) : Prop :=
  forall s a p, In s (states (built_automaton b)) ->
    edge (built_automaton b) s (T a) <> None ->
    winner g (closed (built_automaton b) s) a = Some p ->
    tp a = None \/ pp p = None.

Definition conflict_free_report (g : grammar) (tp pp : precs) (b : built) : Prop :=
  reports_no_conflict b = true /\ prec_unsettled g tp pp b.

(* ---- (a)(i): always validS (and validE) --------------------------------------------------- *)

Definition construction_validated_stmt : Prop :=
  forall g tp pp max_st fuel orders tos b, wf_grammar g = true -> prec_consistent tp pp ->
    from_yacc_mirror g tp pp max_st fuel orders tos = Done (Some b) ->
    validS g (built_automaton b) = true /\ validE g (built_automaton b) = true.

(* C01's first clause, for the constructed table, conflicts resolved or not *)
Definition construction_sound_stmt : Prop :=
  forall g tp pp max_st fuel orders tos b, wf_grammar g = true -> prec_consistent tp pp ->
    from_yacc_mirror g tp pp max_st fuel orders tos = Done (Some b) ->
    forall input fuel' t, tokens_in_range g input -> no_eof g input ->
      run g (built_automaton b) fuel' input = RAccept t ->
      exists s, user_start g = Some s /\ root g t = R s /\ valid_tree g t /\ leaves_in_order t input.

Definition construction_never_panics_stmt : Prop :=
  forall g tp pp max_st fuel orders tos b, wf_grammar g = true -> prec_consistent tp pp ->
    from_yacc_mirror g tp pp max_st fuel orders tos = Done (Some b) ->
    forall input fuel', tokens_in_range g input -> no_eof g input ->
      run g (built_automaton b) fuel' input <> RPanic.

Definition construction_rejects_nonsentences_stmt : Prop :=
  forall g tp pp max_st fuel orders tos b, wf_grammar g = true -> prec_consistent tp pp ->
    from_yacc_mirror g tp pp max_st fuel orders tos = Done (Some b) ->
    forall input, tokens_in_range g input -> no_eof g input -> ~ sentence g input ->
    forall fuel' t, run g (built_automaton b) fuel' input <> RAccept t.

(* ---- (a)(ii) / (b): without conflicts the table IS the induced one, and is validC ------------- *)

Definition construction_agrees_with_induced_stmt : Prop :=
  forall g tp pp max_st fuel orders tos b, wf_grammar g = true -> prec_consistent tp pp ->
    from_yacc_mirror g tp pp max_st fuel orders tos = Done (Some b) ->
    conflict_free_report g tp pp b ->
    forall s, In s (states (built_automaton b)) ->
      (forall a, action (built_automaton b) s a = action (induced g (b_graph b)) s a) /\
      (forall r, goto (built_automaton b) s r = goto (induced g (b_graph b)) s r).

Definition construction_conflict_free_stmt : Prop :=
  forall g tp pp max_st fuel orders tos b, wf_grammar g = true -> prec_consistent tp pp ->
    from_yacc_mirror g tp pp max_st fuel orders tos = Done (Some b) ->
    conflict_free_report g tp pp b ->
    validC g (built_automaton b) = true /\ single_candidate g (built_automaton b) = true.

(* C01's second clause *)
Definition construction_complete_stmt : Prop :=
  forall g tp pp max_st fuel orders tos b, wf_grammar g = true -> prec_consistent tp pp ->
    from_yacc_mirror g tp pp max_st fuel orders tos = Done (Some b) ->
    conflict_free_report g tp pp b ->
    forall t s, user_start g = Some s -> root g t = R s -> valid_tree g t ->
      leaves_in_order t (yield t) -> no_eof g (yield t) ->
      exists fuel', run g (built_automaton b) fuel' (yield t) = RAccept t.

Definition construction_accepts_sentences_stmt : Prop :=
  forall g tp pp max_st fuel orders tos b, wf_grammar g = true -> prec_consistent tp pp ->
    from_yacc_mirror g tp pp max_st fuel orders tos = Done (Some b) ->
    conflict_free_report g tp pp b ->
    forall w, sentence g w -> no_eof g w ->
      exists fuel' t, run g (built_automaton b) fuel' w = RAccept t.

(* ... and "conflicts() is None" ALONE does not give completeness: a grammar, declarations and a
   sentence such that the construction reports nothing and the parser rejects the sentence
   (witness in PipelineExamples.v: %nonassoc '<'  E : E '<' E | 'n'  on  n < n < n) *)
Definition construction_complete_reports_only_refuted_stmt : Prop :=
  exists g ds pn max_st fuel b w,
    wf_grammar g = true /\
    from_yacc_decl g ds pn max_st fuel [] [] = Done (Some b) /\ reports_no_conflict b = true /\
    sentence g w /\ no_eof g w /\ tokens_in_range g w /\
    exists k st, run g (built_automaton b) 100 w = RReject k st.

(* no precedence declared: "reports no conflicts" is all that is needed *)
Definition construction_noprec_complete_stmt : Prop :=
  forall g pp max_st fuel orders tos b, wf_grammar g = true ->
    from_yacc_mirror g (fun _ => None) pp max_st fuel orders tos = Done (Some b) ->
    reports_no_conflict b = true ->
    (forall w, sentence g w -> no_eof g w ->
       exists fuel' t, run g (built_automaton b) fuel' w = RAccept t) /\
    (forall t s, user_start g = Some s -> root g t = R s -> valid_tree g t ->
       leaves_in_order t (yield t) -> no_eof g (yield t) ->
       exists fuel', run g (built_automaton b) fuel' (yield t) = RAccept t).

(* ---- the construction is total up to its deliberate failures ------------------------------------ *)

(* a StorageT size check fired: one of pager_stategraph's, or the one of StateTable::new *)
Definition storage_check_fired (g : grammar) (max_st : N) (fuel : nat) (orders : list (list key)) : Prop :=
  exists nl fs, first_ref g = Some (nl, fs) /\
    ((pager_mirror g nl fs max_st fuel orders = Panic /\
      (max_st <= N.of_nat (S (S (fuel * length (all_syms g)))))%N) \/
     (exists pg, pager_mirror g nl fs max_st fuel orders = Done pg /\
                 (max_st - 1 <= N.of_nat (length (pg_states pg)))%N)).

Definition construction_total_stmt : Prop :=
  forall g tp pp max_st orders tos, wf_grammar g = true -> prec_consistent tp pp ->
    exists fuel,
      (exists b, from_yacc_mirror g tp pp max_st fuel orders tos = Done (Some b)) \/
      (* Err(AcceptReduceConflict): some state offers accept and a reduction on end of input *)
      (from_yacc_mirror g tp pp max_st fuel orders tos = Done None) \/
      (from_yacc_mirror g tp pp max_st fuel orders tos = Panic /\ storage_check_fired g max_st fuel orders).

(* for an LR(1) grammar (C02.PagerSpec.lr1_grammar: the canonical construction has no
   conflict) — whatever precedences are declared: unless a StorageT check fires the
   construction returns a table, reports no conflict, and the table passes ALL
   validators; so it accepts exactly the sentences with their trees *)
Definition construction_lr1_correct_stmt : Prop :=
  forall g tp pp max_st orders tos, wf_grammar g = true -> prec_consistent tp pp -> lr1_grammar g ->
    exists fuel,
      (exists b, from_yacc_mirror g tp pp max_st fuel orders tos = Done (Some b) /\
         conflict_free_report g tp pp b /\
         validS g (built_automaton b) = true /\ validC g (built_automaton b) = true /\
         validE g (built_automaton b) = true /\ single_candidate g (built_automaton b) = true) \/
      (from_yacc_mirror g tp pp max_st fuel orders tos = Panic /\ storage_check_fired g max_st fuel orders).

(* ---- precedences computed from the declarations: no hypothesis on them ---------------------------- *)

Definition construction_decl_sound_stmt : Prop :=
  forall g ds pn max_st fuel orders tos b, wf_grammar g = true ->
    from_yacc_decl g ds pn max_st fuel orders tos = Done (Some b) ->
    validS g (built_automaton b) = true /\ validE g (built_automaton b) = true /\
    forall input fuel' t, tokens_in_range g input -> no_eof g input ->
      run g (built_automaton b) fuel' input = RAccept t ->
      exists s, user_start g = Some s /\ root g t = R s /\ valid_tree g t /\ leaves_in_order t input.

Definition construction_decl_complete_stmt : Prop :=
  forall g pn max_st fuel orders tos b, wf_grammar g = true ->
    from_yacc_decl g [] pn max_st fuel orders tos = Done (Some b) ->
    reports_no_conflict b = true ->
    validC g (built_automaton b) = true /\
    forall w, sentence g w -> no_eof g w ->
      exists fuel' t, run g (built_automaton b) fuel' w = RAccept t.

(* ---- C04 for the constructed table ------------------------------------------------------------------- *)

(* always — also on tables with resolved conflicts *)
Definition construction_shifted_prefix_viable_stmt : Prop :=
  forall g tp pp max_st fuel orders tos b, wf_grammar g = true -> prec_consistent tp pp -> productive g ->
    from_yacc_mirror g tp pp max_st fuel orders tos = Done (Some b) ->
    forall input fuel' k st, tokens_in_range g input -> no_eof g input ->
      run g (built_automaton b) fuel' input = RReject k st ->
      (k <= length input)%nat /\ sentence_prefix g (firstn k input).

Definition construction_first_error_not_viable_stmt : Prop :=
  forall g tp pp max_st fuel orders tos b, wf_grammar g = true -> prec_consistent tp pp ->
    from_yacc_mirror g tp pp max_st fuel orders tos = Done (Some b) ->
    conflict_free_report g tp pp b ->
    forall input fuel' k st, tokens_in_range g input -> no_eof g input ->
      run g (built_automaton b) fuel' input = RReject k st ->
      ~ exists w, sentence g w /\ no_eof g w /\
                  firstn (S k) (w ++ [eof g]) = firstn (S k) (input ++ [eof g]).

(* ---- C16 for the constructed graph and table ---------------------------------------------------------- *)

(* every state is reachable from the start state; every closed state is the LR(1)
   closure of its core state; shift and goto targets are the graph's edges; the
   derived views computed from the final cells are coherent with them *)
Definition construction_coherent_stmt : Prop :=
  forall g tp pp max_st fuel orders tos b, wf_grammar g = true -> prec_consistent tp pp ->
    from_yacc_mirror g tp pp max_st fuel orders tos = Done (Some b) ->
    coherent g (built_automaton b) (built_views g b).
