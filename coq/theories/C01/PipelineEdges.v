(* C01 (pipeline) — two more facts about every graph [pager_mirror] returns,
   needed to feed it to the mirror of StateTable::new:

   [pager_mirror_edges_nodup]    every `edges[i]` is a map (distinct symbols);
   [pager_mirror_all_reachable]  after gc every state is reachable from state 0
                                 along edges (so every state but 0 has an
                                 incoming edge).
   Both by invariants of the loop mirror of C02/LoopModel.v (which this file
   only imports). *)
From Coq Require Import List Arith NArith Bool Lia.
From GV Require Import Common.Outcome Base.Grammar Base.GrammarFacts Base.Analyses LR.Automaton
  LR.CloseMirror C02.Model C02.LoopModel C02.LoopSpec C02.LoopProofs C02.LoopEdgeProofs
  C02.LoopGcProofs C01.PipelineSpec.
Import ListNotations.


(* ---- edge_insert keeps the keys distinct ---------------------------------------------- *)

Lemma pe_edge_insert_keys X t : forall l,
  map fst (edge_insert X t l) =
  if existsb (sym_eqb X) (map fst l) then map fst l else map fst l ++ [X].
Proof.
  induction l as [|[Y u] l IH]; cbn [edge_insert map fst existsb].
  - reflexivity.
  - destruct (sym_eqb X Y) eqn:E; cbn [orb map fst].
    + apply sym_eqb_eq in E. subst Y. reflexivity.
    + rewrite IH. destruct (existsb (sym_eqb X) (map fst l)); reflexivity.
Qed.

Lemma pe_nodup_snoc {A : Type} (x : A) : forall l, NoDup l -> ~ In x l -> NoDup (l ++ [x]).
Proof.
  induction l as [|y l IH]; intros Hnd Hn; cbn [app].
  - constructor; [intros F; destruct F|constructor].
  - inversion Hnd as [|? ? Hy Hnd']; subst. constructor.
    + intros Hin. apply in_app_iff in Hin. destruct Hin as [Hin|[Hin|[]]]; [exact (Hy Hin)|].
      subst y. apply Hn. left. reflexivity.
    + apply IH; [exact Hnd'|]. intros Hin. apply Hn. right. exact Hin.
Qed.

Lemma pe_edge_insert_nodup X t l : NoDup (map fst l) -> NoDup (map fst (edge_insert X t l)).
Proof.
  intros H. rewrite pe_edge_insert_keys.
  destruct (existsb (sym_eqb X) (map fst l)) eqn:E; [exact H|].
  apply pe_nodup_snoc; [exact H|].
  intros Hin. assert (existsb (sym_eqb X) (map fst l) = true).
  { apply existsb_exists. exists X. split; [exact Hin|]. apply sym_eqb_eq. reflexivity. }
  congruence.
Qed.

Lemma pe_set_nth_forall {A : Type} (P : A -> Prop) v : forall (l : list A) i,
  Forall P l -> P v -> Forall P (set_nth i v l).
Proof.
  induction l as [|x l IH]; intros [|i] Hl Hv; cbn [set_nth]; try exact Hl.
  - inversion Hl; subst. constructor; assumption.
  - inversion Hl; subst. constructor; [assumption|]. apply IH; assumption.
Qed.

Lemma pe_insert_edge st i X t st' : insert_edge st i X t = Done st' ->
  ENoDup (edges_st st) -> ENoDup (edges_st st').
Proof.
  unfold insert_edge. intros H HE. ostep H as es E.
  injection H as H. subst st'. cbn [edges_st].
  apply pe_set_nth_forall; [exact HE|].
  apply pe_edge_insert_nodup.
  unfold nth_checked in E. destruct (nth_error (edges_st st) i) as [es'|] eqn:En; [|discriminate E].
  injection E as E. subst es'.
  exact (proj1 (Forall_forall _ _) HE es (nth_error_In _ _ En)).
Qed.

Lemma pe_cnd_push_edges st X k : edges_st (cnd_push st X k) = edges_st st.
Proof. destruct X; reflexivity. Qed.

Lemma pe_place max_st i st X ns st' : place max_st i st X ns = Done st' ->
  ENoDup (edges_st st) -> ENoDup (edges_st st').
Proof.
  unfold place. intros H HE.
  ostep H as cnds Ec. ostep H as same Es.
  destruct same as [c|].
  - exact (pe_insert_edge st i X c st' H HE).
  - ostep H as m Em. destruct m as [k|].
    + ostep H as st1 E1. pose proof (pe_insert_edge st i X k st1 E1 HE) as HE1.
      ostep H as ck Eck. ostep H as mr Emr. cbv zeta in H.
      destruct (snd mr).
      * ostep H as cl Ecl. destruct cl; injection H as H; subst st'; exact HE1.
      * injection H as H. subst st'. exact HE1.
    + destruct (max_st <=? N.of_nat (length (core_sts st)))%N; [discriminate H|].
      cbn [obind] in H. cbv zeta in H. ostep H as st2 E2.
      injection H as H. subst st'. cbn [edges_st].
      assert (HE2 : ENoDup (edges_st st2)).
      { apply (pe_insert_edge _ _ _ _ _ E2). rewrite pe_cnd_push_edges. exact HE. }
      unfold ENoDup. apply Forall_app. split; [exact HE2|].
      constructor; [constructor|constructor].
Qed.

Lemma pe_place_all max_st i : forall news st st', place_all max_st i st news = Done st' ->
  ENoDup (edges_st st) -> ENoDup (edges_st st').
Proof.
  induction news as [|[X ns] news IH]; intros st st' H HE.
  - cbn [place_all] in H. injection H as H. subst st'. exact HE.
  - cbn [place_all] in H. ostep H as st1 E1.
    exact (IH st1 st' H (pe_place max_st i st X ns st1 E1 HE)).
Qed.

Lemma pe_iteration g nl fs max_st ko st st' : iteration g nl fs max_st ko st = Done st' ->
  ENoDup (edges_st st) -> ENoDup (edges_st st').
Proof.
  unfold iteration. intros H HE.
  ostep H as state_i En. destruct (Nat.eqb (todo st) 0); [discriminate H|].
  ostep H as core_i Ec. ostep H as cl Ecl. cbv zeta in H. ostep H as news Enews.
  exact (pe_place_all max_st state_i news _ st' H HE).
Qed.

Lemma pe_main_loop g nl fs max_st : forall fuel orders st st',
  main_loop g nl fs max_st fuel orders st = Done st' ->
  ENoDup (edges_st st) -> ENoDup (edges_st st').
Proof.
  induction fuel as [|f IH]; intros orders st st' H HE.
  - cbn [main_loop] in H. discriminate H.
  - cbn [main_loop] in H. destruct (Nat.eqb (todo st) 0).
    + injection H as H. subst st'. exact HE.
    + destruct orders as [|ko orders'].
      * ostep H as st1 E1. exact (IH [] st1 st' H (pe_iteration _ _ _ _ _ _ _ E1 HE)).
      * ostep H as st1 E1. exact (IH orders' st1 st' H (pe_iteration _ _ _ _ _ _ _ E1 HE)).
Qed.

Lemma pe_keep_forall {A : Type} (P : A -> Prop) seen : forall (l : list A) i,
  Forall P l -> Forall P (keep seen i l).
Proof.
  induction l as [|x l IH]; intros i Hl; cbn [keep]; [constructor|].
  inversion Hl; subst. destruct (memn i seen); [constructor; [assumption|]|]; apply IH; assumption.
Qed.

Lemma pe_gc states edges pg : gc_model states edges = Done pg ->
  ENoDup edges -> ENoDup (pg_edges pg).
Proof.
  unfold gc_model. intros H HE.
  match type of H with (if ?c then _ else _) = _ => destruct c end; [discriminate H|].
  destruct (Nat.eqb (length states) (length (reachable edges 0))).
  - injection H as H. subst pg. exact HE.
  - cbv zeta in H.
    match type of H with (if ?c then _ else _) = _ => destruct c end; [|discriminate H].
    injection H as H. subst pg. cbn [pg_edges].
    unfold ENoDup. apply Forall_map.
    eapply Forall_impl; [|apply pe_keep_forall; exact HE].
    intros es Hes. cbv beta. rewrite map_map. cbn [fst]. exact Hes.
Qed.

Lemma pager_mirror_edges_nodup : pager_mirror_edges_nodup_stmt.
Proof.
  intros g nl fs max_st fuel orders pg H. unfold pager_mirror in H.
  ostep H as st Eml. ostep H as cl Ecl. ostep H as pg' Egc.
  destruct (max_st <? N.of_nat (length (pg_states pg')))%N; [discriminate H|].
  destruct (max_st <=? N.of_nat (length (pg_states pg')))%N; [discriminate H|].
  injection H as H. subst pg'.
  apply (pe_gc _ _ _ Egc).
  apply (pe_main_loop g nl fs max_st fuel orders (init_pst g) st Eml).
  unfold init_pst. cbn [edges_st]. constructor; [constructor|constructor].
Qed.

(* ---- reachability ----------------------------------------------------------------------- *)


Lemma pe_assoc_of_in (es : list (sym * nat)) X t : NoDup (map fst es) -> In (X, t) es ->
  assoc_sym X es = Some t.
Proof.
  induction es as [|[Y u] es IH]; intros Hnd Hin; [destruct Hin|].
  cbn [map fst] in Hnd. inversion Hnd as [|? ? Hn Hnd']; subst.
  cbn [assoc_sym]. destruct Hin as [Hin|Hin].
  - injection Hin as E1 E2. subst Y u. rewrite (proj2 (sym_eqb_eq X X) eq_refl). reflexivity.
  - destruct (sym_eqb X Y) eqn:E.
    + apply sym_eqb_eq in E. subst Y. exfalso. apply Hn.
      apply in_map_iff. exists (X, t). split; [reflexivity|exact Hin].
    + exact (IH Hnd' Hin).
Qed.

(* everything the saturation collects is reachable *)
Lemma pe_iter_reach edges : ENoDup edges -> forall k l,
  (forall x, In x l -> pg_reach edges x) ->
  forall x, In x (iter k (reach_step edges) l) -> pg_reach edges x.
Proof.
  intros HE. induction k as [|k IH]; intros l Hl x Hx; cbn [iter] in Hx.
  - exact (Hl x Hx).
  - apply (IH (reach_step edges l)); [|exact Hx].
    intros y Hy. apply gcp_step_in in Hy. destruct Hy as [Hy|(s & e & Hs & He & Ey)].
    + exact (Hl y Hy).
    + subst y. destruct (nth_error edges s) as [es|] eqn:En.
      * rewrite (nth_error_nth edges s [] En) in He.
        apply (pgr_edge edges s es (fst e) (snd e) (Hl s Hs) En).
        apply pe_assoc_of_in.
        -- exact (proj1 (Forall_forall _ _) HE es (nth_error_In _ _ En)).
        -- destruct e. exact He.
      * apply nth_error_None in En. rewrite (nth_overflow edges [] En) in He. destruct He.
Qed.

Lemma pe_seen_reach edges : ENoDup edges ->
  forall x, In x (reachable edges 0) -> pg_reach edges x.
Proof.
  intros HE x Hx. unfold reachable in Hx.
  apply (pe_iter_reach edges HE (S (length edges)) [0]); [|exact Hx].
  intros y [Hy|[]]. subst y. constructor.
Qed.

Lemma pe_reach_seen edges : forall x, pg_reach edges x -> In x (reachable edges 0).
Proof.
  intros x H. induction H as [|s es X t Hs IH En Ha].
  - apply le_memn_in. apply le_reachable_start.
  - apply (gcp_reachable_closed edges 0 s (X, t) IH).
    rewrite (nth_error_nth edges s [] En). exact (le_assoc_in X t es Ha).
Qed.

(* gc leaves only reachable states *)
Lemma pe_gc_reach (states : list (itemset * itemset)) edges pg :
  length edges = length states -> ENoDup edges ->
  (forall s es X t, nth_error edges s = Some es -> assoc_sym X es = Some t -> t < length states) ->
  gc_model states edges = Done pg ->
  forall j, j < length (pg_states pg) -> pg_reach (pg_edges pg) j.
Proof.
  intros Hlen HE Hrange H j Hj. unfold gc_model in H.
  set (seen := reachable edges 0) in H.
  destruct (negb (forallb (fun s => forallb (fun e => memn (snd e) seen) (nth s edges [])) seen))
    eqn:Eclosed; [discriminate H|].
  assert (Hseen_lt : forall x, In x seen -> x < length states).
  { intros x Hx. pose proof (pe_seen_reach edges HE x Hx) as Hr.
    destruct Hr as [|s es X t _ En Ha].
    - destruct states as [|x0 states]; [|simpl; lia].
      (* no state at all: then the result has none either *)
      exfalso. destruct (Nat.eqb (length (@nil (itemset * itemset))) (length seen)).
      + injection H as H. subst pg. simpl in Hj. lia.
      + cbv zeta in H. match type of H with (if ?c then _ else _) = _ => destruct c end; [|discriminate H].
        injection H as H. subst pg. simpl in Hj. lia.
    - exact (Hrange s es X t En Ha). }
  destruct (Nat.eqb (length states) (length seen)) eqn:Eall.
  { injection H as H. subst pg. cbn [pg_states pg_edges] in *.
    apply pe_seen_reach; [exact HE|]. fold seen.
    apply Nat.eqb_eq in Eall.
    assert (Hincl : incl (seq 0 (length states)) seen).
    { apply NoDup_length_incl.
      - unfold seen, reachable.
        assert (Hnd : forall k l, NoDup l -> NoDup (iter k (reach_step edges) l)).
        { induction k as [|k IH]; intros l Hl; cbn [iter]; [exact Hl|].
          apply IH. apply gcp_step_nodup. exact Hl. }
        apply Hnd. constructor; [intros F; destruct F|constructor].
      - rewrite seq_length. lia.
      - intros x Hx. apply in_seq. pose proof (Hseen_lt x Hx). lia. }
    apply Hincl. apply in_seq. lia. }
  cbv zeta in H.
  match type of H with (if ?c then _ else _) = _ => destruct c end; [|discriminate H].
  injection H as H. subst pg. cbn [pg_states pg_edges] in *.
  rewrite (le_offsets_offs2 seen (length states) 0 0 (le_n 0)). cbn [Nat.sub].
  set (offs := offs2 seen (length states) 0 0).
  (* every reachable old state is reachable, renumbered, in the new graph *)
  assert (Hmove : forall s, pg_reach edges s ->
            pg_reach (map (fun l => map (fun e => (fst e, nth (snd e) offs 0)) l) (keep seen 0 edges))
                     (nth s offs 0)).
  { intros s Hs. induction Hs as [|s es X t Hs IH En Ha].
    - assert (Ho : nth 0 offs 0 = 0).
      { unfold offs. destruct states as [|x states]; reflexivity. }
      rewrite Ho. constructor.
    - assert (Hm : memn s seen = true) by (apply le_memn_in; exact (pe_reach_seen edges s Hs)).
      assert (Hk : nth_error (keep seen 0 edges) (nth s offs 0) = Some es).
      { rewrite <- En. unfold offs. rewrite <- Hlen.
        exact (le_keep_offs seen edges 0 0 [] s eq_refl (le_nth_error_lt _ _ _ En) Hm). }
      eapply (pgr_edge _ (nth s offs 0) _ X (nth t offs 0) IH).
      + rewrite nth_error_map, Hk. reflexivity.
      + rewrite (le_assoc_map (fun t0 => nth t0 offs 0) X es), Ha. reflexivity. }
  destruct (le_nth_error_ex _ j Hj) as (x & Hx).
  destruct (le_keep_inv seen states 0 0 [] j x eq_refl (Nat.le_0_l j) Hx) as (s & _ & Hm & _ & Ho).
  rewrite Nat.add_0_l in Hm. fold offs in Ho. rewrite <- Ho.
  apply Hmove. apply pe_seen_reach; [exact HE|]. apply le_memn_in. exact Hm.
Qed.

Lemma pager_mirror_all_reachable : pager_mirror_all_reachable_stmt.
Proof.
  intros g nl fs max_st fuel orders pg Hpre H. unfold pager_mirror in H.
  ostep H as st Eml. ostep H as cl Ecl. ostep H as pg' Egc.
  destruct (max_st <? N.of_nat (length (pg_states pg')))%N; [discriminate H|].
  destruct (max_st <=? N.of_nat (length (pg_states pg')))%N; [discriminate H|].
  injection H as H. subst pg'.
  pose proof (le_main_loop_big g nl fs max_st Hpre fuel orders (init_pst g) st (le_init_big g) Eml) as HB.
  pose proof (le_big_graph g st cl HB (lp_unwrap_all _ _ Ecl)) as [G1 G2 G3 G4].
  assert (HE : ENoDup (edges_st st)).
  { apply (pe_main_loop g nl fs max_st fuel orders (init_pst g) st Eml).
    unfold init_pst. cbn [edges_st]. constructor; [constructor|constructor]. }
  apply (pe_gc_reach _ _ pg G1 HE); [|exact Egc].
  intros s es X t En Ha.
  destruct (le_nth_error_ex (combine (core_sts st) cl) s) as ([core closed] & Hs).
  { rewrite <- G1. exact (le_nth_error_lt _ _ _ En). }
  destruct (G3 s core closed es X t Hs En Ha) as (ct & clt & Ht & _).
  exact (le_nth_error_lt _ _ _ Ht).
Qed.
