(* C01 (pipeline) — the table [from_yacc_mirror] builds always passes validS and
   validE; hence C01's first clause, the absence of interpreter panics and C04's
   viable-prefix theorem hold for it whatever conflicts were resolved. *)
From Coq Require Import List Arith NArith Bool Lia Permutation.
From GV Require Import Common.Outcome Base.Grammar Base.GrammarFacts Base.Analyses Base.AnalysesProofs
  LR.Automaton LR.Validator LR.Spec LR.Agree LR.CloseMirror LR.CloseSpec LR.CloseProofs
  C02.Model C02.Spec C02.PagerSpec C02.PagerProofsBridge C02.PagerProofsMain C02.PagerProofsExists
  C02.Lr1Model C02.Lr1Proofs C02.LoopModel C02.LoopSpec C02.LoopEdgeProofs C02.LoopFactsProofs
  C02.InducedModel C02.InducedSpec C02.InducedSProofs C02.InducedEProofs
  C03.Model C03.Spec C03.Lists C03.Small C03.Proofs
  C01.Pipeline C01.PipelineEdges C01.PipelineTable C01.PipelineSpec.
Import ListNotations.

(* ---- what a successful run consists of ------------------------------------------------------- *)

Record run_facts (g : grammar) (tp pp : precs) (max_st : N) (b : built) : Prop := mkRunFacts {
  rf_graph : graph_facts g (b_graph b);
  rf_nodup : ENoDup (pg_edges (b_graph b));
  rf_reach : forall j, (j < length (pg_states (b_graph b)))%nat -> pg_reach (pg_edges (b_graph b)) j;
  rf_table : table_facts g tp pp (b_graph b) (b_table b);
  rf_size : (N.of_nat (length (pg_states (b_graph b))) < max_st - 1)%N
}.

Lemma pp_first_ref_pre g nl fs : wf_grammar g = true -> first_ref g = Some (nl, fs) -> loop_pre g nl fs.
Proof.
  intros Hwf E. destruct (first_ref_exact' g nl fs E) as [H1 H2]. split; [exact Hwf|]. split; assumption.
Qed.

Lemma pp_unpack g tp pp max_st fuel orders tos b : wf_grammar g = true -> prec_consistent tp pp ->
  from_yacc_mirror g tp pp max_st fuel orders tos = Done (Some b) ->
  run_facts g tp pp max_st b /\
  exists nl fs, first_ref g = Some (nl, fs) /\
                pager_mirror g nl fs max_st fuel orders = Done (b_graph b).
Proof.
  intros Hwf Hcons H. unfold from_yacc_mirror in H.
  destruct (first_ref g) as [[nl fs]|] eqn:Efr; [|discriminate H].
  pose proof (pp_first_ref_pre g nl fs Hwf Efr) as Hpre.
  destruct (pager_mirror g nl fs max_st fuel orders) as [pg| |] eqn:Epg; cbn [obind] in H; try discriminate H.
  destruct (N.of_nat (length (pg_states pg)) <? max_st - 1)%N eqn:Esz; cbn [negb] in H; [|discriminate H].
  destruct (table_mirror g tp pp (table_input g (pg_states pg) (pg_edges pg) tos)) as [[t|]| |] eqn:Et;
    cbn [obind option_map] in H; try discriminate H.
  injection H as H. subst b. cbn [b_graph b_table].
  pose proof (pager_mirror_graph_facts g nl fs max_st fuel orders pg Hpre Epg) as GF.
  pose proof (pager_mirror_edges_nodup g nl fs max_st fuel orders pg Epg) as HE.
  pose proof (pager_mirror_all_reachable g nl fs max_st fuel orders pg Hpre Epg) as HR.
  split.
  - constructor; cbn [b_graph b_table]; try assumption.
    + exact (table_facts_of_mirror g tp pp pg tos t GF HE HR Hcons Et).
    + apply N.ltb_lt. exact Esz.
  - exists nl, fs. split; [reflexivity|exact Epg].
Qed.

(* ---- the cells ------------------------------------------------------------------------------------ *)

Lemma pp_decide_fst tp pp a p tgt :
  fst (decide tp pp a p tgt) = Shift tgt \/ fst (decide tp pp a p tgt) = Reduce p \/
  fst (decide tp pp a p tgt) = Err.
Proof.
  unfold decide. destruct (tp a) as [t|]; [|left; reflexivity]. destruct (pp p) as [q|]; [|left; reflexivity].
  destruct (p_level q <? p_level t)%N; [left; reflexivity|].
  destruct (p_level t <? p_level q)%N; [right; left; reflexivity|].
  destruct (p_kind t); auto.
Qed.

Lemma pp_decide_snd tp pp a p tgt : snd (decide tp pp a p tgt) = true <-> tp a = None \/ pp p = None.
Proof.
  unfold decide. destruct (tp a) as [t|]; [|split; [left; reflexivity|reflexivity]].
  destruct (pp p) as [q|]; [|split; [right; reflexivity|reflexivity]].
  split.
  - destruct (p_level q <? p_level t)%N; [discriminate|].
    destruct (p_level t <? p_level q)%N; [discriminate|]. destruct (p_kind t); discriminate.
  - intros [F|F]; discriminate F.
Qed.

(* a non-error cell and where it comes from *)
Lemma pp_cell_cases g tp pp C edges a :
  (cell_spec g tp pp C edges a = Accept /\ acc_cand g C a = true) \/
  (exists tgt, cell_spec g tp pp C edges a = Shift tgt /\ assoc_sym (T a) edges = Some tgt) \/
  (exists p, cell_spec g tp pp C edges a = Reduce p /\ winner g C a = Some p /\ acc_cand g C a = false) \/
  cell_spec g tp pp C edges a = Err.
Proof.
  unfold cell_spec. destruct (acc_cand g C a); [left; split; reflexivity|].
  destruct (assoc_sym (T a) edges) as [tgt|]; destruct (winner g C a) as [p|].
  - destruct (pp_decide_fst tp pp a p tgt) as [E|[E|E]]; rewrite E.
    + right; left. exists tgt. split; reflexivity.
    + right; right; left. exists p. repeat split; reflexivity.
    + right; right; right. reflexivity.
  - right; left. exists tgt. split; reflexivity.
  - right; right; left. exists p. repeat split; reflexivity.
  - right; right; right. reflexivity.
Qed.

(* a reduction candidate is a complete item of the closed state carrying the token; it is
   not the start production *)
Lemma pp_red_cand_item g pg s core closed a p : graph_facts g pg ->
  nth_error (pg_states pg) s = Some (core, closed) -> In p (red_cands g closed a) ->
  exists i, In i closed /\ it_p i = p /\ it_d i = length (rhs g p) /\ In a (it_la i) /\
            p <> start_prod g /\ is_prodb g p = true /\ has_item p (length (rhs g p)) closed = true.
Proof.
  intros GF Hs Hin. pose proof (gf_wf g pg GF) as Hwf.
  destruct (gf_reach g pg GF s _ _ Hs) as (Hpr & Hrep & Hok).
  apply pt_in_red_cands in Hin. destruct Hin as (i & Hi & Ep & Hd & Ha & Hacc).
  exists i. split; [exact Hi|]. split; [exact Ep|]. split; [exact Hd|]. split; [exact Ha|].
  pose proof (iS_closed_core g _ _ i Hrep Hi) as Hcl. pose proof (iS_closed_la g _ _ i a Hrep Hi Ha) as Hcl1.
  rewrite Ep, Hd in Hcl, Hcl1. split; [|split].
  - intros E. subst p. rewrite E in Hcl1, Hacc. destruct (iS_rhs_start g Hwf) as [r Hr]. rewrite Hr in Hcl1.
    cbn [length] in Hcl1. apply iS_lr1_S in Hcl1.
    pose proof (pager_reachable_start_la g core 1%nat a Hwf Hpr Hcl1) as Ea.
    unfold is_acc in Hacc. rewrite Ea, !N.eqb_refl in Hacc. discriminate Hacc.
  - rewrite <- Ep. exact (iS_items_ok_prod g closed i Hok Hi).
  - exact (iS_has_item g core closed _ _ Hrep Hcl).
Qed.

Lemma pp_winner_in g C a p : winner g C a = Some p -> In p (red_cands g C a).
Proof. unfold winner. apply min_list_in. Qed.

(* ---- validS ------------------------------------------------------------------------------------------- *)

Section ValidS.
Variables (g : grammar) (tp pp : precs) (pg : pgraph) (t : ttable).
Hypothesis GF : graph_facts g pg.
Hypothesis HE : ENoDup (pg_edges pg).
Hypothesis TF : table_facts g tp pp pg t.

Let A := built_automaton (mkBuilt pg t).

Lemma pp_state s : In s (states A) ->
  exists core cl es,
    nth_error (pg_states pg) (N.to_nat s) = Some (core, cl) /\
    nth_error (pg_edges pg) (N.to_nat s) = Some es.
Proof. intros Hs. exact (iS_state g pg s GF Hs). Qed.

Lemma pp_action s core cl es a :
  nth_error (pg_states pg) (N.to_nat s) = Some (core, cl) ->
  nth_error (pg_edges pg) (N.to_nat s) = Some es ->
  action A s a = cell_spec g tp pp cl (st_edges es) a.
Proof. intros H1 H2. exact (tf_cell g tp pp pg t TF _ core cl es a H1 H2). Qed.

Lemma pp_goto s core cl es r :
  nth_error (pg_states pg) (N.to_nat s) = Some (core, cl) ->
  nth_error (pg_edges pg) (N.to_nat s) = Some es ->
  goto A s r = st_edge pg s (R r).
Proof.
  intros H1 H2. cbn [goto A built_automaton b_table].
  rewrite (tf_goto g tp pp pg t TF _ core cl es r H1 H2). symmetry. exact (iS_st_edge pg s es (R r) H2).
Qed.

Lemma pp_vS3 : vS3 g A = true.
Proof.
  pose proof (gf_wf g pg GF) as Hwf.
  unfold vS3. apply forallb_forall. intros s Hs. apply forallb_forall. intros a _.
  destruct (pp_state s Hs) as (core & cl & es & Hst & Hes).
  rewrite (pp_action s core cl es a Hst Hes).
  cbn [closed A built_automaton b_graph]. rewrite (iS_st_closed pg s core cl Hst).
  destruct (gf_reach g pg GF _ _ _ Hst) as (Hpr & Hrep & Hok).
  destruct (pp_cell_cases g tp pp cl (st_edges es) a)
    as [[E Hacc]|[(tgt & E & Ha)|[(p & E & Hw & _)|E]]]; rewrite E.
  - apply pt_acc_cand_true in Hacc. destruct Hacc as (i & Hi & Ep & Hd & _ & Ea).
    apply andb_true_iff. split; [apply N.eqb_eq; exact Ea|].
    pose proof (iS_closed_core g _ _ i Hrep Hi) as Hcl. rewrite Ep, Hd in Hcl.
    destruct (iS_rhs_start g Hwf) as [r Hr]. rewrite Hr in Hcl. cbn [length] in Hcl.
    exact (iS_has_item g core cl _ _ Hrep Hcl).
  - apply negb_true_iff. apply N.eqb_neq. intros Ea. subst a.
    destruct (pt_wf_state g pg _ core cl es GF HE Hst Hes) as (_ & _ & Hnd & Hno). apply Hno.
    apply (assoc_sym_In _ _ _ Hnd) in Ha. apply in_map_iff. exists (T (eof g), tgt). split; [reflexivity|exact Ha].
  - destruct (pp_red_cand_item g pg _ core cl a p GF Hst (pp_winner_in g cl a p Hw))
      as (_ & _ & _ & _ & _ & Hne & Hp & Hit).
    rewrite Hp, Hit, (proj2 (N.eqb_neq _ _) Hne). reflexivity.
  - reflexivity.
Qed.

Lemma pp_vS4 : vS4 g A = true.
Proof.
  pose proof (gf_wf g pg GF) as Hwf.
  unfold vS4. apply forallb_forall. intros s Hs.
  destruct (pp_state s Hs) as (core & cl & es & Hst & Hes).
  destruct (gf_reach g pg GF _ _ _ Hst) as (Hpr & Hrep & Hok).
  apply andb_true_iff. split; [apply andb_true_iff; split|].
  - apply forallb_forall. intros a _. rewrite (pp_action s core cl es a Hst Hes).
    destruct (pp_cell_cases g tp pp cl (st_edges es) a)
      as [[E _]|[(tgt & E & Ha)|[(p & E & _)|E]]]; rewrite E; try reflexivity.
    cbn [edge A built_automaton b_graph]. rewrite (iS_st_edge pg s es (T a) Hes), <- pt_assoc_edges, Ha.
    cbn [optN_eqb]. apply N.eqb_refl.
  - apply forallb_forall. intros r _. rewrite (pp_goto s core cl es r Hst Hes).
    cbn [edge A built_automaton b_graph].
    destruct (st_edge pg s (R r)) as [t'|]; [|reflexivity]. cbn [optN_eqb]. apply N.eqb_refl.
  - cbn [closed A built_automaton b_graph]. rewrite (iS_st_closed pg s core cl Hst).
    apply forallb_forall. intros i Hi.
    pose proof (iS_closed_core g _ _ i Hrep Hi) as Hcl.
    destruct (it_d i) as [|d]; [|reflexivity]. cbn [Nat.eqb negb orb].
    destruct (N.eqb_spec (it_p i) (start_prod g)) as [Ep|Np]; [reflexivity|]. cbn [orb].
    rewrite (pp_goto s core cl es _ Hst Hes).
    destruct (iS_closed_dot0 g pg _ core cl _ GF Hst Hcl) as [[_ Eq]|[_ (p & d & Hp & Hn)]].
    + contradiction.
    + destruct (goto_exists g core Hwf (pager_reachable_items_ok g core Hwf Hpr) (R (lhs g (it_p i))))
        as (G & Hg & _).
      assert (Hk : exists k, has_core G k).
      { exists (p, S d). apply (proj1 Hg). exists d. split; [reflexivity|]. split; assumption. }
      destruct (gf_complete g pg GF _ core cl es _ G Hst Hes Hg Hk) as (t' & _ & _ & Ha & _).
      rewrite (iS_st_edge pg s es _ Hes). rewrite Ha. reflexivity.
Qed.

Lemma pp_validS : validS g A = true.
Proof.
  unfold validS.
  change (vS0 A) with (vS0 (induced g pg)). change (vS1 g A) with (vS1 g (induced g pg)).
  change (vS2 g A) with (vS2 g (induced g pg)). change (vS5 g A) with (vS5 g (induced g pg)).
  rewrite (iS_vS0 g pg GF), (iS_vS1 g pg GF), (iS_vS2 g pg GF), pp_vS3, pp_vS4, (iS_vS5 g pg GF).
  reflexivity.
Qed.

Lemma pp_validE : validE g A = true.
Proof. change (validE g A) with (validE g (induced g pg)). exact (induced_validE g pg GF). Qed.

End ValidS.

Lemma pp_built_eta b : b = mkBuilt (b_graph b) (b_table b).
Proof. destruct b. reflexivity. Qed.

Lemma construction_validated : construction_validated_stmt.
Proof.
  intros g tp pp max_st fuel orders tos b Hwf Hcons H.
  destruct (pp_unpack g tp pp max_st fuel orders tos b Hwf Hcons H) as [[GF HE _ TF _] _].
  rewrite (pp_built_eta b). split.
  - exact (pp_validS g tp pp _ _ GF HE TF).
  - exact (pp_validE g _ _ GF).
Qed.
