(* C16 for the constructed graph and table: every state reachable from the start
   state, every closed state the LR(1) closure of its core state (C02's facts about
   pager_mirror, restated in C16's vocabulary), shift/goto targets = the graph's
   edges, and the derived views coherent with the final cells. *)
From Coq Require Import List Arith NArith Bool Lia Permutation.
From GV Require Import Common.Outcome Base.Grammar Base.GrammarFacts Base.Analyses Base.AnalysesProofs
  LR.Automaton LR.Validator LR.Spec LR.CloseMirror LR.CloseSpec
  C02.Model C02.Spec C02.PagerSpec C02.PagerProofsBridge C02.Lr1Proofs
  C02.LoopModel C02.LoopSpec C02.LoopEdgeProofs C02.InducedModel C02.InducedSpec C02.InducedSProofs
  C03.Model C03.Spec C03.Lists
  C16.Model C16.Spec C16.RowProofs
  C01.Pipeline C01.PipelineEdges C01.PipelineTable C01.PipelineSpec C01.PipelineProofs.
Import ListNotations.

(* ---- the two presentations of the LR(1) closure agree ----------------------------------------- *)

Lemma p16_in_closure_rel g K p d x : in_closure g K p d x ->
  lr0_closure_rel g K p d /\ forall a, x = Some a -> lr1_closure_rel g K p d a.
Proof.
  intros H. induction H as [p d la Hin | p d la a Hin Ha | p d x r q _ [IH0 _] Hn Hq Hl
                            | p d x r q b _ [IH0 _] Hn Hq Hl Hf | p d a r q _ [IH0 IH1] Hn Hq Hl Hnull].
  - split; [exact (c0_base g K p d la Hin)|]. intros a F. discriminate F.
  - split; [exact (c0_base g K p d la Hin)|]. intros a' E. injection E as E. subst a'.
    exact (c1_base g K p d la a Hin Ha).
  - split; [exact (c0_step g K p d r q IH0 Hn Hq Hl)|]. intros a F. discriminate F.
  - split; [exact (c0_step g K p d r q IH0 Hn Hq Hl)|]. intros a' E. injection E as E. subst a'.
    exact (c1_first g K p d r q b IH0 Hn Hq Hl Hf).
  - split; [exact (c0_step g K p d r q IH0 Hn Hq Hl)|]. intros a' E. injection E as E. subst a'.
    exact (c1_null g K p d a r q (IH1 a eq_refl) Hn Hq Hl Hnull).
Qed.

Lemma p16_lr0_in_closure g K p d : lr0_closure_rel g K p d -> in_closure g K p d None.
Proof.
  intros H. induction H as [p d la Hin | p d r q _ IH Hn Hq Hl].
  - exact (ic_item g K p d la Hin).
  - exact (ic_sub g K p d None r q IH Hn Hq Hl).
Qed.

Lemma p16_lr1_in_closure g K p d a : lr1_closure_rel g K p d a -> in_closure g K p d (Some a).
Proof.
  intros H. induction H as [p d la a Hin Ha | p d r q b H0 Hn Hq Hl Hf | p d a r q _ IH Hn Hq Hl Hnull].
  - exact (ic_la g K p d la a Hin Ha).
  - exact (ic_first g K p d None r q b (p16_lr0_in_closure g K p d H0) Hn Hq Hl Hf).
  - exact (ic_null g K p d a r q IH Hn Hq Hl Hnull).
Qed.

Lemma p16_closure_ok g (A : automaton) s : closed_repr g (core A s) (closed A s) -> closure_ok g A s.
Proof.
  intros (_ & H0 & H1) p d x. destruct x as [a|].
  - split.
    + intros (la & Hin & Ha). apply p16_lr1_in_closure. apply H1. exact (has_la_intro _ p d la a Hin Ha).
    + intros H. apply p16_in_closure_rel in H. destruct H as [_ H]. specialize (H a eq_refl).
      apply H1 in H. apply has_la_pd in H. exact H.
  - split.
    + intros (la & Hin & _). apply p16_lr0_in_closure. apply H0. exact (has_core_intro _ p d la Hin).
    + intros H. apply p16_in_closure_rel in H. destruct H as [H _].
      apply H0 in H. apply has_core_pd in H. destruct H as [la Hin]. exists la. split; [exact Hin|exact I].
Qed.

(* ---- row predicates depend on the cells pointwise ------------------------------------------------ *)

Lemma p16_shifts_ext toks c1 c2 v : (forall a, c1 a = c2 a) -> shifts_ok toks c1 v -> shifts_ok toks c2 v.
Proof. intros E H a. rewrite <- E. apply H. Qed.

Lemma p16_core_reduces_ext g toks c1 c2 v : (forall a, c1 a = c2 a) ->
  core_reduces_ok g toks c1 v -> core_reduces_ok g toks c2 v.
Proof.
  intros E (H1 & H2 & H3 & H4). split; [exact H1|]. split; [|split; [|exact H4]].
  - intros p Hp. destruct (H2 p Hp) as (a & Ha & Hc). exists a. split; [exact Ha|]. rewrite <- E. exact Hc.
  - intros a p Ha Hc. rewrite <- E in Hc. exact (H3 a p Ha Hc).
Qed.

Lemma p16_reduce_only_ext g toks c1 c2 ro : (forall a, c1 a = c2 a) ->
  reduce_only_ok g toks c1 ro -> reduce_only_ok g toks c2 ro.
Proof.
  intros E H. unfold reduce_only_ok in *. rewrite H. split.
  - intros [(a & Ha & Hn) (c & Hc)]. split.
    + exists a. split; [exact Ha|]. rewrite <- E. exact Hn.
    + exists c. intros a' Ha' Hn'. rewrite <- E in Hn' |- *. exact (Hc a' Ha' Hn').
  - intros [(a & Ha & Hn) (c & Hc)]. split.
    + exists a. split; [exact Ha|]. rewrite E. exact Hn.
    + exists c. intros a' Ha' Hn'. rewrite E in Hn' |- *. exact (Hc a' Ha' Hn').
Qed.

(* ---- the statement ---------------------------------------------------------------------------------- *)

Lemma p16_reach_reachable pg t j : pg_reach (pg_edges pg) j ->
  C16.Spec.reachable (built_automaton (mkBuilt pg t)) (N.of_nat j).
Proof.
  intros H. induction H as [|s es X u _ IH En Ha].
  - exact (reach_start (built_automaton (mkBuilt pg t))).
  - apply (reach_edge _ (N.of_nat s) X (N.of_nat u) IH).
    cbn [edge built_automaton b_graph]. unfold st_edge. rewrite Nat2N.id, En, Ha. reflexivity.
Qed.

Lemma construction_coherent : construction_coherent_stmt.
Proof.
  intros g tp pp max_st fuel orders tos b Hwf Hcons H.
  destruct (pp_unpack g tp pp max_st fuel orders tos b Hwf Hcons H) as [[GF HE HR TF _] _].
  rewrite (pp_built_eta b) in *. set (pg := b_graph b) in *. set (t := b_table b) in *.
  cbn [b_graph b_table] in GF, HE, HR, TF.
  split; [|split].
  - intros s Hs.
    destruct (pp_state g pg t GF s Hs) as (core & cl & es & Hst & Hes).
    assert (Hrow : exists row, nth_error (tb_rows t) (N.to_nat s) = Some row).
    { apply le_nth_error_ex. rewrite (tf_len g tp pp pg t TF). exact (le_nth_error_lt _ _ _ Hst). }
    destruct Hrow as [row Hrow].
    assert (Hcells : forall a, row_cells row a = action (built_automaton (mkBuilt pg t)) s a).
    { intros a. cbn [action built_automaton b_table]. unfold tb_cell. rewrite Hrow. reflexivity. }
    assert (Hnth : nth (N.to_nat s) (tb_rows t) (mkRow (fun _ => Err) [] []) = row).
    { apply nth_error_nth. exact Hrow. }
    pose proof (views_from_final_cells_coherent g (tidxs g) (row_cells row)) as HV.
    destruct (views_row g (tidxs g) (row_cells row)) as [[vsh vcr] ro] eqn:Evr.
    destruct HV as (HV1 & HV2 & HV3).
    split; [|split; [|split; [|split]]].
    + (* state_actions *)
      cbn [v_actions built_views b_table]. rewrite Hnth. intros a. rewrite filter_In. split.
      * intros [_ Hf]. apply andb_true_iff in Hf. destruct Hf as [Hne Hm]. split.
        -- apply memN_In. exact Hm.
        -- rewrite <- Hcells. apply nonerr_iff. exact Hne.
      * intros [Hin Hne]. split.
        -- apply (tf_sa g tp pp pg t TF _ core cl es row a Hst Hes Hrow).
           rewrite (pp_action g tp pp pg t TF s core cl es a Hst Hes) in Hne.
           unfold has_candidate.
           destruct (pp_cell_cases g tp pp cl (st_edges es) a) as [[_ Hacc]|[(tgt & _ & Ha)|[(p & _ & Hw & _)|E]]].
           ++ rewrite Hacc. reflexivity.
           ++ rewrite Ha. apply orb_true_r.
           ++ apply pp_winner_in in Hw. destruct (red_cands g cl a); [destruct Hw|].
              cbn [negb]. rewrite orb_true_r. reflexivity.
           ++ contradiction.
        -- apply andb_true_iff. split; [|apply memN_In; exact Hin].
           apply nonerr_iff. rewrite Hcells. exact Hne.
    + cbn [v_shifts built_views b_table]. rewrite Hnth, Evr. cbn [fst].
      exact (p16_shifts_ext _ _ _ _ Hcells HV1).
    + apply targets_reflect. unfold targets_b.
      pose proof (pp_vS4 g tp pp pg t GF TF) as H4. unfold vS4 in H4.
      pose proof (proj1 (forallb_forall _ _) H4 s Hs) as H4s. cbv beta in H4s.
      apply andb_true_iff in H4s. destruct H4s as [H4s _]. exact H4s.
    + cbn [v_core_reduces built_views b_table]. rewrite Hnth, Evr. cbn [fst snd].
      exact (p16_core_reduces_ext g _ _ _ _ Hcells HV2).
    + cbn [v_reduce_only built_views b_table]. rewrite Hnth, Evr. cbn [snd].
      exact (p16_reduce_only_ext g _ _ _ _ Hcells HV3).
  - intros s Hs. apply l1_In_states in Hs. cbn [nstates built_automaton b_graph] in Hs.
    rewrite <- (N2Nat.id s). apply p16_reach_reachable. apply HR. lia.
  - intros s Hs. destruct (pp_state g pg t GF s Hs) as (co & cl & es & Hst & Hes).
    apply p16_closure_ok. cbn [core closed built_automaton b_graph].
    unfold st_core, st_closed. rewrite Hst.
    exact (proj1 (proj2 (gf_reach g pg GF _ _ _ Hst))).
Qed.
