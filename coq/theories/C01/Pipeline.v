(* C01 — the construction END TO END: MIRROR of lrtable::from_yacc
   (lrtable/src/lib/mod.rs:74-88)

       let sg = pager::pager_stategraph(grm);
       let st = StateTable::new(grm, &sg)?;
       Ok((sg, st))

   as the composition of the two mirrors that are already tied to the code:
   [pager_mirror] (C02/LoopModel.v: pager_stategraph + gc, the key order of
   the closed set being processed is an oracle) and [table_mirror]
   (C03/Model.v: the first half of StateTable::new, the iteration orders of
   `state.items` and `sg.edges(stidx)` are oracles).  Executable definitions
   only.

   The glue between the two (what StateTable::new reads off the StateGraph):
     * `sg.iter_closed_states()` = the closed states of the graph in index
       order; `for (&(pidx, dot), ctx) in &state.items` visits them in hash
       order — the oracle [tos] gives, per state, a key order; it is made
       total by [pick_order] (keys it does not list come last in list order,
       entries that are not keys are ignored), so that EVERY oracle denotes an
       iteration order;
     * `ctx.iter_set_bits(..)` yields the set bits of a context in increasing
       order: [set_bits_of] (a context of the graph mirror is a list standing
       for a set);
     * `for (&sym, ref_stidx) in sg.edges(stidx)`: the edge map of the state in
       hash order — oracle likewise;
     * the StorageT check of StateTable::new (statetable.rs:208
       `assert!(sg.all_states_len() < StorageT::max_value() - 1)`) is an
       explicit [Panic] w.r.t. the parameter [max_st];
     * `?` on Err(AcceptReduceConflict) is [Done None].
   FIRST / nullable are [first_ref]'s tables (proved exact; C17 ties YaccFirsts
   to them), as in C02's tie.  The usize-level checks of StateTable::new
   (`checked_mul(..).unwrap()` on states*tokens, `< usize::MAX - 4`) are index
   width matters (C20) and not modelled.

   [built_automaton]: the pair (StateGraph, StateTable) read as the automaton
   the LR interpreter of LR/Automaton.v runs on — what the harness dumps. *)
From Coq Require Import List Arith NArith Bool Lia.
From GV Require Import Common.Outcome Base.Grammar Base.Analyses LR.Automaton LR.Validator
  LR.CloseMirror C02.Model C02.LoopModel C02.InducedModel C03.Model C16.Model.
Import ListNotations.

(* ---- oracle orders made total --------------------------------------------------- *)

(* the first element satisfying f, and the rest *)
Fixpoint extract {A : Type} (f : A -> bool) (l : list A) : option (A * list A) :=
  match l with
  | [] => None
  | x :: l' =>
      if f x then Some (x, l')
      else match extract f l' with
           | Some (y, r) => Some (y, x :: r)
           | None => None
           end
  end.

(* the elements of l in the order in which the oracle names them *)
Fixpoint pick_order {K A : Type} (is : K -> A -> bool) (ks : list K) (l : list A) : list A :=
  match ks with
  | [] => l
  | k :: ks' =>
      match extract (is k) l with
      | Some (x, r) => x :: pick_order is ks' r
      | None => pick_order is ks' l
      end
  end.

Definition item_is (k : key) (i : item) : bool := N.eqb (fst k) (it_p i) && Nat.eqb (snd k) (it_d i).
Definition edge_is (X : sym) (e : sym * N) : bool := sym_eqb X (fst e).

(* per state: the key order of `state.items`, the key order of `sg.edges(stidx)` *)
Definition torder := (list key * list sym)%type.

(* ---- what StateTable::new reads off the graph -------------------------------------- *)

(* ctx.iter_set_bits(..) *)
Definition set_bits_of (g : grammar) (la : list N) : list N := filter (fun a => memN a la) (tidxs g).
Definition norm_item (g : grammar) (i : item) : item := (it_p i, it_d i, set_bits_of g (it_la i)).

Definition state_items (g : grammar) (cl : itemset) (ko : list key) : list item :=
  pick_order item_is ko (map (norm_item g) cl).
Definition state_edges (es : list (sym * nat)) (so : list sym) : list (sym * N) :=
  pick_order edge_is so (map (fun e => (fst e, N.of_nat (snd e))) es).

Fixpoint table_input (g : grammar) (sts : list (itemset * itemset)) (edges : list (list (sym * nat)))
  (tos : list torder) : list (list item * list (sym * N)) :=
  match sts, edges with
  | st :: sts', es :: edges' =>
      let o := hd ([], []) tos in
      (state_items g (snd st) (fst o), state_edges es (snd o)) :: table_input g sts' edges' (tl tos)
  | _, _ => []
  end.

(* ---- from_yacc ------------------------------------------------------------------------ *)

Record built := mkBuilt { b_graph : pgraph; b_table : ttable }.

Definition from_yacc_mirror (g : grammar) (tp pp : precs) (max_st : N) (fuel : nat)
  (orders : list (list key)) (tos : list torder) : outcome (option built) :=
  match first_ref g with
  | None => OutOfFuel
  | Some (nl, fs) =>
      do pg <- pager_mirror g nl fs max_st fuel orders;
      (* statetable.rs:208 *)
      if negb (N.of_nat (length (pg_states pg)) <? max_st - 1)%N then Panic else
      do ot <- table_mirror g tp pp (table_input g (pg_states pg) (pg_edges pg) tos);
      Done (option_map (mkBuilt pg) ot)
  end.

(* the precedences computed from the declarations (C03/Model.v: mirrors of
   parser.rs 590-632 and grammar.rs 327-342); [pn] = the %prec token of each
   production.  A %prec naming a token without precedence is the panic of
   `ast.precs[n]` (ruled out by the AST validation). *)
Fixpoint prod_precs (g : grammar) (tp : precs) (pn : list (option N)) (ps : list N)
  : outcome (list (N * prec)) :=
  match ps with
  | [] => Done []
  | p :: ps' =>
      do r <- prod_prec_mirror tp (nth (N.to_nat p) pn None) (rhs g p);
      do l <- prod_precs g tp pn ps';
      Done (match r with Some q => (p, q) :: l | None => l end)
  end.

Definition from_yacc_decl (g : grammar) (ds : list decl) (pn : list (option N)) (max_st : N)
  (fuel : nat) (orders : list (list key)) (tos : list torder) : outcome (option built) :=
  let tp := token_prec_mirror ds in
  do ppl <- prod_precs g tp pn (pidxs g);
  from_yacc_mirror g tp (precs_of ppl) max_st fuel orders tos.

(* ---- the automaton the parser runs on -------------------------------------------------- *)

Definition tb_goto (t : ttable) (s : nat) (r : N) : option N :=
  match nth_error (tb_rows t) s with Some row => assocN r (row_gotos row) | None => None end.

Definition built_automaton (b : built) : automaton :=
  {| nstates := N.of_nat (length (pg_states (b_graph b)));
     start := 0%N;
     closed := st_closed (b_graph b);
     core := st_core (b_graph b);
     edge := st_edge (b_graph b);
     action := fun s a => tb_cell (b_table b) (N.to_nat s) a;
     goto := fun s r => tb_goto (b_table b) (N.to_nat s) r |}.

(* conflicts(): None iff both vectors are empty (statetable.rs:375) *)
Definition reports_no_conflict (b : built) : bool :=
  match tb_rr (b_table b), tb_sr (b_table b) with [], [] => true | _, _ => false end.

(* the derived views (second half of StateTable::new, C16/Model.v [views_row]
   from the FINAL cells; state_actions = the bits set while the cells were
   first written, cleared again where the final cell is an error
   (statetable.rs:352, the repaired code)) *)
Definition built_views (g : grammar) (b : built) : views :=
  let row s := nth (N.to_nat s) (tb_rows (b_table b)) (mkRow (fun _ => Err) [] []) in
  {| v_actions := fun s => filter (fun a => nonerr (row_cells (row s) a) && memN a (tidxs g))
                                  (row_sa (row s));
     v_shifts := fun s => fst (fst (views_row g (tidxs g) (row_cells (row s))));
     v_core_reduces := fun s => snd (fst (views_row g (tidxs g) (row_cells (row s))));
     v_reduce_only := fun s => snd (views_row g (tidxs g) (row_cells (row s))) |}.
